// Demonstration for D33 (properties C17/C12): conn.release() hands the Zone strings of a connection's addresses
// to the byte-slice pool. For a client connection those strings are not gnet's: the remote zone is a substring of
// the address string the application passed to Dial, the local zone is the interface name cached by package net.
// The next small Get of the pool receives that memory and writes into it: the application's own string, the
// addresses of other live connections and net's zone cache change under everybody's feet.
package repro

import (
	"context"
	"fmt"
	"net"
	"strings"
	"sync/atomic"
	"testing"
	"time"

	"github.com/panjf2000/gnet/v2"
	"github.com/panjf2000/gnet/v2/pkg/pool/byteslice"
)

type srv struct {
	gnet.BuiltinEventEngine
	eng gnet.Engine
}

func (s *srv) OnBoot(e gnet.Engine) gnet.Action { s.eng = e; return gnet.None }

type cliH struct {
	gnet.BuiltinEventEngine
	closed atomic.Int32
}

func (h *cliH) OnClose(gnet.Conn, error) gnet.Action { h.closed.Add(1); return gnet.None }

func linkLocal(t *testing.T) (ip, zone string) {
	ifs, _ := net.Interfaces()
	for _, ifi := range ifs {
		if ifi.Flags&net.FlagLoopback != 0 || ifi.Flags&net.FlagUp == 0 {
			continue
		}
		addrs, _ := ifi.Addrs()
		for _, a := range addrs {
			if n, ok := a.(*net.IPNet); ok && n.IP.To4() == nil && n.IP.IsLinkLocalUnicast() {
				return n.IP.String(), ifi.Name
			}
		}
	}
	t.Skip("no IPv6 link-local address on this host")
	return
}

func TestD33ClientZoneStringsAreNotGnetsToRecycle(t *testing.T) {
	ip, zone := linkLocal(t)
	l, err := net.Listen("tcp6", fmt.Sprintf("[%s%%%s]:0", ip, zone))
	if err != nil {
		t.Skip(err)
	}
	port := l.Addr().(*net.TCPAddr).Port
	l.Close()
	s := &srv{}
	go func() { _ = gnet.Run(s, fmt.Sprintf("tcp6://[%s%%%s]:%d", ip, zone, port)) }()
	time.Sleep(300 * time.Millisecond)
	defer func() { ctx, cancel := context.WithTimeout(context.Background(), 2*time.Second); _ = s.eng.Stop(ctx); cancel() }()

	h := &cliH{}
	cli, err := gnet.NewClient(h)
	if err != nil {
		t.Fatal(err)
	}
	if err = cli.Start(); err != nil {
		t.Fatal(err)
	}
	defer cli.Stop()

	// the application's own address string (built at run time, so it lives on the heap)
	addr := strings.Clone(fmt.Sprintf("[%s%%%s]:%d", ip, zone, port))
	want := strings.Clone(addr)

	a, err := cli.Dial("tcp6", addr)
	if err != nil {
		t.Fatal(err)
	}
	b, err := cli.Dial("tcp6", addr)
	if err != nil {
		t.Fatal(err)
	}
	wantRemote := b.RemoteAddr().String()
	wantLocalZone := strings.Clone(b.LocalAddr().(*net.TCPAddr).Zone)

	_ = a.Close()
	for i := 0; i < 200 && h.closed.Load() == 0; i++ {
		time.Sleep(10 * time.Millisecond)
	}
	// "the next small allocation": what Peek/Next/itod do all the time inside the library
	for i := 0; i < 64; i++ {
		buf := byteslice.Get(len(zone))
		copy(buf, "XXXXXXXXXXXXXXXX")
	}

	if addr != want {
		t.Errorf("the application's own address string changed from %q to %q after a client connection was closed", want, addr)
	}
	if got := b.RemoteAddr().String(); got != wantRemote {
		t.Errorf("RemoteAddr() of the other, still open connection changed from %q to %q", wantRemote, got)
	}
	if got := b.LocalAddr().(*net.TCPAddr).Zone; got != wantLocalZone {
		t.Errorf("LocalAddr().Zone of the other, still open connection changed from %q to %q", wantLocalZone, got)
	}
	// package net's own zone cache
	c, err := net.Dial("tcp6", want)
	if err == nil {
		if z := c.LocalAddr().(*net.TCPAddr).Zone; z != zone {
			t.Errorf("a plain net.Dial now reports local zone %q instead of %q: net's interface-name cache was overwritten", z, zone)
		}
		c.Close()
	} else {
		t.Errorf("a plain net.Dial to %q now fails: %v", want, err)
	}
}
