// Demonstration for D3 (property C07): Client.EnrollContext and EventLoop.Enroll leak the duplicated
// descriptor on every error return taken after socket.Dup succeeded. A unixgram *net.UnixConn is
// dup'ed and then rejected by GetUnixSockAddr ("unixgram" unsupported).
package repro

import (
	"context"
	"net"
	"os"
	"path/filepath"
	"testing"
	"time"

	"github.com/panjf2000/gnet/v2"
)

func openFDs(t *testing.T) int {
	ents, err := os.ReadDir("/proc/self/fd")
	if err != nil {
		t.Fatal(err)
	}
	return len(ents)
}

type h struct {
	gnet.BuiltinEventEngine
	eng gnet.Engine
	el  chan gnet.EventLoop
}

func (x *h) OnBoot(e gnet.Engine) gnet.Action { x.eng = e; return gnet.None }
func (x *h) OnOpen(c gnet.Conn) ([]byte, gnet.Action) {
	select {
	case x.el <- c.EventLoop():
	default:
	}
	return nil, gnet.None
}

func dgramPair(t *testing.T, dir string, i int) net.Conn {
	p := filepath.Join(dir, "s.sock")
	_ = os.Remove(p)
	l, err := net.ListenUnixgram("unixgram", &net.UnixAddr{Name: p, Net: "unixgram"})
	if err != nil {
		t.Fatal(err)
	}
	t.Cleanup(func() { l.Close() })
	c, err := net.DialUnix("unixgram", nil, &net.UnixAddr{Name: p, Net: "unixgram"})
	if err != nil {
		t.Fatal(err)
	}
	return c
}

func TestD3ClientEnrollLeaksDupOnError(t *testing.T) {
	cli, err := gnet.NewClient(&h{})
	if err != nil {
		t.Fatal(err)
	}
	if err = cli.Start(); err != nil {
		t.Fatal(err)
	}
	defer cli.Stop()
	dir := t.TempDir()
	c := dgramPair(t, dir, 0)
	before := openFDs(t)
	const N = 50
	for i := 0; i < N; i++ {
		// Enroll closes c itself (defer c.Close()), so hand it a fresh dup each time
		f, err := c.(*net.UnixConn).File()
		if err != nil {
			t.Fatal(err)
		}
		nc, err := net.FileConn(f)
		f.Close()
		if err != nil {
			t.Fatal(err)
		}
		if _, err := cli.Enroll(nc); err == nil {
			t.Fatal("expected an error for a unixgram connection")
		}
	}
	after := openFDs(t)
	if after-before >= N {
		t.Errorf("%d failed Enroll calls leaked %d descriptors", N, after-before)
	}
}

func TestD3EventLoopEnrollLeaksDupOnError(t *testing.T) {
	x := &h{el: make(chan gnet.EventLoop, 1)}
	l, err := net.Listen("tcp", "127.0.0.1:0")
	if err != nil {
		t.Fatal(err)
	}
	addr := l.Addr().String()
	l.Close()
	go gnet.Run(x, "tcp://"+addr, gnet.WithReuseAddr(true))
	time.Sleep(300 * time.Millisecond)
	defer x.eng.Stop(context.Background())
	pc, err := net.Dial("tcp", addr)
	if err != nil {
		t.Fatal(err)
	}
	defer pc.Close()
	el := <-x.el
	dir := t.TempDir()
	c := dgramPair(t, dir, 0)
	before := openFDs(t)
	const N = 50
	for i := 0; i < N; i++ {
		f, _ := c.(*net.UnixConn).File()
		nc, err := net.FileConn(f)
		f.Close()
		if err != nil {
			t.Fatal(err)
		}
		ch, err := el.Enroll(context.Background(), nc)
		if err != nil {
			t.Fatal(err)
		}
		if r := <-ch; r.Err == nil {
			t.Fatal("expected an error for a unixgram connection")
		}
	}
	time.Sleep(100 * time.Millisecond)
	after := openFDs(t)
	if after-before >= N {
		t.Errorf("%d failed EventLoop.Enroll calls leaked %d descriptors", N, after-before)
	}
}
