// Server used by the D25 demonstration: echoes a large reply so that the outbound buffer fills
// (ModReadWrite) and later drains (ModRead). Prints one line per lifecycle event.
package main

import (
	"bytes"
	"fmt"
	"os"

	"github.com/panjf2000/gnet/v2"
)

type h struct{ gnet.BuiltinEventEngine }

func (h) OnBoot(gnet.Engine) gnet.Action { fmt.Println("BOOT"); return gnet.None }
func (h) OnOpen(c gnet.Conn) ([]byte, gnet.Action) {
	fmt.Println("OPEN")
	return nil, gnet.None
}
func (h) OnTraffic(c gnet.Conn) gnet.Action {
	_, _ = c.Discard(-1)
	_, _ = c.Write(bytes.Repeat([]byte{'x'}, 8<<20))
	return gnet.None
}
func (h) OnClose(c gnet.Conn, err error) gnet.Action {
	fmt.Printf("CLOSE err=%v\n", err)
	return gnet.None
}

func main() {
	if err := gnet.Run(&h{}, "tcp://"+os.Args[1], gnet.WithNumEventLoop(1), gnet.WithReuseAddr(true), gnet.WithLockOSThread(true)); err != nil {
		fmt.Println("RUN", err)
	}
}
