// Demonstration for D25 (property C18, rule C18.3): when the change of a connection's poll registration
// fails, (*eventloop).write just returns the error, Polling drops it, and the connection is neither closed
// nor reported. The failure is injected with strace's syscall tampering: strace is attached to the running
// server (event loops locked to their OS threads) after the connection has been accepted, and makes the
// second epoll_ctl of each thread fail. For the loop thread that is the EPOLL_CTL_MOD issued by ModRead once
// the reply has drained (the first one is the ModReadWrite issued when the reply was buffered).
package repro

import (
	"bufio"
	"io"
	"net"
	"os"
	"os/exec"
	"strconv"
	"strings"
	"sync"
	"testing"
	"time"
)

func TestD25ModReadFailureLeavesConnOpen(t *testing.T) {
	if _, err := exec.LookPath("strace"); err != nil {
		t.Skip("strace not available")
	}
	bin := t.TempDir() + "/server"
	b := exec.Command("go", "build", "-o", bin, "./server")
	b.Env = append(os.Environ(), "GOFLAGS=-mod=mod", "GOPROXY=off", "GOSUMDB=off", "GOTOOLCHAIN=local")
	if out, err := b.CombinedOutput(); err != nil {
		t.Fatalf("build: %v\n%s", err, out)
	}
	l, _ := net.Listen("tcp", "127.0.0.1:0")
	addr := l.Addr().String()
	l.Close()
	cmd := exec.Command(bin, addr)
	stdout, _ := cmd.StdoutPipe()
	if err := cmd.Start(); err != nil {
		t.Fatal(err)
	}
	defer func() { _ = cmd.Process.Kill(); _ = cmd.Wait() }()
	var mu sync.Mutex
	var lines []string
	go func() {
		sc := bufio.NewScanner(stdout)
		for sc.Scan() {
			mu.Lock()
			lines = append(lines, sc.Text())
			mu.Unlock()
		}
	}()
	var c net.Conn
	var err error
	for i := 0; i < 50; i++ {
		if c, err = net.Dial("tcp", addr); err == nil {
			break
		}
		time.Sleep(100 * time.Millisecond)
	}
	if err != nil {
		t.Fatal(err)
	}
	defer c.Close()
	time.Sleep(300 * time.Millisecond) // accepted and registered
	trace := t.TempDir() + "/trace"
	st := exec.Command("strace", "-f", "-p", strconv.Itoa(cmd.Process.Pid), "-o", trace, "-e", "trace=epoll_ctl", "-e", "inject=epoll_ctl:error=EPERM:when=2")
	if err := st.Start(); err != nil {
		t.Fatal(err)
	}
	defer func() { _ = st.Process.Kill(); _ = st.Wait() }()
	time.Sleep(700 * time.Millisecond) // attached
	_, _ = c.Write([]byte("go"))
	time.Sleep(300 * time.Millisecond) // let the server fill the socket and buffer the rest
	got := 0
	buf := make([]byte, 1<<16)
	for got < 8<<20 {
		_ = c.SetReadDeadline(time.Now().Add(3 * time.Second))
		n, err := c.Read(buf)
		got += n
		if err != nil {
			break
		}
	}
	// the reply has drained => the server issued ModRead, which failed with EPERM
	_ = c.SetReadDeadline(time.Now().Add(2 * time.Second))
	_, rerr := c.Read(buf)
	mu.Lock()
	log := strings.Join(lines, " | ")
	mu.Unlock()
	tr, _ := os.ReadFile(trace)
	if got != 8<<20 {
		t.Fatalf("setup: only %d bytes of the reply arrived (%s)", got, log)
	}
	injected := false
	for _, ln := range strings.Split(string(tr), "\n") {
		if strings.Contains(ln, "EPOLL_CTL_MOD") && strings.Contains(ln, "INJECTED") && !strings.Contains(ln, "EPOLLOUT") {
			injected = true
		}
	}
	if !injected {
		t.Skipf("the fault could not be injected into ModRead in this run; trace:\n%s", tr)
	}
	if !strings.Contains(log, "CLOSE err=") || rerr != io.EOF {
		t.Errorf("epoll_ctl(EPOLL_CTL_MOD) failed for the connection (EPERM injected into ModRead), but the connection was not closed: handler events %q, client read error %v (expected OnClose with a non-nil error and EOF at the peer)", log, rerr)
	} else if strings.Contains(log, "CLOSE err=<nil>") {
		t.Errorf("OnClose reported a nil error for an I/O-induced close: %q", log)
	}
}
