// Demonstration for D29 (properties C07/C19): Client.Stop is not idempotent. A second Stop closes the
// pollers' descriptor numbers again; whatever the application opened in between under those numbers is closed
// behind its back.
package repro

import (
	"os"
	"testing"

	"github.com/panjf2000/gnet/v2"
)

func TestD29ClientStopTwiceClosesForeignDescriptors(t *testing.T) {
	cli, err := gnet.NewClient(&h{})
	if err != nil {
		t.Fatal(err)
	}
	if err = cli.Start(); err != nil {
		t.Fatal(err)
	}
	if err = cli.Stop(); err != nil {
		t.Fatal(err)
	}
	// the application opens files: they get the lowest free numbers, i.e. the ones the pollers just released
	var files []*os.File
	for i := 0; i < 8; i++ {
		f, err := os.Open("/dev/null")
		if err != nil {
			t.Fatal(err)
		}
		files = append(files, f)
	}
	_ = cli.Stop() // e.g. a deferred Stop after an explicit one
	closed := 0
	for _, f := range files {
		if _, err := f.Stat(); err != nil {
			closed++
		}
	}
	if closed > 0 {
		t.Errorf("the second Client.Stop closed %d descriptor(s) that belong to the application", closed)
	}
}
