// Demonstration for D26 (property C19): Client.Enroll/Dial after Client.Stop never delivers a result – the
// register task is queued on a loop that has exited, and the call blocks forever instead of reporting the
// in-shutdown error (its server-side siblings EventLoop.Enroll/Register test isShutdown first).
package repro

import (
	"net"
	"testing"
	"time"

	"github.com/panjf2000/gnet/v2"
)

type h struct{ gnet.BuiltinEventEngine }

func TestD26ClientEnrollAfterStopHangs(t *testing.T) {
	cli, err := gnet.NewClient(&h{})
	if err != nil {
		t.Fatal(err)
	}
	if err = cli.Start(); err != nil {
		t.Fatal(err)
	}
	l, err := net.Listen("tcp", "127.0.0.1:0")
	if err != nil {
		t.Fatal(err)
	}
	defer l.Close()
	go func() {
		for {
			c, err := l.Accept()
			if err != nil {
				return
			}
			defer c.Close()
		}
	}()
	if err := cli.Stop(); err != nil {
		t.Fatal(err)
	}
	c, err := net.Dial("tcp", l.Addr().String())
	if err != nil {
		t.Fatal(err)
	}
	done := make(chan error, 1)
	go func() {
		_, err := cli.Enroll(c)
		done <- err
	}()
	select {
	case err := <-done:
		if err == nil {
			t.Errorf("Enroll on a stopped client returned a connection")
		} else {
			t.Logf("Enroll on a stopped client: %v", err)
		}
	case <-time.After(3 * time.Second):
		t.Errorf("Enroll on a stopped client delivered no result within 3s (blocked forever)")
	}
}
