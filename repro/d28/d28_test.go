// Demonstration for D28 (property C07): when opening the second listen address fails, createListeners
// returns the error but leaves the listeners it has already opened behind: Rotate returns an error and the
// first listening socket (and a unix socket file) stays open forever.
package repro

import (
	"context"
	"net"
	"os"
	"path/filepath"
	"syscall"
	"testing"
	"time"

	"github.com/panjf2000/gnet/v2"
)

type h struct {
	gnet.BuiltinEventEngine
	eng chan gnet.Engine
}

func (x *h) OnBoot(e gnet.Engine) gnet.Action {
	if x.eng != nil {
		x.eng <- e
	}
	return gnet.None
}

func openFDs(t *testing.T) int {
	ents, err := os.ReadDir("/proc/self/fd")
	if err != nil {
		t.Fatal(err)
	}
	return len(ents)
}

func TestD28RotateLeaksEarlierListeners(t *testing.T) {
	busy, err := net.Listen("tcp", "127.0.0.1:0")
	if err != nil {
		t.Fatal(err)
	}
	defer busy.Close()
	sock := filepath.Join(t.TempDir(), "gnet.sock")
	before := openFDs(t)
	const N = 20
	for i := 0; i < N; i++ {
		err := gnet.Rotate(&h{}, []string{"unix://" + sock, "tcp://" + busy.Addr().String()})
		if err == nil {
			t.Fatal("expected a bind error for the second address")
		}
	}
	after := openFDs(t)
	if after-before >= N {
		t.Errorf("%d failed Rotate calls leaked %d descriptors", N, after-before)
	}
	if _, err := os.Stat(sock); err == nil {
		t.Errorf("the unix socket file of the first listener was left behind although Rotate failed")
	}
}

func maxFD(t *testing.T) int {
	ents, _ := os.ReadDir("/proc/self/fd")
	m := 0
	for _, e := range ents {
		n := 0
		for _, ch := range e.Name() {
			n = n*10 + int(ch-'0')
		}
		if n > m {
			m = n
		}
	}
	return m
}

// D28b: SO_REUSEPORT mode creates one listener set and one poller per event loop. When creating the second
// loop fails (here: eventfd fails with EMFILE), the listener already created for that loop is not closed.
func TestD28bStartFailureLeaksPerLoopListener(t *testing.T) {
	// fill descriptor holes so that numbering is dense, then allow exactly 5 more descriptors:
	// listener#0, epoll#0, eventfd#0, listener#1, epoll#1  -> eventfd#1 fails
	var fillers []*os.File
	top := maxFD(t)
	for {
		f, err := os.Open("/dev/null")
		if err != nil {
			t.Fatal(err)
		}
		if int(f.Fd()) > top {
			f.Close()
			break
		}
		fillers = append(fillers, f)
	}
	defer func() {
		for _, f := range fillers {
			f.Close()
		}
	}()
	var old syscall.Rlimit
	_ = syscall.Getrlimit(syscall.RLIMIT_NOFILE, &old)
	failures := 0
	for extra := 3; extra <= 12; extra++ { // walk the failure point through the start-up sequence
		before := openFDs(t)
		lim := syscall.Rlimit{Cur: uint64(maxFD(t) + 1 + extra), Max: old.Max}
		if err := syscall.Setrlimit(syscall.RLIMIT_NOFILE, &lim); err != nil {
			t.Fatal(err)
		}
		hd := &h{eng: make(chan gnet.Engine, 1)}
		res := make(chan error, 1)
		go func() {
			res <- gnet.Run(hd, "tcp://127.0.0.1:0", gnet.WithReusePort(true), gnet.WithNumEventLoop(3))
		}()
		var err error
		select {
		case err = <-res:
		case <-time.After(time.Second):
			// enough descriptors: the engine is up; stop it and end the sweep
			_ = syscall.Setrlimit(syscall.RLIMIT_NOFILE, &old)
			e := <-hd.eng
			_ = e.Stop(context.Background())
			<-res
			extra = 100
			continue
		}
		_ = syscall.Setrlimit(syscall.RLIMIT_NOFILE, &old)
		if err == nil {
			t.Fatalf("Run returned nil with only %d spare descriptors", extra)
		}
		failures++
		if after := openFDs(t); after > before {
			t.Errorf("with %d spare descriptors Run failed during start-up (%v) and left %d descriptor(s) open", extra, err, after-before)
		}
	}
	if failures == 0 {
		t.Skip("could not provoke a start-up failure in this environment")
	}
}
