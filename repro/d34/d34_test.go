// Demonstration for D34 (property C07): a synchronous Conn.Write/Writev issued by the handler after an earlier
// Write of the same callback failed (and therefore closed the connection and its descriptor) goes to write(2)
// with the old descriptor number. Whatever was opened under that number in the meantime – here a file of the
// application, in a busy server typically another loop's freshly accepted connection – receives the bytes.
package repro

import (
	"net"
	"os"
	"sync/atomic"
	"testing"
	"time"

	"github.com/panjf2000/gnet/v2"
)

type srv struct {
	gnet.BuiltinEventEngine
	eng      gnet.Engine
	t        *testing.T
	closed   atomic.Int32
	leaked   atomic.Value // string
	firstErr atomic.Value
	done     chan struct{}
}

func (s *srv) OnBoot(e gnet.Engine) gnet.Action { s.eng = e; return gnet.None }
func (s *srv) OnClose(gnet.Conn, error) gnet.Action {
	s.closed.Add(1)
	return gnet.None
}

func (s *srv) OnTraffic(c gnet.Conn) gnet.Action {
	defer close(s.done)
	_, _ = c.Next(-1)
	fd := c.Fd()
	_, _ = c.Write([]byte("header")) // the peer has gone: this one provokes the RST
	time.Sleep(150 * time.Millisecond)
	_, err := c.Write([]byte("body")) // fails with EPIPE/ECONNRESET: the connection is closed right here
	if err == nil {
		s.firstErr.Store("second write unexpectedly succeeded")
		return gnet.None
	}
	if s.closed.Load() != 1 {
		s.firstErr.Store("the failed write did not close the connection")
		return gnet.None
	}
	// the application opens a file: it gets the lowest free number, the one just closed
	var f *os.File
	for i := 0; i < 64; i++ { // lower numbers may be free as well: fill them up
		g, ferr := os.CreateTemp("", "d34-*")
		if ferr != nil {
			s.firstErr.Store(ferr.Error())
			return gnet.None
		}
		defer os.Remove(g.Name())
		defer g.Close()
		if int(g.Fd()) == fd {
			f = g
			break
		}
	}
	if f == nil {
		s.firstErr.Store("descriptor number was not reused; cannot demonstrate on this run")
		return gnet.None
	}
	// a handler that does not check every Write error, as most do
	_, _ = c.Write([]byte("TOP-SECRET-REPLY"))
	_, _ = c.Writev([][]byte{[]byte("MORE-"), []byte("OF-IT")})
	content, _ := os.ReadFile(f.Name())
	s.leaked.Store(string(content))
	return gnet.None
}

func TestD34WriteAfterFailedWriteHitsForeignDescriptor(t *testing.T) {
	l, err := net.Listen("tcp", "127.0.0.1:0")
	if err != nil {
		t.Fatal(err)
	}
	addr := l.Addr().String()
	l.Close()
	s := &srv{t: t, done: make(chan struct{})}
	go func() { _ = gnet.Run(s, "tcp://"+addr) }()
	var c net.Conn
	for i := 0; i < 100; i++ {
		if c, err = net.Dial("tcp", addr); err == nil {
			break
		}
		time.Sleep(20 * time.Millisecond)
	}
	if err != nil {
		t.Fatal(err)
	}
	_, _ = c.Write([]byte("request"))
	c.Close() // the client is gone before the server answers
	select {
	case <-s.done:
	case <-time.After(5 * time.Second):
		t.Fatal("handler did not run")
	}
	if v := s.firstErr.Load(); v != nil {
		t.Skip(v.(string))
	}
	if got, _ := s.leaked.Load().(string); got != "" {
		t.Errorf("after the connection and its descriptor were closed, the framework wrote %q into a file the application opened under the reused descriptor number", got)
	}
}
