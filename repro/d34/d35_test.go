// Demonstration for D35 (property C07, recorded as a known finding, not repaired): the Socket methods of a Conn
// (SetWriteBuffer, SetReadBuffer, SetLinger, SetNoDelay, SetKeepAlive*, Dup) go straight to setsockopt(2)/dup(2) with
// c.fd. After the connection was closed they act on whoever owns that descriptor number now.
package repro

import (
	"net"
	"sync/atomic"
	"syscall"
	"testing"
	"time"

	"github.com/panjf2000/gnet/v2"
)

type srv35 struct {
	gnet.BuiltinEventEngine
	closed atomic.Int32
	note   atomic.Value
	before atomic.Int64
	after  atomic.Int64
	dupOK  atomic.Bool
	done   chan struct{}
}

func (s *srv35) OnClose(gnet.Conn, error) gnet.Action { s.closed.Add(1); return gnet.None }

func (s *srv35) OnTraffic(c gnet.Conn) gnet.Action {
	defer close(s.done)
	_, _ = c.Next(-1)
	fd := c.Fd()
	_, _ = c.Write([]byte("header"))
	time.Sleep(150 * time.Millisecond)
	if _, err := c.Write([]byte("body")); err == nil || s.closed.Load() != 1 {
		s.note.Store("could not provoke the failed write")
		return gnet.None
	}
	// somebody else's socket takes over the number
	foreign := -1
	var keep []int
	for i := 0; i < 64; i++ {
		sfd, err := syscall.Socket(syscall.AF_INET, syscall.SOCK_STREAM, 0)
		if err != nil {
			break
		}
		if sfd == fd {
			foreign = sfd
			break
		}
		keep = append(keep, sfd)
	}
	defer func() {
		for _, k := range keep {
			syscall.Close(k)
		}
		if foreign >= 0 {
			syscall.Close(foreign)
		}
	}()
	if foreign < 0 {
		s.note.Store("descriptor number was not reused")
		return gnet.None
	}
	v, _ := syscall.GetsockoptInt(foreign, syscall.SOL_SOCKET, syscall.SO_SNDBUF)
	s.before.Store(int64(v))
	_ = c.SetWriteBuffer(1 << 20) // on a connection that is closed
	v, _ = syscall.GetsockoptInt(foreign, syscall.SOL_SOCKET, syscall.SO_SNDBUF)
	s.after.Store(int64(v))
	if d, err := c.Dup(); err == nil { // a duplicate of somebody else's socket
		s.dupOK.Store(true)
		syscall.Close(d)
	}
	return gnet.None
}

func TestD35SocketMethodsOnClosedConnHitForeignDescriptor(t *testing.T) {
	l, err := net.Listen("tcp", "127.0.0.1:0")
	if err != nil {
		t.Fatal(err)
	}
	addr := l.Addr().String()
	l.Close()
	s := &srv35{done: make(chan struct{})}
	go func() { _ = gnet.Run(s, "tcp://"+addr) }()
	var c net.Conn
	for i := 0; i < 100; i++ {
		if c, err = net.Dial("tcp", addr); err == nil {
			break
		}
		time.Sleep(20 * time.Millisecond)
	}
	if err != nil {
		t.Fatal(err)
	}
	_, _ = c.Write([]byte("request"))
	c.Close()
	select {
	case <-s.done:
	case <-time.After(5 * time.Second):
		t.Fatal("handler did not run")
	}
	if v := s.note.Load(); v != nil {
		t.Skip(v.(string))
	}
	if s.before.Load() != s.after.Load() {
		t.Errorf("Conn.SetWriteBuffer on the closed connection changed SO_SNDBUF of a foreign socket from %d to %d", s.before.Load(), s.after.Load())
	}
	if s.dupOK.Load() {
		t.Errorf("Conn.Dup on the closed connection returned a duplicate of a foreign socket")
	}
}
