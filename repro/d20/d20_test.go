//go:build poll_opt

// Demonstration for D20 (property C07, rule C07.7): with the poll_opt build, OpenPoller calls
// poller.Close() when eventfd(2) fails, and Close dereferences the still-nil p.epa.
// RLIMIT_NOFILE is lowered so that epoll_create1 succeeds and eventfd fails with EMFILE.
package repro

import (
	"os"
	"syscall"
	"testing"

	"github.com/panjf2000/gnet/v2/pkg/netpoll"
)

func TestD20OpenPollerNilDerefWhenEventfdFails(t *testing.T) {
	ents, _ := os.ReadDir("/proc/self/fd")
	maxFD := 0
	for _, e := range ents {
		var n int
		for _, ch := range e.Name() {
			n = n*10 + int(ch-'0')
		}
		if n > maxFD {
			maxFD = n
		}
	}
	var old syscall.Rlimit
	if err := syscall.Getrlimit(syscall.RLIMIT_NOFILE, &old); err != nil {
		t.Fatal(err)
	}
	// allow exactly one more descriptor number (the epoll fd); eventfd then fails with EMFILE
	lim := syscall.Rlimit{Cur: uint64(maxFD + 2), Max: old.Max}
	// fill the holes below maxFD so that "one more" is exact
	var fillers []*os.File
	for {
		f, err := os.Open("/dev/null")
		if err != nil {
			break
		}
		if int(f.Fd()) > maxFD {
			f.Close()
			break
		}
		fillers = append(fillers, f)
	}
	if err := syscall.Setrlimit(syscall.RLIMIT_NOFILE, &lim); err != nil {
		t.Fatal(err)
	}
	defer func() {
		_ = syscall.Setrlimit(syscall.RLIMIT_NOFILE, &old)
		for _, f := range fillers {
			f.Close()
		}
	}()
	defer func() {
		if r := recover(); r != nil {
			t.Errorf("OpenPoller panicked instead of returning the eventfd error: %v", r)
		}
	}()
	p, err := netpoll.OpenPoller()
	if err == nil {
		_ = p.Close()
		t.Skip("could not make eventfd fail in this environment")
	}
	t.Logf("OpenPoller returned error as it should: %v", err)
}
