// Demonstration for D30 (property C06): a Shutdown action returned from OnOpen is dropped when the reply
// returned by the same OnOpen cannot be written because the peer has already reset the connection.
// eventloop.open then closes the connection and returns without looking at the action: Run never returns.
package repro

import (
	"context"
	"fmt"
	"net"
	"sync/atomic"
	"testing"
	"time"

	"github.com/panjf2000/gnet/v2"
)

type srv struct {
	gnet.BuiltinEventEngine
	opens    atomic.Int32
	closes   atomic.Int32
	shutdown atomic.Int32
	hold     chan struct{}
}

func (s *srv) OnOpen(c gnet.Conn) ([]byte, gnet.Action) {
	if s.opens.Add(1) == 1 {
		// keep the loop busy so that the second client connects and resets before it is accepted
		<-s.hold
		return nil, gnet.None
	}
	return []byte("bye\n"), gnet.Shutdown
}

func (s *srv) OnClose(gnet.Conn, error) gnet.Action { s.closes.Add(1); return gnet.None }
func (s *srv) OnShutdown(gnet.Engine)               { s.shutdown.Add(1) }

func freeAddr(t *testing.T) string {
	l, err := net.Listen("tcp", "127.0.0.1:0")
	if err != nil {
		t.Fatal(err)
	}
	defer l.Close()
	return l.Addr().String()
}

func run(t *testing.T, reset bool) {
	addr := freeAddr(t)
	s := &srv{hold: make(chan struct{})}
	done := make(chan error, 1)
	go func() { done <- gnet.Run(s, "tcp://"+addr, gnet.WithMulticore(false)) }()
	var first net.Conn
	var err error
	for i := 0; i < 100; i++ {
		if first, err = net.Dial("tcp", addr); err == nil {
			break
		}
		time.Sleep(20 * time.Millisecond)
	}
	if err != nil {
		t.Fatal(err)
	}
	defer first.Close()
	for s.opens.Load() == 0 {
		time.Sleep(5 * time.Millisecond)
	}
	// the loop is parked inside the first OnOpen; the second client completes the handshake in the backlog
	second, err := net.Dial("tcp", addr)
	if err != nil {
		t.Fatal(err)
	}
	if reset {
		_ = second.(*net.TCPConn).SetLinger(0) // close sends RST
		second.Close()
		time.Sleep(100 * time.Millisecond)
	} else {
		defer second.Close()
	}
	close(s.hold)
	select {
	case err := <-done:
		if err != nil {
			t.Errorf("Run returned %v", err)
		}
		if s.shutdown.Load() != 1 {
			t.Errorf("OnShutdown ran %d times", s.shutdown.Load())
		}
	case <-time.After(3 * time.Second):
		t.Errorf("OnOpen returned Shutdown for the second connection (opens=%d closes=%d) but Run did not return within 3s: the action was dropped",
			s.opens.Load(), s.closes.Load())
		ctx, cancel := context.WithTimeout(context.Background(), 2*time.Second)
		_ = gnet.Stop(ctx, "tcp://"+addr)
		cancel()
	}
}

func TestD30ShutdownFromOnOpenControl(t *testing.T)        { run(t, false) }
func TestD30ShutdownFromOnOpenPeerAlreadyReset(t *testing.T) { run(t, true) }

var _ = fmt.Sprint
