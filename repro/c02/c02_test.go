// Demonstrations for the outbound-path defects found by the C02 rules.
//   D21 (C02.6): conn.writev hands more than IOV_MAX segments to writev(2) -> EINVAL -> connection closed.
//   D23 (C02.1): the OnOpen reply is written directly although data written inside OnOpen is still buffered.
//   D24 (C02.5): level-triggered mode, ReadFrom + Flush leaves the rest buffered without write interest.
package repro

import (
	"bytes"
	"context"
	"io"
	"net"
	"testing"
	"time"

	"github.com/panjf2000/gnet/v2"
)

type srv struct {
	gnet.BuiltinEventEngine
	eng     gnet.Engine
	mode    string
	closeCh chan error
}

const big = 16 << 20

func (s *srv) OnBoot(e gnet.Engine) gnet.Action { s.eng = e; return gnet.None }
func (s *srv) OnClose(c gnet.Conn, err error) gnet.Action {
	select {
	case s.closeCh <- err:
	default:
	}
	return gnet.None
}
func (s *srv) OnOpen(c gnet.Conn) ([]byte, gnet.Action) {
	if s.mode == "d23" {
		_, _ = c.Write(bytes.Repeat([]byte{'A'}, big)) // partially buffered: the kernel cannot take 16 MiB at once
		time.Sleep(300 * time.Millisecond)              // a slow handler; meanwhile the peer drains the socket
		return []byte("BBBB"), gnet.None
	}
	return nil, gnet.None
}
func (s *srv) OnTraffic(c gnet.Conn) gnet.Action {
	_, _ = c.Discard(-1)
	switch s.mode {
	case "d21":
		segs := make([][]byte, 1500)
		for i := range segs {
			segs[i] = []byte{byte('a' + i%26)}
		}
		_, _ = c.Writev(segs)
	case "d24":
		_, _ = c.ReadFrom(bytes.NewReader(bytes.Repeat([]byte{'Z'}, big)))
		_ = c.Flush()
	}
	return gnet.None
}

func start(t *testing.T, mode string, opts ...gnet.Option) (*srv, string) {
	l, err := net.Listen("tcp", "127.0.0.1:0")
	if err != nil {
		t.Fatal(err)
	}
	addr := l.Addr().String()
	l.Close()
	s := &srv{mode: mode, closeCh: make(chan error, 1)}
	go gnet.Run(s, "tcp://"+addr, append(opts, gnet.WithReuseAddr(true), gnet.WithNumEventLoop(1))...)
	time.Sleep(300 * time.Millisecond)
	t.Cleanup(func() { s.eng.Stop(context.Background()) })
	return s, addr
}

func readN(c net.Conn, want int, idle time.Duration) []byte {
	var out []byte
	buf := make([]byte, 1<<16)
	for len(out) < want {
		_ = c.SetReadDeadline(time.Now().Add(idle))
		n, err := c.Read(buf)
		out = append(out, buf[:n]...)
		if err != nil {
			break
		}
	}
	return out
}

func TestD21WritevMoreThanIovMax(t *testing.T) {
	_, addr := start(t, "d21")
	c, err := net.Dial("tcp", addr)
	if err != nil {
		t.Fatal(err)
	}
	defer c.Close()
	_, _ = c.Write([]byte("go"))
	got := readN(c, 1500, 2*time.Second)
	if len(got) != 1500 {
		t.Errorf("Writev of 1500 one-byte segments delivered %d bytes (connection closed by the framework on EINVAL)", len(got))
	}
}

func TestD23OnOpenReplyOvertakesBufferedWrite(t *testing.T) {
	_, addr := start(t, "d23")
	c, err := net.Dial("tcp", addr)
	if err != nil {
		t.Fatal(err)
	}
	defer c.Close()
	got := readN(c, big+4, 3*time.Second)
	if i := bytes.Index(got, []byte("BBBB")); i != big {
		t.Errorf("received %d bytes; the OnOpen reply starts at offset %d instead of %d: it overtook data accepted earlier by Write", len(got), i, big)
	}
}

func TestD24FlushLeavesDataUnarmedInLT(t *testing.T) {
	_, addr := start(t, "d24")
	c, err := net.Dial("tcp", addr)
	if err != nil {
		t.Fatal(err)
	}
	defer c.Close()
	_, _ = c.Write([]byte("go"))
	time.Sleep(200 * time.Millisecond) // let the server fill the socket buffers first
	got := readN(c, big, 3*time.Second)
	if len(got) != big {
		t.Errorf("ReadFrom+Flush of %d bytes delivered only %d bytes; the rest stays in the outbound buffer forever", big, len(got))
	}
	_ = io.EOF
}
