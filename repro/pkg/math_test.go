// Demonstration for D9 (property C20, rule C20.1): FloorToPowerOfTwo is wrong above 2^32 on 64-bit targets.
package repro

import (
	"testing"

	"github.com/panjf2000/gnet/v2/pkg/math"
)

func TestD9FloorAbove32Bits(t *testing.T) {
	if ^uint(0)>>63 == 0 {
		t.Skip("32-bit target")
	}
	for _, n := range []int{1<<40 + 1, 1<<33 + 12345, 1<<62 - 1, 1 << 50} {
		got := math.FloorToPowerOfTwo(n)
		want := 1
		for want*2 <= n && want*2 > 0 {
			want *= 2
		}
		if got != want {
			t.Errorf("FloorToPowerOfTwo(%d) = %d, want %d", n, got, want)
		}
	}
}
