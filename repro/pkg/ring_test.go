// Demonstrations for the ring.Buffer defects found by the C09 rules (D5, D6, D22).
package repro

import (
	"bytes"
	"io"
	"testing"

	"github.com/panjf2000/gnet/v2/pkg/buffer/ring"
)

// D5 (C09.1): WriteByte on a full buffer of size >= 4096 asks grow for capacity 1: the size does not change.
func TestD5WriteByteOnFullBuffer(t *testing.T) {
	defer func() {
		if r := recover(); r != nil {
			t.Errorf("WriteByte on a full 4096-byte buffer panicked: %v", r)
		}
	}()
	rb := ring.New(4096)
	data := bytes.Repeat([]byte{'a'}, 4096)
	_, _ = rb.Write(data)
	if err := rb.WriteByte('b'); err != nil {
		t.Fatal(err)
	}
	if rb.Buffered() != 4097 {
		t.Errorf("Buffered() = %d after 4097 bytes were written", rb.Buffered())
	}
	got := rb.Bytes()
	if !bytes.Equal(got, append(data, 'b')) {
		t.Errorf("content differs after WriteByte on a full buffer (len %d)", len(got))
	}
}

type chunkReader struct{ chunks [][]byte }

func (c *chunkReader) Read(p []byte) (int, error) {
	if len(c.chunks) == 0 {
		return 0, io.EOF
	}
	n := copy(p, c.chunks[0])
	c.chunks = c.chunks[1:]
	return n, nil
}

// D6 (C09.2): ReadFrom's second read stores at buf[:r] although the first (short) read did not reach the end.
func TestD6ReadFromShortFirstRead(t *testing.T) {
	rb := ring.New(2048)
	_, _ = rb.Write(bytes.Repeat([]byte{'x'}, 1000))
	_, _ = rb.Read(make([]byte, 500)) // r = 500, w = 1000
	a, b := bytes.Repeat([]byte{'A'}, 10), bytes.Repeat([]byte{'B'}, 20)
	n, err := rb.ReadFrom(&chunkReader{chunks: [][]byte{a, b}})
	if err != nil || n != 30 {
		t.Fatalf("ReadFrom = %d, %v", n, err)
	}
	want := append(append(bytes.Repeat([]byte{'x'}, 500), a...), b...)
	got := rb.Bytes()
	if !bytes.Equal(got, want) {
		i := 0
		for i < len(got) && i < len(want) && got[i] == want[i] {
			i++
		}
		t.Errorf("content differs at offset %d of %d: got %q want %q", i, len(want), got[i:min(i+8, len(got))], want[i:min(i+8, len(want))])
	}
}

// D22 (C09.3): a reader that returns (0, EOF) on an empty buffer marks it non-empty: Buffered() == size.
func TestD22ReadFromEmptyReader(t *testing.T) {
	rb := ring.New(1024)
	n, err := rb.ReadFrom(&chunkReader{})
	if n != 0 || err != nil {
		t.Fatalf("ReadFrom = %d, %v", n, err)
	}
	if !rb.IsEmpty() || rb.Buffered() != 0 {
		t.Errorf("after reading nothing: IsEmpty=%v Buffered=%d (expected empty)", rb.IsEmpty(), rb.Buffered())
	}
}
