// Demonstration for D8 (property C10, rule C10.4): elastic.Buffer.WriteTo gives up with ErrIsEmpty when the
// ring half is empty although the list half holds data.
package repro

import (
	"bytes"
	"testing"

	"github.com/panjf2000/gnet/v2/pkg/buffer/elastic"
)

func TestD8WriteToWithEmptyRing(t *testing.T) {
	mb, _ := elastic.New(1024)
	first := bytes.Repeat([]byte{'r'}, 1024) // fills the ring up to the static limit
	second := bytes.Repeat([]byte{'l'}, 300) // goes to the list
	_, _ = mb.Write(first)
	_, _ = mb.Write(second)
	if n, _ := mb.Discard(1024); n != 1024 { // consume exactly the ring part
		t.Fatalf("Discard = %d", n)
	}
	if mb.Buffered() != 300 {
		t.Fatalf("Buffered = %d", mb.Buffered())
	}
	var out bytes.Buffer
	n, err := mb.WriteTo(&out)
	if err != nil || n != 300 || !bytes.Equal(out.Bytes(), second) {
		t.Errorf("WriteTo with 300 buffered bytes wrote %d bytes, err = %v", n, err)
	}
}
