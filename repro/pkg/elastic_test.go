// Demonstration for D8 (property C10, rule C10.4): elastic.Buffer.WriteTo gives up with ErrIsEmpty when the
// ring half is empty although the list half holds data.
package repro

import (
	"bytes"
	"testing"

	"github.com/panjf2000/gnet/v2/pkg/buffer/elastic"
)

func TestD8WriteToWithEmptyRing(t *testing.T) {
	mb, _ := elastic.New(1024)
	first := bytes.Repeat([]byte{'r'}, 1024) // fills the ring up to the static limit
	second := bytes.Repeat([]byte{'l'}, 300) // goes to the list
	_, _ = mb.Write(first)
	_, _ = mb.Write(second)
	if n, _ := mb.Discard(1024); n != 1024 { // consume exactly the ring part
		t.Fatalf("Discard = %d", n)
	}
	if mb.Buffered() != 300 {
		t.Fatalf("Buffered = %d", mb.Buffered())
	}
	var out bytes.Buffer
	n, err := mb.WriteTo(&out)
	if err != nil || n != 300 || !bytes.Equal(out.Bytes(), second) {
		t.Errorf("WriteTo with 300 buffered bytes wrote %d bytes, err = %v", n, err)
	}
}

// D7 (C10.7): Peek(n) with ring bytes < n <= Buffered() and n larger than the list part alone is refused.
func TestD7PeekAcrossRingAndList(t *testing.T) {
	mb, _ := elastic.New(1024)
	first := bytes.Repeat([]byte{'r'}, 1024) // ring
	second := bytes.Repeat([]byte{'l'}, 100) // list
	_, _ = mb.Write(first)
	_, _ = mb.Write(second)
	n := 1100 // <= Buffered() == 1124, but > 100 (the list part)
	bs, err := mb.Peek(n)
	if err != nil {
		t.Fatalf("Peek(%d) with Buffered()=%d failed: %v", n, mb.Buffered(), err)
	}
	var got []byte
	for _, b := range bs {
		got = append(got, b...)
	}
	want := append(append([]byte{}, first...), second[:76]...)
	if !bytes.Equal(got, want) {
		t.Errorf("Peek(%d) returned %d bytes, want the first %d", n, len(got), n)
	}
}
