// Demonstrations for the linkedlist.Buffer defects found by the C11 rules (D4, D4b).
package repro

import (
	"errors"
	"io"
	"testing"

	"github.com/panjf2000/gnet/v2/pkg/buffer/linkedlist"
)

type dataWithEOF struct {
	data []byte
	err  error
	done bool
}

func (d *dataWithEOF) Read(p []byte) (int, error) {
	if d.done {
		return 0, io.EOF
	}
	d.done = true
	return copy(p, d.data), d.err
}

// D4 (C11.1): bytes returned together with io.EOF (allowed by the io.Reader contract) or with an error are counted but dropped.
func TestD4ReadFromDataWithEOF(t *testing.T) {
	for _, e := range []error{io.EOF, errors.New("boom")} {
		var llb linkedlist.Buffer
		n, _ := llb.ReadFrom(&dataWithEOF{data: []byte("hello world"), err: e})
		if n != 11 {
			t.Fatalf("ReadFrom reported %d", n)
		}
		if llb.Buffered() != 11 {
			t.Errorf("reader returned 11 bytes together with %v: ReadFrom reported %d but stored %d", e, n, llb.Buffered())
		}
	}
}

type zeroThenData struct{ step int }

func (z *zeroThenData) Read(p []byte) (int, error) {
	z.step++
	switch z.step {
	case 1:
		return 0, nil // allowed (discouraged) by io.Reader
	default:
		return 0, io.EOF
	}
}

// D4b (C11.2): a (0, nil) read links an empty node: IsEmpty() == false with Buffered() == 0.
func TestD4bReadFromZeroRead(t *testing.T) {
	var llb linkedlist.Buffer
	_, _ = llb.ReadFrom(&zeroThenData{})
	if llb.Buffered() == 0 && !llb.IsEmpty() {
		t.Errorf("Buffered() == 0 but IsEmpty() == false (Len() = %d): an empty node was linked", llb.Len())
	}
}
