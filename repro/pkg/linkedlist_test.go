// Demonstrations for the linkedlist.Buffer defects found by the C11 rules (D4, D4b).
package repro

import (
	"bytes"
	"errors"
	"io"
	"testing"

	"github.com/panjf2000/gnet/v2/pkg/buffer/linkedlist"
)

type dataWithEOF struct {
	data []byte
	err  error
	done bool
}

func (d *dataWithEOF) Read(p []byte) (int, error) {
	if d.done {
		return 0, io.EOF
	}
	d.done = true
	return copy(p, d.data), d.err
}

// D4 (C11.1): bytes returned together with io.EOF (allowed by the io.Reader contract) or with an error are counted but dropped.
func TestD4ReadFromDataWithEOF(t *testing.T) {
	for _, e := range []error{io.EOF, errors.New("boom")} {
		var llb linkedlist.Buffer
		n, _ := llb.ReadFrom(&dataWithEOF{data: []byte("hello world"), err: e})
		if n != 11 {
			t.Fatalf("ReadFrom reported %d", n)
		}
		if llb.Buffered() != 11 {
			t.Errorf("reader returned 11 bytes together with %v: ReadFrom reported %d but stored %d", e, n, llb.Buffered())
		}
	}
}

type zeroThenData struct{ step int }

func (z *zeroThenData) Read(p []byte) (int, error) {
	z.step++
	switch z.step {
	case 1:
		return 0, nil // allowed (discouraged) by io.Reader
	default:
		return 0, io.EOF
	}
}

// D4b (C11.2): a (0, nil) read links an empty node: IsEmpty() == false with Buffered() == 0.
func TestD4bReadFromZeroRead(t *testing.T) {
	var llb linkedlist.Buffer
	_, _ = llb.ReadFrom(&zeroThenData{})
	if llb.Buffered() == 0 && !llb.IsEmpty() {
		t.Errorf("Buffered() == 0 but IsEmpty() == false (Len() = %d): an empty node was linked", llb.Len())
	}
}

// failAfter accepts the first k bytes it is offered and then fails, as io.Writer permits.
type failAfter struct {
	k   int
	got []byte
}

func (w *failAfter) Write(p []byte) (int, error) {
	if w.k <= 0 {
		return 0, errors.New("sink failed")
	}
	if len(p) > w.k {
		p = p[:w.k]
		w.got = append(w.got, p...)
		w.k = 0
		return len(p), errors.New("sink failed")
	}
	w.got = append(w.got, p...)
	w.k -= len(p)
	return len(p), nil
}

// D31 (C11): WriteTo pops a segment, hands it to the writer and, when the writer fails after taking only part
// of it (or nothing), forgets the segment: the bytes the writer did not take are gone.
func TestD31WriteToFailingWriterLosesTheRestOfTheSegment(t *testing.T) {
	var b linkedlist.Buffer
	b.PushBack([]byte("hello world"))
	b.PushBack([]byte("-second"))
	w := &failAfter{k: 4}
	n, err := b.WriteTo(w)
	if err == nil || n != 4 || string(w.got) != "hell" {
		t.Fatalf("WriteTo = %d, %v, sink %q", n, err, w.got)
	}
	if got, want := b.Buffered(), len("o world-second"); got != want {
		t.Errorf("after a WriteTo that moved 4 of 18 bytes, Buffered() = %d, want %d", got, want)
	}
	var rest bytes.Buffer
	if _, err := b.WriteTo(&rest); err != nil {
		t.Fatal(err)
	}
	if rest.String() != "o world-second" {
		t.Errorf("bytes left after the failed WriteTo: %q, want %q (the unwritten part of the first segment is lost)", rest.String(), "o world-second")
	}
}
