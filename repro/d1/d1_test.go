// Demonstration for D1/D2 (properties C04, C07): a connection closed from inside a callback through the
// public EventLoop.Close keeps being used by the loop. A pipe opened by the application right
// after the close reuses the descriptor number; gnet then reads the application's bytes from it.
package repro

import (
	"context"
	"net"
	"os"
	"sync/atomic"
	"syscall"
	"testing"
	"time"

	"github.com/panjf2000/gnet/v2"
)

type srv struct {
	gnet.BuiltinEventEngine
	eng      gnet.Engine
	traffic  atomic.Int32
	closed   atomic.Int32
	stolen   atomic.Value
	pr, pw   *os.File
	afterCls atomic.Int32
	onOpen   bool
	openOut  atomic.Int32
}

func (s *srv) OnBoot(e gnet.Engine) gnet.Action { s.eng = e; return gnet.None }

func (s *srv) OnOpen(c gnet.Conn) ([]byte, gnet.Action) {
	if !s.onOpen {
		return nil, gnet.None
	}
	s.pr, s.pw, _ = os.Pipe()
	_ = c.EventLoop().Close(c)
	_, _ = syscall.Dup(int(s.pw.Fd())) // lowest free number: reuses the connection's descriptor for the pipe's write end
	return []byte("REPLY-TO-CLOSED-CONN"), gnet.None
}

func (s *srv) OnClose(c gnet.Conn, err error) gnet.Action { s.closed.Add(1); return gnet.None }

func (s *srv) OnTraffic(c gnet.Conn) gnet.Action {
	if s.onOpen {
		return gnet.None
	}
	n := s.traffic.Add(1)
	if s.closed.Load() > 0 {
		s.afterCls.Add(1)
		b, _ := c.Next(-1)
		s.stolen.Store(string(b))
		return gnet.None
	}
	if n == 1 {
		_, _ = c.Discard(-1)
		_ = c.EventLoop().Close(c) // documented API, legal inside a callback
		s.pr, s.pw, _ = os.Pipe()  // reuses the descriptor number just closed
		_, _ = s.pw.Write([]byte("APPLICATION-SECRET"))
	}
	return gnet.None
}

func freeAddr(t *testing.T) string {
	l, err := net.Listen("tcp", "127.0.0.1:0")
	if err != nil {
		t.Fatal(err)
	}
	defer l.Close()
	return l.Addr().String()
}

func run(t *testing.T, s *srv, addr string) {
	go func() {
		if err := gnet.Run(s, addr, gnet.WithEdgeTriggeredIO(true), gnet.WithNumEventLoop(1), gnet.WithReuseAddr(true)); err != nil {
			t.Log("gnet.Run:", err)
		}
	}()
	time.Sleep(300 * time.Millisecond)
}

func TestD1ReadAfterCloseInOnTraffic(t *testing.T) {
	s := &srv{}
	addr := freeAddr(t)
	run(t, s, "tcp://"+addr)
	defer s.eng.Stop(context.Background())
	c, err := net.Dial("tcp", addr)
	if err != nil {
		t.Fatal(err)
	}
	defer c.Close()
	_, _ = c.Write([]byte("hello"))
	time.Sleep(500 * time.Millisecond)
	if n := s.afterCls.Load(); n != 0 {
		t.Errorf("OnTraffic delivered %d time(s) after OnClose for the same connection; bytes handed to the handler: %q (read from the application's own pipe)", n, s.stolen.Load())
	}
	if s.pr != nil {
		_ = s.pr.SetReadDeadline(time.Now().Add(200 * time.Millisecond))
		buf := make([]byte, 64)
		k, _ := s.pr.Read(buf)
		if string(buf[:k]) != "APPLICATION-SECRET" {
			t.Errorf("the application's pipe lost its data to the framework: got %q", buf[:k])
		}
	}
}

func TestD2WriteAfterCloseInOnOpen(t *testing.T) {
	s := &srv{onOpen: true}
	addr := freeAddr(t)
	run(t, s, "tcp://"+addr)
	defer s.eng.Stop(context.Background())
	c, err := net.Dial("tcp", addr)
	if err != nil {
		t.Fatal(err)
	}
	defer c.Close()
	time.Sleep(500 * time.Millisecond)
	if s.pr == nil {
		t.Fatal("OnOpen did not run")
	}
	// nothing must have been written into the application's pipe by the framework. The OnOpen reply is
	// written with write(2) on the connection's old number, which now is the pipe's *read* end (EBADF) or,
	// if numbering differs, the write end. Detect either through the pipe content or through strace; here
	// we check the observable: the peer must not receive a reply for a closed connection and the pipe stays empty.
	_ = s.pr.SetReadDeadline(time.Now().Add(200 * time.Millisecond))
	buf := make([]byte, 64)
	k, _ := s.pr.Read(buf)
	if k != 0 {
		t.Errorf("framework wrote %q into the application's pipe", buf[:k])
	}
}
