// Demonstration for D32 (property C17): an IPv6 address whose zone is a numeric index without an interface name
// does not survive net.Addr -> sockaddr -> net.Addr: itod() returns one byte too many in front of the digits.
package repro

import (
	"net"
	"testing"

	"github.com/panjf2000/gnet/v2/pkg/socket"
)

func TestD32NumericZoneRoundTrip(t *testing.T) {
	for _, zone := range []string{"999", "4242", "70000"} { // indices no interface of this host has
		if _, err := net.InterfaceByName(zone); err == nil {
			continue
		}
		in := &net.TCPAddr{IP: net.ParseIP("fe80::1"), Port: 8080, Zone: zone}
		sa := socket.TCPAddrToSockaddr(in)
		if sa == nil {
			t.Fatalf("zone %q: nil sockaddr", zone)
		}
		out, ok := socket.SockaddrToTCPOrUnixAddr(sa).(*net.TCPAddr)
		if !ok {
			t.Fatalf("zone %q: not a TCPAddr", zone)
		}
		if out.Zone != in.Zone {
			t.Errorf("zone %q came back as %q (len %d)", in.Zone, out.Zone, len(out.Zone))
		}
		// and once more: the damaged zone string no longer maps to the index at all
		again, _ := socket.SockaddrToTCPOrUnixAddr(socket.TCPAddrToSockaddr(out)).(*net.TCPAddr)
		if again != nil && again.Zone != in.Zone {
			t.Errorf("second round trip of zone %q yields %q", in.Zone, again.Zone)
		}
		u, _ := socket.SockaddrToUDPAddr(socket.UDPAddrToSockaddr(&net.UDPAddr{IP: in.IP, Port: 53, Zone: zone})).(*net.UDPAddr)
		if u == nil || u.Zone != zone {
			t.Errorf("UDP: zone %q came back as %+v", zone, u)
		}
	}
}
