// Demonstration for D36 (property C07): when setting the keep-alive options on a freshly opened listening socket
// fails (the kernel rejects an idle time above 32767 s with EINVAL), initListener returns the error together with the
// listener, its callers drop it, and the socket stays open: the port remains bound for the life of the process.
package repro

import (
	"net"
	"os"
	"testing"
	"time"

	"github.com/panjf2000/gnet/v2"
)

func openFDs() int {
	ents, _ := os.ReadDir("/proc/self/fd")
	return len(ents)
}

func TestD36ListenerLeaksWhenKeepAliveCannotBeSet(t *testing.T) {
	l, err := net.Listen("tcp", "127.0.0.1:0")
	if err != nil {
		t.Fatal(err)
	}
	addr := l.Addr().String()
	l.Close()
	before := openFDs()
	err = gnet.Run(&gnet.BuiltinEventEngine{}, "tcp://"+addr, gnet.WithTCPKeepAlive(10*time.Hour))
	if err == nil {
		t.Skip("the kernel accepted a 36000 s keep-alive idle time")
	}
	t.Logf("Run failed as expected: %v", err)
	if after := openFDs(); after != before {
		t.Errorf("%d descriptor(s) still open after the failed Run", after-before)
	}
	l2, err := net.Listen("tcp", addr)
	if err != nil {
		t.Errorf("the address of the failed Run is still bound: %v", err)
	} else {
		l2.Close()
	}
}
