module repro

go 1.23

require github.com/panjf2000/gnet/v2 v2.0.0

require (
	github.com/panjf2000/ants/v2 v2.12.1 // indirect
	go.uber.org/multierr v1.11.0 // indirect
	go.uber.org/zap v1.28.0 // indirect
	golang.org/x/sync v0.11.0 // indirect
	golang.org/x/sys v0.30.0 // indirect
	gopkg.in/natefinch/lumberjack.v2 v2.2.1 // indirect
)

replace github.com/panjf2000/gnet/v2 => /repo
