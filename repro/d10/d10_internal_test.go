package gnet

import (
	"hash/crc32"
	"testing"
)

type fakeAddr string

func (a fakeAddr) Network() string { return "tcp" }
func (a fakeAddr) String() string  { return string(a) }

// Demonstration for D10 (property C15, rule C15.2): on a 32-bit target the source-address hash can be
// MinInt32, whose negation is still negative, so eventLoops[hash % size] panics.
func TestD10SourceAddrHashNegativeIndex(t *testing.T) {
	if ^uint(0)>>32 != 0 {
		t.Skip("64-bit target: int(uint32) is never negative")
	}
	// find an address string whose CRC-32 is 0x80000000
	var addr string
	buf := []byte("10.0.0.1:00000000")
search:
	for i := 0; i < 1<<31-1; i++ {
		n := i
		for k := len(buf) - 1; k >= len(buf)-8; k-- {
			buf[k] = "0123456789abcdef"[n&15]
			n >>= 4
		}
		if crc32.ChecksumIEEE(buf) == 0x80000000 {
			addr = string(buf)
			break search
		}
	}
	if addr == "" {
		t.Skip("no colliding address found")
	}
	lb := new(sourceAddrHashLoadBalancer)
	for i := 0; i < 3; i++ {
		lb.register(new(eventloop))
	}
	defer func() {
		if r := recover(); r != nil {
			t.Errorf("next(%q) panicked: %v", addr, r)
		}
	}()
	if el := lb.next(fakeAddr(addr)); el == nil {
		t.Errorf("next(%q) returned nil", addr)
	}
}
