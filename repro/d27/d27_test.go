// Demonstration for D27 (property C07): initListener overwrites the error of ln.open() with the result of
// setKeepAlive(ln.fd, …). When opening the listener failed (address in use), the socket constructor has
// already closed the descriptor and ln.fd holds its stale number: the framework issues setsockopt on a
// descriptor number it no longer owns (EBADF here; whatever reuses the number in a busy process) and reports
// that error instead of the bind failure. With a descriptor that accepts the option the failure would be lost.
package repro

import (
	"context"
	"net"
	"os"
	"os/exec"
	"strings"
	"syscall"
	"testing"
	"time"

	"github.com/panjf2000/gnet/v2"
)

type h struct {
	gnet.BuiltinEventEngine
	eng gnet.Engine
}

func (x *h) OnBoot(e gnet.Engine) gnet.Action { x.eng = e; return gnet.None }

func TestD27Child(t *testing.T) {
	if os.Getenv("D27_CHILD") == "" {
		t.Skip("helper")
	}
	// descriptor 0 becomes a connected TCP socket
	l, _ := net.Listen("tcp", "127.0.0.1:0")
	defer l.Close()
	go func() { c, _ := l.Accept(); _ = c }()
	c, err := net.Dial("tcp", l.Addr().String())
	if err != nil {
		t.Fatal(err)
	}
	f, _ := c.(*net.TCPConn).File()
	if err := syscall.Dup2(int(f.Fd()), 0); err != nil {
		t.Fatal(err)
	}
	// a port that is already taken
	busy, _ := net.Listen("tcp", "127.0.0.1:0")
	defer busy.Close()
	hd := &h{}
	errCh := make(chan error, 1)
	go func() {
		errCh <- gnet.Run(hd, "tcp://"+busy.Addr().String(), gnet.WithTCPKeepAlive(time.Minute))
	}()
	select {
	case err := <-errCh:
		if err == nil {
			t.Fatal("RESULT: Run returned nil")
		}
		if !strings.Contains(err.Error(), "address already in use") {
			t.Fatalf("RESULT: Run reported %q instead of the bind failure: the error of opening the listener was overwritten by a setsockopt issued on the already closed descriptor number", err)
		}
		t.Logf("RESULT: Run failed as it should: %v", err)
	case <-time.After(2 * time.Second):
		if hd.eng != (gnet.Engine{}) {
			_ = hd.eng.Stop(context.Background())
		}
		t.Fatal("RESULT: Run is serving although binding the address failed (the bind error was overwritten by a setsockopt on descriptor 0)")
	}
}

func TestD27ErrorOfListenerOpenOverwritten(t *testing.T) {
	cmd := exec.Command(os.Args[0], "-test.run", "TestD27Child", "-test.v")
	cmd.Env = append(os.Environ(), "D27_CHILD=1")
	out, _ := cmd.CombinedOutput()
	s := string(out)
	i := strings.Index(s, "RESULT:")
	if i < 0 {
		t.Fatalf("child gave no result:\n%s", s)
	}
	line := s[i:]
	if j := strings.Index(line, "\n"); j > 0 {
		line = line[:j]
	}
	if !strings.Contains(line, "failed as it should") {
		t.Error(line)
	} else {
		t.Log(line)
	}
}
