#!/bin/bash
# usage: tools/seedcheck.sh <seed dir under /verif/seeded> [props]
# Applies the seeded patch to /repo, runs the quick checks, and undoes it straight afterwards.
set -u
S=/verif/seeded/$1
PROPS=${2:-all}
cd /repo || exit 3
if ! git diff --quiet; then echo "/repo has local changes"; exit 3; fi
git apply "$S/patch.diff" || { echo "patch does not apply"; exit 3; }
# the evidence files describe the unchanged tree: keep them aside while the seeded tree is checked
EV=$(mktemp -d); cp -a /verif/evidence/. "$EV"/
trap 'git -C /repo checkout -- . ; cp -a "$EV"/. /verif/evidence/ ; rm -rf "$EV"' EXIT
cd /verif && ./run -prop "$PROPS" -nomutants 2>&1 | grep -E "^==|^violated|^VIOLATION|^UNDECIDED|^KNOWN" | cut -c1-260
