#!/bin/bash
# usage: tools/benigncheck2.sh <dir with p*.diff> [tier]
# Like benigncheck.sh, but works in the scratch worktree /tmp/wt-bc (create it with
# `git -C /repo worktree add --detach /tmp/wt-bc HEAD`) and writes evidence to a scratch verif dir,
# so that it can run while /repo is in use.
set -u
DIR=$1; TIER=${2:-quick}
WT=/tmp/wt-bc; VV=/tmp/vv-bc
mkdir -p $VV && cp /verif/known_findings.json $VV/
cd $WT || exit 3
git checkout -q -- . ; git clean -fdq
for p in "$DIR"/p*.diff; do
  echo "### $p"
  git apply "$p" || { echo "patch does not apply"; continue; }
  ${GL:-/verif/bin/gnetlint} -repo $WT -verif $VV -prop all -tier "$TIER" -nomutants 2>&1 | grep -E "^violated|^UNDECIDED|^undecided" | cut -c1-330
  git checkout -q -- . ; git clean -fdq
done
