#!/usr/bin/env python3
"""Development aid (not a registered check): for the survivors of a `gnetlint -survey` run that live under pkg/,
run the fast package-level unit tests of gnet against each mutant in scratch copies under /tmp, so that
only mutants which pass those tests AND escape the rules are left for triage.
usage: tools/mutsuite.py <survey-result.json> <out.json> [jobs]"""
import json, os, shutil, subprocess, sys, threading, queue
res, out = sys.argv[1], sys.argv[2]
jobs = int(sys.argv[3]) if len(sys.argv) > 3 else 8
rows = [r for r in json.load(open(res)) if r['status'] == 'survived' and r['edits'][0]['file'].startswith('pkg/')
        and not r['edits'][0]['file'].startswith('pkg/socket') and not r['edits'][0]['file'].startswith('pkg/netpoll') and not r['edits'][0]['file'].startswith('pkg/io')]
env = dict(os.environ, GOFLAGS='-mod=mod', GOPROXY='off', GOSUMDB='off', GOTOOLCHAIN='local')
q = queue.Queue()
for r in rows: q.put(r)
lock = threading.Lock()
done = []
def worker(i):
    d = '/tmp/mutrun-%d' % i
    shutil.rmtree(d, ignore_errors=True)
    subprocess.run(['rsync', '-a', '--exclude', '.git', '/repo/', d + '/'], check=True)
    while True:
        try: r = q.get_nowait()
        except queue.Empty: break
        e = r['edits'][0]
        path = os.path.join(d, e['file'])
        src = open(os.path.join('/repo', e['file']), 'rb').read()
        open(path, 'wb').write(src[:e['start']] + e['new'].encode() + src[e['end']:])
        try:
            p = subprocess.run(['go', 'test', '-vet=off', '-count=1', '-timeout', '60s', './pkg/buffer/...', './pkg/math/...', './pkg/queue/...', './pkg/pool/...'],
                               cwd=d, env=env, capture_output=True, text=True, timeout=180)
            r['tests'] = 'pass' if p.returncode == 0 else 'fail'
        except subprocess.TimeoutExpired:
            r['tests'] = 'fail'
        open(path, 'wb').write(src)
        with lock:
            done.append(r)
            if len(done) % 25 == 0: print(len(done), '/', len(rows), file=sys.stderr, flush=True)
    shutil.rmtree(d, ignore_errors=True)
ts = [threading.Thread(target=worker, args=(i,)) for i in range(jobs)]
[t.start() for t in ts]; [t.join() for t in ts]
json.dump(done, open(out, 'w'), indent=1)
print('pass(tests)+survived(rules):', sum(1 for r in done if r['tests'] == 'pass'), 'of', len(done))
