#!/usr/bin/env python3
"""Development aid (not a registered check): run gnet's own root-package test suite against mutants that escape
the rules, each in a scratch copy under /var/tmp and in a private network namespace (tools/nssuite.sh), so that
the mutants which pass the existing tests AND escape the rules are known exactly.
usage: tools/mutroot.py <mutants.json> <out.jsonl> [jobs]   (mutants.json: list of survey rows to run, in order)"""
import json, os, shutil, subprocess, sys, threading, queue, time
src, out = sys.argv[1], sys.argv[2]
jobs = int(sys.argv[3]) if len(sys.argv) > 3 else 8
rows = json.load(open(src))
done_ids = set()
if os.path.exists(out):
    for l in open(out):
        try: done_ids.add(json.loads(l)['id'])
        except Exception: pass
q = queue.Queue()
for r in rows:
    if r['id'] not in done_ids: q.put(r)
lock = threading.Lock()
env = dict(os.environ, GOFLAGS='-mod=mod', GOPROXY='off', GOSUMDB='off', GOTOOLCHAIN='local')
def worker(i):
    d = '/var/tmp/mutroot-%d' % i
    shutil.rmtree(d, ignore_errors=True)
    subprocess.run(['rsync', '-a', '--exclude', '.git', '/repo/', d + '/'], check=True)
    while True:
        try: r = q.get_nowait()
        except queue.Empty: break
        e = r['edits'][0]
        path = os.path.join(d, e['file'])
        orig = open(path, 'rb').read()
        open(path, 'wb').write(orig[:e['start']] + e['new'].encode() + orig[e['end']:])
        t0 = time.time()
        tags = ['-tags', 'poll_opt'] if 'ultimate' in e['file'] else (['-tags', 'gc_opt'] if 'conn_matrix' in e['file'] else [])
        try:
            p = subprocess.run(['/verif/tools/nssuite.sh', d, '-failfast', '-timeout', '12m', '-skip', 'TestBindToDevice'] + tags + ['.'],
                               env=env, capture_output=True, text=True, timeout=900)
            r['suite'] = 'pass' if p.returncode == 0 else 'fail'
            if p.returncode != 0:
                tail = [l for l in p.stdout.splitlines() if l.startswith('--- FAIL') or l.startswith('panic:') or 'build failed' in l][:2]
                r['why'] = ' | '.join(tail)[:200]
        except subprocess.TimeoutExpired:
            r['suite'] = 'fail'; r['why'] = 'timeout'
        r['secs'] = int(time.time() - t0)
        open(path, 'wb').write(orig)
        with lock:
            with open(out, 'a') as fh: fh.write(json.dumps(r) + '\n')
    shutil.rmtree(d, ignore_errors=True)
ts = [threading.Thread(target=worker, args=(i,)) for i in range(jobs)]
[t.start() for t in ts]; [t.join() for t in ts]
print('done')
