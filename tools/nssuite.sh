#!/bin/bash
# Development aid: run gnet's own test suite for the tree in <dir> inside a private network namespace,
# so that several runs (each binding the suite's fixed TCP/UDP ports) can go on side by side.
# usage: tools/nssuite.sh <dir> [go test args...]   (default args: ./...)
d=$1; shift
args=${*:-./...}
export GOFLAGS=-mod=mod GOPROXY=off GOSUMDB=off GOTOOLCHAIN=local
exec unshare -n sh -c "ip link set lo up && ip route add 224.0.0.0/4 dev lo; cd '$d' && go test -vet=off -count=1 $args"
