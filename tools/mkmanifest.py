#!/usr/bin/env python3
"""Regenerates /verif/MANIFEST.json from the rule registry (gnetlint -list) and tools/props.json."""
import json, subprocess, sys, os
V = os.path.dirname(os.path.dirname(os.path.abspath(__file__)))
props = [json.loads(l) for l in open(os.path.join(V, 'properties.jsonl'))]
meta = json.load(open(os.path.join(V, 'tools', 'props.json')))
out = subprocess.run([os.path.join(V, 'run'), '-list'], capture_output=True, text=True, check=True).stdout
claimed = {}
for line in out.splitlines():
    rid = line.split()[0]
    claimed.setdefault(rid.split('.')[0], []).append(rid)
baseline = json.load(open('/root/.vp/BASELINE.json'))['cmd']
checks, na = [], []
for p in props:
    pid = p['id']
    m = meta.get(pid, {})
    if pid in claimed and not m.get('not_applicable'):
        checks.append({
            "property_id": pid,
            "quick_cmd": f"./run -prop {pid} -tier quick",
            "thorough_cmd": f"./run -prop {pid} -tier thorough",
            "evidence_file": f"/verif/evidence/{pid}.json",
            "replay_cmd_template": "./run -replay {path}",
            "engine": "gnetlint",
            "level_claimed": {
                "category": "other",
                "text": m.get('text', ''),
                "design_ref": f"DESIGN.md §4 {pid}",
            },
            "level_note": m.get('note', ''),
            "technique": m.get('technique', 'static analysis: custom rules over go/types + go/cfg + go/ssa'),
        })
    else:
        na.append({"property_id": pid, "reason": m.get('not_applicable', 'no structural rule built yet for this property; nothing is claimed')})
man = {
    "version": 1,
    "setup_cmd": "cd /verif/lint && GOFLAGS=-mod=mod GOPROXY=off GOSUMDB=off GOTOOLCHAIN=local GOWORK=off go build -o /verif/bin/gnetlint ./cmd/gnetlint",
    "hooks": {
        "guard": "verif",
        "enable": "none needed: the checks are static analyses of /repo's working tree; no instrumentation is compiled in",
        "baseline_off_cmd": baseline,
        "source_commits": [],
        "add_only": True,
    },
    "engines": [{
        "name": "gnetlint",
        "path": "/verif/lint",
        "serves_properties": sorted(c["property_id"] for c in checks),
        "kind_free_text": "repository-specific static analyser (go/packages type-checked AST, go/cfg with split conditions and a bitset dataflow solver, go/ssa access index, VTA call graph); one process per build configuration; overlay mutants as self-test",
    }],
    "checks": checks,
    "not_applicable": na,
    "notes": "All claims are at level 'other': each check decides structural necessary conditions of its property (see DESIGN.md §4/§5), never the behavioural property as a whole. Exit 0 = all obligations discharged or listed in known_findings.json; 1 = VIOLATION; 2 = UNDECIDED (anchor lost / canary mutant survived). No hooks were added to /repo; the only changes there are unguarded `fix:` commits, one per repaired defect, each listed as a `fixed:` entry of known_findings.json with its demonstration under /verif/repro (DESIGN.md §13). One defect (D35, seven Socket methods) is recorded as a known finding instead of repaired.",
}
json.dump(man, open(os.path.join(V, 'MANIFEST.json'), 'w'), indent=1)
try:
    import jsonschema
    jsonschema.validate(man, json.load(open('/root/.vp/MANIFEST.schema.json')))
    print("MANIFEST.json valid;", len(checks), "claimed,", len(na), "not applicable")
except ImportError:
    print("MANIFEST.json written (jsonschema not available)")
