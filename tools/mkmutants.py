#!/usr/bin/env python3
"""Compiles tools/mutants/*.py (python literals, readable multi-line strings) into lint/mutants/*.json."""
import json, glob, os, runpy
V = os.path.dirname(os.path.dirname(os.path.abspath(__file__)))
for src in sorted(glob.glob(os.path.join(V, 'tools', 'mutants', '*.py'))):
    ms = runpy.run_path(src)['MUTANTS']
    ids = [m['id'] for m in ms]
    assert len(ids) == len(set(ids)), src
    out = os.path.join(V, 'lint', 'mutants', os.path.basename(src)[:-3] + '.json')
    json.dump(ms, open(out, 'w'), indent=1)
    print(out, len(ms))
