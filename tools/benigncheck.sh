#!/bin/bash
# usage: tools/benigncheck.sh <dir with p*.diff> [tier]
# Applies each behaviour-preserving patch to /repo in turn, runs all checks, undoes it straight afterwards.
# Any violated/UNDECIDED line is a false alarm of the machinery.
set -u
DIR=$1; TIER=${2:-quick}
cd /repo || exit 3
if ! git diff --quiet; then echo "/repo has local changes"; exit 3; fi
EV=$(mktemp -d); cp -a /verif/evidence/. "$EV"/
trap 'git -C /repo checkout -- . ; git -C /repo clean -fdq ; cp -a "$EV"/. /verif/evidence/ ; rm -rf "$EV"' EXIT
for p in "$DIR"/p*.diff; do
  echo "### $p"
  git -C /repo apply "$p" || { echo "patch does not apply"; continue; }
  (cd /verif && ./run -prop all -tier "$TIER" -nomutants 2>&1 | grep -E "^violated|^VIOLATION|^UNDECIDED|^undecided" | cut -c1-330)
  git -C /repo checkout -- . ; git -C /repo clean -fdq
done
