package core

import (
	"go/token"
	"go/types"
	"sort"
	"strings"

	"golang.org/x/tools/go/callgraph"
	"golang.org/x/tools/go/callgraph/cha"
	"golang.org/x/tools/go/callgraph/vta"
	"golang.org/x/tools/go/ssa"
	"golang.org/x/tools/go/ssa/ssautil"
)

// SSAInfo is the SSA form of the whole program plus indexes over module functions.
type SSAInfo struct {
	Prog     *ssa.Program
	ModFuncs []*ssa.Function // every function/closure whose package is in the module, sorted
	cg       *callgraph.Graph
	acc      []FieldAccess
	accDone  bool
	p        *Program
}

type AccessKind int

const (
	AccRead   AccessKind = iota // plain load
	AccWrite                    // plain store
	AccAtomic                   // address handed to sync/atomic (function or typed-atomic method)
	AccAddr                     // address taken for something else (method call on the field, escape)
)

func (k AccessKind) String() string {
	return [...]string{"read", "write", "atomic", "addr"}[k]
}

// FieldAccess is one syntactic access of a struct field (or package-level var when Global != nil).
type FieldAccess struct {
	Fn     *ssa.Function
	Field  *types.Var
	Global *ssa.Global
	Kind   AccessKind
	Pos    token.Pos
	Instr  ssa.Instruction
	Base   ssa.Value // the struct pointer / value the field is selected from (nil for globals)
	// Callee is set for AccAddr accesses that are receiver/argument of a static call.
	Callee *ssa.Function
}

// BuildSSA builds SSA for all packages of the program (idempotent).
func (p *Program) BuildSSA() *SSAInfo {
	if p.SSA != nil {
		return p.SSA
	}
	prog, _ := ssautil.AllPackages(p.All, ssa.InstantiateGenerics)
	prog.Build()
	info := &SSAInfo{Prog: prog, p: p}
	for fn := range ssautil.AllFunctions(prog) {
		if fn.Pkg != nil && strings.HasPrefix(fn.Pkg.Pkg.Path(), ModPath) && fn.Blocks != nil {
			info.ModFuncs = append(info.ModFuncs, fn)
		} else if fn.Pkg == nil && fn.Origin() != nil && fn.Origin().Pkg != nil &&
			strings.HasPrefix(fn.Origin().Pkg.Pkg.Path(), ModPath) && fn.Blocks != nil {
			info.ModFuncs = append(info.ModFuncs, fn)
		}
	}
	sort.Slice(info.ModFuncs, func(i, j int) bool {
		a, b := info.ModFuncs[i], info.ModFuncs[j]
		if a.String() != b.String() {
			return a.String() < b.String()
		}
		return a.Pos() < b.Pos()
	})
	p.SSA = info
	return info
}

// CallGraph returns the VTA-over-CHA call graph (built once).
func (s *SSAInfo) CallGraph() *callgraph.Graph {
	if s.cg == nil {
		s.cg = vta.CallGraph(ssautil.AllFunctions(s.Prog), cha.CallGraph(s.Prog))
	}
	return s.cg
}

// FuncOf returns the SSA function for a types.Func of the module.
func (s *SSAInfo) FuncOf(fn *types.Func) *ssa.Function {
	if fn == nil {
		return nil
	}
	return s.Prog.FuncValue(fn)
}

// IsAtomicCallee reports whether callee belongs to sync/atomic.
func IsAtomicCallee(f *ssa.Function) bool {
	if f == nil {
		return false
	}
	if f.Pkg != nil {
		return f.Pkg.Pkg.Path() == "sync/atomic"
	}
	if o := f.Origin(); o != nil && o.Pkg != nil {
		return o.Pkg.Pkg.Path() == "sync/atomic"
	}
	if f.Object() != nil && f.Object().Pkg() != nil {
		return f.Object().Pkg().Path() == "sync/atomic"
	}
	return false
}

func isAtomicType(t types.Type) bool {
	if p, ok := t.(*types.Pointer); ok {
		t = p.Elem()
	}
	n, ok := t.(*types.Named)
	return ok && n.Obj().Pkg() != nil && n.Obj().Pkg().Path() == "sync/atomic"
}

// Accesses returns every field/global access in module functions.
func (s *SSAInfo) Accesses() []FieldAccess {
	if s.accDone {
		return s.acc
	}
	s.accDone = true
	for _, fn := range s.ModFuncs {
		for _, b := range fn.Blocks {
			for _, in := range b.Instrs {
				switch v := in.(type) {
				case *ssa.FieldAddr:
					st := structOf(v.X.Type())
					if st == nil {
						continue
					}
					fld := st.Field(v.Field)
					s.classifyAddr(fn, v, fld, nil, v.X)
				case *ssa.Field:
					st := structOf(v.X.Type())
					if st == nil {
						continue
					}
					s.acc = append(s.acc, FieldAccess{Fn: fn, Field: st.Field(v.Field), Kind: AccRead, Pos: v.Pos(), Instr: v, Base: v.X})
				}
			}
		}
	}
	// globals: find every instruction operand that is a *ssa.Global of the module
	for _, fn := range s.ModFuncs {
		for _, b := range fn.Blocks {
			for _, in := range b.Instrs {
				for _, op := range in.Operands(nil) {
					g, ok := (*op).(*ssa.Global)
					if !ok || g.Pkg == nil || !strings.HasPrefix(g.Pkg.Pkg.Path(), ModPath) {
						continue
					}
					s.classifyUse(fn, g, in, nil, g, nil)
				}
			}
		}
	}
	return s.acc
}

func structOf(t types.Type) *types.Struct {
	if p, ok := t.Underlying().(*types.Pointer); ok {
		t = p.Elem()
	}
	st, _ := t.Underlying().(*types.Struct)
	return st
}

func (s *SSAInfo) classifyAddr(fn *ssa.Function, addr ssa.Value, fld *types.Var, g *ssa.Global, base ssa.Value) {
	refs := addr.Referrers()
	if refs == nil || len(*refs) == 0 {
		s.acc = append(s.acc, FieldAccess{Fn: fn, Field: fld, Global: g, Kind: AccAddr, Pos: addr.Pos(), Base: base})
		return
	}
	for _, r := range *refs {
		s.classifyUse(fn, addr, r, fld, g, base)
	}
}

// classifyUse classifies one referrer r of the address value addr.
func (s *SSAInfo) classifyUse(fn *ssa.Function, addr ssa.Value, r ssa.Instruction, fld *types.Var, g *ssa.Global, base ssa.Value) {
	pos := r.Pos()
	if !pos.IsValid() {
		pos = addr.Pos()
	}
	fa := FieldAccess{Fn: fn, Field: fld, Global: g, Pos: pos, Instr: r, Base: base}
	switch u := r.(type) {
	case *ssa.Store:
		if u.Addr == addr {
			fa.Kind = AccWrite
		} else {
			fa.Kind = AccAddr // address stored somewhere
		}
	case *ssa.UnOp:
		if u.Op == token.MUL {
			if rr := u.Referrers(); rr == nil || len(*rr) == 0 {
				// a load nobody uses: go/ssa emits one for `for i := range x.arr` over an array field,
				// where the language does not even evaluate the operand (its length is a constant)
				return
			}
			fa.Kind = AccRead
		} else {
			fa.Kind = AccAddr
		}
	case ssa.CallInstruction:
		cc := u.Common()
		callee := cc.StaticCallee()
		fa.Callee = callee
		if IsAtomicCallee(callee) {
			fa.Kind = AccAtomic
		} else {
			fa.Kind = AccAddr
		}
	case *ssa.IndexAddr:
		// &field[i] (array field) -> classify through the element address
		if u.X == addr {
			rr := u.Referrers()
			if rr != nil {
				for _, r2 := range *rr {
					s.classifyUse(fn, u, r2, fld, g, base)
				}
			}
			return
		}
		fa.Kind = AccAddr
	case *ssa.FieldAddr:
		// nested struct field: the outer field is only traversed; the inner FieldAddr is indexed separately
		if fld != nil && isAtomicType(fld.Type()) {
			fa.Kind = AccAtomic
		} else {
			fa.Kind = AccAddr
		}
	case *ssa.DebugRef:
		return
	default:
		fa.Kind = AccAddr
	}
	s.acc = append(s.acc, fa)
}

// EnclosingTop returns the outermost named function containing fn (closures map to their parent).
func EnclosingTop(fn *ssa.Function) *ssa.Function {
	for fn.Parent() != nil {
		fn = fn.Parent()
	}
	return fn
}

// SSAName renders a stable, readable name for an SSA function.
func SSAName(fn *ssa.Function) string {
	if fn == nil {
		return "?"
	}
	s := fn.String()
	if o := fn.Object(); o != nil {
		if cn := CanonName(o); cn != o.Name() && strings.HasSuffix(s, "."+o.Name()) {
			s = strings.TrimSuffix(s, o.Name()) + cn // a baseline function under a new name (rename.go)
		}
	}
	s = strings.ReplaceAll(s, ModPath+"/pkg/", "")
	s = strings.ReplaceAll(s, ModPath+"/internal/", "")
	s = strings.ReplaceAll(s, ModPath, "gnet")
	return s
}

// SSAHostName is SSAName, except that an unexported function outside the baseline which is used by exactly
// one baseline function (a helper a maintainer split off) answers with that function's name: tables
// that grant a named baseline function an exception cover the statements moved into its helper.
func SSAHostName(fn *ssa.Function) string {
	if fn == nil {
		return "?"
	}
	top := EnclosingTop(fn)
	o, _ := top.Object().(*types.Func)
	h := helperHost[o]
	if o == nil || h == nil || top.Prog == nil {
		return SSAName(fn)
	}
	if hf := top.Prog.FuncValue(h); hf != nil {
		if top == fn {
			return SSAName(hf)
		}
	}
	return SSAName(fn)
}
