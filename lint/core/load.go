// Package core holds the loader, the obligation/report model and the
// evidence writer shared by all rules.
package core

import (
	"fmt"
	"go/ast"
	"go/token"
	"go/types"
	"os"
	"sort"
	"strings"

	"golang.org/x/tools/go/packages"
)

const ModPath = "github.com/panjf2000/gnet/v2"

// Config is one build configuration of /repo.
type Config struct {
	GOOS, GOARCH string
	Tags         string // comma separated
}

func (c Config) String() string {
	t := c.Tags
	if t == "" {
		t = "-"
	}
	return c.GOOS + "/" + c.GOARCH + "/" + t
}

// Class is the config class used in known-finding keys.
func (c Config) Is32() bool { return c.GOARCH == "386" || c.GOARCH == "arm" }
func (c Config) HasTag(t string) bool {
	for _, x := range strings.Split(c.Tags, ",") {
		if x == t {
			return true
		}
	}
	return false
}
func (c Config) IsLinux() bool { return c.GOOS == "linux" }

func ParseConfig(s string) (Config, error) {
	p := strings.Split(s, "/")
	if len(p) != 3 {
		return Config{}, fmt.Errorf("bad config %q", s)
	}
	c := Config{GOOS: p[0], GOARCH: p[1], Tags: p[2]}
	if c.Tags == "-" {
		c.Tags = ""
	}
	return c, nil
}

// Program is the type-checked module under one configuration.
type Program struct {
	Cfg           Config
	RepoDir       string
	Fset          *token.FileSet
	Pkgs          []*packages.Package          // module packages only
	All           []*packages.Package          // roots as returned by Load (with deps reachable via Imports)
	ByPath        map[string]*packages.Package // module packages by import path
	Overlay       map[string][]byte
	parents       map[*ast.File]map[ast.Node]ast.Node
	declOf        map[*types.Func]*ast.FuncDecl
	fileOf        map[*ast.FuncDecl]*ast.File
	pkgOfObj      map[*types.Package]*packages.Package
	normDecl      map[*ast.FuncDecl]*ast.FuncDecl // declaration → declaration with absorbed helpers (inline.go)
	absorbedFn    map[*types.Func]bool
	InlineStats   [2]int // absorbed calls (statement level, expression level)
	InlineErrors  []string
	fnByOldKey    map[string]*types.Func // baseline key → function that carries a new name now (rename.go)
	fieldByOldKey map[string]*types.Var
	renamedFn     map[*types.Func]bool
	Renames       []string
	Restored      []string // baseline helpers that were deleted from the tree and given back from the baseline (restore.go)
	RestoreError  string
	Folded        int // stretches of code folded back into a call of a restored helper
	restoredFn    map[*types.Func]bool
	ssaOnce       bool
	SSA           *SSAInfo
}

// Load type-checks every non-test package of /repo for cfg, recognises renamed baseline functions and
// fields (rename.go), gives deleted baseline helpers back (restore.go) and normalises the syntax the rules
// see (inline.go).
func Load(repo string, cfg Config, overlay map[string][]byte) (*Program, error) {
	p, err := loadOnce(repo, cfg, overlay)
	if err != nil {
		return nil, err
	}
	p.resolveRenames()
	if os.Getenv("GNETLINT_NORESTORE") == "" {
		if ov, keys := restoreOverlay(p); len(ov) > 0 {
			merged := map[string][]byte{}
			for k, v := range overlay {
				merged[k] = v
			}
			for k, v := range ov {
				merged[k] = v
			}
			if p2, err2 := loadOnce(repo, cfg, merged); err2 == nil {
				canon = map[types.Object]string{}
				p2.Overlay = overlay
				p2.resolveRenames()
				p2.Restored = keys
				p2.restoredFn = map[*types.Func]bool{}
				for fn, d := range p2.declOf {
					if strings.HasSuffix(p2.Fset.Position(d.Pos()).Filename, "zz_gnetlint_restored.go") {
						p2.restoredFn[fn] = true
					}
				}
				p = p2
			} else {
				p.RestoreError = err2.Error()
			}
		}
	}
	p.normalise()
	return p, nil
}

func loadOnce(repo string, cfg Config, overlay map[string][]byte) (*Program, error) {
	env := []string{}
	for _, e := range os.Environ() {
		k := strings.SplitN(e, "=", 2)[0]
		switch k {
		case "GOOS", "GOARCH", "GOFLAGS", "GOPROXY", "GOWORK", "CGO_ENABLED", "GOSUMDB", "GOTOOLCHAIN":
			continue
		}
		env = append(env, e)
	}
	env = append(env, "GOOS="+cfg.GOOS, "GOARCH="+cfg.GOARCH, "GOFLAGS=-mod=mod", "GOPROXY=off",
		"GOWORK=off", "CGO_ENABLED=0", "GOSUMDB=off", "GOTOOLCHAIN=local")
	pc := &packages.Config{
		Mode:    packages.LoadAllSyntax,
		Dir:     repo,
		Env:     env,
		Tests:   false,
		Overlay: overlay,
	}
	if cfg.Tags != "" {
		pc.BuildFlags = []string{"-tags=" + cfg.Tags}
	}
	pkgs, err := packages.Load(pc, "./...")
	if err != nil {
		return nil, err
	}
	p := &Program{Cfg: cfg, RepoDir: repo, All: pkgs, ByPath: map[string]*packages.Package{}, Overlay: overlay,
		parents: map[*ast.File]map[ast.Node]ast.Node{}, declOf: map[*types.Func]*ast.FuncDecl{},
		fileOf: map[*ast.FuncDecl]*ast.File{}, pkgOfObj: map[*types.Package]*packages.Package{}}
	var errs []string
	for _, pk := range pkgs {
		if !strings.HasPrefix(pk.PkgPath, ModPath) {
			continue
		}
		for _, e := range pk.Errors {
			errs = append(errs, e.Error())
		}
		if pk.Types == nil || pk.TypesInfo == nil {
			errs = append(errs, pk.PkgPath+": not type-checked")
			continue
		}
		p.Pkgs = append(p.Pkgs, pk)
		p.ByPath[pk.PkgPath] = pk
		p.pkgOfObj[pk.Types] = pk
		p.Fset = pk.Fset
	}
	if len(errs) > 0 {
		return nil, fmt.Errorf("load %s: %d errors: %s", cfg, len(errs), strings.Join(errs, "; "))
	}
	if len(p.Pkgs) == 0 {
		return nil, fmt.Errorf("load %s: no module packages", cfg)
	}
	sort.Slice(p.Pkgs, func(i, j int) bool { return p.Pkgs[i].PkgPath < p.Pkgs[j].PkgPath })
	for _, pk := range p.Pkgs {
		for _, f := range pk.Syntax {
			for _, d := range f.Decls {
				if fd, ok := d.(*ast.FuncDecl); ok {
					if fn, ok := pk.TypesInfo.Defs[fd.Name].(*types.Func); ok {
						p.declOf[fn] = fd
						p.fileOf[fd] = f
					}
				}
			}
		}
	}
	return p, nil
}

// Pkg returns a module package by its path relative to the module root ("" = root).
func (p *Program) Pkg(rel string) *packages.Package {
	path := ModPath
	if rel != "" {
		path += "/" + rel
	}
	return p.ByPath[path]
}

func (p *Program) PkgOf(tp *types.Package) *packages.Package { return p.pkgOfObj[tp] }

// InModule reports whether obj is declared in the analysed module.
func (p *Program) InModule(obj types.Object) bool {
	return obj != nil && obj.Pkg() != nil && strings.HasPrefix(obj.Pkg().Path(), ModPath)
}

// Decl returns the syntax of a module function.
func (p *Program) Decl(fn *types.Func) *ast.FuncDecl {
	d := p.declOf[fn]
	if nd := p.normDecl[d]; nd != nil {
		return nd
	}
	return d
}

// RawDecl returns the syntax as written (helpers not absorbed).
func (p *Program) RawDecl(fn *types.Func) *ast.FuncDecl { return p.declOf[fn] }

// Func looks up a package-level function ("Name") or method ("T.Name", pointer or value receiver).
func (p *Program) Func(rel, name string) *types.Func {
	pk := p.Pkg(rel)
	if pk == nil {
		return nil
	}
	if i := strings.Index(name, "."); i >= 0 {
		tn, _ := pk.Types.Scope().Lookup(name[:i]).(*types.TypeName)
		if tn == nil {
			return nil
		}
		obj, _, _ := types.LookupFieldOrMethod(types.NewPointer(tn.Type()), true, pk.Types, name[i+1:])
		fn, _ := obj.(*types.Func)
		if fn == nil {
			fn = p.fnByOldKey[pk.PkgPath+"."+name]
		}
		return fn
	}
	fn, _ := pk.Types.Scope().Lookup(name).(*types.Func)
	if fn == nil {
		fn = p.fnByOldKey[pk.PkgPath+".."+name]
	}
	return fn
}

// Named looks up a named type.
func (p *Program) Named(rel, name string) *types.Named {
	pk := p.Pkg(rel)
	if pk == nil {
		return nil
	}
	tn, _ := pk.Types.Scope().Lookup(name).(*types.TypeName)
	if tn == nil {
		return nil
	}
	n, _ := tn.Type().(*types.Named)
	return n
}

// Field looks up a struct field (including promoted through embedding one level).
func (p *Program) Field(rel, typ, field string) *types.Var {
	n := p.Named(rel, typ)
	if n == nil {
		return nil
	}
	st, _ := n.Underlying().(*types.Struct)
	if st == nil {
		return nil
	}
	for i := 0; i < st.NumFields(); i++ {
		if st.Field(i).Name() == field {
			return st.Field(i)
		}
	}
	if pk := p.Pkg(rel); pk != nil {
		return p.fieldByOldKey[FieldKey(pk.PkgPath, typ, field)] // the field may carry a new name (rename.go)
	}
	return nil
}

// Object looks up any package-level object.
func (p *Program) Object(rel, name string) types.Object {
	pk := p.Pkg(rel)
	if pk == nil {
		return nil
	}
	return pk.Types.Scope().Lookup(name)
}

// ExtFunc finds a function of a dependency package (e.g. golang.org/x/sys/unix.Close) by
// searching the import graph.
func (p *Program) ExtFunc(pkgPath, name string) *types.Func {
	obj := p.ExtObject(pkgPath, name)
	fn, _ := obj.(*types.Func)
	return fn
}

func (p *Program) ExtObject(pkgPath, name string) types.Object {
	seen := map[*packages.Package]bool{}
	var find func(pk *packages.Package) *packages.Package
	find = func(pk *packages.Package) *packages.Package {
		if seen[pk] {
			return nil
		}
		seen[pk] = true
		if pk.PkgPath == pkgPath {
			return pk
		}
		for _, im := range pk.Imports {
			if r := find(im); r != nil {
				return r
			}
		}
		return nil
	}
	for _, pk := range p.Pkgs {
		if r := find(pk); r != nil && r.Types != nil {
			return r.Types.Scope().Lookup(name)
		}
	}
	return nil
}

// FuncsOf returns all function declarations (with bodies) of a module package in source order.
func (p *Program) FuncsOf(pk *packages.Package) []*ast.FuncDecl {
	var out []*ast.FuncDecl
	for _, f := range pk.Syntax {
		for _, d := range f.Decls {
			if fd, ok := d.(*ast.FuncDecl); ok && fd.Body != nil {
				if fn, ok := pk.TypesInfo.Defs[fd.Name].(*types.Func); ok && p.absorbedFn[fn] {
					continue // an extracted helper: analysed as part of its callers
				}
				if nd := p.normDecl[fd]; nd != nil {
					fd = nd
				}
				out = append(out, fd)
			}
		}
	}
	return out
}

// Pos renders a position relative to the repo root.
func (p *Program) Pos(pos token.Pos) string {
	if !pos.IsValid() {
		return "-"
	}
	ps := p.Fset.Position(pos)
	f := strings.TrimPrefix(ps.Filename, p.RepoDir+"/")
	return fmt.Sprintf("%s:%d:%d", f, ps.Line, ps.Column)
}

// FuncName renders pkg-relative function names such as "gnet.(*eventloop).read".
func FuncName(fn *types.Func) string {
	if fn == nil {
		return "?"
	}
	pkg := ""
	if fn.Pkg() != nil {
		pkg = fn.Pkg().Name()
	}
	sig, _ := fn.Type().(*types.Signature)
	if sig != nil && sig.Recv() != nil {
		t := sig.Recv().Type()
		ptr := ""
		if pt, ok := t.(*types.Pointer); ok {
			t = pt.Elem()
			ptr = "*"
		}
		name := "?"
		if n, ok := t.(*types.Named); ok {
			name = n.Obj().Name()
		}
		if ptr != "" {
			return fmt.Sprintf("%s.(*%s).%s", pkg, name, CanonName(fn))
		}
		return fmt.Sprintf("%s.%s.%s", pkg, name, CanonName(fn))
	}
	return pkg + "." + CanonName(fn)
}
