package core

import (
	"encoding/json"
	"fmt"
	"go/ast"
	"go/token"
	"go/types"
	"os"
	"sort"
	"strings"
)

type Status string

const (
	OK        Status = "ok"
	Violated  Status = "violated"
	Undecided Status = "undecided"
)

// Obligation is one decided instance of a rule at one construct.
type Obligation struct {
	Rule      string   `json:"rule"`
	Site      string   `json:"site"`      // function, e.g. gnet.(*eventloop).read
	Construct string   `json:"construct"` // what inside the function, position-free
	Pos       string   `json:"pos"`
	Status    Status   `json:"status"`
	Msg       string   `json:"msg,omitempty"`
	Witness   []string `json:"witness,omitempty"`
	Configs   []string `json:"configs,omitempty"`
}

func (o Obligation) Key() string { return o.Rule + "|" + o.Site + "|" + o.Construct }

// Rule is one structural rule serving a property.
type Rule struct {
	ID       string
	Prop     string
	Desc     string
	MinSites int                   // minimum number of obligations the rule must produce where it applies
	Applies  func(cfg Config) bool // nil = every config
	Run      func(c *Ctx)
}

// Ctx is handed to a rule while it runs on one program.
type Ctx struct {
	P    *Program
	R    *Rule
	Obls []Obligation
}

func (c *Ctx) add(st Status, site, construct string, pos token.Pos, msg string, witness []string) {
	c.Obls = append(c.Obls, Obligation{Rule: c.R.ID, Site: site, Construct: construct, Pos: c.P.Pos(pos),
		Status: st, Msg: msg, Witness: witness, Configs: []string{c.P.Cfg.String()}})
}

func (c *Ctx) Ok(site, construct string, pos token.Pos, msg string) {
	c.add(OK, site, construct, pos, msg, nil)
}
func (c *Ctx) Violate(site, construct string, pos token.Pos, msg string, witness ...string) {
	c.add(Violated, site, construct, pos, msg, witness)
}
func (c *Ctx) Undecided(site, construct string, pos token.Pos, msg string) {
	c.add(Undecided, site, construct, pos, msg, nil)
}

// Check records OK or Violated depending on cond.
func (c *Ctx) Check(cond bool, site, construct string, pos token.Pos, okMsg, badMsg string, witness ...string) {
	if cond {
		c.Ok(site, construct, pos, okMsg)
	} else {
		c.Violate(site, construct, pos, badMsg, witness...)
	}
}

// Need resolves an anchor; a nil anchor yields an Undecided obligation and false.
func (c *Ctx) Need(what string, v any) bool {
	isNil := v == nil
	switch x := v.(type) {
	case *types.Func:
		isNil = x == nil
	case *types.Var:
		isNil = x == nil
	case *types.Named:
		isNil = x == nil
	case *ast.FuncDecl:
		isNil = x == nil
	case types.Object:
		isNil = x == nil
	case *types.Const:
		isNil = x == nil
	}
	if isNil {
		c.Undecided("anchor", what, token.NoPos, "anchor not resolved: "+what)
		return false
	}
	return true
}

// WorkerResult is what one (config, mutant) worker process emits.
type WorkerResult struct {
	Config       string         `json:"config"`
	Mutant       string         `json:"mutant,omitempty"`
	Stale        bool           `json:"stale,omitempty"`
	Error        string         `json:"error,omitempty"`
	Packages     int            `json:"packages"`
	Funcs        int            `json:"functions"`
	SSAFuncs     int            `json:"ssa_functions"`
	CGNodes      int            `json:"callgraph_nodes"`
	Absorbed     []string       `json:"absorbed_helpers,omitempty"` // functions outside the baseline analysed as part of their callers
	InlineErrors []string       `json:"inline_errors,omitempty"`
	Renames      []string       `json:"renames,omitempty"`  // baseline functions/fields recognised under a new name
	Restored     []string       `json:"restored,omitempty"` // deleted baseline helpers given back from the baseline source
	Folded       int            `json:"folded,omitempty"`   // stretches of code folded back into calls of restored helpers
	RestoreError string         `json:"restore_error,omitempty"`
	Obls         []Obligation   `json:"obligations"`
	Rules        map[string]int `json:"rule_sites"`
	WallS        float64        `json:"wall_s"`
}

// KnownFinding is one entry of /verif/known_findings.json.
type KnownFinding struct {
	Property      string `json:"property,omitempty"`
	Rule          string `json:"rule,omitempty"`
	Site          string `json:"site,omitempty"`
	Construct     string `json:"construct,omitempty"`
	Config        string `json:"config,omitempty"` // "any", "32bit", "poll_opt", ...
	What          string `json:"what,omitempty"`
	Demonstration string `json:"demonstration,omitempty"`
	Fixed         string `json:"fixed,omitempty"` // "property=<id> <commit> <what failed>" – suppresses nothing
}

func LoadKnown(path string) ([]KnownFinding, error) {
	b, err := os.ReadFile(path)
	if err != nil {
		if os.IsNotExist(err) {
			return nil, nil
		}
		return nil, err
	}
	var k []KnownFinding
	if err := json.Unmarshal(b, &k); err != nil {
		return nil, fmt.Errorf("%s: %v", path, err)
	}
	return k, nil
}

// MatchKnown returns the known finding covering o, if any. A finding with a config class only
// covers obligations all of whose configs are in that class.
func MatchKnown(known []KnownFinding, o Obligation) *KnownFinding {
	for i := range known {
		k := &known[i]
		if k.Fixed != "" || k.Rule != o.Rule || k.Site != o.Site || k.Construct != o.Construct {
			continue
		}
		if k.Config == "" || k.Config == "any" {
			return k
		}
		all := len(o.Configs) > 0
		for _, cs := range o.Configs {
			cfg, err := ParseConfig(cs)
			if err != nil || !inClass(cfg, k.Config) {
				all = false
			}
		}
		if all {
			return k
		}
	}
	return nil
}

func inClass(c Config, class string) bool {
	switch class {
	case "32bit":
		return c.Is32()
	case "64bit":
		return !c.Is32()
	case "linux":
		return c.IsLinux()
	case "bsd":
		return !c.IsLinux()
	default:
		return c.HasTag(class)
	}
}

// MergeObligations merges per-config obligation lists: same key+status are folded, configs unioned.
func MergeObligations(rs []WorkerResult) []Obligation {
	idx := map[string]int{}
	var out []Obligation
	for _, r := range rs {
		for _, o := range r.Obls {
			k := o.Key() + "|" + string(o.Status)
			if i, ok := idx[k]; ok {
				out[i].Configs = appendUniq(out[i].Configs, o.Configs...)
				continue
			}
			idx[k] = len(out)
			o.Configs = append([]string(nil), o.Configs...)
			out = append(out, o)
		}
	}
	sort.SliceStable(out, func(i, j int) bool {
		if out[i].Rule != out[j].Rule {
			return ruleLess(out[i].Rule, out[j].Rule)
		}
		if out[i].Site != out[j].Site {
			return out[i].Site < out[j].Site
		}
		return out[i].Construct < out[j].Construct
	})
	return out
}

func ruleLess(a, b string) bool {
	pa, pb := strings.SplitN(a, ".", 2), strings.SplitN(b, ".", 2)
	if pa[0] != pb[0] {
		return pa[0] < pb[0]
	}
	var x, y int
	var sx, sy string
	if len(pa) > 1 {
		fmt.Sscanf(pa[1], "%d%s", &x, &sx)
	}
	if len(pb) > 1 {
		fmt.Sscanf(pb[1], "%d%s", &y, &sy)
	}
	if x != y {
		return x < y
	}
	return sx < sy
}

func appendUniq(a []string, b ...string) []string {
	for _, x := range b {
		f := false
		for _, y := range a {
			if x == y {
				f = true
			}
		}
		if !f {
			a = append(a, x)
		}
	}
	return a
}
