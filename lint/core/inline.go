package core

// Helper absorption.
//
// The rules speak about the functions that existed when they were confirmed against the code
// (baseline_funcs.txt). A maintainer who extracts a few statements or a condition into a new
// unexported helper leaves behaviour unchanged, but moves the constructs a rule looks for out of
// the function it looks in. To stay quiet on such edits – and to keep seeing the constructs – the
// loader hands every rule a normalised syntax tree in which calls of functions *outside the
// baseline* are replaced by the helper's body (parameters substituted, returns turned into
// assignments and a labelled break). Nothing is type-checked again: the cloned nodes inherit the
// type information of the nodes they were cloned from. A helper whose every reference was
// absorbed this way is no longer listed as a function of its own.

import (
	_ "embed"
	"fmt"
	"go/ast"
	"go/printer"
	"go/token"
	"go/types"
	"os"
	"reflect"
	"sort"
	"strconv"
	"strings"

	"golang.org/x/tools/go/packages"
)

//go:embed baseline_funcs.txt
var baselineText string

var baselineFuncs = func() map[string]bool {
	m := map[string]bool{}
	for _, l := range strings.Split(baselineText, "\n") {
		if l = strings.TrimSpace(l); l != "" && !strings.HasPrefix(l, "#") {
			m[strings.Split(l, "\t")[0]] = true
		}
	}
	return m
}()

// FuncKey names a function independently of positions: pkgpath.Recv.Name.
func FuncKey(fn *types.Func) string {
	pkg := ""
	if fn.Pkg() != nil {
		pkg = fn.Pkg().Path()
	}
	recv := ""
	if sig, _ := fn.Type().(*types.Signature); sig != nil && sig.Recv() != nil {
		t := sig.Recv().Type()
		if pt, ok := t.(*types.Pointer); ok {
			t = pt.Elem()
		}
		if n, ok := t.(*types.Named); ok {
			recv = n.Obj().Name()
		}
	}
	return pkg + "." + recv + "." + fn.Name()
}

// InBaseline reports whether the rules know the function by name.
func InBaseline(fn *types.Func) bool {
	if _, renamed := canon[fn]; renamed {
		return true // a baseline function under a new name
	}
	return baselineFuncs[FuncKey(fn)]
}

const maxInlineDepth = 4

type inliner struct {
	p        *Program
	seq      int
	absorbed map[*ast.Ident]bool // original call-site identifiers whose call was absorbed
	litFuncs map[*types.Var]*types.Func // local closures used as helpers (`fail := func(err error) { … }`)
	folders  []*folder           // restored helpers (restore.go)
	Stats    struct{ Calls, Exprs, Folded int }
}

func (p *Program) normalise() {
	p.normDecl = map[*ast.FuncDecl]*ast.FuncDecl{}
	p.absorbedFn = map[*types.Func]bool{}
	if os.Getenv("GNETLINT_NOINLINE") != "" {
		return
	}
	// candidates: module functions outside the baseline
	cand := len(p.restoredFn) > 0
	for fn := range p.declOf {
		if !InBaseline(fn) {
			cand = true
		}
	}
	_ = cand // (local closures used as helpers are found per declaration)
	in := &inliner{p: p, absorbed: map[*ast.Ident]bool{}, litFuncs: map[*types.Var]*types.Func{}}
	// restored helpers: fold the copies that were written out at their call sites back into calls
	for h := range p.restoredFn {
		if f := p.newFolder(h); f != nil {
			in.folders = append(in.folders, f)
		}
	}
	sort.Slice(in.folders, func(i, j int) bool { // bigger bodies first
		return len(in.folders[i].decl.Body.List) > len(in.folders[j].decl.Body.List)
	})
	for fn, d := range p.declOf {
		if d.Body == nil {
			continue
		}
		pk := p.pkgOfObj[fn.Pkg()]
		if pk == nil {
			continue
		}
		func() {
			defer func() {
				if r := recover(); r != nil {
					// leave this function as written; the rules then see the helper call as an opaque call
					p.InlineErrors = append(p.InlineErrors, FuncName(fn)+": "+fmt.Sprint(r))
				}
			}()
			if nd := in.normaliseDecl(pk, fn, d); nd != nil {
				p.normDecl[d] = nd
				if want := os.Getenv("GNETLINT_DUMPNORM"); want != "" && strings.Contains(FuncName(fn), want) { // development aid
					fmt.Fprintf(os.Stderr, "---- normalised %s\n", FuncName(fn))
					printer.Fprint(os.Stderr, token.NewFileSet(), nd)
					fmt.Fprintln(os.Stderr)
				}
			}
		}()
	}
	// a helper is absorbed when every mention of it in the module is an absorbed call
	uses := map[*types.Func][]*ast.Ident{}
	usedIn := map[*types.Func]map[*types.Func]bool{} // helper → the declared functions that mention it
	for _, pk := range p.Pkgs {
		for _, file := range pk.Syntax { // the source as written: clones made above are not mentions
			for _, d := range file.Decls {
				var encl *types.Func
				if fd, ok := d.(*ast.FuncDecl); ok {
					encl, _ = pk.TypesInfo.Defs[fd.Name].(*types.Func)
				}
				ast.Inspect(d, func(n ast.Node) bool {
					if id, ok := n.(*ast.Ident); ok {
						if fn, ok := pk.TypesInfo.Uses[id].(*types.Func); ok && p.declOf[fn] != nil && !InBaseline(fn) {
							uses[fn] = append(uses[fn], id)
							if usedIn[fn] == nil {
								usedIn[fn] = map[*types.Func]bool{}
							}
							usedIn[fn][encl] = true
						}
					}
					return true
				})
			}
		}
	}
	for fn, ids := range uses {
		if fn.Exported() {
			continue
		}
		all := true
		for _, id := range ids {
			if !in.absorbed[id] {
				all = false
			}
		}
		if all {
			p.absorbedFn[fn] = true
		}
	}
	// the one baseline function a helper outside the baseline belongs to (through other such helpers), if there is exactly one
	helperHost = map[*types.Func]*types.Func{}
	for fn := range usedIn {
		if fn.Exported() {
			continue
		}
		hosts := map[*types.Func]bool{}
		seen := map[*types.Func]bool{}
		var walk func(h *types.Func, depth int)
		walk = func(h *types.Func, depth int) {
			if seen[h] || depth > 8 {
				return
			}
			seen[h] = true
			for e := range usedIn[h] {
				if e != nil && !InBaseline(e) && p.declOf[e] != nil && !e.Exported() && len(usedIn[e]) > 0 {
					walk(e, depth+1)
				} else {
					hosts[e] = true
				}
			}
		}
		walk(fn, 0)
		if len(hosts) == 1 {
			for h := range hosts {
				if h != nil && InBaseline(h) {
					helperHost[fn] = h
				}
			}
		}
	}
	p.InlineStats = [2]int{in.Stats.Calls, in.Stats.Exprs}
	p.Folded = in.Stats.Folded
}

// helperHost maps an unexported function outside the baseline that is mentioned by exactly one
// function of the baseline (directly or through other such helpers) to that function: it is a
// piece a maintainer split off that function. One configuration per process.
var helperHost = map[*types.Func]*types.Func{}

// HostOf returns the baseline function that fn was split off (see helperHost), or nil.
func HostOf(fn *types.Func) *types.Func { return helperHost[fn] }

// AbsorbedNames lists the absorbed helpers (sorted).
func (p *Program) AbsorbedNames() []string {
	var out []string
	for fn := range p.absorbedFn {
		out = append(out, FuncName(fn))
	}
	sort.Strings(out)
	return out
}

// Absorbed reports whether fn is a helper outside the baseline whose every call was inlined.
func (p *Program) Absorbed(fn *types.Func) bool { return p.absorbedFn[fn] }

// ---- cloning ----

type cloner struct {
	src, dst *types.Info
	subst    map[types.Object]ast.Expr // parameter/receiver/result → caller expression (cloned on use, info from dst)
	in       *inliner
	pk       *packages.Package // package of the function being normalised (dst)
	stack    []*types.Func
	back     map[ast.Node]ast.Node   // clone → original (only filled for the top-level clone)
	fresh    *freshener              // per absorbed call: the helper's locals get objects of their own
	curSig   *types.Signature        // signature of the function (or function literal) whose body is being cloned
	replace  map[ast.Node]*ast.Ident // helper calls in argument position, hoisted into a temporary
	top      *ast.BlockStmt          // body of the declaration being normalised (as written)
	eta      map[ast.Node]ast.Expr   // function values naming a helper outside the baseline, as literals calling it
	tailOK   bool                    // set while the callee of a `return h(…)` statement is looked up
}

// freshener gives every local variable of one absorbed helper body a new object, so that two
// absorbed calls of the same helper do not share their variables.
type freshener struct {
	lo, hi token.Pos
	m      map[types.Object]types.Object
}

func (fr *freshener) of(obj types.Object) types.Object {
	if fr == nil || obj == nil {
		return obj
	}
	v, ok := obj.(*types.Var)
	if !ok || v.IsField() || v.Pos() < fr.lo || v.Pos() >= fr.hi {
		return obj
	}
	if n, ok := fr.m[obj]; ok {
		return n
	}
	n := types.NewVar(v.Pos(), v.Pkg(), v.Name(), v.Type())
	fr.m[obj] = n
	return n
}

var (
	nodeType  = reflect.TypeOf((*ast.Node)(nil)).Elem()
	objPtr    = reflect.TypeOf((*ast.Object)(nil))
	scopePtr  = reflect.TypeOf((*ast.Scope)(nil))
	cgroupPtr = reflect.TypeOf((*ast.CommentGroup)(nil))
)

func (c *cloner) copyInfo(orig, clone ast.Node) {
	if c.back != nil {
		c.back[clone] = orig
	}
	src, dst := c.src, c.dst
	if e, ok := orig.(ast.Expr); ok {
		if tv, ok := src.Types[e]; ok {
			dst.Types[clone.(ast.Expr)] = tv
		}
	}
	switch o := orig.(type) {
	case *ast.Ident:
		cl := clone.(*ast.Ident)
		if obj, ok := src.Uses[o]; ok {
			dst.Uses[cl] = c.fresh.of(obj)
		}
		if obj, ok := src.Defs[o]; ok {
			dst.Defs[cl] = c.fresh.of(obj)
		}
		if inst, ok := src.Instances[o]; ok && dst.Instances != nil {
			dst.Instances[cl] = inst
		}
	case *ast.SelectorExpr:
		if s, ok := src.Selections[o]; ok {
			dst.Selections[clone.(*ast.SelectorExpr)] = s
		}
	}
	if obj, ok := src.Implicits[orig]; ok {
		dst.Implicits[clone] = c.fresh.of(obj)
	}
	if sc, ok := src.Scopes[orig]; ok {
		dst.Scopes[clone] = sc
	}
}

// node deep-copies n.
func (c *cloner) node(n ast.Node) ast.Node {
	if n == nil || reflect.ValueOf(n).IsNil() {
		return n
	}
	if id, ok := n.(*ast.Ident); ok && c.subst != nil {
		if obj := c.src.Uses[id]; obj != nil {
			if repl, ok := c.subst[obj]; ok {
				// the replacement lives in the caller: clone it with the caller's info on both sides
				cc := &cloner{src: c.dst, dst: c.dst}
				return cc.node(repl)
			}
		}
	}
	if st, ok := n.(*ast.StarExpr); ok && c.subst != nil {
		// *p with p bound to &x is x
		if id, ok := ast.Unparen(st.X).(*ast.Ident); ok {
			if obj := c.src.Uses[id]; obj != nil {
				if repl, ok := c.subst[obj]; ok {
					if ue, ok := ast.Unparen(repl).(*ast.UnaryExpr); ok && ue.Op == token.AND {
						cc := &cloner{src: c.dst, dst: c.dst}
						return cc.node(ue.X)
					}
				}
			}
		}
	}
	if tmp, ok := c.replace[n]; ok {
		id := &ast.Ident{NamePos: n.Pos(), Name: tmp.Name}
		c.dst.Uses[id] = c.dst.Defs[tmp]
		if tv, ok := c.dst.Types[tmp]; ok {
			c.dst.Types[id] = tv
		}
		return id
	}
	if lit, ok := c.eta[n]; ok {
		return lit
	}
	if call, ok := n.(*ast.CallExpr); ok {
		if e := c.tryExprInline(call); e != nil {
			return e
		}
		if c.in != nil && c.subst == nil {
			for _, a := range call.Args {
				c.etaExpand(a)
			}
		}
	}
	if lit, ok := n.(*ast.FuncLit); ok && c.in != nil {
		// helper calls inside a function literal are absorbed like anywhere else
		sub := *c
		sub.curSig = nil
		if tv, ok := c.src.Types[lit]; ok {
			sub.curSig, _ = tv.Type.(*types.Signature)
		}
		nl := &ast.FuncLit{Type: c.node(lit.Type).(*ast.FuncType), Body: sub.block(lit.Body)}
		c.copyInfo(lit, nl)
		return nl
	}
	v := reflect.ValueOf(n).Elem()
	nv := reflect.New(v.Type())
	nv.Elem().Set(v)
	for i := 0; i < v.NumField(); i++ {
		f := v.Field(i)
		nf := nv.Elem().Field(i)
		switch f.Kind() {
		case reflect.Ptr, reflect.Interface:
			if f.IsNil() || f.Type() == objPtr || f.Type() == scopePtr || f.Type() == cgroupPtr {
				continue
			}
			if child, ok := f.Interface().(ast.Node); ok {
				nc := c.node(child)
				ncv := reflect.ValueOf(nc)
				if ncv.Type().AssignableTo(f.Type()) {
					nf.Set(ncv)
				}
				// otherwise (an Ident slot that would receive a substituted non-identifier) keep the original
			}
		case reflect.Slice:
			if f.IsNil() || f.Len() == 0 {
				continue
			}
			ns := reflect.MakeSlice(f.Type(), f.Len(), f.Len())
			for j := 0; j < f.Len(); j++ {
				el := f.Index(j)
				if (el.Kind() == reflect.Ptr || el.Kind() == reflect.Interface) && !el.IsNil() {
					if child, ok := el.Interface().(ast.Node); ok {
						nc := reflect.ValueOf(c.node(child))
						if nc.Type().AssignableTo(el.Type()) {
							ns.Index(j).Set(nc)
							continue
						}
					}
				}
				ns.Index(j).Set(el)
			}
			nf.Set(ns)
		}
	}
	clone := nv.Interface().(ast.Node)
	c.copyInfo(n, clone)
	return clone
}

// etaExpand prepares, for a function value in argument position that names a helper outside the
// baseline (`ln.closeOnce.Do(ln.release)`, `Trigger(prio, el.quit, nil)`), the literal
// `func(params) results { return recv.helper(params) }` with the helper's body absorbed into it: the
// rules then find the literal they found before the body was given a name. The receiver must be a
// stable expression (a method value binds it when it is evaluated, the literal when it is called).
func (c *cloner) etaExpand(a ast.Expr) {
	var id *ast.Ident
	switch f := ast.Unparen(a).(type) {
	case *ast.Ident:
		id = f
	case *ast.SelectorExpr:
		id = f.Sel
		if !stableExpr(c.src, f.X) {
			return
		}
	default:
		return
	}
	fn, ok := c.src.Uses[id].(*types.Func)
	if !ok || c.in.p.declOf[fn] == nil || InBaseline(fn) || fn.Exported() {
		return
	}
	sig, _ := fn.Type().(*types.Signature)
	if sig == nil || sig.Variadic() || sig.Results().Len() > 1 {
		return
	}
	for _, on := range c.stack {
		if on == fn {
			return
		}
	}
	pos := a.Pos()
	c.in.seq++
	params := &ast.FieldList{Opening: pos, Closing: pos}
	var args []ast.Expr
	var pvars []*types.Var
	for i := 0; i < sig.Params().Len(); i++ {
		pt := sig.Params().At(i).Type()
		name := "eta" + strconv.Itoa(c.in.seq) + "_" + strconv.Itoa(i)
		pv := types.NewParam(pos, fn.Pkg(), name, pt)
		pvars = append(pvars, pv)
		def := &ast.Ident{NamePos: pos, Name: name}
		c.src.Defs[def] = pv
		use := &ast.Ident{NamePos: pos, Name: name}
		c.src.Uses[use] = pv
		c.src.Types[use] = types.TypeAndValue{Type: pt}
		tyExpr := &ast.Ident{NamePos: pos, Name: "_"} // the type expression is never looked at
		c.src.Types[tyExpr] = types.TypeAndValue{Type: pt}
		params.List = append(params.List, &ast.Field{Names: []*ast.Ident{def}, Type: tyExpr})
		args = append(args, use)
	}
	inner := &ast.CallExpr{Fun: a, Lparen: pos, Args: args, Rparen: pos}
	var body ast.Stmt
	var results *ast.FieldList
	lsig := types.NewSignatureType(nil, nil, nil, types.NewTuple(pvars...), sig.Results(), false)
	if sig.Results().Len() == 1 {
		rt := sig.Results().At(0).Type()
		c.src.Types[inner] = types.TypeAndValue{Type: rt}
		tyExpr := &ast.Ident{NamePos: pos, Name: "_"}
		c.src.Types[tyExpr] = types.TypeAndValue{Type: rt}
		results = &ast.FieldList{List: []*ast.Field{{Type: tyExpr}}}
		body = &ast.ReturnStmt{Return: pos, Results: []ast.Expr{inner}}
	} else {
		c.src.Types[inner] = types.TypeAndValue{Type: types.NewTuple()}
		body = &ast.ExprStmt{X: inner}
	}
	sub := *c
	sub.curSig = lsig
	sub.eta = nil
	out := sub.stmt(body)
	if len(out) == 1 {
		switch y := out[0].(type) {
		case *ast.ExprStmt:
			if _, isCall := ast.Unparen(y.X).(*ast.CallExpr); isCall {
				return // not absorbed
			}
		case *ast.ReturnStmt:
			if len(y.Results) == 1 {
				if _, isCall := ast.Unparen(y.Results[0]).(*ast.CallExpr); isCall {
					return
				}
			}
		}
	}
	// helpers called from the absorbed body (in its returns, say) are absorbed in a second pass over the literal's body
	blk := &ast.BlockStmt{Lbrace: pos, List: out, Rbrace: a.End()}
	for pass := 0; pass < 2; pass++ {
		again := false
		ast.Inspect(blk, func(n ast.Node) bool {
			if call, ok := n.(*ast.CallExpr); ok {
				if fn2, _ := sub.callee(c.dst, call); fn2 != nil {
					again = true
				}
			}
			return !again
		})
		if !again {
			break
		}
		sub2 := sub
		sub2.src = c.dst
		blk = sub2.block(blk)
	}
	lit := &ast.FuncLit{Type: &ast.FuncType{Func: pos, Params: params, Results: results}, Body: blk}
	c.dst.Types[lit] = types.TypeAndValue{Type: lsig}
	if c.eta == nil {
		c.eta = map[ast.Node]ast.Expr{}
	}
	c.eta[a] = lit
}

// unrollRange writes `for _, v := range [...]T{a, b} { body }` out as `{ body[v:=a] } { body[v:=b] }`
// when the elements are stable expressions, the body calls an absorbable helper, does not assign v and
// contains no branch statement: a helper applied to each of a few named places (`for _, p := range
// [...]*int{&o.ReadBufferCap, &o.WriteBufferCap} { normalise(p) }`) is then seen applied to each place.
func (c *cloner) unrollRange(x *ast.RangeStmt) []ast.Stmt {
	if c.in == nil || x.Tok != token.DEFINE || x.Value == nil {
		return nil
	}
	if x.Key != nil {
		if id, ok := x.Key.(*ast.Ident); !ok || id.Name != "_" {
			return nil
		}
	}
	vid, ok := x.Value.(*ast.Ident)
	if !ok || vid.Name == "_" {
		return nil
	}
	lit, ok := ast.Unparen(x.X).(*ast.CompositeLit)
	if !ok || len(lit.Elts) == 0 || len(lit.Elts) > 8 {
		return nil
	}
	if tv, ok := c.src.Types[lit]; ok {
		switch tv.Type.Underlying().(type) {
		case *types.Array, *types.Slice:
		default:
			return nil
		}
	} else {
		return nil
	}
	for _, e := range lit.Elts {
		if _, isKV := e.(*ast.KeyValueExpr); isKV || !stableExpr(c.src, e) {
			return nil
		}
	}
	vobj := c.src.Defs[vid]
	if vobj == nil || assignedIn(c.src, x.Body, vobj) {
		return nil
	}
	helper, branch := false, false
	ast.Inspect(x.Body, func(n ast.Node) bool {
		switch y := n.(type) {
		case *ast.BranchStmt, *ast.LabeledStmt, *ast.DeferStmt, *ast.ReturnStmt, *ast.FuncLit:
			branch = true
		case *ast.CallExpr:
			if fn, _ := c.callee(c.src, y); fn != nil {
				helper = true
			}
		}
		return !branch
	})
	if !helper || branch {
		return nil
	}
	var out []ast.Stmt
	for _, e := range lit.Elts {
		sub := *c
		sub.subst = map[types.Object]ast.Expr{}
		for k, v := range c.subst {
			sub.subst[k] = v
		}
		sub.subst[vobj] = e
		out = append(out, sub.block(x.Body))
	}
	return out
}

// ---- which calls are absorbed ----

func (c *cloner) callee(info *types.Info, call *ast.CallExpr) (*types.Func, *ast.Ident) {
	var id *ast.Ident
	switch f := ast.Unparen(call.Fun).(type) {
	case *ast.Ident:
		id = f
	case *ast.SelectorExpr:
		id = f.Sel
		if sel, ok := info.Selections[f]; ok && sel.Kind() != types.MethodVal {
			return nil, nil
		}
	default:
		return nil, nil
	}
	fn, _ := info.Uses[id].(*types.Func)
	if fn == nil {
		// a local variable bound once to a function literal is a helper written in place
		if v, ok := info.Uses[id].(*types.Var); ok && !v.IsField() && c.top != nil {
			if _, isSel := ast.Unparen(call.Fun).(*ast.SelectorExpr); !isSel {
				fn = c.localClosure(info, v)
			}
		}
	}
	if fn == nil || InBaseline(fn) {
		return nil, nil
	}
	d := c.in.p.declOf[fn]
	if d == nil || d.Body == nil || d.Type.TypeParams != nil {
		return nil, nil
	}
	sig := fn.Type().(*types.Signature)
	if sig.Variadic() || len(c.stack) >= maxInlineDepth {
		return nil, nil
	}
	for _, s := range c.stack {
		if s == fn {
			return nil, nil
		}
	}
	// interface method values have no declaration; a method expression T.m(x) is left alone
	if sig.Recv() != nil {
		if _, ok := ast.Unparen(call.Fun).(*ast.SelectorExpr); !ok {
			return nil, nil
		}
	}
	bad, hasDefer := false, false
	ast.Inspect(d.Body, func(n ast.Node) bool {
		switch x := n.(type) {
		case *ast.DeferStmt:
			hasDefer = true
		case *ast.FuncLit:
			return false
		case *ast.CallExpr:
			if id, ok := x.Fun.(*ast.Ident); ok && id.Name == "recover" {
				bad = true
			}
		case *ast.BranchStmt:
			if x.Tok == token.GOTO {
				bad = true
			}
		}
		return true
	})
	if bad {
		return nil, nil
	}
	if hasDefer {
		// a helper that defers something can only take the place of `return h(…)`: its deferred calls then run
		// when the caller returns, which is when they ran before
		if !c.tailOK {
			return nil, nil
		}
	}
	return fn, id
}

// stable: an argument that can be written in place of the parameter wherever it occurs.
func stableExpr(info *types.Info, e ast.Expr) bool {
	switch x := ast.Unparen(e).(type) {
	case *ast.Ident:
		return true
	case *ast.BasicLit:
		return true
	case *ast.SelectorExpr:
		if tv, ok := info.Types[x]; ok && tv.Value != nil {
			return true
		}
		if _, isPkg := info.Uses[identOf(x.X)].(*types.PkgName); isPkg {
			return true
		}
		return stableExpr(info, x.X)
	case *ast.UnaryExpr:
		return (x.Op == token.AND || x.Op == token.SUB || x.Op == token.NOT || x.Op == token.XOR) && stableExpr(info, x.X)
	case *ast.StarExpr:
		return stableExpr(info, x.X)
	case *ast.SliceExpr: // s[a:b]: no side effect, and a helper cannot change the caller's operands
		for _, e := range []ast.Expr{x.X, x.Low, x.High, x.Max} {
			if e != nil && !stableExpr(info, e) {
				return false
			}
		}
		return true
	case *ast.IndexExpr:
		return stableExpr(info, x.X) && stableExpr(info, x.Index)
	case *ast.BinaryExpr:
		return x.Op != token.LAND && x.Op != token.LOR && stableExpr(info, x.X) && stableExpr(info, x.Y)
	case *ast.CallExpr:
		if id, ok := x.Fun.(*ast.Ident); ok && (id.Name == "len" || id.Name == "cap") && len(x.Args) == 1 {
			if _, isBuiltin := info.Uses[id].(*types.Builtin); isBuiltin {
				return stableExpr(info, x.Args[0])
			}
		}
	}
	if tv, ok := info.Types[e]; ok && tv.Value != nil {
		return true
	}
	return false
}

func identOf(e ast.Expr) *ast.Ident {
	id, _ := ast.Unparen(e).(*ast.Ident)
	return id
}

// assignedIn reports whether obj is assigned, incremented or has its address taken in body.
func assignedIn(info *types.Info, body ast.Node, obj types.Object) bool {
	found := false
	is := func(e ast.Expr) bool {
		id := identOf(e)
		return id != nil && (info.Uses[id] == obj || info.Defs[id] == obj)
	}
	ast.Inspect(body, func(n ast.Node) bool {
		switch x := n.(type) {
		case *ast.AssignStmt:
			for _, l := range x.Lhs {
				if is(l) {
					found = true
				}
			}
		case *ast.IncDecStmt:
			if is(x.X) {
				found = true
			}
		case *ast.UnaryExpr:
			if x.Op == token.AND && is(x.X) {
				found = true
			}
		case *ast.RangeStmt:
			if (x.Key != nil && is(x.Key)) || (x.Value != nil && is(x.Value)) {
				found = true
			}
		}
		return true
	})
	return found
}

// bind prepares the substitution of receiver and parameters; unstable arguments get a definition statement.
func (c *cloner) bind(info *types.Info, call *ast.CallExpr, fn *types.Func, d *ast.FuncDecl, fr *freshener) (map[types.Object]ast.Expr, []ast.Stmt, bool) {
	calleeInfo := c.in.p.pkgOfObj[fn.Pkg()].TypesInfo
	subst := map[types.Object]ast.Expr{}
	var pre []ast.Stmt
	type pa struct {
		name *ast.Ident
		arg  ast.Expr
	}
	var pas []pa
	if d.Recv != nil && len(d.Recv.List) == 1 {
		sel, ok := ast.Unparen(call.Fun).(*ast.SelectorExpr)
		if !ok {
			return nil, nil, false
		}
		if len(d.Recv.List[0].Names) == 1 {
			pas = append(pas, pa{d.Recv.List[0].Names[0], sel.X})
		} else if !stableExpr(info, sel.X) {
			return nil, nil, false
		}
	}
	k := 0
	for _, fl := range d.Type.Params.List {
		if len(fl.Names) == 0 {
			k++
			continue
		}
		for _, nm := range fl.Names {
			if k >= len(call.Args) {
				return nil, nil, false
			}
			pas = append(pas, pa{nm, call.Args[k]})
			k++
		}
	}
	if k != len(call.Args) {
		return nil, nil, false
	}
	for _, x := range pas {
		if x.name.Name == "_" {
			continue
		}
		obj := calleeInfo.Defs[x.name]
		if obj == nil {
			return nil, nil, false
		}
		if stableExpr(info, x.arg) && !assignedIn(calleeInfo, d.Body, obj) {
			subst[obj] = x.arg
			continue
		}
		// param := arg
		lhs := &ast.Ident{NamePos: x.arg.Pos(), Name: x.name.Name}
		c.dst.Defs[lhs] = fr.of(obj)
		if tv, ok := calleeInfo.Types[x.name]; ok {
			c.dst.Types[lhs] = tv
		}
		cc := &cloner{src: c.dst, dst: c.dst}
		pre = append(pre, &ast.AssignStmt{Lhs: []ast.Expr{lhs}, TokPos: x.arg.Pos(), Tok: token.DEFINE, Rhs: []ast.Expr{cc.node(x.arg).(ast.Expr)}})
	}
	return subst, pre, true
}

// tryExprInline replaces a call of a single-expression helper by that expression.
func (c *cloner) tryExprInline(call *ast.CallExpr) ast.Expr {
	if c.in == nil {
		return nil
	}
	fn, id := c.callee(c.src, call)
	if fn == nil {
		return nil
	}
	d := c.in.p.declOf[fn]
	if len(d.Body.List) != 1 {
		return nil
	}
	ret, ok := d.Body.List[0].(*ast.ReturnStmt)
	if !ok || len(ret.Results) != 1 {
		return nil
	}
	// arguments are cloned first (they may contain absorbable calls themselves) and must be stable
	args := &cloner{src: c.src, dst: c.dst, subst: c.subst, in: c.in, pk: c.pk, stack: c.stack, fresh: c.fresh, replace: c.replace, top: c.top}
	ncall := &ast.CallExpr{Fun: args.node(call.Fun).(ast.Expr), Lparen: call.Lparen, Rparen: call.Rparen}
	for _, a := range call.Args {
		ncall.Args = append(ncall.Args, args.node(a).(ast.Expr))
	}
	fr := &freshener{lo: d.Pos(), hi: d.End(), m: map[types.Object]types.Object{}}
	subst, pre, ok := c.bind(c.dst, ncall, fn, d, fr)
	if !ok || len(pre) > 0 {
		return nil
	}
	calleeInfo := c.in.p.pkgOfObj[fn.Pkg()].TypesInfo
	body := &cloner{src: calleeInfo, dst: c.dst, subst: subst, in: c.in, pk: c.pk, stack: append(append([]*types.Func{}, c.stack...), fn), fresh: fr, top: c.top}
	e := body.node(ret.Results[0]).(ast.Expr)
	c.in.Stats.Exprs++
	c.markAbsorbed(id)
	pe := &ast.ParenExpr{Lparen: call.Pos(), X: e, Rparen: call.End()}
	if tv, ok := c.src.Types[call]; ok {
		c.dst.Types[pe] = tv
	}
	return pe
}

func (c *cloner) markAbsorbed(id *ast.Ident) {
	// id may be an original identifier (when cloning straight from source) – that is what Absorbed counts
	c.in.absorbed[id] = true
}

// ---- statement level ----

func (in *inliner) normaliseDecl(pk *packages.Package, fn *types.Func, d *ast.FuncDecl) *ast.FuncDecl {
	// copies of restored helpers are folded back first, on a private clone
	if !in.p.restoredFn[fn] {
		folded := 0
		var body *ast.BlockStmt
		for _, f := range in.folders {
			if f.helper.Pkg() != fn.Pkg() {
				continue
			}
			if body == nil {
				pc := &cloner{src: pk.TypesInfo, dst: pk.TypesInfo}
				body = pc.node(d.Body).(*ast.BlockStmt)
			}
			folded += f.fold(body)
		}
		if folded > 0 {
			nd := *d
			nd.Body = body
			d = &nd
			in.Stats.Folded += folded
			defer func() {}()
			if r := in.normaliseDecl1(pk, fn, d); r != nil {
				return r
			}
			return d
		}
	}
	return in.normaliseDecl1(pk, fn, d)
}

func (in *inliner) normaliseDecl1(pk *packages.Package, fn *types.Func, d *ast.FuncDecl) *ast.FuncDecl {
	// quick exit: nothing outside the baseline is mentioned
	any := false
	ast.Inspect(d.Body, func(n ast.Node) bool {
		if id, ok := n.(*ast.Ident); ok {
			if f, ok := pk.TypesInfo.Uses[id].(*types.Func); ok && in.p.declOf[f] != nil && !InBaseline(f) {
				any = true
			}
		}
		if call, ok := n.(*ast.CallExpr); ok {
			// a call of a local variable of function type: possibly a helper written in place
			if id, ok := ast.Unparen(call.Fun).(*ast.Ident); ok {
				if v, ok := pk.TypesInfo.Uses[id].(*types.Var); ok && !v.IsField() {
					if _, isFunc := v.Type().Underlying().(*types.Signature); isFunc {
						any = true
					}
				}
			}
		}
		return !any
	})
	if !any {
		return nil
	}
	c := &cloner{src: pk.TypesInfo, dst: pk.TypesInfo, in: in, pk: pk, stack: []*types.Func{fn}, top: d.Body}
	c.curSig, _ = fn.Type().(*types.Signature)
	body := c.block(d.Body)
	c.dropAbsorbedClosures(body)
	nd := *d
	nd.Body = body
	return &nd
}

// dropAbsorbedClosures removes `v := func(…) { … }` from the normalised body when every call of v was
// absorbed (v is mentioned nowhere else any more): the rules would otherwise judge the dead literal as
// a function of its own (a close cause that is a parameter, a write without its guard).
func (c *cloner) dropAbsorbedClosures(body *ast.BlockStmt) {
	mentioned := map[types.Object]int{}
	ast.Inspect(body, func(n ast.Node) bool {
		if id, ok := n.(*ast.Ident); ok {
			if o := c.dst.Uses[id]; o != nil {
				mentioned[o]++
			}
		}
		return true
	})
	var prune func(list []ast.Stmt) []ast.Stmt
	prune = func(list []ast.Stmt) []ast.Stmt {
		out := list[:0:0]
		for _, st := range list {
			if as, ok := st.(*ast.AssignStmt); ok && as.Tok == token.DEFINE && len(as.Lhs) == 1 && len(as.Rhs) == 1 {
				if id, ok := as.Lhs[0].(*ast.Ident); ok {
					if v, ok := c.dst.Defs[id].(*types.Var); ok && c.in.litFuncs[v] != nil && mentioned[v] == 0 {
						if _, isLit := ast.Unparen(as.Rhs[0]).(*ast.FuncLit); isLit {
							continue
						}
					}
				}
			}
			out = append(out, st)
		}
		return out
	}
	ast.Inspect(body, func(n ast.Node) bool {
		switch y := n.(type) {
		case *ast.BlockStmt:
			y.List = prune(y.List)
		case *ast.CaseClause:
			y.Body = prune(y.Body)
		case *ast.CommClause:
			y.Body = prune(y.Body)
		}
		return true
	})
}

// block clones a block, absorbing helper calls in statement position.
func (c *cloner) block(b *ast.BlockStmt) *ast.BlockStmt {
	if b == nil {
		return nil
	}
	nb := &ast.BlockStmt{Lbrace: b.Lbrace, Rbrace: b.Rbrace, List: c.stmts(b.List)}
	c.copyInfo(b, nb)
	return nb
}

func (c *cloner) stmts(list []ast.Stmt) []ast.Stmt {
	var out []ast.Stmt
	for _, s := range list {
		out = append(out, c.stmt(s)...)
	}
	return out
}

func (c *cloner) stmt(s ast.Stmt) []ast.Stmt {
	if pre := c.hoist(s); len(pre) > 0 {
		return []ast.Stmt{&ast.BlockStmt{Lbrace: s.Pos(), List: append(pre, c.stmt1(s)...), Rbrace: s.End()}}
	}
	return c.stmt1(s)
}

// hoist absorbs multi-statement helpers called in argument position of a simple statement
// (`f(h(x))`, `y = g(h(x))`, `return h(x) + 1`): the helper's body runs first and leaves its result in
// a temporary that takes the call's place.
func (c *cloner) hoist(s ast.Stmt) []ast.Stmt {
	if c.in == nil {
		return nil
	}
	var top *ast.CallExpr
	switch x := s.(type) {
	case *ast.ExprStmt:
		top, _ = ast.Unparen(x.X).(*ast.CallExpr)
	case *ast.AssignStmt:
		if len(x.Rhs) == 1 {
			top, _ = ast.Unparen(x.Rhs[0]).(*ast.CallExpr)
		}
	case *ast.ReturnStmt:
		if len(x.Results) == 1 {
			top, _ = ast.Unparen(x.Results[0]).(*ast.CallExpr)
		}
	default:
		return nil
	}
	var cands []*ast.CallExpr
	ast.Inspect(s, func(n ast.Node) bool {
		switch y := n.(type) {
		case *ast.FuncLit:
			return false
		case *ast.CallExpr:
			if y == top {
				// the statement's own call is absorbed as a statement – unless that is not possible, in which case it is hoisted too
				if fn, _ := c.callee(c.src, y); fn != nil {
					return true
				}
				return true
			}
			if fn, _ := c.callee(c.src, y); fn != nil {
				d := c.in.p.declOf[fn]
				single := len(d.Body.List) == 1
				if single {
					if r, ok := d.Body.List[0].(*ast.ReturnStmt); !ok || len(r.Results) != 1 {
						single = false
					}
				}
				if sig := fn.Type().(*types.Signature); sig.Results().Len() == 1 && !single {
					cands = append(cands, y)
				}
			}
		}
		return true
	})
	if len(cands) == 0 {
		return nil
	}
	var pre []ast.Stmt
	for i := len(cands) - 1; i >= 0; i-- { // inner calls first
		call := cands[i]
		fn, _ := c.callee(c.src, call)
		rt := fn.Type().(*types.Signature).Results().At(0).Type()
		c.in.seq++
		name := "inl" + strconv.Itoa(c.in.seq) + "_" + fn.Name() + "_result"
		tv := types.NewVar(call.Pos(), fn.Pkg(), name, rt)
		def := &ast.Ident{NamePos: call.Pos(), Name: name}
		for _, info := range []*types.Info{c.src, c.dst} {
			info.Defs[def] = tv
			info.Types[def] = types.TypeAndValue{Type: rt}
		}
		syn := &ast.AssignStmt{Lhs: []ast.Expr{def}, TokPos: call.Pos(), Tok: token.DEFINE, Rhs: []ast.Expr{call}}
		out := c.absorb(call, syn.Lhs, token.DEFINE, false, syn)
		if out == nil {
			continue
		}
		pre = append(pre, out...)
		if c.replace == nil {
			c.replace = map[ast.Node]*ast.Ident{}
		}
		c.replace[call] = def
	}
	return pre
}

func (c *cloner) stmt1(s ast.Stmt) []ast.Stmt {
	switch x := s.(type) {
	case nil:
		return nil
	case *ast.ExprStmt:
		if call, ok := ast.Unparen(x.X).(*ast.CallExpr); ok {
			if r := c.absorb(call, nil, token.ILLEGAL, false, x); r != nil {
				return r
			}
		}
	case *ast.AssignStmt:
		if len(x.Rhs) == 1 && (x.Tok == token.ASSIGN || x.Tok == token.DEFINE) {
			if call, ok := ast.Unparen(x.Rhs[0]).(*ast.CallExpr); ok {
				if r := c.absorb(call, x.Lhs, x.Tok, false, x); r != nil {
					return r
				}
			}
		}
	case *ast.ReturnStmt:
		if len(x.Results) == 1 {
			if call, ok := ast.Unparen(x.Results[0]).(*ast.CallExpr); ok {
				if r := c.absorb(call, nil, token.ILLEGAL, true, x); r != nil {
					return r
				}
			}
		}
	case *ast.DeferStmt:
		// defer h(args) with an absorbable helper: defer func() { h(args) }() – the arguments are names or
		// addresses, so evaluating them when the function returns instead of here makes no difference to the rules
		if fn, _ := c.callee(c.src, x.Call); fn != nil && c.in != nil {
			stableArgs := true
			for _, a := range x.Call.Args {
				if !stableExpr(c.src, a) {
					stableArgs = false
				}
			}
			if sel, ok := ast.Unparen(x.Call.Fun).(*ast.SelectorExpr); ok && !stableExpr(c.src, sel.X) {
				stableArgs = false
			}
			if stableArgs {
				sub := *c
				sub.curSig = types.NewSignatureType(nil, nil, nil, nil, nil, false)
				inner := sub.stmt(&ast.ExprStmt{X: x.Call})
				if len(inner) != 1 || !isPlainCall(inner[0], x.Call) {
					lit := &ast.FuncLit{Type: &ast.FuncType{Func: x.Call.Pos(), Params: &ast.FieldList{}}, Body: &ast.BlockStmt{Lbrace: x.Call.Pos(), List: inner, Rbrace: x.Call.End()}}
					c.dst.Types[lit] = types.TypeAndValue{Type: sub.curSig}
					call := &ast.CallExpr{Fun: lit, Lparen: x.Call.Lparen, Rparen: x.Call.Rparen}
					nd := &ast.DeferStmt{Defer: x.Defer, Call: call}
					return []ast.Stmt{nd}
				}
			}
		}
	case *ast.BlockStmt:
		return []ast.Stmt{c.block(x)}
	case *ast.IfStmt:
		n := &ast.IfStmt{If: x.If}
		var pre []ast.Stmt
		if x.Init != nil {
			in := c.stmt(x.Init)
			if len(in) == 1 {
				if _, isBlock := in[0].(*ast.BlockStmt); !isBlock {
					if _, isLab := in[0].(*ast.LabeledStmt); !isLab {
						n.Init = in[0]
						in = nil
					}
				}
			}
			pre = in
		}
		n.Cond = c.node(x.Cond).(ast.Expr)
		n.Body = c.block(x.Body)
		if x.Else != nil {
			el := c.stmt(x.Else)
			if len(el) == 1 {
				n.Else = el[0]
			} else {
				n.Else = &ast.BlockStmt{List: el}
			}
		}
		c.copyInfo(x, n)
		if len(pre) > 0 {
			// the initialiser was a helper call: its body runs first, inside the scope of the if
			return []ast.Stmt{&ast.BlockStmt{Lbrace: x.If, List: append(pre, n), Rbrace: x.End()}}
		}
		return []ast.Stmt{n}
	case *ast.ForStmt:
		n := &ast.ForStmt{For: x.For}
		if x.Init != nil {
			n.Init = c.node(x.Init).(ast.Stmt)
		}
		if x.Cond != nil {
			n.Cond = c.node(x.Cond).(ast.Expr)
		}
		if x.Post != nil {
			n.Post = c.node(x.Post).(ast.Stmt)
		}
		n.Body = c.block(x.Body)
		c.copyInfo(x, n)
		return []ast.Stmt{n}
	case *ast.RangeStmt:
		if out := c.unrollRange(x); out != nil {
			return out
		}
		n := &ast.RangeStmt{For: x.For, TokPos: x.TokPos, Tok: x.Tok, Range: x.Range}
		if x.Key != nil {
			n.Key = c.node(x.Key).(ast.Expr)
		}
		if x.Value != nil {
			n.Value = c.node(x.Value).(ast.Expr)
		}
		n.X = c.node(x.X).(ast.Expr)
		n.Body = c.block(x.Body)
		c.copyInfo(x, n)
		return []ast.Stmt{n}
	case *ast.SwitchStmt:
		n := &ast.SwitchStmt{Switch: x.Switch}
		if x.Init != nil {
			n.Init = c.node(x.Init).(ast.Stmt)
		}
		if x.Tag != nil {
			n.Tag = c.node(x.Tag).(ast.Expr)
		}
		n.Body = c.clauses(x.Body)
		c.copyInfo(x, n)
		return []ast.Stmt{n}
	case *ast.TypeSwitchStmt:
		n := &ast.TypeSwitchStmt{Switch: x.Switch}
		if x.Init != nil {
			n.Init = c.node(x.Init).(ast.Stmt)
		}
		n.Assign = c.node(x.Assign).(ast.Stmt)
		n.Body = c.clauses(x.Body)
		c.copyInfo(x, n)
		return []ast.Stmt{n}
	case *ast.SelectStmt:
		n := &ast.SelectStmt{Select: x.Select, Body: c.clauses(x.Body)}
		c.copyInfo(x, n)
		return []ast.Stmt{n}
	case *ast.LabeledStmt:
		inner := c.stmt(x.Stmt)
		n := &ast.LabeledStmt{Label: c.node(x.Label).(*ast.Ident), Colon: x.Colon}
		if len(inner) == 1 {
			n.Stmt = inner[0]
		} else {
			n.Stmt = &ast.BlockStmt{List: inner}
		}
		c.copyInfo(x, n)
		return []ast.Stmt{n}
	}
	return []ast.Stmt{c.node(s).(ast.Stmt)}
}

func (c *cloner) clauses(b *ast.BlockStmt) *ast.BlockStmt {
	nb := &ast.BlockStmt{Lbrace: b.Lbrace, Rbrace: b.Rbrace}
	for _, s := range b.List {
		switch cl := s.(type) {
		case *ast.CaseClause:
			n := &ast.CaseClause{Case: cl.Case, Colon: cl.Colon}
			for _, e := range cl.List {
				n.List = append(n.List, c.node(e).(ast.Expr))
			}
			n.Body = c.stmts(cl.Body)
			c.copyInfo(cl, n)
			nb.List = append(nb.List, n)
		case *ast.CommClause:
			n := &ast.CommClause{Case: cl.Case, Colon: cl.Colon}
			if cl.Comm != nil {
				n.Comm = c.node(cl.Comm).(ast.Stmt)
			}
			n.Body = c.stmts(cl.Body)
			c.copyInfo(cl, n)
			nb.List = append(nb.List, n)
		default:
			nb.List = append(nb.List, c.node(s).(ast.Stmt))
		}
	}
	c.copyInfo(b, nb)
	return nb
}

// absorb replaces a statement whose whole effect is one helper call by the helper's body.
// lhs/tok: the assignment receiving the results; tail: the statement is `return call`.
func (c *cloner) absorb(call *ast.CallExpr, lhs []ast.Expr, tok token.Token, tail bool, at ast.Stmt) []ast.Stmt {
	c.tailOK = tail
	fn, id := c.callee(c.src, call)
	c.tailOK = false
	if fn == nil {
		return nil
	}
	d := c.in.p.declOf[fn]
	sig := fn.Type().(*types.Signature)
	if lhs != nil && sig.Results().Len() != len(lhs) {
		return nil
	}
	if tail {
		// `return h(…)`: only when h returns what the caller returns
		if cs := c.curSig; cs == nil || cs.Results().Len() != sig.Results().Len() {
			return nil
		}
	}
	// single-expression helpers are handled at expression level (keeps the statement's shape)
	if len(d.Body.List) == 1 {
		if r, ok := d.Body.List[0].(*ast.ReturnStmt); ok && len(r.Results) == 1 {
			return nil
		}
	}
	// the call itself, cloned in the caller's context (arguments may contain absorbable calls)
	args := &cloner{src: c.src, dst: c.dst, subst: c.subst, in: c.in, pk: c.pk, stack: c.stack, fresh: c.fresh, replace: c.replace, top: c.top}
	ncall := &ast.CallExpr{Fun: args.node(call.Fun).(ast.Expr), Lparen: call.Lparen, Rparen: call.Rparen}
	for _, a := range call.Args {
		ncall.Args = append(ncall.Args, args.node(a).(ast.Expr))
	}
	fr := &freshener{lo: d.Pos(), hi: d.End(), m: map[types.Object]types.Object{}}
	subst, pre, ok := c.bind(c.dst, ncall, fn, d, fr)
	if !ok {
		return nil
	}
	calleeInfo := c.in.p.pkgOfObj[fn.Pkg()].TypesInfo
	// results
	var resObjs []types.Object
	named := false
	if d.Type.Results != nil {
		for _, fl := range d.Type.Results.List {
			for _, nm := range fl.Names {
				named = true
				resObjs = append(resObjs, calleeInfo.Defs[nm])
			}
		}
	}
	var nlhs []ast.Expr
	for _, l := range lhs {
		nlhs = append(nlhs, args.node(l).(ast.Expr))
	}
	var decls []ast.Stmt
	if named {
		k := 0
		for _, fl := range d.Type.Results.List {
			for _, nm := range fl.Names {
				obj := calleeInfo.Defs[nm]
				if nm.Name == "_" || obj == nil {
					k++
					continue
				}
				if lhs != nil && tok == token.ASSIGN && stableExpr(c.dst, nlhs[k]) && identOf(nlhs[k]) != nil && identOf(nlhs[k]).Name != "_" {
					subst[obj] = nlhs[k] // the named result *is* the caller's variable
				} else {
					// var r T
					ident := &ast.Ident{NamePos: call.Pos(), Name: nm.Name}
					c.dst.Defs[ident] = fr.of(obj)
					tc := &cloner{src: calleeInfo, dst: c.dst}
					spec := &ast.ValueSpec{Names: []*ast.Ident{ident}, Type: tc.node(fl.Type).(ast.Expr)}
					decls = append(decls, &ast.DeclStmt{Decl: &ast.GenDecl{TokPos: call.Pos(), Tok: token.VAR, Specs: []ast.Spec{spec}}})
				}
				k++
			}
		}
	}
	c.in.seq++
	label := "inl" + strconv.Itoa(c.in.seq) + "_" + fn.Name()
	body := &cloner{src: calleeInfo, dst: c.dst, subst: subst, in: c.in, pk: c.pk, stack: append(append([]*types.Func{}, c.stack...), fn), fresh: fr, top: c.top}
	usedBreak := false
	resultRef := func(k int, pos token.Pos) ast.Expr {
		obj := resObjs[k]
		if repl, ok := subst[obj]; ok {
			cc := &cloner{src: c.dst, dst: c.dst}
			return cc.node(repl).(ast.Expr)
		}
		id := &ast.Ident{NamePos: pos, Name: obj.Name()}
		c.dst.Uses[id] = fr.of(obj)
		c.dst.Types[id] = types.TypeAndValue{Type: obj.Type()}
		return id
	}
	// rewrite of the helper's return statements
	var rewrite func(list []ast.Stmt, last bool) []ast.Stmt
	mkReturn := func(r *ast.ReturnStmt, isLast bool) []ast.Stmt {
		var out []ast.Stmt
		var vals []ast.Expr
		for _, e := range r.Results {
			vals = append(vals, body.node(e).(ast.Expr))
		}
		if tail {
			if len(vals) == 0 && named {
				for k := range resObjs {
					vals = append(vals, resultRef(k, r.Pos()))
				}
			}
			return []ast.Stmt{&ast.ReturnStmt{Return: r.Return, Results: vals}}
		}
		switch {
		case len(vals) > 0 && lhs != nil:
			// lhs = vals  (for named results that were substituted this also covers `return x, y`)
			var l2 []ast.Expr
			for _, l := range nlhs {
				cc := &cloner{src: c.dst, dst: c.dst}
				l2 = append(l2, cc.node(l).(ast.Expr))
			}
			// `return r, err` of a named result that is the caller's variable already would read `x, e = x, err`:
			// the self-assignment is dropped
			var l3, v3 []ast.Expr
			for k := range l2 {
				li, vi := identOf(l2[k]), identOf(vals[k])
				if li != nil && vi != nil && c.dst.Uses[li] != nil && c.dst.Uses[li] == c.dst.Uses[vi] {
					continue
				}
				l3, v3 = append(l3, l2[k]), append(v3, vals[k])
			}
			if len(l3) > 0 {
				out = append(out, &ast.AssignStmt{Lhs: l3, TokPos: r.Pos(), Tok: tok, Rhs: v3})
			}
		case len(vals) > 0:
			// results are dropped by the caller: keep the evaluation
			var blanks []ast.Expr
			for range vals {
				blanks = append(blanks, &ast.Ident{NamePos: r.Pos(), Name: "_"})
			}
			out = append(out, &ast.AssignStmt{Lhs: blanks, TokPos: r.Pos(), Tok: token.ASSIGN, Rhs: vals})
		case lhs != nil && named:
			// bare return: lhs = named results (unless they are the caller's variables already)
			var l2, r2 []ast.Expr
			for k := range resObjs {
				if _, same := subst[resObjs[k]]; same {
					continue
				}
				cc := &cloner{src: c.dst, dst: c.dst}
				l2 = append(l2, cc.node(nlhs[k]).(ast.Expr))
				r2 = append(r2, resultRef(k, r.Pos()))
			}
			if len(l2) > 0 {
				out = append(out, &ast.AssignStmt{Lhs: l2, TokPos: r.Pos(), Tok: tok, Rhs: r2})
			}
		}
		if !isLast {
			usedBreak = true
			lab := &ast.Ident{NamePos: r.Pos(), Name: label}
			out = append(out, &ast.BranchStmt{TokPos: r.Pos(), Tok: token.BREAK, Label: lab})
		}
		return out
	}
	var rewriteStmt func(s ast.Stmt, last bool) []ast.Stmt
	rewriteStmt = func(s ast.Stmt, last bool) []ast.Stmt {
		switch x := s.(type) {
		case *ast.ReturnStmt:
			return mkReturn(x, last)
		case *ast.BlockStmt:
			return []ast.Stmt{&ast.BlockStmt{Lbrace: x.Lbrace, List: rewrite(x.List, last), Rbrace: x.Rbrace}}
		case *ast.IfStmt:
			n := &ast.IfStmt{If: x.If}
			if x.Init != nil {
				n.Init = body.node(x.Init).(ast.Stmt)
			}
			n.Cond = body.node(x.Cond).(ast.Expr)
			n.Body = &ast.BlockStmt{Lbrace: x.Body.Lbrace, List: rewrite(x.Body.List, last), Rbrace: x.Body.Rbrace}
			if x.Else != nil {
				el := rewriteStmt(x.Else, last)
				if len(el) == 1 {
					n.Else = el[0]
				} else {
					n.Else = &ast.BlockStmt{List: el}
				}
			}
			body.copyInfo(x, n)
			return []ast.Stmt{n}
		case *ast.ForStmt:
			n := &ast.ForStmt{For: x.For}
			if x.Init != nil {
				n.Init = body.node(x.Init).(ast.Stmt)
			}
			if x.Cond != nil {
				n.Cond = body.node(x.Cond).(ast.Expr)
			}
			if x.Post != nil {
				n.Post = body.node(x.Post).(ast.Stmt)
			}
			n.Body = &ast.BlockStmt{Lbrace: x.Body.Lbrace, List: rewrite(x.Body.List, false), Rbrace: x.Body.Rbrace}
			body.copyInfo(x, n)
			return []ast.Stmt{n}
		case *ast.RangeStmt:
			n := &ast.RangeStmt{For: x.For, TokPos: x.TokPos, Tok: x.Tok, Range: x.Range}
			if x.Key != nil {
				n.Key = body.node(x.Key).(ast.Expr)
			}
			if x.Value != nil {
				n.Value = body.node(x.Value).(ast.Expr)
			}
			n.X = body.node(x.X).(ast.Expr)
			n.Body = &ast.BlockStmt{Lbrace: x.Body.Lbrace, List: rewrite(x.Body.List, false), Rbrace: x.Body.Rbrace}
			body.copyInfo(x, n)
			return []ast.Stmt{n}
		case *ast.SwitchStmt:
			n := &ast.SwitchStmt{Switch: x.Switch}
			if x.Init != nil {
				n.Init = body.node(x.Init).(ast.Stmt)
			}
			if x.Tag != nil {
				n.Tag = body.node(x.Tag).(ast.Expr)
			}
			nb := &ast.BlockStmt{Lbrace: x.Body.Lbrace, Rbrace: x.Body.Rbrace}
			for _, s := range x.Body.List {
				cl := s.(*ast.CaseClause)
				nc := &ast.CaseClause{Case: cl.Case, Colon: cl.Colon}
				for _, e := range cl.List {
					nc.List = append(nc.List, body.node(e).(ast.Expr))
				}
				nc.Body = rewrite(cl.Body, last)
				nb.List = append(nb.List, nc)
			}
			n.Body = nb
			body.copyInfo(x, n)
			return []ast.Stmt{n}
		case *ast.LabeledStmt:
			inner := rewriteStmt(x.Stmt, last)
			n := &ast.LabeledStmt{Label: body.node(x.Label).(*ast.Ident), Colon: x.Colon}
			n.Label.Name = label + "_" + n.Label.Name
			if len(inner) == 1 {
				n.Stmt = inner[0]
			} else {
				n.Stmt = &ast.BlockStmt{List: inner}
			}
			return []ast.Stmt{n}
		case *ast.BranchStmt:
			n := body.node(x).(*ast.BranchStmt)
			if n.Label != nil {
				n.Label.Name = label + "_" + n.Label.Name
			}
			return []ast.Stmt{n}
		case *ast.TypeSwitchStmt:
			n := &ast.TypeSwitchStmt{Switch: x.Switch}
			if x.Init != nil {
				n.Init = body.node(x.Init).(ast.Stmt)
			}
			n.Assign = body.node(x.Assign).(ast.Stmt)
			nb := &ast.BlockStmt{Lbrace: x.Body.Lbrace, Rbrace: x.Body.Rbrace}
			for _, s := range x.Body.List {
				cl := s.(*ast.CaseClause)
				nc := &ast.CaseClause{Case: cl.Case, Colon: cl.Colon}
				for _, e := range cl.List {
					nc.List = append(nc.List, body.node(e).(ast.Expr))
				}
				body.copyInfo(cl, nc) // the clause's implicit variable, before its uses are cloned
				nc.Body = rewrite(cl.Body, last)
				nb.List = append(nb.List, nc)
			}
			n.Body = nb
			body.copyInfo(x, n)
			return []ast.Stmt{n}
		case *ast.SelectStmt:
			// returns inside are rare in helpers; give up on the whole call if there is one
			has := false
			ast.Inspect(x, func(n ast.Node) bool {
				if _, ok := n.(*ast.FuncLit); ok {
					return false
				}
				if _, ok := n.(*ast.ReturnStmt); ok {
					has = true
				}
				return true
			})
			if has && !(tail && !named) {
				panic(giveUp{}) // (in tail position with explicit results the returns can stay what they are)
			}
		}
		// statements without nested returns: absorb helper calls inside them as well
		return body.stmt(s)
	}
	rewrite = func(list []ast.Stmt, last bool) []ast.Stmt {
		var out []ast.Stmt
		for i, s := range list {
			out = append(out, rewriteStmt(s, last && i == len(list)-1)...)
		}
		return out
	}
	var inner []ast.Stmt
	okk := func() (ok bool) {
		defer func() {
			if r := recover(); r != nil {
				if _, is := r.(giveUp); is {
					ok = false
					return
				}
				panic(r)
			}
		}()
		inner = rewrite(d.Body.List, true)
		return true
	}()
	if !okk {
		return nil
	}
	c.in.Stats.Calls++
	c.markAbsorbed(id)
	stmts := append(append([]ast.Stmt{}, pre...), decls...)
	if usedBreak {
		sw := &ast.SwitchStmt{Switch: call.Pos(), Body: &ast.BlockStmt{Lbrace: call.Pos(), Rbrace: call.End(),
			List: []ast.Stmt{&ast.CaseClause{Case: call.Pos(), Colon: call.Pos(), Body: inner}}}}
		stmts = append(stmts, &ast.LabeledStmt{Label: &ast.Ident{NamePos: call.Pos(), Name: label}, Colon: call.Pos(), Stmt: sw})
	} else {
		stmts = append(stmts, inner...)
	}
	if len(pre)+len(decls) > 0 || (!usedBreak && len(inner) != 1) {
		// keep helper-local definitions in a scope of their own
		return []ast.Stmt{&ast.BlockStmt{Lbrace: at.Pos(), List: stmts, Rbrace: at.End()}}
	}
	return stmts
}

type giveUp struct{}

// isPlainCall: the statement is still just the (cloned) call – nothing was absorbed.
func isPlainCall(s ast.Stmt, orig *ast.CallExpr) bool {
	es, ok := s.(*ast.ExprStmt)
	if !ok {
		return false
	}
	_, isCall := ast.Unparen(es.X).(*ast.CallExpr)
	return isCall
}

// localClosure returns a function object standing for `v := func(…) { … }` when v is assigned exactly
// once in the declaration being normalised and never has its address taken.
func (c *cloner) localClosure(info *types.Info, v *types.Var) *types.Func {
	if fn, ok := c.in.litFuncs[v]; ok {
		return fn
	}
	c.in.litFuncs[v] = nil
	n := 0
	var lit *ast.FuncLit
	var name *ast.Ident
	ast.Inspect(c.top, func(x ast.Node) bool {
		switch y := x.(type) {
		case *ast.AssignStmt:
			for i, l := range y.Lhs {
				if id, ok := l.(*ast.Ident); ok && (info.Defs[id] == types.Object(v) || info.Uses[id] == types.Object(v)) {
					n++
					if len(y.Lhs) == len(y.Rhs) {
						if fl, ok := ast.Unparen(y.Rhs[i]).(*ast.FuncLit); ok {
							lit, name = fl, id
						}
					}
				}
			}
		case *ast.UnaryExpr:
			if y.Op == token.AND {
				if id, ok := ast.Unparen(y.X).(*ast.Ident); ok && info.Uses[id] == types.Object(v) {
					n += 2
				}
			}
		}
		return true
	})
	if n != 1 || lit == nil {
		return nil
	}
	sig, _ := info.Types[lit].Type.(*types.Signature)
	if sig == nil {
		return nil
	}
	fn := types.NewFunc(lit.Pos(), v.Pkg(), v.Name(), sig)
	c.in.p.declOf[fn] = &ast.FuncDecl{Name: name, Type: lit.Type, Body: lit.Body}
	c.in.litFuncs[v] = fn
	return fn
}
