package core

// Helper restoration – the mirror image of absorption.
//
// A maintainer may write a small helper out at its call sites and delete it. The rules name such
// helpers (conn.resetBuffer, eventloop.closeConns, byteslice.index …), so the edit leaves them without
// their anchor although nothing changed. The baseline therefore keeps the source of every small
// unexported function (baseline_helpers.txt). When such a function is missing from the analysed tree
// (and no renamed newcomer fits, rename.go), the loader adds its baseline source back to the package in
// an overlay file, type-checks again, and folds every stretch of code that matches the helper's body –
// modulo the binding of receiver and parameters and the names of its locals – back into a call of the
// helper in the normalised tree the rules see. If the restored source no longer type-checks against
// the package, nothing is restored and the rules report the missing anchor as before.

import (
	_ "embed"
	"go/ast"
	"go/token"
	"go/types"
	"path/filepath"
	"reflect"
	"sort"
	"strings"
)

//go:embed baseline_helpers.txt
var baselineHelpersText string

type helperSrc struct {
	key     string
	pkgPath string
	pkgName string
	imports []string // `name "path"` lines
	src     string
}

var baselineHelpers = func() map[string]*helperSrc {
	m := map[string]*helperSrc{}
	var cur *helperSrc
	var body []string
	flush := func() {
		if cur != nil {
			cur.src = strings.Join(body, "\n")
			m[cur.key] = cur
		}
		cur, body = nil, nil
	}
	for _, l := range strings.Split(baselineHelpersText, "\n") {
		switch {
		case strings.HasPrefix(l, "=== "):
			flush()
			cur = &helperSrc{key: strings.TrimSpace(l[4:])}
		case cur != nil && strings.HasPrefix(l, "#pkg "):
			f := strings.Fields(l[5:])
			if len(f) == 2 {
				cur.pkgPath, cur.pkgName = f[0], f[1]
			}
		case cur != nil && strings.HasPrefix(l, "#import "):
			cur.imports = append(cur.imports, strings.TrimSpace(l[8:]))
		case cur != nil:
			body = append(body, l)
		}
	}
	flush()
	return m
}()

// restoreOverlay returns overlay files that give the missing baseline helpers of this configuration back.
func restoreOverlay(p *Program) (map[string][]byte, []string) {
	cfg := p.Cfg.String()
	present := map[string]bool{}
	for fn := range p.declOf {
		present[FuncKey(fn)] = true
	}
	byPkg := map[string][]*helperSrc{}
	var keys []string
	for key, e := range baselineFuncInfo {
		if !e.cfgs[cfg] || present[key] || p.fnByOldKey[key] != nil {
			continue
		}
		h := baselineHelpers[key]
		if h == nil || p.ByPath[h.pkgPath] == nil {
			continue
		}
		byPkg[h.pkgPath] = append(byPkg[h.pkgPath], h)
		keys = append(keys, key)
	}
	if len(keys) == 0 {
		return nil, nil
	}
	sort.Strings(keys)
	out := map[string][]byte{}
	for path, hs := range byPkg {
		pk := p.ByPath[path]
		if len(pk.GoFiles) == 0 {
			continue
		}
		sort.Slice(hs, func(i, j int) bool { return hs[i].key < hs[j].key })
		imps := map[string]bool{}
		var b strings.Builder
		b.WriteString("package " + hs[0].pkgName + "\n\n")
		for _, h := range hs {
			for _, im := range h.imports {
				imps[im] = true
			}
		}
		var il []string
		for im := range imps {
			il = append(il, im)
		}
		sort.Strings(il)
		if len(il) > 0 {
			b.WriteString("import (\n")
			for _, im := range il {
				b.WriteString("\t" + im + "\n")
			}
			b.WriteString(")\n\n")
		}
		// names the analysed tree has changed consistently (rename.go) are changed in the restored source too
		var repl []string
		for old, f := range p.fieldByOldKey {
			if strings.HasPrefix(old, path+".") {
				repl = append(repl, old[strings.LastIndex(old, ".")+1:], f.Name())
			}
		}
		for old, fn := range p.fnByOldKey {
			if strings.HasPrefix(old, path+".") {
				repl = append(repl, old[strings.LastIndex(old, ".")+1:], fn.Name())
			}
		}
		for _, h := range hs {
			src := h.src
			for i := 0; i+1 < len(repl); i += 2 {
				src = replaceWord(src, repl[i], repl[i+1])
			}
			b.WriteString(src + "\n\n")
		}
		out[filepath.Join(filepath.Dir(pk.GoFiles[0]), "zz_gnetlint_restored.go")] = []byte(b.String())
	}
	return out, keys
}

// ---- folding inlined copies back into calls ----

type folder struct {
	p      *Program
	info   *types.Info
	helper *types.Func
	decl   *ast.FuncDecl
	params []types.Object // receiver first (if any), then parameters
	isPar  map[types.Object]bool
	locals map[types.Object]bool
}

func (p *Program) newFolder(h *types.Func) *folder {
	d := p.declOf[h]
	pk := p.pkgOfObj[h.Pkg()]
	if d == nil || d.Body == nil || pk == nil {
		return nil
	}
	f := &folder{p: p, info: pk.TypesInfo, helper: h, decl: d, isPar: map[types.Object]bool{}, locals: map[types.Object]bool{}}
	add := func(fl *ast.FieldList) bool {
		if fl == nil {
			return true
		}
		for _, fd := range fl.List {
			if len(fd.Names) == 0 {
				return false
			}
			for _, nm := range fd.Names {
				o := f.info.Defs[nm]
				if nm.Name == "_" {
					f.params = append(f.params, nil) // a blank parameter: any argument will do
					continue
				}
				if o == nil {
					return false
				}
				f.params = append(f.params, o)
				f.isPar[o] = true
			}
		}
		return true
	}
	if !add(d.Recv) || !add(d.Type.Params) {
		return nil
	}
	ast.Inspect(d.Body, func(n ast.Node) bool {
		if id, ok := n.(*ast.Ident); ok {
			if o, ok := f.info.Defs[id].(*types.Var); ok && !o.IsField() {
				f.locals[o] = true
			}
		}
		return true
	})
	return f
}

type binding struct {
	par map[types.Object]ast.Expr
	loc map[types.Object]types.Object
}

func exprText(e ast.Expr) string { return types.ExprString(e) }

// match compares pattern (helper body) and target structurally.
func (f *folder) match(pat, tgt ast.Node, b *binding) bool {
	if pat == nil || tgt == nil {
		return pat == nil && tgt == nil
	}
	pv, tv := reflect.ValueOf(pat), reflect.ValueOf(tgt)
	if (pv.Kind() == reflect.Ptr && pv.IsNil()) || (tv.Kind() == reflect.Ptr && tv.IsNil()) {
		return pv.Kind() == reflect.Ptr && pv.IsNil() && tv.Kind() == reflect.Ptr && tv.IsNil()
	}
	if pe, ok := pat.(*ast.ParenExpr); ok {
		return f.match(pe.X, tgt, b)
	}
	if te, ok := tgt.(*ast.ParenExpr); ok {
		return f.match(pat, te.X, b)
	}
	if id, ok := pat.(*ast.Ident); ok {
		obj := f.info.Uses[id]
		if obj == nil {
			obj = f.info.Defs[id]
		}
		te, isExpr := tgt.(ast.Expr)
		switch {
		case obj != nil && f.isPar[obj]:
			if !isExpr {
				return false
			}
			if old, ok := b.par[obj]; ok {
				return exprText(old) == exprText(te)
			}
			b.par[obj] = te
			return true
		case obj != nil && f.locals[obj]:
			tid, ok := tgt.(*ast.Ident)
			if !ok {
				return false
			}
			to := f.info.Uses[tid]
			if to == nil {
				to = f.info.Defs[tid]
			}
			if to == nil {
				return id.Name == "_" && tid.Name == "_"
			}
			if old, ok := b.loc[obj]; ok {
				return old == to
			}
			b.loc[obj] = to
			return true
		default:
			tid, ok := tgt.(*ast.Ident)
			if !ok || tid.Name != id.Name {
				return false
			}
			to := f.info.Uses[tid]
			if to == nil {
				to = f.info.Defs[tid]
			}
			if obj == to {
				return true
			}
			// package names are objects of the importing file
			po, ok1 := obj.(*types.PkgName)
			qo, ok2 := to.(*types.PkgName)
			return ok1 && ok2 && po.Imported() == qo.Imported()
		}
	}
	if pv.Type() != tv.Type() {
		return false
	}
	pe, te := pv.Elem(), tv.Elem()
	for i := 0; i < pe.NumField(); i++ {
		pf, tf := pe.Field(i), te.Field(i)
		switch pf.Kind() {
		case reflect.Int: // token.Pos, token.Token
			if pf.Type() == reflect.TypeOf(token.NoPos) {
				continue
			}
			if pf.Int() != tf.Int() {
				return false
			}
		case reflect.String:
			if pf.String() != tf.String() {
				return false
			}
		case reflect.Bool:
			if pf.Bool() != tf.Bool() {
				return false
			}
		case reflect.Ptr, reflect.Interface:
			if pf.Type() == objPtr || pf.Type() == scopePtr || pf.Type() == cgroupPtr {
				continue
			}
			if pf.IsNil() || tf.IsNil() {
				if pf.IsNil() != tf.IsNil() {
					return false
				}
				continue
			}
			pn, ok1 := pf.Interface().(ast.Node)
			tn, ok2 := tf.Interface().(ast.Node)
			if !ok1 || !ok2 {
				continue
			}
			if !f.match(pn, tn, b) {
				return false
			}
		case reflect.Slice:
			if pf.Len() != tf.Len() {
				return false
			}
			for j := 0; j < pf.Len(); j++ {
				pn, ok1 := pf.Index(j).Interface().(ast.Node)
				tn, ok2 := tf.Index(j).Interface().(ast.Node)
				if !ok1 || !ok2 {
					continue
				}
				if !f.match(pn, tn, b) {
					return false
				}
			}
		}
	}
	return true
}

// call builds `recv.helper(args)` / `helper(args)` from a binding; nil if something is unbound.
func (f *folder) call(b *binding, pos token.Pos) *ast.CallExpr {
	id := &ast.Ident{NamePos: pos, Name: f.helper.Name()}
	f.info.Uses[id] = f.helper
	var fun ast.Expr = id
	params := f.params
	if f.decl.Recv != nil {
		if params[0] == nil {
			return nil
		}
		r, ok := b.par[params[0]]
		if !ok {
			return nil
		}
		fun = &ast.SelectorExpr{X: r, Sel: id}
		params = params[1:]
	}
	c := &ast.CallExpr{Fun: fun, Lparen: pos, Rparen: pos}
	for _, po := range params {
		if po == nil {
			z := &ast.BasicLit{ValuePos: pos, Kind: token.INT, Value: "0"}
			f.info.Types[z] = types.TypeAndValue{Type: types.Typ[types.UntypedInt]}
			c.Args = append(c.Args, z)
			continue
		}
		a, ok := b.par[po]
		if !ok {
			return nil
		}
		c.Args = append(c.Args, a)
	}
	sig := f.helper.Type().(*types.Signature)
	switch sig.Results().Len() {
	case 0:
		f.info.Types[c] = types.TypeAndValue{Type: types.NewTuple()}
	case 1:
		f.info.Types[c] = types.TypeAndValue{Type: sig.Results().At(0).Type()}
	default:
		f.info.Types[c] = types.TypeAndValue{Type: sig.Results()}
	}
	f.info.Types[fun] = types.TypeAndValue{Type: sig}
	return c
}

// fold rewrites body (a private clone) in place; it returns the number of copies folded back.
func (f *folder) fold(body *ast.BlockStmt) int {
	n := 0
	pat := f.decl.Body.List
	if len(pat) == 0 {
		return 0
	}
	// expression helper: `return e`
	if len(pat) == 1 {
		if r, ok := pat[0].(*ast.ReturnStmt); ok && len(r.Results) == 1 {
			n += f.foldExprs(body, r.Results[0])
			return n
		}
	}
	// statement helper without results and without return statements
	if f.helper.Type().(*types.Signature).Results().Len() != 0 {
		return 0
	}
	hasRet := false
	ast.Inspect(f.decl.Body, func(x ast.Node) bool {
		if _, ok := x.(*ast.FuncLit); ok {
			return false
		}
		if _, ok := x.(*ast.ReturnStmt); ok {
			hasRet = true
		}
		return true
	})
	if hasRet {
		return 0
	}
	var lists func(n ast.Node)
	try := func(list []ast.Stmt) []ast.Stmt {
		for i := 0; i+len(pat) <= len(list); i++ {
			b := &binding{par: map[types.Object]ast.Expr{}, loc: map[types.Object]types.Object{}}
			ok := true
			for k := range pat {
				if !f.match(pat[k], list[i+k], b) {
					ok = false
					break
				}
			}
			if !ok {
				continue
			}
			c := f.call(b, list[i].Pos())
			if c == nil {
				continue
			}
			n++
			nl := append([]ast.Stmt{}, list[:i]...)
			nl = append(nl, &ast.ExprStmt{X: c})
			nl = append(nl, list[i+len(pat):]...)
			list = nl
		}
		return list
	}
	lists = func(x ast.Node) {
		ast.Inspect(x, func(y ast.Node) bool {
			switch z := y.(type) {
			case *ast.BlockStmt:
				z.List = try(z.List)
			case *ast.CaseClause:
				z.Body = try(z.Body)
			case *ast.CommClause:
				z.Body = try(z.Body)
			}
			return true
		})
	}
	lists(body)
	return n
}

// foldExprs replaces every sub-expression of body that matches pat by a call of the helper.
func (f *folder) foldExprs(body ast.Node, pat ast.Expr) int {
	n := 0
	exprType := reflect.TypeOf((*ast.Expr)(nil)).Elem()
	var visit func(x ast.Node)
	// the helper's result may have been converted (`return uint32(bits.Len32(n-1))`); written out at a call site
	// the conversion is often dropped because the receiving variable has another integer type
	pats := []ast.Expr{pat}
	if conv, ok := ast.Unparen(pat).(*ast.CallExpr); ok && len(conv.Args) == 1 {
		if tv, ok := f.info.Types[conv.Fun]; ok && tv.IsType() {
			pats = append(pats, conv.Args[0])
		}
	}
	tryExpr := func(e ast.Expr) ast.Expr {
		if e == nil {
			return nil
		}
		for _, pt := range pats {
			b := &binding{par: map[types.Object]ast.Expr{}, loc: map[types.Object]types.Object{}}
			if f.match(pt, e, b) {
				if c := f.call(b, e.Pos()); c != nil {
					n++
					return c
				}
			}
		}
		return nil
	}
	visit = func(x ast.Node) {
		if x == nil || reflect.ValueOf(x).IsNil() {
			return
		}
		v := reflect.ValueOf(x).Elem()
		for i := 0; i < v.NumField(); i++ {
			fl := v.Field(i)
			switch fl.Kind() {
			case reflect.Interface, reflect.Ptr:
				if fl.IsNil() || fl.Type() == objPtr || fl.Type() == scopePtr || fl.Type() == cgroupPtr {
					continue
				}
				child, ok := fl.Interface().(ast.Node)
				if !ok {
					continue
				}
				if fl.Type() == exprType {
					if r := tryExpr(child.(ast.Expr)); r != nil {
						fl.Set(reflect.ValueOf(r))
						continue
					}
				}
				visit(child)
			case reflect.Slice:
				for j := 0; j < fl.Len(); j++ {
					el := fl.Index(j)
					if (el.Kind() != reflect.Interface && el.Kind() != reflect.Ptr) || el.IsNil() {
						continue
					}
					child, ok := el.Interface().(ast.Node)
					if !ok {
						continue
					}
					if el.Type() == exprType {
						if r := tryExpr(child.(ast.Expr)); r != nil {
							el.Set(reflect.ValueOf(r))
							continue
						}
					}
					visit(child)
				}
			}
		}
	}
	visit(body)
	return n
}

// replaceWord replaces whole-identifier occurrences of old in src.
func replaceWord(src, old, new string) string {
	isId := func(c byte) bool {
		return c == '_' || (c >= '0' && c <= '9') || (c >= 'a' && c <= 'z') || (c >= 'A' && c <= 'Z')
	}
	var b strings.Builder
	for i := 0; i < len(src); {
		if strings.HasPrefix(src[i:], old) && (i == 0 || !isId(src[i-1])) && (i+len(old) == len(src) || !isId(src[i+len(old)])) {
			b.WriteString(new)
			i += len(old)
			continue
		}
		b.WriteByte(src[i])
		i++
	}
	return b.String()
}
