package core

// Rename resolution.
//
// The rules name their anchors (functions, methods, struct fields). A consistent rename of an
// unexported identifier changes no behaviour, but would leave every rule that mentions the old name
// without its anchor. The baseline therefore records, next to every function key, its signature and
// the configurations it exists in, and for every struct field its type. When a baseline name is
// missing in the analysed tree and exactly one newcomer of the same package, receiver (or struct) and
// signature (or type) has appeared – and that newcomer fits no other missing name – the newcomer is
// taken to be the old function or field under a new name: lookups by the old name resolve to it, its
// canonical name stays the old one, and it is not treated as a helper to be absorbed. Anything
// ambiguous stays unresolved (the rules then report their anchor as undecided, as before).

import (
	_ "embed"
	"go/ast"
	"go/types"
	"hash/fnv"
	"reflect"
	"sort"
	"strconv"
	"strings"
)

//go:embed baseline_fields.txt
var baselineFieldsText string

type baseEntry struct {
	sig   string
	cfgs  map[string]bool
	extra string // functions: structural fingerprint of the body; fields: index in the struct
}

var baselineFuncInfo, baselineFieldInfo = func() (map[string]baseEntry, map[string]baseEntry) {
	parse := func(text string) map[string]baseEntry {
		m := map[string]baseEntry{}
		for _, l := range strings.Split(text, "\n") {
			if l = strings.TrimSpace(l); l == "" || strings.HasPrefix(l, "#") {
				continue
			}
			parts := strings.Split(l, "\t")
			e := baseEntry{cfgs: map[string]bool{}}
			if len(parts) > 1 {
				e.sig = parts[1]
			}
			if len(parts) > 2 {
				for _, c := range strings.Split(parts[2], ";") {
					e.cfgs[c] = true
				}
			}
			if len(parts) > 3 {
				e.extra = parts[3]
			}
			m[parts[0]] = e
		}
		return m
	}
	return parse(baselineText), parse(baselineFieldsText)
}()

// canonical names of renamed objects (one Program per process)
var canon = map[types.Object]string{}

// CanonName is the name the rules know the object by.
func CanonName(o types.Object) string {
	if o == nil {
		return ""
	}
	if n, ok := canon[o]; ok {
		return n
	}
	return o.Name()
}

func qual(p *types.Package) string { return p.Path() }

// SigString renders a function signature without receiver and parameter names.
func SigString(fn *types.Func) string {
	sig, _ := fn.Type().(*types.Signature)
	if sig == nil {
		return ""
	}
	var b strings.Builder
	tuple := func(t *types.Tuple) {
		b.WriteString("(")
		for i := 0; i < t.Len(); i++ {
			if i > 0 {
				b.WriteString(",")
			}
			b.WriteString(types.TypeString(t.At(i).Type(), qual))
		}
		b.WriteString(")")
	}
	tuple(sig.Params())
	tuple(sig.Results())
	if sig.Variadic() {
		b.WriteString("...")
	}
	return b.String()
}

// FieldKey names a struct field: pkgpath.Type.field.
func FieldKey(pkgPath, typ, field string) string { return pkgPath + "." + typ + "." + field }

// StructFields lists the fields of the named struct types of a package: key → field.
func structFields(pk *types.Package) map[string]*types.Var {
	out := map[string]*types.Var{}
	sc := pk.Scope()
	for _, name := range sc.Names() {
		tn, ok := sc.Lookup(name).(*types.TypeName)
		if !ok {
			continue
		}
		st, ok := tn.Type().Underlying().(*types.Struct)
		if !ok {
			continue
		}
		for i := 0; i < st.NumFields(); i++ {
			f := st.Field(i)
			out[FieldKey(pk.Path(), name, f.Name())] = f
		}
	}
	return out
}

func (p *Program) resolveRenames() {
	p.fnByOldKey = map[string]*types.Func{}
	p.fieldByOldKey = map[string]*types.Var{}
	p.renamedFn = map[*types.Func]bool{}
	cfg := p.Cfg.String()
	// functions
	present := map[string]*types.Func{}
	for fn := range p.declOf {
		present[FuncKey(fn)] = fn
	}
	group := func(key string) string { // pkgpath.Recv
		return key[:strings.LastIndex(key, ".")]
	}
	var missing []string
	for key, e := range baselineFuncInfo {
		if e.cfgs[cfg] && present[key] == nil {
			missing = append(missing, key)
		}
	}
	sort.Strings(missing)
	newcomers := map[string][]*types.Func{} // group|sig → newcomers
	for key, fn := range present {
		if _, known := baselineFuncInfo[key]; !known {
			k := group(key) + "|" + SigString(fn)
			newcomers[k] = append(newcomers[k], fn)
		}
	}
	wanted := map[string][]string{} // group|sig → missing keys
	for _, key := range missing {
		k := group(key) + "|" + baselineFuncInfo[key].sig
		wanted[k] = append(wanted[k], key)
	}
	pairFn := func(old string, fn *types.Func) {
		p.fnByOldKey[old] = fn
		p.renamedFn[fn] = true
		canon[fn] = old[strings.LastIndex(old, ".")+1:]
		p.Renames = append(p.Renames, old+" → "+fn.Name())
	}
	for k, keys := range wanted {
		cands := newcomers[k]
		if len(keys) == 1 && len(cands) == 1 {
			pairFn(keys[0], cands[0])
			continue
		}
		// several functions of one receiver and signature changed their names together: pair them by the
		// structure of their bodies (a rename does not change it), when that is unambiguous
		if len(cands) == 0 {
			continue
		}
		byPrint := map[string][]*types.Func{}
		for _, fn := range cands {
			fp := Fingerprint(p.pkgOfObj[fn.Pkg()].TypesInfo, p.declOf[fn])
			byPrint[fp] = append(byPrint[fp], fn)
		}
		wantPrint := map[string][]string{}
		for _, key := range keys {
			fp := baselineFuncInfo[key].extra
			wantPrint[fp] = append(wantPrint[fp], key)
		}
		for fp, ks := range wantPrint {
			if fp != "" && len(ks) == 1 && len(byPrint[fp]) == 1 {
				pairFn(ks[0], byPrint[fp][0])
			}
		}
	}
	// struct fields
	for _, pk := range p.Pkgs {
		fields := structFields(pk.Types)
		var miss []string
		for key, e := range baselineFieldInfo {
			if strings.HasPrefix(key, pk.PkgPath+".") && !strings.Contains(strings.TrimPrefix(key, pk.PkgPath+"."), "/") && e.cfgs[cfg] && fields[key] == nil {
				// the struct itself must exist
				miss = append(miss, key)
			}
		}
		sort.Strings(miss)
		newF := map[string][]*types.Var{}
		for key, f := range fields {
			if _, known := baselineFieldInfo[key]; !known {
				k := group(key) + "|" + types.TypeString(f.Type(), qual)
				newF[k] = append(newF[k], f)
			}
		}
		wantF := map[string][]string{}
		for _, key := range miss {
			k := group(key) + "|" + baselineFieldInfo[key].sig
			wantF[k] = append(wantF[k], key)
		}
		pairField := func(old string, f *types.Var) {
			p.fieldByOldKey[old] = f
			canon[f] = old[strings.LastIndex(old, ".")+1:]
			p.Renames = append(p.Renames, old+" → "+f.Name())
		}
		fieldIndex := func(f *types.Var) string {
			for key, g := range fields {
				if g == f {
					tn, _ := pk.Types.Scope().Lookup(strings.Split(strings.TrimPrefix(key, pk.PkgPath+"."), ".")[0]).(*types.TypeName)
					if tn != nil {
						if st, ok := tn.Type().Underlying().(*types.Struct); ok {
							for i := 0; i < st.NumFields(); i++ {
								if st.Field(i) == f {
									return strconv.Itoa(i)
								}
							}
						}
					}
				}
			}
			return ""
		}
		for k, keys := range wantF {
			cands := newF[k]
			if len(keys) == 1 && len(cands) == 1 {
				pairField(keys[0], cands[0])
				continue
			}
			// several fields of one struct and type renamed together: a rename keeps a field's position
			for _, key := range keys {
				want := baselineFieldInfo[key].extra
				var hit []*types.Var
				for _, f := range cands {
					if want != "" && fieldIndex(f) == want {
						hit = append(hit, f)
					}
				}
				if len(hit) == 1 {
					pairField(key, hit[0])
				}
			}
		}
	}
	sort.Strings(p.Renames)
}

// Fingerprint hashes the structure of a function body: node kinds, operators and literals, but no
// identifier names and no positions – what a consistent rename leaves unchanged.
func Fingerprint(info *types.Info, d *ast.FuncDecl) string {
	if d == nil || d.Body == nil {
		return ""
	}
	h := fnv.New64a()
	ast.Inspect(d.Body, func(n ast.Node) bool {
		if n == nil {
			h.Write([]byte{0})
			return true
		}
		h.Write([]byte(reflect.TypeOf(n).String()))
		switch x := n.(type) {
		case *ast.Ident:
			// names of package-level objects, fields and methods are part of the structure (they tell
			// `return el.read(x)` from `return el.write(x)`); names of locals and parameters are not
			if info != nil {
				var o types.Object = info.Uses[x]
				if o != nil {
					if v, isVar := o.(*types.Var); !isVar || v.IsField() || (o.Pkg() != nil && o.Parent() == o.Pkg().Scope()) {
						h.Write([]byte(x.Name))
					}
				}
			}
		case *ast.BasicLit:
			h.Write([]byte(x.Value))
		case *ast.BinaryExpr:
			h.Write([]byte(x.Op.String()))
		case *ast.UnaryExpr:
			h.Write([]byte(x.Op.String()))
		case *ast.AssignStmt:
			h.Write([]byte(x.Tok.String()))
		case *ast.IncDecStmt:
			h.Write([]byte(x.Tok.String()))
		case *ast.BranchStmt:
			h.Write([]byte(x.Tok.String()))
		}
		return true
	})
	return strconv.FormatUint(h.Sum64(), 16)
}
