package flow

import (
	"go/ast"
	"go/token"
	"go/types"
)

// pruneNil removes conditional edges that contradict what is known about the nil-ness of a local
// variable on every path: after `err := errF` with errF established nil, the edge on which
// `err != nil` holds cannot be taken. Such correlated tests on copies are what a maintainer (or the
// helper absorber) produces from one test; without pruning every path rule sees a phantom path.
//
// Only variables that nothing else can change are tracked: locals (not fields) of a nilable type that
// are never assigned inside a function literal and whose address is never taken.
func (g *Graph) pruneNil() {
	info := g.Info
	nilable := func(t types.Type) bool {
		switch t.Underlying().(type) {
		case *types.Pointer, *types.Interface, *types.Slice, *types.Map, *types.Signature, *types.Chan:
			return true
		}
		return false
	}
	// candidates: variables compared with nil
	var vars []*types.Var
	idx := map[*types.Var]int{}
	ast.Inspect(g.Body, func(n ast.Node) bool {
		if _, ok := n.(*ast.FuncLit); ok {
			return false
		}
		if be, ok := n.(*ast.BinaryExpr); ok && (be.Op == token.EQL || be.Op == token.NEQ) && IsNil(info, be.Y) {
			if v, ok := ObjOf(info, be.X).(*types.Var); ok && !v.IsField() && nilable(v.Type()) {
				if _, seen := idx[v]; !seen && len(vars) < 30 {
					idx[v] = len(vars)
					vars = append(vars, v)
				}
			}
		}
		return true
	})
	if len(vars) == 0 {
		return
	}
	// copies feeding the candidates are tracked as well (err := errF)
	for changed := true; changed; {
		changed = false
		ast.Inspect(g.Body, func(n ast.Node) bool {
			if _, ok := n.(*ast.FuncLit); ok {
				return false
			}
			if as, ok := n.(*ast.AssignStmt); ok && len(as.Lhs) == len(as.Rhs) {
				for k, l := range as.Lhs {
					lv, _ := ObjOf(info, l).(*types.Var)
					rv, _ := ObjOf(info, as.Rhs[k]).(*types.Var)
					if lv == nil || rv == nil || rv.IsField() {
						continue
					}
					if _, tracked := idx[lv]; tracked {
						if _, have := idx[rv]; !have && len(vars) < 30 && nilable(rv.Type()) {
							idx[rv] = len(vars)
							vars = append(vars, rv)
							changed = true
						}
					}
				}
			}
			return true
		})
	}
	// disqualify variables that can change behind the analysis' back
	bad := map[*types.Var]bool{}
	var inLit func(n ast.Node, lit bool)
	inLit = func(n ast.Node, lit bool) {
		ast.Inspect(n, func(x ast.Node) bool {
			switch y := x.(type) {
			case *ast.FuncLit:
				if !lit {
					inLit(y.Body, true)
					return false
				}
			case *ast.UnaryExpr:
				if y.Op == token.AND {
					if v, ok := ObjOf(info, y.X).(*types.Var); ok {
						bad[v] = true
					}
				}
			case *ast.AssignStmt:
				if lit {
					for _, l := range y.Lhs {
						if v, ok := ObjOf(info, l).(*types.Var); ok {
							bad[v] = true
						}
					}
				}
			case *ast.IncDecStmt:
				if lit {
					if v, ok := ObjOf(info, y.X).(*types.Var); ok {
						bad[v] = true
					}
				}
			case *ast.RangeStmt:
				if lit {
					for _, e := range []ast.Expr{y.Key, y.Value} {
						if e != nil {
							if v, ok := ObjOf(info, e).(*types.Var); ok {
								bad[v] = true
							}
						}
					}
				}
			}
			return true
		})
	}
	inLit(g.Body, false)
	isNilBit := func(v *types.Var) uint64 { return 1 << uint(2*idx[v]) }
	nonNilBit := func(v *types.Var) uint64 { return 1 << uint(2*idx[v]+1) }
	tracked := func(e ast.Expr) *types.Var {
		v, ok := ObjOf(info, e).(*types.Var)
		if !ok || bad[v] {
			return nil
		}
		if _, ok := idx[v]; !ok {
			return nil
		}
		return v
	}
	p := &Problem{Must: true}
	p.Node = func(b *Block, i int, n ast.Node, in uint64) uint64 {
		Events(n, func(x ast.Node) {
			switch y := x.(type) {
			case *ast.AssignStmt:
				out := in
				for k, l := range y.Lhs {
					lv := tracked(l)
					if lv == nil {
						continue
					}
					out &^= isNilBit(lv) | nonNilBit(lv)
					if len(y.Lhs) != len(y.Rhs) || (y.Tok != token.ASSIGN && y.Tok != token.DEFINE) {
						continue
					}
					r := ast.Unparen(y.Rhs[k])
					switch {
					case IsNil(info, r):
						out |= isNilBit(lv)
					default:
						if rv := tracked(r); rv != nil {
							if in&isNilBit(rv) != 0 {
								out |= isNilBit(lv)
							}
							if in&nonNilBit(rv) != 0 {
								out |= nonNilBit(lv)
							}
						} else if ue, ok := r.(*ast.UnaryExpr); ok && ue.Op == token.AND {
							out |= nonNilBit(lv)
						}
					}
				}
				in = out
			case *ast.RangeStmt:
				for _, e := range []ast.Expr{y.Key, y.Value} {
					if e != nil {
						if v := tracked(e); v != nil {
							in &^= isNilBit(v) | nonNilBit(v)
						}
					}
				}
			case *ast.DeclStmt:
				// var x T  (zero value): nil
				if gd, ok := y.Decl.(*ast.GenDecl); ok {
					for _, sp := range gd.Specs {
						if vs, ok := sp.(*ast.ValueSpec); ok && len(vs.Values) == 0 {
							for _, nm := range vs.Names {
								if v, ok := info.Defs[nm].(*types.Var); ok && !bad[v] {
									if _, ok := idx[v]; ok {
										in &^= nonNilBit(v)
										in |= isNilBit(v)
									}
								}
							}
						}
					}
				}
			}
		})
		return in
	}
	test := func(e *Edge) (v *types.Var, assertsNil bool, ok bool) {
		if e.Cond == nil || e.Tag != nil {
			return nil, false, false
		}
		x, y, op, isCmp := Cmp(e.Cond)
		if !isCmp || !IsNil(info, y) || (op != token.EQL && op != token.NEQ) {
			return nil, false, false
		}
		v = tracked(x)
		if v == nil {
			return nil, false, false
		}
		return v, (op == token.EQL) == e.Sense, true
	}
	p.Edge = func(e *Edge, in uint64) uint64 {
		// errors.Is(v, Sentinel) holds: v is not nil (errors.Is(nil, t) is true only for a nil t; the
		// package-level error variables compared against are never nil – DESIGN §15)
		if e.Cond != nil && e.Tag == nil && e.Sense {
			if call, ok := ast.Unparen(e.Cond).(*ast.CallExpr); ok && len(call.Args) == 2 && IsPkgFunc(info, call, "errors", "Is") {
				if t, ok := ObjOf(info, call.Args[1]).(*types.Var); ok && t.Pkg() != nil && t.Parent() == t.Pkg().Scope() {
					if v := tracked(call.Args[0]); v != nil {
						in = in&^isNilBit(v) | nonNilBit(v)
					}
				}
			}
		}
		if v, assertsNil, ok := test(e); ok {
			if assertsNil {
				in = in&^nonNilBit(v) | isNilBit(v)
			} else {
				in = in&^isNilBit(v) | nonNilBit(v)
			}
		}
		return in
	}
	// Threading: a block that ends in a nil test and is entered over several edges is given a private copy
	// for every entering edge on which the outcome of the test is already known (the usual case after
	// `if err != nil { clean up }` followed by `if err != nil { return err }`, or by a copy and a test of
	// the copy). The copy keeps the block's nodes and only the feasible successor.
	for round := 0; round < 3; round++ {
		sol := g.Solve(p)
		changed := false
		for _, j := range append([]*Block{}, g.Blocks...) {
			if j.ID >= len(sol.Seen) || !sol.Seen[j.ID] || len(j.Preds) < 2 || len(j.Succs) != 2 {
				continue
			}
			if _, _, ok := test(j.Succs[0]); !ok {
				continue
			}
			for _, pe := range append([]*Edge{}, j.Preds...) {
				if pe.From == j || pe.From.ID >= len(sol.Seen) || !sol.Seen[pe.From.ID] {
					continue // (blocks created in this round are judged in the next)
				}
				v := sol.Out(pe.From)
				v = p.Edge(pe, v)
				for i, n := range j.Nodes {
					v = p.Node(j, i, n, v)
				}
				var live []*Edge
				for _, se := range j.Succs {
					tv, assertsNil, _ := test(se)
					if (assertsNil && v&nonNilBit(tv) != 0) || (!assertsNil && v&isNilBit(tv) != 0) {
						continue
					}
					live = append(live, se)
				}
				if len(live) != 1 {
					continue
				}
				nb := g.newBlock()
				nb.Nodes, nb.Kind, nb.Stmt = j.Nodes, j.Kind, j.Stmt
				g.link(nb, live[0].To, live[0].Cond, live[0].Tag, live[0].Sense)
				pe.To = nb
				nb.Preds = append(nb.Preds, pe)
				j.Preds = without(j.Preds, pe)
				g.Threaded++
				changed = true
			}
		}
		if !changed {
			break
		}
	}
	sol := g.Solve(p)
	var dead []*Edge
	for _, b := range g.Blocks {
		if !sol.Seen[b.ID] {
			continue
		}
		out := sol.Out(b)
		for _, e := range b.Succs {
			if v, assertsNil, ok := test(e); ok {
				if (assertsNil && out&nonNilBit(v) != 0) || (!assertsNil && out&isNilBit(v) != 0) {
					dead = append(dead, e)
				}
			}
		}
	}
	for _, e := range dead {
		e.From.Succs = without(e.From.Succs, e)
		e.To.Preds = without(e.To.Preds, e)
	}
	g.Pruned = len(dead)
}

func without(list []*Edge, e *Edge) []*Edge {
	var out []*Edge
	for _, x := range list {
		if x != e {
			out = append(out, x)
		}
	}
	return out
}
