package flow

import "go/ast"

// Count bits: the set of possible numbers of occurrences of an event on paths reaching a point.
const (
	Cnt0 uint64 = 1 << iota
	Cnt1
	Cnt2    // two or more
	cntMask = Cnt0 | Cnt1 | Cnt2
)

// CountSet renders a count set.
func CountSet(v uint64) string {
	s := "{"
	if v&Cnt0 != 0 {
		s += "0"
	}
	if v&Cnt1 != 0 {
		if len(s) > 1 {
			s += ","
		}
		s += "1"
	}
	if v&Cnt2 != 0 {
		if len(s) > 1 {
			s += ","
		}
		s += "2+"
	}
	return s + "}"
}

func bump(v uint64, k int) uint64 {
	for ; k > 0; k-- {
		var n uint64
		if v&Cnt0 != 0 {
			n |= Cnt1
		}
		if v&(Cnt1|Cnt2) != 0 {
			n |= Cnt2
		}
		v = n
	}
	return v
}

// LoopHeads returns the blocks that are targets of back edges (DFS from entry).
func (g *Graph) LoopHeads() map[*Block]bool {
	heads := map[*Block]bool{}
	state := map[*Block]int{} // 1 = on stack, 2 = done
	var dfs func(b *Block)
	dfs = func(b *Block) {
		state[b] = 1
		for _, e := range b.Succs {
			switch state[e.To] {
			case 0:
				dfs(e.To)
			case 1:
				heads[e.To] = true
			}
		}
		state[b] = 2
	}
	dfs(g.Entry)
	return heads
}

// CountOpts configures CountEvents.
type CountOpts struct {
	// Events returns how many times the event occurs when node n is evaluated.
	Events func(b *Block, n ast.Node) int
	// ResetAtLoopHeads restarts counting (to {0}) whenever a loop head is entered, so that counts
	// are "per iteration".
	ResetAtLoopHeads bool
	// Reset, if non-nil, restarts counting after node n.
	Reset func(b *Block, n ast.Node) bool
	// EdgeOK, if non-nil, can prune edges (return false to ignore an edge).
	EdgeOK func(e *Edge) bool
}

// CountEvents computes for every block the set of possible event counts at its entry.
func (g *Graph) CountEvents(o CountOpts) *Solution {
	heads := map[*Block]bool{}
	if o.ResetAtLoopHeads {
		heads = g.LoopHeads()
	}
	p := &Problem{Must: false, Entry: Cnt0}
	p.Node = func(b *Block, i int, n ast.Node, in uint64) uint64 {
		if i == 0 && heads[b] {
			in = Cnt0
		}
		if k := o.Events(b, n); k > 0 {
			in = bump(in, k)
		}
		if o.Reset != nil && o.Reset(b, n) {
			in = Cnt0
		}
		return in
	}
	p.Edge = func(e *Edge, in uint64) uint64 {
		if o.EdgeOK != nil && !o.EdgeOK(e) {
			return 0
		}
		if heads[e.To] && len(e.To.Nodes) == 0 {
			return Cnt0
		}
		return in
	}
	return g.Solve(p)
}
