// Package flow is the AST/CFG side of the analyser: a control-flow graph with
// split short-circuit conditions and labelled edges, a bitset dataflow solver,
// access paths and call resolution helpers.
package flow

import (
	"fmt"
	"go/ast"
	"go/constant"
	"go/token"
	"go/types"

	"golang.org/x/tools/go/cfg"
)

// Edge is a control-flow edge, optionally labelled with the atomic condition that selects it.
type Edge struct {
	From, To *Block
	Cond     ast.Expr // atomic boolean condition, or the case value of a tagged switch; nil = unconditional / unknown
	Tag      ast.Expr // non-nil for tagged switch: edge is taken iff (Tag == Cond) == Sense
	Sense    bool
}

// Block is a basic block. Nodes are statements or (for conditions) expressions.
type Block struct {
	ID     int
	Nodes  []ast.Node
	Succs  []*Edge
	Preds  []*Edge
	Return *ast.ReturnStmt // non-nil if the block ends the function by returning (possibly synthetic)
	NoRet  bool            // ends with a call that never returns
	Kind   cfg.BlockKind
	Stmt   ast.Stmt
}

// Graph is the CFG of one function body.
type Graph struct {
	Blocks []*Block
	Entry  *Block
	Body   *ast.BlockStmt
	Info   *types.Info
	Fset   *token.FileSet
	Defers []*ast.DeferStmt
	depth  int
	labelOnly int
	Threaded int // join blocks duplicated for an entering edge that decides their nil test (prune.go)
	Pruned int // conditional edges removed because they contradict the known nil-ness of a local (prune.go)
}

// New builds the graph of body. Conditions built from &&, ||, ! and parentheses are split into
// one block per atomic condition; conditions with a constant value keep only the live edge.
func New(fset *token.FileSet, info *types.Info, body *ast.BlockStmt) *Graph {
	g := &Graph{Body: body, Info: info, Fset: fset}
	mayReturn := func(call *ast.CallExpr) bool { return !NeverReturns(info, call) }
	c := cfg.New(body, mayReturn)

	// classify condition expressions
	conds := map[ast.Expr]bool{}
	caseTag := map[ast.Expr]ast.Expr{} // case value -> switch tag
	isCase := map[ast.Expr]bool{}
	ast.Inspect(body, func(n ast.Node) bool {
		switch s := n.(type) {
		case *ast.FuncLit:
			return false
		case *ast.IfStmt:
			conds[s.Cond] = true
		case *ast.ForStmt:
			if s.Cond != nil {
				conds[s.Cond] = true
			}
		case *ast.SwitchStmt:
			for _, cl := range s.Body.List {
				for _, e := range cl.(*ast.CaseClause).List {
					isCase[e] = true
					if s.Tag != nil {
						caseTag[e] = s.Tag
					}
				}
			}
		case *ast.DeferStmt:
			g.Defers = append(g.Defers, s)
		}
		return true
	})

	m := map[*cfg.Block]*Block{}
	for _, cb := range c.Blocks {
		if !cb.Live {
			continue
		}
		b := &Block{ID: len(g.Blocks), Nodes: append([]ast.Node(nil), cb.Nodes...), Kind: cb.Kind, Stmt: cb.Stmt}
		g.Blocks = append(g.Blocks, b)
		m[cb] = b
	}
	g.Entry = m[c.Blocks[0]]
	for _, cb := range c.Blocks {
		if !cb.Live {
			continue
		}
		b := m[cb]
		switch len(cb.Succs) {
		case 0:
			if n := len(b.Nodes); n > 0 {
				if r, ok := b.Nodes[n-1].(*ast.ReturnStmt); ok {
					b.Return = r
				} else {
					b.NoRet = true
				}
			} else {
				b.NoRet = true
			}
		case 1:
			g.link(b, m[cb.Succs[0]], nil, nil, false)
		case 2:
			t, f := m[cb.Succs[0]], m[cb.Succs[1]]
			var last ast.Expr
			if n := len(b.Nodes); n > 0 {
				last, _ = b.Nodes[n-1].(ast.Expr)
			}
			switch {
			case last != nil && isCase[last] && caseTag[last] != nil:
				g.link(b, t, last, caseTag[last], true)
				g.link(b, f, last, caseTag[last], false)
			case last != nil && (conds[last] || isCase[last]):
				b.Nodes = b.Nodes[:len(b.Nodes)-1]
				g.split(b, g.resolveBoolLocal(b, last), t, f)
			default:
				g.link(b, t, nil, nil, false)
				g.link(b, f, nil, nil, false)
			}
		}
	}
	g.pruneNil()
	return g
}

// resolveBoolLocal replaces a condition that is just a local bool variable by its defining expression when
// the definition is the node immediately preceding the condition in the same block (`if v := E; v {`,
// `v := E` directly followed by `if v {`), so that edge facts about E are not lost by the indirection.
func (g *Graph) resolveBoolLocal(b *Block, cond ast.Expr) ast.Expr {
	neg := false
	e := ast.Unparen(cond)
	if u, ok := e.(*ast.UnaryExpr); ok && u.Op == token.NOT {
		neg = true
		e = ast.Unparen(u.X)
	}
	id, ok := e.(*ast.Ident)
	if !ok || len(b.Nodes) == 0 {
		return cond
	}
	obj := g.Info.Uses[id]
	if obj == nil {
		return cond
	}
	as, ok := b.Nodes[len(b.Nodes)-1].(*ast.AssignStmt)
	if !ok || len(as.Lhs) != 1 || len(as.Rhs) != 1 {
		return cond
	}
	lid, ok := as.Lhs[0].(*ast.Ident)
	if !ok {
		return cond
	}
	lobj := g.Info.Defs[lid]
	if lobj == nil {
		lobj = g.Info.Uses[lid]
	}
	if lobj != obj {
		return cond
	}
	if neg {
		return &ast.UnaryExpr{Op: token.NOT, X: &ast.ParenExpr{X: as.Rhs[0]}, OpPos: cond.Pos()}
	}
	return as.Rhs[0]
}

func (g *Graph) newBlock() *Block {
	b := &Block{ID: len(g.Blocks)}
	g.Blocks = append(g.Blocks, b)
	return b
}

func (g *Graph) link(from, to *Block, cond, tag ast.Expr, sense bool) {
	if to == nil {
		return
	}
	e := &Edge{From: from, To: to, Cond: cond, Tag: tag, Sense: sense}
	from.Succs = append(from.Succs, e)
	to.Preds = append(to.Preds, e)
}

func (g *Graph) split(b *Block, c ast.Expr, t, f *Block) {
	c = ast.Unparen(c)
	if tv, ok := g.Info.Types[c]; ok && tv.Value != nil {
		// constant condition: only one edge is live
		if tv.Value.String() == "true" {
			g.link(b, t, nil, nil, false)
		} else {
			g.link(b, f, nil, nil, false)
		}
		return
	}
	// a comparison of two constants that the type checker did not see as one expression (an absorbed
	// helper's `limit < 0` with the call's constant argument in place of the parameter)
	if x, ok := c.(*ast.BinaryExpr); ok {
		if _, isCmp := flipCmp[x.Op]; isCmp || x.Op == token.EQL || x.Op == token.NEQ {
			l, lok := g.Info.Types[ast.Unparen(x.X)]
			r, rok := g.Info.Types[ast.Unparen(x.Y)]
			if lok && rok && l.Value != nil && r.Value != nil && l.Value.Kind() != constant.Unknown && r.Value.Kind() == l.Value.Kind() && (l.Value.Kind() == constant.Int || l.Value.Kind() == constant.String || l.Value.Kind() == constant.Bool && (x.Op == token.EQL || x.Op == token.NEQ)) {
				if constant.Compare(l.Value, x.Op, r.Value) {
					g.link(b, t, nil, nil, false)
				} else {
					g.link(b, f, nil, nil, false)
				}
				return
			}
		}
	}
	switch x := c.(type) {
	case *ast.Ident:
		// a bool local that names a condition once and for all (`hasIO := ev&mask != 0 … if !hasIO && …`):
		// the edges are labelled with the condition it stands for
		if def := g.stableBoolDef(x); def != nil && g.depth < 4 {
			// the edges are labelled with the condition; the node evaluated here is still just the variable
			if g.labelOnly == 0 {
				b.Nodes = append(b.Nodes, x)
			}
			g.depth++
			g.labelOnly++
			g.split(b, def, t, f)
			g.labelOnly--
			g.depth--
			return
		}
	case *ast.UnaryExpr:
		if x.Op == token.NOT {
			g.split(b, x.X, f, t)
			return
		}
	case *ast.BinaryExpr:
		switch x.Op {
		case token.LAND:
			m := g.newBlock()
			g.split(b, x.X, m, f)
			g.split(m, x.Y, t, f)
			return
		case token.LOR:
			m := g.newBlock()
			g.split(b, x.X, t, m)
			g.split(m, x.Y, t, f)
			return
		}
	}
	if g.labelOnly == 0 {
		b.Nodes = append(b.Nodes, c)
	}
	// normal form: the constant (or nil) operand of a comparison stands on the right
	if x, ok := c.(*ast.BinaryExpr); ok {
		if flipped, isCmp := flipCmp[x.Op]; isCmp && g.isConstOperand(x.X) && !g.isConstOperand(x.Y) {
			sw := &ast.BinaryExpr{X: x.Y, OpPos: x.OpPos, Op: flipped, Y: x.X}
			if tv, ok := g.Info.Types[x]; ok {
				g.Info.Types[sw] = tv
			}
			c = sw
		}
	}
	if x, ok := c.(*ast.BinaryExpr); ok && x.Op == token.NEQ {
		// normal form: `a != b` labels its edges as `a == b` with the senses swapped, so that rules
		// written for one spelling of a test see the other one as well
		eq := &ast.BinaryExpr{X: x.X, OpPos: x.OpPos, Op: token.EQL, Y: x.Y}
		g.link(b, t, eq, nil, false)
		g.link(b, f, eq, nil, true)
		return
	}
	g.link(b, t, c, nil, true)
	g.link(b, f, c, nil, false)
}

// NeverReturns reports calls that do not return: panic, os.Exit, log.Fatal*, (logging).Fatal*.
func NeverReturns(info *types.Info, call *ast.CallExpr) bool {
	switch fun := ast.Unparen(call.Fun).(type) {
	case *ast.Ident:
		if b, ok := info.Uses[fun].(*types.Builtin); ok && b.Name() == "panic" {
			return true
		}
	case *ast.SelectorExpr:
		if fn, ok := info.Uses[fun.Sel].(*types.Func); ok && fn.Pkg() != nil {
			p, n := fn.Pkg().Path(), fn.Name()
			if p == "os" && n == "Exit" {
				return true
			}
			if (p == "log" || p == "github.com/panjf2000/gnet/v2/pkg/logging") &&
				(n == "Fatal" || n == "Fatalf" || n == "Fatalln" || n == "Panic" || n == "Panicf") {
				return true
			}
		}
	}
	return false
}

// Exits returns the blocks that return from the function.
func (g *Graph) Exits() []*Block {
	var out []*Block
	for _, b := range g.Blocks {
		if b.Return != nil {
			out = append(out, b)
		}
	}
	return out
}

// Describe renders a block for witnesses.
func (g *Graph) Describe(b *Block) string {
	if len(b.Nodes) == 0 {
		return fmt.Sprintf("b%d", b.ID)
	}
	p := g.Fset.Position(b.Nodes[0].Pos())
	return fmt.Sprintf("b%d@%d", b.ID, p.Line)
}

// ---------------------------------------------------------------------------------------------
// bitset dataflow

// Problem is a forward bitset dataflow problem.
type Problem struct {
	Must  bool   // true: meet = intersection (facts hold on all paths); false: union
	Entry uint64 // facts at function entry
	// Node is the transfer function for one node of a block.
	Node func(b *Block, i int, n ast.Node, in uint64) uint64
	// Edge refines facts along an edge (after the block's nodes); may be nil.
	Edge func(e *Edge, in uint64) uint64
}

// Solution holds the facts at the entry of every block.
type Solution struct {
	G    *Graph
	P    *Problem
	In   []uint64
	Seen []bool
}

// Solve runs the problem to a fixpoint.
func (g *Graph) Solve(p *Problem) *Solution {
	s := &Solution{G: g, P: p, In: make([]uint64, len(g.Blocks)), Seen: make([]bool, len(g.Blocks))}
	s.In[g.Entry.ID] = p.Entry
	s.Seen[g.Entry.ID] = true
	work := []*Block{g.Entry}
	for len(work) > 0 {
		b := work[0]
		work = work[1:]
		out := s.Out(b)
		for _, e := range b.Succs {
			v := out
			if p.Edge != nil {
				v = p.Edge(e, v)
			}
			t := e.To
			if !s.Seen[t.ID] {
				s.Seen[t.ID] = true
				s.In[t.ID] = v
				work = append(work, t)
				continue
			}
			var nv uint64
			if p.Must {
				nv = s.In[t.ID] & v
			} else {
				nv = s.In[t.ID] | v
			}
			if nv != s.In[t.ID] {
				s.In[t.ID] = nv
				work = append(work, t)
			}
		}
	}
	return s
}

// Out computes the facts at the end of block b (before edge refinement).
func (s *Solution) Out(b *Block) uint64 {
	v := s.In[b.ID]
	if s.P.Node != nil {
		for i, n := range b.Nodes {
			v = s.P.Node(b, i, n, v)
		}
	}
	return v
}

// Walk visits every node of every reachable block with the facts holding just before it.
func (s *Solution) Walk(visit func(b *Block, i int, n ast.Node, before uint64)) {
	for _, b := range s.G.Blocks {
		if !s.Seen[b.ID] {
			continue
		}
		v := s.In[b.ID]
		for i, n := range b.Nodes {
			visit(b, i, n, v)
			if s.P.Node != nil {
				v = s.P.Node(b, i, n, v)
			}
		}
	}
}

// AtExit returns, for each returning block, the facts holding at the return statement
// (after evaluating the return statement's own node effects).
func (s *Solution) AtExit(visit func(b *Block, facts uint64)) {
	for _, b := range s.G.Blocks {
		if !s.Seen[b.ID] || b.Return == nil {
			continue
		}
		visit(b, s.Out(b))
	}
}

// Witness walks backwards from block b following predecessors on which bit is missing (must
// problems) / present (may problems) and renders the path entry..b.
func (s *Solution) Witness(b *Block, bit uint64) []string {
	want := func(v uint64) bool {
		if s.P.Must {
			return v&bit == 0
		}
		return v&bit != 0
	}
	var path []*Block
	seen := map[*Block]bool{}
	cur := b
	for cur != nil && !seen[cur] {
		seen[cur] = true
		path = append(path, cur)
		var next *Block
		for _, e := range cur.Preds {
			if !s.Seen[e.From.ID] || seen[e.From] {
				continue
			}
			v := s.Out(e.From)
			if s.P.Edge != nil {
				v = s.P.Edge(e, v)
			}
			if want(v) {
				next = e.From
				break
			}
		}
		cur = next
	}
	var out []string
	for i := len(path) - 1; i >= 0; i-- {
		out = append(out, s.G.Describe(path[i]))
	}
	return out
}

// InlineStraight replaces every block node that is a bare call statement for which resolve returns a
// straight-line statement list (the body of a small helper) by those statements. Only rules whose event
// predicates are insensitive to the identity of the receiver variable (they match fields) should use it.
func (g *Graph) InlineStraight(resolve func(call *ast.CallExpr) []ast.Stmt) {
	for _, b := range g.Blocks {
		var out []ast.Node
		changed := false
		for _, n := range b.Nodes {
			if es, ok := n.(*ast.ExprStmt); ok {
				if call, ok := es.X.(*ast.CallExpr); ok {
					if body := resolve(call); body != nil {
						for _, st := range body {
							out = append(out, st)
						}
						changed = true
						continue
					}
				}
			}
			out = append(out, n)
		}
		if changed {
			b.Nodes = out
		}
	}
}

// stableBoolDef returns the defining expression of a bool local that is assigned exactly once in the
// function (not inside a function literal), whose address is never taken, and whose definition mentions
// only variables that are themselves never assigned after their own definition (parameters, other such
// locals) and no calls – so that the condition means the same wherever the local is tested.
func (g *Graph) stableBoolDef(id *ast.Ident) ast.Expr {
	v, ok := g.Info.Uses[id].(*types.Var)
	if !ok || v.IsField() || !types.Identical(v.Type().Underlying(), types.Typ[types.Bool]) {
		return nil
	}
	count := func(w *types.Var) (n int, def ast.Expr, bad bool) {
		var walk func(node ast.Node, lit bool)
		walk = func(node ast.Node, lit bool) {
			ast.Inspect(node, func(x ast.Node) bool {
				switch y := x.(type) {
				case *ast.FuncLit:
					if !lit {
						walk(y.Body, true)
						return false
					}
				case *ast.AssignStmt:
					for i, l := range y.Lhs {
						if lid, ok := l.(*ast.Ident); ok && (g.Info.Defs[lid] == types.Object(w) || g.Info.Uses[lid] == types.Object(w)) {
							n++
							if lit {
								bad = true
							}
							if len(y.Lhs) == len(y.Rhs) {
								def = y.Rhs[i]
							} else {
								bad = true
							}
						}
					}
				case *ast.ValueSpec:
					// `var x T` is a definition too (the zero value)
					for _, nm := range y.Names {
						if g.Info.Defs[nm] == types.Object(w) {
							n++
							def = nil
							if len(y.Values) == len(y.Names) {
								for i, nn := range y.Names {
									if nn == nm {
										def = y.Values[i]
									}
								}
							}
						}
					}
				case *ast.IncDecStmt:
					if lid, ok := y.X.(*ast.Ident); ok && g.Info.Uses[lid] == types.Object(w) {
						bad = true
					}
				case *ast.UnaryExpr:
					if y.Op == token.AND {
						if lid, ok := ast.Unparen(y.X).(*ast.Ident); ok && g.Info.Uses[lid] == types.Object(w) {
							bad = true
						}
					}
				case *ast.RangeStmt:
					for _, e := range []ast.Expr{y.Key, y.Value} {
						if lid, ok := e.(*ast.Ident); ok && (g.Info.Defs[lid] == types.Object(w) || g.Info.Uses[lid] == types.Object(w)) {
							bad = true
						}
					}
				}
				return true
			})
		}
		walk(g.Body, false)
		return
	}
	n, def, bad := count(v)
	if n != 1 || bad || def == nil {
		return nil
	}
	okk := true
	ast.Inspect(def, func(x ast.Node) bool {
		switch y := x.(type) {
		case *ast.CallExpr:
			// a call is evaluated once, where the local is defined; the edges of the later test are only
			// labelled with the comparison (label-only, see split), so the call is not taken to happen again.
			// What it returned is a fact that does not age – unlike a field read; its operands are not inspected.
			return false
		case *ast.Ident:
			if w, ok := g.Info.Uses[y].(*types.Var); ok && !w.IsField() && w.Pkg() != nil && w.Parent() != w.Pkg().Scope() {
				if m, _, b := count(w); m > 1 || b {
					okk = false
				}
			} else if ok && w.IsField() {
				okk = false // a field may change between definition and test
			}
		case *ast.SelectorExpr:
			if _, isPkg := g.Info.Uses[identOfExpr(y.X)].(*types.PkgName); !isPkg {
				if tv, ok := g.Info.Types[y]; !ok || tv.Value == nil {
					okk = false // field access
				}
			}
			return false
		}
		return okk
	})
	if !okk {
		return nil
	}
	return def
}

func identOfExpr(e ast.Expr) *ast.Ident {
	id, _ := ast.Unparen(e).(*ast.Ident)
	return id
}

var flipCmp = map[token.Token]token.Token{token.EQL: token.EQL, token.NEQ: token.NEQ, token.LSS: token.GTR, token.GTR: token.LSS, token.LEQ: token.GEQ, token.GEQ: token.LEQ}

func (g *Graph) isConstOperand(e ast.Expr) bool {
	if IsNil(g.Info, e) {
		return true
	}
	tv, ok := g.Info.Types[ast.Unparen(e)]
	return ok && tv.Value != nil
}
