package flow

import "go/ast"

// Auto is a finite-state automaton (at most 64 states) run over the graph path-sensitively with
// respect to its own state: the dataflow fact is the set of automaton states possible at a point.
type Auto struct {
	Start int
	// Node returns the successor state when node n is evaluated in state s (default: s).
	Node func(b *Block, i int, n ast.Node, s int) int
	// Edge returns the successor state along e, or -1 if the edge is infeasible in state s.
	Edge func(e *Edge, s int) int
}

// Run computes the set of possible states at the entry of every block.
func (g *Graph) Run(a *Auto) *Solution {
	p := &Problem{Must: false, Entry: 1 << uint(a.Start)}
	if a.Node != nil {
		p.Node = func(b *Block, i int, n ast.Node, in uint64) uint64 {
			var out uint64
			for s := 0; s < 64; s++ {
				if in&(1<<uint(s)) != 0 {
					out |= 1 << uint(a.Node(b, i, n, s))
				}
			}
			return out
		}
	}
	if a.Edge != nil {
		p.Edge = func(e *Edge, in uint64) uint64 {
			var out uint64
			for s := 0; s < 64; s++ {
				if in&(1<<uint(s)) != 0 {
					if t := a.Edge(e, s); t >= 0 {
						out |= 1 << uint(t)
					}
				}
			}
			return out
		}
	}
	return g.Solve(p)
}

// States lists the states in a set.
func States(v uint64) []int {
	var out []int
	for s := 0; s < 64; s++ {
		if v&(1<<uint(s)) != 0 {
			out = append(out, s)
		}
	}
	return out
}
