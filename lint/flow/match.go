package flow

import (
	"go/ast"
	"go/constant"
	"go/token"
	"go/types"
	"strings"

	"golang.org/x/tools/go/types/typeutil"
)

// Events visits the sub-nodes of n in (approximate) evaluation order: operands before the
// operation, right-hand sides before left-hand sides, arguments before the call. Function
// literals are visited as values; their bodies are not entered. For defer/go statements the
// callee expression and arguments are visited, the call itself is not.
func Events(n ast.Node, visit func(ast.Node)) {
	var walk func(n ast.Node)
	kids := func(n ast.Node) {
		ast.Inspect(n, func(c ast.Node) bool {
			if c == n {
				return true
			}
			if c != nil {
				walk(c)
			}
			return false
		})
	}
	walk = func(n ast.Node) {
		switch x := n.(type) {
		case nil:
			return
		case *ast.FuncLit:
			visit(x)
		case *ast.AssignStmt:
			for _, r := range x.Rhs {
				walk(r)
			}
			for _, l := range x.Lhs {
				walk(l)
			}
			visit(x)
		case *ast.DeferStmt:
			walk(x.Call.Fun)
			for _, a := range x.Call.Args {
				walk(a)
			}
			visit(x)
		case *ast.GoStmt:
			walk(x.Call.Fun)
			for _, a := range x.Call.Args {
				walk(a)
			}
			visit(x)
		default:
			kids(n)
			visit(n)
		}
	}
	walk(n)
}

// Calls returns the call expressions evaluated by node n, in evaluation order.
func Calls(n ast.Node) []*ast.CallExpr {
	var out []*ast.CallExpr
	Events(n, func(x ast.Node) {
		if c, ok := x.(*ast.CallExpr); ok {
			out = append(out, c)
		}
	})
	return out
}

// Callee resolves the called object (function, method, interface method, func-typed variable, builtin).
func Callee(info *types.Info, call *ast.CallExpr) types.Object {
	return typeutil.Callee(info, call)
}

// SameFunc compares functions modulo generic instantiation.
func SameFunc(a, b *types.Func) bool {
	if a == nil || b == nil {
		return false
	}
	return a.Origin() == b.Origin()
}

// IsCall reports whether call invokes fn.
func IsCall(info *types.Info, call *ast.CallExpr, fn *types.Func) bool {
	f, _ := Callee(info, call).(*types.Func)
	return SameFunc(f, fn)
}

// CalleeFunc returns the called *types.Func or nil.
func CalleeFunc(info *types.Info, call *ast.CallExpr) *types.Func {
	f, _ := Callee(info, call).(*types.Func)
	return f
}

// IsPkgFunc reports whether call invokes pkgPath.name (name may be "T.M" for methods).
func IsPkgFunc(info *types.Info, call *ast.CallExpr, pkgPath, name string) bool {
	f := CalleeFunc(info, call)
	if f == nil || f.Pkg() == nil || f.Pkg().Path() != pkgPath {
		return false
	}
	return QualName(f) == name
}

// QualName renders "Name" or "T.Name" (receiver type name without pointer).
func QualName(f *types.Func) string {
	sig, _ := f.Type().(*types.Signature)
	if sig != nil && sig.Recv() != nil {
		t := sig.Recv().Type()
		if p, ok := t.(*types.Pointer); ok {
			t = p.Elem()
		}
		if n, ok := t.(*types.Named); ok {
			return n.Obj().Name() + "." + f.Name()
		}
		if _, ok := t.Underlying().(*types.Interface); ok {
			return "?." + f.Name()
		}
	}
	return f.Name()
}

// Recv returns the receiver expression of a method call (nil for plain calls).
func Recv(call *ast.CallExpr) ast.Expr {
	if s, ok := ast.Unparen(call.Fun).(*ast.SelectorExpr); ok {
		return s.X
	}
	return nil
}

// Path is a canonical access chain rooted at an object: c.outboundBuffer, el.poller, rb.w …
type Path struct {
	Root types.Object
	Sel  string
}

func (p Path) Valid() bool { return p.Root != nil }
func (p Path) String() string {
	if p.Root == nil {
		return "?"
	}
	return p.Root.Name() + p.Sel
}

// HasPrefix reports whether q is p or a prefix of p (so an assignment to q kills p).
func (p Path) HasPrefix(q Path) bool {
	if p.Root != q.Root {
		return false
	}
	return p.Sel == q.Sel || strings.HasPrefix(p.Sel, q.Sel+".") || strings.HasPrefix(p.Sel, q.Sel+"[")
}

// PathOf canonicalises e; & and * and parentheses are transparent.
func PathOf(info *types.Info, e ast.Expr) Path {
	switch x := ast.Unparen(e).(type) {
	case *ast.Ident:
		if o := info.Uses[x]; o != nil {
			return Path{Root: o}
		}
		if o := info.Defs[x]; o != nil {
			return Path{Root: o}
		}
	case *ast.SelectorExpr:
		if sel, ok := info.Selections[x]; ok {
			if sel.Kind() != types.FieldVal {
				return Path{}
			}
			p := PathOf(info, x.X)
			if !p.Valid() {
				return Path{}
			}
			p.Sel += "." + x.Sel.Name
			return p
		}
		if o := info.Uses[x.Sel]; o != nil { // qualified identifier
			return Path{Root: o}
		}
	case *ast.StarExpr:
		return PathOf(info, x.X)
	case *ast.UnaryExpr:
		if x.Op == token.AND {
			return PathOf(info, x.X)
		}
	case *ast.IndexExpr:
		p := PathOf(info, x.X)
		if p.Valid() {
			p.Sel += "[]"
		}
		return p
	}
	return Path{}
}

// FieldOf returns the field object selected by e (x.f), or nil.
func FieldOf(info *types.Info, e ast.Expr) *types.Var {
	if s, ok := ast.Unparen(e).(*ast.SelectorExpr); ok {
		if sel, ok := info.Selections[s]; ok && sel.Kind() == types.FieldVal {
			v, _ := sel.Obj().(*types.Var)
			return v
		}
	}
	return nil
}

// ConstOf returns the constant value of e, if any.
func ConstOf(info *types.Info, e ast.Expr) constant.Value {
	if tv, ok := info.Types[e]; ok {
		return tv.Value
	}
	return nil
}

// IsNil reports whether e is the predeclared nil.
func IsNil(info *types.Info, e ast.Expr) bool {
	id, ok := ast.Unparen(e).(*ast.Ident)
	if !ok {
		return false
	}
	_, isNil := info.Uses[id].(*types.Nil)
	return isNil
}

// ObjOf returns the object denoted by an identifier or qualified identifier.
func ObjOf(info *types.Info, e ast.Expr) types.Object {
	switch x := ast.Unparen(e).(type) {
	case *ast.Ident:
		if o := info.Uses[x]; o != nil {
			return o
		}
		return info.Defs[x]
	case *ast.SelectorExpr:
		if _, ok := info.Selections[x]; !ok {
			return info.Uses[x.Sel]
		}
	}
	return nil
}

// Cmp decomposes a comparison "a op b"; ok=false otherwise.
func Cmp(e ast.Expr) (a, b ast.Expr, op token.Token, ok bool) {
	be, isBin := ast.Unparen(e).(*ast.BinaryExpr)
	if !isBin {
		return nil, nil, 0, false
	}
	switch be.Op {
	case token.EQL, token.NEQ, token.LSS, token.LEQ, token.GTR, token.GEQ:
		return be.X, be.Y, be.Op, true
	}
	return nil, nil, 0, false
}

// Assigned returns the left-hand expressions written by node n (assignments, inc/dec, range vars).
func Assigned(n ast.Node) []ast.Expr {
	switch x := n.(type) {
	case *ast.AssignStmt:
		return x.Lhs
	case *ast.IncDecStmt:
		return []ast.Expr{x.X}
	}
	return nil
}

// FuncLits returns the function literals directly contained in n (not nested ones).
func FuncLits(n ast.Node) []*ast.FuncLit {
	var out []*ast.FuncLit
	ast.Inspect(n, func(c ast.Node) bool {
		if fl, ok := c.(*ast.FuncLit); ok {
			out = append(out, fl)
			return false
		}
		return true
	})
	return out
}

// FuncValuesOfVar collects, for a local func-typed variable, the functions/method values it is
// assigned in body (x := recv.M; x = recv.N). Returns nil if any assignment is not a method value
// or function name.
func FuncValuesOfVar(info *types.Info, body ast.Node, v *types.Var) []*types.Func {
	var out []*types.Func
	bad := false
	ast.Inspect(body, func(n ast.Node) bool {
		as, ok := n.(*ast.AssignStmt)
		if !ok || len(as.Lhs) != len(as.Rhs) {
			return true
		}
		for i, l := range as.Lhs {
			id, ok := l.(*ast.Ident)
			if !ok {
				continue
			}
			o := info.Defs[id]
			if o == nil {
				o = info.Uses[id]
			}
			if o != v {
				continue
			}
			var f *types.Func
			switch r := ast.Unparen(as.Rhs[i]).(type) {
			case *ast.SelectorExpr:
				if sel, ok := info.Selections[r]; ok && sel.Kind() == types.MethodVal {
					f, _ = sel.Obj().(*types.Func)
				} else {
					f, _ = info.Uses[r.Sel].(*types.Func)
				}
			case *ast.Ident:
				f, _ = info.Uses[r].(*types.Func)
			}
			if f == nil {
				bad = true
			} else {
				out = append(out, f)
			}
		}
		return true
	})
	if bad {
		return nil
	}
	return out
}

// Equality views an edge as "l == r is eq": the case edge of a tagged switch (`switch l { case r: }`)
// and the edge of a comparison `l == r` / `l != r` say the same thing; rules that ask "is this the
// edge where the action is Shutdown" should not care which of the two the author wrote.
func Equality(e *Edge) (l, r ast.Expr, eq bool, ok bool) {
	if e == nil || e.Cond == nil {
		return nil, nil, false, false
	}
	if e.Tag != nil {
		return e.Tag, e.Cond, e.Sense, true
	}
	x, y, op, isCmp := Cmp(e.Cond)
	if !isCmp {
		return nil, nil, false, false
	}
	switch op {
	case token.EQL:
		return x, y, e.Sense, true
	case token.NEQ:
		return x, y, !e.Sense, true
	}
	return nil, nil, false, false
}
