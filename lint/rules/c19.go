package rules

import (
	"go/ast"
	"go/constant"
	"go/token"
	"go/types"

	"gnetlint/core"
	"gnetlint/flow"
)

func init() {
	describe(&PropInfo{ID: "C19",
		Explanation: "Decides the validate-first skeleton of the control API: (1) in Engine.Stop/Register/Dup/DupListener/CountConnections every use of e.eng is dominated by the nil edge of e.Validate(), whose failure " +
			"edge returns that very error (-1 for CountConnections); Validate tests emptiness before shutdown and returns the two documented errors; (2) EventLoop.Register/Enroll/Execute test isShutdown() first " +
			"(ErrEngineInShutdown) and reject a nil argument with the documented error before using it; (3) Engine.Stop returns nil only on the isShutdown() edge and ctx.Err() on the ctx.Done() arm without further calls; " +
			"(4) the enrol worker sends exactly one result on every path into a channel of capacity >= 1 that it closes by defer; (5) inShutdown is stored only at the end of the stop sequences (shared with C06.3). " +
			"Races of calls with an ongoing shutdown are not decided.",
		Assumptions: []string{"the errors of pkg/errors are distinct sentinel values"}})

	register(&core.Rule{ID: "C19.1", Prop: "C19", MinSites: 8,
		Desc: "Engine methods validate first: every use of e.eng is dominated by Validate()==nil, the failure edge returns Validate's error (-1 for CountConnections); Validate checks empty before shutdown",
		Run:  runC19_1})
	register(&core.Rule{ID: "C19.2", Prop: "C19", MinSites: 6,
		Desc: "EventLoop.Register/Enroll/Execute: isShutdown() ↦ ErrEngineInShutdown first, nil argument ↦ documented error before use",
		Run:  runC19_2})
	register(&core.Rule{ID: "C19.3", Prop: "C19", MinSites: 6,
		Desc: "Engine.Stop and the package-level Stop return nil only on the isShutdown() edge; the ctx.Done() arm returns ctx.Err()",
		Run:  runC19_3})
	register(&core.Rule{ID: "C19.5", Prop: "C19", MinSites: 2,
		Desc: "every function that submits a register task and waits for its completion is reached only behind an isShutdown()==false test (in the function itself or in each of its in-package callers): on a stopped engine the task would never run and the call never return",
		Run:  runC19_5})
	register(&core.Rule{ID: "C19.4", Prop: "C19", MinSites: 3,
		Desc: "enroll worker: exactly one send on the result channel on every path, channel buffered (cap >= 1) and closed by defer",
		Run:  runC19_4})
}

func runC19_1(c *core.Ctx) {
	validate := c.P.Func("", "Engine.Validate")
	engF := c.P.Field("", "Engine", "eng")
	empty, inShut := sentinel(c, "ErrEmptyEngine"), sentinel(c, "ErrEngineInShutdown")
	if !c.Need("Engine.Validate", validate) || !c.Need("Engine.eng", engF) || !c.Need("ErrEmptyEngine", empty) || !c.Need("ErrEngineInShutdown", inShut) {
		return
	}
	for _, name := range []string{"Stop", "Register", "Dup", "DupListener", "CountConnections"} {
		f := getFn(c, "", "Engine."+name)
		if f == nil {
			continue
		}
		const (
			fValid = 1 << iota
			fInvalid
		)
		var verr types.Object // variable holding Validate()'s error, if any
		isValidateCall := func(e ast.Expr) bool {
			call, ok := ast.Unparen(e).(*ast.CallExpr)
			return ok && flow.IsCall(f.Info, call, validate)
		}
		ast.Inspect(f.Decl.Body, func(n ast.Node) bool {
			if as, ok := n.(*ast.AssignStmt); ok && len(as.Lhs) == 1 && len(as.Rhs) == 1 && isValidateCall(as.Rhs[0]) {
				verr = flow.ObjOf(f.Info, as.Lhs[0])
			}
			return true
		})
		p := &flow.Problem{Must: true}
		p.Edge = func(e *flow.Edge, in uint64) uint64 {
			if e.Cond == nil || e.Tag != nil {
				return in
			}
			x, y, op, ok := flow.Cmp(e.Cond)
			if !ok || !flow.IsNil(f.Info, y) {
				return in
			}
			if isValidateCall(x) || (verr != nil && flow.ObjOf(f.Info, x) == verr) {
				if (op == token.EQL) == e.Sense {
					in |= fValid
				} else {
					in |= fInvalid
				}
			}
			return in
		}
		sol := f.Graph().Solve(p)
		k := 0
		sol.Walk(func(b *flow.Block, i int, n ast.Node, before uint64) {
			ast.Inspect(n, func(x ast.Node) bool {
				if _, isLit := x.(*ast.FuncLit); isLit {
					return false
				}
				if sel, ok := x.(*ast.SelectorExpr); ok && flow.FieldOf(f.Info, sel) == engF {
					k++
					c.Check(before&fValid != 0, f.Name, "use of e.eng #"+itoa(k), sel.Pos(), "behind Validate() == nil",
						"e.eng is dereferenced on a path that has not passed Validate(): a zero Engine handle panics with a nil pointer instead of reporting ErrEmptyEngine, or a stopped engine is operated on", sol.Witness(b, fValid)...)
				}
				return true
			})
		})
		sol.AtExit(func(b *flow.Block, facts uint64) {
			if facts&fInvalid == 0 {
				return
			}
			r := b.Return
			okk := false
			if name == "CountConnections" {
				for _, res := range r.Results {
					if cv := flow.ConstOf(f.Info, res); cv != nil && cv.Kind() == constant.Int {
						if kv, _ := constant.Int64Val(cv); kv == -1 {
							okk = true
						}
					}
				}
			} else if len(r.Results) > 0 {
				last := r.Results[len(r.Results)-1]
				okk = (verr != nil && flow.ObjOf(f.Info, last) == verr) || isValidateCall(last)
			}
			c.Check(okk, f.Name, "invalid handle ↦ Validate's error", r.Pos(), "the state error is reported unchanged", "on the Validate() != nil edge the method does not return that error (-1 for CountConnections)")
		})
	}
	// Validate itself
	vf := fnOf(c, validate)
	if vf == nil {
		return
	}
	var order []types.Object
	for _, b := range orderedReturns(vf) {
		if len(b.Results) == 1 {
			if id := sentinelIdent(b.Results[0]); id != nil {
				order = append(order, vf.Info.Uses[id])
			}
		}
	}
	// (which verdict is decided first is checked on the edges below: ErrEngineInShutdown needs the
	// non-empty fact; here only that both documented errors are still produced)
	hasEmpty, hasDown := false, false
	for _, o := range order {
		hasEmpty = hasEmpty || o == empty
		hasDown = hasDown || o == inShut
	}
	okk := hasEmpty && hasDown
	c.Check(okk, vf.Name, "empty before in-shutdown", vf.Decl.Pos(), "ErrEmptyEngine is decided before ErrEngineInShutdown", "Validate no longer reports ErrEmptyEngine (nil or listener-less engine) before testing for shutdown, or no longer returns the two documented errors")
	// the emptiness test must precede any e.eng.<method> call
	const fNonNil = 1
	p := &flow.Problem{Must: true}
	p.Edge = func(e *flow.Edge, in uint64) uint64 {
		if e.Cond != nil && e.Tag == nil {
			if x, y, op, ok := flow.Cmp(e.Cond); ok && flow.IsNil(vf.Info, y) && flow.FieldOf(vf.Info, x) == engF && (op == token.NEQ) == e.Sense {
				in |= fNonNil
			}
		}
		return in
	}
	// each verdict is returned on the edge that justifies it
	{
		const (
			fEmpty = 1 << iota
			fNonEmpty
			fDown
			fUp
		)
		listenersF := c.P.Field("", "engine", "listeners")
		isShutdownFn := c.P.Func("", "engine.isShutdown")
		vp := &flow.Problem{Must: true}
		vp.Edge = func(e *flow.Edge, in uint64) uint64 {
			if e.Cond == nil || e.Tag != nil {
				return in
			}
			if call, ok := ast.Unparen(e.Cond).(*ast.CallExpr); ok && isShutdownFn != nil && flow.IsCall(vf.Info, call, isShutdownFn) {
				if e.Sense {
					return in | fDown
				}
				return in | fUp
			}
			x, y, op, ok := flow.Cmp(e.Cond)
			if !ok || (op != token.EQL && op != token.NEQ) {
				return in
			}
			equal := (op == token.EQL) == e.Sense
			if flow.IsNil(vf.Info, y) && flow.FieldOf(vf.Info, x) == engF && equal {
				return in | fEmpty
			}
			if lc, ok := ast.Unparen(x).(*ast.CallExpr); ok && len(lc.Args) == 1 {
				if id, ok := lc.Fun.(*ast.Ident); ok && id.Name == "len" && listenersF != nil && flow.FieldOf(vf.Info, lc.Args[0]) == listenersF {
					if tv, ok := vf.Info.Types[y]; ok && tv.Value != nil && tv.Value.String() == "0" {
						if equal {
							return in | fEmpty
						}
						return in | fNonEmpty
					}
				}
			}
			return in
		}
		vs := vf.Graph().Solve(vp)
		k := 0
		vs.AtExit(func(b *flow.Block, facts uint64) {
			k++
			if len(b.Return.Results) != 1 {
				return
			}
			res := b.Return.Results[0]
			var got types.Object
			if id := sentinelIdent(res); id != nil {
				got = vf.Info.Uses[id]
			}
			switch {
			case got == empty:
				c.Check(facts&fEmpty != 0, vf.Name, "ErrEmptyEngine only for an empty handle", b.Return.Pos(), "returned on the nil / no-listener edge",
					"Validate reports ErrEmptyEngine on a path where the handle is not known to be nil or listener-less (a running engine would be refused)")
			case got == inShut:
				c.Check(facts&fDown != 0 && facts&fNonEmpty != 0, vf.Name, "ErrEngineInShutdown only when shut down", b.Return.Pos(), "returned on the isShutdown() edge, after the handle was found non-empty",
					"Validate reports ErrEngineInShutdown although isShutdown() is not established on this path (a running engine refuses every control call, a stopped one accepts them), or before the handle was found to have listeners (a never-started handle must report ErrEmptyEngine)")
			case flow.IsNil(vf.Info, res):
				c.Check(facts&fNonEmpty != 0 && facts&fUp != 0, vf.Name, "nil only for a started, running engine", b.Return.Pos(), "listeners present and not shut down",
					"Validate returns nil on a path where the engine is not known to have listeners and to be running: a never-started or stopped handle is accepted, and the callers go on to use its loops")
			default:
				c.Violate(vf.Name, "verdict #"+itoa(k), b.Return.Pos(), "Validate returns something other than nil, ErrEmptyEngine or ErrEngineInShutdown")
			}
		})
	}
	sol := vf.Graph().Solve(p)
	sol.Walk(func(b *flow.Block, i int, n ast.Node, before uint64) {
		ast.Inspect(n, func(x ast.Node) bool {
			if sel, ok := x.(*ast.SelectorExpr); ok {
				if inner, ok := ast.Unparen(sel.X).(*ast.SelectorExpr); ok && flow.FieldOf(vf.Info, inner) == engF {
					c.Check(before&fNonNil != 0, vf.Name, "e.eng dereferenced after the nil test", sel.Pos(), "nil handle tolerated", "Validate dereferences e.eng before testing it for nil: a zero Engine panics")
				}
			}
			return true
		})
	})
}

func orderedReturns(f *fn) []*ast.ReturnStmt {
	var out []*ast.ReturnStmt
	ast.Inspect(f.Decl.Body, func(n ast.Node) bool {
		if r, ok := n.(*ast.ReturnStmt); ok {
			out = append(out, r)
		}
		return true
	})
	return out
}

func runC19_2(c *core.Ctx) {
	isShutdown := c.P.Func("", "engine.isShutdown")
	inShut := sentinel(c, "ErrEngineInShutdown")
	if !c.Need("engine.isShutdown", isShutdown) || !c.Need("ErrEngineInShutdown", inShut) {
		return
	}
	argErr := map[string]string{"Register": "ErrInvalidNetworkAddress", "Enroll": "ErrInvalidNetConn", "Execute": "ErrNilRunnable"}
	for _, name := range []string{"Register", "Enroll", "Execute"} {
		f := getFn(c, "", "eventloop."+name)
		want := sentinel(c, argErr[name])
		if f == nil || !c.Need(argErr[name], want) {
			continue
		}
		arg := f.param(1)
		const (
			fRunning = 1 << iota
			fStopped
			fArgNil
			fArgOK
		)
		p := &flow.Problem{Must: true}
		p.Edge = func(e *flow.Edge, in uint64) uint64 {
			if e.Cond == nil || e.Tag != nil {
				return in
			}
			if call, ok := ast.Unparen(e.Cond).(*ast.CallExpr); ok && flow.IsCall(f.Info, call, isShutdown) {
				if e.Sense {
					in |= fStopped
				} else {
					in |= fRunning
				}
			}
			if x, y, op, ok := flow.Cmp(e.Cond); ok && flow.IsNil(f.Info, y) && flow.ObjOf(f.Info, x) == types.Object(arg) {
				if (op == token.EQL) == e.Sense {
					in |= fArgNil
				} else {
					in |= fArgOK
				}
			}
			return in
		}
		sol := f.Graph().Solve(p)
		sol.AtExit(func(b *flow.Block, facts uint64) {
			r := b.Return
			last := r.Results[len(r.Results)-1]
			var got types.Object
			if id := sentinelIdent(last); id != nil {
				got = f.Info.Uses[id]
			}
			switch {
			case facts&fStopped != 0:
				c.Check(got == inShut, f.Name, "stopped engine ↦ ErrEngineInShutdown", r.Pos(), "documented error", "on the isShutdown() edge the method does not return ErrEngineInShutdown")
			case facts&fArgNil != 0:
				c.Check(got == want, f.Name, "nil argument ↦ "+argErr[name], r.Pos(), "documented error", "a nil argument is not rejected with "+argErr[name])
			default:
				c.Check(facts&fRunning != 0 && facts&fArgOK != 0, f.Name, "work only after both checks", r.Pos(), "shutdown test and nil test precede the operation",
					"the operation is carried out without first testing isShutdown() and the argument for nil: requests are accepted after shutdown (their result never arrives) or a nil argument panics later on a worker goroutine", sol.Witness(b, fRunning|fArgOK)...)
			}
		})
		// the shutdown test comes before the nil test (first things first is not required by the statement, but uses of arg must follow its test)
		sol.Walk(func(b *flow.Block, i int, n ast.Node, before uint64) {
			for _, call := range flow.Calls(n) {
				if flow.IsCall(f.Info, call, isShutdown) {
					continue
				}
				uses := false
				for _, a := range call.Args {
					ast.Inspect(a, func(x ast.Node) bool {
						if id, ok := x.(*ast.Ident); ok && f.Info.Uses[id] == types.Object(arg) {
							uses = true
						}
						return true
					})
				}
				if r := flow.Recv(call); r != nil && flow.ObjOf(f.Info, r) == types.Object(arg) {
					uses = true
				}
				if uses {
					c.Check(before&fArgOK != 0, f.Name, "argument used after its nil test", call.Pos(), "no nil dereference", "the argument is used before it was tested for nil")
				}
			}
		})
	}
}

func runC19_3(c *core.Ctx) {
	for _, name := range []string{"Engine.Stop", "Stop"} {
		runC19_3on(c, name)
	}
}

func runC19_3on(c *core.Ctx, name string) {
	f := getFn(c, "", name)
	isShutdown := c.P.Func("", "engine.isShutdown")
	if f == nil || !c.Need("engine.isShutdown", isShutdown) {
		return
	}
	const (
		fDown   = 1 << iota
		fAbsent // the comma-ok of a lookup was false: there is no engine to stop
	)
	p := &flow.Problem{Must: true}
	p.Edge = func(e *flow.Edge, in uint64) uint64 {
		if e.Cond != nil && e.Tag == nil && e.Sense {
			if call, ok := ast.Unparen(e.Cond).(*ast.CallExpr); ok && flow.IsCall(f.Info, call, isShutdown) {
				in |= fDown
			}
		}
		if e.Cond != nil && e.Tag == nil {
			// the failure edge of Engine.Validate (whose verdicts C19.1 decides)
			if x, y, op, ok := flow.Cmp(e.Cond); ok && flow.IsNil(f.Info, y) && (op == token.NEQ) == e.Sense {
				if v, ok := flow.ObjOf(f.Info, x).(*types.Var); ok {
					if def, ok := singleDef(f, v).(*ast.CallExpr); ok {
						if cf := flow.CalleeFunc(f.Info, def); cf != nil && nameOf(cf) == "Validate" && c.P.InModule(cf) {
							in |= fAbsent
						}
					}
				}
			}
		}
		if e.Cond != nil && e.Tag == nil && !e.Sense {
			if id, ok := ast.Unparen(e.Cond).(*ast.Ident); ok {
				if v, ok := f.Info.Uses[id].(*types.Var); ok && types.Identical(v.Type(), types.Typ[types.Bool]) {
					in |= fAbsent
				}
			}
		}
		return in
	}
	sol := f.Graph().Solve(p)
	nNil := 0
	sol.AtExit(func(b *flow.Block, facts uint64) {
		r := b.Return
		if len(r.Results) == 1 && !flow.IsNil(f.Info, r.Results[0]) {
			// a refusal (not the context's error): only for an engine that is down already or does not exist
			isCtxErr := false
			if call, ok := ast.Unparen(r.Results[0]).(*ast.CallExpr); ok {
				if cf := flow.CalleeFunc(f.Info, call); cf != nil && nameOf(cf) == "Err" {
					isCtxErr = true
				}
			}
			if !isCtxErr {
				c.Check(facts&(fDown|fAbsent) != 0, f.Name, "refusal only for a stopped or unknown engine", r.Pos(), "an error other than ctx.Err() is returned on the isShutdown() edge, on the failure edge of Validate or where the engine lookup failed",
					"Stop can give up with "+exprStr(r.Results[0])+" although the engine exists and isShutdown() was not observed true: a running engine is never waited for – the caller is told it is already shutting down while loops and callbacks continue")
			}
		}
		if len(r.Results) == 1 && flow.IsNil(f.Info, r.Results[0]) {
			nNil++
			c.Check(facts&fDown != 0, f.Name, "return nil only after shutdown completed", r.Pos(), "nil means the engine is fully stopped",
				"Stop can return nil although isShutdown() was not observed true: callers proceed while loops and callbacks are still running")
		}
	})
	if nNil == 0 {
		c.Violate(f.Name, "return nil only after shutdown completed", f.Decl.Pos(), "Stop never returns nil")
	}
	// ctx.Done() arm returns ctx.Err()
	okk := false
	ast.Inspect(f.Decl.Body, func(n ast.Node) bool {
		cc, ok := n.(*ast.CommClause)
		if !ok || cc.Comm == nil {
			return true
		}
		isDone := false
		ast.Inspect(cc.Comm, func(x ast.Node) bool {
			if call, ok := x.(*ast.CallExpr); ok {
				if cf := flow.CalleeFunc(f.Info, call); cf != nil && nameOf(cf) == "Done" && cf.Pkg() != nil && cf.Pkg().Path() == "context" {
					isDone = true
				}
			}
			return true
		})
		if isDone && len(cc.Body) == 1 {
			if r, ok := cc.Body[0].(*ast.ReturnStmt); ok && len(r.Results) == 1 {
				if call, ok := ast.Unparen(r.Results[0]).(*ast.CallExpr); ok {
					if cf := flow.CalleeFunc(f.Info, call); cf != nil && nameOf(cf) == "Err" && cf.Pkg() != nil && cf.Pkg().Path() == "context" {
						okk = true
					}
				}
			}
		}
		return true
	})
	// the shutdown is requested before the wait begins
	if shutdownFn := c.P.Func("", "engine.shutdown"); shutdownFn != nil {
		const fAsked = 1
		sp := &flow.Problem{Must: true}
		sp.Node = func(b *flow.Block, i int, n ast.Node, in uint64) uint64 {
			for _, call := range flow.Calls(n) {
				if flow.IsCall(f.Info, call, shutdownFn) {
					in |= fAsked
				}
			}
			return in
		}
		ss := f.Graph().Solve(sp)
		asked, waits := true, 0
		ss.Walk(func(b *flow.Block, i int, n ast.Node, before uint64) {
			for _, call := range flow.Calls(n) {
				if flow.IsPkgFunc(f.Info, call, "time", "NewTicker") {
					waits++
					if before&fAsked == 0 {
						asked = false
					}
				}
			}
		})
		c.Check(asked && waits > 0, f.Name, "shutdown requested before waiting", f.Decl.Pos(), "engine.shutdown(nil) precedes the polling loop on every path",
			"Stop starts polling isShutdown() on a path where engine.shutdown was not called: nothing asks the loops to exit, and Stop waits until its context ends")
	}
	c.Check(okk, f.Name, "ctx.Done() ↦ ctx.Err()", f.Decl.Pos(), "the context's error is returned and nothing else happens", "the ctx.Done() arm of Stop no longer just returns ctx.Err() (it must not cancel or redo the shutdown)")
}

func runC19_4(c *core.Ctx) {
	f := getFn(c, "", "eventloop.enroll")
	if f == nil {
		return
	}
	// resCh = make(chan RegisteredResult, N)
	var resCh types.Object
	capOK := false
	ast.Inspect(f.Decl.Body, func(n ast.Node) bool {
		if as, ok := n.(*ast.AssignStmt); ok && len(as.Lhs) == 1 && len(as.Rhs) == 1 {
			if call, ok := ast.Unparen(as.Rhs[0]).(*ast.CallExpr); ok {
				if id, ok := call.Fun.(*ast.Ident); ok && id.Name == "make" && len(call.Args) >= 1 {
					if _, isChan := f.Info.TypeOf(call.Args[0]).Underlying().(*types.Chan); isChan {
						if t, ok := f.Info.TypeOf(call.Args[0]).Underlying().(*types.Chan); ok {
							if nm, ok := t.Elem().(*types.Named); ok && nameOf(nm.Obj()) == "RegisteredResult" {
								resCh = flow.ObjOf(f.Info, as.Lhs[0])
								if len(call.Args) == 2 {
									if cv := flow.ConstOf(f.Info, call.Args[1]); cv != nil {
										if k, _ := constant.Int64Val(cv); k >= 1 {
											capOK = true
										}
									}
								}
							}
						}
					}
				}
			}
		}
		return true
	})
	if resCh == nil {
		c.Violate(f.Name, "result channel", f.Decl.Pos(), "enroll no longer creates a RegisteredResult channel")
		return
	}
	c.Check(capOK, f.Name, "result channel is buffered", f.Decl.Pos(), "the worker never blocks on a caller that went away", "the result channel is unbuffered: if the caller stops receiving, the worker goroutine (and the pooled worker) blocks forever")
	// the worker literal: the one passed to Submit
	var lit *ast.FuncLit
	for _, call := range callsIn(f.Decl.Body, false) {
		if cf := flow.CalleeFunc(f.Info, call); cf != nil && nameOf(cf) == "Submit" && len(call.Args) == 1 {
			lit, _ = ast.Unparen(call.Args[0]).(*ast.FuncLit)
		}
	}
	if lit == nil {
		c.Violate(f.Name, "worker literal", f.Decl.Pos(), "no worker function literal is submitted")
		return
	}
	g := f.litGraph(lit)
	closed := false
	for _, d := range g.Defers {
		if id, ok := d.Call.Fun.(*ast.Ident); ok && id.Name == "close" && len(d.Call.Args) == 1 && flow.ObjOf(f.Info, d.Call.Args[0]) == resCh {
			closed = true
		}
	}
	c.Check(closed, f.Name, "defer close(resCh)", lit.Pos(), "the channel is closed on every exit of the worker", "the worker no longer closes the result channel by defer: a caller ranging over it blocks forever")
	cnt := g.CountEvents(flow.CountOpts{Events: func(b *flow.Block, n ast.Node) int {
		k := 0
		ast.Inspect(n, func(x ast.Node) bool {
			if _, isLit := x.(*ast.FuncLit); isLit {
				return false
			}
			if s, ok := x.(*ast.SendStmt); ok && flow.ObjOf(f.Info, s.Chan) == resCh {
				k++
			}
			return true
		})
		return k
	}})
	i := 0
	cnt.AtExit(func(b *flow.Block, _ uint64) {
		i++
		cs := cnt.Out(b)
		c.Check(cs == flow.Cnt1, f.Name, "one result per call (return #"+itoa(i)+")", b.Return.Pos(), "exactly one send before the worker returns",
			"a path of the enrol worker sends "+flow.CountSet(cs)+" results: the caller receives no result (only the close) or a second send blocks the worker because the buffer holds one")
	})
}

func runC19_5(c *core.Ctx) {
	v := vocabOf(c)
	if v == nil {
		return
	}
	trig := c.P.Func("pkg/netpoll", "Poller.Trigger")
	register := c.P.Func("", "eventloop.register")
	isShutdown := c.P.Func("", "engine.isShutdown")
	if !c.Need("Trigger", trig) || !c.Need("register", register) || !c.Need("isShutdown", isShutdown) {
		return
	}
	// does body contain Trigger(_, X.register, _) and a channel receive?
	submitsAndWaits := func(f *fn) (*ast.CallExpr, bool) {
		var site *ast.CallExpr
		waits := false
		ast.Inspect(f.Decl.Body, func(n ast.Node) bool {
			switch y := n.(type) {
			case *ast.CallExpr:
				if flow.IsCall(f.Info, y, trig) && len(y.Args) == 3 {
					if sel, ok := ast.Unparen(y.Args[1]).(*ast.SelectorExpr); ok {
						if s, ok := f.Info.Selections[sel]; ok && s.Obj() == register {
							site = y
						}
					}
				}
			case *ast.UnaryExpr:
				if y.Op == token.ARROW {
					waits = true
				}
			}
			return true
		})
		return site, site != nil && waits
	}
	testedBefore := func(f *fn, target func(call *ast.CallExpr) bool) (bool, token.Pos) {
		const fRunning = 1
		p := &flow.Problem{Must: true}
		p.Edge = func(e *flow.Edge, in uint64) uint64 {
			if e.Cond != nil && e.Tag == nil && !e.Sense {
				if call, ok := ast.Unparen(e.Cond).(*ast.CallExpr); ok && flow.IsCall(f.Info, call, isShutdown) {
					in |= fRunning
				}
			}
			return in
		}
		sol := f.Graph().Solve(p)
		okk, found := true, false
		var pos token.Pos
		sol.Walk(func(b *flow.Block, i int, n ast.Node, before uint64) {
			for _, call := range callsIn(n, true) {
				if target(call) {
					found = true
					pos = call.Pos()
					if before&fRunning == 0 {
						okk = false
					}
				}
			}
		})
		return okk && found, pos
	}
	for _, f := range v.funcs {
		site, ok := submitsAndWaits(f)
		if !ok {
			continue
		}
		if good, _ := testedBefore(f, func(call *ast.CallExpr) bool { return call == site }); good {
			c.Ok(f.Name, "register-and-wait behind isShutdown()", site.Pos(), "tested in the function itself")
			continue
		}
		// every in-package caller must test before calling
		nCallers, allGood := 0, true
		var badCaller string
		for _, g := range v.funcs {
			has := false
			for _, call := range callsIn(g.Decl.Body, true) {
				if flow.IsCall(g.Info, call, f.Obj) {
					has = true
				}
			}
			if !has {
				continue
			}
			nCallers++
			if good, _ := testedBefore(g, func(call *ast.CallExpr) bool { return flow.IsCall(g.Info, call, f.Obj) }); !good {
				// one more level: exported wrappers that only forward (Dial -> DialContext -> EnrollContext)
				allGood = false
				badCaller = g.Name
			}
		}
		exported := f.Obj.Exported()
		if exported || nCallers == 0 {
			allGood = false
			if badCaller == "" {
				badCaller = "its API callers"
			}
		}
		c.Check(allGood, f.Name, "register-and-wait behind isShutdown()", site.Pos(), "every caller tests isShutdown() first",
			f.Obj.Name()+" queues a register task and blocks until it ran, but is reachable (via "+badCaller+") without an isShutdown() test: on a stopped engine/client the loop is gone, the task never runs and the call blocks forever instead of returning ErrEngineInShutdown")
	}
}
