package rules

import (
	"go/ast"
	"go/constant"
	"go/token"
	"go/types"

	"gnetlint/core"
	"gnetlint/flow"
)

func init() {
	describe(&PropInfo{ID: "C02",
		Explanation: "Decides the plumbing of the outbound path on every CFG path of write/writev/open/(*eventloop).write/Flush/close: " +
			"(1) caller data is handed to write(2)/writev(2) only when the outbound buffer was tested empty with no append since (no overtaking); " +
			"(2) after a syscall the leftover is appended (same variable) or a 'nothing left' test lies on the path, EAGAIN appends the whole payload, hard errors reach the close; " +
			"(3) the consumed count is the count returned by that very syscall; (4) level-triggered mode: whenever data is appended to a buffer known empty (or may have been, after ReadFrom/conn.open) " +
			"write interest is armed before returning, and ModRead only follows an empty test; (5) every iovec handed to writev is clamped to iovMax on the same variable; " +
			"(6) async writes use HighPriority on the conn's own loop (shared with C03.11). Byte contents, kernel acceptance patterns and eventual delivery are not decided.",
		Assumptions: []string{"elastic.Buffer keeps FIFO order (C10)", "write interest armed ⇒ the loop eventually calls (*eventloop).write (kernel behaviour)"}})

	register(&core.Rule{ID: "C02.1", Prop: "C02", MinSites: 3,
		Desc: "no overtaking: in *conn methods a stream write syscall on caller data is reached only on the IsEmpty()==true edge of the outbound buffer with no append since",
		Run:  runC02_1})
	register(&core.Rule{ID: "C02.2", Prop: "C02", MinSites: 6,
		Desc: "leftover kept: after a write syscall every return has appended the leftover (same variable as the syscall's data), established that nothing is left, or is a hard-error return; EAGAIN appends the whole payload",
		Run:  runC02_2})
	register(&core.Rule{ID: "C02.3", Prop: "C02", MinSites: 4,
		Desc: "the count used to advance the data / discard from the buffer is the result variable of that write syscall, unmodified",
		Run:  runC02_3})
	register(&core.Rule{ID: "C02.5", Prop: "C02", MinSites: 6,
		Desc: "LT arming invariant: an append to a possibly-empty outbound buffer is followed by ModReadWrite before returning unless edge-triggered; ModRead is issued only on the IsEmpty()==true edge",
		Run:  runC02_5})
	register(&core.Rule{ID: "C02.6", Prop: "C02", MinSites: 3,
		Desc: "every slice handed to io.Writev in package gnet is clamped to iovMax on all paths",
		Run:  runC02_6})
}

type outAnch struct {
	v                                                     *vocab
	isEmpty, bufWrite, bufWritev, bufReadFrom, bufDiscard *types.Func
	modRW, modR                                           *types.Func
	etField                                               *types.Var
	gioWritev                                             *types.Func
	iovMax                                                *types.Const
	connOpen                                              *types.Func
}

func outAnchors(c *core.Ctx) *outAnch {
	v := vocabOf(c)
	if v == nil {
		return nil
	}
	a := &outAnch{v: v}
	a.isEmpty = v.elasticIsEmpty
	a.bufWrite = c.P.Func("pkg/buffer/elastic", "Buffer.Write")
	a.bufWritev = c.P.Func("pkg/buffer/elastic", "Buffer.Writev")
	a.bufReadFrom = c.P.Func("pkg/buffer/elastic", "Buffer.ReadFrom")
	a.bufDiscard = c.P.Func("pkg/buffer/elastic", "Buffer.Discard")
	a.modRW, a.modR = c.P.Func("pkg/netpoll", "Poller.ModReadWrite"), c.P.Func("pkg/netpoll", "Poller.ModRead")
	a.etField = c.P.Field("", "Options", "EdgeTriggeredIO")
	a.gioWritev = c.P.Func("pkg/io", "Writev")
	a.iovMax, _ = c.P.Object("", "iovMax").(*types.Const)
	a.connOpen = c.P.Func("", "conn.open")
	ok := true
	for what, x := range map[string]any{"elastic.Write": a.bufWrite, "elastic.Writev": a.bufWritev, "elastic.ReadFrom": a.bufReadFrom, "elastic.Discard": a.bufDiscard,
		"ModReadWrite": a.modRW, "ModRead": a.modR, "Options.EdgeTriggeredIO": a.etField, "io.Writev": a.gioWritev, "iovMax": a.iovMax, "conn.open": a.connOpen} {
		if !c.Need(what, x) {
			ok = false
		}
	}
	if !ok {
		return nil
	}
	return a
}

// onOutbound reports a call of method m on <x>.outboundBuffer.
func (a *outAnch) onOutbound(f *fn, call *ast.CallExpr, m *types.Func) bool {
	if !flow.IsCall(f.Info, call, m) {
		return false
	}
	r := flow.Recv(call)
	return r != nil && flow.FieldOf(f.Info, r) == a.v.outbound
}

func (a *outAnch) isAppend(f *fn, call *ast.CallExpr) bool {
	return a.onOutbound(f, call, a.bufWrite) || a.onOutbound(f, call, a.bufWritev) || a.onOutbound(f, call, a.bufReadFrom)
}

// streamWrite matches unix.Write(x.fd, data) / io.Writev(x.fd, data) and returns the data argument.
func (a *outAnch) streamWrite(f *fn, call *ast.CallExpr) (data ast.Expr, name string) {
	if len(call.Args) != 2 || flow.FieldOf(f.Info, call.Args[0]) != a.v.fdF {
		return nil, ""
	}
	if flow.IsPkgFunc(f.Info, call, unixPkg, "Write") {
		return call.Args[1], "unix.Write"
	}
	if flow.IsCall(f.Info, call, a.gioWritev) {
		return call.Args[1], "io.Writev"
	}
	return nil, ""
}

// connMethods: functions with receiver *conn in package gnet.
func (a *outAnch) connMethods() []*fn {
	var out []*fn
	for _, f := range a.v.funcs {
		if rv := f.recvVar(); rv != nil && a.v.isConnPtr(rv.Type()) {
			out = append(out, f)
		}
	}
	return out
}

func (a *outAnch) emptyEdge(f *fn, e *flow.Edge) (isTest, empty bool) {
	if e.Cond == nil || e.Tag != nil {
		return false, false
	}
	call, ok := ast.Unparen(e.Cond).(*ast.CallExpr)
	if !ok || !a.onOutbound(f, call, a.isEmpty) {
		return false, false
	}
	return true, e.Sense
}

func runC02_1(c *core.Ctx) {
	a := outAnchors(c)
	if a == nil {
		return
	}
	for _, f := range a.connMethods() {
		has := false
		for _, call := range callsIn(f.Decl.Body, false) {
			if d, _ := a.streamWrite(f, call); d != nil {
				has = true
			}
		}
		if !has {
			continue
		}
		const fEmpty = 1
		p := &flow.Problem{Must: true}
		p.Node = func(b *flow.Block, i int, n ast.Node, in uint64) uint64 {
			for _, call := range flow.Calls(n) {
				if a.isAppend(f, call) {
					in &^= fEmpty
				}
			}
			return in
		}
		p.Edge = func(e *flow.Edge, in uint64) uint64 {
			if t, empty := a.emptyEdge(f, e); t && empty {
				in |= fEmpty
			}
			return in
		}
		sol := f.Graph().Solve(p)
		sol.Walk(func(b *flow.Block, i int, n ast.Node, before uint64) {
			cur := before
			for _, call := range flow.Calls(n) {
				if a.isAppend(f, call) {
					cur &^= fEmpty
				}
				if d, name := a.streamWrite(f, call); d != nil {
					c.Check(cur&fEmpty != 0, f.Name, name+"("+exprStr(d)+") only when nothing is pending", call.Pos(),
						"direct write only on the outboundBuffer.IsEmpty() edge",
						"caller data is written directly to the socket although earlier data may still sit in the outbound buffer: the new bytes overtake the buffered ones", sol.Witness(b, fEmpty)...)
				}
			}
		})
	}
}

// nothingLeftEdge: len(X) > 0 false, len(X) == 0 true, R > 0 false, R == 0 true …
func nothingLeftEdge(f *fn, e *flow.Edge) bool {
	if e.Cond == nil || e.Tag != nil {
		return false
	}
	x, y, op, ok := flow.Cmp(e.Cond)
	if !ok {
		return false
	}
	cv := flow.ConstOf(f.Info, y)
	if cv == nil {
		if cv = flow.ConstOf(f.Info, x); cv == nil {
			return false
		}
		op = swapCmp(op)
	}
	if cv.Kind() != constant.Int {
		return false
	}
	k, exact := constant.Int64Val(cv)
	if !exact {
		return false
	}
	// the compared quantity is a length or a byte count (never negative): the edge says "nothing left"
	// when it is taken for 0 and for no value from 1 upwards – whatever the spelling (== 0, < 1, <= 0, !(> 0) …)
	zero, ok0 := ival{lo: 0, hi: 0}.cmp(op, k)
	rest, ok1 := ival{lo: 1, hiInf: true}.cmp(op, k)
	return ok0 && ok1 && zero == e.Sense && rest != e.Sense
}

func runC02_2(c *core.Ctx) {
	a := outAnchors(c)
	if a == nil {
		return
	}
	for _, f := range a.connMethods() {
		var dataObj types.Object
		n := 0
		for _, call := range callsIn(f.Decl.Body, false) {
			if d, _ := a.streamWrite(f, call); d != nil {
				n++
				dataObj = flow.ObjOf(f.Info, d)
			}
		}
		if n == 0 {
			continue
		}
		if dataObj == nil {
			c.Undecided(f.Name, "write syscall data", f.Decl.Pos(), "data argument of the write syscall is not a variable; idiom not recognised")
			continue
		}
		// the syscall may operate on a bounded window of the payload (iov := bs; iov = iov[:iovMax]):
		// appending the variable the window was taken from keeps at least as much
		// If the window variable is derived from the payload variable (D := X, possibly clamped afterwards),
		// only X holds everything that is still unsent: the window alone must not be what gets buffered.
		sources := map[types.Object]bool{}
		ast.Inspect(f.Decl.Body, func(n ast.Node) bool {
			if as, ok := n.(*ast.AssignStmt); ok && len(as.Lhs) == 1 && len(as.Rhs) == 1 && flow.ObjOf(f.Info, as.Lhs[0]) == dataObj {
				if id, ok := ast.Unparen(as.Rhs[0]).(*ast.Ident); ok {
					if o := flow.ObjOf(f.Info, id); o != nil && o != dataObj {
						sources[o] = true
					}
				}
			}
			return true
		})
		if len(sources) == 0 {
			sources[dataObj] = true
		}
		isDataOrSource := func(o types.Object) bool { return o != nil && sources[o] }
		payloadName := dataObj.Name()
		for o := range sources {
			payloadName = o.Name()
		}
		const (
			sIdle  = iota
			sSent  // syscall returned, result not yet classified
			sErr   // err != nil, kind unknown
			sAgain // EAGAIN: whole payload must be appended
		)
		au := &flow.Auto{Start: sIdle}
		au.Node = func(b *flow.Block, i int, nd ast.Node, s int) int {
			for _, call := range flow.Calls(nd) {
				if d, _ := a.streamWrite(f, call); d != nil {
					s = sSent
				}
				if (a.onOutbound(f, call, a.bufWrite) || a.onOutbound(f, call, a.bufWritev)) && len(call.Args) == 1 &&
					isDataOrSource(flow.ObjOf(f.Info, call.Args[0])) && (s == sSent || s == sAgain) {
					s = sIdle
				}
			}
			return s
		}
		au.Edge = func(e *flow.Edge, s int) int {
			if e.Cond == nil || e.Tag != nil {
				return s
			}
			switch s {
			case sSent:
				if x, y, op, ok := flow.Cmp(e.Cond); ok && flow.IsNil(f.Info, y) && isErrorType(f.Info.TypeOf(x)) {
					if (op == token.NEQ) == e.Sense {
						return sErr
					}
					return sSent
				}
				if nothingLeftEdge(f, e) {
					return sIdle
				}
			case sErr:
				if isErrnoCmp(f, e.Cond, "EAGAIN") {
					if e.Sense {
						return sAgain
					}
					return sIdle // hard error: the connection is closed by the caller/defer (C18.3)
				}
			}
			return s
		}
		sol := f.Graph().Run(au)
		sol.AtExit(func(b *flow.Block, _ uint64) {
			st := sol.Out(b)
			msg := ""
			switch {
			case st&(1<<sSent) != 0:
				msg = "a return is reachable after a (possibly partial) write without appending the unsent rest of " + payloadName + " to the outbound buffer or establishing that nothing is left: bytes are lost"
			case st&(1<<sAgain) != 0:
				msg = "a return is reachable on the EAGAIN edge without appending the whole pending payload " + payloadName + " to the outbound buffer (buffering only the window handed to the syscall drops the rest)"
			}
			c.Check(msg == "", f.Name, "return after write syscall", b.Return.Pos(), "leftover appended / nothing left / hard error", msg)
		})
	}
}

func runC02_3(c *core.Ctx) {
	a := outAnchors(c)
	if a == nil {
		return
	}
	for _, f := range a.v.funcs {
		var counts []types.Object
		var datas []types.Object
		ast.Inspect(f.Decl.Body, func(n ast.Node) bool {
			if _, ok := n.(*ast.FuncLit); ok {
				return false
			}
			as, ok := n.(*ast.AssignStmt)
			if !ok || len(as.Rhs) != 1 || len(as.Lhs) != 2 {
				return true
			}
			call, ok := ast.Unparen(as.Rhs[0]).(*ast.CallExpr)
			if !ok {
				return true
			}
			if d, _ := a.streamWrite(f, call); d != nil {
				if o := flow.ObjOf(f.Info, as.Lhs[0]); o != nil {
					counts = append(counts, o)
					datas = append(datas, flow.ObjOf(f.Info, d))
				}
			}
			return true
		})
		if len(counts) == 0 {
			continue
		}
		isCount := func(e ast.Expr) bool {
			o := flow.ObjOf(f.Info, e)
			for _, k := range counts {
				if o == k && o != nil {
					return true
				}
			}
			return false
		}
		isData := func(e ast.Expr) bool {
			o := flow.ObjOf(f.Info, e)
			for _, k := range datas {
				if o == k && o != nil {
					return true
				}
			}
			return false
		}
		consumers := 0
		ast.Inspect(f.Decl.Body, func(n ast.Node) bool {
			switch x := n.(type) {
			case *ast.FuncLit:
				return false
			case *ast.AssignStmt:
				// data = data[k:]
				if len(x.Lhs) == 1 && len(x.Rhs) == 1 && isData(x.Lhs[0]) && x.Tok == token.ASSIGN && isByteSlice(f.Info.TypeOf(x.Lhs[0])) {
					if se, ok := ast.Unparen(x.Rhs[0]).(*ast.SliceExpr); ok && isData(se.X) && se.Low != nil && se.High == nil {
						consumers++
						c.Check(isCount(se.Low), f.Name, "advance "+exprStr(x.Lhs[0])+" by the syscall count", x.Pos(), "advanced by the count of the write syscall",
							"the data window is advanced by "+exprStr(se.Low)+", which is not the unmodified count returned by the write syscall: bytes are skipped or sent twice")
					}
				}
			case *ast.CallExpr:
				if a.onOutbound(f, x, a.bufDiscard) && len(x.Args) == 1 {
					consumers++
					c.Check(isCount(x.Args[0]), f.Name, "Discard by the syscall count", x.Pos(), "buffer advanced by the count of the write syscall",
						"the outbound buffer is advanced by "+exprStr(x.Args[0])+", which is not the unmodified count returned by the write syscall")
				}
			}
			return true
		})
		// counts must not be reassigned except by the syscalls themselves
		ast.Inspect(f.Decl.Body, func(n ast.Node) bool {
			if _, ok := n.(*ast.FuncLit); ok {
				return false
			}
			if as, ok := n.(*ast.AssignStmt); ok {
				for _, l := range as.Lhs {
					if isCount(l) {
						isSys := false
						if len(as.Rhs) == 1 {
							if call, ok := ast.Unparen(as.Rhs[0]).(*ast.CallExpr); ok {
								if d, _ := a.streamWrite(f, call); d != nil {
									isSys = true
								}
							}
						}
						if !isSys && as.Tok == token.ASSIGN {
							c.Violate(f.Name, "count variable reassigned", as.Pos(), "the syscall count variable "+exprStr(l)+" is overwritten before it is consumed")
						}
					}
				}
			}
			return true
		})
		if consumers == 0 && f.Name != "gnet.(*conn).writev" {
			c.Violate(f.Name, "count consumed", f.Decl.Pos(), "the count returned by the write syscall is never used to advance the data or the buffer")
		}
		if f.Name == "gnet.(*conn).writev" {
			// writev advances through `remaining -= sent` and the per-segment walk; require the subtraction by the count
			found := false
			ast.Inspect(f.Decl.Body, func(n ast.Node) bool {
				if as, ok := n.(*ast.AssignStmt); ok && as.Tok == token.SUB_ASSIGN && len(as.Rhs) == 1 && isCount(as.Rhs[0]) {
					found = true
				}
				return true
			})
			c.Check(found, f.Name, "remaining -= count", f.Decl.Pos(), "remaining decreased by the syscall count", "writev no longer decreases its remaining counter by the count returned by the syscall")
		}
	}
}

// etCond: expression denotes Options.EdgeTriggeredIO (directly or through a local initialised from it).
func (a *outAnch) etCond(f *fn, e ast.Expr) bool {
	e = ast.Unparen(e)
	if flow.FieldOf(f.Info, e) == a.etField {
		return true
	}
	if o, ok := flow.ObjOf(f.Info, e).(*types.Var); ok && !o.IsField() {
		if d := defOf(f.Info, f.Decl.Body, o); d != nil && flow.FieldOf(f.Info, d) == a.etField {
			return true
		}
	}
	return false
}

func runC02_5(c *core.Ctx) {
	a := outAnchors(c)
	if a == nil {
		return
	}
	writeFn := c.P.Func("", "eventloop.write")
	if !c.Need("eventloop.write", writeFn) {
		return
	}
	type spec struct {
		f         *fn
		entryNeed bool // buffer may be non-empty and un-armed on entry (Flush after ReadFrom)
		delegated bool // arming is the caller's job (conn.open -> eventloop.open)
	}
	var specs []spec
	for _, f := range a.v.funcs {
		switch f.Name {
		case "gnet.(*conn).write", "gnet.(*conn).writev", "gnet.(*eventloop).open":
			specs = append(specs, spec{f: f})
		case "gnet.(*conn).Flush":
			specs = append(specs, spec{f: f, entryNeed: true})
		case "gnet.(*conn).open":
			specs = append(specs, spec{f: f, delegated: true})
		case "gnet.(*conn).ReadFrom":
			// appends without arming by design: the documented pair is ReadFrom + Flush; Flush carries the obligation
			c.Ok(f.Name, "arming delegated to Flush", f.Decl.Pos(), "ReadFrom only buffers; Flush must leave the buffer empty or armed")
		}
	}
	const (
		E    = 1 // buffer known empty
		NEED = 2 // appended to a possibly-empty buffer, write interest not armed yet
	)
	for _, sp := range specs {
		f := sp.f
		if sp.delegated {
			// conn.open must be called only from eventloop.open (which arms)
			for _, g := range a.v.funcs {
				for _, call := range callsIn(g.Decl.Body, true) {
					if flow.IsCall(g.Info, call, a.connOpen) {
						c.Check(g.Name == "gnet.(*eventloop).open", g.Name, "call of (*conn).open", call.Pos(), "the only caller arms write interest afterwards",
							"(*conn).open buffers on EAGAIN without arming write interest and is now called from a function other than (*eventloop).open")
					}
				}
			}
			continue
		}
		start := 0
		if sp.entryNeed {
			start = NEED
		}
		au := &flow.Auto{Start: start}
		au.Node = func(b *flow.Block, i int, n ast.Node, s int) int {
			for _, call := range flow.Calls(n) {
				switch {
				case a.isAppend(f, call):
					if s&E != 0 {
						s = NEED
					} else {
						s &^= E
					}
				case flow.IsCall(f.Info, call, a.connOpen):
					s = NEED // may have buffered the reply on EAGAIN
				case flow.IsCall(f.Info, call, a.modRW):
					s &^= NEED
				}
			}
			return s
		}
		au.Edge = func(e *flow.Edge, s int) int {
			if t, empty := a.emptyEdge(f, e); t {
				if empty {
					return E // empty: nothing to arm for
				}
				return s &^ E
			}
			if e.Cond != nil && e.Tag == nil && a.etCond(f, e.Cond) && e.Sense {
				return s &^ NEED // edge-triggered registration always includes write interest
			}
			// the connection is already closed: nothing can or needs to be flushed any more
			if e.Cond != nil && e.Tag == nil && !e.Sense {
				if sel, ok := ast.Unparen(e.Cond).(*ast.SelectorExpr); ok && flow.FieldOf(f.Info, sel) == a.v.opened {
					return s &^ NEED
				}
			}
			// error edges: a failing write/open/flush buffered nothing further; the connection is closed (C18.3) or the engine is stopping
			if e.Cond != nil && e.Tag == nil {
				if x, y, op, ok := flow.Cmp(e.Cond); ok && flow.IsNil(f.Info, y) && isErrorType(f.Info.TypeOf(x)) && (op == token.NEQ) == e.Sense {
					return s &^ NEED
				}
			}
			return s
		}
		sol := f.Graph().Run(au)
		sol.AtExit(func(b *flow.Block, _ uint64) {
			bad := false
			for _, s := range flow.States(sol.Out(b)) {
				if s&NEED != 0 {
					bad = true
				}
			}
			// a return of a non-nil error expression directly (return err) in write/writev hard-error path has no append
			c.Check(!bad, f.Name, "return with write interest armed", b.Return.Pos(), "buffer empty, armed, or edge-triggered on this return",
				"in level-triggered mode this return leaves data in the outbound buffer without write interest armed (ModReadWrite): nothing will ever flush it while the peer is merely slow")
		})
	}
	// ModRead only after IsEmpty()==true
	for _, f := range a.v.funcs {
		has := false
		for _, call := range callsIn(f.Decl.Body, false) {
			if flow.IsCall(f.Info, call, a.modR) {
				has = true
			}
		}
		if !has {
			continue
		}
		const fEmpty = 1
		p := &flow.Problem{Must: true}
		p.Node = func(b *flow.Block, i int, n ast.Node, in uint64) uint64 {
			for _, call := range flow.Calls(n) {
				if a.isAppend(f, call) {
					in &^= fEmpty
				}
			}
			return in
		}
		p.Edge = func(e *flow.Edge, in uint64) uint64 {
			if t, empty := a.emptyEdge(f, e); t && empty {
				in |= fEmpty
			}
			return in
		}
		sol := f.Graph().Solve(p)
		sol.Walk(func(b *flow.Block, i int, n ast.Node, before uint64) {
			for _, call := range flow.Calls(n) {
				if flow.IsCall(f.Info, call, a.modR) {
					c.Check(before&fEmpty != 0, f.Name, "ModRead only when the buffer is empty", call.Pos(), "write interest dropped only after the buffer was seen empty",
						"write interest is removed (ModRead) although the outbound buffer may still hold data: the rest is never sent in level-triggered mode")
				}
			}
		})
	}
}

func runC02_6(c *core.Ctx) {
	a := outAnchors(c)
	if a == nil {
		return
	}
	maxv, _ := constant.Int64Val(a.iovMax.Val())
	for _, f := range a.v.funcs {
		var sites []*ast.CallExpr
		for _, call := range callsIn(f.Decl.Body, false) {
			if flow.IsCall(f.Info, call, a.gioWritev) && len(call.Args) == 2 {
				sites = append(sites, call)
			}
		}
		if len(sites) == 0 {
			continue
		}
		for _, site := range sites {
			x := flow.ObjOf(f.Info, site.Args[1])
			if x == nil {
				c.Violate(f.Name, "io.Writev("+exprStr(site.Args[1])+")", site.Pos(), "the iovec argument is not a plain variable; its length cannot be shown ≤ iovMax")
				continue
			}
			const fClamped = 1
			p := &flow.Problem{Must: true}
			p.Node = func(b *flow.Block, i int, n ast.Node, in uint64) uint64 {
				if as, ok := n.(*ast.AssignStmt); ok {
					for k, l := range as.Lhs {
						if flow.ObjOf(f.Info, l) != x {
							continue
						}
						in &^= fClamped
						if len(as.Rhs) == len(as.Lhs) {
							if se, ok := ast.Unparen(as.Rhs[k]).(*ast.SliceExpr); ok && se.High != nil {
								if cv := flow.ConstOf(f.Info, se.High); cv != nil {
									if hv, ok := constant.Int64Val(cv); ok && hv <= maxv {
										in |= fClamped
									}
								}
							}
						}
					}
				}
				return in
			}
			p.Edge = func(e *flow.Edge, in uint64) uint64 {
				if e.Cond == nil || e.Tag != nil {
					return in
				}
				l, r, op, ok := flow.Cmp(e.Cond)
				if !ok {
					return in
				}
				call, isCall := ast.Unparen(l).(*ast.CallExpr)
				if !isCall || len(call.Args) != 1 || flow.ObjOf(f.Info, call.Args[0]) != x {
					return in
				}
				if id, ok := call.Fun.(*ast.Ident); !ok || id.Name != "len" {
					return in
				}
				cv := flow.ConstOf(f.Info, r)
				if cv == nil {
					return in
				}
				k, _ := constant.Int64Val(cv)
				// len(x) > k false  => len(x) <= k ;  len(x) <= k true
				if (op == token.GTR && !e.Sense && k <= maxv) || (op == token.LEQ && e.Sense && k <= maxv) ||
					(op == token.LSS && e.Sense && k <= maxv+1) || (op == token.GEQ && !e.Sense && k <= maxv+1) {
					in |= fClamped
				}
				return in
			}
			sol := f.Graph().Solve(p)
			sol.Walk(func(b *flow.Block, i int, n ast.Node, before uint64) {
				for _, call := range flow.Calls(n) {
					if call == site {
						c.Check(before&fClamped != 0, f.Name, "io.Writev("+exprStr(site.Args[1])+") bounded by iovMax", call.Pos(), "iovec count ≤ iovMax on every path",
							"writev(2) can receive more than iovMax segments: the kernel rejects the call with EINVAL and the connection is closed although nothing is wrong with it", sol.Witness(b, fClamped)...)
					}
				}
			})
		}
	}
}

func isByteSlice(t types.Type) bool {
	sl, ok := t.Underlying().(*types.Slice)
	if !ok {
		return false
	}
	b, ok := sl.Elem().Underlying().(*types.Basic)
	return ok && b.Kind() == types.Uint8
}
