// Package rules holds the gnet-specific rule instances, one file per property.
package rules

import (
	"go/ast"
	"go/token"
	"go/types"
	"golang.org/x/tools/go/ssa"
	"sort"

	"golang.org/x/tools/go/packages"

	"gnetlint/core"
	"gnetlint/flow"
)

var all []*core.Rule

func register(r *core.Rule) { all = append(all, r) }

// For returns the rules of a property in id order.
func For(prop string) []*core.Rule {
	var out []*core.Rule
	for _, r := range all {
		if r.Prop == prop {
			out = append(out, r)
		}
	}
	return out
}

// Props lists the properties that have at least one rule.
func Props() []string {
	seen := map[string]bool{}
	var out []string
	for _, r := range all {
		if !seen[r.Prop] {
			seen[r.Prop] = true
			out = append(out, r.Prop)
		}
	}
	sort.Strings(out)
	return out
}

// PropInfo is the per-property metadata used for evidence and config selection.
type PropInfo struct {
	ID           string
	QuickConfigs []core.Config // in addition to linux/amd64/-
	Explanation  string
	Assumptions  []string
}

var propInfo = map[string]*PropInfo{}

func describe(pi *PropInfo) { propInfo[pi.ID] = pi }

func Info(prop string) *PropInfo {
	if pi := propInfo[prop]; pi != nil {
		return pi
	}
	return &PropInfo{ID: prop}
}

var (
	cfgDefault = core.Config{GOOS: "linux", GOARCH: "amd64"}
	cfgPollOpt = core.Config{GOOS: "linux", GOARCH: "amd64", Tags: "poll_opt"}
	cfgGCOpt   = core.Config{GOOS: "linux", GOARCH: "amd64", Tags: "gc_opt"}
	cfg386     = core.Config{GOOS: "linux", GOARCH: "386"}
	cfgDarwin  = core.Config{GOOS: "darwin", GOARCH: "amd64"}
)

// Matrix is the thorough-tier configuration matrix.
var Matrix = []core.Config{
	cfgDefault, cfgPollOpt, cfgGCOpt,
	{GOOS: "linux", GOARCH: "amd64", Tags: "poll_opt,gc_opt"},
	cfg386,
	{GOOS: "linux", GOARCH: "arm64", Tags: "poll_opt"},
	cfgDarwin,
	{GOOS: "darwin", GOARCH: "amd64", Tags: "poll_opt"},
	{GOOS: "freebsd", GOARCH: "amd64"},
	{GOOS: "netbsd", GOARCH: "amd64"},
}

// ---------------------------------------------------------------------------------------------
// helpers shared by rule files

// fn bundles the syntax, type info and graph of one module function.
type fn struct {
	P    *core.Program
	Obj  *types.Func
	Decl *ast.FuncDecl
	Info *types.Info
	Pkg  *packages.Package
	g    *flow.Graph
	Name string
}

// HostName is the name under which tables of allowed functions know f: its own, or – for an unexported
// function outside the baseline that only one baseline function uses (a piece split off it) – that function's.
func (f *fn) HostName() string {
	if h := core.HostOf(f.Obj); h != nil {
		return core.FuncName(h)
	}
	return f.Name
}

func getFn(c *core.Ctx, rel, name string) *fn {
	obj := c.P.Func(rel, name)
	if obj == nil {
		c.Undecided("anchor", rel+"."+name, token.NoPos, "function not found: "+rel+"."+name)
		return nil
	}
	return fnOf(c, obj)
}

// tryFn is getFn without the Undecided obligation (for functions that exist only in some configs).
func tryFn(c *core.Ctx, rel, name string) *fn {
	obj := c.P.Func(rel, name)
	if obj == nil {
		return nil
	}
	return fnOf(c, obj)
}

func fnOf(c *core.Ctx, obj *types.Func) *fn {
	d := c.P.Decl(obj)
	if d == nil || d.Body == nil {
		c.Undecided("anchor", core.FuncName(obj), token.NoPos, "no body for "+core.FuncName(obj))
		return nil
	}
	pk := c.P.PkgOf(obj.Pkg())
	return &fn{P: c.P, Obj: obj, Decl: d, Info: pk.TypesInfo, Pkg: pk, Name: core.FuncName(obj)}
}

func (f *fn) Graph() *flow.Graph {
	if f.g == nil {
		f.g = flow.New(f.P.Fset, f.Info, f.Decl.Body)
	}
	return f.g
}

// recvVar returns the receiver variable of a method.
func (f *fn) recvVar() *types.Var {
	if f.Decl.Recv == nil || len(f.Decl.Recv.List) == 0 || len(f.Decl.Recv.List[0].Names) == 0 {
		return nil
	}
	v, _ := f.Info.Defs[f.Decl.Recv.List[0].Names[0]].(*types.Var)
	return v
}

// param returns the i-th parameter variable.
func (f *fn) param(i int) *types.Var {
	k := 0
	for _, fl := range f.Decl.Type.Params.List {
		for _, nm := range fl.Names {
			if k == i {
				v, _ := f.Info.Defs[nm].(*types.Var)
				return v
			}
			k++
		}
		if len(fl.Names) == 0 {
			k++
		}
	}
	return nil
}

// litGraph builds the graph of a function literal in the context of f.
func (f *fn) litGraph(fl *ast.FuncLit) *flow.Graph {
	return flow.New(f.P.Fset, f.Info, fl.Body)
}

// allFuncs iterates over every function declaration with a body in the module.
func allFuncs(c *core.Ctx, visit func(f *fn)) {
	for _, pk := range c.P.Pkgs {
		for _, d := range c.P.FuncsOf(pk) {
			obj, _ := pk.TypesInfo.Defs[d.Name].(*types.Func)
			if obj == nil {
				continue
			}
			visit(&fn{P: c.P, Obj: obj, Decl: d, Info: pk.TypesInfo, Pkg: pk, Name: core.FuncName(obj)})
		}
	}
}

// callsIn returns all call expressions inside node n, including those inside function literals
// when deep is true.
func callsIn(n ast.Node, deep bool) []*ast.CallExpr {
	var out []*ast.CallExpr
	ast.Inspect(n, func(x ast.Node) bool {
		if _, ok := x.(*ast.FuncLit); ok && !deep {
			return false
		}
		if c, ok := x.(*ast.CallExpr); ok {
			out = append(out, c)
		}
		return true
	})
	return out
}

func exprStr(e ast.Expr) string { return types.ExprString(e) }

const (
	unixPkg = "golang.org/x/sys/unix"
)

func bit(i uint) uint64 { return 1 << i }

// Nodes0Pos returns the position of the first node of a block (or the function start).
func (f *fn) blockPos(b *flow.Block) token.Pos {
	if len(b.Nodes) > 0 {
		return b.Nodes[0].Pos()
	}
	return f.Decl.Pos()
}

// alias registers rule `target` (of another property) under a new id for a property whose statement depends
// on it: the obligations are re-decided by the same engine and reported under the dependent property as well.
func alias(prop, id, targetID, why string) {
	var target *core.Rule
	for _, r := range all {
		if r.ID == targetID {
			target = r
		}
	}
	if target == nil {
		panic("alias: unknown rule " + targetID)
	}
	register(&core.Rule{ID: id, Prop: prop, MinSites: target.MinSites, Applies: target.Applies,
		Desc: "(= " + targetID + ", " + why + ") " + target.Desc,
		Run: func(c *core.Ctx) {
			sub := &core.Ctx{P: c.P, R: &core.Rule{ID: id, Prop: prop}}
			target.Run(sub)
			c.Obls = append(c.Obls, sub.Obls...)
		}})
}

// straightHelpers returns a resolver for flow.Graph.InlineStraight: calls of functions of the same package
// whose body is at most 6 statements of plain expression/assignment/inc-dec statements.
func straightHelpers(f *fn) func(call *ast.CallExpr) []ast.Stmt {
	return func(call *ast.CallExpr) []ast.Stmt {
		cf := flow.CalleeFunc(f.Info, call)
		if cf == nil || cf.Pkg() != f.Obj.Pkg() {
			return nil
		}
		d := f.P.Decl(cf)
		if d == nil || d.Body == nil || len(d.Body.List) == 0 || len(d.Body.List) > 6 {
			return nil
		}
		for _, st := range d.Body.List {
			switch st.(type) {
			case *ast.ExprStmt, *ast.AssignStmt, *ast.IncDecStmt:
			default:
				return nil
			}
		}
		return d.Body.List
	}
}

// InlinedGraph builds a fresh graph of f with small straight-line helpers of the same package inlined.
func (f *fn) InlinedGraph() *flow.Graph {
	g := flow.New(f.P.Fset, f.Info, f.Decl.Body)
	g.InlineStraight(straightHelpers(f))
	return g
}

// seeThrough follows a local variable that is defined exactly once (`v := e`), never assigned again,
// never incremented and never has its address taken, to its defining expression – the form a rule
// that matches expression shapes wants to see when a maintainer named a sub-expression. Variables
// whose definition mentions another local that is assigned more than once are left alone.
func seeThrough(f *fn, e ast.Expr) ast.Expr {
	for depth := 0; depth < 4; depth++ {
		id, ok := ast.Unparen(e).(*ast.Ident)
		if !ok {
			return ast.Unparen(e)
		}
		v, ok := f.Info.Uses[id].(*types.Var)
		if !ok || v.IsField() || (v.Pkg() != nil && v.Parent() == v.Pkg().Scope()) { // (absorbed helpers' variables have no scope)
			return id
		}
		def := singleDef(f, v)
		if def == nil {
			return id
		}
		stable := true
		ast.Inspect(def, func(n ast.Node) bool {
			if x, ok := n.(*ast.Ident); ok {
				if o, ok := f.Info.Uses[x].(*types.Var); ok && !o.IsField() && (o.Pkg() == nil || o.Parent() != o.Pkg().Scope()) {
					if assignCount(f, o) > 1 {
						stable = false
					}
				}
			}
			return stable
		})
		if !stable {
			return id
		}
		e = def
	}
	return ast.Unparen(e)
}

// seeThroughAt is seeThrough for a use at the statement `at`, and additionally follows a local defined
// once from operands that do change (loop counters: `last := cm.table[row][column]` inside the scan)
// when the definition and the use belong to the same innermost loop (and function literal) and no
// operand is assigned between the two in statement order – the name then still stands for that
// expression at the use.
func seeThroughAt(f *fn, e ast.Expr, at ast.Node) ast.Expr {
	e = seeThrough(f, e)
	id, ok := e.(*ast.Ident)
	if !ok {
		return e
	}
	v, ok := f.Info.Uses[id].(*types.Var)
	if !ok || v.IsField() || (v.Pkg() != nil && v.Parent() == v.Pkg().Scope()) {
		return e
	}
	def := singleDef(f, v)
	if def == nil {
		return e
	}
	operands := map[*types.Var]bool{}
	ast.Inspect(def, func(n ast.Node) bool {
		if x, ok := n.(*ast.Ident); ok {
			if o, ok := f.Info.Uses[x].(*types.Var); ok && !o.IsField() && (o.Pkg() == nil || o.Parent() != o.Pkg().Scope()) && assignCount(f, o) > 1 {
				operands[o] = true
			}
		}
		return true
	})
	ord, defOrd, atOrd := 0, -1, -1
	var defLoop, atLoop ast.Node
	var mods []int
	var stack []ast.Node
	isOperand := func(x ast.Expr) bool {
		xid, ok := ast.Unparen(x).(*ast.Ident)
		if !ok {
			return false
		}
		o, _ := f.Info.Uses[xid].(*types.Var)
		if o == nil {
			o, _ = f.Info.Defs[xid].(*types.Var)
		}
		return o != nil && operands[o]
	}
	loopOf := func() ast.Node {
		for i := len(stack) - 1; i >= 0; i-- {
			switch stack[i].(type) {
			case *ast.ForStmt, *ast.RangeStmt, *ast.FuncLit:
				return stack[i]
			}
		}
		return nil
	}
	ast.Inspect(f.Decl.Body, func(n ast.Node) bool {
		if n == nil {
			stack = stack[:len(stack)-1]
			return true
		}
		ord++
		if n == ast.Node(def) {
			defOrd, defLoop = ord, loopOf()
		}
		if n == at {
			atOrd, atLoop = ord, loopOf()
		}
		switch y := n.(type) {
		case *ast.AssignStmt:
			for _, l := range y.Lhs {
				if isOperand(l) {
					mods = append(mods, ord)
				}
			}
		case *ast.IncDecStmt:
			if isOperand(y.X) {
				mods = append(mods, ord)
			}
		case *ast.UnaryExpr:
			if y.Op == token.AND && isOperand(y.X) {
				mods = append(mods, 0, 1<<30) // address taken: give up
			}
		case *ast.RangeStmt:
			if (y.Key != nil && isOperand(y.Key)) || (y.Value != nil && isOperand(y.Value)) {
				mods = append(mods, ord)
			}
		}
		stack = append(stack, n)
		return true
	})
	if defOrd < 0 || atOrd < 0 || defOrd >= atOrd || defLoop != atLoop {
		return e
	}
	for _, m := range mods {
		if m == 1<<30 || (m > defOrd && m < atOrd) {
			return e
		}
	}
	return ast.Unparen(def)
}

// assignCount counts definitions/assignments/inc-dec/address-taking of a local variable in f
// (parameters count one for their binding).
func assignCount(f *fn, v *types.Var) int {
	n := 0
	is := func(e ast.Expr) bool {
		id, ok := ast.Unparen(e).(*ast.Ident)
		return ok && (f.Info.Uses[id] == types.Object(v) || f.Info.Defs[id] == types.Object(v))
	}
	if f.Decl.Type.Params != nil {
		for _, fl := range f.Decl.Type.Params.List {
			for _, nm := range fl.Names {
				if f.Info.Defs[nm] == types.Object(v) {
					n++
				}
			}
		}
	}
	ast.Inspect(f.Decl.Body, func(x ast.Node) bool {
		switch y := x.(type) {
		case *ast.AssignStmt:
			for _, l := range y.Lhs {
				if is(l) {
					n++
				}
			}
		case *ast.IncDecStmt:
			if is(y.X) {
				n += 2
			}
		case *ast.UnaryExpr:
			if y.Op == token.AND && is(y.X) {
				n += 2
			}
		case *ast.RangeStmt:
			if (y.Key != nil && is(y.Key)) || (y.Value != nil && is(y.Value)) {
				n += 2
			}
		case *ast.ValueSpec:
			for _, nm := range y.Names {
				if f.Info.Defs[nm] == types.Object(v) {
					n++
				}
			}
		}
		return true
	})
	return n
}

// singleDef returns the defining expression of a local variable assigned exactly once.
func singleDef(f *fn, v *types.Var) ast.Expr {
	if assignCount(f, v) != 1 {
		return nil
	}
	var def ast.Expr
	ast.Inspect(f.Decl.Body, func(x ast.Node) bool {
		switch y := x.(type) {
		case *ast.AssignStmt:
			for i, l := range y.Lhs {
				if id, ok := l.(*ast.Ident); ok && (f.Info.Defs[id] == types.Object(v) || f.Info.Uses[id] == types.Object(v)) && len(y.Lhs) == len(y.Rhs) {
					def = y.Rhs[i]
				}
			}
		case *ast.ValueSpec:
			for i, nm := range y.Names {
				if f.Info.Defs[nm] == types.Object(v) && len(y.Values) == len(y.Names) {
					def = y.Values[i]
				}
			}
		}
		return true
	})
	return def
}

// nameOf is the name the rules know an object by: the baseline name for a function or field that
// was renamed consistently (core/rename.go), otherwise its own.
func nameOf(o types.Object) string { return core.CanonName(o) }

// ssaName is nameOf for an SSA function.
func ssaName(fn *ssa.Function) string {
	if fn == nil {
		return ""
	}
	if o := fn.Object(); o != nil {
		return core.CanonName(o)
	}
	return fn.Name()
}
