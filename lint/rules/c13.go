package rules

import (
	"go/ast"
	"go/constant"
	"go/token"
	"go/types"

	"golang.org/x/tools/go/ssa"

	"gnetlint/core"
	"gnetlint/flow"
)

func init() {
	describe(&PropInfo{ID: "C13",
		Explanation: "Decides the program-order obligations of the Michael-Scott queue in pkg/queue: (1) head, tail, node.next and length " +
			"are touched only through sync/atomic (SSA access index over the whole module); (2) nodes are allocated only by Enqueue/the constructor " +
			"and never stored or pooled (ABA freedom is delegated to the GC); (3) on every CFG path of Enqueue/Dequeue a return is preceded, within " +
			"the same retry iteration, by the successful link/head CAS and exactly one length adjustment, and 'empty' is answered only after " +
			"head==tail, next==nil and the head re-validation; (4) the value returned by Dequeue is read from the node that becomes the new head, before the CAS. " +
			"It does not decide linearizability or per-producer FIFO (interleavings are not explored).",
		Assumptions: []string{"sync/atomic operations are sequentially consistent as specified by the Go memory model",
			"the garbage collector never reuses a node that is still referenced (no ABA)"}})

	register(&core.Rule{ID: "C13.1", Prop: "C13", MinSites: 12,
		Desc: "lockFreeQueue.head/tail/length and node.next are accessed only through sync/atomic (or its load/cas wrappers)",
		Run: func(c *core.Ctx) {
			for _, f := range [][2]string{{"lockFreeQueue", "head"}, {"lockFreeQueue", "tail"}, {"lockFreeQueue", "length"}, {"node", "next"}} {
				fld := c.P.Field("pkg/queue", f[0], f[1])
				if !c.Need("queue."+f[0]+"."+f[1], fld) {
					continue
				}
				atomicOnly(c, fld, f[0]+"."+f[1], nil)
			}
		}})

	register(&core.Rule{ID: "C13.2", Prop: "C13", MinSites: 2,
		Desc: "queue nodes are allocated only in Enqueue/NewLockFreeQueue and are never stored in a field, global, pool or interface (no recycling, hence no ABA)",
		Run: func(c *core.Ctx) {
			node := c.P.Named("pkg/queue", "node")
			if !c.Need("queue.node", node) {
				return
			}
			s := c.P.BuildSSA()
			isNodePtr := func(t types.Type) bool {
				p, ok := t.(*types.Pointer)
				return ok && types.Identical(p.Elem(), node)
			}
			for _, fn := range s.ModFuncs {
				for _, b := range fn.Blocks {
					for _, in := range b.Instrs {
						switch v := in.(type) {
						case *ssa.Alloc:
							if types.Identical(v.Type().(*types.Pointer).Elem(), node) {
								top := core.SSAName(core.EnclosingTop(fn))
								ok := top == "(*queue.lockFreeQueue).Enqueue" || top == "queue.NewLockFreeQueue"
								c.Check(ok, core.SSAName(fn), "allocation of queue.node", v.Pos(),
									"node allocated by the producer/constructor", "queue.node allocated outside Enqueue/NewLockFreeQueue (recycled or foreign nodes break ABA freedom)")
							}
						case *ssa.Store:
							if isNodePtr(v.Val.Type()) {
								c.Violate(core.SSAName(fn), "store of *queue.node", v.Pos(), "a *node is stored into memory other than through the CAS helpers (node retention/recycling)")
							}
						case *ssa.MakeInterface:
							if isNodePtr(v.X.Type()) {
								c.Violate(core.SSAName(fn), "*queue.node converted to interface", v.Pos(), "a *node escapes into an interface (pooling/recycling would reintroduce ABA)")
							}
						}
					}
				}
			}
		}})

	register(&core.Rule{ID: "C13.3", Prop: "C13", MinSites: 3,
		Desc: "Enqueue returns only after the successful link CAS and exactly one length+1 in the same retry iteration; Dequeue returns a task only after the successful head CAS and exactly one length-1, and nil only after head==tail, next==nil, head re-validated and no length change",
		Run:  runC13_3})

	register(&core.Rule{ID: "C13.4", Prop: "C13", MinSites: 1,
		Desc: "the task returned by Dequeue is the value field of the node installed as new head, read before the head CAS",
		Run:  runC13_4})
}

// lengthDelta returns the constant delta of atomic.AddInt32(&q.length, k) calls in n, and the number of such calls.
func lengthAdds(f *fn, n ast.Node, length *types.Var) (calls int, deltas []int64) {
	for _, call := range flow.Calls(n) {
		if !flow.IsPkgFunc(f.Info, call, "sync/atomic", "AddInt32") || len(call.Args) != 2 {
			continue
		}
		if flow.FieldOf(f.Info, stripAddr(call.Args[0])) != length {
			continue
		}
		calls++
		if v := flow.ConstOf(f.Info, call.Args[1]); v != nil {
			if k, ok := constant.Int64Val(v); ok {
				deltas = append(deltas, k)
			}
		}
	}
	return
}

func stripAddr(e ast.Expr) ast.Expr {
	if u, ok := ast.Unparen(e).(*ast.UnaryExpr); ok && u.Op == token.AND {
		return u.X
	}
	return e
}

// casOn reports whether cond is a call cas(&X.<field>, ...) / atomic CAS on the given field.
func casOn(f *fn, cond ast.Expr, casFn *types.Func, fld *types.Var) bool {
	call, ok := ast.Unparen(cond).(*ast.CallExpr)
	if !ok || len(call.Args) < 3 {
		return false
	}
	if !flow.IsCall(f.Info, call, casFn) && !flow.IsPkgFunc(f.Info, call, "sync/atomic", "CompareAndSwapPointer") {
		return false
	}
	return flow.FieldOf(f.Info, stripAddr(call.Args[0])) == fld
}

func runC13_3(c *core.Ctx) {
	enq, deq := getFn(c, "pkg/queue", "lockFreeQueue.Enqueue"), getFn(c, "pkg/queue", "lockFreeQueue.Dequeue")
	casFn, loadFn := c.P.Func("pkg/queue", "cas"), c.P.Func("pkg/queue", "load")
	length := c.P.Field("pkg/queue", "lockFreeQueue", "length")
	head := c.P.Field("pkg/queue", "lockFreeQueue", "head")
	next := c.P.Field("pkg/queue", "node", "next")
	if enq == nil || deq == nil || !c.Need("queue.cas", casFn) || !c.Need("queue.load", loadFn) || !c.Need("length", length) ||
		!c.Need("head", head) || !c.Need("next", next) {
		return
	}
	const (
		fLinked = 1 << iota
		fSwung
		fHeadEqTail
		fNextNil
		fReval
	)
	for _, f := range []*fn{enq, deq} {
		g := f.Graph()
		heads := g.LoopHeads()
		// must-facts since the loop head
		p := &flow.Problem{Must: true, Entry: 0}
		p.Node = func(b *flow.Block, i int, n ast.Node, in uint64) uint64 {
			if i == 0 && heads[b] {
				return 0
			}
			return in
		}
		p.Edge = func(e *flow.Edge, in uint64) uint64 {
			if heads[e.To] {
				return 0
			}
			if e.Cond == nil || e.Tag != nil {
				return in
			}
			if e.Sense {
				if casOn(f, e.Cond, casFn, next) {
					in |= fLinked
				}
				if casOn(f, e.Cond, casFn, head) {
					in |= fSwung
				}
				if a, b, op, ok := flow.Cmp(e.Cond); ok && op == token.EQL {
					switch {
					case flow.IsNil(f.Info, b) || flow.IsNil(f.Info, a):
						in |= fNextNil
					case isLoadOf(f, a, loadFn, head) || isLoadOf(f, b, loadFn, head):
						in |= fReval
					default:
						in |= fHeadEqTail
					}
				}
			}
			return in
		}
		sol := g.Solve(p)
		cnt := g.CountEvents(flow.CountOpts{ResetAtLoopHeads: true, Events: func(b *flow.Block, n ast.Node) int {
			k, _ := lengthAdds(f, n, length)
			return k
		}})
		wantDelta := int64(1)
		if f == deq {
			wantDelta = -1
		}
		// all deltas must be the expected constant
		ast.Inspect(f.Decl.Body, func(n ast.Node) bool {
			if st, ok := n.(ast.Stmt); ok {
				if _, isBlock := st.(*ast.BlockStmt); !isBlock {
					if k, ds := lengthAdds(f, st, length); k > 0 {
						okd := len(ds) == k
						for _, d := range ds {
							if d != wantDelta {
								okd = false
							}
						}
						c.Check(okd, f.Name, "delta of length adjustment", st.Pos(), "length adjusted by the expected constant", "length adjusted by an unexpected amount")
						return false
					}
				}
			}
			return true
		})
		sol.AtExit(func(b *flow.Block, facts uint64) {
			cs := cnt.Out(b)
			r := b.Return
			retNil := len(r.Results) == 1 && flow.IsNil(f.Info, r.Results[0])
			switch {
			case f == enq:
				ok := facts&fLinked != 0 && cs == flow.Cnt1
				c.Check(ok, f.Name, "return", r.Pos(), "return dominated by successful link CAS and exactly one length+1",
					"Enqueue can return without the successful link CAS or with length adjusted "+flow.CountSet(cs)+" times", sol.Witness(b, fLinked)...)
			case retNil:
				ok := facts&(fHeadEqTail|fNextNil|fReval) == fHeadEqTail|fNextNil|fReval && cs == flow.Cnt0
				c.Check(ok, f.Name, "return nil (empty)", r.Pos(), "empty answered only after head==tail, next==nil, head re-validated; length untouched",
					"Dequeue can answer 'empty' without head==tail ∧ next==nil ∧ re-validated head, or after touching length "+flow.CountSet(cs))
			default:
				ok := facts&(fSwung|fReval) == fSwung|fReval && cs == flow.Cnt1
				c.Check(ok, f.Name, "return task", r.Pos(), "task returned only after the successful head CAS and exactly one length-1",
					"Dequeue can return a task without the successful head CAS or with length adjusted "+flow.CountSet(cs)+" times")
			}
		})
	}
}

func isLoadOf(f *fn, e ast.Expr, loadFn *types.Func, fld *types.Var) bool {
	call, ok := ast.Unparen(e).(*ast.CallExpr)
	if !ok || len(call.Args) != 1 || !flow.IsCall(f.Info, call, loadFn) {
		return false
	}
	return flow.FieldOf(f.Info, stripAddr(call.Args[0])) == fld
}

// defOf finds the single defining expression of local variable v in body (v := e); nil if not unique.
func defOf(info *types.Info, body ast.Node, v types.Object) ast.Expr {
	var def ast.Expr
	n := 0
	ast.Inspect(body, func(x ast.Node) bool {
		as, ok := x.(*ast.AssignStmt)
		if !ok {
			return true
		}
		for i, l := range as.Lhs {
			id, ok := l.(*ast.Ident)
			if !ok {
				continue
			}
			o := info.Defs[id]
			if o == nil {
				o = info.Uses[id]
			}
			if o == v {
				n++
				if len(as.Lhs) == len(as.Rhs) {
					def = as.Rhs[i]
				} else {
					def = nil
				}
			}
		}
		return true
	})
	if n != 1 {
		return nil
	}
	return def
}

func runC13_4(c *core.Ctx) {
	f := getFn(c, "pkg/queue", "lockFreeQueue.Dequeue")
	casFn, loadFn := c.P.Func("pkg/queue", "cas"), c.P.Func("pkg/queue", "load")
	head := c.P.Field("pkg/queue", "lockFreeQueue", "head")
	next := c.P.Field("pkg/queue", "node", "next")
	value := c.P.Field("pkg/queue", "node", "value")
	if f == nil || !c.Need("cas", casFn) || !c.Need("load", loadFn) || !c.Need("head", head) || !c.Need("next", next) || !c.Need("value", value) {
		return
	}
	// find the head CAS
	var casCall *ast.CallExpr
	for _, call := range callsIn(f.Decl.Body, false) {
		if casOn(f, call, casFn, head) {
			casCall = call
		}
	}
	if casCall == nil {
		c.Violate(f.Name, "head CAS", f.Decl.Pos(), "no CAS on q.head found in Dequeue")
		return
	}
	oldObj, newObj := flow.ObjOf(f.Info, casCall.Args[1]), flow.ObjOf(f.Info, casCall.Args[2])
	for _, b := range f.Graph().Exits() {
		r := b.Return
		if len(r.Results) != 1 || flow.IsNil(f.Info, r.Results[0]) {
			continue
		}
		res := flow.ObjOf(f.Info, r.Results[0])
		ok := false
		why := "returned value is not a local defined as <new head>.value"
		if res != nil {
			if d := defOf(f.Info, f.Decl.Body, res); d != nil {
				if sel, isSel := ast.Unparen(d).(*ast.SelectorExpr); isSel && flow.FieldOf(f.Info, sel) == value &&
					flow.ObjOf(f.Info, sel.X) == newObj && newObj != nil {
					// new head must be load(&old.next), old = load(&q.head), and the read precedes the CAS
					nd := defOf(f.Info, f.Decl.Body, newObj)
					od := defOf(f.Info, f.Decl.Body, oldObj)
					okNew := nd != nil && isLoadNextOf(f, nd, loadFn, next, oldObj)
					okOld := od != nil && isLoadOf(f, od, loadFn, head)
					switch {
					case !okNew:
						why = "the CAS's new head is not load(&<old head>.next)"
					case !okOld:
						why = "the CAS's expected head is not load(&q.head)"
					case d.Pos() > casCall.Pos():
						why = "value is read after the head CAS (the node may already be recycled by another dequeuer)"
					default:
						ok = true
					}
				}
			}
		}
		c.Check(ok, f.Name, "returned task", r.Pos(), "returned task = new-head.value read before the CAS", why)
	}
}

func isLoadNextOf(f *fn, e ast.Expr, loadFn *types.Func, next *types.Var, base types.Object) bool {
	call, ok := ast.Unparen(e).(*ast.CallExpr)
	if !ok || len(call.Args) != 1 || !flow.IsCall(f.Info, call, loadFn) {
		return false
	}
	sel, ok := ast.Unparen(stripAddr(call.Args[0])).(*ast.SelectorExpr)
	return ok && flow.FieldOf(f.Info, sel) == next && flow.ObjOf(f.Info, sel.X) == base && base != nil
}

func init() {
	register(&core.Rule{ID: "C13.5", Prop: "C13", MinSites: 5,
		Desc: "the compare-and-swaps move the right pointers (Michael–Scott shape): a CAS on q.tail expects the tail that was loaded and installs the node loaded from that tail's next (helping) or the node this call just linked; a CAS on q.head expects the loaded head, installs the node loaded from that head's next, and its outcome is tested (exactly one per Dequeue: a head that moves without the value being returned loses a task); a CAS on a node's next links the fresh node behind the loaded tail; head, tail and next are never written by a plain atomic store outside the constructor; the fresh node carries the task that was passed in",
		Run:  runC13_5})
}

func runC13_5(c *core.Ctx) {
	enq, deq := getFn(c, "pkg/queue", "lockFreeQueue.Enqueue"), getFn(c, "pkg/queue", "lockFreeQueue.Dequeue")
	casFn, loadFn := c.P.Func("pkg/queue", "cas"), c.P.Func("pkg/queue", "load")
	head := c.P.Field("pkg/queue", "lockFreeQueue", "head")
	tail := c.P.Field("pkg/queue", "lockFreeQueue", "tail")
	next := c.P.Field("pkg/queue", "node", "next")
	value := c.P.Field("pkg/queue", "node", "value")
	if enq == nil || deq == nil || !c.Need("queue.cas", casFn) || !c.Need("queue.load", loadFn) || !c.Need("head", head) || !c.Need("tail", tail) || !c.Need("next", next) || !c.Need("value", value) {
		return
	}
	for _, f := range []*fn{enq, deq} {
		isCAS := func(call *ast.CallExpr) bool {
			return len(call.Args) == 3 && (flow.IsCall(f.Info, call, casFn) || flow.IsPkgFunc(f.Info, call, "sync/atomic", "CompareAndSwapPointer"))
		}
		// what a local was loaded from: (field, base object) of load(&base.field)
		loadedFrom := func(e ast.Expr) (*types.Var, types.Object) {
			o := flow.ObjOf(f.Info, e)
			if o == nil {
				return nil, nil
			}
			d := defOf(f.Info, f.Decl.Body, o)
			if d == nil {
				return nil, nil
			}
			call, ok := ast.Unparen(d).(*ast.CallExpr)
			if !ok || len(call.Args) != 1 || !flow.IsCall(f.Info, call, loadFn) {
				return nil, nil
			}
			sel, ok := ast.Unparen(stripAddr(call.Args[0])).(*ast.SelectorExpr)
			if !ok {
				return nil, nil
			}
			return flow.FieldOf(f.Info, sel), flow.ObjOf(f.Info, sel.X)
		}
		// the fresh node of Enqueue
		var fresh types.Object
		if f == enq {
			ast.Inspect(f.Decl.Body, func(n ast.Node) bool {
				if as, ok := n.(*ast.AssignStmt); ok && len(as.Lhs) == 1 && len(as.Rhs) == 1 {
					r := ast.Unparen(as.Rhs[0])
					if ue, ok := r.(*ast.UnaryExpr); ok && ue.Op == token.AND {
						if cl, ok := ast.Unparen(ue.X).(*ast.CompositeLit); ok {
							if tn, ok := f.Info.TypeOf(cl).(*types.Named); ok && tn.Obj().Name() == "node" {
								fresh = flow.ObjOf(f.Info, as.Lhs[0])
								carries := false
								for _, el := range cl.Elts {
									if kv, ok := el.(*ast.KeyValueExpr); ok {
										if id, ok := kv.Key.(*ast.Ident); ok && f.Info.Uses[id] == types.Object(value) && flow.ObjOf(f.Info, kv.Value) == types.Object(f.param(0)) {
											carries = true
										}
									}
								}
								if !carries && len(cl.Elts) == 1 {
									if _, isKV := cl.Elts[0].(*ast.KeyValueExpr); !isKV && flow.ObjOf(f.Info, cl.Elts[0]) == types.Object(f.param(0)) {
										carries = true
									}
								}
								c.Check(carries, f.Name, "fresh node carries the task", cl.Pos(), "value: the parameter", "the node Enqueue links does not carry the task it was given: a dequeuer receives nil (or another task) for it")
							}
						}
					}
				}
				return true
			})
			if fresh == nil {
				// n := new(node); n.value = task
				ast.Inspect(f.Decl.Body, func(n ast.Node) bool {
					if as, ok := n.(*ast.AssignStmt); ok && len(as.Lhs) == 1 && len(as.Rhs) == 1 {
						if call, ok := ast.Unparen(as.Rhs[0]).(*ast.CallExpr); ok && len(call.Args) == 1 {
							if id, ok := call.Fun.(*ast.Ident); ok && id.Name == "new" {
								if pt, ok := f.Info.TypeOf(call).(*types.Pointer); ok {
									if tn, ok := pt.Elem().(*types.Named); ok && tn.Obj().Name() == "node" {
										fresh = flow.ObjOf(f.Info, as.Lhs[0])
									}
								}
							}
						}
					}
					return true
				})
				if fresh != nil {
					carries := false
					ast.Inspect(f.Decl.Body, func(n ast.Node) bool {
						if as, ok := n.(*ast.AssignStmt); ok && len(as.Lhs) == len(as.Rhs) {
							for i, l := range as.Lhs {
								if sel, ok := ast.Unparen(l).(*ast.SelectorExpr); ok && flow.FieldOf(f.Info, sel) == value && flow.ObjOf(f.Info, sel.X) == fresh && flow.ObjOf(f.Info, as.Rhs[i]) == types.Object(f.param(0)) {
									carries = true
								}
							}
						}
						return true
					})
					c.Check(carries, f.Name, "fresh node carries the task", f.Decl.Pos(), "value: the parameter", "the node Enqueue links does not carry the task it was given: a dequeuer receives nil (or another task) for it")
				}
			}
			if fresh == nil {
				c.Violate(f.Name, "fresh node carries the task", f.Decl.Pos(), "Enqueue allocates no node")
			}
		}
		// must-facts: the link CAS succeeded on this path; the loaded head and the loaded tail are the same node
		const (
			fLinked = 1 << iota
			fHeadIsTail
		)
		p := &flow.Problem{Must: true}
		p.Edge = func(e *flow.Edge, in uint64) uint64 {
			if e.Cond != nil && e.Tag == nil && e.Sense {
				if call, ok := ast.Unparen(e.Cond).(*ast.CallExpr); ok && isCAS(call) && flow.FieldOf(f.Info, stripAddr(call.Args[0])) == next {
					in |= fLinked
				}
			}
			if l, r, eq, ok := flow.Equality(e); ok && eq {
				lf, lb := loadedFrom(l)
				rf, rb := loadedFrom(r)
				if lb != nil && rb != nil && lb == rb && ((lf == head && rf == tail) || (lf == tail && rf == head)) {
					in |= fHeadIsTail
				}
			}
			return in
		}
		sol := f.Graph().Solve(p)
		discarded := map[*ast.CallExpr]bool{}
		ast.Inspect(f.Decl.Body, func(n ast.Node) bool {
			if es, ok := n.(*ast.ExprStmt); ok {
				if call, ok := ast.Unparen(es.X).(*ast.CallExpr); ok {
					discarded[call] = true
				}
			}
			return true
		})
		k, headCAS := 0, 0
		sol.Walk(func(b *flow.Block, i int, n ast.Node, before uint64) {
			for _, call := range flow.Calls(n) {
				if flow.IsPkgFunc(f.Info, call, "sync/atomic", "StorePointer") || flow.IsPkgFunc(f.Info, call, "sync/atomic", "SwapPointer") {
					k++
					c.Violate(f.Name, "pointer update #"+itoa(k), call.Pos(), "head/tail/next is written by an unconditional atomic store: unlike a compare-and-swap it can move the pointer backwards over a concurrent update (nodes are skipped or served twice)")
					continue
				}
				if !isCAS(call) {
					continue
				}
				k++
				target := ast.Unparen(stripAddr(call.Args[0]))
				fld := flow.FieldOf(f.Info, target)
				oldFld, oldBase := loadedFrom(call.Args[1])
				newFld, newBase := loadedFrom(call.Args[2])
				oldObj := flow.ObjOf(f.Info, call.Args[1])
				good, why := false, ""
				switch fld {
				case tail:
					helping := newFld == next && newBase == oldObj && oldObj != nil
					if !helping && newFld == next && newBase != nil && before&fHeadIsTail != 0 {
						// Dequeue's help: next was loaded from the head, which is the tail on this path
						if d := defOf(f.Info, f.Decl.Body, newBase); d != nil && isLoadOf(f, d, loadFn, head) {
							helping = true
						}
					}
					afterLink := fresh != nil && flow.ObjOf(f.Info, call.Args[2]) == fresh && before&fLinked != 0
					good = oldFld == tail && (helping || afterLink)
					why = "a CAS on q.tail must expect the loaded tail and install the node loaded from that tail's next, or the node this call has just linked: otherwise the tail can point at a node that is not in the list, and everything enqueued behind it is lost"
				case head:
					headCAS++
					good = oldFld == head && newFld == next && newBase == oldObj && oldObj != nil && !discarded[call]
					why = "a CAS on q.head must expect the loaded head, install the node loaded from that head's next, and have its outcome tested: a head that is advanced without the value being handed out loses that task"
				case next:
					sel, _ := target.(*ast.SelectorExpr)
					var baseObj types.Object
					if sel != nil {
						baseObj = flow.ObjOf(f.Info, sel.X)
					}
					bf, _ := loadedFrom(sel.X)
					okOld := flow.IsNil(f.Info, call.Args[1]) || (oldFld == next && oldBase == baseObj)
					good = sel != nil && bf == tail && okOld && fresh != nil && flow.ObjOf(f.Info, call.Args[2]) == fresh
					why = "the link CAS must hang the fresh node behind the loaded tail (expecting the next that was loaded from it): otherwise a node is linked in the middle of the list or an existing successor is overwritten"
				default:
					why = "a compare-and-swap on something other than q.head, q.tail or a node's next"
				}
				c.Check(good, f.Name, "CAS #"+itoa(k)+" on "+exprStr(target), call.Pos(), "operands as in the Michael–Scott queue", why)
			}
		})
		if f == deq {
			c.Check(headCAS == 1, f.Name, "one head CAS", f.Decl.Pos(), "the head moves at one place, where the value is returned", "Dequeue has "+itoa(headCAS)+" compare-and-swaps on q.head: every advance of the head must be the one whose success returns the value read from the new head")
		}
	}
}
