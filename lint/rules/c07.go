package rules

import (
	"gnetlint/core"
)

func init() {
	register(&core.Rule{ID: "C07.3", Prop: "C07", MinSites: 12,
		Desc: "conn typestate: every syscall/poller call taking c.fd or &c.pollAttachment runs while c is known open on all paths (no may-close point since the last liveness fact) and never after unix.Close(c.fd)",
		Run: func(c *core.Ctx) { runConnState(c, "fd") }})
}
