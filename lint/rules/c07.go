package rules

import (
	"go/ast"
	"go/token"
	"go/types"
	"strings"

	"gnetlint/core"
	"gnetlint/flow"
)

func init() {
	describe(&PropInfo{ID: "C07", QuickConfigs: []core.Config{cfgPollOpt},
		Explanation: "Decides acquire/transfer/close pairing and the closed list of close sites: (1) every descriptor acquired into a local of package gnet " +
			"(socket.Accept, socket.Dup) is, on every CFG path, closed, handed to a conn constructor or returned before the function returns, and never closed twice; " +
			"socket constructors register their error-path closer right after the acquisition; (2) unix.Close is called only from an enumerated table of owner functions and " +
			"Poller.Close only from engine teardown / constructor failure paths; (3) conn typestate: no syscall or poller call takes c.fd/&c.pollAttachment after a point where user code " +
			"or close may have closed the connection, or after unix.Close(c.fd); (4) Dup results are returned, never stored; (5) on a registry miss only the listener dispatch and " +
			"poller.Delete touch the event's fd; (6) poller.Delete(c.fd) precedes unix.Close(c.fd), listener.close unlinks unix sockets inside its Once; (7) Poller.Close never " +
			"dereferences a pointer field that OpenPoller has not assigned yet at the failure call sites. fd-number reuse races between goroutines and stale events inside one epoll batch are not decided.",
		Assumptions: []string{"the kernel closes a descriptor exactly when close(2) is called on it; numbers are reused lowest-first",
			"user code does not close framework descriptors behind its back"}})

	register(&core.Rule{ID: "C07.1", Prop: "C07", MinSites: 6,
		Desc: "fd typestate: a descriptor acquired by socket.Accept/socket.Dup into a local is closed, handed to a conn constructor or returned on every path to a return, and never closed twice; socket constructors register a deferred closer guarded by the error result immediately after sysSocket succeeds",
		Run:  runC07_1})
	register(&core.Rule{ID: "C07.2", Prop: "C07", MinSites: 10,
		Desc: "who-may-close: unix.Close is called only from the owner table; Poller.Close only from closeEventLoops and constructor/start failure paths",
		Run:  runC07_2})
	register(&core.Rule{ID: "C07.3", Prop: "C07", MinSites: 12,
		Desc: "conn typestate: every syscall/poller call taking c.fd or &c.pollAttachment runs while c is known open on all paths (no may-close point since the last liveness fact) and never after unix.Close(c.fd)",
		Run:  func(c *core.Ctx) { runConnState(c, "fd") }})
	register(&core.Rule{ID: "C07.4", Prop: "C07", MinSites: 2,
		Desc: "descriptors duplicated for the user (Conn.Dup, listener dup) are returned directly and never stored or closed by the framework",
		Run:  runC07_4})
	register(&core.Rule{ID: "C07.5", Prop: "C07", MinSites: 2, Applies: func(c core.Config) bool { return !c.HasTag("poll_opt") },
		Desc: "stale-event guard: when the registry has no conn for the event's fd, the only calls receiving that fd are the listener dispatch and poller.Delete",
		Run:  runC07_5})
	register(&core.Rule{ID: "C07.6", Prop: "C07", MinSites: 2,
		Desc: "poller.Delete(c.fd) is evaluated before unix.Close(c.fd); listener.close runs under its sync.Once, closes the fd and removes the socket file of unix listeners",
		Run:  runC07_6})
	register(&core.Rule{ID: "C07.7", Prop: "C07", MinSites: 1,
		Desc: "constructor-failure safety: at every poller.Close() inside OpenPoller, each pointer field that Close dereferences without a nil test has been assigned",
		Run:  runC07_7})
}

func runC07_1(c *core.Ctx) {
	v := vocabOf(c)
	if v == nil {
		return
	}
	for _, f := range v.funcs {
		type unit struct {
			name string
			body *ast.BlockStmt
		}
		units := []unit{{f.Name, f.Decl.Body}}
		k := 0
		ast.Inspect(f.Decl.Body, func(n ast.Node) bool {
			if fl, ok := n.(*ast.FuncLit); ok {
				k++
				units = append(units, unit{f.Name + "$lit" + string(rune('0'+k)), fl.Body})
			}
			return true
		})
		for _, u := range units {
			g := flow.New(c.P.Fset, f.Info, u.body)
			for _, src := range findFdSources(f.Info, g) {
				for _, is := range analyseFd(c, v, f, g, src) {
					c.Check(is.ok, u.name, src.what+" into "+src.v.Name()+": "+is.construct, is.pos, "descriptor closed, handed over or returned on this path", is.msg)
				}
			}
		}
	}
	// socket constructors: deferred closer registered right after sysSocket
	sysSocket := c.P.Func("pkg/socket", "sysSocket")
	if !c.Need("socket.sysSocket", sysSocket) {
		return
	}
	for _, pk := range c.P.Pkgs {
		if pk != c.P.Pkg("pkg/socket") {
			continue
		}
		for _, d := range c.P.FuncsOf(pk) {
			obj, _ := pk.TypesInfo.Defs[d.Name].(*types.Func)
			f := &fn{P: c.P, Obj: obj, Decl: d, Info: pk.TypesInfo, Pkg: pk, Name: core.FuncName(obj)}
			var acq *ast.CallExpr
			for _, call := range callsIn(d.Body, false) {
				if flow.IsCall(f.Info, call, sysSocket) {
					acq = call
				}
			}
			if acq == nil {
				continue
			}
			g := f.Graph()
			// the deferred closer
			var closerDefer *ast.DeferStmt
			var fdVar types.Object
			ast.Inspect(d.Body, func(n ast.Node) bool {
				if as, ok := n.(*ast.AssignStmt); ok && len(as.Rhs) == 1 && ast.Unparen(as.Rhs[0]) == ast.Expr(acq) {
					fdVar = flow.ObjOf(f.Info, as.Lhs[0])
				}
				return true
			})
			errRes := namedErrResult(f)
			for _, ds := range g.Defers {
				fl, ok := ds.Call.Fun.(*ast.FuncLit)
				if !ok {
					continue
				}
				lg := f.litGraph(fl)
				const fErr = 1
				p := &flow.Problem{Must: true}
				p.Edge = func(e *flow.Edge, in uint64) uint64 {
					if e.Cond != nil && e.Tag == nil {
						if x, y, op, ok := flow.Cmp(e.Cond); ok && flow.IsNil(f.Info, y) && errRes != nil && (flow.ObjOf(f.Info, x) == errRes || copyOfInside(f, fl, x) == errRes) {
							if (op == token.NEQ && e.Sense) || (op == token.EQL && !e.Sense) {
								in |= fErr
							}
						}
					}
					return in
				}
				sol := lg.Solve(p)
				sol.Walk(func(b *flow.Block, i int, n ast.Node, before uint64) {
					for _, call := range flow.Calls(n) {
						if flow.IsPkgFunc(f.Info, call, unixPkg, "Close") && len(call.Args) == 1 && flow.ObjOf(f.Info, call.Args[0]) == fdVar && fdVar != nil {
							if before&fErr != 0 {
								closerDefer = ds
							}
						}
					}
				})
			}
			if closerDefer == nil && fdVar != nil && errRes != nil {
				// no deferred closer: then every return that follows a failed step closes the socket explicitly
				// (or is the EINPROGRESS case of a non-blocking connect, which the caller completes)
				const (
					sNone = iota
					sAcq
					sHeld
					sFailed
					sClosed
				)
				var acqStmt ast.Node
				ast.Inspect(d.Body, func(n ast.Node) bool {
					if as, ok := n.(*ast.AssignStmt); ok && len(as.Rhs) == 1 && ast.Unparen(as.Rhs[0]) == ast.Expr(acq) {
						acqStmt = as
					}
					return true
				})
				isErr := func(e ast.Expr) bool { return flow.ObjOf(f.Info, e) == errRes }
				au := &flow.Auto{Start: sNone}
				au.Node = func(b *flow.Block, i int, n ast.Node, st int) int {
					if n == acqStmt {
						return sAcq
					}
					for _, call := range flow.Calls(n) {
						if flow.IsPkgFunc(f.Info, call, unixPkg, "Close") && len(call.Args) == 1 && flow.ObjOf(f.Info, call.Args[0]) == fdVar && st == sFailed {
							st = sClosed
						}
					}
					if as, ok := n.(*ast.AssignStmt); ok && (st == sFailed || st == sClosed) {
						for _, l := range as.Lhs {
							if isErr(l) && st == sFailed {
								return sFailed // the failure is re-labelled (err = os.NewSyscallError(…)), not cleared
							}
						}
					}
					return st
				}
				au.Edge = func(e *flow.Edge, st int) int {
					if e.Cond == nil || e.Tag != nil {
						return st
					}
					if x, y, op, ok := flow.Cmp(e.Cond); ok && flow.IsNil(f.Info, y) && isErr(x) {
						failed := (op == token.NEQ) == e.Sense
						switch st {
						case sAcq:
							if failed {
								return sNone
							}
							return sHeld
						case sHeld:
							if failed {
								return sFailed
							}
						}
						return st
					}
					if call, ok := ast.Unparen(e.Cond).(*ast.CallExpr); ok && flow.IsPkgFunc(f.Info, call, "errors", "Is") && len(call.Args) == 2 && e.Sense && st == sFailed {
						if o := flow.ObjOf(f.Info, call.Args[1]); o != nil && o.Name() == "EINPROGRESS" {
							return sHeld
						}
					}
					return st
				}
				sol := g.Run(au)
				var bad token.Pos
				sol.AtExit(func(b *flow.Block, _ uint64) {
					if sol.Out(b)&(1<<sFailed|1<<sAcq) != 0 && bad == token.NoPos {
						bad = b.Return.Pos()
					}
				})
				at := acq.Pos()
				if bad != token.NoPos {
					at = bad
				}
				c.Check(bad == token.NoPos, f.Name, "deferred closer after sysSocket", at, "no deferred closer: every return after a failed step closes the socket explicitly",
					"no deferred function closes the new socket under `err != nil`, and a return is reachable after a failed step without unix.Close("+fdVar.Name()+"): the socket leaks")
				continue
			}
			if closerDefer == nil || fdVar == nil {
				c.Violate(f.Name, "deferred closer after sysSocket", acq.Pos(), "no deferred function closes the new socket under `err != nil`: every later error return leaks it")
				continue
			}
			// every return after the acquisition succeeded is dominated by the defer registration
			const (
				fAcq = 1 << iota
				fDefer
			)
			p := &flow.Problem{Must: false}
			p.Node = func(b *flow.Block, i int, n ast.Node, in uint64) uint64 {
				if n == ast.Node(closerDefer) {
					return in | fDefer
				}
				return in
			}
			// may-problem on "acquired and defer not yet registered": use an automaton instead
			au := &flow.Auto{Start: 0}
			au.Node = func(b *flow.Block, i int, n ast.Node, s int) int {
				for _, call := range flow.Calls(n) {
					if call == acq {
						s |= fAcq
					}
				}
				if n == ast.Node(closerDefer) {
					s |= fDefer
				}
				return s
			}
			au.Edge = func(e *flow.Edge, s int) int {
				// the failure edge of the acquisition itself holds nothing
				if s&fAcq != 0 && s&fDefer == 0 && e.Cond != nil && e.Tag == nil {
					if x, y, op, ok := flow.Cmp(e.Cond); ok && flow.IsNil(f.Info, y) && flow.ObjOf(f.Info, x) == errRes {
						if (op == token.NEQ && e.Sense) || (op == token.EQL && !e.Sense) {
							return 0
						}
					}
				}
				return s
			}
			sol := g.Run(au)
			sol.AtExit(func(b *flow.Block, _ uint64) {
				bad := false
				for _, s := range flow.States(sol.Out(b)) {
					if s&fAcq != 0 && s&fDefer == 0 {
						bad = true
					}
				}
				c.Check(!bad, f.Name, "return after sysSocket", b.Return.Pos(), "closer registered before this return",
					"this return is reachable after sysSocket succeeded but before the deferred closer is registered: the socket leaks on this path")
			})
		}
	}
}

func namedErrResult(f *fn) types.Object {
	if f.Decl.Type.Results == nil {
		return nil
	}
	for _, fl := range f.Decl.Type.Results.List {
		for _, nm := range fl.Names {
			if o := f.Info.Defs[nm]; o != nil && isErrorType(o.Type()) {
				return o
			}
		}
	}
	return nil
}

// closeOwners: functions (any config) allowed to call unix.Close, with the reason.
var closeOwners = map[string]string{
	"gnet.(*eventloop).close":      "the single close path of a registered connection (behind its stale guard)",
	"gnet.(*eventloop).register0":  "registration failed: the conn never became visible",
	"gnet.(*eventloop).accept0":    "hand-over to the target loop failed",
	"gnet.(*listener).close":       "listener teardown under closeOnce",
	"gnet.(*Client).EnrollContext": "duplicated descriptor not yet owned by a conn (error paths)",
	"gnet.(*eventloop).enroll":     "duplicated descriptor not yet owned by a conn (error paths)",
	"netpoll.(*Poller).Close":      "poller teardown",
	"socket.tcpSocket":             "constructor failure closer",
	"socket.udpSocket":             "constructor failure closer",
	"socket.udsSocket":             "constructor failure closer",
	"socket.sysSocket":             "SetNonblock failed on a socket nobody has seen yet",
	"socket.sysAccept":             "SetNonblock failed on a socket nobody has seen yet",
}

var pollerCloseCallers = map[string]string{
	"gnet.(*engine).closeEventLoops":  "engine teardown after all loops were joined",
	"netpoll.OpenPoller":              "constructor failure",
	"gnet.(*engine).runEventLoops":    "start-up failure of an event loop that is not registered (and hence never started) yet",
	"gnet.(*engine).activateReactors": "start-up failure of the main reactor before it is attached to the engine",
}

func runC07_2(c *core.Ctx) {
	pollerClose := c.P.Func("pkg/netpoll", "Poller.Close")
	if !c.Need("Poller.Close", pollerClose) {
		return
	}
	allFuncs(c, func(f *fn) {
		for _, call := range callsIn(f.Decl.Body, true) {
			if flow.IsPkgFunc(f.Info, call, unixPkg, "Close") || flow.IsPkgFunc(f.Info, call, "syscall", "Close") {
				why, ok := closeOwners[f.HostName()]
				arg := ""
				if len(call.Args) == 1 {
					arg = exprStr(call.Args[0])
				}
				c.Check(ok, f.Name, "unix.Close("+arg+")", call.Pos(), "owner: "+why,
					"unix.Close is called from a function that is not in the table of descriptor owners: a second close path makes double close / close of a reused number possible")
			}
			if flow.IsCall(f.Info, call, pollerClose) {
				why, ok := pollerCloseCallers[f.HostName()]
				c.Check(ok, f.Name, "Poller.Close()", call.Pos(), "allowed: "+why,
					"Poller.Close is called outside engine teardown / constructor failure: a loop may still be polling the descriptor")
			}
		}
	})
	// closeEventLoops is reached only after Wait() (or on start failure before any loop ran / client stop)
	cel := c.P.Func("", "engine.closeEventLoops")
	if !c.Need("closeEventLoops", cel) {
		return
	}
	allFuncs(c, func(f *fn) {
		if f.Pkg != c.P.Pkg("") {
			return
		}
		for _, call := range callsIn(f.Decl.Body, true) {
			if !flow.IsCall(f.Info, call, cel) {
				continue
			}
			switch f.Name {
			case "gnet.(*engine).stop", "gnet.(*Client).Stop":
				// must be after concurrency.Wait()
				const fWaited = 1
				p := &flow.Problem{Must: true}
				p.Node = func(b *flow.Block, i int, n ast.Node, in uint64) uint64 {
					for _, cl := range flow.Calls(n) {
						if cf := flow.CalleeFunc(f.Info, cl); cf != nil && nameOf(cf) == "Wait" && cf.Pkg() != nil && strings.HasSuffix(cf.Pkg().Path(), "errgroup") {
							in |= fWaited
						}
					}
					return in
				}
				sol := f.Graph().Solve(p)
				sol.Walk(func(b *flow.Block, i int, n ast.Node, before uint64) {
					for _, cl := range flow.Calls(n) {
						if cl == call {
							c.Check(before&fWaited != 0, f.Name, "closeEventLoops after Wait", cl.Pos(), "pollers and listeners are closed only after every loop goroutine was joined",
								"pollers/listeners can be closed while event loops are still running (Wait() does not dominate closeEventLoops)")
						}
					}
				})
			case "gnet.run", "gnet.(*Client).Start":
				c.Ok(f.Name, "closeEventLoops on start failure", call.Pos(), "start failed: allowed teardown of partially built loops")
			default:
				c.Violate(f.Name, "closeEventLoops", call.Pos(), "closeEventLoops is called from an unexpected place")
			}
		}
	})
}

func runC07_4(c *core.Ctx) {
	dup := c.P.Func("pkg/socket", "Dup")
	if !c.Need("socket.Dup", dup) {
		return
	}
	enrollers := map[string]bool{"gnet.(*Client).EnrollContext": true, "gnet.(*eventloop).enroll": true}
	allFuncs(c, func(f *fn) {
		if f.Pkg != c.P.Pkg("") || enrollers[f.Name] {
			return
		}
		// parent map for return detection
		parent := map[ast.Node]ast.Node{}
		var stack []ast.Node
		ast.Inspect(f.Decl.Body, func(n ast.Node) bool {
			if n == nil {
				stack = stack[:len(stack)-1]
				return true
			}
			if len(stack) > 0 {
				parent[n] = stack[len(stack)-1]
			}
			stack = append(stack, n)
			return true
		})
		for _, call := range callsIn(f.Decl.Body, true) {
			if !flow.IsCall(f.Info, call, dup) {
				continue
			}
			_, isRet := parent[call].(*ast.ReturnStmt)
			c.Check(isRet, f.Name, "socket.Dup result", call.Pos(), "duplicate handed straight to the caller",
				"a descriptor duplicated for the user is kept in a variable/field instead of being returned directly: the framework could later close or use a descriptor the user owns")
		}
	})
}

func runC07_5(c *core.Ctx) {
	v := vocabOf(c)
	if v == nil {
		return
	}
	polling := c.P.Func("pkg/netpoll", "Poller.Polling")
	del := c.P.Func("pkg/netpoll", "Poller.Delete")
	accept := c.P.Func("", "eventloop.accept")
	if !c.Need("Polling", polling) || !c.Need("Delete", del) || !c.Need("accept", accept) {
		return
	}
	for _, name := range []string{"eventloop.run", "eventloop.orbit"} {
		f := getFn(c, "", name)
		if f == nil {
			continue
		}
		for _, call := range callsIn(f.Decl.Body, false) {
			if !flow.IsCall(f.Info, call, polling) || len(call.Args) != 1 {
				continue
			}
			fl, ok := ast.Unparen(call.Args[0]).(*ast.FuncLit)
			if !ok {
				// a method value or function name: the callback was given a name – its declaration is the literal
				var cb *types.Func
				switch a := ast.Unparen(call.Args[0]).(type) {
				case *ast.SelectorExpr:
					if sel, ok := f.Info.Selections[a]; ok && sel.Kind() == types.MethodVal {
						cb, _ = sel.Obj().(*types.Func)
					}
				case *ast.Ident:
					cb, _ = f.Info.Uses[a].(*types.Func)
				}
				if cf := func() *fn {
					if cb == nil || c.P.Decl(cb) == nil {
						return nil
					}
					return fnOf(c, cb)
				}(); cf != nil && cf.Decl.Body != nil && cf.Decl.Type.Params != nil && len(cf.Decl.Type.Params.List) > 0 && len(cf.Decl.Type.Params.List[0].Names) > 0 {
					fl = &ast.FuncLit{Type: cf.Decl.Type, Body: cf.Decl.Body}
				} else {
					c.Undecided(f.Name, "poll callback", call.Pos(), "Polling callback is neither a function literal nor a function of the module; idiom not recognised")
					continue
				}
			}
			fdParam, _ := f.Info.Defs[fl.Type.Params.List[0].Names[0]].(*types.Var)
			g := f.litGraph(fl)
			const (
				fMiss = 1 << iota
				fHit
			)
			p := &flow.Problem{Must: true}
			p.Edge = func(e *flow.Edge, in uint64) uint64 {
				if e.Cond == nil || e.Tag != nil {
					return in
				}
				if x, y, op, ok := flow.Cmp(e.Cond); ok && flow.IsNil(f.Info, y) {
					if o, ok := flow.ObjOf(f.Info, x).(*types.Var); ok && v.isConnPtr(o.Type()) {
						if (op == token.EQL) == e.Sense {
							in |= fMiss
						} else {
							in |= fHit
						}
					}
				}
				return in
			}
			sol := g.Solve(p)
			n := 0
			sol.Walk(func(b *flow.Block, i int, nd ast.Node, before uint64) {
				for _, cl := range flow.Calls(nd) {
					uses := false
					for _, a := range cl.Args {
						if flow.ObjOf(f.Info, a) == fdParam {
							uses = true
						}
					}
					if !uses {
						continue
					}
					cf := flow.CalleeFunc(f.Info, cl)
					isLog := cf != nil && cf.Pkg() != nil && strings.HasSuffix(cf.Pkg().Path(), "/logging")
					if isLog || flow.IsCall(f.Info, cl, v.getConn) {
						continue
					}
					n++
					switch {
					case before&fMiss != 0:
						ok := flow.IsCall(f.Info, cl, del) || flow.IsCall(f.Info, cl, accept)
						c.Check(ok, f.Name, "registry miss: "+exprStr(cl.Fun), cl.Pos(), "only listener dispatch / poller.Delete on an unknown fd",
							"an event for a descriptor that is not in the registry is passed to "+exprStr(cl.Fun)+": the framework would do I/O on a descriptor it does not own")
					case before&fHit != 0:
						c.Ok(f.Name, "registry hit: "+exprStr(cl.Fun), cl.Pos(), "fd belongs to a registered conn")
					default:
						c.Violate(f.Name, "unguarded: "+exprStr(cl.Fun), cl.Pos(), "the event's fd is used before the registry lookup result is tested")
					}
				}
			})
			if n == 0 {
				c.Violate(f.Name, "poll callback", fl.Pos(), "the poll callback never dispatches on the event's fd")
			}
		}
	}
}

func runC07_6(c *core.Ctx) {
	v := vocabOf(c)
	if v == nil {
		return
	}
	del := c.P.Func("pkg/netpoll", "Poller.Delete")
	f := fnOf(c, v.closeFn)
	if f == nil || !c.Need("Delete", del) {
		return
	}
	const fDel = 1
	p := &flow.Problem{Must: true}
	var cur uint64
	_ = cur
	isDel := func(call *ast.CallExpr) bool {
		return flow.IsCall(f.Info, call, del) && len(call.Args) == 1 && flow.FieldOf(f.Info, call.Args[0]) == v.fdF
	}
	isClose := func(call *ast.CallExpr) bool {
		return flow.IsPkgFunc(f.Info, call, unixPkg, "Close") && len(call.Args) == 1 && flow.FieldOf(f.Info, call.Args[0]) == v.fdF
	}
	p.Node = func(b *flow.Block, i int, n ast.Node, in uint64) uint64 {
		for _, call := range flow.Calls(n) {
			if isDel(call) {
				in |= fDel
			}
		}
		return in
	}
	sol := f.Graph().Solve(p)
	sol.Walk(func(b *flow.Block, i int, n ast.Node, before uint64) {
		cur := before
		for _, call := range flow.Calls(n) {
			if isDel(call) {
				cur |= fDel
			}
			if isClose(call) {
				c.Check(cur&fDel != 0, f.Name, "Delete before Close", call.Pos(), "descriptor removed from the poller before it is closed",
					"unix.Close(c.fd) can run before poller.Delete(c.fd): with a duplicated open file description the closed number stays registered and later events are attributed to whoever reuses it")
			}
		}
	})
	// listener.close
	lf := getFn(c, "", "listener.close")
	if lf == nil {
		return
	}
	var onceLit *ast.FuncLit
	for _, call := range callsIn(lf.Decl.Body, false) {
		if cf := flow.CalleeFunc(lf.Info, call); cf != nil && nameOf(cf) == "Do" && cf.Pkg() != nil && cf.Pkg().Path() == "sync" && len(call.Args) == 1 {
			onceLit, _ = ast.Unparen(call.Args[0]).(*ast.FuncLit)
		}
	}
	if onceLit == nil {
		c.Violate(lf.Name, "sync.Once", lf.Decl.Pos(), "listener.close does not run under a sync.Once: the listener descriptor can be closed twice (engine stop + loop teardown share listeners)")
		return
	}
	outside := 0
	for _, call := range callsIn(lf.Decl.Body, false) {
		if flow.IsPkgFunc(lf.Info, call, unixPkg, "Close") {
			outside++
		}
	}
	closes, removes := 0, 0
	netw := c.P.Field("", "listener", "network")
	lg := lf.litGraph(onceLit)
	const fUnix = 1
	pp := &flow.Problem{Must: true}
	pp.Edge = func(e *flow.Edge, in uint64) uint64 {
		if e.Cond != nil && e.Tag == nil && e.Sense {
			if x, y, op, ok := flow.Cmp(e.Cond); ok && op == token.EQL && flow.FieldOf(lf.Info, x) == netw {
				if cv := flow.ConstOf(lf.Info, y); cv != nil && cv.ExactString() == `"unix"` {
					in |= fUnix
				}
			}
		}
		return in
	}
	ls := lg.Solve(pp)
	ls.Walk(func(b *flow.Block, i int, n ast.Node, before uint64) {
		for _, call := range flow.Calls(n) {
			if flow.IsPkgFunc(lf.Info, call, unixPkg, "Close") {
				closes++
			}
			if flow.IsPkgFunc(lf.Info, call, "os", "RemoveAll") || flow.IsPkgFunc(lf.Info, call, "os", "Remove") {
				if before&fUnix != 0 {
					removes++
				}
			}
		}
	})
	c.Check(closes == 1 && outside == 0, lf.Name, "close inside Once", onceLit.Pos(), "listener fd closed exactly once, inside the Once",
		"listener.close closes the descriptor outside its sync.Once (or more than once inside)")
	c.Check(removes >= 1, lf.Name, "unix socket file removed", onceLit.Pos(), "socket file removed for unix listeners",
		"listener.close no longer removes the socket file of a unix-domain listener")
}

func runC07_7(c *core.Ctx) {
	open := getFn(c, "pkg/netpoll", "OpenPoller")
	closeF := getFn(c, "pkg/netpoll", "Poller.Close")
	pollerT := c.P.Named("pkg/netpoll", "Poller")
	if open == nil || closeF == nil || !c.Need("Poller", pollerT) {
		return
	}
	// pointer fields dereferenced by Close without a dominating nil test
	st := pollerT.Underlying().(*types.Struct)
	ptrField := map[*types.Var]bool{}
	for i := 0; i < st.NumFields(); i++ {
		if _, ok := st.Field(i).Type().Underlying().(*types.Pointer); ok {
			ptrField[st.Field(i)] = true
		}
	}
	needs := map[*types.Var]token.Pos{}
	g := closeF.Graph()
	// must-fact per field: non-nil established
	var fields []*types.Var
	for f := range ptrField {
		fields = append(fields, f)
	}
	bitOf := func(f *types.Var) uint64 {
		for i, x := range fields {
			if x == f {
				return 1 << uint(i)
			}
		}
		return 0
	}
	p := &flow.Problem{Must: true}
	p.Edge = func(e *flow.Edge, in uint64) uint64 {
		if e.Cond != nil && e.Tag == nil {
			if x, y, op, ok := flow.Cmp(e.Cond); ok && flow.IsNil(closeF.Info, y) {
				if fl := flow.FieldOf(closeF.Info, x); fl != nil && ptrField[fl] {
					if (op == token.NEQ) == e.Sense {
						in |= bitOf(fl)
					}
				}
			}
		}
		return in
	}
	sol := g.Solve(p)
	sol.Walk(func(b *flow.Block, i int, n ast.Node, before uint64) {
		ast.Inspect(n, func(x ast.Node) bool {
			if sel, ok := x.(*ast.SelectorExpr); ok {
				if fl := flow.FieldOf(closeF.Info, sel.X); fl != nil && ptrField[fl] && before&bitOf(fl) == 0 {
					if _, seen := needs[fl]; !seen {
						needs[fl] = sel.Pos()
					}
				}
			}
			return true
		})
	})
	// in OpenPoller: each Close call site needs the fields assigned
	og := open.Graph()
	op := &flow.Problem{Must: true}
	op.Node = func(b *flow.Block, i int, n ast.Node, in uint64) uint64 {
		if as, ok := n.(*ast.AssignStmt); ok {
			for _, l := range as.Lhs {
				if fl := flow.FieldOf(open.Info, l); fl != nil && ptrField[fl] {
					in |= bitOf(fl)
				}
			}
		}
		return in
	}
	osol := og.Solve(op)
	nsites := 0
	osol.Walk(func(b *flow.Block, i int, n ast.Node, before uint64) {
		for _, call := range flow.Calls(n) {
			if !flow.IsCall(open.Info, call, closeF.Obj) {
				continue
			}
			nsites++
			bad := ""
			for fl := range needs {
				if before&bitOf(fl) == 0 {
					bad = fl.Name()
				}
			}
			c.Check(bad == "", open.Name, "poller.Close() on failure path", call.Pos(), "Close only dereferences fields already assigned here",
				"Poller.Close dereferences p."+bad+" without a nil test, but OpenPoller calls Close on a failure path before that field is assigned: nil-pointer panic instead of an error (and the epoll descriptor leaks)")
		}
	})
	if nsites == 0 {
		c.Ok(open.Name, "no Close on failure paths", open.Decl.Pos(), "OpenPoller does not call Close itself")
	}
}

// copyOfInside: x is a local of the literal that is defined once, inside the literal, as a plain copy of
// another variable (`if err := *errp; err != nil` after the pointer was resolved) – the copy is taken when
// the literal runs, so testing it is testing that variable.
func copyOfInside(f *fn, lit *ast.FuncLit, x ast.Expr) types.Object {
	v, ok := flow.ObjOf(f.Info, x).(*types.Var)
	if !ok || v.IsField() {
		return nil
	}
	def := singleDef(f, v)
	if def == nil {
		return nil
	}
	inside := false
	ast.Inspect(lit.Body, func(n ast.Node) bool {
		if n == ast.Node(def) {
			inside = true
		}
		return !inside
	})
	if !inside {
		return nil
	}
	return flow.ObjOf(f.Info, def)
}
