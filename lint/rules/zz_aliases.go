package rules

// Rules shared between properties: the stream properties rest on the buffers they are plumbed through.
// (File name sorts last so that every target rule is registered before its alias.)
func init() {
	alias("C01", "C01.8", "C09.6", "the inbound ring is read and grown through ring.Buffer's split copies")
	alias("C01", "C01.9", "C09.2", "leftover bytes are stored through ring.Buffer.Write")
	alias("C02", "C02.8", "C10.1", "pending output is consumed ring-first")
	alias("C02", "C02.9", "C10.2", "pending output is routed ring-then-list")
	alias("C02", "C02.10", "C11.1", "ReadFrom on a connection stores through linkedlist.Buffer.ReadFrom once the ring is full")
	alias("C11", "C11.6", "C12.7", "a queued segment is owned by the list alone: ReadFrom/PushBack never pool a slice they linked")
	alias("C19", "C19.7", "C06.3", "Stop polls isShutdown(): it may only become true after the loops were waited for and closed")
	alias("C12", "C12.8", "C17.5", "release() pools the zone bytes of a connection: they must not be shared with anything else")
	alias("C10", "C10.8", "C09.8", "elastic ReadFrom lands in ring.Buffer.ReadFrom while the ring has room")
	alias("C10", "C10.10", "C11.8", "Peek(n) across ring and list cuts the last segment through linkedlist.PeekWithBytes")
	alias("C02", "C02.12", "C03.11", "asynchronous writes of one goroutine keep their issue order only if every one of them is submitted with HighPriority")
	alias("C12", "C12.9", "C17.6", "what release() pools must have been allocated for this connection")
	alias("C12", "C12.10", "C17.7", "the listener's address is shared: its zone must never reach the pool")
	alias("C01", "C01.11", "C12.5", "a connection's inbound ring comes from the pool: it must arrive empty or another connection's unread bytes are spliced into this stream")
	alias("C02", "C02.13", "C12.5", "the outbound ring comes from the same pool")
	alias("C18", "C18.9", "C12.4", "release() runs on every failure path: what it pools must not stay referenced by the dead connection, or the failure reaches other connections through the pool")
	alias("C19", "C19.8", "C07.9", "a registration whose descriptor duplication failed must deliver that error, not a connection on descriptor -1")
	alias("C10", "C10.11", "C09.11", "the elastic buffers fill the ring to exactly full at the static limit, which is where a cursor resting at size turns a full ring into an empty one")
	alias("C08", "C08.8", "C17.8", "SendTo and Write address their datagram through IPToSockaddr")
	alias("C08", "C08.9", "C17.9", "SendTo relies on `sa == nil` to reject an address it cannot convert")
	alias("C18", "C18.10", "C07.3", "after a connection failed and was closed, its queued tasks and callbacks must not touch the descriptor number again, or the failure reaches the connection that inherits the number")
	alias("C10", "C10.6", "C09.6", "the ring half moves data with split copies")
}
