package rules

import (
	"go/ast"
	"go/token"
	"go/types"

	"gnetlint/core"
	"gnetlint/flow"
)

func init() {
	register(&core.Rule{ID: "C06.9", Prop: "C06", MinSites: 5,
		Desc: "no way round the Action: after OnOpen/OnTraffic/OnClose returned, every path to a return or to the next callback first examines the Action (switch over it, comparison with Shutdown, or a helper that maps Shutdown to ErrEngineShutdown); only returns of a freshly established non-nil error are exempt",
		Run:  runC06_9})
}

// examinesActionParam: callee has an Action-typed parameter at index i on whose Shutdown case it
// returns ErrEngineShutdown.
func examinesActionParam(c *core.Ctx, callee *types.Func, i int, shutdownAction *types.Const, shut types.Object) bool {
	hf := fnOf(c, callee)
	if hf == nil || hf.Decl.Body == nil {
		return false
	}
	sig := callee.Type().(*types.Signature)
	if i >= sig.Params().Len() {
		return false
	}
	pv := sig.Params().At(i)
	p := &flow.Problem{Must: true}
	p.Edge = func(e *flow.Edge, in uint64) uint64 {
		if e.Cond == nil || !e.Sense {
			return in
		}
		if e.Tag != nil {
			if flow.ObjOf(hf.Info, e.Tag) == types.Object(pv) && flow.ObjOf(hf.Info, e.Cond) == types.Object(shutdownAction) {
				in |= 1
			}
			return in
		}
		if x, y, op, ok := flow.Cmp(e.Cond); ok && op == token.EQL {
			if (flow.ObjOf(hf.Info, x) == types.Object(pv) && flow.ObjOf(hf.Info, y) == types.Object(shutdownAction)) ||
				(flow.ObjOf(hf.Info, y) == types.Object(pv) && flow.ObjOf(hf.Info, x) == types.Object(shutdownAction)) {
				in |= 1
			}
		}
		return in
	}
	sol := hf.Graph().Solve(p)
	found := false
	sol.AtExit(func(b *flow.Block, facts uint64) {
		if facts&1 == 0 {
			return
		}
		for _, res := range b.Return.Results {
			if id := sentinelIdent(res); id != nil && hf.Info.Uses[id] == shut {
				found = true
			}
		}
	})
	return found
}

func runC06_9(c *core.Ctx) {
	v := vocabOf(c)
	if v == nil {
		return
	}
	shutdownAction, _ := c.P.Object("", "Shutdown").(*types.Const)
	shut := sentinel(c, "ErrEngineShutdown")
	if !c.Need("Shutdown", shutdownAction) || !c.Need("ErrEngineShutdown", shut) {
		return
	}
	errType := types.Universe.Lookup("error").Type()
	for _, f := range v.funcs {
		if f.Decl.Body == nil {
			continue
		}
		type site struct {
			call   *ast.CallExpr
			m      string
			action types.Object
		}
		var sites []site
		ast.Inspect(f.Decl.Body, func(n ast.Node) bool {
			if _, ok := n.(*ast.FuncLit); ok {
				return false // literals: the ticker's OnTick loop is C06.1's business
			}
			as, ok := n.(*ast.AssignStmt)
			if !ok || len(as.Rhs) != 1 {
				return true
			}
			call, ok := ast.Unparen(as.Rhs[0]).(*ast.CallExpr)
			if !ok {
				return true
			}
			cf := flow.CalleeFunc(f.Info, call)
			for _, m := range []string{"OnOpen", "OnTraffic", "OnClose"} {
				if cf != nil && flow.SameFunc(cf, v.handler[m]) {
					if obj := flow.ObjOf(f.Info, as.Lhs[len(as.Lhs)-1]); obj != nil {
						sites = append(sites, site{call, m, obj})
					}
				}
			}
			return true
		})
		if len(sites) == 0 {
			continue
		}
		// error variables known to be non-nil (must)
		var errVars []*types.Var
		idx := map[types.Object]int{}
		ast.Inspect(f.Decl.Body, func(n ast.Node) bool {
			if id, ok := n.(*ast.Ident); ok {
				if vv, ok := f.Info.Defs[id].(*types.Var); ok && types.Identical(vv.Type(), errType) {
					if _, seen := idx[vv]; !seen && len(errVars) < 60 {
						idx[vv] = len(errVars)
						errVars = append(errVars, vv)
					}
				}
			}
			return true
		})
		if sig, ok := f.Obj.Type().(*types.Signature); ok {
			for i := 0; i < sig.Results().Len(); i++ {
				if vv := sig.Results().At(i); nameOf(vv) != "" && types.Identical(vv.Type(), errType) {
					if _, seen := idx[vv]; !seen {
						idx[vv] = len(errVars)
						errVars = append(errVars, vv)
					}
				}
			}
		}
		g := f.Graph()
		np := &flow.Problem{Must: true}
		np.Node = func(b *flow.Block, i int, n ast.Node, in uint64) uint64 {
			if as, ok := n.(*ast.AssignStmt); ok {
				for _, l := range as.Lhs {
					if k, ok := idx[flow.ObjOf(f.Info, l)]; ok {
						in &^= 1 << uint(k)
					}
				}
			}
			return in
		}
		np.Edge = func(e *flow.Edge, in uint64) uint64 {
			if e.Cond == nil || e.Tag != nil {
				return in
			}
			if x, y, op, ok := flow.Cmp(e.Cond); ok && flow.IsNil(f.Info, y) {
				if k, ok := idx[flow.ObjOf(f.Info, x)]; ok && (op == token.NEQ) == e.Sense {
					in |= 1 << uint(k)
				}
			}
			return in
		}
		nonNil := g.Solve(np)
		for _, s := range sites {
			s := s
			construct := "Action of " + s.m + " examined before leaving"
			const (
				sBefore = iota
				sPending
				sDone
			)
			type bad struct {
				pos token.Pos
				msg string
			}
			var bads []bad
			record := false
			isAction := func(e ast.Expr) bool { return flow.ObjOf(f.Info, e) == s.action }
			au := &flow.Auto{Start: sBefore}
			au.Node = func(b *flow.Block, i int, n ast.Node, st int) int {
				flow.Events(n, func(x ast.Node) {
					call, ok := x.(*ast.CallExpr)
					if !ok {
						return
					}
					if call == s.call {
						if st == sPending && record {
							bads = append(bads, bad{call.Pos(), "the next " + s.m + " runs while the previous Action was not examined"})
						}
						st = sPending
						return
					}
					if st != sPending {
						return
					}
					if cf := flow.CalleeFunc(f.Info, call); cf != nil {
						for k, a := range call.Args {
							if isAction(a) && examinesActionParam(c, cf, k, shutdownAction, shut) {
								st = sDone
							}
						}
					}
				})
				return st
			}
			// An edge settles the question when it fixes the Action to one constant (Shutdown: C06.1 decides
			// what is returned there; any other constant: nothing to honour) or excludes Shutdown.
			isConst := func(e ast.Expr) (types.Object, bool) {
				k, ok := flow.ObjOf(f.Info, e).(*types.Const)
				if !ok || !types.Identical(k.Type(), shutdownAction.Type()) {
					return nil, false
				}
				return k, true
			}
			au.Edge = func(e *flow.Edge, st int) int {
				if st != sPending || e.Cond == nil {
					return st
				}
				if e.Tag != nil {
					if k, ok := isConst(e.Cond); ok && isAction(e.Tag) && (e.Sense || k == types.Object(shutdownAction)) {
						return sDone
					}
					return st
				}
				if x, y, op, ok := flow.Cmp(e.Cond); ok && (op == token.EQL || op == token.NEQ) {
					if isAction(y) {
						x, y = y, x
					}
					if k, ok := isConst(y); ok && isAction(x) {
						equal := (op == token.EQL) == e.Sense
						if equal || k == types.Object(shutdownAction) {
							return sDone
						}
					}
				}
				return st
			}
			sol := g.Run(au)
			record = true
			for _, b := range g.Blocks {
				if !sol.Seen[b.ID] {
					continue
				}
				for _, s0 := range flow.States(sol.In[b.ID]) {
					st := s0
					for i, n := range b.Nodes {
						st = au.Node(b, i, n, st)
					}
					if b.Return == nil || st != sPending {
						continue
					}
					// exempt: the return hands out an error that is known to be non-nil here
					exempt := false
					for _, res := range b.Return.Results {
						if k, ok := idx[flow.ObjOf(f.Info, res)]; ok && nonNil.Out(b)&(1<<uint(k)) != 0 {
							exempt = true
						}
						if call, ok := ast.Unparen(res).(*ast.CallExpr); ok {
							if flow.IsPkgFunc(f.Info, call, "errors", "New") || flow.IsPkgFunc(f.Info, call, "fmt", "Errorf") {
								exempt = true
							}
						}
					}
					if len(b.Return.Results) == 0 {
						// bare return of named results
						if sig, ok := f.Obj.Type().(*types.Signature); ok {
							for i := 0; i < sig.Results().Len(); i++ {
								if k, ok := idx[sig.Results().At(i)]; ok && nonNil.Out(b)&(1<<uint(k)) != 0 {
									exempt = true
								}
							}
						}
					}
					if !exempt {
						bads = append(bads, bad{b.Return.Pos(), "a return is reachable after " + s.m + " without the Action having been examined: a Shutdown (or Close) request of the handler is dropped on this path and the engine keeps running"})
					}
				}
			}
			record = false
			if len(bads) > 0 {
				c.Violate(f.Name, construct, bads[0].pos, bads[0].msg)
				continue
			}
			c.Ok(f.Name, construct, s.call.Pos(), "every path from the callback examines its Action before returning")
		}
	}
}

func init() {
	register(&core.Rule{ID: "C06.10", Prop: "C06", MinSites: 2,
		Desc: "closeConns reaches every connection: it iterates the loop's registry with a visitor that closes its argument through el.close on every path and always asks for the next one (returns true)",
		Run:  runC06_10})
	register(&core.Rule{ID: "C06.11", Prop: "C06", MinSites: 1,
		Desc: "closing cannot spin: in eventloop.close the loop that flushes residual output leaves on the error edge of its Writev (a socket that is not writable must not keep the loop, and with it shutdown, busy forever)",
		Run:  runC06_11})
}

func runC06_10(c *core.Ctx) {
	f := getFn(c, "", "eventloop.closeConns")
	closeFn := c.P.Func("", "eventloop.close")
	if f == nil || !c.Need("eventloop.close", closeFn) {
		return
	}
	var lit *ast.FuncLit
	for _, call := range callsIn(f.Decl.Body, false) {
		cf := flow.CalleeFunc(f.Info, call)
		if cf != nil && nameOf(cf) == "iterate" && len(call.Args) == 1 {
			if fl, ok := ast.Unparen(call.Args[0]).(*ast.FuncLit); ok {
				lit = fl
			}
		}
	}
	if lit == nil {
		c.Violate(f.Name, "iterates the registry", f.Decl.Pos(), "closeConns no longer walks el.connections with a visitor: connections that are still open when the loop exits get no OnClose and their descriptors stay open")
		return
	}
	c.Ok(f.Name, "iterates the registry", lit.Pos(), "el.connections.iterate(visitor)")
	var param types.Object
	if ps := lit.Type.Params.List; len(ps) == 1 && len(ps[0].Names) == 1 {
		param = f.Info.Defs[ps[0].Names[0]]
	}
	g := flow.New(c.P.Fset, f.Info, lit.Body)
	p := &flow.Problem{Must: true}
	p.Node = func(b *flow.Block, i int, n ast.Node, in uint64) uint64 {
		for _, call := range flow.Calls(n) {
			if flow.IsCall(f.Info, call, closeFn) && len(call.Args) >= 1 && flow.ObjOf(f.Info, call.Args[0]) == param && param != nil {
				in |= 1
			}
		}
		return in
	}
	sol := g.Solve(p)
	okAll, n := true, 0
	why := ""
	sol.AtExit(func(b *flow.Block, facts uint64) {
		n++
		if facts&1 == 0 {
			okAll, why = false, "a path of the visitor returns without closing its connection"
		}
		if len(b.Return.Results) != 1 {
			okAll, why = false, "the visitor does not return a single bool"
			return
		}
		if tv, ok := f.Info.Types[b.Return.Results[0]]; !ok || tv.Value == nil || tv.Value.String() != "true" {
			okAll, why = false, "the visitor can stop the iteration (returns something other than the constant true)"
		}
	})
	c.Check(okAll && n > 0, f.Name, "visitor closes and continues", lit.Pos(), "every path: el.close(c, …) then return true",
		why+": connections still open at loop exit would miss their OnClose and keep their descriptors")
}

func runC06_11(c *core.Ctx) {
	f := getFn(c, "", "eventloop.close")
	a := outAnchors(c)
	if f == nil || a == nil {
		return
	}
	g := f.Graph()
	// the block that evaluates the flush loop's condition
	var head *flow.Block
	for _, b := range g.Blocks {
		for _, n := range b.Nodes {
			if e, ok := n.(ast.Expr); ok {
				for _, call := range flow.Calls(e) {
					if a.onOutbound(f, call, a.isEmpty) {
						for _, s := range b.Succs {
							if s.Cond != nil {
								head = b
							}
						}
					}
				}
			}
		}
	}
	if head == nil {
		c.Ok(f.Name, "residual flush", f.Decl.Pos(), "no flush loop on the outbound buffer in close (nothing can spin)")
		return
	}
	// error variable of the Writev inside the loop
	var errObj types.Object
	ast.Inspect(f.Decl.Body, func(n ast.Node) bool {
		if as, ok := n.(*ast.AssignStmt); ok && len(as.Rhs) == 1 && len(as.Lhs) == 2 {
			if call, ok := ast.Unparen(as.Rhs[0]).(*ast.CallExpr); ok {
				if d, _ := a.streamWrite(f, call); d != nil {
					errObj = flow.ObjOf(f.Info, as.Lhs[1])
				}
			}
		}
		return true
	})
	if errObj == nil {
		c.Undecided(f.Name, "residual flush", f.Decl.Pos(), "the flush loop's write syscall and its error variable were not found")
		return
	}
	reach := func(from *flow.Block) bool {
		seen := map[*flow.Block]bool{}
		var walk func(b *flow.Block) bool
		walk = func(b *flow.Block) bool {
			if b == head {
				return true
			}
			if seen[b] {
				return false
			}
			seen[b] = true
			for _, e := range b.Succs {
				if walk(e.To) {
					return true
				}
			}
			return false
		}
		return walk(from)
	}
	found := false
	for _, b := range g.Blocks {
		for _, e := range b.Succs {
			if e.Cond == nil || e.Tag != nil {
				continue
			}
			x, y, op, ok := flow.Cmp(e.Cond)
			if !ok || flow.ObjOf(f.Info, x) != errObj || !flow.IsNil(f.Info, y) {
				continue
			}
			if (op == token.NEQ) != e.Sense {
				continue // the err == nil side
			}
			found = true
			c.Check(!reach(e.To), f.Name, "Writev error leaves the flush loop", e.Cond.Pos(), "the error edge does not lead back to the loop condition",
				"after a failed Writev (EAGAIN on a full socket, EPIPE, …) the residual-flush loop of close() goes round again: nothing was discarded, so it spins forever, the connection never closes and a shutdown never completes")
		}
	}
	if !found {
		c.Violate(f.Name, "Writev error leaves the flush loop", f.Decl.Pos(), "the error of the flush loop's Writev is never tested: a failing write keeps the loop running forever")
	}
}
