package rules

import (
	"go/ast"
	"go/token"
	"go/types"
	"sort"
	"strings"

	"golang.org/x/tools/go/ssa"

	"gnetlint/core"
	"gnetlint/flow"
)

func init() {
	describe(&PropInfo{ID: "C05", QuickConfigs: []core.Config{cfgGCOpt},
		Explanation: "Decides a static effect discipline that is necessary for race freedom: (1) the functions reachable (VTA call graph, without crossing the task boundary) from the API " +
			"documented as concurrency-safe and from the code that runs off-loop by construction never access loop-owned state (the mutable fields of conn, eventloop.buffer, the registry, " +
			"any buffer package), with enumerated exceptions; (2) every location accessed through sync/atomic anywhere is accessed atomically everywhere (or while the object is still private); " +
			"(3) the identity fields of conn and eventloop are written only while the object is fresh, by constructors/start-up code; (4) every user-callback call site lies outside the any-goroutine closure; " +
			"(5) a connection is registered on the very loop it was constructed with; (6) goroutines are spawned only through the errgroup of the engine or the enroll worker pool. " +
			"It does not decide dynamic race freedom of what the API may legitimately touch, nor races in user code.",
		Assumptions: []string{"VTA over-approximates dynamic calls (sound for reachability)", "third-party packages (ants, zap, errgroup) do not call back into loop-owned state"}})

	register(&core.Rule{ID: "C05.1", Prop: "C05", MinSites: 15,
		Desc: "confinement: no function in the any-goroutine closure accesses a loop-owned field or calls into the buffer packages (enumerated exceptions: fresh conns, c.remote of datagram conns)",
		Run:  runC05_1})
	register(&core.Rule{ID: "C05.2", Prop: "C05", MinSites: 15,
		Desc: "atomic-only: every struct field or global that is accessed through sync/atomic somewhere in the module is accessed atomically everywhere (or in a store initialising a fresh object)",
		Run:  runC05_2})
	register(&core.Rule{ID: "C05.3", Prop: "C05", MinSites: 10,
		Desc: "identity fields conn.{fd,loop,proto,isDatagram} and eventloop.{engine,poller,buffer,listeners,eventHandler,idx} are written only into an object allocated in the writing function (constructors / start-up) or by the load-balancer registration",
		Run:  runC05_3})
	register(&core.Rule{ID: "C05.4", Prop: "C05", MinSites: 8,
		Desc: "every call of EventHandler.OnOpen/OnTraffic/OnClose, of an AsyncCallback or of Runnable.Run lies in a function outside the any-goroutine closure",
		Run:  runC05_4})
	register(&core.Rule{ID: "C05.5", Prop: "C05", MinSites: 4,
		Desc: "loop identity: at every registration site the eventloop handed to the conn constructor is the one whose poller receives the register task (or whose register0 is called)",
		Run:  runC05_5})
	register(&core.Rule{ID: "C05.6", Prop: "C05", MinSites: 6,
		Desc: "goroutines are spawned only via engine.concurrency.Go (loops, tickers) and the enroll worker pool; there is no go statement in library code outside pkg/logging and the pool wrapper",
		Run:  runC05_6})
}

// anyGoroutineRoots lists the functions that may run on arbitrary goroutines (DESIGN §3.1, class A).
var anyGoroutineRoots = []string{
	"(*gnet.conn).AsyncWrite", "(*gnet.conn).AsyncWritev", "(*gnet.conn).Wake", "(*gnet.conn).Close", "(*gnet.conn).CloseWithCallback",
	"(*gnet.conn).SafeContext", "(*gnet.conn).SetSafeContext", "(*gnet.conn).Fd", "(*gnet.conn).Dup", "(*gnet.conn).EventLoop",
	"(*gnet.conn).SetReadBuffer", "(*gnet.conn).SetWriteBuffer", "(*gnet.conn).SetLinger", "(*gnet.conn).SetNoDelay",
	"(*gnet.conn).SetKeepAlivePeriod", "(*gnet.conn).SetKeepAlive",
	"(*gnet.eventloop).Execute", "(*gnet.eventloop).Register", "(*gnet.eventloop).Enroll",
	"(gnet.Engine).CountConnections", "(gnet.Engine).Stop", "(gnet.Engine).Validate", "gnet.Stop",
	"(*gnet.Client).Dial", "(*gnet.Client).DialContext", "(*gnet.Client).Enroll", "(*gnet.Client).EnrollContext", "(*gnet.Client).Stop",
	"(*gnet.eventloop).ticker", "(*gnet.engine).stop", "(*gnet.eventloop).accept0",
}

// confinementEdgeExceptions: call edges not followed when closing A, with the reason.
var confinementEdgeExceptions = map[string]string{
	"(*gnet.eventloop).accept0 -> (*gnet.conn).release": "failure path of the hand-over: the conn was constructed in this iteration and the target loop never ran its register task successfully (observation O3 in DESIGN §6)",
}

type aClosure struct {
	in    map[*ssa.Function]bool
	via   map[*ssa.Function]*ssa.Function // predecessor for witness paths
	roots []*ssa.Function
}

func anyGoroutineClosure(c *core.Ctx) *aClosure {
	s := c.P.BuildSSA()
	cg := s.CallGraph()
	byName := map[string]*ssa.Function{}
	for _, fn := range s.ModFuncs {
		byName[core.SSAName(fn)] = fn
	}
	a := &aClosure{in: map[*ssa.Function]bool{}, via: map[*ssa.Function]*ssa.Function{}}
	for _, r := range anyGoroutineRoots {
		fn := byName[r]
		if fn == nil {
			c.Undecided("anchor", "A root "+r, token.NoPos, "any-goroutine root not found: "+r)
			continue
		}
		a.roots = append(a.roots, fn)
	}
	// Traversal. VTA is context-insensitive for func-typed parameters (every visitor ever passed to
	// iterate() would be a callee of every iterate call), so calls through a func-typed *parameter* are
	// not followed inside the callee; instead the function values passed at each call site in A are added
	// there. Function values passed across the task boundary (Poller.Trigger) or to errgroup.Go are not
	// followed: they run on a loop goroutine. Worker-pool bodies run off-loop and are followed.
	work := append([]*ssa.Function{}, a.roots...)
	for _, r := range a.roots {
		a.in[r] = true
	}
	add := func(from, fn *ssa.Function) {
		if fn == nil || a.in[fn] {
			return
		}
		if _, skip := confinementEdgeExceptions[core.SSAName(from)+" -> "+core.SSAName(fn)]; skip {
			return
		}
		if fromName := core.SSAName(from); (fromName == "gnet.newStreamConn" || fromName == "gnet.newUDPConn") && strings.Contains(fn.String(), "/pkg/buffer/") {
			return // a constructor initialising the buffers of the conn it is building (not shared yet)
		}
		a.in[fn] = true
		a.via[fn] = from
		work = append(work, fn)
	}
	isBoundary := func(callee *ssa.Function) bool {
		if callee == nil {
			return false
		}
		n := callee.String()
		return strings.HasSuffix(n, "netpoll.Poller).Trigger") || strings.Contains(n, "errgroup.Group).Go")
	}
	fnValue := func(v ssa.Value) *ssa.Function {
		switch x := v.(type) {
		case *ssa.MakeClosure:
			f, _ := x.Fn.(*ssa.Function)
			return f
		case *ssa.Function:
			return x
		}
		return nil
	}
	for len(work) > 0 {
		fn := work[0]
		work = work[1:]
		for _, b := range fn.Blocks {
			for _, in := range b.Instrs {
				ci, ok := in.(ssa.CallInstruction)
				if !ok {
					continue
				}
				if _, isGo := in.(*ssa.Go); isGo {
					continue
				}
				cc := ci.Common()
				callee := cc.StaticCallee()
				if isBoundary(callee) {
					continue
				}
				for _, arg := range cc.Args {
					if fv := fnValue(arg); fv != nil {
						add(fn, fv)
					}
				}
			}
		}
		n := cg.Nodes[fn]
		if n == nil {
			continue
		}
		for _, e := range n.Out {
			if e.Site != nil {
				cc := e.Site.Common()
				if _, isGo := e.Site.(*ssa.Go); isGo {
					continue
				}
				if cc.StaticCallee() == nil && !cc.IsInvoke() {
					if _, isParam := cc.Value.(*ssa.Parameter); isParam {
						continue // visitor passed in by the caller: handled at the call site
					}
					if _, isFree := cc.Value.(*ssa.FreeVar); isFree {
						// captured func value (e.g. callback AsyncCallback captured by a task closure)
					}
				}
			}
			add(fn, e.Callee.Func)
		}
	}
	return a
}

func (a *aClosure) path(fn *ssa.Function) []string {
	var out []string
	for f := fn; f != nil; f = a.via[f] {
		out = append([]string{core.SSAName(f)}, out...)
		if len(out) > 12 {
			break
		}
	}
	return out
}

func isModuleFn(fn *ssa.Function) bool {
	p := fn.Pkg
	if p == nil && fn.Origin() != nil {
		p = fn.Origin().Pkg
	}
	if p == nil && fn.Parent() != nil {
		return isModuleFn(fn.Parent())
	}
	return p != nil && strings.HasPrefix(p.Pkg.Path(), core.ModPath)
}

func runC05_1(c *core.Ctx) {
	v := vocabOf(c)
	if v == nil {
		return
	}
	s := c.P.BuildSSA()
	a := anyGoroutineClosure(c)
	// loop-owned fields
	owned := map[*types.Var]string{}
	allowedConn := map[string]bool{"fd": true, "loop": true, "proto": true, "isDatagram": true, "safeCtx": true}
	if st, ok := v.connT.Underlying().(*types.Struct); ok {
		for i := 0; i < st.NumFields(); i++ {
			if !allowedConn[nameOf(st.Field(i))] {
				owned[st.Field(i)] = "conn." + st.Field(i).Name()
			}
		}
	}
	if f := c.P.Field("", "eventloop", "buffer"); f != nil {
		owned[f] = "eventloop.buffer"
	}
	// eventloop.connections itself is only a container: its mutable parts are the connMatrix fields below
	// (the atomic counters are shared by design)
	if cm := c.P.Named("", "connMatrix"); cm != nil {
		if st, ok := cm.Underlying().(*types.Struct); ok {
			for i := 0; i < st.NumFields(); i++ {
				n := nameOf(st.Field(i))
				if n != "connCount" && n != "connCounts" {
					owned[st.Field(i)] = "connMatrix." + n
				}
			}
		}
	}
	// (a) no buffer-package function in A
	nA := 0
	var names []string
	for fn := range a.in {
		if isModuleFn(fn) {
			nA++
			names = append(names, core.SSAName(fn))
		}
	}
	sort.Strings(names)
	for fn := range a.in {
		if !isModuleFn(fn) {
			continue
		}
		pkg := fn.Pkg
		if pkg == nil && fn.Parent() != nil {
			pkg = fn.Parent().Pkg
		}
		if pkg != nil && strings.Contains(pkg.Pkg.Path(), "/pkg/buffer/") {
			c.Violate(core.SSAName(fn), "buffer code reachable off-loop", fn.Pos(),
				"a function of the buffer packages is reachable from a concurrency-safe entry point without crossing the task boundary: connection buffers would be touched from a foreign goroutine", a.path(fn)...)
		}
	}
	c.Ok("gnet", "any-goroutine closure computed", token.NoPos, itoa(nA)+" module functions reachable off-loop from "+itoa(len(a.roots))+" roots")
	// (b) field accesses
	callersInA := func(target *ssa.Function) []string {
		var out []string
		n := s.CallGraph().Nodes[target]
		if n == nil {
			return nil
		}
		for _, e := range n.In {
			if a.in[e.Caller.Func] {
				out = append(out, core.SSAName(core.EnclosingTop(e.Caller.Func)))
			}
		}
		sort.Strings(out)
		return out
	}
	for _, fa := range s.Accesses() {
		label, isOwned := owned[fa.Field]
		if !isOwned || !a.in[fa.Fn] {
			continue
		}
		site := core.SSAHostName(fa.Fn)
		construct := fa.Kind.String() + " of " + label
		top := core.SSAName(core.EnclosingTop(fa.Fn))
		switch {
		case top == "gnet.newStreamConn" || top == "gnet.newUDPConn":
			c.Ok(site, construct, fa.Pos, "constructor: the conn is not shared yet")
		case fa.Kind == core.AccWrite && isFresh(fa.Base):
			c.Ok(site, construct, fa.Pos, "store into an object allocated in this function")
		case site == "(*gnet.conn).sendTo" && label == "conn.remote" && fa.Kind == core.AccRead:
			c.Ok(site, construct, fa.Pos, "exception: AsyncWrite's datagram branch reads c.remote, which is only written by the constructor for datagram conns (release writes it under !isDatagram)")
		case site == "(*gnet.conn).SetContext":
			callers := callersInA(fa.Fn)
			ok := len(callers) > 0
			for _, cl := range callers {
				if cl != "(*gnet.Client).EnrollContext" && cl != "(*gnet.eventloop).enroll" {
					ok = false
				}
			}
			c.Check(ok, site, construct, fa.Pos, "exception: called off-loop only by the enrol paths on the conn they just constructed, before the register task is submitted",
				"SetContext (not concurrency-safe) is reachable off-loop from "+strings.Join(callers, ", "))
		default:
			c.Violate(site, construct, fa.Pos, "loop-owned state "+label+" is accessed ("+fa.Kind.String()+") in a function reachable from a concurrency-safe entry point without crossing the task boundary: data race with the event loop", a.path(fa.Fn)...)
		}
	}
}

func runC05_2(c *core.Ctx) {
	s := c.P.BuildSSA()
	atomicFields := map[*types.Var]bool{}
	atomicGlobals := map[*ssa.Global]bool{}
	for _, fa := range s.Accesses() {
		if fa.Kind != core.AccAtomic {
			continue
		}
		if fa.Field != nil && !isAtomicNamed(fa.Field.Type()) {
			atomicFields[fa.Field] = true
		}
		if fa.Global != nil && !isAtomicNamed(fa.Global.Type().(*types.Pointer).Elem()) {
			atomicGlobals[fa.Global] = true
		}
	}
	// atomic wrapper arguments also mark a field as atomic (queue head/tail/next)
	for _, fa := range s.Accesses() {
		if fa.Kind == core.AccAddr && fa.Callee != nil && fa.Field != nil && isAtomicWrapperCall(fa) {
			atomicFields[fa.Field] = true
		}
	}
	var fields []*types.Var
	for f := range atomicFields {
		fields = append(fields, f)
	}
	sort.Slice(fields, func(i, j int) bool { return fields[i].Pos() < fields[j].Pos() })
	delConn := "(*gnet.connMatrix).delConn"
	for _, f := range fields {
		label := fieldLabel(c, f)
		atomicOnly(c, f, label, func(fa core.FieldAccess) string {
			if label == "connMatrix.connCounts" && core.SSAHostName(fa.Fn) == delConn && fa.Kind == core.AccRead {
				return "single-writer read: delConn runs only on the owning loop, which is the only writer of its own counters (C05.1 shows delConn is not reachable off-loop)"
			}
			if label == "connMatrix.connCounts" && core.SSAHostName(fa.Fn) == "(*gnet.connMatrix).loadCount" && fa.Kind == core.AccAddr {
				return "len() of the counter array (a constant), no element is read"
			}
			return ""
		})
	}
	for g := range atomicGlobals {
		for _, fa := range s.Accesses() {
			if fa.Global != g {
				continue
			}
			site := core.SSAName(fa.Fn)
			construct := fa.Kind.String() + " of global " + g.Name()
			okk := fa.Kind == core.AccAtomic || (fa.Kind == core.AccAddr && fa.Callee != nil && core.IsAtomicCallee(fa.Callee)) || strings.HasSuffix(site, ".init")
			c.Check(okk, site, construct, fa.Pos, "atomic access", "plain access of a global that is accessed atomically elsewhere")
		}
	}
}

func isAtomicNamed(t types.Type) bool {
	n, ok := t.(*types.Named)
	return ok && n.Obj().Pkg() != nil && n.Obj().Pkg().Path() == "sync/atomic"
}

func fieldLabel(c *core.Ctx, f *types.Var) string {
	for _, pk := range c.P.Pkgs {
		sc := pk.Types.Scope()
		for _, name := range sc.Names() {
			tn, ok := sc.Lookup(name).(*types.TypeName)
			if !ok {
				continue
			}
			st, ok := tn.Type().Underlying().(*types.Struct)
			if !ok {
				continue
			}
			for i := 0; i < st.NumFields(); i++ {
				if st.Field(i) == f {
					return name + "." + f.Name()
				}
			}
		}
	}
	return f.Name()
}

func runC05_3(c *core.Ctx) {
	s := c.P.BuildSSA()
	watch := map[*types.Var]string{}
	for _, n := range []string{"fd", "loop", "proto", "isDatagram"} {
		if f := c.P.Field("", "conn", n); c.Need("conn."+n, f) {
			watch[f] = "conn." + n
		}
	}
	for _, n := range []string{"engine", "poller", "buffer", "listeners", "eventHandler", "idx"} {
		if f := c.P.Field("", "eventloop", n); c.Need("eventloop."+n, f) {
			watch[f] = "eventloop." + n
		}
	}
	for _, fa := range s.Accesses() {
		label, ok := watch[fa.Field]
		if !ok || fa.Kind == core.AccRead {
			continue
		}
		site := core.SSAHostName(fa.Fn)
		construct := fa.Kind.String() + " of " + label
		switch {
		case fa.Kind == core.AccWrite && isFresh(fa.Base):
			c.Ok(site, construct, fa.Pos, "written while the object is private to its creator")
		case fa.Kind == core.AccWrite && label == "eventloop.idx" && site == "(*gnet.baseLoadBalancer).register":
			c.Ok(site, construct, fa.Pos, "index assigned by the load balancer registration during start-up (before the loop goroutine exists, C05.6)")
		case fa.Kind == core.AccAddr:
			// address taken for a method call on the field (el.poller.Trigger, el.listeners range …) is a read-like use
			if _, isStore := fa.Instr.(*ssa.Store); isStore {
				c.Violate(site, construct, fa.Pos, "the address of identity field "+label+" is stored: writers can no longer be enumerated")
			}
		default:
			c.Violate(site, construct, fa.Pos, label+" is written after construction: a connection could change its loop/descriptor during its life, or a loop its poller")
		}
	}
}

func runC05_4(c *core.Ctx) {
	v := vocabOf(c)
	if v == nil {
		return
	}
	s := c.P.BuildSSA()
	a := anyGoroutineClosure(c)
	// map AST call sites to SSA functions by position
	fnAt := func(pos token.Pos) *ssa.Function {
		var best *ssa.Function
		for _, fn := range s.ModFuncs {
			if fn.Syntax() == nil {
				continue
			}
			if fn.Syntax().Pos() <= pos && pos <= fn.Syntax().End() {
				if best == nil || fn.Syntax().Pos() >= best.Syntax().Pos() {
					best = fn
				}
			}
		}
		return best
	}
	for _, f := range v.funcs {
		for _, call := range callsIn(f.Decl.Body, true) {
			kind := v.isUserCall(f.Info, call)
			if kind == "" {
				continue
			}
			fn := fnAt(call.Pos())
			if fn == nil {
				c.Undecided(f.Name, kind, call.Pos(), "no SSA function for this call site")
				continue
			}
			site := core.SSAHostName(fn)
			switch {
			case !a.in[fn]:
				c.Ok(site, "call of "+kind, call.Pos(), "runs only on an event-loop goroutine")
			case site == "(*gnet.conn).AsyncWrite" && kind == "AsyncCallback":
				c.Ok(site, "call of "+kind, call.Pos(), "exception: the datagram branch of AsyncWrite invokes callback(nil, nil) synchronously with no connection (documented TODO in the source)")
			default:
				c.Violate(site, "call of "+kind, call.Pos(), "a user callback is invoked from a function reachable off-loop: handlers of one loop would run concurrently", a.path(fn)...)
			}
		}
	}
}

func runC05_5(c *core.Ctx) {
	v := vocabOf(c)
	if v == nil {
		return
	}
	trig := c.P.Func("pkg/netpoll", "Poller.Trigger")
	register := c.P.Func("", "eventloop.register")
	register0 := c.P.Func("", "eventloop.register0")
	if !c.Need("Trigger", trig) || !c.Need("register", register) || !c.Need("register0", register0) {
		return
	}
	for _, f := range v.funcs {
		type unit struct{ body *ast.BlockStmt }
		var ctorLoops []types.Object
		var ctorPos []token.Pos
		var regLoops []flow.Path
		var regPos []token.Pos
		for _, call := range callsIn(f.Decl.Body, true) {
			cf := flow.CalleeFunc(f.Info, call)
			if cf != nil && v.byObj[cf] != nil {
				idx := -1
				switch nameOf(cf) {
				case "newStreamConn":
					idx = 2
				case "newUDPConn":
					idx = 1
				}
				if idx >= 0 && len(call.Args) > idx {
					ctorLoops = append(ctorLoops, flow.ObjOf(f.Info, call.Args[idx]))
					ctorPos = append(ctorPos, call.Pos())
				}
				if flow.SameFunc(cf, register0) {
					regLoops = append(regLoops, flow.PathOf(f.Info, flow.Recv(call)))
					regPos = append(regPos, call.Pos())
				}
			}
			if flow.IsCall(f.Info, call, trig) && len(call.Args) == 3 {
				if sel, ok := ast.Unparen(call.Args[1]).(*ast.SelectorExpr); ok {
					if s, ok := f.Info.Selections[sel]; ok && s.Obj() == register {
						bp := flow.PathOf(f.Info, sel.X)
						rp := flow.PathOf(f.Info, flow.Recv(call))
						if rp.Root == bp.Root && rp.Sel == bp.Sel+".poller" {
							regLoops = append(regLoops, bp)
						} else {
							regLoops = append(regLoops, flow.Path{})
						}
						regPos = append(regPos, call.Pos())
					}
				}
			}
		}
		if len(ctorLoops) == 0 || len(regLoops) == 0 || f.Name == "gnet.(*eventloop).readUDP" {
			continue
		}
		for i, rp := range regLoops {
			ok := rp.Valid() && rp.Sel == ""
			for _, cl := range ctorLoops {
				if cl == nil || cl != rp.Root {
					ok = false
				}
			}
			// the loop variable must be assigned exactly once
			if ok {
				if vv, isVar := rp.Root.(*types.Var); isVar && !isParamOrRecv(f, vv) && defOf(f.Info, f.Decl.Body, vv) == nil {
					ok = false
				}
			}
			c.Check(ok, f.Name, "registration on the constructed loop #"+itoa(i+1), regPos[i], "conn.loop is the loop that registers and serves the conn",
				"the connection is constructed with one event loop but registered on another: its callbacks would run on a loop that c.loop/c.EventLoop() does not name, and AsyncWrite/Close go to the wrong poller")
		}
	}
}

func isParamOrRecv(f *fn, v *types.Var) bool {
	if f.recvVar() == v {
		return true
	}
	for i := 0; ; i++ {
		p := f.param(i)
		if p == nil {
			return false
		}
		if p == v {
			return true
		}
	}
}

func runC05_6(c *core.Ctx) {
	allFuncs(c, func(f *fn) {
		inLogging := strings.HasSuffix(f.Pkg.PkgPath, "/pkg/logging") || strings.HasSuffix(f.Pkg.PkgPath, "/pkg/pool/goroutine")
		ast.Inspect(f.Decl.Body, func(n ast.Node) bool {
			switch x := n.(type) {
			case *ast.GoStmt:
				c.Check(inLogging, f.Name, "go statement", x.Pos(), "outside the event-loop machinery",
					"a goroutine is started with a bare go statement in library code: it is not joined by the engine's errgroup and may run handler code after Run returned or concurrently with the loop")
			case *ast.CallExpr:
				cf := flow.CalleeFunc(f.Info, x)
				if cf == nil || cf.Pkg() == nil {
					return true
				}
				if nameOf(cf) == "Go" && strings.HasSuffix(cf.Pkg().Path(), "errgroup") {
					// receiver must be <engine>.concurrency
					r := flow.Recv(x)
					ok := r != nil && flow.FieldOf(f.Info, r) != nil && nameOf(flow.FieldOf(f.Info, r)) == "concurrency"
					startup := f.Name == "gnet.(*engine).runEventLoops" || f.Name == "gnet.(*engine).activateReactors" || f.Name == "gnet.(*Client).Start"
					c.Check(ok && startup, f.Name, "errgroup.Go("+exprStr(x.Args[0])+")", x.Pos(), "loop/ticker goroutine joined by engine.concurrency.Wait()",
						"a goroutine is spawned outside the start-up functions or not on engine.concurrency: a loop could be started twice or never joined")
				}
				if nameOf(cf) == "Submit" && strings.Contains(cf.Pkg().Path(), "ants") {
					c.Check(f.Name == "gnet.(*eventloop).enroll", f.Name, "worker pool Submit", x.Pos(), "enrol worker (reaches no user callback: C05.4)",
						"a worker-pool task is submitted from an unexpected function")
				}
			}
			return true
		})
	})
}
