package rules

import (
	"go/ast"
	"go/constant"
	"go/token"
	"go/types"

	"golang.org/x/tools/go/ssa"

	"gnetlint/core"
	"gnetlint/flow"
)

func init() {
	describe(&PropInfo{ID: "C09",
		Explanation: "Decides four cursor-discipline clauses and purity of observers of ring.Buffer: (1) every grow() request is the current size/content plus a positive term (a request that does not exceed " +
			"the current capacity leaves a full buffer full); (2) every producer writes at the write cursor rb.w, or at offset 0 only after the segment up to the end was filled exactly (or rb.w == 0 is established); " +
			"(3) isEmpty is cleared only where a positive byte count is established; (4) every advance of rb.r is followed by the r==w → Reset test before returning (table exceptions: Discard under n<Buffered, " +
			"the first segment of the split WriteTo); (5) the observers write no field, rb.r is written only by read-type and rb.w only by write-type operations. Modular arithmetic of wrapped copies, growth policy " +
			"values and content equality are not decided.",
		Assumptions: []string{"callers respect the io.Reader/io.Writer contracts (0 <= n <= len(p))"}})

	register(&core.Rule{ID: "C09.1", Prop: "C09", MinSites: 3,
		Desc: "grow contract: the capacity requested from grow() is a sum containing rb.size or rb.Buffered() plus a positive term",
		Run:  runC09_1})
	register(&core.Rule{ID: "C09.2", Prop: "C09", MinSites: 6,
		Desc: "producer destination: copy/Read into rb.buf starts at rb.w, or at 0 only after an exact fill of the tail segment (src[:size-w]) or under an established rb.w == 0",
		Run:  runC09_2})
	register(&core.Rule{ID: "C09.3", Prop: "C09", MinSites: 5,
		Desc: "isEmpty = false only where a positive number of written bytes is established on every path",
		Run:  runC09_3})
	register(&core.Rule{ID: "C09.4", Prop: "C09", MinSites: 5,
		Desc: "reset-on-drain: after an advance of rb.r every return is preceded by the rb.r == rb.w test whose true edge calls Reset()",
		Run:  runC09_4})
	register(&core.Rule{ID: "C09.6", Prop: "C09", MinSites: 3,
		Desc: "split-copy continuity: when a transfer is split at the physical end of the ring, the second piece continues exactly where the first ended (offset = size - cursor, the length of the first piece; remaining = total - that length)",
		Run:  runC09_6})
	register(&core.Rule{ID: "C09.5", Prop: "C09", MinSites: 12,
		Desc: "observers (Peek, peekAll, Bytes, Buffered, Available, Len, Cap, IsEmpty, IsFull) write no Buffer field; rb.r is written only by read-type operations, rb.w only by write-type ones",
		Run:  runC09_5})
}

type ringAnch struct {
	pk                       string
	buf, size, r, w, isEmpty *types.Var
	grow, reset, buffered    *types.Func
	funcs                    []*fn
}

func ringAnchors(c *core.Ctx) *ringAnch {
	a := &ringAnch{pk: "pkg/buffer/ring"}
	a.buf, a.size, a.r, a.w, a.isEmpty = c.P.Field(a.pk, "Buffer", "buf"), c.P.Field(a.pk, "Buffer", "size"), c.P.Field(a.pk, "Buffer", "r"), c.P.Field(a.pk, "Buffer", "w"), c.P.Field(a.pk, "Buffer", "isEmpty")
	a.grow, a.reset, a.buffered = c.P.Func(a.pk, "Buffer.grow"), c.P.Func(a.pk, "Buffer.Reset"), c.P.Func(a.pk, "Buffer.Buffered")
	ok := true
	for what, x := range map[string]any{"ring.buf": a.buf, "ring.size": a.size, "ring.r": a.r, "ring.w": a.w, "ring.isEmpty": a.isEmpty, "ring.grow": a.grow, "ring.Reset": a.reset, "ring.Buffered": a.buffered} {
		if !c.Need(what, x) {
			ok = false
		}
	}
	if !ok {
		return nil
	}
	pk := c.P.Pkg(a.pk)
	for _, d := range c.P.FuncsOf(pk) {
		obj, _ := pk.TypesInfo.Defs[d.Name].(*types.Func)
		if obj != nil {
			a.funcs = append(a.funcs, &fn{P: c.P, Obj: obj, Decl: d, Info: pk.TypesInfo, Pkg: pk, Name: core.FuncName(obj)})
		}
	}
	return a
}

// addTerms flattens e into signed additive terms.
func addTerms(e ast.Expr, sign int, out *[]struct {
	e    ast.Expr
	sign int
}) {
	e = ast.Unparen(e)
	if be, ok := e.(*ast.BinaryExpr); ok && (be.Op == token.ADD || be.Op == token.SUB) {
		addTerms(be.X, sign, out)
		s2 := sign
		if be.Op == token.SUB {
			s2 = -sign
		}
		addTerms(be.Y, s2, out)
		return
	}
	*out = append(*out, struct {
		e    ast.Expr
		sign int
	}{e, sign})
}

func runC09_1(c *core.Ctx) {
	a := ringAnchors(c)
	if a == nil {
		return
	}
	for _, f := range a.funcs {
		for _, call := range callsIn(f.Decl.Body, false) {
			if !flow.IsCall(f.Info, call, a.grow) || len(call.Args) != 1 {
				continue
			}
			var terms []struct {
				e    ast.Expr
				sign int
			}
			addTerms(call.Args[0], 1, &terms)
			hasBase, hasPos := false, false
			for _, t := range terms {
				if t.sign < 0 {
					continue
				}
				if flow.FieldOf(f.Info, t.e) == a.size {
					hasBase = true
					continue
				}
				if cl, ok := t.e.(*ast.CallExpr); ok && flow.IsCall(f.Info, cl, a.buffered) {
					hasBase = true
					continue
				}
				if cv := flow.ConstOf(f.Info, t.e); cv != nil {
					if constant.Sign(cv) > 0 {
						hasPos = true
					}
					continue
				}
				hasPos = true // a variable amount (n); its positivity is the caller's early return (C09.3)
			}
			c.Check(hasBase && hasPos, f.Name, "grow("+exprStr(call.Args[0])+")", call.Pos(), "request exceeds what the buffer already holds",
				"grow is asked for "+exprStr(call.Args[0])+", which does not include the current size/content: for a full buffer of at least the growth threshold the capacity does not change, the buffer stays full and the following write overruns it (index out of range / lost byte)")
		}
	}
}

func runC09_2(c *core.Ctx) {
	a := ringAnchors(c)
	if a == nil {
		return
	}
	for _, f := range a.funcs {
		if f.Obj == a.grow || nameOf(f.Obj) == "New" {
			continue
		}
		// producer destinations: copy(dst, _) with dst based on rb.buf; X.Read(dst); rb.buf[i] = v
		type dest struct {
			lo   ast.Expr // nil = 0
			node ast.Expr
			pos  token.Pos
			src  ast.Expr
		}
		destOf := func(e ast.Expr) (*dest, bool) {
			e = ast.Unparen(e)
			if flow.FieldOf(f.Info, e) == a.buf {
				return &dest{lo: nil, node: e, pos: e.Pos()}, true
			}
			if se, ok := e.(*ast.SliceExpr); ok && flow.FieldOf(f.Info, se.X) == a.buf {
				return &dest{lo: se.Low, node: e, pos: e.Pos()}, true
			}
			return nil, false
		}
		var dests []*dest
		ast.Inspect(f.Decl.Body, func(n ast.Node) bool {
			switch x := n.(type) {
			case *ast.CallExpr:
				if id, ok := x.Fun.(*ast.Ident); ok && id.Name == "copy" && len(x.Args) == 2 {
					if d, ok := destOf(x.Args[0]); ok {
						d.src = x.Args[1]
						dests = append(dests, d)
					}
				}
				if sel, ok := x.Fun.(*ast.SelectorExpr); ok && sel.Sel.Name == "Read" && len(x.Args) == 1 {
					if d, ok := destOf(x.Args[0]); ok {
						dests = append(dests, d)
					}
				}
			case *ast.AssignStmt:
				for _, l := range x.Lhs {
					if ie, ok := ast.Unparen(l).(*ast.IndexExpr); ok && flow.FieldOf(f.Info, ie.X) == a.buf {
						dests = append(dests, &dest{lo: ie.Index, node: ie, pos: ie.Pos()})
					}
				}
			}
			return true
		})
		if len(dests) == 0 {
			continue
		}
		const fWrapped = 1
		// exact fill: copy(rb.buf[rb.w:], src[:k]) with k := rb.size - rb.w
		isExactFill := func(call *ast.CallExpr) bool {
			if id, ok := call.Fun.(*ast.Ident); !ok || id.Name != "copy" || len(call.Args) != 2 {
				return false
			}
			d, ok := ast.Unparen(call.Args[0]).(*ast.SliceExpr)
			if !ok || flow.FieldOf(f.Info, d.X) != a.buf || d.Low == nil || flow.FieldOf(f.Info, d.Low) != a.w || d.High != nil {
				return false
			}
			s, ok := ast.Unparen(call.Args[1]).(*ast.SliceExpr)
			if !ok || s.High == nil || s.Low != nil {
				return false
			}
			k, _ := flow.ObjOf(f.Info, s.High).(*types.Var)
			if k == nil {
				return false
			}
			def := defOf(f.Info, f.Decl.Body, k)
			be, ok := ast.Unparen(def).(*ast.BinaryExpr)
			return ok && def != nil && be.Op == token.SUB && flow.FieldOf(f.Info, be.X) == a.size && flow.FieldOf(f.Info, be.Y) == a.w
		}
		p := &flow.Problem{Must: true}
		p.Node = func(b *flow.Block, i int, n ast.Node, in uint64) uint64 {
			flow.Events(n, func(x ast.Node) {
				switch y := x.(type) {
				case *ast.CallExpr:
					if isExactFill(y) {
						in |= fWrapped
					}
				case *ast.AssignStmt:
					for _, l := range y.Lhs {
						if flow.FieldOf(f.Info, l) == a.w {
							in &^= fWrapped
						}
					}
				}
			})
			return in
		}
		p.Edge = func(e *flow.Edge, in uint64) uint64 {
			if e.Cond != nil && e.Tag == nil {
				if x, y, op, ok := flow.Cmp(e.Cond); ok && flow.FieldOf(f.Info, x) == a.w {
					if cv := flow.ConstOf(f.Info, y); cv != nil && constant.Sign(cv) == 0 && (op == token.EQL) == e.Sense {
						in |= fWrapped
					}
				}
			}
			return in
		}
		sol := f.Graph().Solve(p)
		k := 0
		sol.Walk(func(b *flow.Block, i int, n ast.Node, before uint64) {
			cur := before
			flow.Events(n, func(x ast.Node) {
				if call, ok := x.(*ast.CallExpr); ok && isExactFill(call) {
					// the exact-fill copy itself is judged before its own effect
					for _, d := range dests {
						if d.node == ast.Unparen(call.Args[0]) {
							k++
							c.Ok(f.Name, "destination #"+itoa(k)+" "+exprStr(d.node), d.pos, "starts at the write cursor")
							d.node = nil
						}
					}
					cur |= fWrapped
					return
				}
				e, ok := x.(ast.Expr)
				if !ok {
					return
				}
				for _, d := range dests {
					if d.node == nil || d.node != e {
						continue
					}
					k++
					construct := "destination #" + itoa(k) + " " + exprStr(d.node)
					switch {
					case d.lo != nil && flow.FieldOf(f.Info, d.lo) == a.w:
						c.Ok(f.Name, construct, d.pos, "starts at the write cursor")
					case d.lo == nil || (flow.ConstOf(f.Info, d.lo) != nil && constant.Sign(flow.ConstOf(f.Info, d.lo)) == 0):
						c.Check(cur&fWrapped != 0, f.Name, construct, d.pos, "starts at 0 after the tail segment was filled exactly",
							"data is stored at the start of rb.buf although the segment from rb.w to the end may not have been filled completely (or rb.w is not 0): the bytes are placed where the write cursor does not point, later reads return stale bytes in their place", sol.Witness(b, fWrapped)...)
					default:
						c.Violate(f.Name, construct, d.pos, "data is stored at offset "+exprStr(d.lo)+" which is neither the write cursor rb.w nor 0")
					}
					d.node = nil
				}
			})
		})
	}
}

func runC09_3(c *core.Ctx) {
	a := ringAnchors(c)
	if a == nil {
		return
	}
	for _, f := range a.funcs {
		// sites: rb.isEmpty = false
		var sites []*ast.AssignStmt
		ast.Inspect(f.Decl.Body, func(n ast.Node) bool {
			if as, ok := n.(*ast.AssignStmt); ok {
				for i, l := range as.Lhs {
					if flow.FieldOf(f.Info, l) == a.isEmpty && len(as.Rhs) == len(as.Lhs) {
						if cv := flow.ConstOf(f.Info, as.Rhs[i]); cv != nil && !constant.BoolVal(cv) {
							sites = append(sites, as)
						}
					}
				}
			}
			return true
		})
		if len(sites) == 0 {
			continue
		}
		// must-fact POS: some int variable/field known > 0 on this path (n == 0 false, m > 0 true, rb.w > 0 true),
		// or a single element store rb.buf[rb.w] = c happened
		const fPos = 1
		p := &flow.Problem{Must: true}
		p.Node = func(b *flow.Block, i int, n ast.Node, in uint64) uint64 {
			if as, ok := n.(*ast.AssignStmt); ok {
				for _, l := range as.Lhs {
					if ie, ok := ast.Unparen(l).(*ast.IndexExpr); ok && flow.FieldOf(f.Info, ie.X) == a.buf {
						in |= fPos
					}
				}
				// a new count is produced: previous positivity knowledge is stale
				if len(as.Rhs) == 1 {
					if call, ok := ast.Unparen(as.Rhs[0]).(*ast.CallExpr); ok {
						if sel, ok := call.Fun.(*ast.SelectorExpr); ok && sel.Sel.Name == "Read" {
							in &^= fPos
						}
					}
				}
			}
			return in
		}
		p.Edge = func(e *flow.Edge, in uint64) uint64 {
			if e.Cond == nil || e.Tag != nil {
				return in
			}
			x, y, op, ok := flow.Cmp(e.Cond)
			if !ok {
				return in
			}
			cv := flow.ConstOf(f.Info, y)
			if cv == nil || cv.Kind() != constant.Int {
				return in
			}
			t := f.Info.TypeOf(x)
			if t == nil {
				return in
			}
			if bt, ok := t.Underlying().(*types.Basic); !ok || bt.Info()&types.IsInteger == 0 {
				return in
			}
			k, _ := constant.Int64Val(cv)
			pos := false
			switch op {
			case token.GTR:
				pos = e.Sense && k >= 0
			case token.GEQ:
				pos = e.Sense && k >= 1
			case token.EQL:
				pos = !e.Sense && k == 0 && isNonNegativeExpr(f, x)
			case token.NEQ:
				pos = e.Sense && k == 0 && isNonNegativeExpr(f, x)
			case token.LEQ:
				pos = !e.Sense && k >= 0
			case token.LSS:
				pos = !e.Sense && k >= 1
			}
			if pos {
				in |= fPos
			}
			return in
		}
		sol := f.Graph().Solve(p)
		k := 0
		sol.Walk(func(b *flow.Block, i int, n ast.Node, before uint64) {
			for _, s := range sites {
				if n == ast.Node(s) {
					k++
					c.Check(before&fPos != 0, f.Name, "isEmpty = false #"+itoa(k), s.Pos(), "a positive number of bytes was stored on every path to this point",
						"the buffer is marked non-empty although the number of bytes just stored may be zero: with r == w an empty buffer then reports Buffered() == size and yields garbage", sol.Witness(b, fPos)...)
				}
			}
		})
	}
}

// isNonNegativeExpr: len(x), or a variable defined as len(x) (n = len(p)).
func isNonNegativeExpr(f *fn, e ast.Expr) bool {
	e = ast.Unparen(e)
	if call, ok := e.(*ast.CallExpr); ok {
		if id, ok := call.Fun.(*ast.Ident); ok && id.Name == "len" {
			return true
		}
	}
	if o, ok := flow.ObjOf(f.Info, e).(*types.Var); ok && !o.IsField() {
		if d := defOf(f.Info, f.Decl.Body, o); d != nil {
			if call, ok := ast.Unparen(d).(*ast.CallExpr); ok {
				if id, ok := call.Fun.(*ast.Ident); ok && id.Name == "len" {
					return true
				}
			}
		}
	}
	return false
}

func runC09_4(c *core.Ctx) {
	a := ringAnchors(c)
	if a == nil {
		return
	}
	for _, f := range a.funcs {
		if f.Obj == a.grow || f.Obj == a.reset || nameOf(f.Obj) == "New" {
			continue
		}
		advances := false
		ast.Inspect(f.Decl.Body, func(n ast.Node) bool {
			switch x := n.(type) {
			case *ast.AssignStmt:
				for _, l := range x.Lhs {
					if flow.FieldOf(f.Info, l) == a.r {
						advances = true
					}
				}
			case *ast.IncDecStmt:
				if flow.FieldOf(f.Info, x.X) == a.r {
					advances = true
				}
			}
			return true
		})
		if !advances {
			continue
		}
		const (
			sClean = iota
			sAdvanced
			sTestedEq // on the r == w true edge, Reset still owed
		)
		isRW := func(e ast.Expr) bool {
			x, y, op, ok := flow.Cmp(e)
			return ok && op == token.EQL && ((flow.FieldOf(f.Info, x) == a.r && flow.FieldOf(f.Info, y) == a.w) || (flow.FieldOf(f.Info, x) == a.w && flow.FieldOf(f.Info, y) == a.r))
		}
		au := &flow.Auto{Start: sClean}
		au.Node = func(b *flow.Block, i int, n ast.Node, s int) int {
			flow.Events(n, func(x ast.Node) {
				switch y := x.(type) {
				case *ast.AssignStmt:
					for _, l := range y.Lhs {
						if flow.FieldOf(f.Info, l) == a.r {
							s = sAdvanced
						}
					}
				case *ast.IncDecStmt:
					if flow.FieldOf(f.Info, y.X) == a.r {
						s = sAdvanced
					}
				case *ast.CallExpr:
					if flow.IsCall(f.Info, y, a.reset) {
						s = sClean
					}
				}
			})
			return s
		}
		au.Edge = func(e *flow.Edge, s int) int {
			if e.Cond != nil && e.Tag == nil && isRW(e.Cond) && s == sAdvanced {
				if e.Sense {
					return sTestedEq
				}
				return sClean
			}
			return s
		}
		sol := f.Graph().Run(au)
		k := 0
		sol.AtExit(func(b *flow.Block, _ uint64) {
			st := sol.Out(b)
			if st&(1<<sAdvanced|1<<sTestedEq) == 0 {
				return
			}
			k++
			construct := "return after advancing rb.r #" + itoa(k)
			// table exceptions
			switch {
			case nameOf(f.Obj) == "Discard":
				c.Ok(f.Name, construct, b.Return.Pos(), "exception: Discard advances only under n < Buffered(), so the buffer cannot become empty")
			case nameOf(f.Obj) == "WriteTo" && st&(1<<sTestedEq) == 0 && isFirstSegmentReturn(f, a, b):
				c.Ok(f.Name, construct, b.Return.Pos(), "exception: first segment of the split WriteTo (error or short write): m <= c1 < Buffered()")
			default:
				c.Violate(f.Name, construct, b.Return.Pos(), "a read-type operation can return after advancing rb.r without the `rb.r == rb.w` → Reset() test: a drained buffer keeps r == w with isEmpty false and is treated as full ("+itoa(0)+" bytes become size bytes of garbage)")
			}
		})
		if k == 0 {
			c.Ok(f.Name, "reset-on-drain", f.Decl.Pos(), "every advance of rb.r is followed by the drain test")
		}
	}
}

// isFirstSegmentReturn: the return lies before the second w.Write of the split branch (the one writing rb.buf[:c2]).
func isFirstSegmentReturn(f *fn, a *ringAnch, b *flow.Block) bool {
	var first, second token.Pos
	ast.Inspect(f.Decl.Body, func(n ast.Node) bool {
		if call, ok := n.(*ast.CallExpr); ok && len(call.Args) == 1 {
			if se, ok := ast.Unparen(call.Args[0]).(*ast.SliceExpr); ok && flow.FieldOf(f.Info, se.X) == a.buf {
				if sel, ok := call.Fun.(*ast.SelectorExpr); ok && sel.Sel.Name == "Write" {
					switch {
					case se.Low == nil && se.High != nil:
						second = call.Pos() // w.Write(rb.buf[:c2])
					case se.Low != nil && se.High == nil && flow.FieldOf(f.Info, se.Low) == a.r:
						first = call.Pos() // w.Write(rb.buf[rb.r:])
					}
				}
			}
		}
		return true
	})
	return first.IsValid() && second.IsValid() && first < b.Return.Pos() && b.Return.Pos() < second
}

func runC09_5(c *core.Ctx) {
	a := ringAnchors(c)
	if a == nil {
		return
	}
	s := c.P.BuildSSA()
	observers := map[string]bool{"Peek": true, "peekAll": true, "Bytes": true, "Buffered": true, "Available": true, "Len": true, "Cap": true, "IsEmpty": true, "IsFull": true}
	readOps := map[string]bool{"Read": true, "ReadByte": true, "Discard": true, "WriteTo": true, "Reset": true, "grow": true}
	writeOps := map[string]bool{"Write": true, "WriteByte": true, "WriteString": true, "ReadFrom": true, "Reset": true, "grow": true}
	fields := map[*types.Var]string{a.buf: "buf", a.size: "size", a.r: "r", a.w: "w", a.isEmpty: "isEmpty"}
	// direct writers
	writers := map[string]map[string]bool{} // func -> fields written (directly)
	for _, fa := range s.Accesses() {
		name, ok := fields[fa.Field]
		if !ok || fa.Kind != core.AccWrite {
			continue
		}
		if isFresh(fa.Base) {
			continue
		}
		fnName := ssaName(fa.Fn)
		if writers[fnName] == nil {
			writers[fnName] = map[string]bool{}
		}
		writers[fnName][name] = true
		switch name {
		case "r":
			c.Check(readOps[fnName], core.SSAName(fa.Fn), "write of Buffer.r", fa.Pos, "read cursor moved by a read-type operation", "rb.r is written by "+fnName+", which is not a read-type operation: observers or producers would consume data")
		case "w":
			c.Check(writeOps[fnName], core.SSAName(fa.Fn), "write of Buffer.w", fa.Pos, "write cursor moved by a write-type operation", "rb.w is written by "+fnName+", which is not a write-type operation")
		}
	}
	// observers: no direct write and no call to a writer (static callees in the package)
	for _, fn := range s.ModFuncs {
		if fn.Pkg == nil || fn.Pkg.Pkg.Path() != core.ModPath+"/"+a.pk || fn.Signature.Recv() == nil || !observers[ssaName(fn)] {
			continue
		}
		bad := ""
		if len(writers[ssaName(fn)]) > 0 {
			bad = "writes a field directly"
		}
		for _, b := range fn.Blocks {
			for _, in := range b.Instrs {
				if ci, ok := in.(ssa.CallInstruction); ok {
					if callee := ci.Common().StaticCallee(); callee != nil && callee.Pkg == fn.Pkg && len(writers[ssaName(callee)]) > 0 && callee.Signature.Recv() != nil {
						bad = "calls " + callee.Name() + ", which writes Buffer fields"
					}
				}
			}
		}
		c.Check(bad == "", core.SSAName(fn), "observer is pure", fn.Pos(), "writes no Buffer field", "observer "+fn.Name()+" "+bad+": Peek/Bytes/Buffered & co. must not consume or move cursors")
	}
}

func runC09_6(c *core.Ctx) {
	a := ringAnchors(c)
	if a == nil {
		return
	}
	for _, f := range a.funcs {
		// variables defined as rb.size - rb.<cursor>
		firstLen := map[types.Object]*types.Var{}   // var -> cursor field
		remDef := map[types.Object]types.Object{}   // c2 -> K1 where c2 := T - K1
		remTotal := map[types.Object]types.Object{} // c2 -> T
		// the total of a split transfer: T in the wrap test `rb.r + T <= rb.size`
		var total types.Object
		ast.Inspect(f.Decl.Body, func(n ast.Node) bool {
			if x, y, op, ok := func() (ast.Expr, ast.Expr, token.Token, bool) {
				if e, ok := n.(ast.Expr); ok {
					return flow.Cmp(e)
				}
				return nil, nil, 0, false
			}(); ok && op == token.LEQ && flow.FieldOf(f.Info, y) == a.size {
				if be, ok := ast.Unparen(x).(*ast.BinaryExpr); ok && be.Op == token.ADD && flow.FieldOf(f.Info, be.X) == a.r {
					total = flow.ObjOf(f.Info, be.Y)
				}
			}
			return true
		})
		ast.Inspect(f.Decl.Body, func(n ast.Node) bool {
			as, ok := n.(*ast.AssignStmt)
			if !ok || len(as.Lhs) != 1 || len(as.Rhs) != 1 {
				return true
			}
			be, ok := ast.Unparen(as.Rhs[0]).(*ast.BinaryExpr)
			if !ok || be.Op != token.SUB {
				return true
			}
			o := flow.ObjOf(f.Info, as.Lhs[0])
			if o == nil {
				return true
			}
			if flow.FieldOf(f.Info, be.X) == a.size {
				if cur := flow.FieldOf(f.Info, be.Y); cur == a.r || cur == a.w {
					firstLen[o] = cur
				}
			} else if k := flow.ObjOf(f.Info, be.Y); k != nil {
				remDef[o] = k
				remTotal[o] = flow.ObjOf(f.Info, be.X)
			}
			return true
		})
		if len(firstLen) == 0 {
			continue
		}
		isTail := func(e ast.Expr, cur *types.Var) bool { // rb.buf[rb.cur:]
			se, ok := ast.Unparen(e).(*ast.SliceExpr)
			return ok && flow.FieldOf(f.Info, se.X) == a.buf && se.Low != nil && se.High == nil && flow.FieldOf(f.Info, se.Low) == cur
		}
		isHead := func(e ast.Expr) (types.Object, bool) { // rb.buf[:k] or rb.buf
			e = ast.Unparen(e)
			if flow.FieldOf(f.Info, e) == a.buf {
				return nil, true
			}
			se, ok := e.(*ast.SliceExpr)
			if ok && flow.FieldOf(f.Info, se.X) == a.buf && se.Low == nil && se.High != nil {
				return flow.ObjOf(f.Info, se.High), true
			}
			return nil, false
		}
		var calls []*ast.CallExpr
		ast.Inspect(f.Decl.Body, func(n ast.Node) bool {
			if call, ok := n.(*ast.CallExpr); ok {
				if id, ok := call.Fun.(*ast.Ident); ok && id.Name == "copy" && len(call.Args) == 2 {
					calls = append(calls, call)
				}
			}
			return true
		})
		k := 0
		for i := 0; i+1 < len(calls); i++ {
			c1, c2 := calls[i], calls[i+1]
			// consumer: copy(p, rb.buf[rb.r:]) ; copy(p[K:], rb.buf[:c2])
			if isTail(c1.Args[1], a.r) {
				if hi, ok := isHead(c2.Args[1]); ok {
					k++
					dst := flow.ObjOf(f.Info, c1.Args[0])
					se, isSl := ast.Unparen(c2.Args[0]).(*ast.SliceExpr)
					okk := isSl && dst != nil && flow.ObjOf(f.Info, se.X) == dst && se.Low != nil && se.High == nil
					var kObj types.Object
					if okk {
						kObj = flow.ObjOf(f.Info, se.Low)
						okk = kObj != nil && firstLen[kObj] == a.r
					}
					if okk && hi != nil {
						okk = remDef[hi] == kObj && (total == nil || remTotal[hi] == total)
					}
					c.Check(okk, f.Name, "consumer split #"+itoa(k), c2.Pos(), "second piece lands right behind the first (offset size - r) and is total - first long",
						"a read split at the end of the ring places its second piece at "+exprStr(c2.Args[0])+" instead of right behind the size-r bytes of the first piece (or takes a length other than total minus that): the assembled bytes are not the buffered stream")
				}
			}
			// producer: copy(rb.buf[rb.w:], p[:K]) ; copy(rb.buf, p[K:])
			if isTail(c1.Args[0], a.w) {
				if _, ok := isHead(c2.Args[0]); ok {
					k++
					s1, ok1 := ast.Unparen(c1.Args[1]).(*ast.SliceExpr)
					s2, ok2 := ast.Unparen(c2.Args[1]).(*ast.SliceExpr)
					okk := ok1 && ok2 && s1.Low == nil && s1.High != nil && s2.Low != nil && s2.High == nil &&
						flow.ObjOf(f.Info, s1.X) == flow.ObjOf(f.Info, s2.X) && flow.ObjOf(f.Info, s1.High) != nil &&
						flow.ObjOf(f.Info, s1.High) == flow.ObjOf(f.Info, s2.Low) && firstLen[flow.ObjOf(f.Info, s1.High)] == a.w
					c.Check(okk, f.Name, "producer split #"+itoa(k), c2.Pos(), "the payload is cut at size - w and both halves are stored",
						"a write split at the end of the ring does not continue the source exactly where the first piece (size - w bytes) ended: bytes are duplicated or skipped in the stored stream")
				}
			}
		}
		// Peek-style split: head = rb.buf[rb.r:]; tail = rb.buf[:c2] with c2 := m - c1
		ast.Inspect(f.Decl.Body, func(n ast.Node) bool {
			as, ok := n.(*ast.AssignStmt)
			if !ok || len(as.Lhs) != 1 || len(as.Rhs) != 1 {
				return true
			}
			if hi, ok := isHead(as.Rhs[0]); ok && hi != nil {
				if _, isLocal := hi.(*types.Var); isLocal && !hi.(*types.Var).IsField() && nameOf(f.Obj) == "Peek" {
					k++
					c.Check(remDef[hi] != nil && firstLen[remDef[hi]] == a.r && (total == nil || remTotal[hi] == total), f.Name, "peek split #"+itoa(k), as.Pos(), "tail length = requested - (size - r)", "the wrapped part of a Peek has a length other than the request minus the size-r bytes of the head")
				}
			}
			return true
		})
	}
}
