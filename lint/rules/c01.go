package rules

import (
	"go/ast"
	"go/constant"
	"go/token"
	"go/types"

	"gnetlint/core"
	"gnetlint/flow"
)

func init() {
	describe(&PropInfo{ID: "C01", QuickConfigs: []core.Config{cfgDarwin},
		Explanation: "Decides the plumbing between read(2), the loop buffer, the per-connection ring and the Reader methods: (1) after OnTraffic the unconsumed rest of c.buffer is " +
			"appended to the inbound ring before c.buffer is reassigned, the loop reads again or read returns (exempt: close, shutdown sentinel, conn closed inside the callback); " +
			"(2) the window handed to OnTraffic is exactly B[:n] of the buffer and count of the dominating read/recvfrom; (3) every Reader method touches c.buffer only after the ring " +
			"was seen empty or drained (older bytes first); (4) the accounting methods add ring bytes and len(c.buffer); (5) an EOF/RDHUP close is issued only on events without read bits and " +
			"isEOF is set before the final read, whose loop condition honours it; (6) ET mode re-triggers a read when the per-round limit stopped the loop with a full buffer; " +
			"(7) every advance of c.buffer is by the very count that was copied/exposed. Offset arithmetic inside the ring (C09) and byte equality are not decided.",
		Assumptions: []string{"ring.Buffer/elastic.RingBuffer keep FIFO order (C09/C10)", "the kernel reports readable data through the armed events"}})

	register(&core.Rule{ID: "C01.1", Prop: "C01", MinSites: 1,
		Desc: "leftover preserved: in every function that sets c.buffer from a read and calls OnTraffic on a stream conn, each path from the callback to the next read, to a reassignment of c.buffer or to a normal return first appends c.buffer to c.inboundBuffer",
		Run:  runC01_1})
	register(&core.Rule{ID: "C01.2", Prop: "C01", MinSites: 2,
		Desc: "window identity: the slice stored in c.buffer before OnTraffic is B[:n] with B the destination and n the unmodified count of the dominating unix.Read/Recvfrom",
		Run:  runC01_2})
	register(&core.Rule{ID: "C01.3", Prop: "C01", MinSites: 8,
		Desc: "older bytes first: in the Reader methods of *conn every consumption/exposure of c.buffer happens on the inboundBuffer.IsEmpty()==true edge or after a drain call on inboundBuffer / a delegating Reader call",
		Run:  runC01_3})
	register(&core.Rule{ID: "C01.4", Prop: "C01", MinSites: 4,
		Desc: "accounting: every Reader-side function that reads inboundBuffer.Buffered() or len(c.buffer) reads both and adds them",
		Run:  runC01_4})
	register(&core.Rule{ID: "C01.5", Prop: "C01", MinSites: 3,
		Desc: "drain before EOF-close: processIO closes with io.EOF only on events without read bits; on hang-up with readable data it sets isEOF before the final read, and read loops while isEOF",
		Run:  runC01_5})
	register(&core.Rule{ID: "C01.6", Prop: "C01", MinSites: 1,
		Desc: "ET re-arm: when the edge-triggered read loop stops at its per-round limit with a full buffer, a read task for the same conn is triggered on the same loop",
		Run:  runC01_6})
	register(&core.Rule{ID: "C01.7", Prop: "C01", MinSites: 6,
		Desc: "advance equals exposure: every c.buffer = c.buffer[k:] in the Reader methods advances by the count returned by the copy/Write that consumed it, by the bound of the slice just exposed, or by n minus the ring bytes drained before",
		Run:  runC01_7})
}

type inAnch struct {
	v                                    *vocab
	ringWrite, ringIsEmpty, ringBuffered *types.Func
	drains                               map[*types.Func]bool
	isEOF                                *types.Var
	elBuffer                             *types.Var
	readerMethods                        map[string]bool
	resetBuffer                          *types.Func
}

func inAnchors(c *core.Ctx) *inAnch {
	v := vocabOf(c)
	if v == nil {
		return nil
	}
	a := &inAnch{v: v, drains: map[*types.Func]bool{}}
	a.ringWrite = c.P.Func("pkg/buffer/elastic", "RingBuffer.Write")
	a.ringIsEmpty = c.P.Func("pkg/buffer/elastic", "RingBuffer.IsEmpty")
	a.ringBuffered = c.P.Func("pkg/buffer/elastic", "RingBuffer.Buffered")
	for _, m := range []string{"Read", "Discard", "WriteTo", "Peek"} {
		if f := c.P.Func("pkg/buffer/elastic", "RingBuffer."+m); f != nil {
			a.drains[f] = true
		}
	}
	a.isEOF = c.P.Field("", "conn", "isEOF")
	a.elBuffer = c.P.Field("", "eventloop", "buffer")
	a.resetBuffer = c.P.Func("", "conn.resetBuffer")
	a.readerMethods = map[string]bool{"Read": true, "Next": true, "Peek": true, "Discard": true, "WriteTo": true, "InboundBuffered": true}
	ok := len(a.drains) == 4
	for what, x := range map[string]any{"RingBuffer.Write": a.ringWrite, "RingBuffer.IsEmpty": a.ringIsEmpty, "RingBuffer.Buffered": a.ringBuffered,
		"conn.isEOF": a.isEOF, "eventloop.buffer": a.elBuffer, "conn.resetBuffer": a.resetBuffer} {
		if !c.Need(what, x) {
			ok = false
		}
	}
	if !ok {
		c.Undecided("anchor", "inbound anchors", 0, "inbound-path anchors not resolved")
		return nil
	}
	return a
}

func (a *inAnch) onInbound(f *fn, call *ast.CallExpr, m *types.Func) bool {
	if !flow.IsCall(f.Info, call, m) {
		return false
	}
	r := flow.Recv(call)
	return r != nil && flow.FieldOf(f.Info, r) == a.v.inbound
}

func (a *inAnch) isDrain(f *fn, call *ast.CallExpr) bool {
	cf := flow.CalleeFunc(f.Info, call)
	if cf == nil || !a.drains[cf.Origin()] {
		return false
	}
	r := flow.Recv(call)
	return r != nil && flow.FieldOf(f.Info, r) == a.v.inbound
}

// isConnBuffer: e denotes <conn>.buffer
func (a *inAnch) isConnBuffer(f *fn, e ast.Expr) bool { return flow.FieldOf(f.Info, e) == a.v.buffer }

func isReadSyscall(f *fn, call *ast.CallExpr) string {
	if flow.IsPkgFunc(f.Info, call, unixPkg, "Read") {
		return "unix.Read"
	}
	if flow.IsPkgFunc(f.Info, call, unixPkg, "Recvfrom") {
		return "unix.Recvfrom"
	}
	return ""
}

func runC01_1(c *core.Ctx) {
	a := inAnchors(c)
	if a == nil {
		return
	}
	shutdownErr := c.P.Object("pkg/errors", "ErrEngineShutdown")
	if !c.Need("ErrEngineShutdown", shutdownErr) {
		return
	}
	n := 0
	for _, f := range a.v.funcs {
		hasRead, hasTraffic := false, false
		for _, call := range callsIn(f.Decl.Body, false) {
			if flow.IsPkgFunc(f.Info, call, unixPkg, "Read") {
				hasRead = true
			}
			if a.v.isConnCallback(f.Info, call) == "OnTraffic" {
				hasTraffic = true
			}
		}
		if !hasRead || !hasTraffic {
			continue
		}
		n++
		const (
			sClean = iota
			sPending
		)
		type site struct {
			pos  token.Pos
			what string
		}
		var bad []site
		record := false
		step := func(nd ast.Node, s int) int {
			flow.Events(nd, func(x ast.Node) {
				switch e := x.(type) {
				case *ast.CallExpr:
					switch {
					case a.v.isConnCallback(f.Info, e) == "OnTraffic":
						s = sPending
					case a.onInbound(f, e, a.ringWrite) && len(e.Args) == 1 && a.isConnBuffer(f, e.Args[0]):
						s = sClean
					case flow.IsCall(f.Info, e, a.v.closeFn):
						s = sClean
					case flow.IsPkgFunc(f.Info, e, unixPkg, "Read"):
						if s == sPending && record {
							bad = append(bad, site{e.Pos(), "the next read(2) overwrites the loop buffer"})
						}
					}
				case *ast.AssignStmt:
					for _, l := range e.Lhs {
						if a.isConnBuffer(f, l) && s == sPending && record {
							bad = append(bad, site{e.Pos(), "c.buffer is reassigned"})
						}
					}
				case *ast.ReturnStmt:
					if s == sPending && record {
						isSentinel := len(e.Results) == 1 && flow.ObjOf(f.Info, e.Results[0]) == shutdownErr
						if !isSentinel {
							bad = append(bad, site{e.Pos(), "read returns"})
						}
					}
				}
			})
			return s
		}
		au := &flow.Auto{Start: sClean}
		au.Node = func(b *flow.Block, i int, nd ast.Node, s int) int { return step(nd, s) }
		au.Edge = func(e *flow.Edge, s int) int {
			if e.Cond != nil && e.Tag == nil && flow.FieldOf(f.Info, e.Cond) == a.v.opened && !e.Sense {
				return sClean // closed inside the callback: nothing to preserve
			}
			return s
		}
		ig := f.InlinedGraph()
		sol := ig.Run(au)
		record = true
		for _, b := range ig.Blocks {
			if sol.Seen[b.ID] && sol.In[b.ID]&(1<<sPending) != 0 {
				s := sPending
				for _, nd := range b.Nodes {
					s = step(nd, s)
				}
			}
		}
		record = false
		if len(bad) == 0 {
			c.Ok(f.Name, "leftover appended after OnTraffic", f.Decl.Pos(), "c.inboundBuffer.Write(c.buffer) precedes every reuse of the buffer")
		}
		seen := map[token.Pos]bool{}
		for _, s := range bad {
			if seen[s.pos] {
				continue
			}
			seen[s.pos] = true
			c.Violate(f.Name, "leftover lost: "+s.what, s.pos, "after OnTraffic "+s.what+" before the unconsumed rest of c.buffer was appended to c.inboundBuffer: bytes the handler left unread are lost")
		}
	}
	if n == 0 {
		c.Violate("gnet", "stream read path", token.NoPos, "no function reads a stream socket and calls OnTraffic")
	}
}

func runC01_2(c *core.Ctx) {
	a := inAnchors(c)
	if a == nil {
		return
	}
	for _, f := range a.v.funcs {
		// the syscall assignment: n, [sa,] err := unix.Read(fd, B)
		var sysAssign *ast.AssignStmt
		var sysCall *ast.CallExpr
		ast.Inspect(f.Decl.Body, func(nd ast.Node) bool {
			if _, ok := nd.(*ast.FuncLit); ok {
				return false
			}
			if as, ok := nd.(*ast.AssignStmt); ok && len(as.Rhs) == 1 {
				if call, ok := ast.Unparen(as.Rhs[0]).(*ast.CallExpr); ok && isReadSyscall(f, call) != "" {
					sysAssign, sysCall = as, call
				}
			}
			return true
		})
		hasTraffic := false
		for _, call := range callsIn(f.Decl.Body, false) {
			if a.v.isConnCallback(f.Info, call) == "OnTraffic" {
				hasTraffic = true
			}
		}
		if sysAssign == nil || !hasTraffic {
			continue
		}
		nObj := flow.ObjOf(f.Info, sysAssign.Lhs[0])
		bufPath := flow.PathOf(f.Info, sysCall.Args[1])
		// must-fact WINDOW: c.buffer = B[:n] since the syscall, n not reassigned since
		const fWin = 1
		isWindow := func(e ast.Expr) bool {
			se, ok := ast.Unparen(e).(*ast.SliceExpr)
			if !ok || se.Low != nil || se.High == nil || se.Max != nil {
				return false
			}
			return flow.PathOf(f.Info, se.X) == bufPath && bufPath.Valid() && flow.ObjOf(f.Info, se.High) == nObj && nObj != nil
		}
		p := &flow.Problem{Must: true}
		p.Node = func(b *flow.Block, i int, nd ast.Node, in uint64) uint64 {
			flow.Events(nd, func(x ast.Node) {
				as, ok := x.(*ast.AssignStmt)
				if !ok {
					return
				}
				if as == sysAssign {
					in &^= fWin
					return
				}
				for k, l := range as.Lhs {
					if a.isConnBuffer(f, l) {
						in &^= fWin
						if len(as.Rhs) == len(as.Lhs) && isWindow(as.Rhs[k]) {
							in |= fWin
						}
					}
					if flow.ObjOf(f.Info, l) == nObj {
						in &^= fWin
					}
				}
			})
			return in
		}
		sol := f.Graph().Solve(p)
		sol.Walk(func(b *flow.Block, i int, nd ast.Node, before uint64) {
			for _, call := range flow.Calls(nd) {
				if a.v.isConnCallback(f.Info, call) == "OnTraffic" {
					c.Check(before&fWin != 0, f.Name, "window handed to OnTraffic", call.Pos(),
						"c.buffer = "+bufPath.String()+"[:"+nObj.Name()+"] of the dominating "+isReadSyscall(f, sysCall),
						"the bytes exposed to OnTraffic are not exactly "+bufPath.String()+"[:n] of the preceding "+isReadSyscall(f, sysCall)+": bytes are dropped, duplicated or stale data is exposed", sol.Witness(b, fWin)...)
				}
			}
		})
	}
}

// bufferUses returns expressions in nd that use <conn>.buffer other than as the argument of len().
func (a *inAnch) bufferUses(f *fn, nd ast.Node) []ast.Expr {
	var out []ast.Expr
	inLen := map[ast.Expr]bool{}
	ast.Inspect(nd, func(x ast.Node) bool {
		if call, ok := x.(*ast.CallExpr); ok {
			if id, ok := call.Fun.(*ast.Ident); ok && id.Name == "len" && len(call.Args) == 1 {
				if _, isBuiltin := f.Info.Uses[id].(*types.Builtin); isBuiltin {
					inLen[call.Args[0]] = true
				}
			}
		}
		return true
	})
	ast.Inspect(nd, func(x ast.Node) bool {
		if _, ok := x.(*ast.FuncLit); ok {
			return false
		}
		if e, ok := x.(ast.Expr); ok && a.isConnBuffer(f, e) && !inLen[e] {
			out = append(out, e)
		}
		return true
	})
	return out
}

func (a *inAnch) readers() []*fn {
	var out []*fn
	for _, f := range a.v.funcs {
		if rv := f.recvVar(); rv != nil && a.v.isConnPtr(rv.Type()) && a.readerMethods[nameOf(f.Obj)] {
			out = append(out, f)
		}
	}
	return out
}

func runC01_3(c *core.Ctx) {
	a := inAnchors(c)
	if a == nil {
		return
	}
	for _, f := range a.readers() {
		const fOlder = 1
		isDelegate := func(call *ast.CallExpr) bool {
			cf := flow.CalleeFunc(f.Info, call)
			if cf == nil || a.v.byObj[cf] == nil {
				return false
			}
			return a.readerMethods[cf.Name()] && nameOf(cf) != "InboundBuffered" || flow.SameFunc(cf, a.resetBuffer)
		}
		p := &flow.Problem{Must: true}
		p.Node = func(b *flow.Block, i int, nd ast.Node, in uint64) uint64 {
			for _, call := range flow.Calls(nd) {
				if a.isDrain(f, call) || isDelegate(call) {
					in |= fOlder
				}
			}
			return in
		}
		p.Edge = func(e *flow.Edge, in uint64) uint64 {
			if e.Cond != nil && e.Tag == nil && e.Sense {
				if call, ok := ast.Unparen(e.Cond).(*ast.CallExpr); ok && a.onInbound(f, call, a.ringIsEmpty) {
					in |= fOlder
				}
			}
			return in
		}
		sol := f.Graph().Solve(p)
		k := 0
		sol.Walk(func(b *flow.Block, i int, nd ast.Node, before uint64) {
			// facts generated earlier in the same node (e.g. n, _ = c.inboundBuffer.Read(p)) count
			cur := before
			for _, call := range flow.Calls(nd) {
				if a.isDrain(f, call) || isDelegate(call) {
					cur |= fOlder
				}
			}
			for _, u := range a.bufferUses(f, nd) {
				k++
				c.Check(cur&fOlder != 0, f.Name, "use of c.buffer #"+itoa(k), u.Pos(), "ring seen empty or drained before c.buffer is touched",
					"c.buffer (the newest bytes) is consumed/exposed on a path where the inbound ring may still hold older bytes: the handler sees the stream out of order", sol.Witness(b, fOlder)...)
			}
		})
	}
}

func itoa(i int) string {
	if i == 0 {
		return "0"
	}
	s := ""
	for i > 0 {
		s = string(rune('0'+i%10)) + s
		i /= 10
	}
	return s
}

func runC01_4(c *core.Ctx) {
	a := inAnchors(c)
	if a == nil {
		return
	}
	for _, f := range a.readers() {
		var buffered, lens []ast.Expr
		ast.Inspect(f.Decl.Body, func(x ast.Node) bool {
			if call, ok := x.(*ast.CallExpr); ok {
				if a.onInbound(f, call, a.ringBuffered) {
					buffered = append(buffered, call)
				}
				if id, ok := call.Fun.(*ast.Ident); ok && id.Name == "len" && len(call.Args) == 1 && a.isConnBuffer(f, call.Args[0]) {
					lens = append(lens, call)
				}
			}
			return true
		})
		if len(buffered) == 0 && len(lens) == 0 {
			continue
		}
		// resolve locals: x := <buffered call>
		resolves := func(e ast.Expr, targets []ast.Expr) bool {
			e = ast.Unparen(e)
			for _, t := range targets {
				if e == t {
					return true
				}
			}
			if o, ok := flow.ObjOf(f.Info, e).(*types.Var); ok && !o.IsField() {
				if d := defOf(f.Info, f.Decl.Body, o); d != nil {
					for _, t := range targets {
						if ast.Unparen(d) == t {
							return true
						}
					}
				}
			}
			return false
		}
		sum := false
		ast.Inspect(f.Decl.Body, func(x ast.Node) bool {
			if be, ok := x.(*ast.BinaryExpr); ok && be.Op == token.ADD {
				if (resolves(be.X, buffered) && resolves(be.Y, lens)) || (resolves(be.Y, buffered) && resolves(be.X, lens)) {
					sum = true
				}
			}
			return true
		})
		c.Check(sum, f.Name, "ring bytes + len(c.buffer)", f.Decl.Pos(), "both halves of the readable data are added",
			"the readable amount is computed from only one of inboundBuffer.Buffered() and len(c.buffer): InboundBuffered/Next/Peek/Discard miscount what the handler can read")
	}
}

func runC01_5(c *core.Ctx) {
	a := inAnchors(c)
	if a == nil {
		return
	}
	f := getFn(c, "", "conn.processIO")
	readFn := getFn(c, "", "eventloop.read")
	if f == nil || readFn == nil {
		return
	}
	isIOEOF := func(e ast.Expr) bool {
		o := flow.ObjOf(f.Info, e)
		return o != nil && o.Pkg() != nil && o.Pkg().Path() == "io" && nameOf(o) == "EOF"
	}
	if c.P.Cfg.IsLinux() {
		epollin := c.P.ExtObject(unixPkg, "EPOLLIN")
		if !c.Need("unix.EPOLLIN", epollin) {
			return
		}
		inBit, _ := constant.Int64Val(epollin.(*types.Const).Val())
		const fNoRead = 1
		p := &flow.Problem{Must: true}
		p.Edge = func(e *flow.Edge, in uint64) uint64 {
			if e.Cond == nil || e.Tag != nil {
				return in
			}
			x, y, op, ok := flow.Cmp(e.Cond)
			if !ok {
				return in
			}
			// (ev & M) op K, operands in either order; K need not be zero
			kv := flow.ConstOf(f.Info, y)
			if kv == nil {
				if kv = flow.ConstOf(f.Info, x); kv == nil {
					return in
				}
				x = y
			}
			if op != token.EQL && op != token.NEQ {
				return in
			}
			be, ok := seeThrough(f, x).(*ast.BinaryExpr) // ev & M, possibly through a local that names the masked value
			if !ok || be.Op != token.AND {
				return in
			}
			mv := flow.ConstOf(f.Info, be.Y)
			if mv == nil {
				mv = flow.ConstOf(f.Info, be.X)
			}
			if mv == nil {
				return in
			}
			m, _ := constant.Int64Val(mv)
			k, _ := constant.Int64Val(kv)
			if m&inBit == 0 || m < 0 {
				return in
			}
			// decided over every value the masked event can take: the edge establishes "not readable"
			// when no value that takes it has the EPOLLIN bit
			var bits []int64
			for b := int64(1); b != 0 && b <= m; b <<= 1 {
				if m&b != 0 {
					bits = append(bits, b)
				}
			}
			if len(bits) > 12 {
				return in
			}
			taken, readable := false, false
			for sub := 0; sub < 1<<uint(len(bits)); sub++ {
				var v int64
				for i, b := range bits {
					if sub&(1<<uint(i)) != 0 {
						v |= b
					}
				}
				if ((v == k) == (op == token.EQL)) == e.Sense {
					taken = true
					if v&inBit != 0 {
						readable = true
					}
				}
			}
			if taken && !readable {
				in |= fNoRead
			}
			return in
		}
		sol := f.Graph().Solve(p)
		sol.Walk(func(b *flow.Block, i int, nd ast.Node, before uint64) {
			for _, call := range flow.Calls(nd) {
				if flow.IsCall(f.Info, call, a.v.closeFn) && len(call.Args) == 2 && isIOEOF(call.Args[1]) {
					c.Check(before&fNoRead != 0, f.Name, "EOF close only without read bits", call.Pos(), "close(io.EOF) only when the event carries no readable bit",
						"processIO closes the connection with io.EOF although the event may carry EPOLLIN: data the peer sent before closing is never offered to OnTraffic", sol.Witness(b, fNoRead)...)
				}
			}
		})
	}
	if !c.P.Cfg.IsLinux() {
		evRead := c.P.ExtObject(unixPkg, "EVFILT_READ")
		if !c.Need("unix.EVFILT_READ", evRead) {
			return
		}
		const fNotRead = 1
		p := &flow.Problem{Must: true}
		p.Edge = func(e *flow.Edge, in uint64) uint64 {
			if l, r, eq, ok := flow.Equality(e); ok && !eq && (flow.ObjOf(f.Info, r) == evRead || flow.ObjOf(f.Info, l) == evRead) {
				in |= fNotRead
			}
			return in
		}
		sol := f.Graph().Solve(p)
		sol.Walk(func(b *flow.Block, i int, nd ast.Node, before uint64) {
			for _, call := range flow.Calls(nd) {
				if flow.IsCall(f.Info, call, a.v.closeFn) && len(call.Args) == 2 && isIOEOF(call.Args[1]) {
					c.Check(before&fNotRead != 0, f.Name, "EOF close only without read bits", call.Pos(), "close(io.EOF) only for filters other than EVFILT_READ",
						"processIO closes the connection with io.EOF for an EVFILT_READ|EV_EOF event: data the peer sent before closing is never offered to OnTraffic", sol.Witness(b, fNotRead)...)
				}
			}
		})
	}
	// isEOF = true precedes the last el.read on the hang-up branch
	const fEOFSet = 1
	p := &flow.Problem{Must: true}
	p.Node = func(b *flow.Block, i int, nd ast.Node, in uint64) uint64 {
		if as, ok := nd.(*ast.AssignStmt); ok {
			for k, l := range as.Lhs {
				if flow.FieldOf(f.Info, l) == a.isEOF && len(as.Rhs) == len(as.Lhs) {
					if cv := flow.ConstOf(f.Info, as.Rhs[k]); cv != nil && constant.BoolVal(cv) {
						in |= fEOFSet
					}
				}
			}
		}
		return in
	}
	sol := f.Graph().Solve(p)
	found := false
	sol.Walk(func(b *flow.Block, i int, nd ast.Node, before uint64) {
		for _, call := range flow.Calls(nd) {
			if flow.IsCall(f.Info, call, readFn.Obj) && before&fEOFSet != 0 {
				found = true
			}
		}
	})
	c.Check(found, f.Name, "isEOF set before the final read", f.Decl.Pos(), "hang-up with readable data: isEOF = true, then read",
		"processIO no longer sets c.isEOF before the read that has to drain the socket after a hang-up: data sent right before the peer's FIN can be left unread when the connection is closed")
	// read honours isEOF in its loop condition
	g := readFn.Graph()
	var readBlock *flow.Block
	for _, b := range g.Blocks {
		for _, nd := range b.Nodes {
			for _, call := range flow.Calls(nd) {
				if flow.IsPkgFunc(readFn.Info, call, unixPkg, "Read") {
					readBlock = b
				}
			}
		}
	}
	loops := false
	if readBlock != nil {
		for _, b := range g.Blocks {
			for _, e := range b.Succs {
				if e.Cond != nil && e.Tag == nil && flow.FieldOf(readFn.Info, e.Cond) == a.isEOF && e.Sense && reaches(e.To, readBlock) {
					loops = true
				}
			}
		}
	}
	c.Check(loops, readFn.Name, "loop while isEOF", readFn.Decl.Pos(), "read keeps reading while isEOF is set (until EOF/EAGAIN)",
		"(*eventloop).read no longer loops on c.isEOF: after a hang-up only one buffer's worth is read before the connection is closed")
}

func reaches(from, to *flow.Block) bool {
	seen := map[*flow.Block]bool{}
	var dfs func(b *flow.Block) bool
	dfs = func(b *flow.Block) bool {
		if b == to {
			return true
		}
		if seen[b] {
			return false
		}
		seen[b] = true
		for _, e := range b.Succs {
			if dfs(e.To) {
				return true
			}
		}
		return false
	}
	return dfs(from)
}

func runC01_6(c *core.Ctx) {
	a := inAnchors(c)
	if a == nil {
		return
	}
	out := outAnchors(c)
	f := getFn(c, "", "eventloop.read")
	trig := c.P.Func("pkg/netpoll", "Poller.Trigger")
	read0 := c.P.Func("", "eventloop.read0")
	if f == nil || out == nil || !c.Need("Trigger", trig) || !c.Need("read0", read0) {
		return
	}
	const (
		fET = 1 << iota
		fFull
	)
	p := &flow.Problem{Must: true}
	p.Edge = func(e *flow.Edge, in uint64) uint64 {
		if e.Cond == nil || e.Tag != nil || !e.Sense {
			return in
		}
		if out.etCond(f, e.Cond) {
			in |= fET
		}
		if x, y, op, ok := flow.Cmp(e.Cond); ok && (op == token.EQL || op == token.GEQ) {
			isLenBuf := func(e ast.Expr) bool {
				call, ok := ast.Unparen(e).(*ast.CallExpr)
				if !ok || len(call.Args) != 1 {
					return false
				}
				id, ok := call.Fun.(*ast.Ident)
				return ok && id.Name == "len" && flow.FieldOf(f.Info, call.Args[0]) == a.elBuffer
			}
			if isLenBuf(y) || isLenBuf(x) {
				in |= fFull
			}
		}
		return in
	}
	sol := f.Graph().Solve(p)
	found := false
	sol.Walk(func(b *flow.Block, i int, nd ast.Node, before uint64) {
		for _, call := range flow.Calls(nd) {
			if flow.IsCall(f.Info, call, trig) && len(call.Args) == 3 {
				if sel, ok := ast.Unparen(call.Args[1]).(*ast.SelectorExpr); ok {
					if s, ok := f.Info.Selections[sel]; ok && s.Obj() == read0 && v_isConn(a.v, f, call.Args[2]) {
						found = true
						c.Check(before&fET != 0 && before&fFull != 0, f.Name, "re-trigger read under ET ∧ full buffer", call.Pos(), "manual read event issued when the round limit stopped the loop",
							"the manual re-read is no longer issued exactly when edge-triggered mode stopped with a full buffer")
					}
				}
			}
		}
	})
	if !found {
		c.Violate(f.Name, "re-trigger read under ET ∧ full buffer", f.Decl.Pos(),
			"(*eventloop).read never re-triggers itself: in edge-triggered mode, data left in the socket after the per-round limit is never read because no new edge arrives")
	}
}

func v_isConn(v *vocab, f *fn, e ast.Expr) bool {
	t := f.Info.TypeOf(e)
	return t != nil && v.isConnPtr(t)
}

func runC01_7(c *core.Ctx) {
	a := inAnchors(c)
	if a == nil {
		return
	}
	for _, f := range a.readers() {
		// exposures c.buffer[:k]
		exposed := map[types.Object]bool{}
		ast.Inspect(f.Decl.Body, func(x ast.Node) bool {
			if se, ok := x.(*ast.SliceExpr); ok && a.isConnBuffer(f, se.X) && se.Low == nil && se.High != nil {
				if o := flow.ObjOf(f.Info, se.High); o != nil {
					exposed[o] = true
				}
			}
			return true
		})
		// counts returned by copy(_, c.buffer) / w.Write(c.buffer): flow-sensitive, the variable must still
		// hold the count of the most recent consumption when it is used to advance
		var cand []types.Object
		candIdx := func(o types.Object) int {
			for i, x := range cand {
				if x == o {
					return i
				}
			}
			return -1
		}
		isConsume := func(as *ast.AssignStmt) types.Object {
			if len(as.Rhs) != 1 {
				return nil
			}
			call, ok := ast.Unparen(as.Rhs[0]).(*ast.CallExpr)
			if !ok {
				return nil
			}
			for _, arg := range call.Args {
				if a.isConnBuffer(f, arg) {
					return flow.ObjOf(f.Info, as.Lhs[0])
				}
			}
			return nil
		}
		ast.Inspect(f.Decl.Body, func(x ast.Node) bool {
			if as, ok := x.(*ast.AssignStmt); ok {
				if o := isConsume(as); o != nil && candIdx(o) < 0 && len(cand) < 16 {
					cand = append(cand, o)
				}
			}
			return true
		})
		cp := &flow.Problem{Must: true}
		cp.Node = func(b *flow.Block, i int, nd ast.Node, in uint64) uint64 {
			flow.Events(nd, func(x ast.Node) {
				switch as := x.(type) {
				case *ast.AssignStmt:
					if o := isConsume(as); o != nil {
						in = 1 << uint(candIdx(o))
						return
					}
					for _, l := range as.Lhs {
						if k := candIdx(flow.ObjOf(f.Info, l)); k >= 0 {
							in &^= 1 << uint(k)
						}
					}
				case *ast.IncDecStmt:
					if k := candIdx(flow.ObjOf(f.Info, as.X)); k >= 0 {
						in &^= 1 << uint(k)
					}
				}
			})
			return in
		}
		csol := f.Graph().Solve(cp)
		holdsCount := map[*ast.AssignStmt]bool{} // advance statement -> its Low variable holds the latest count
		csol.Walk(func(b *flow.Block, i int, nd ast.Node, before uint64) {
			if as, ok := nd.(*ast.AssignStmt); ok && len(as.Lhs) == 1 && len(as.Rhs) == 1 && a.isConnBuffer(f, as.Lhs[0]) {
				if se, ok := ast.Unparen(as.Rhs[0]).(*ast.SliceExpr); ok && se.Low != nil {
					if k := candIdx(flow.ObjOf(f.Info, se.Low)); k >= 0 && before&(1<<uint(k)) != 0 {
						holdsCount[as] = true
					}
				}
			}
		})
		nParam := f.param(0)
		k := 0
		ast.Inspect(f.Decl.Body, func(x ast.Node) bool {
			as, ok := x.(*ast.AssignStmt)
			if !ok || len(as.Lhs) != 1 || len(as.Rhs) != 1 || !a.isConnBuffer(f, as.Lhs[0]) {
				return true
			}
			se, ok := ast.Unparen(as.Rhs[0]).(*ast.SliceExpr)
			if !ok || !a.isConnBuffer(f, se.X) || se.Low == nil || se.High != nil {
				return true
			}
			k++
			o := flow.ObjOf(f.Info, se.Low)
			okAdv := false
			why := ""
			// n - inBufferLen, with inBufferLen := c.inboundBuffer.Buffered()
			isRest := func(d ast.Expr) bool {
				be, ok := ast.Unparen(d).(*ast.BinaryExpr)
				if !ok || be.Op != token.SUB || flow.ObjOf(f.Info, be.X) != types.Object(nParam) || nParam == nil {
					return false
				}
				ld := seeThrough(f, be.Y)
				call, ok := ld.(*ast.CallExpr)
				return ok && a.onInbound(f, call, a.ringBuffered)
			}
			switch {
			case o == nil && isRest(se.Low):
				okAdv = true
			case o == nil:
				why = "the advance " + exprStr(se.Low) + " is neither a variable nor n minus the ring bytes"
			case holdsCount[as]:
				okAdv = true
			case candIdx(o) >= 0:
				why = "the advance " + exprStr(se.Low) + " no longer holds the count of the latest copy/Write that consumed c.buffer"
			case exposed[o]:
				okAdv = true
			case o == types.Object(nParam) && nParam != nil:
				okAdv = true
			default:
				// remaining := n - inBufferLen
				if d := defOf(f.Info, f.Decl.Body, o); d != nil {
					if be, ok := ast.Unparen(d).(*ast.BinaryExpr); ok && be.Op == token.SUB && flow.ObjOf(f.Info, be.X) == types.Object(nParam) {
						if lo, ok := flow.ObjOf(f.Info, be.Y).(*types.Var); ok {
							if ld := defOf(f.Info, f.Decl.Body, lo); ld != nil {
								if call, ok := ast.Unparen(ld).(*ast.CallExpr); ok && a.onInbound(f, call, a.ringBuffered) {
									okAdv = true
								}
							}
						}
					}
				}
				if !okAdv {
					why = "the advance " + exprStr(se.Low) + " is neither the count of the copy/Write that consumed c.buffer, nor the bound just exposed, nor n minus the ring bytes"
				}
			}
			c.Check(okAdv, f.Name, "advance of c.buffer #"+itoa(k), as.Pos(), "advanced by exactly what was consumed/exposed", why+": bytes are skipped or delivered twice")
			return true
		})
	}
}
