package rules

import (
	"go/ast"
	"go/token"
	"go/types"

	"gnetlint/core"
	"gnetlint/flow"
)

func init() {
	register(&core.Rule{ID: "C11.7", Prop: "C11", MinSites: 4,
		Desc: "a popped segment is settled: on every path from `b := llb.pop()` (b != nil) to a return or to the next pop, b is pushed back, its bytes are returned to the pool (fully consumed) or b itself is returned to the caller – in particular on the error path of a writer that took only part of it",
		Run:  runC11_7})
}

func runC11_7(c *core.Ctx) {
	a := llAnchors(c)
	if a == nil {
		return
	}
	for _, f := range a.funcs {
		if f.Obj == a.pop {
			continue
		}
		// variables bound to pop()
		holders := map[types.Object]bool{}
		ast.Inspect(f.Decl.Body, func(n ast.Node) bool {
			if as, ok := n.(*ast.AssignStmt); ok && len(as.Lhs) == 1 && len(as.Rhs) == 1 {
				if call, ok := ast.Unparen(as.Rhs[0]).(*ast.CallExpr); ok && flow.IsCall(f.Info, call, a.pop) {
					if obj := flow.ObjOf(f.Info, as.Lhs[0]); obj != nil {
						holders[obj] = true
					}
				}
			}
			return true
		})
		// pop() used in any other position hands the node to an expression we do not follow
		for _, call := range callsIn(f.Decl.Body, true) {
			if !flow.IsCall(f.Info, call, a.pop) {
				continue
			}
			bound := false
			ast.Inspect(f.Decl.Body, func(n ast.Node) bool {
				if as, ok := n.(*ast.AssignStmt); ok && len(as.Rhs) == 1 && ast.Unparen(as.Rhs[0]) == ast.Expr(call) {
					bound = true
				}
				if r, ok := n.(*ast.ReturnStmt); ok && len(r.Results) == 1 && ast.Unparen(r.Results[0]) == ast.Expr(call) {
					bound = true // return llb.pop(): handed to the caller
				}
				return true
			})
			if !bound {
				c.Undecided(f.Name, "pop() result", call.Pos(), "the popped node is neither bound to a variable nor returned: idiom not recognised")
			}
		}
		for h := range holders {
			h := h
			construct := "popped " + h.Name() + " settled"
			const (
				sIdle = iota
				sHeld
			)
			var bad token.Pos
			var why string
			record := false
			isH := func(e ast.Expr) bool { return flow.ObjOf(f.Info, e) == h }
			// locals assigned from h.buf
			bufAlias := map[types.Object]bool{}
			ast.Inspect(f.Decl.Body, func(n ast.Node) bool {
				if as, ok := n.(*ast.AssignStmt); ok && len(as.Lhs) == len(as.Rhs) {
					for i, r := range as.Rhs {
						if sel, ok := ast.Unparen(r).(*ast.SelectorExpr); ok && flow.FieldOf(f.Info, sel) == a.nodeBuf && isH(sel.X) {
							if lo := flow.ObjOf(f.Info, as.Lhs[i]); lo != nil {
								bufAlias[lo] = true
							}
						}
					}
				}
				return true
			})
			au := &flow.Auto{Start: sIdle}
			au.Node = func(b *flow.Block, i int, n ast.Node, st int) int {
				flow.Events(n, func(x ast.Node) {
					switch y := x.(type) {
					case *ast.AssignStmt:
						if len(y.Lhs) == 1 && len(y.Rhs) == 1 && isH(y.Lhs[0]) {
							if call, ok := ast.Unparen(y.Rhs[0]).(*ast.CallExpr); ok && flow.IsCall(f.Info, call, a.pop) {
								if st == sHeld && record && bad == token.NoPos {
									bad, why = y.Pos(), "the next segment is popped while the previous one is neither pushed back nor released"
								}
								st = sHeld
							}
						}
					case *ast.CallExpr:
						if a.isPush(f, y) && len(y.Args) == 1 && isH(y.Args[0]) {
							st = sIdle
						}
						if arg, kind := poolPut(f, y); arg != nil && kind == "byteslice" {
							if sel, ok := ast.Unparen(arg).(*ast.SelectorExpr); ok && flow.FieldOf(f.Info, sel) == a.nodeBuf && isH(sel.X) {
								st = sIdle
							}
							if bufAlias[flow.ObjOf(f.Info, arg)] {
								st = sIdle // released through a local copy of b.buf
							}
						}
					}
				})
				return st
			}
			au.Edge = func(e *flow.Edge, st int) int {
				if st == sHeld && e.Cond != nil && e.Tag == nil {
					if x, y, op, ok := flow.Cmp(e.Cond); ok && flow.IsNil(f.Info, y) && isH(x) && (op == token.EQL) == e.Sense {
						return sIdle // nothing was popped
					}
				}
				return st
			}
			g := f.Graph()
			sol := g.Run(au)
			record = true
			for _, b := range g.Blocks {
				if !sol.Seen[b.ID] {
					continue
				}
				for _, s0 := range flow.States(sol.In[b.ID]) {
					st := s0
					for i, n := range b.Nodes {
						st = au.Node(b, i, n, st)
					}
					if b.Return == nil || st != sHeld || bad != token.NoPos {
						continue
					}
					handed := false
					for _, res := range b.Return.Results {
						if isH(res) {
							handed = true
						}
						if sel, ok := ast.Unparen(res).(*ast.SelectorExpr); ok && flow.FieldOf(f.Info, sel) == a.nodeBuf && isH(sel.X) {
							handed = true // Pop: the bytes go to the caller
						}
					}
					if !handed {
						bad, why = b.Return.Pos(), "a return is reachable while the popped segment is neither pushed back, released nor returned"
					}
				}
			}
			record = false
			if bad != token.NoPos {
				c.Violate(f.Name, construct, bad, why+": the bytes of that segment that were not consumed are lost (and its memory never returns to the pool)")
				continue
			}
			c.Ok(f.Name, construct, f.Decl.Pos(), "pushed back, released or handed to the caller on every path")
		}
	}
}

func init() {
	register(&core.Rule{ID: "C11.9", Prop: "C11", MinSites: 3,
		Desc: "a partly consumed segment goes back shortened: between `b := llb.pop()`, a use of b.buf as the source of a copy/Write or a count taken from it, and pushFront(b), b.buf is re-sliced from the consumed count on (b.buf = b.buf[k:]); putting it back whole would deliver the consumed bytes twice",
		Run:  runC11_9})
}

func runC11_9(c *core.Ctx) {
	a := llAnchors(c)
	if a == nil {
		return
	}
	for _, f := range a.funcs {
		if f.Obj == a.pop || f.Obj == a.pushFront || f.Obj == a.pushBack {
			continue
		}
		holders := map[types.Object]bool{}
		ast.Inspect(f.Decl.Body, func(n ast.Node) bool {
			if as, ok := n.(*ast.AssignStmt); ok && len(as.Lhs) == 1 && len(as.Rhs) == 1 {
				if call, ok := ast.Unparen(as.Rhs[0]).(*ast.CallExpr); ok && flow.IsCall(f.Info, call, a.pop) {
					if obj := flow.ObjOf(f.Info, as.Lhs[0]); obj != nil {
						holders[obj] = true
					}
				}
			}
			return true
		})
		for h := range holders {
			h := h
			isHBuf := func(e ast.Expr) bool {
				sel, ok := ast.Unparen(e).(*ast.SelectorExpr)
				return ok && flow.FieldOf(f.Info, sel) == a.nodeBuf && flow.ObjOf(f.Info, sel.X) == h
			}
			const (
				sFresh = iota
				sUsed
				sCut
			)
			var bad token.Pos
			pushes := 0
			record := false
			au := &flow.Auto{Start: sFresh}
			au.Node = func(b *flow.Block, i int, n ast.Node, st int) int {
				flow.Events(n, func(x ast.Node) {
					switch y := x.(type) {
					case *ast.AssignStmt:
						if len(y.Lhs) == 1 && len(y.Rhs) == 1 {
							if flow.ObjOf(f.Info, y.Lhs[0]) == h {
								st = sFresh // popped anew
								return
							}
							if isHBuf(y.Lhs[0]) {
								if se, ok := ast.Unparen(y.Rhs[0]).(*ast.SliceExpr); ok && isHBuf(se.X) && se.Low != nil && se.High == nil {
									if tv, ok := f.Info.Types[se.Low]; !ok || tv.Value == nil {
										st = sCut
									}
								}
							}
						}
					case *ast.CallExpr:
						if flow.IsCall(f.Info, y, a.pushFront) && len(y.Args) == 1 && flow.ObjOf(f.Info, y.Args[0]) == h {
							if record {
								pushes++
							}
							if st == sUsed && record && bad == token.NoPos {
								bad = y.Pos()
							}
							return
						}
						for _, arg := range y.Args {
							if isHBuf(arg) && st == sFresh {
								if _, isPut := poolPut(f, y); isPut == "" {
									st = sUsed
								}
							}
						}
					}
				})
				return st
			}
			g := f.Graph()
			sol := g.Run(au)
			record = true
			for _, b := range g.Blocks {
				if !sol.Seen[b.ID] {
					continue
				}
				for _, s0 := range flow.States(sol.In[b.ID]) {
					st := s0
					for i, n := range b.Nodes {
						st = au.Node(b, i, n, st)
					}
				}
			}
			record = false
			if pushes == 0 {
				continue
			}
			construct := "pushFront(" + h.Name() + ") after use"
			c.Check(bad == token.NoPos, f.Name, construct, f.Decl.Pos(), "re-sliced from the consumed count before it is pushed back",
				"a segment whose bytes were handed to a copy/Write since it was popped is pushed back without `"+h.Name()+".buf = "+h.Name()+".buf[k:]`: the consumed bytes are delivered again by the next Read/WriteTo")
		}
	}
}

func init() {
	register(&core.Rule{ID: "C11.10", Prop: "C11", MinSites: 4,
		Desc: "head and tail are nil together: started from a list whose head and tail are both nil or both set, each list primitive (pop, pushFront, pushBack, Reset) returns with the two fields again both nil or both set on every path – a tail left behind by the last pop makes the next pushFront/pushBack link new segments behind a node that is no longer in the list",
		Run:  runC11_10})
}

func runC11_10(c *core.Ctx) {
	a := llAnchors(c)
	if a == nil {
		return
	}
	reset := getFn(c, a.pk, "Buffer.Reset")
	prims := []*fn{fnOf(c, a.pop), fnOf(c, a.pushFront), fnOf(c, a.pushBack), reset}
	const (
		vNil = iota
		vSet
		vAny
	)
	enc := func(h, t int) int { return h*3 + t }
	for _, f := range prims {
		if f == nil || f.Decl.Body == nil {
			continue
		}
		recv := f.recvVar()
		fieldOf := func(e ast.Expr) *types.Var {
			sel, ok := ast.Unparen(e).(*ast.SelectorExpr)
			if !ok || flow.ObjOf(f.Info, sel.X) != types.Object(recv) {
				return nil
			}
			return flow.FieldOf(f.Info, sel)
		}
		valueOf := func(e ast.Expr, h, t int) int {
			e = ast.Unparen(e)
			if flow.IsNil(f.Info, e) {
				return vNil
			}
			if fl := fieldOf(e); fl == a.head {
				return h
			} else if fl == a.tail {
				return t
			}
			if sel, ok := e.(*ast.SelectorExpr); ok && sel.Sel.Name == "next" {
				return vAny // the successor of a node may or may not exist
			}
			if _, ok := e.(*ast.UnaryExpr); ok {
				return vSet // &node{…}
			}
			if _, ok := e.(*ast.Ident); ok {
				return vSet // a node variable: pushes are guarded by b != nil (C11.2), pops by head != nil
			}
			return vAny
		}
		var walk func(start int) (bad token.Pos, badState int)
		walk = func(start int) (token.Pos, int) {
			au := &flow.Auto{Start: start}
			au.Node = func(b *flow.Block, i int, n ast.Node, s int) int {
				h, t := s/3, s%3
				if as, ok := n.(*ast.AssignStmt); ok && len(as.Lhs) == len(as.Rhs) {
					nh, nt := h, t
					for k, l := range as.Lhs {
						switch fieldOf(l) {
						case a.head:
							nh = valueOf(as.Rhs[k], h, t)
						case a.tail:
							nt = valueOf(as.Rhs[k], h, t)
						}
					}
					h, t = nh, nt
				}
				return enc(h, t)
			}
			au.Edge = func(e *flow.Edge, s int) int {
				if e.Cond == nil || e.Tag != nil {
					return s
				}
				x, y, op, ok := flow.Cmp(e.Cond)
				if !ok || !flow.IsNil(f.Info, y) {
					return s
				}
				h, t := s/3, s%3
				isNil := (op == token.EQL) == e.Sense
				want := vSet
				if isNil {
					want = vNil
				}
				fx := fieldOf(x)
				if fx == nil {
					fx = aliasedField(f, x, e.Cond.Pos(), fieldOf)
				}
				switch fx {
				case a.head:
					if h != vAny && h != want {
						return -1
					}
					h = want
				case a.tail:
					if t != vAny && t != want {
						return -1
					}
					t = want
				}
				return enc(h, t)
			}
			sol := f.Graph().Run(au)
			bad, badState := token.NoPos, 0
			sol.AtExit(func(b *flow.Block, _ uint64) {
				for _, s := range flow.States(sol.Out(b)) {
					h, t := s/3, s%3
					if (h == vNil && t == vNil) || (h == vSet && t == vSet) {
						continue
					}
					if bad == token.NoPos {
						bad, badState = b.Return.Pos(), s
					}
				}
			})
			return bad, badState
		}
		names := []string{"nil", "set", "possibly nil"}
		okAll := true
		for _, start := range []int{enc(vNil, vNil), enc(vSet, vSet)} {
			if bad, st := walk(start); bad != token.NoPos {
				okAll = false
				from := "an empty list"
				if start == enc(vSet, vSet) {
					from = "a non-empty list"
				}
				c.Violate(f.Name, "head and tail nil together", bad, "starting from "+from+" this return is reachable with head "+names[st/3]+" and tail "+names[st%3]+": the two ends of the list disagree about emptiness, so the next push links its segment where Read/Peek/Pop/WriteTo never look (bytes lost, Buffered() still counting them)")
				break
			}
		}
		if okAll {
			c.Ok(f.Name, "head and tail nil together", f.Decl.Pos(), "both start shapes lead to a consistent shape on every return")
		}
	}
}

// aliasedField resolves `b` in a test `b == nil` to the receiver field it was copied from
// (`b := llb.head`), provided b is assigned exactly once, outside any loop, before the test, and
// the field is not assigned between the copy and the test.
func aliasedField(f *fn, x ast.Expr, at token.Pos, fieldOf func(ast.Expr) *types.Var) *types.Var {
	id, ok := ast.Unparen(x).(*ast.Ident)
	if !ok {
		return nil
	}
	v, ok := f.Info.Uses[id].(*types.Var)
	if !ok || v.IsField() {
		return nil
	}
	def := singleDef(f, v)
	if def == nil || def.Pos() >= at {
		return nil
	}
	fl := fieldOf(def)
	if fl == nil {
		return nil
	}
	okk := true
	ast.Inspect(f.Decl.Body, func(n ast.Node) bool {
		switch y := n.(type) {
		case *ast.ForStmt, *ast.RangeStmt:
			if y.Pos() <= def.Pos() && def.End() <= y.End() {
				okk = false
			}
		case *ast.AssignStmt:
			for _, l := range y.Lhs {
				if fieldOf(l) == fl && y.Pos() > def.Pos() && y.Pos() < at {
					okk = false
				}
			}
		}
		return okk
	})
	if !okk {
		return nil
	}
	return fl
}

func init() {
	register(&core.Rule{ID: "C11.11", Prop: "C11", MinSites: 1,
		Desc: "a short write is reported: in linkedlist.Buffer.WriteTo every return on the edge where the writer took fewer bytes than the segment offered (m < b.len()) carries a non-nil error – the writer's own, or io.ErrShortWrite where that was nil – so that the caller does not take a partly written queue for a drained one",
		Run:  runC11_11})
}

func runC11_11(c *core.Ctx) {
	a := llAnchors(c)
	if a == nil {
		return
	}
	f := getFn(c, a.pk, "Buffer.WriteTo")
	if f == nil {
		return
	}
	// m, err = w.Write(…)
	var cnt, errv types.Object
	ast.Inspect(f.Decl.Body, func(n ast.Node) bool {
		if as, ok := n.(*ast.AssignStmt); ok && len(as.Lhs) == 2 && len(as.Rhs) == 1 {
			if call, ok := ast.Unparen(as.Rhs[0]).(*ast.CallExpr); ok {
				if cf := flow.CalleeFunc(f.Info, call); cf != nil && nameOf(cf) == "Write" && cf.Pkg() != nil && cf.Pkg().Path() == "io" {
					cnt, errv = flow.ObjOf(f.Info, as.Lhs[0]), flow.ObjOf(f.Info, as.Lhs[1])
				}
			}
		}
		return true
	})
	if cnt == nil || errv == nil {
		c.Undecided(f.Name, "short write reported", f.Decl.Pos(), "no `m, err = w.Write(…)` found")
		return
	}
	const (
		sIdle     = iota
		sShort    // m < len established, err unknown
		sShortNil // … and err established nil
		sShortOK  // … and err established (or made) non-nil
	)
	au := &flow.Auto{Start: sIdle}
	au.Node = func(b *flow.Block, i int, n ast.Node, st int) int {
		if as, ok := n.(*ast.AssignStmt); ok {
			for j, l := range as.Lhs {
				if flow.ObjOf(f.Info, l) == cnt {
					return sIdle // a new transfer
				}
				if flow.ObjOf(f.Info, l) == errv && st != sIdle && j < len(as.Rhs) && len(as.Lhs) == len(as.Rhs) {
					if flow.IsNil(f.Info, as.Rhs[j]) {
						st = sShortNil
					} else if o := flow.ObjOf(f.Info, as.Rhs[j]); o != nil && o.Pkg() != nil && isErrorType(o.Type()) && o.Parent() == o.Pkg().Scope() {
						st = sShortOK // a package-level error value such as io.ErrShortWrite
					} else {
						st = sShort
					}
				}
			}
		}
		return st
	}
	au.Edge = func(e *flow.Edge, st int) int {
		if e.Cond == nil || e.Tag != nil {
			return st
		}
		x, y, op, ok := flow.Cmp(e.Cond)
		if !ok {
			return st
		}
		if flow.ObjOf(f.Info, y) == cnt {
			x, y, op = y, x, swapCmp(op)
		}
		if flow.ObjOf(f.Info, x) == cnt && st == sIdle {
			if _, isCall := ast.Unparen(y).(*ast.CallExpr); isCall || flow.ObjOf(f.Info, y) != nil {
				if (op == token.LSS && e.Sense) || (op == token.GEQ && !e.Sense) || (op == token.NEQ && e.Sense) || (op == token.EQL && !e.Sense) {
					return sShort
				}
			}
		}
		if flow.ObjOf(f.Info, x) == errv && flow.IsNil(f.Info, y) && st != sIdle {
			if (op == token.EQL) == e.Sense {
				return sShortNil
			}
			return sShortOK
		}
		return st
	}
	sol := f.Graph().Run(au)
	var bad token.Pos
	shortReturns := 0
	sol.AtExit(func(b *flow.Block, _ uint64) {
		out := sol.Out(b)
		if out&(1<<sShort|1<<sShortNil|1<<sShortOK) != 0 {
			shortReturns++
		}
		if out&(1<<sShort|1<<sShortNil) != 0 && bad == token.NoPos {
			bad = b.Return.Pos()
		}
	})
	at := f.Decl.Pos()
	if bad != token.NoPos {
		at = bad
	}
	c.Check(bad == token.NoPos && shortReturns > 0, f.Name, "short write reported", at, itoa(shortReturns)+" returns on the short-write edge, each with a non-nil error",
		"WriteTo can return on the short-write edge (m < b.len()) with an error that is not established non-nil: the unwritten rest stays queued, but the caller is told the transfer succeeded")
}

func init() {
	register(&core.Rule{ID: "C11.12", Prop: "C11", MinSites: 3,
		Desc: "a linked node keeps its length: a node's buf is assigned (re-sliced, replaced) only while the node is outside the list – obtained from pop() or freshly made – because pop/pushFront/pushBack are what keep the byte counter equal to the sum of the linked segments; trimming a node in place (through head, tail, an iterator) makes Buffered() – and with it elastic.Buffer.Buffered and Conn.OutboundBuffered – overstate what is queued",
		Run:  runC11_12})
}

func runC11_12(c *core.Ctx) {
	a := llAnchors(c)
	if a == nil {
		return
	}
	bufF := c.P.Field(a.pk, "node", "buf")
	if !c.Need("linkedlist.node.buf", bufF) {
		return
	}
	for _, f := range a.funcs {
		k := 0
		ast.Inspect(f.Decl.Body, func(n ast.Node) bool {
			as, ok := n.(*ast.AssignStmt)
			if !ok {
				return true
			}
			for _, l := range as.Lhs {
				sel, ok := ast.Unparen(l).(*ast.SelectorExpr)
				if !ok || flow.FieldOf(f.Info, sel) != bufF {
					continue
				}
				k++
				construct := exprStr(l) + " assigned #" + itoa(k)
				who, _ := flow.ObjOf(f.Info, sel.X).(*types.Var)
				if who == nil || who.IsField() {
					c.Violate(f.Name, construct, as.Pos(), "the buffer of a node reached through "+exprStr(sel.X)+" – a node that is linked in the list – is assigned: the byte counter no longer equals the sum of the linked segments, so Buffered() (and OutboundBuffered) overstate what is queued")
					continue
				}
				// every definition of the node variable takes it out of the list (pop) or makes it
				okk, defs := true, 0
				why := ""
				ast.Inspect(f.Decl.Body, func(m ast.Node) bool {
					d, ok := m.(*ast.AssignStmt)
					if !ok {
						return true
					}
					for i, dl := range d.Lhs {
						if flow.ObjOf(f.Info, dl) != types.Object(who) || len(d.Lhs) != len(d.Rhs) {
							continue
						}
						defs++
						r := ast.Unparen(d.Rhs[i])
						if call, ok := r.(*ast.CallExpr); ok && flow.IsCall(f.Info, call, a.pop) {
							continue
						}
						if ue, ok := r.(*ast.UnaryExpr); ok && ue.Op == token.AND {
							continue
						}
						okk, why = false, exprStr(r)
					}
					return true
				})
				if defs == 0 { // a parameter: pushFront/pushBack receive nodes that are outside the list
					if f.Obj == a.pushFront || f.Obj == a.pushBack {
						defs = 1
					} else {
						okk, why = false, "a parameter"
					}
				}
				if okk && defs > 0 {
					// … and has not been linked again since: no pushFront/pushBack of the node on a path from its definition to here
					const fLinked = 1
					p := &flow.Problem{Must: false}
					p.Node = func(b *flow.Block, i int, nd ast.Node, in uint64) uint64 {
						if nd == ast.Node(as) {
							return in
						}
						if d, ok := nd.(*ast.AssignStmt); ok {
							for _, dl := range d.Lhs {
								if flow.ObjOf(f.Info, dl) == types.Object(who) {
									in &^= fLinked
								}
							}
						}
						for _, call := range flow.Calls(nd) {
							if (flow.IsCall(f.Info, call, a.pushFront) || flow.IsCall(f.Info, call, a.pushBack)) && len(call.Args) == 1 && flow.ObjOf(f.Info, call.Args[0]) == types.Object(who) {
								in |= fLinked
							}
						}
						return in
					}
					sol := f.Graph().Solve(p)
					sol.Walk(func(b *flow.Block, i int, nd ast.Node, before uint64) {
						if nd == ast.Node(as) && before&fLinked != 0 && f.Obj != a.pushFront && f.Obj != a.pushBack {
							okk, why = false, "pushed back"
						}
					})
				}
				c.Check(okk && defs > 0, f.Name, construct, as.Pos(), "the node was taken out of the list by pop() (or is new) when its buffer changes",
					"the buffer of node "+who.Name()+" is assigned while the node may still be linked in the list ("+map[bool]string{true: "it was pushed back into the list before this assignment", false: "it comes from " + why + ", not from pop()"}[why == "pushed back"]+"): the byte counter no longer equals the sum of the linked segments, so Buffered() – and with it elastic.Buffer.Buffered and Conn.OutboundBuffered – overstate what is queued")
			}
			return true
		})
	}
}

func init() {
	register(&core.Rule{ID: "C11.13", Prop: "C11", MinSites: 2,
		Desc: "Peek counts what it hands out: in linkedlist.Peek/PeekWithBytes every append of a segment view X[:k] to the result is followed by cum += k (the same k) before the next append, and every cum += k follows such an append; the walk leaves early only where cum has reached maxBytes (an `==`/`>=` test of the two); and the list walk runs from llb.head over iter.next to nil",
		Run:  runC11_13})
	alias("C10", "C10.21", "C11.13", "elastic.Buffer.Peek assembles its segments through linkedlist.PeekWithBytes")
	alias("C02", "C02.20", "C11.13", "the writev vector of a flush is what Peek assembled: a segment left out or handed out twice corrupts the stream")
}

func runC11_13(c *core.Ctx) {
	a := llAnchors(c)
	if a == nil {
		return
	}
	nextF := c.P.Field(a.pk, "node", "next")
	if !c.Need("node.next", nextF) {
		return
	}
	for _, f := range a.funcs {
		name := nameOf(f.Obj)
		if name != "Peek" && name != "PeekWithBytes" {
			continue
		}
		isSegAppend := func(n ast.Node) types.Object { // R = append(R, X[:k]) → k
			as, ok := n.(*ast.AssignStmt)
			if !ok || len(as.Rhs) != 1 {
				return nil
			}
			call, ok := ast.Unparen(as.Rhs[0]).(*ast.CallExpr)
			if !ok || len(call.Args) != 2 {
				return nil
			}
			if id, ok := call.Fun.(*ast.Ident); !ok || id.Name != "append" {
				return nil
			}
			se, ok := ast.Unparen(call.Args[1]).(*ast.SliceExpr)
			if !ok || se.Low != nil || se.High == nil {
				return nil
			}
			return flow.ObjOf(f.Info, se.High)
		}
		// the lengths segments are cut to, and the running totals they are added to (a helper absorbed into the
		// function has its own copies of both)
		appendKs := map[types.Object]bool{}
		ast.Inspect(f.Decl.Body, func(n ast.Node) bool {
			if st, ok := n.(ast.Stmt); ok {
				if k := isSegAppend(st); k != nil {
					appendKs[k] = true
				}
			}
			return true
		})
		cums := map[types.Object]bool{}
		isCum := func(n ast.Node) types.Object { // cum += k → k
			as, ok := n.(*ast.AssignStmt)
			if !ok || as.Tok != token.ADD_ASSIGN || len(as.Lhs) != 1 {
				return nil
			}
			k := flow.ObjOf(f.Info, as.Rhs[0])
			if k == nil || !appendKs[k] {
				return nil
			}
			if o := flow.ObjOf(f.Info, as.Lhs[0]); o != nil {
				cums[o] = true
			}
			return k
		}
		ast.Inspect(f.Decl.Body, func(n ast.Node) bool {
			if st, ok := n.(ast.Stmt); ok {
				isCum(st)
			}
			return true
		})
		if len(appendKs) == 0 {
			// the walk was moved into a helper that could not be absorbed (called in a condition, say): not this rule's to judge
			delegated := false
			for _, call := range callsIn(f.Decl.Body, true) {
				if cf := flow.CalleeFunc(f.Info, call); cf != nil && c.P.InModule(cf) && !core.InBaseline(cf) {
					delegated = true
				}
			}
			if delegated {
				c.Ok(f.Name, "walk delegated to a helper outside the baseline", f.Decl.Pos(), "not analysed here")
				continue
			}
		}
		if len(cums) == 0 {
			c.Violate(f.Name, "running total", f.Decl.Pos(), name+" keeps no running total (`cum += k` with the k a segment was cut to): nothing bounds the walk by maxBytes")
			continue
		}
		const (
			fAppended = 1 << iota // a segment was appended and not yet counted
			fCounted              // everything appended so far was counted
		)
		p := &flow.Problem{Must: true, Entry: fCounted}
		p.Node = func(b *flow.Block, i int, n ast.Node, in uint64) uint64 {
			if isSegAppend(n) != nil {
				return in&^fCounted | fAppended
			}
			if isCum(n) != nil {
				return in&^fAppended | fCounted
			}
			return in
		}
		sol := f.Graph().Solve(p)
		apps, ncum := 0, 0
		appK, cumK := map[types.Object]bool{}, map[types.Object]bool{}
		sol.Walk(func(b *flow.Block, i int, n ast.Node, before uint64) {
			if k := isSegAppend(n); k != nil {
				apps++
				appK[k] = true
				c.Check(before&fCounted != 0, f.Name, "segment append #"+itoa(apps), n.Pos(), "the previous segment was counted before this one is appended",
					name+" appends a segment while an earlier one has not been added to the running total: the total falls behind what was handed out, so more than maxBytes are returned (a flush then sends bytes beyond what Discard will remove)")
			}
			if k := isCum(n); k != nil {
				ncum++
				cumK[k] = true
				c.Check(before&fAppended != 0, f.Name, "count of a segment #"+itoa(ncum), n.Pos(), "counts the segment that was just appended",
					name+" adds to the running total without having appended a segment since the last addition: a segment is counted but not handed out (the caller gets fewer bytes than Peek reports it may discard)")
			}
		})
		sol.AtExit(func(b *flow.Block, facts uint64) {
			ok := true
			if b.Return != nil && len(b.Return.Results) == 2 && !flow.IsNil(f.Info, b.Return.Results[1]) {
				return // the short-buffer refusal
			}
			if facts&fCounted == 0 {
				ok = false
			}
			c.Check(ok, f.Name, "everything appended was counted", b.Return.Pos(), "no uncounted segment at return", name+" can return with a segment appended but not counted")
		})
		same := len(appK) > 0 && len(appK) == len(cumK)
		for k := range appK {
			if !cumK[k] {
				same = false
			}
		}
		c.Check(same && apps > 0, f.Name, "appended length = counted length", f.Decl.Pos(), "the k of X[:k] is the k of cum += k", name+" counts a different length than the one it cuts the segment to (or appends no segment view at all)")
		// early exits of the walks
		var loops []ast.Stmt
		ast.Inspect(f.Decl.Body, func(n ast.Node) bool {
			switch y := n.(type) {
			case *ast.ForStmt:
				has := false
				ast.Inspect(y.Body, func(m ast.Node) bool {
					if st, ok := m.(ast.Stmt); ok && isSegAppend(st) != nil {
						has = true
					}
					return true
				})
				if has {
					loops = append(loops, y)
				}
			case *ast.RangeStmt:
				has := false
				ast.Inspect(y.Body, func(m ast.Node) bool {
					if st, ok := m.(ast.Stmt); ok && isSegAppend(st) != nil {
						has = true
					}
					return true
				})
				if has {
					loops = append(loops, y)
				}
			}
			return true
		})
		for li, lp := range loops {
			var body *ast.BlockStmt
			if fs, ok := lp.(*ast.ForStmt); ok {
				body = fs.Body
				// the list walk
				okWalk := false
				if init, ok := fs.Init.(*ast.AssignStmt); ok && len(init.Lhs) == 1 && len(init.Rhs) == 1 && flow.FieldOf(f.Info, init.Rhs[0]) == a.head {
					iv := flow.ObjOf(f.Info, init.Lhs[0])
					if x, y, op, ok := flow.Cmp(fs.Cond); ok && op == token.NEQ && flow.ObjOf(f.Info, x) == iv && flow.IsNil(f.Info, y) {
						if post, ok := fs.Post.(*ast.AssignStmt); ok && len(post.Lhs) == 1 && flow.ObjOf(f.Info, post.Lhs[0]) == iv {
							if sel, ok := ast.Unparen(post.Rhs[0]).(*ast.SelectorExpr); ok && flow.FieldOf(f.Info, sel) == nextF && flow.ObjOf(f.Info, sel.X) == iv {
								okWalk = true
							}
						}
					}
				}
				c.Check(okWalk, f.Name, "list walk #"+itoa(li+1), fs.Pos(), "from llb.head over iter.next to nil", name+" does not walk the list from llb.head over each node's next to nil: nodes are skipped, visited twice, or the walk never ends")
			} else {
				body = lp.(*ast.RangeStmt).Body
			}
			okExit := true
			var stack []ast.Node
			ast.Inspect(body, func(n ast.Node) bool {
				if n == nil {
					stack = stack[:len(stack)-1]
					return true
				}
				stack = append(stack, n)
				if _, isLit := n.(*ast.FuncLit); isLit {
					return true
				}
				leaves := false
				switch y := n.(type) {
				case *ast.BranchStmt:
					leaves = y.Tok == token.BREAK && y.Label == nil
					// a break inside a nested switch/select/for belongs to that statement
					for i := len(stack) - 2; i >= 0 && leaves; i-- {
						switch stack[i].(type) {
						case *ast.SwitchStmt, *ast.TypeSwitchStmt, *ast.SelectStmt, *ast.ForStmt, *ast.RangeStmt:
							leaves = false
						}
					}
				case *ast.ReturnStmt:
					leaves = true
				}
				if !leaves {
					return true
				}
				guarded := false
				for i := len(stack) - 2; i >= 0; i-- {
					is, ok := stack[i].(*ast.IfStmt)
					if !ok {
						continue
					}
					inBody := i+1 < len(stack) && stack[i+1] == ast.Node(is.Body)
					if x, y, op, ok := flow.Cmp(is.Cond); ok && inBody {
						xo, yo := flow.ObjOf(f.Info, x), flow.ObjOf(f.Info, y)
						if (xo != nil && cums[xo] && yo != nil && (op == token.EQL || op == token.GEQ)) || (yo != nil && cums[yo] && xo != nil && (op == token.EQL || op == token.LEQ)) {
							guarded = true
						}
					}
					break
				}
				if !guarded {
					okExit = false
				}
				return true
			})
			c.Check(okExit, f.Name, "early exit of walk #"+itoa(li+1), lp.Pos(), "only where cum reached maxBytes", name+" can leave its walk over the segments before the running total has reached maxBytes: the caller gets fewer bytes than it asked for although they are queued")
		}
		if len(loops) == 0 {
			c.Violate(f.Name, "walk", f.Decl.Pos(), name+" has no loop that appends segment views")
		}
	}
}
