package rules

import (
	"go/ast"
	"go/types"

	"gnetlint/core"
	"gnetlint/flow"
)

func init() {
	register(&core.Rule{ID: "C01.12", Prop: "C01", MinSites: 2,
		Desc: "consumed is reported: in the count-returning Reader methods of *conn (Read, WriteTo) every advance c.buffer = c.buffer[k:] is matched, on every path to a return, by the count result having been assigned from or increased by k – bytes taken from the read window are never silently dropped from the number the caller gets",
		Run:  runC01_12})
}

func runC01_12(c *core.Ctx) {
	a := inAnchors(c)
	if a == nil {
		return
	}
	for _, f := range a.readers() {
		sig := f.Obj.Type().(*types.Signature)
		if sig.Results().Len() == 0 {
			continue
		}
		res := sig.Results().At(0)
		if b, ok := res.Type().Underlying().(*types.Basic); !ok || b.Info()&types.IsInteger == 0 || nameOf(res) == "" {
			continue // not a count, or unnamed: C01.7 covers the exposure forms
		}
		// advances by a variable k
		type adv struct {
			stmt *ast.AssignStmt
			k    types.Object
		}
		var advs []adv
		ast.Inspect(f.Decl.Body, func(n ast.Node) bool {
			as, ok := n.(*ast.AssignStmt)
			if !ok || len(as.Lhs) != 1 || len(as.Rhs) != 1 || !a.isConnBuffer(f, as.Lhs[0]) {
				return true
			}
			if se, ok := ast.Unparen(as.Rhs[0]).(*ast.SliceExpr); ok && a.isConnBuffer(f, se.X) && se.Low != nil && se.High == nil {
				if k := flow.ObjOf(f.Info, se.Low); k != nil {
					advs = append(advs, adv{as, k})
				}
			}
			return true
		})
		for i, ad := range advs {
			ad := ad
			construct := "advance by " + ad.k.Name() + " #" + itoa(i+1) + " is counted"
			if ad.k == types.Object(res) {
				c.Ok(f.Name, construct, ad.stmt.Pos(), "the window is advanced by the count result itself")
				continue
			}
			const (
				fCounted = 1 << iota
				fAdvanced
			)
			p := &flow.Problem{Must: true}
			p.Node = func(b *flow.Block, j int, n ast.Node, in uint64) uint64 {
				as, ok := n.(*ast.AssignStmt)
				if !ok {
					return in
				}
				if as == ad.stmt {
					return in | fAdvanced
				}
				for idx, l := range as.Lhs {
					if flow.ObjOf(f.Info, l) == types.Object(res) {
						rhs := as.Rhs[0]
						if idx < len(as.Rhs) {
							rhs = as.Rhs[idx]
						}
						hit := false
						ast.Inspect(rhs, func(m ast.Node) bool {
							if id, ok := m.(*ast.Ident); ok && f.Info.Uses[id] == ad.k {
								hit = true
							}
							return true
						})
						if hit {
							in |= fCounted
						} else if as.Tok.String() == "=" || as.Tok.String() == ":=" {
							in &^= fCounted // the result was overwritten without k
						}
					}
					if flow.ObjOf(f.Info, l) == ad.k {
						in &^= fCounted // k now holds another count
					}
				}
				return in
			}
			sol := f.Graph().Solve(p)
			okk := true
			sol.AtExit(func(b *flow.Block, facts uint64) {
				if facts&fAdvanced != 0 && facts&fCounted == 0 {
					okk = false
				}
			})
			// may-advance: a return reachable after the advance on some path but the must-fact fAdvanced is lost at joins;
			// check with a may-automaton as well
			au := &flow.Auto{Start: 0}
			au.Node = func(b *flow.Block, j int, n ast.Node, s int) int {
				if as, ok := n.(*ast.AssignStmt); ok {
					if as == ad.stmt {
						if s == 0 {
							return 1 // advanced, not counted
						}
						return s
					}
					for idx, l := range as.Lhs {
						if flow.ObjOf(f.Info, l) == types.Object(res) {
							rhs := as.Rhs[0]
							if idx < len(as.Rhs) {
								rhs = as.Rhs[idx]
							}
							hit := false
							ast.Inspect(rhs, func(m ast.Node) bool {
								if id, ok := m.(*ast.Ident); ok && f.Info.Uses[id] == ad.k {
									hit = true
								}
								return true
							})
							if hit {
								return 2 // counted (before or after the advance)
							}
						}
					}
				}
				return s
			}
			as := f.Graph().Run(au)
			as.AtExit(func(b *flow.Block, _ uint64) {
				if as.Out(b)&(1<<1) != 0 {
					okk = false
				}
			})
			c.Check(okk, f.Name, construct, ad.stmt.Pos(), res.Name()+" is assigned from / increased by "+ad.k.Name()+" on every path",
				"c.buffer is advanced by "+ad.k.Name()+" but a return is reachable on which the count result "+res.Name()+" does not include it: the caller is told fewer bytes than were taken out of the stream, the difference is lost")
		}
	}
}
