package rules

import (
	"go/ast"
	"go/constant"
	"go/token"
	"go/types"

	"golang.org/x/tools/go/cfg"

	"gnetlint/core"
	"gnetlint/flow"
)

func init() {
	register(&core.Rule{ID: "C01.12", Prop: "C01", MinSites: 2,
		Desc: "consumed is reported: in the count-returning Reader methods of *conn (Read, WriteTo) every advance c.buffer = c.buffer[k:] is matched, on every path to a return, by the count result having been assigned from or increased by k – bytes taken from the read window are never silently dropped from the number the caller gets",
		Run:  runC01_12})
}

func runC01_12(c *core.Ctx) {
	a := inAnchors(c)
	if a == nil {
		return
	}
	for _, f := range a.readers() {
		sig := f.Obj.Type().(*types.Signature)
		if sig.Results().Len() == 0 {
			continue
		}
		res := sig.Results().At(0)
		if b, ok := res.Type().Underlying().(*types.Basic); !ok || b.Info()&types.IsInteger == 0 || nameOf(res) == "" {
			continue // not a count, or unnamed: C01.7 covers the exposure forms
		}
		// advances by a variable k
		type adv struct {
			stmt *ast.AssignStmt
			k    types.Object
		}
		var advs []adv
		ast.Inspect(f.Decl.Body, func(n ast.Node) bool {
			as, ok := n.(*ast.AssignStmt)
			if !ok || len(as.Lhs) != 1 || len(as.Rhs) != 1 || !a.isConnBuffer(f, as.Lhs[0]) {
				return true
			}
			if se, ok := ast.Unparen(as.Rhs[0]).(*ast.SliceExpr); ok && a.isConnBuffer(f, se.X) && se.Low != nil && se.High == nil {
				if k := flow.ObjOf(f.Info, se.Low); k != nil {
					advs = append(advs, adv{as, k})
				}
			}
			return true
		})
		for i, ad := range advs {
			ad := ad
			construct := "advance by " + ad.k.Name() + " #" + itoa(i+1) + " is counted"
			if ad.k == types.Object(res) {
				c.Ok(f.Name, construct, ad.stmt.Pos(), "the window is advanced by the count result itself")
				continue
			}
			const (
				fCounted = 1 << iota
				fAdvanced
			)
			p := &flow.Problem{Must: true}
			p.Node = func(b *flow.Block, j int, n ast.Node, in uint64) uint64 {
				as, ok := n.(*ast.AssignStmt)
				if !ok {
					return in
				}
				if as == ad.stmt {
					return in | fAdvanced
				}
				for idx, l := range as.Lhs {
					if flow.ObjOf(f.Info, l) == types.Object(res) {
						rhs := as.Rhs[0]
						if idx < len(as.Rhs) {
							rhs = as.Rhs[idx]
						}
						hit := false
						ast.Inspect(rhs, func(m ast.Node) bool {
							if id, ok := m.(*ast.Ident); ok && f.Info.Uses[id] == ad.k {
								hit = true
							}
							return true
						})
						if hit {
							in |= fCounted
						} else if as.Tok.String() == "=" || as.Tok.String() == ":=" {
							in &^= fCounted // the result was overwritten without k
						}
					}
					if flow.ObjOf(f.Info, l) == ad.k {
						in &^= fCounted // k now holds another count
					}
				}
				return in
			}
			sol := f.Graph().Solve(p)
			okk := true
			sol.AtExit(func(b *flow.Block, facts uint64) {
				if facts&fAdvanced != 0 && facts&fCounted == 0 {
					okk = false
				}
			})
			// may-advance: a return reachable after the advance on some path but the must-fact fAdvanced is lost at joins;
			// check with a may-automaton as well
			au := &flow.Auto{Start: 0}
			au.Node = func(b *flow.Block, j int, n ast.Node, s int) int {
				if as, ok := n.(*ast.AssignStmt); ok {
					if as == ad.stmt {
						if s == 0 {
							return 1 // advanced, not counted
						}
						return s
					}
					for idx, l := range as.Lhs {
						if flow.ObjOf(f.Info, l) == types.Object(res) {
							rhs := as.Rhs[0]
							if idx < len(as.Rhs) {
								rhs = as.Rhs[idx]
							}
							hit := false
							ast.Inspect(rhs, func(m ast.Node) bool {
								if id, ok := m.(*ast.Ident); ok && f.Info.Uses[id] == ad.k {
									hit = true
								}
								return true
							})
							if hit {
								return 2 // counted (before or after the advance)
							}
						}
					}
				}
				return s
			}
			as := f.Graph().Run(au)
			as.AtExit(func(b *flow.Block, _ uint64) {
				if as.Out(b)&(1<<1) != 0 {
					okk = false
				}
			})
			c.Check(okk, f.Name, construct, ad.stmt.Pos(), res.Name()+" is assigned from / increased by "+ad.k.Name()+" on every path",
				"c.buffer is advanced by "+ad.k.Name()+" but a return is reachable on which the count result "+res.Name()+" does not include it: the caller is told fewer bytes than were taken out of the stream, the difference is lost")
		}
	}
}

func init() {
	register(&core.Rule{ID: "C01.15", Prop: "C01", MinSites: 2,
		Desc: "the Peek cache is a parking place, never a source: conn.cache (and a local copy of it) is read only to be measured (len/cap), compared with nil, or handed back to the byte pool – no function slices it, returns it, appends or copies from it: the bytes a handler receives always come from the inbound buffer and the read window of the current call, so what an earlier Peek assembled cannot be served again after Next/Read/WriteTo consumed it",
		Run:  runC01_15})
	alias("C12", "C12.13", "C01.15", "a slice parked for recycling that is handed out again is pooled (by the next Discard) while the application still reads it")
}

func runC01_15(c *core.Ctx) {
	v := vocabOf(c)
	if v == nil {
		return
	}
	cacheF := c.P.Field("", "conn", "cache")
	if !c.Need("conn.cache", cacheF) {
		return
	}
	for _, f := range v.funcs {
		if f.Decl.Body == nil {
			continue
		}
		// uses of the field, and of locals that are copies of it, with their parent chain
		sites := 0
		aliases := map[types.Object]bool{}
		var visit func(isSubject func(e ast.Expr) bool, what string, depth int)
		visit = func(isSubject func(e ast.Expr) bool, what string, depth int) {
			var stack []ast.Node
			ast.Inspect(f.Decl.Body, func(n ast.Node) bool {
				if n == nil {
					stack = stack[:len(stack)-1]
					return true
				}
				stack = append(stack, n)
				e, ok := n.(ast.Expr)
				if !ok || !isSubject(e) {
					return true
				}
				// the nearest parent that is not a parenthesis
				var parent ast.Node
				for i := len(stack) - 2; i >= 0; i-- {
					if _, isParen := stack[i].(*ast.ParenExpr); !isParen {
						parent = stack[i]
						break
					}
				}
				okUse, why := false, ""
				switch p := parent.(type) {
				case *ast.CallExpr:
					if id, isId := p.Fun.(*ast.Ident); isId {
						if b, isB := f.Info.Uses[id].(*types.Builtin); isB && (b.Name() == "len" || b.Name() == "cap") {
							okUse, why = true, "measured"
						}
					}
					if arg, pool := poolPut(f, p); arg != nil && pool == "byteslice" && ast.Unparen(arg) == e {
						okUse, why = true, "handed back to the byte pool"
					}
				case *ast.BinaryExpr:
					if (p.Op == token.EQL || p.Op == token.NEQ) && (flow.IsNil(f.Info, p.X) || flow.IsNil(f.Info, p.Y)) {
						okUse, why = true, "compared with nil"
					}
				case *ast.AssignStmt:
					for _, l := range p.Lhs {
						if ast.Unparen(l) == e {
							return true // a write (C12.12 decides who may write what)
						}
					}
					// a local copy: judged by its own uses
					if depth == 0 && len(p.Lhs) == len(p.Rhs) {
						for k, r := range p.Rhs {
							if ast.Unparen(r) == e {
								if lv, isVar := flow.ObjOf(f.Info, p.Lhs[k]).(*types.Var); isVar && !lv.IsField() && assignCount(f, lv) == 1 {
									aliases[lv] = true
									okUse, why = true, "copied into the local "+lv.Name()+" (judged by its uses)"
								}
							}
						}
					}
				case *ast.SelectorExpr:
					return true // c.cache itself is visited as the selector; its X is not a use of the field
				}
				sites++
				c.Check(okUse, f.Name, "use of "+what+" #"+itoa(sites), e.Pos(), why,
					nameOf(f.Obj)+" reads the contents of "+what+" (it is sliced, returned, appended or copied from): the slice an earlier Peek assembled is served again although Next, Read or WriteTo may have consumed those bytes since – the handler sees bytes of the stream twice and a following Discard drops bytes it never saw")
				return true
			})
		}
		visit(func(e ast.Expr) bool {
			_, isSel := e.(*ast.SelectorExpr)
			return isSel && flow.FieldOf(f.Info, e) == cacheF
		}, "conn.cache", 0)
		if len(aliases) > 0 {
			visit(func(e ast.Expr) bool {
				id, isId := e.(*ast.Ident)
				return isId && f.Info.Uses[id] != nil && aliases[f.Info.Uses[id]]
			}, "a copy of conn.cache", 1)
		}
	}
}

func init() {
	register(&core.Rule{ID: "C01.19", Prop: "C01", MinSites: 4,
		Desc: "what is taken from the read window leaves it: in conn.Read, Next and WriteTo every use of c.buffer as a source (copy out of it, a view of it handed back, a Write of it) is followed on every path to a return by an advance c.buffer = c.buffer[k:] (or resetBuffer); in conn.Discard every return has passed such an advance or a reset unless it is on the edge on which the inbound ring alone covered the request",
		Run:  runC01_19})
}

func runC01_19(c *core.Ctx) {
	a := inAnchors(c)
	if a == nil {
		return
	}
	winF := a.v.buffer
	isWindow := func(f *fn, e ast.Expr) bool {
		e = ast.Unparen(e)
		if flow.FieldOf(f.Info, e) == winF {
			return true
		}
		if se, ok := e.(*ast.SliceExpr); ok && flow.FieldOf(f.Info, se.X) == winF {
			return true
		}
		return false
	}
	isAdvance := func(f *fn, n ast.Node) bool {
		if as, ok := n.(*ast.AssignStmt); ok {
			for k, l := range as.Lhs {
				if flow.FieldOf(f.Info, l) == winF && len(as.Rhs) == len(as.Lhs) {
					if se, ok := ast.Unparen(as.Rhs[k]).(*ast.SliceExpr); ok && flow.FieldOf(f.Info, se.X) == winF && se.Low != nil {
						return true
					}
				}
			}
		}
		for _, call := range flow.Calls(n) {
			if flow.IsCall(f.Info, call, a.resetBuffer) {
				return true
			}
		}
		return false
	}
	for _, name := range []string{"conn.Read", "conn.Next", "conn.WriteTo"} {
		f := getFn(c, "", name)
		if f == nil {
			continue
		}
		takes := func(n ast.Node) bool {
			if isAdvance(f, n) {
				return false
			}
			for _, call := range flow.Calls(n) {
				if id, ok := call.Fun.(*ast.Ident); ok && id.Name == "copy" && len(call.Args) == 2 && isWindow(f, call.Args[1]) {
					return true
				}
				if sel, ok := ast.Unparen(call.Fun).(*ast.SelectorExpr); ok && sel.Sel.Name == "Write" && len(call.Args) == 1 && isWindow(f, call.Args[0]) {
					return true
				}
			}
			if as, ok := n.(*ast.AssignStmt); ok && len(as.Lhs) == len(as.Rhs) {
				for k, r := range as.Rhs {
					if se, ok := ast.Unparen(r).(*ast.SliceExpr); ok && flow.FieldOf(f.Info, se.X) == winF && flow.FieldOf(f.Info, as.Lhs[k]) != winF {
						return true // buf = c.buffer[:n]
					}
				}
			}
			return false
		}
		au := &flow.Auto{Start: 0}
		au.Node = func(b *flow.Block, i int, n ast.Node, s int) int {
			if takes(n) {
				return 1
			}
			if isAdvance(f, n) {
				return 0
			}
			return s
		}
		sol := f.Graph().Run(au)
		k, sawTake := 0, false
		ast.Inspect(f.Decl.Body, func(n ast.Node) bool {
			if st, ok := n.(ast.Stmt); ok && takes(st) {
				sawTake = true
			}
			return true
		})
		sol.AtExit(func(b *flow.Block, _ uint64) {
			k++
			pending := sol.Out(b)&(1<<1) != 0
			c.Check(!pending, f.Name, "read window advanced before return #"+itoa(k), b.Return.Pos(), "every take from c.buffer is followed by c.buffer = c.buffer[k:]",
				nameOf(f.Obj)+" can return after handing out bytes of c.buffer without moving the window past them: the same bytes are delivered again by the next Read/Next/Peek – the handler sees a duplicate")
		})
		if !sawTake {
			c.Violate(f.Name, "uses of the read window", f.Decl.Pos(), nameOf(f.Obj)+" no longer takes anything from c.buffer: the rule lost its subject")
		}
	}
	if f := getFn(c, "", "conn.Discard"); f != nil {
		const fAdv, fRingOnly = 1, 1 // one fact ("this path has accounted for the window"), so that paths of both kinds may join
		p := &flow.Problem{Must: true}
		p.Node = func(b *flow.Block, i int, n ast.Node, in uint64) uint64 {
			if isAdvance(f, n) {
				in |= fAdv
			}
			return in
		}
		p.Edge = func(e *flow.Edge, in uint64) uint64 {
			if e.Cond == nil || e.Tag != nil {
				return in
			}
			// discarded < inBufferLen: the ring alone covered what was asked for
			if x, y, op, ok := flow.Cmp(e.Cond); ok {
				xo, isX := flow.ObjOf(f.Info, x).(*types.Var)
				yo, isY := flow.ObjOf(f.Info, y).(*types.Var)
				fromDiscard := func(v *types.Var) bool {
					found := false
					ast.Inspect(f.Decl.Body, func(n ast.Node) bool {
						if as, ok := n.(*ast.AssignStmt); ok && len(as.Rhs) == 1 {
							if call, ok := ast.Unparen(as.Rhs[0]).(*ast.CallExpr); ok {
								if cf := flow.CalleeFunc(f.Info, call); cf != nil && nameOf(cf) == "Discard" {
									for _, l := range as.Lhs {
										if flow.ObjOf(f.Info, l) == types.Object(v) {
											found = true
										}
									}
								}
							}
						}
						return true
					})
					return found
				}
				if isX && isY && !xo.IsField() && !yo.IsField() && (fromDiscard(xo) || fromDiscard(yo)) && ((op == token.LSS && e.Sense) || (op == token.GEQ && !e.Sense) || (op == token.GTR && e.Sense) || (op == token.LEQ && !e.Sense)) {
					in |= fRingOnly
				}
			}
			return in
		}
		sol := f.Graph().Solve(p)
		k := 0
		sol.AtExit(func(b *flow.Block, facts uint64) {
			k++
			c.Check(facts&(fAdv|fRingOnly) != 0, f.Name, "read window advanced before return #"+itoa(k), b.Return.Pos(), "c.buffer advanced or reset (or the ring alone covered the request)",
				"Discard can report bytes as discarded on a path that neither advanced nor reset c.buffer: the bytes it claims to have dropped are delivered again")
		})
	}
}

func init() {
	register(&core.Rule{ID: "C01.20", Prop: "C01", MinSites: 1, Applies: func(c core.Config) bool { return c.IsLinux() },
		Desc: "every polled event is dispatched: in Poller.Polling (both epoll variants) each iteration of the loop over the returned events either invokes the registered callback (the Polling callback / the attachment's Callback) or, for the wake-up descriptor, sets the chores flag, before the loop moves on to the next event – an event that is dropped is input that is never read (or a close that is never noticed), since edge-triggered registrations do not repeat it",
		Run:  runC01_20})
	alias("C18", "C18.13", "C01.20", "an error or hang-up event that is not dispatched leaves a dead connection registered for ever")
}

func runC01_20(c *core.Ctx) {
	a := pollerOf(c)
	if a == nil {
		return
	}
	f := a.polling
	isDispatch := func(call *ast.CallExpr) bool {
		fun := seeThroughAt(f, call.Fun, call) // cb := pollAttachment.Callback; err = cb(…)
		if p0 := f.param(0); p0 != nil && (flow.ObjOf(f.Info, call.Fun) == types.Object(p0) || flow.ObjOf(f.Info, fun) == types.Object(p0)) {
			return true
		}
		if fv := flow.FieldOf(f.Info, fun); fv != nil && nameOf(fv) == "Callback" {
			return true
		}
		return false
	}
	setsFlag := func(n ast.Node) bool {
		as, ok := n.(*ast.AssignStmt)
		if !ok || len(as.Lhs) != len(as.Rhs) {
			return false
		}
		for k, l := range as.Lhs {
			if o, ok := flow.ObjOf(f.Info, l).(*types.Var); ok && !o.IsField() {
				if bt, ok := o.Type().Underlying().(*types.Basic); ok && bt.Kind() == types.Bool {
					if cv := flow.ConstOf(f.Info, as.Rhs[k]); cv != nil && constant.BoolVal(cv) {
						return true
					}
				}
			}
		}
		return false
	}
	// the loop over the events: the innermost loop whose body contains a dispatch
	var loop ast.Stmt
	var body *ast.BlockStmt
	ast.Inspect(f.Decl.Body, func(n ast.Node) bool {
		var b *ast.BlockStmt
		switch y := n.(type) {
		case *ast.ForStmt:
			b = y.Body
		case *ast.RangeStmt:
			b = y.Body
		}
		if b != nil {
			has := false
			for _, call := range callsIn(b, false) {
				if isDispatch(call) {
					has = true
				}
			}
			if has {
				loop, body = n.(ast.Stmt), b // inner loops are visited later and win
			}
		}
		return true
	})
	if loop == nil {
		c.Violate(f.Name, "dispatch loop", f.Decl.Pos(), "Polling has no loop that invokes the registered callback: no polled event is ever dispatched")
		return
	}
	const fDone = 1
	g := f.Graph()
	p := &flow.Problem{Must: true}
	p.Node = func(b *flow.Block, i int, n ast.Node, in uint64) uint64 {
		for _, call := range flow.Calls(n) {
			if isDispatch(call) {
				in |= fDone
			}
		}
		if setsFlag(n) {
			in |= fDone
		}
		return in
	}
	p.Edge = func(e *flow.Edge, in uint64) uint64 {
		if e.To.Stmt == loop && (e.To.Kind == cfg.KindForBody || e.To.Kind == cfg.KindRangeBody) {
			return 0 // a new event: nothing done for it yet
		}
		return in
	}
	sol := g.Solve(p)
	_ = body
	// the blocks of one iteration: reachable from the loop's body block without going through the loop's own head/post/done blocks
	isLoopOwn := func(b *flow.Block) bool {
		if b.Stmt != loop {
			return false
		}
		switch b.Kind {
		case cfg.KindForLoop, cfg.KindForPost, cfg.KindForDone, cfg.KindRangeLoop, cfg.KindRangeDone:
			return true
		}
		return false
	}
	inIter := map[*flow.Block]bool{}
	var work []*flow.Block
	for _, b := range g.Blocks {
		if b.Stmt == loop && (b.Kind == cfg.KindForBody || b.Kind == cfg.KindRangeBody) {
			inIter[b] = true
			work = append(work, b)
		}
	}
	for len(work) > 0 {
		b := work[len(work)-1]
		work = work[:len(work)-1]
		for _, e := range b.Succs {
			if !inIter[e.To] && !isLoopOwn(e.To) {
				inIter[e.To] = true
				work = append(work, e.To)
			}
		}
	}
	k, good := 0, true
	for _, b := range g.Blocks {
		if !sol.Seen[b.ID] || !inIter[b] {
			continue
		}
		for _, e := range b.Succs {
			if e.To.Stmt == loop && (e.To.Kind == cfg.KindForPost || e.To.Kind == cfg.KindRangeLoop || e.To.Kind == cfg.KindForLoop) {
				k++
				out := sol.Out(b)
				if p.Edge != nil {
					out = p.Edge(e, out)
				}
				if out&fDone == 0 {
					good = false
				}
			}
		}
	}
	if k == 0 {
		c.Undecided(f.Name, "dispatch loop", loop.Pos(), "no edge from the event loop's body back to its head found; loop form not recognised")
		return
	}
	c.Check(good, f.Name, "every event dispatched", loop.Pos(), "callback invoked or chores flag set on every path through an iteration",
		"an iteration of Polling's loop over the returned events can finish without invoking the callback (or setting the chores flag for the wake-up descriptor): the event is dropped – under edge-triggered registration the input it announced is never read and a hang-up never noticed")
}

func init() {
	register(&core.Rule{ID: "C01.21", Prop: "C01", MinSites: 3,
		Desc: "a registration dispatches to its own connection: every netpoll.PollAttachment built in package gnet carries as FD the descriptor of the object it belongs to (the constructor's fd parameter / ln.fd) and as Callback that object's dispatcher – c.processIO of the conn under construction for a stream, the loop's readUDP for a datagram socket, the handler handed in for a listener; under the poll_opt build (which the test suite does not compile) the callback stored here is the only way an event finds its connection",
		Run:  runC01_21})
	alias("C08", "C08.12", "C01.21", "a UDP socket's events are dispatched to readUDP of the loop that owns it")
}

func runC01_21(c *core.Ctx) {
	v := vocabOf(c)
	if v == nil {
		return
	}
	attT, _ := c.P.Object("pkg/netpoll", "PollAttachment").(*types.TypeName)
	processIO := c.P.Func("", "conn.processIO")
	readUDP := c.P.Func("", "eventloop.readUDP")
	lnFd := c.P.Field("", "listener", "fd")
	if !c.Need("PollAttachment", attT) || !c.Need("conn.processIO", processIO) || !c.Need("eventloop.readUDP", readUDP) || !c.Need("listener.fd", lnFd) {
		return
	}
	for _, f := range v.funcs {
		if f.Decl.Body == nil {
			continue
		}
		k := 0
		ast.Inspect(f.Decl.Body, func(n ast.Node) bool {
			cl, ok := n.(*ast.CompositeLit)
			if !ok {
				return true
			}
			tn, _ := f.Info.TypeOf(cl).(*types.Named)
			if tn == nil || tn.Obj() != attT {
				return true
			}
			k++
			var fdE, cbE ast.Expr
			for _, el := range cl.Elts {
				if kv, ok := el.(*ast.KeyValueExpr); ok {
					if id, ok := kv.Key.(*ast.Ident); ok {
						switch id.Name {
						case "FD":
							fdE = kv.Value
						case "Callback":
							cbE = kv.Value
						}
					}
				}
			}
			// the callback may be set right after the literal: c.pollAttachment.Callback = c.processIO
			if cbE == nil {
				ast.Inspect(f.Decl.Body, func(m ast.Node) bool {
					if as, ok := m.(*ast.AssignStmt); ok && len(as.Lhs) == len(as.Rhs) {
						for i, l := range as.Lhs {
							if sel, ok := ast.Unparen(l).(*ast.SelectorExpr); ok && sel.Sel.Name == "Callback" && flow.FieldOf(f.Info, sel.X) == v.pollAtt {
								cbE = as.Rhs[i]
							}
						}
					}
					return true
				})
			}
			okFD := false
			if fdE != nil {
				fe := seeThrough(f, fdE)
				if o, isVar := flow.ObjOf(f.Info, fe).(*types.Var); isVar && !o.IsField() {
					// a parameter of the constructor that also initialises the object's own fd field
					ast.Inspect(f.Decl.Body, func(m ast.Node) bool {
						if kv, ok := m.(*ast.KeyValueExpr); ok {
							if id, ok := kv.Key.(*ast.Ident); ok && f.Info.Uses[id] == types.Object(v.fdF) && flow.ObjOf(f.Info, kv.Value) == types.Object(o) {
								okFD = true
							}
						}
						if as, ok := m.(*ast.AssignStmt); ok && len(as.Lhs) == len(as.Rhs) { // c.fd = fd
							for i, l := range as.Lhs {
								if flow.FieldOf(f.Info, l) == v.fdF && flow.ObjOf(f.Info, as.Rhs[i]) == types.Object(o) {
									okFD = true
								}
							}
						}
						return true
					})
				}
				if flow.FieldOf(f.Info, fe) == lnFd {
					if sel, ok := fe.(*ast.SelectorExpr); ok && flow.ObjOf(f.Info, sel.X) == types.Object(f.recvVar()) && f.recvVar() != nil {
						okFD = true
					}
				}
			}
			okCB := false
			if cbE != nil {
				ce := seeThrough(f, cbE)
				if sel, ok := ce.(*ast.SelectorExpr); ok {
					switch f.Info.Uses[sel.Sel] {
					case types.Object(processIO):
						// of the conn under construction: the variable the literal's enclosing conn was assigned to
						if o := flow.ObjOf(f.Info, sel.X); o != nil && v.isConnPtr(o.Type()) {
							okCB = true
						}
					case types.Object(readUDP):
						// of the loop the conn is constructed for
						if o := flow.ObjOf(f.Info, sel.X); o != nil {
							ast.Inspect(f.Decl.Body, func(m ast.Node) bool {
								if kv, ok := m.(*ast.KeyValueExpr); ok {
									if id, ok := kv.Key.(*ast.Ident); ok && f.Info.Uses[id] == types.Object(v.loopF) && flow.ObjOf(f.Info, kv.Value) == o {
										okCB = true
									}
								}
								return true
							})
						}
					}
				}
				if o, isVar := flow.ObjOf(f.Info, ce).(*types.Var); isVar && !o.IsField() {
					for i := 0; f.param(i) != nil; i++ {
						if f.param(i) == o {
							okCB = true // the handler the caller handed in (listener)
						}
					}
				}
			}
			c.Check(okFD && okCB, f.Name, "poll attachment #"+itoa(k), cl.Pos(), "own descriptor, own dispatcher",
				"the poll attachment built here does not carry the descriptor of the object it belongs to together with that object's dispatcher (c.processIO of the same conn / readUDP of its loop / the listener's handler): under the poll_opt build events of this descriptor are delivered to another connection's handler, or to none")
			return true
		})
	}
}
