package rules

import (
	"go/ast"
	"go/token"
	"go/types"
	"sort"
	"strings"

	"gnetlint/core"
	"gnetlint/flow"
)

// Clamp consistency, shared by the buffer properties: `if X > Y { v = E }` with v a term of X or Y is a
// clamp exactly when X == Y holds after the assignment. Deciding that needs no arithmetic beyond linear
// forms: substitute E for v in X - Y and compare with zero.

func init() {
	register(&core.Rule{ID: "C09.10", Prop: "C09", MinSites: 4,
		Desc: "clamps land on their bound (ring): for every `if X <cmp> Y { v = E }` whose only statement assigns a term v of the comparison, X - Y vanishes identically once E is substituted for v (a clamp of a count to what is available, of a window to the end of the ring)",
		Run:  func(c *core.Ctx) { runClamp(c, "pkg/buffer/ring") }})
	register(&core.Rule{ID: "C11.8", Prop: "C11", MinSites: 2,
		Desc: "clamps land on their bound (linked list): in Peek/PeekWithBytes the segment cut `if cum+offset > maxBytes { offset = maxBytes - cum }` and its like make the comparison an equality after the assignment",
		Run:  func(c *core.Ctx) { runClamp(c, "pkg/buffer/linkedlist") }})
}

type linForm map[string]int

func (l linForm) add(k string, n int) {
	l[k] += n
	if l[k] == 0 {
		delete(l, k)
	}
}

func linOf(info *types.Info, e ast.Expr, sign int, out linForm, subst map[string]ast.Expr) {
	var terms []struct {
		e    ast.Expr
		sign int
	}
	addTerms(e, sign, &terms)
	for _, t := range terms {
		key := exprStr(t.e)
		if tv, ok := info.Types[t.e]; ok && tv.Value != nil {
			key = "#" + tv.Value.ExactString()
		}
		if r, ok := subst[key]; ok {
			linOf(info, r, t.sign, out, nil)
			continue
		}
		out.add(key, t.sign)
	}
}

func (l linForm) String() string {
	var ks []string
	for k := range l {
		ks = append(ks, k)
	}
	sort.Strings(ks)
	var sb strings.Builder
	for _, k := range ks {
		if l[k] >= 0 {
			sb.WriteString("+")
		}
		sb.WriteString(itoa(l[k]) + "·" + k + " ")
	}
	return strings.TrimSpace(sb.String())
}

func runClamp(c *core.Ctx, pkgPath string) {
	pk := c.P.Pkg(pkgPath)
	if pk == nil {
		c.Undecided(pkgPath, "package", 0, "package not loaded")
		return
	}
	for _, d := range c.P.FuncsOf(pk) {
		obj, _ := pk.TypesInfo.Defs[d.Name].(*types.Func)
		if obj == nil || d.Body == nil {
			continue
		}
		f := &fn{P: c.P, Obj: obj, Decl: d, Info: pk.TypesInfo, Pkg: pk, Name: core.FuncName(obj)}
		k := 0
		ast.Inspect(d.Body, func(n ast.Node) bool {
			is, ok := n.(*ast.IfStmt)
			if ok && is.Else == nil && len(is.Body.List) == 0 {
				if _, _, _, isCmp := flow.Cmp(is.Cond); isCmp {
					k++
					c.Violate(f.Name, "clamp #"+itoa(k)+" has a body", is.Pos(), "`if "+exprStr(is.Cond)+" {}` tests a bound and does nothing about it: the clamp or wrap that belongs here is gone, so a count, offset or cursor runs past its limit")
				}
				return true
			}
			if !ok || is.Else != nil || len(is.Body.List) != 1 {
				return true
			}
			as, ok := is.Body.List[0].(*ast.AssignStmt)
			if !ok || as.Tok != token.ASSIGN || len(as.Lhs) != 1 || len(as.Rhs) != 1 {
				return true
			}
			x, y, op, ok := flow.Cmp(is.Cond)
			if !ok || op == token.EQL || op == token.NEQ {
				return true
			}
			vkey := exprStr(as.Lhs[0])
			before := linForm{}
			linOf(f.Info, x, 1, before, nil)
			linOf(f.Info, y, -1, before, nil)
			if co := before[vkey]; co != 1 && co != -1 {
				return true // v is not a term of the comparison: not a clamp of this shape
			}
			// an ordinary integer variable/field only
			if t := f.Info.TypeOf(as.Lhs[0]); t == nil {
				return true
			} else if b, ok := t.Underlying().(*types.Basic); !ok || b.Info()&types.IsInteger == 0 {
				return true
			}
			k++
			after := linForm{}
			sub := map[string]ast.Expr{vkey: as.Rhs[0]}
			linOf(f.Info, x, 1, after, sub)
			linOf(f.Info, y, -1, after, sub)
			construct := "clamp #" + itoa(k) + " of " + vkey
			c.Check(len(after) == 0, f.Name, construct, is.Pos(), "after the assignment "+exprStr(x)+" == "+exprStr(y),
				"`if "+exprStr(is.Cond)+" { "+vkey+" = "+exprStr(as.Rhs[0])+" }` does not land on its bound: after the assignment "+exprStr(x)+" - ("+exprStr(y)+") = "+after.String()+" instead of 0, so the clamped count/offset is off (bytes beyond the limit are exposed, or fewer than asked)")
			return true
		})
	}
}
