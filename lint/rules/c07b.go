package rules

import (
	"go/ast"
	"go/token"
	"go/types"
	"strings"

	"gnetlint/core"
	"gnetlint/flow"
)

func init() {
	register(&core.Rule{ID: "C07.9", Prop: "C07", MinSites: 6,
		Desc: "unchecked acquisition: after a call that produces a descriptor (or an object holding one) together with an error, the error is tested or returned before it is overwritten and before the produced descriptor is handed to any other call",
		Run: runC07_9})
}

// fdProducers: module functions whose error result decides whether a descriptor was produced.
func isFdProducer(f *fn, call *ast.CallExpr) string {
	cf := flow.CalleeFunc(f.Info, call)
	if cf == nil || cf.Pkg() == nil || !strings.HasPrefix(cf.Pkg().Path(), core.ModPath) {
		return ""
	}
	switch cf.Pkg().Name() + "." + flow.QualName(cf) {
	case "gnet.listener.open", "gnet.initListener", "socket.TCPSocket", "socket.UDPSocket", "socket.UnixSocket",
		"socket.Accept", "socket.Dup", "netpoll.OpenPoller", "socket.sysSocket", "socket.sysAccept":
		return cf.Pkg().Name() + "." + flow.QualName(cf)
	}
	return ""
}

func runC07_9(c *core.Ctx) {
	allFuncs(c, func(f *fn) {
		rel := strings.TrimPrefix(f.Pkg.PkgPath, core.ModPath)
		if rel != "" && rel != "/pkg/socket" && rel != "/pkg/netpoll" {
			return
		}
		bodies := []*ast.BlockStmt{f.Decl.Body}
		for _, fl := range allLits(f.Decl.Body) {
			bodies = append(bodies, fl.Body)
		}
		for _, body := range bodies {
			// producer assignments in this body (not in nested literals)
			type prod struct {
				stmt   ast.Node
				errObj types.Object
				what   string
				// what was produced: a local variable (first result) and/or the receiver object of a method producer (ln)
				fdVar  types.Object
				holder types.Object
				pos    token.Pos
			}
			var prods []prod
			g := flow.New(c.P.Fset, f.Info, body)
			for _, b := range g.Blocks {
				for _, n := range b.Nodes {
					as, ok := n.(*ast.AssignStmt)
					if !ok || len(as.Rhs) != 1 {
						continue
					}
					call, ok := ast.Unparen(as.Rhs[0]).(*ast.CallExpr)
					if !ok {
						continue
					}
					what := isFdProducer(f, call)
					if what == "" {
						continue
					}
					p := prod{stmt: n, what: what, pos: call.Pos()}
					for i, l := range as.Lhs {
						o := flow.ObjOf(f.Info, l)
						if o == nil {
							continue
						}
						if isErrorType(o.Type()) {
							p.errObj = o
						} else if i == 0 {
							p.fdVar = o
						}
					}
					if r := flow.Recv(call); r != nil {
						p.holder = flow.ObjOf(f.Info, r)
					}
					if p.errObj != nil {
						prods = append(prods, p)
					}
				}
			}
			for _, p := range prods {
				const (
					s0 = iota
					sUnchecked
				)
				type bad struct {
					pos token.Pos
					msg string
				}
				var bads []bad
				record := false
				mentions := func(n ast.Node, o types.Object) bool {
					found := false
					ast.Inspect(n, func(x ast.Node) bool {
						if id, ok := x.(*ast.Ident); ok && f.Info.Uses[id] == o {
							found = true
						}
						return true
					})
					return found
				}
				step := func(n ast.Node, s int) int {
					if n == p.stmt {
						return sUnchecked
					}
					if s != sUnchecked {
						return s
					}
					// a condition node or a return mentioning the error checks it
					if e, ok := n.(ast.Expr); ok && mentions(e, p.errObj) {
						return s0
					}
					if r, ok := n.(*ast.ReturnStmt); ok {
						_ = r
						return s0 // returned (named results included): the caller decides
					}
					// uses of the produced descriptor before the check
					for _, call := range flow.Calls(n) {
						for _, a := range call.Args {
							uses := (p.fdVar != nil && flow.ObjOf(f.Info, a) == p.fdVar)
							if p.holder != nil {
								if pa := flow.PathOf(f.Info, a); pa.Valid() && pa.Root == p.holder && pa.Sel == ".fd" {
									uses = true
								}
							}
							if uses && record {
								bads = append(bads, bad{call.Pos(), "the descriptor produced by " + p.what + " is passed to " + exprStr(call.Fun) + " before the error of " + p.what + " was tested: on failure this is a stale or foreign descriptor number"})
							}
						}
					}
					if as, ok := n.(*ast.AssignStmt); ok {
						for _, l := range as.Lhs {
							if flow.ObjOf(f.Info, l) == p.errObj {
								if record {
									bads = append(bads, bad{as.Pos(), "the error of " + p.what + " is overwritten before it was tested: a failed acquisition goes unnoticed (or is reported as a different error)"})
								}
								return s0
							}
						}
						// mentioning the error on the right-hand side (wrapping) counts as a use
						for _, r := range as.Rhs {
							if mentions(r, p.errObj) {
								return s0
							}
						}
					}
					if es, ok := n.(*ast.ExprStmt); ok && mentions(es, p.errObj) {
						return s0
					}
					return s
				}
				au := &flow.Auto{Start: s0}
				au.Node = func(b *flow.Block, i int, n ast.Node, s int) int { return step(n, s) }
				sol := g.Run(au)
				record = true
				for _, b := range g.Blocks {
					if !sol.Seen[b.ID] {
						continue
					}
					for _, st := range flow.States(sol.In[b.ID]) {
						s := st
						for _, n := range b.Nodes {
							s = step(n, s)
						}
					}
				}
				record = false
				construct := "error of " + p.what + " tested before reuse"
				if len(bads) == 0 {
					c.Ok(f.Name, construct, p.pos, "checked or returned before the descriptor is used or the error overwritten")
				} else {
					c.Violate(f.Name, construct, bads[0].pos, bads[0].msg)
				}
			}
		}
	})
}
