package rules

import (
	"go/ast"
	"go/constant"
	"go/token"
	"go/types"
	"sort"
	"strings"

	"gnetlint/core"
	"gnetlint/flow"
)

func init() {
	register(&core.Rule{ID: "C07.9", Prop: "C07", MinSites: 6,
		Desc: "unchecked acquisition: after a call that produces a descriptor (or an object holding one) together with an error, the error is tested or returned before it is overwritten and before the produced descriptor is handed to any other call",
		Run:  runC07_9})
}

// fdProducers: module functions whose error result decides whether a descriptor was produced.
func isFdProducer(f *fn, call *ast.CallExpr) string {
	cf := flow.CalleeFunc(f.Info, call)
	if cf == nil || cf.Pkg() == nil || !strings.HasPrefix(cf.Pkg().Path(), core.ModPath) {
		return ""
	}
	switch cf.Pkg().Name() + "." + flow.QualName(cf) {
	case "gnet.listener.open", "gnet.initListener", "socket.TCPSocket", "socket.UDPSocket", "socket.UnixSocket",
		"socket.Accept", "socket.Dup", "netpoll.OpenPoller", "socket.sysSocket", "socket.sysAccept":
		return cf.Pkg().Name() + "." + flow.QualName(cf)
	}
	return ""
}

func runC07_9(c *core.Ctx) {
	allFuncs(c, func(f *fn) {
		rel := strings.TrimPrefix(f.Pkg.PkgPath, core.ModPath)
		if rel != "" && rel != "/pkg/socket" && rel != "/pkg/netpoll" {
			return
		}
		bodies := []*ast.BlockStmt{f.Decl.Body}
		for _, fl := range allLits(f.Decl.Body) {
			bodies = append(bodies, fl.Body)
		}
		for _, body := range bodies {
			// producer assignments in this body (not in nested literals)
			type prod struct {
				stmt   ast.Node
				errObj types.Object
				what   string
				// what was produced: a local variable (first result) and/or the receiver object of a method producer (ln)
				fdVar  types.Object
				holder types.Object
				pos    token.Pos
			}
			var prods []prod
			g := flow.New(c.P.Fset, f.Info, body)
			for _, b := range g.Blocks {
				for _, n := range b.Nodes {
					as, ok := n.(*ast.AssignStmt)
					if !ok || len(as.Rhs) != 1 {
						continue
					}
					call, ok := ast.Unparen(as.Rhs[0]).(*ast.CallExpr)
					if !ok {
						continue
					}
					what := isFdProducer(f, call)
					if what == "" {
						continue
					}
					p := prod{stmt: n, what: what, pos: call.Pos()}
					for i, l := range as.Lhs {
						o := flow.ObjOf(f.Info, l)
						if o == nil {
							continue
						}
						if isErrorType(o.Type()) {
							p.errObj = o
						} else if i == 0 {
							p.fdVar = o
						}
					}
					if r := flow.Recv(call); r != nil {
						p.holder = flow.ObjOf(f.Info, r)
					}
					if p.errObj != nil {
						prods = append(prods, p)
					}
				}
			}
			for _, p := range prods {
				const (
					s0 = iota
					sUnchecked
				)
				type bad struct {
					pos token.Pos
					msg string
				}
				var bads []bad
				record := false
				mentions := func(n ast.Node, o types.Object) bool {
					found := false
					ast.Inspect(n, func(x ast.Node) bool {
						if id, ok := x.(*ast.Ident); ok && f.Info.Uses[id] == o {
							found = true
						}
						return true
					})
					return found
				}
				step := func(n ast.Node, s int) int {
					if n == p.stmt {
						return sUnchecked
					}
					if s != sUnchecked {
						return s
					}
					// a condition node or a return mentioning the error checks it
					if e, ok := n.(ast.Expr); ok && mentions(e, p.errObj) {
						return s0
					}
					if r, ok := n.(*ast.ReturnStmt); ok {
						_ = r
						return s0 // returned (named results included): the caller decides
					}
					// uses of the produced descriptor before the check
					for _, call := range flow.Calls(n) {
						for _, a := range call.Args {
							uses := (p.fdVar != nil && flow.ObjOf(f.Info, a) == p.fdVar)
							if p.holder != nil {
								if pa := flow.PathOf(f.Info, a); pa.Valid() && pa.Root == p.holder && pa.Sel == ".fd" {
									uses = true
								}
							}
							if uses && record {
								bads = append(bads, bad{call.Pos(), "the descriptor produced by " + p.what + " is passed to " + exprStr(call.Fun) + " before the error of " + p.what + " was tested: on failure this is a stale or foreign descriptor number"})
							}
						}
					}
					if as, ok := n.(*ast.AssignStmt); ok {
						for _, l := range as.Lhs {
							if flow.ObjOf(f.Info, l) == p.errObj {
								if record {
									bads = append(bads, bad{as.Pos(), "the error of " + p.what + " is overwritten before it was tested: a failed acquisition goes unnoticed (or is reported as a different error)"})
								}
								return s0
							}
						}
						// mentioning the error on the right-hand side (wrapping) counts as a use
						for _, r := range as.Rhs {
							if mentions(r, p.errObj) {
								return s0
							}
						}
					}
					if es, ok := n.(*ast.ExprStmt); ok && mentions(es, p.errObj) {
						return s0
					}
					return s
				}
				au := &flow.Auto{Start: s0}
				au.Node = func(b *flow.Block, i int, n ast.Node, s int) int { return step(n, s) }
				sol := g.Run(au)
				record = true
				for _, b := range g.Blocks {
					if !sol.Seen[b.ID] {
						continue
					}
					for _, st := range flow.States(sol.In[b.ID]) {
						s := st
						for _, n := range b.Nodes {
							s = step(n, s)
						}
					}
				}
				record = false
				// an acquisition inside a closure that stores its error in a captured variable: the statement
				// that runs the closure must not assign the same variable (its own result would replace the
				// acquisition's error as soon as the closure returns)
				if body != f.Decl.Body {
					ast.Inspect(f.Decl.Body, func(n ast.Node) bool {
						as, ok := n.(*ast.AssignStmt)
						if !ok || len(as.Rhs) != 1 {
							return true
						}
						call, ok := ast.Unparen(as.Rhs[0]).(*ast.CallExpr)
						if !ok {
							return true
						}
						runs := false
						for _, a := range call.Args {
							if fl, ok := ast.Unparen(a).(*ast.FuncLit); ok && fl.Body == body {
								runs = true
							}
						}
						if !runs {
							return true
						}
						for _, l := range as.Lhs {
							if flow.ObjOf(f.Info, l) == p.errObj {
								bads = append(bads, bad{as.Pos(), "the error of " + p.what + " is stored by the closure in " + p.errObj.Name() + ", and the statement that runs the closure assigns its own result to the same variable: a failed acquisition is replaced by that call's (nil) error and goes unnoticed"})
							}
						}
						return true
					})
				}
				construct := "error of " + p.what + " tested before reuse"
				if len(bads) == 0 {
					c.Ok(f.Name, construct, p.pos, "checked or returned before the descriptor is used or the error overwritten")
				} else {
					c.Violate(f.Name, construct, bads[0].pos, bads[0].msg)
				}
			}
		}
	})
}

func init() {
	register(&core.Rule{ID: "C07.10", Prop: "C07", MinSites: 3,
		Desc: "start-up failure cleanup: an error return reached after listeners/pollers were successfully created in this function closes them first (a collected container is ranged over with close, a single object is closed directly) unless they were already handed to an owner that the caller tears down",
		Run:  runC07_10})
}

// runC07_10: owner-object typestate for *listener / *netpoll.Poller values created by initListener / OpenPoller.
func runC07_10(c *core.Ctx) {
	v := vocabOf(c)
	if v == nil {
		return
	}
	initListener := c.P.Func("", "initListener")
	openPoller := c.P.Func("pkg/netpoll", "OpenPoller")
	lnClose := c.P.Func("", "listener.close")
	pollerClose := c.P.Func("pkg/netpoll", "Poller.Close")
	regLB := c.P.Func("", "baseLoadBalancer.register")
	closeLoops := c.P.Func("", "engine.closeEventLoops")
	if !c.Need("initListener", initListener) || !c.Need("OpenPoller", openPoller) || !c.Need("listener.close", lnClose) || !c.Need("Poller.Close", pollerClose) || !c.Need("register", regLB) || !c.Need("closeEventLoops", closeLoops) {
		return
	}
	for _, f := range v.funcs {
		g := f.Graph()
		type acq struct {
			stmt   ast.Node
			obj    types.Object // the created object
			errObj types.Object
			kind   string
			pos    token.Pos
		}
		var acqs []acq
		for _, b := range g.Blocks {
			for _, n := range b.Nodes {
				as, ok := n.(*ast.AssignStmt)
				if !ok || len(as.Rhs) != 1 || len(as.Lhs) != 2 {
					continue
				}
				call, ok := ast.Unparen(as.Rhs[0]).(*ast.CallExpr)
				if !ok {
					continue
				}
				kind := ""
				switch {
				case flow.IsCall(f.Info, call, initListener):
					kind = "listener"
				case flow.IsCall(f.Info, call, openPoller):
					kind = "poller"
				}
				if kind == "" {
					continue
				}
				acqs = append(acqs, acq{n, flow.ObjOf(f.Info, as.Lhs[0]), flow.ObjOf(f.Info, as.Lhs[1]), kind, call.Pos()})
			}
		}
		for _, a := range acqs {
			if a.obj == nil || a.errObj == nil {
				continue
			}
			// containers the object is stored into, and owner objects it is attached to
			containers := map[types.Object]bool{}
			owners := map[types.Object]bool{}
			ast.Inspect(f.Decl.Body, func(n ast.Node) bool {
				as, ok := n.(*ast.AssignStmt)
				if !ok {
					return true
				}
				for k, l := range as.Lhs {
					if len(as.Rhs) != len(as.Lhs) || flow.ObjOf(f.Info, as.Rhs[k]) != a.obj {
						continue
					}
					switch x := ast.Unparen(l).(type) {
					case *ast.IndexExpr: // listeners[i] = ln ; lns[ln.fd] = ln
						if o := flow.ObjOf(f.Info, x.X); o != nil {
							containers[o] = true
						}
					case *ast.SelectorExpr: // el.poller = p
						if o := flow.ObjOf(f.Info, x.X); o != nil {
							owners[o] = true
						}
					}
				}
				return true
			})
			// composite literal owners: el := eventloop{poller: p, …}
			ast.Inspect(f.Decl.Body, func(n ast.Node) bool {
				if as, ok := n.(*ast.AssignStmt); ok && len(as.Lhs) == 1 && len(as.Rhs) == 1 {
					rhs := ast.Unparen(as.Rhs[0])
					if ue, ok := rhs.(*ast.UnaryExpr); ok && ue.Op == token.AND { // el := &eventloop{poller: p, …}
						rhs = ast.Unparen(ue.X)
					}
					if cl, ok := rhs.(*ast.CompositeLit); ok {
						for _, el := range cl.Elts {
							if kv, ok := el.(*ast.KeyValueExpr); ok && flow.ObjOf(f.Info, kv.Value) == a.obj {
								if o := flow.ObjOf(f.Info, as.Lhs[0]); o != nil {
									owners[o] = true
								}
							}
						}
					}
				}
				return true
			})
			const (
				sNone  = iota
				sHeld  // created, error not yet known
				sOwned // this function is responsible
				sSafe  // closed, returned to the caller, or handed to a registered owner
			)
			closesObj := func(n ast.Node) bool {
				for _, call := range flow.Calls(n) {
					if (flow.IsCall(f.Info, call, lnClose) || flow.IsCall(f.Info, call, pollerClose)) && flow.ObjOf(f.Info, flow.Recv(call)) == a.obj {
						return true
					}
				}
				return false
			}
			closesContainer := func(n ast.Node) bool {
				// for _, l := range <container> { l.close() } appears as a range block: look at the statement kind through the node's calls
				found := false
				ast.Inspect(n, func(x ast.Node) bool {
					if rs, ok := x.(*ast.RangeStmt); ok {
						base := ast.Unparen(rs.X)
						if se, ok := base.(*ast.SliceExpr); ok {
							base = ast.Unparen(se.X)
						}
						if o := flow.ObjOf(f.Info, base); o != nil && containers[o] {
							for _, call := range callsIn(rs.Body, false) {
								if flow.IsCall(f.Info, call, lnClose) || flow.IsCall(f.Info, call, pollerClose) {
									found = true
								}
							}
						}
					}
					return true
				})
				return found
			}
			handsOver := func(n ast.Node) bool {
				for _, call := range flow.Calls(n) {
					// eng.eventLoops.register(el) with el an owner
					if cf := flow.CalleeFunc(f.Info, call); cf != nil && nameOf(cf) == "register" && len(call.Args) == 1 {
						arg := ast.Unparen(call.Args[0])
						if u, ok := arg.(*ast.UnaryExpr); ok && u.Op == token.AND {
							arg = ast.Unparen(u.X)
						}
						if o := flow.ObjOf(f.Info, arg); o != nil && owners[o] {
							return true
						}
					}
					if flow.IsCall(f.Info, call, closeLoops) {
						return true
					}
				}
				if as, ok := n.(*ast.AssignStmt); ok { // eng.ingress = el
					for k, l := range as.Lhs {
						if fl := flow.FieldOf(f.Info, l); fl != nil && nameOf(fl) == "ingress" && len(as.Rhs) == len(as.Lhs) {
							if o := flow.ObjOf(f.Info, as.Rhs[k]); o != nil && owners[o] {
								return true
							}
						}
					}
				}
				return false
			}
			// range statements are not block nodes in the CFG: collect the statements syntactically enclosing closes
			rangeCloses := map[ast.Node]bool{}
			ast.Inspect(f.Decl.Body, func(n ast.Node) bool {
				if rs, ok := n.(*ast.RangeStmt); ok && closesContainer(rs) {
					rangeCloses[rs.X] = true // the range expression is a CFG node
				}
				return true
			})
			// the same sweep written as a counted loop: for j := 0; j < i; j++ { listeners[j].close() }
			ast.Inspect(f.Decl.Body, func(n ast.Node) bool {
				fs, ok := n.(*ast.ForStmt)
				if !ok || fs.Init == nil || fs.Cond == nil || fs.Post == nil {
					return true
				}
				init, ok1 := fs.Init.(*ast.AssignStmt)
				post, ok2 := fs.Post.(*ast.IncDecStmt)
				if !ok1 || !ok2 || post.Tok != token.INC || len(init.Lhs) != 1 || len(init.Rhs) != 1 {
					return true
				}
				jv := flow.ObjOf(f.Info, init.Lhs[0])
				cv := flow.ConstOf(f.Info, init.Rhs[0])
				if jv == nil || flow.ObjOf(f.Info, post.X) != jv || cv == nil || constant.Sign(cv) != 0 {
					return true
				}
				x, y, op, ok := flow.Cmp(fs.Cond)
				if !ok || !((flow.ObjOf(f.Info, x) == jv && op == token.LSS) || (flow.ObjOf(f.Info, y) == jv && op == token.GTR)) {
					return true
				}
				if jvar, ok := jv.(*types.Var); !ok || assignCount(f, jvar) != 3 { // := and ++ (counted twice)
					return true
				}
				for _, call := range callsIn(fs.Body, false) {
					if !flow.IsCall(f.Info, call, lnClose) && !flow.IsCall(f.Info, call, pollerClose) {
						continue
					}
					if ie, ok := ast.Unparen(flow.Recv(call)).(*ast.IndexExpr); ok && flow.ObjOf(f.Info, ie.Index) == jv {
						if o := flow.ObjOf(f.Info, ie.X); o != nil && containers[o] {
							rangeCloses[fs.Cond] = true
						}
					}
				}
				return true
			})
			// the sweep as a deferred clean-up keyed on the function's own error result:
			//   defer func() { if err == nil { return }; for _, ln := range lns { ln.close() } }()
			// every exit of the closure either swept a container or passed the `err == nil` edge
			deferSweeps := false
			var errResult types.Object
			if rl := f.Decl.Type.Results; rl != nil {
				for _, fld := range rl.List {
					for _, nm := range fld.Names {
						if o := f.Info.Defs[nm]; o != nil && isErrorType(o.Type()) {
							errResult = o
						}
					}
				}
			}
			for _, d := range g.Defers {
				fl, ok := d.Call.Fun.(*ast.FuncLit)
				if !ok || errResult == nil || len(d.Call.Args) != 0 {
					continue
				}
				const fSwept, fNoErr = 1, 2
				dg := flow.New(c.P.Fset, f.Info, fl.Body)
				dp := &flow.Problem{Must: true}
				dp.Node = func(b *flow.Block, i int, n ast.Node, in uint64) uint64 {
					if e, ok := n.(ast.Expr); ok && rangeCloses[e] {
						in |= fSwept
					}
					return in
				}
				dp.Edge = func(e *flow.Edge, in uint64) uint64 {
					if e.Cond != nil && e.Tag == nil {
						if x, y, op, ok := flow.Cmp(e.Cond); ok && flow.IsNil(f.Info, y) && flow.ObjOf(f.Info, x) == errResult && (op == token.EQL) == e.Sense {
							in |= fNoErr
						}
					}
					return in
				}
				ds := dg.Solve(dp)
				all, exits := true, 0
				for _, b := range dg.Exits() {
					exits++
					if ds.Out(b)&(fSwept|fNoErr) == 0 {
						all = false
					}
				}
				swept := false
				ast.Inspect(fl.Body, func(n ast.Node) bool {
					if e, ok := n.(ast.Expr); ok && rangeCloses[e] {
						swept = true
					}
					return true
				})
				if all && exits > 0 && swept {
					deferSweeps = true
				}
			}
			const collected = 8 // earlier iterations stored their object in a local container that this function still owns
			au := &flow.Auto{Start: sNone}
			au.Node = func(b *flow.Block, i int, n ast.Node, st int) int {
				s, col := st&7, st&collected
				if n == a.stmt {
					if s == sOwned && len(containers) > 0 {
						col = collected
					}
					return sHeld | col
				}
				if as, ok := n.(*ast.AssignStmt); ok && s == sOwned && len(as.Lhs) == len(as.Rhs) {
					for k, l := range as.Lhs { // listeners[i] = ln: from here on it is one of the collected ones
						if ie, ok := ast.Unparen(l).(*ast.IndexExpr); ok && flow.ObjOf(f.Info, as.Rhs[k]) == a.obj {
							if o := flow.ObjOf(f.Info, ie.X); o != nil && containers[o] {
								return sNone | collected
							}
						}
					}
				}
				if closesObj(n) && (s == sOwned || s == sHeld) {
					s = sSafe
				}
				if handsOver(n) {
					return sSafe
				}
				if e, ok := n.(ast.Expr); ok && rangeCloses[e] {
					if s == sOwned || s == sHeld {
						s = sSafe
					}
					col = 0
				}
				return s | col
			}
			au.Edge = func(e *flow.Edge, st int) int {
				s, col := st&7, st&collected
				if s == sHeld && e.Cond != nil && e.Tag == nil {
					if x, y, op, ok := flow.Cmp(e.Cond); ok && flow.IsNil(f.Info, y) && flow.ObjOf(f.Info, x) == a.errObj {
						if (op == token.NEQ) == e.Sense {
							return sNone | col // creation failed: nothing new to close
						}
						return sOwned | col
					}
				}
				return st
			}
			sol := g.Run(au)
			bad := token.NoPos
			sol.AtExit(func(b *flow.Block, _ uint64) {
				owned := false
				for _, st := range flow.States(sol.Out(b)) {
					if st&7 == sOwned || st&collected != 0 {
						owned = true
					}
				}
				if !owned {
					return
				}
				if deferSweeps {
					// the deferred sweep covers everything already stored in a container; an object created but not yet stored stays this path's duty
					owned = false
					for _, st := range flow.States(sol.Out(b)) {
						if st&7 == sOwned {
							owned = true
						}
					}
					if !owned {
						return
					}
				}
				r := b.Return
				// success returns hand the object (or its container/owner) to the caller: last result nil
				isErrRet := false
				for _, res := range r.Results {
					if isErrorType(f.Info.TypeOf(res)) && !flow.IsNil(f.Info, res) {
						isErrRet = true
					}
				}
				if isErrRet && bad == token.NoPos {
					bad = r.Pos()
				}
			})
			construct := a.kind + " created by " + map[string]string{"listener": "initListener", "poller": "OpenPoller"}[a.kind] + " is cleaned up on later failures"
			if bad == token.NoPos {
				c.Ok(f.Name, construct, a.pos, "closed, handed over or returned on every path")
			} else {
				what := "the " + a.kind + " created here"
				if len(containers) > 0 {
					what = "the " + a.kind + "s collected so far"
				}
				c.Violate(f.Name, construct, bad, "an error return is reachable while "+what+" is neither closed nor handed to an owner the caller tears down: descriptors (and unix socket files) created before the failure leak when Run/Rotate returns the error")
			}
		}
	}
}

func init() {
	register(&core.Rule{ID: "C07.11", Prop: "C07", MinSites: 1,
		Desc: "teardown runs once: an exported method that closes the event loops' pollers and listeners after the loops ran (Client.Stop) does so only on the isShutdown()==false edge, so a second call cannot close the same descriptor numbers again",
		Run:  runC07_11})
	alias("C19", "C19.6", "C07.11", "stopping twice must be harmless")
}

func runC07_11(c *core.Ctx) {
	v := vocabOf(c)
	if v == nil {
		return
	}
	cel := c.P.Func("", "engine.closeEventLoops")
	isShutdown := c.P.Func("", "engine.isShutdown")
	if !c.Need("closeEventLoops", cel) || !c.Need("isShutdown", isShutdown) {
		return
	}
	n := 0
	for _, f := range v.funcs {
		if !f.Obj.Exported() || nameOf(f.Obj) == "Start" {
			continue
		}
		const fRunning = 1
		p := &flow.Problem{Must: true}
		p.Edge = func(e *flow.Edge, in uint64) uint64 {
			if e.Cond != nil && e.Tag == nil && !e.Sense {
				if call, ok := ast.Unparen(e.Cond).(*ast.CallExpr); ok && flow.IsCall(f.Info, call, isShutdown) {
					in |= fRunning
				}
			}
			return in
		}
		sol := f.Graph().Solve(p)
		sol.Walk(func(b *flow.Block, i int, nd ast.Node, before uint64) {
			for _, call := range flow.Calls(nd) {
				if flow.IsCall(f.Info, call, cel) {
					n++
					c.Check(before&fRunning != 0, f.Name, "closeEventLoops only if not shut down yet", call.Pos(), "a repeated call returns before touching any descriptor",
						f.Obj.Name()+" tears the event loops down without first testing isShutdown(): calling it twice closes the pollers' descriptor numbers a second time – numbers that may meanwhile belong to files or sockets of the application", sol.Witness(b, fRunning)...)
				}
			}
		})
	}
	if n == 0 {
		c.Violate("gnet", "exported teardown entry", token.NoPos, "no exported method reaches closeEventLoops (Client.Stop is expected to)")
	}
}

func init() {
	register(&core.Rule{ID: "C07.12", Prop: "C07", MinSites: 1,
		Desc: "no close behind the owner's back: once a descriptor was given to a conn constructor and that conn was handed to a loop (Trigger/register), the creating function closes the descriptor only where the hand-over's error is established non-nil; on the success edge the loop owns it and will close it itself",
		Run:  runC07_12})
}

func runC07_12(c *core.Ctx) {
	v := vocabOf(c)
	if v == nil {
		return
	}
	sites := 0
	for _, f := range v.funcs {
		if f.Decl.Body == nil {
			continue
		}
		isCtor := func(call *ast.CallExpr) bool {
			cf := flow.CalleeFunc(f.Info, call)
			return cf != nil && v.byObj[cf] != nil && (nameOf(cf) == "newStreamConn" || nameOf(cf) == "newUDPConn")
		}
		// fd variable -> conn variable built from it
		type built struct {
			fd, conn types.Object
		}
		var bs []built
		ast.Inspect(f.Decl.Body, func(n ast.Node) bool {
			if _, ok := n.(*ast.FuncLit); ok {
				return false
			}
			as, ok := n.(*ast.AssignStmt)
			if !ok || len(as.Lhs) != 1 || len(as.Rhs) != 1 {
				return true
			}
			call, ok := ast.Unparen(as.Rhs[0]).(*ast.CallExpr)
			if !ok || !isCtor(call) {
				return true
			}
			co := flow.ObjOf(f.Info, as.Lhs[0])
			for _, a := range call.Args {
				if fo, ok := flow.ObjOf(f.Info, a).(*types.Var); ok && co != nil {
					if b, ok := fo.Type().Underlying().(*types.Basic); ok && b.Kind() == types.Int {
						bs = append(bs, built{fo, co})
					}
				}
			}
			return true
		})
		for _, bt := range bs {
			bt := bt
			var closes []*ast.CallExpr
			for _, call := range callsIn(f.Decl.Body, false) {
				if flow.IsPkgFunc(f.Info, call, unixPkg, "Close") && len(call.Args) == 1 && flow.ObjOf(f.Info, call.Args[0]) == bt.fd {
					closes = append(closes, call)
				}
			}
			if len(closes) == 0 {
				continue
			}
			const (
				fBuilt = 1 << iota
				fHanded
				fFailed
			)
			var errObj types.Object
			p := &flow.Problem{Must: true}
			p.Node = func(b *flow.Block, i int, n ast.Node, in uint64) uint64 {
				flow.Events(n, func(x ast.Node) {
					switch y := x.(type) {
					case *ast.AssignStmt:
						if len(y.Rhs) == 1 {
							if call, ok := ast.Unparen(y.Rhs[0]).(*ast.CallExpr); ok {
								if isCtor(call) && len(y.Lhs) == 1 && flow.ObjOf(f.Info, y.Lhs[0]) == bt.conn {
									in |= fBuilt
									in &^= fHanded | fFailed
									return
								}
								for _, a := range call.Args {
									if flow.ObjOf(f.Info, a) == bt.conn && in&fBuilt != 0 && len(y.Lhs) >= 1 {
										if eo := flow.ObjOf(f.Info, y.Lhs[len(y.Lhs)-1]); eo != nil && isErrorType(eo.Type()) {
											errObj = eo
											in |= fHanded
											in &^= fFailed
											return
										}
									}
								}
							}
						}
						for _, l := range y.Lhs {
							if errObj != nil && flow.ObjOf(f.Info, l) == errObj {
								in &^= fFailed
							}
						}
					}
				})
				return in
			}
			p.Edge = func(e *flow.Edge, in uint64) uint64 {
				if e.Cond == nil || e.Tag != nil || errObj == nil {
					return in
				}
				if x, y, op, ok := flow.Cmp(e.Cond); ok && flow.IsNil(f.Info, y) && flow.ObjOf(f.Info, x) == errObj && in&fHanded != 0 {
					if (op == token.NEQ) == e.Sense {
						in |= fFailed
					}
				}
				return in
			}
			// errObj is discovered while solving; run twice so that edges see it
			g := f.Graph()
			g.Solve(p)
			sol := g.Solve(p)
			k := 0
			sol.Walk(func(b *flow.Block, i int, n ast.Node, before uint64) {
				for _, call := range flow.Calls(n) {
					for _, cl := range closes {
						if call != cl || before&fBuilt == 0 || before&fHanded == 0 {
							continue
						}
						k++
						sites++
						c.Check(before&fFailed != 0, f.Name, "unix.Close("+bt.fd.Name()+") after hand-over #"+itoa(k), call.Pos(), "only on the failed hand-over edge",
							"the descriptor "+bt.fd.Name()+" belongs to "+bt.conn.Name()+", which was handed to an event loop; it is closed here although the hand-over is not known to have failed: the loop will register, serve and close the same number again (a number that may meanwhile name another connection)", sol.Witness(b, fFailed)...)
					}
				}
			})
		}
	}
	if sites == 0 {
		c.Undecided("gnet", "close after hand-over", 0, "no creator-side close after a hand-over found (accept0's failure path is the confirmed instance)")
	}
}

func init() {
	register(&core.Rule{ID: "C07.13", Prop: "C07", MinSites: 8,
		Desc: "the public Conn methods do not touch a released descriptor: every exported method of *conn that reaches a system call on c.fd (directly, through c.write/c.writev or through the loop's write) does so only where c.opened was tested on this path or on the datagram branch (a UDP conn borrows the listener's descriptor); an earlier call of the same callback may have failed and closed the connection, and the number may already be someone else's",
		Run:  runC07_13})
}

func runC07_13(c *core.Ctx) {
	v := vocabOf(c)
	if v == nil {
		return
	}
	isDgramF := c.P.Field("", "conn", "isDatagram")
	if !c.Need("conn.isDatagram", isDgramF) {
		return
	}
	// does fn use the fd of its conn (receiver or conn parameter) in a call outside the module without
	// having tested c.opened?  memoised, depth-limited
	type key struct {
		fn *types.Func
	}
	memo := map[key]int{} // 0 unknown, 1 yes, 2 no, 3 in progress
	var touches func(fo *types.Func, depth int) bool
	connVarsOf := func(f *fn) map[types.Object]bool {
		out := map[types.Object]bool{}
		if rv := f.recvVar(); rv != nil && v.isConnPtr(rv.Type()) {
			out[rv] = true
		}
		sig := f.Obj.Type().(*types.Signature)
		for i := 0; i < sig.Params().Len(); i++ {
			if v.isConnPtr(sig.Params().At(i).Type()) {
				out[sig.Params().At(i)] = true
			}
		}
		return out
	}
	type site struct {
		pos  token.Pos
		what string
	}
	analyse := func(f *fn, depth int) []site {
		cv := connVarsOf(f)
		if len(cv) == 0 {
			return nil
		}
		const (
			fOpen = 1 << iota
			fDgram
		)
		p := &flow.Problem{Must: true}
		isConnField := func(e ast.Expr, fl *types.Var) bool {
			sel, ok := ast.Unparen(e).(*ast.SelectorExpr)
			return ok && flow.FieldOf(f.Info, sel) == fl && cv[flow.ObjOf(f.Info, sel.X)]
		}
		closedHelper := func(e ast.Expr) bool {
			// c.closed(): a bool method of *conn whose body mentions c.opened
			call, ok := ast.Unparen(e).(*ast.CallExpr)
			if !ok {
				return false
			}
			cf := flow.CalleeFunc(f.Info, call)
			hf := fnOf(c, cf)
			if cf == nil || hf == nil || hf.Decl.Body == nil {
				return false
			}
			r := flow.Recv(call)
			if r == nil || !cv[flow.ObjOf(f.Info, r)] {
				return false
			}
			uses := false
			ast.Inspect(hf.Decl.Body, func(n ast.Node) bool {
				if sel, ok := n.(*ast.SelectorExpr); ok && flow.FieldOf(hf.Info, sel) == v.opened {
					uses = true
				}
				return true
			})
			return uses
		}
		p.Edge = func(e *flow.Edge, in uint64) uint64 {
			if e.Cond == nil || e.Tag != nil {
				return in
			}
			switch {
			case isConnField(e.Cond, v.opened):
				if e.Sense {
					in |= fOpen
				}
			case isConnField(e.Cond, isDgramF):
				if e.Sense {
					in |= fOpen // one fact for "open or datagram": the two justify a descriptor use alike and meet at joins
				}
			case closedHelper(e.Cond):
				if !e.Sense {
					in |= fOpen // not closed: open, or a datagram conn
				}
			}
			return in
		}
		sol := f.Graph().Solve(p)
		var out []site
		sol.Walk(func(b *flow.Block, i int, n ast.Node, before uint64) {
			if before&(fOpen|fDgram) != 0 {
				return
			}
			for _, call := range flow.Calls(n) {
				cf := flow.CalleeFunc(f.Info, call)
				if cf == nil || cf.Pkg() == nil {
					continue
				}
				usesFd := false
				passesConn := false
				for _, arg := range call.Args {
					if isConnField(arg, v.fdF) {
						usesFd = true
					}
					if cv[flow.ObjOf(f.Info, arg)] {
						passesConn = true
					}
				}
				if r := flow.Recv(call); r != nil && cv[flow.ObjOf(f.Info, r)] {
					passesConn = true
				}
				if usesFd && (!isModulePkg(cf.Pkg().Path()) || strings.HasSuffix(cf.Pkg().Path(), "/pkg/socket") || strings.HasSuffix(cf.Pkg().Path(), "/pkg/io")) {
					out = append(out, site{call.Pos(), core.FuncName(cf) + "(" + "c.fd" + ")"})
					continue
				}
				if passesConn && isModulePkg(cf.Pkg().Path()) && v.byObj[cf] != nil && depth < 3 && touches(cf, depth+1) {
					out = append(out, site{call.Pos(), "call of " + core.FuncName(cf)})
				}
			}
		})
		return out
	}
	touches = func(fo *types.Func, depth int) bool {
		k := key{fo}
		switch memo[k] {
		case 1:
			return true
		case 2, 3:
			return false
		}
		memo[k] = 3
		f := fnOf(c, fo)
		res := f != nil && f.Decl.Body != nil && len(analyse(f, depth)) > 0
		if res {
			memo[k] = 1
		} else {
			memo[k] = 2
		}
		return res
	}
	for _, f := range v.funcs {
		rv := f.recvVar()
		if rv == nil || !v.isConnPtr(rv.Type()) || !f.Obj.Exported() || f.Decl.Body == nil {
			continue
		}
		sites := analyse(f, 0)
		// does the method touch the descriptor at all (guarded or not)?
		touchesAtAll := false
		ast.Inspect(f.Decl.Body, func(n ast.Node) bool {
			if sel, ok := n.(*ast.SelectorExpr); ok && flow.FieldOf(f.Info, sel) == v.fdF {
				touchesAtAll = true
			}
			if call, ok := n.(*ast.CallExpr); ok {
				if cf := flow.CalleeFunc(f.Info, call); cf != nil && (nameOf(cf) == "write" || nameOf(cf) == "writev") && v.byObj[cf] != nil {
					touchesAtAll = true
				}
			}
			return true
		})
		if nameOf(f.Obj) == "Fd" {
			continue // hands out the number, performs no system call
		}
		if len(sites) > 0 {
			c.Violate(f.Name, "descriptor use behind an open test", sites[0].pos, "Conn."+f.Obj.Name()+" reaches "+sites[0].what+" without c.opened having been tested on this path: called by a handler after an earlier Write of the same callback failed (which closed the connection and its descriptor), it acts on whatever file or connection has been given that number since")
			continue
		}
		if touchesAtAll {
			c.Ok(f.Name, "descriptor use behind an open test", f.Decl.Pos(), "every use of c.fd is behind c.opened / on the datagram branch")
		}
	}
}

func init() {
	register(&core.Rule{ID: "C07.14", Prop: "C07", MinSites: 1,
		Desc: "a half-built poller is torn down: in OpenPoller, once the epoll/kqueue descriptor exists, every return on the error edge of a later step (eventfd, registering the wake-up descriptor, kevent) first calls poller.Close() or closes the descriptor",
		Run:  runC07_14})
}

// deferredPollerClose classifies a defer statement of OpenPoller: 0 = does not close the poller,
// 1 = closes it on the error edge only (`if err != nil { poller.Close() }` in the closure),
// 2 = closes it unconditionally.
func deferredPollerClose(f *fn, d *ast.DeferStmt, closeFn *types.Func) int {
	if flow.IsCall(f.Info, d.Call, closeFn) {
		return 2
	}
	lit, ok := ast.Unparen(d.Call.Fun).(*ast.FuncLit)
	if !ok {
		return 0
	}
	kind := 0
	var walk func(n ast.Node, guarded bool)
	walk = func(n ast.Node, guarded bool) {
		ast.Inspect(n, func(x ast.Node) bool {
			switch y := x.(type) {
			case *ast.IfStmt:
				if y.Init != nil {
					walk(y.Init, guarded)
				}
				g := guarded
				if a, b, op, ok := flow.Cmp(y.Cond); ok && op == token.NEQ && flow.IsNil(f.Info, b) {
					if o := flow.ObjOf(f.Info, a); o != nil && isErrorType(o.Type()) {
						g = true
					}
				}
				walk(y.Body, g)
				if y.Else != nil {
					walk(y.Else, guarded)
				}
				return false
			case *ast.CallExpr:
				if flow.IsCall(f.Info, y, closeFn) {
					k := 2
					if guarded {
						k = 1
					}
					if k > kind {
						kind = k
					}
				}
			}
			return true
		})
	}
	walk(lit.Body, false)
	return kind
}

func runC07_14(c *core.Ctx) {
	f := getFn(c, "pkg/netpoll", "OpenPoller")
	closeFn := c.P.Func("pkg/netpoll", "Poller.Close")
	fdF := c.P.Field("pkg/netpoll", "Poller", "fd")
	if f == nil || !c.Need("Poller.Close", closeFn) || !c.Need("Poller.fd", fdF) {
		return
	}
	const (
		sNone = iota
		sFirst
		sHeld
		sOwes
		nBase
	)
	// state = base + nBase*deferred: a registered deferred close settles the debt at the return
	isErr := func(e ast.Expr) bool {
		o := flow.ObjOf(f.Info, e)
		return o != nil && isErrorType(o.Type())
	}
	au := &flow.Auto{Start: sNone}
	au.Node = func(b *flow.Block, i int, n ast.Node, st int) int {
		base, def := st%nBase, st/nBase
		if d, ok := n.(*ast.DeferStmt); ok {
			if deferredPollerClose(f, d, closeFn) > 0 {
				def = 1
			}
			return base + nBase*def
		}
		if as, ok := n.(*ast.AssignStmt); ok && base == sNone {
			for _, l := range as.Lhs {
				if flow.FieldOf(f.Info, l) == fdF {
					if _, isCall := ast.Unparen(as.Rhs[0]).(*ast.CallExpr); isCall {
						return sFirst + nBase*def
					}
				}
			}
		}
		for _, call := range flow.Calls(n) {
			if flow.IsCall(f.Info, call, closeFn) {
				return sNone + nBase*def
			}
			if flow.IsPkgFunc(f.Info, call, unixPkg, "Close") && len(call.Args) == 1 && flow.FieldOf(f.Info, call.Args[0]) == fdF {
				return sNone + nBase*def
			}
		}
		return st
	}
	au.Edge = func(e *flow.Edge, st int) int {
		if e.Cond == nil || e.Tag != nil {
			return st
		}
		x, y, op, ok := flow.Cmp(e.Cond)
		if !ok || !flow.IsNil(f.Info, y) || !isErr(x) {
			return st
		}
		base, def := st%nBase, st/nBase
		failed := (op == token.NEQ) == e.Sense
		switch base {
		case sFirst:
			if failed {
				base = sNone
			} else {
				base = sHeld
			}
		case sHeld:
			if failed {
				base = sOwes
			}
		}
		return base + nBase*def
	}
	sol := f.Graph().Run(au)
	k, bad := 0, token.NoPos
	sol.AtExit(func(b *flow.Block, _ uint64) {
		k++
		if sol.Out(b)&(1<<sOwes) != 0 && bad == token.NoPos { // owing with no deferred close registered
			bad = b.Return.Pos()
		}
	})
	at := f.Decl.Pos()
	if bad != token.NoPos {
		at = bad
	}
	c.Check(bad == token.NoPos, f.Name, "error returns after the poller descriptor exists close it", at, itoa(k)+" returns inspected",
		"OpenPoller can return an error after the epoll/kqueue descriptor was created without calling poller.Close() (directly or in a deferred clean-up): every failed start-up attempt leaks that descriptor (and the wake-up descriptor)")
}

func init() {
	register(&core.Rule{ID: "C07.17", Prop: "C07", MinSites: 1,
		Desc: "no close of a descriptor that was never created: Poller.Close() closes some descriptor fields unconditionally (epoll: efd and fd; kqueue: fd); OpenPoller reaches it – directly or through a deferred clean-up that runs on its error returns – only after each of those fields was assigned from its creating call, since a field still holding Go's zero value names descriptor 0, which belongs to the application",
		Run:  runC07_17})
}

func runC07_17(c *core.Ctx) {
	f := getFn(c, "pkg/netpoll", "OpenPoller")
	closeFn := c.P.Func("pkg/netpoll", "Poller.Close")
	if f == nil || !c.Need("Poller.Close", closeFn) {
		return
	}
	cf := fnOf(c, closeFn)
	if cf == nil || cf.Decl.Body == nil || cf.recvVar() == nil {
		c.Undecided(f.Name, "Poller.Close body", f.Decl.Pos(), "Poller.Close has no body in this configuration")
		return
	}
	// the fields Close hands to close(2) outside every if/switch
	var fields []*types.Var
	var collect func(n ast.Node)
	collect = func(n ast.Node) {
		ast.Inspect(n, func(x ast.Node) bool {
			switch y := x.(type) {
			case *ast.IfStmt, *ast.SwitchStmt, *ast.TypeSwitchStmt, *ast.FuncLit:
				_ = y
				return false
			case *ast.CallExpr:
				if flow.IsPkgFunc(cf.Info, y, unixPkg, "Close") && len(y.Args) == 1 {
					if fv := flow.FieldOf(cf.Info, y.Args[0]); fv != nil {
						fields = append(fields, fv)
					}
				}
			}
			return true
		})
	}
	collect(cf.Decl.Body)
	if len(fields) == 0 || len(fields) > 3 {
		c.Undecided(f.Name, "descriptor fields closed by Poller.Close", cf.Decl.Pos(), itoa(len(fields))+" unconditional close(2) calls on fields found in Poller.Close; expected 1 to 3")
		return
	}
	idx := func(v *types.Var) int {
		for i, fv := range fields {
			if fv == v {
				return i
			}
		}
		return -1
	}
	nf := uint(len(fields))
	all := 1<<nf - 1
	// state bits: [0,nf) assigned flags | err (2 bits: 0 unknown, 1 nil, 2 non-nil) | deferred kind (2 bits) | bad (1 bit)
	const (
		eUnknown = 0
		eNil     = 1
		eFail    = 2
	)
	pack := func(asg, e, d, bad int) int { return asg | e<<nf | d<<(nf+2) | bad<<(nf+4) }
	unpack := func(s int) (asg, e, d, bad int) {
		return s & all, s >> nf & 3, s >> (nf + 2) & 3, s >> (nf + 4) & 1
	}
	isErr := func(e ast.Expr) bool {
		o := flow.ObjOf(f.Info, e)
		return o != nil && isErrorType(o.Type())
	}
	var badAt token.Pos
	var badWhat string
	au := &flow.Auto{Start: pack(0, eNil, 0, 0)}
	au.Node = func(b *flow.Block, i int, n ast.Node, st int) int {
		asg, e, d, bad := unpack(st)
		if ds, ok := n.(*ast.DeferStmt); ok {
			if k := deferredPollerClose(f, ds, closeFn); k > d {
				d = k
			}
			return pack(asg, e, d, bad)
		}
		flow.Events(n, func(x ast.Node) {
			switch y := x.(type) {
			case *ast.CallExpr:
				if flow.IsCall(f.Info, y, closeFn) && asg != all {
					bad = 1
					if badAt == token.NoPos {
						badAt, badWhat = y.Pos(), "poller.Close() is called"
					}
				}
			case *ast.AssignStmt:
				for _, l := range y.Lhs {
					if fv := flow.FieldOf(f.Info, l); fv != nil {
						if k := idx(fv); k >= 0 {
							asg |= 1 << uint(k)
						}
					}
					if isErr(l) {
						e = eUnknown
					}
				}
			case *ast.CompositeLit:
				for _, el := range y.Elts {
					if kv, ok := el.(*ast.KeyValueExpr); ok {
						if id, ok := kv.Key.(*ast.Ident); ok {
							if fv, ok := f.Info.Uses[id].(*types.Var); ok {
								if k := idx(fv); k >= 0 {
									asg |= 1 << uint(k)
								}
							}
						}
					}
				}
			}
		})
		if r, ok := n.(*ast.ReturnStmt); ok && len(r.Results) > 0 {
			e = eUnknown
			last := r.Results[len(r.Results)-1]
			if flow.IsNil(f.Info, last) {
				e = eNil
			}
		}
		return pack(asg, e, d, bad)
	}
	au.Edge = func(ed *flow.Edge, st int) int {
		if ed.Cond == nil || ed.Tag != nil {
			return st
		}
		x, y, op, ok := flow.Cmp(ed.Cond)
		if !ok || !flow.IsNil(f.Info, y) || !isErr(x) {
			return st
		}
		asg, _, d, bad := unpack(st)
		if (op == token.NEQ) == ed.Sense {
			return pack(asg, eFail, d, bad)
		}
		return pack(asg, eNil, d, bad)
	}
	sol := f.Graph().Run(au)
	k := 0
	sol.AtExit(func(b *flow.Block, _ uint64) {
		k++
		for _, st := range flow.States(sol.Out(b)) {
			asg, e, d, bad := unpack(st)
			if bad != 0 {
				continue // reported at the call
			}
			if asg != all && (d == 2 || d == 1 && e != eNil) && badAt == token.NoPos {
				badAt, badWhat = b.Return.Pos(), "the deferred clean-up calls poller.Close() at this return"
			}
		}
	})
	names := ""
	for i, fv := range fields {
		if i > 0 {
			names += ", "
		}
		names += fv.Name()
	}
	at := f.Decl.Pos()
	if badAt != token.NoPos {
		at = badAt
	}
	c.Check(badAt == token.NoPos, f.Name, "Poller.Close only once its descriptor fields are assigned", at,
		itoa(k)+" returns inspected; Close closes "+names+" unconditionally",
		badWhat+" while a descriptor field it closes unconditionally ("+names+") may still hold Go's zero value: close(0) takes descriptor 0 away from the application – the framework closes a descriptor it never created")
}

func init() {
	register(&core.Rule{ID: "C07.15", Prop: "C07", MinSites: 1,
		Desc: "Poller.Close releases what OpenPoller acquired: the number of close(2) call sites in Poller.Close is at least the number of descriptors OpenPoller creates (epoll/kqueue descriptor, eventfd, both ends of a wake-up pipe)",
		Run:  runC07_15})
}

func runC07_15(c *core.Ctx) {
	open := getFn(c, "pkg/netpoll", "OpenPoller")
	cl := getFn(c, "pkg/netpoll", "Poller.Close")
	if open == nil || cl == nil {
		return
	}
	acquired := 0
	var what []string
	seen := map[*types.Func]bool{}
	var scan func(f *fn, depth int)
	scan = func(f *fn, depth int) {
		for _, call := range callsIn(f.Decl.Body, true) {
			for name, n := range map[string]int{"EpollCreate1": 1, "EpollCreate": 1, "Eventfd": 1, "Kqueue": 1, "Pipe": 2, "Pipe2": 2} {
				if flow.IsPkgFunc(f.Info, call, unixPkg, name) {
					acquired += n
					what = append(what, name)
				}
			}
			if cf := flow.CalleeFunc(f.Info, call); cf != nil && cf.Pkg() != nil && strings.HasSuffix(cf.Pkg().Path(), "/pkg/netpoll") && !seen[cf] && depth < 2 {
				seen[cf] = true
				if g := fnOf(c, cf); g != nil && g.Decl.Body != nil {
					scan(g, depth+1)
				}
			}
		}
	}
	scan(open, 0)
	closes := 0
	for _, call := range callsIn(cl.Decl.Body, true) {
		if flow.IsPkgFunc(cl.Info, call, unixPkg, "Close") {
			closes++
		}
	}
	if acquired == 0 {
		c.Undecided(open.Name, "descriptors acquired", open.Decl.Pos(), "OpenPoller creates no descriptor through a known call: idiom not recognised")
		return
	}
	sort.Strings(what)
	c.Check(closes >= acquired, cl.Name, "closes every descriptor of the poller", cl.Decl.Pos(), itoa(closes)+" close sites for "+itoa(acquired)+" descriptors ("+strings.Join(what, ", ")+")",
		"Poller.Close has "+itoa(closes)+" close(2) call site(s) but OpenPoller acquires "+itoa(acquired)+" descriptor(s) ("+strings.Join(what, ", ")+"): a descriptor of every poller stays open after the engine stopped")
}

func init() {
	register(&core.Rule{ID: "C07.16", Prop: "C07", MinSites: 1,
		Desc: "a listener that cannot be finished is closed, one that could not be opened is not: in every function that calls ln.open(), the failure edge of open never reaches ln.close() (the socket helpers already closed the descriptor they report), and once open succeeded no return can carry an error of a later step unless ln.close() ran – directly or in a deferred closure guarded by that error",
		Run:  runC07_16})
}

func runC07_16(c *core.Ctx) {
	v := vocabOf(c)
	if v == nil {
		return
	}
	openFn := c.P.Func("", "listener.open")
	closeFn := c.P.Func("", "listener.close")
	if !c.Need("listener.open", openFn) || !c.Need("listener.close", closeFn) {
		return
	}
	sites := 0
	for _, f := range v.funcs {
		if f.Decl.Body == nil || f.Obj == openFn {
			continue
		}
		var prodStmt *ast.AssignStmt
		var holder, errObj types.Object
		ast.Inspect(f.Decl.Body, func(n ast.Node) bool {
			if _, ok := n.(*ast.FuncLit); ok {
				return false
			}
			as, ok := n.(*ast.AssignStmt)
			if !ok || len(as.Rhs) != 1 || len(as.Lhs) != 1 {
				return true
			}
			call, ok := ast.Unparen(as.Rhs[0]).(*ast.CallExpr)
			if !ok || !flow.IsCall(f.Info, call, openFn) {
				return true
			}
			if r := flow.Recv(call); r != nil {
				prodStmt, holder, errObj = as, flow.ObjOf(f.Info, r), flow.ObjOf(f.Info, as.Lhs[0])
			}
			return true
		})
		if prodStmt == nil || holder == nil || errObj == nil {
			continue
		}
		sites++
		isHolderClose := func(call *ast.CallExpr, info *types.Info) bool {
			if !flow.IsCall(info, call, closeFn) {
				return false
			}
			r := flow.Recv(call)
			return r != nil && flow.ObjOf(info, r) == holder
		}
		// deferred closers of the holder, guarded by the error result
		deferCloses := false
		for _, d := range f.Graph().Defers {
			if fl, ok := d.Call.Fun.(*ast.FuncLit); ok {
				for _, call := range callsIn(fl.Body, true) {
					if isHolderClose(call, f.Info) {
						deferCloses = true
					}
				}
			}
		}
		const (
			sIdle = iota
			sUnchecked
			sFailed
			sHeld
			sHeldMaybeErr
			sHeldErr
			sClosed
		)
		type bad struct {
			pos token.Pos
			msg string
		}
		var bads []bad
		record := false
		au := &flow.Auto{Start: sIdle}
		au.Node = func(b *flow.Block, i int, n ast.Node, st int) int {
			if n == ast.Node(prodStmt) {
				return sUnchecked
			}
			for _, call := range flow.Calls(n) {
				if isHolderClose(call, f.Info) {
					if st == sFailed && record {
						bads = append(bads, bad{call.Pos(), "ln.close() runs although ln.open() failed: the socket helper has already closed the descriptor whose number it reports, so this closes the number a second time – by then possibly somebody else's descriptor"})
					}
					if st >= sHeld {
						st = sClosed
					}
				}
			}
			if as, ok := n.(*ast.AssignStmt); ok && n != ast.Node(prodStmt) && (st == sHeld || st == sHeldMaybeErr) {
				for _, l := range as.Lhs {
					if flow.ObjOf(f.Info, l) == errObj {
						st = sHeldMaybeErr
					}
				}
			}
			return st
		}
		au.Edge = func(e *flow.Edge, st int) int {
			if e.Cond == nil || e.Tag != nil {
				return st
			}
			x, y, op, ok := flow.Cmp(e.Cond)
			if !ok || !flow.IsNil(f.Info, y) || flow.ObjOf(f.Info, x) != errObj {
				return st
			}
			failed := (op == token.NEQ) == e.Sense
			switch st {
			case sUnchecked:
				if failed {
					return sFailed
				}
				return sHeld
			case sHeldMaybeErr:
				if failed {
					return sHeldErr
				}
				return sHeld
			}
			return st
		}
		g := f.Graph()
		sol := g.Run(au)
		record = true
		for _, b := range g.Blocks {
			if !sol.Seen[b.ID] {
				continue
			}
			for _, s0 := range flow.States(sol.In[b.ID]) {
				st := s0
				for i, n := range b.Nodes {
					st = au.Node(b, i, n, st)
				}
				if b.Return == nil {
					continue
				}
				switch st {
				case sFailed:
					if deferCloses {
						bads = append(bads, bad{b.Return.Pos(), "a deferred ln.close() runs on the return taken when ln.open() failed: the socket helper has already closed the descriptor whose number it reports, so the number is closed a second time – by then possibly somebody else's descriptor"})
					}
				case sHeldMaybeErr, sHeldErr:
					if !deferCloses {
						bads = append(bads, bad{b.Return.Pos(), "after ln.open() succeeded a later step can fail and its error be returned while the listening socket stays open: the callers drop a listener that comes with an error, so the descriptor leaks and the address stays bound"})
					}
				}
			}
		}
		record = false
		if len(bads) > 0 {
			c.Violate(f.Name, "listener closed exactly when opened and failing", bads[0].pos, bads[0].msg)
			continue
		}
		c.Ok(f.Name, "listener closed exactly when opened and failing", prodStmt.Pos(), "no close after a failed open, no error return with the socket open")
	}
	if sites == 0 {
		c.Undecided("gnet", "ln.open() sites", 0, "no caller of listener.open found")
	}
}

func init() {
	register(&core.Rule{ID: "C07.18", Prop: "C07", MinSites: 2,
		Desc: "Enroll hands over, it does not copy: Client.EnrollContext duplicates the descriptor of the net.Conn it is given and must then (a) close that net.Conn on every path – its Close is deferred before the first return – since the Dial functions create it for this purpose and nobody else will, and (b) once the gnet conn that owns the duplicate exists, close that conn before every failure return (first result nil); before it exists a deferred clean-up closes the duplicate",
		Run:  runC07_18})
}

func runC07_18(c *core.Ctx) {
	f := getFn(c, "", "Client.EnrollContext")
	v := vocabOf(c)
	if f == nil || v == nil {
		return
	}
	given := f.param(0)
	if given == nil {
		c.Undecided(f.Name, "taken-over net.Conn", f.Decl.Pos(), "first parameter not found")
		return
	}
	isCloseOf := func(call *ast.CallExpr, who types.Object) bool {
		sel, ok := ast.Unparen(call.Fun).(*ast.SelectorExpr)
		return ok && sel.Sel.Name == "Close" && flow.ObjOf(f.Info, sel.X) == who && len(call.Args) == 0
	}
	closesIn := func(n ast.Node, who types.Object) bool {
		found := false
		ast.Inspect(n, func(x ast.Node) bool {
			if call, ok := x.(*ast.CallExpr); ok && isCloseOf(call, who) {
				found = true
			}
			return true
		})
		return found
	}
	// (a) the given net.Conn
	const fGiven = 1
	p := &flow.Problem{Must: true}
	p.Node = func(b *flow.Block, i int, n ast.Node, in uint64) uint64 {
		switch x := n.(type) {
		case *ast.DeferStmt:
			if isCloseOf(x.Call, given) {
				in |= fGiven
			} else if lit, ok := ast.Unparen(x.Call.Fun).(*ast.FuncLit); ok && closesIn(lit.Body, given) {
				in |= fGiven
			}
		default:
			for _, call := range flow.Calls(n) {
				if isCloseOf(call, given) {
					in |= fGiven
				}
			}
		}
		return in
	}
	sol := f.Graph().Solve(p)
	var bad token.Pos
	exits := 0
	sol.Walk(func(b *flow.Block, i int, n ast.Node, before uint64) {
		if r, ok := n.(*ast.ReturnStmt); ok {
			exits++
			if before&fGiven == 0 && bad == token.NoPos {
				bad = r.Pos()
			}
		}
	})
	at := f.Decl.Pos()
	if bad != token.NoPos {
		at = bad
	}
	c.Check(bad == token.NoPos && exits > 0, f.Name, "the net.Conn taken over is closed on every path", at, itoa(exits)+" returns, each after the (deferred) Close of "+given.Name(),
		"EnrollContext can return without having closed (or deferred the close of) the net.Conn it was given: its descriptor was duplicated for the gnet conn, so the original – created by Dial for exactly this hand-over – stays open for good")
	// (b) the gnet conn that owns the duplicate
	var owner types.Object
	ast.Inspect(f.Decl.Body, func(n ast.Node) bool {
		if as, ok := n.(*ast.AssignStmt); ok && len(as.Lhs) == 1 && len(as.Rhs) == 1 {
			if call, ok := ast.Unparen(as.Rhs[0]).(*ast.CallExpr); ok {
				if cf := flow.CalleeFunc(f.Info, call); cf != nil && (nameOf(cf) == "newStreamConn" || nameOf(cf) == "newUDPConn") {
					owner = flow.ObjOf(f.Info, as.Lhs[0])
				}
			}
		}
		return true
	})
	if owner == nil {
		c.Undecided(f.Name, "conn owning the duplicate", f.Decl.Pos(), "no assignment from newStreamConn/newUDPConn found")
		return
	}
	const (
		sNone = iota
		sOwned
		sClosed
	)
	au := &flow.Auto{Start: sNone}
	au.Node = func(b *flow.Block, i int, n ast.Node, st int) int {
		if as, ok := n.(*ast.AssignStmt); ok && len(as.Lhs) == 1 && flow.ObjOf(f.Info, as.Lhs[0]) == owner {
			if call, ok := ast.Unparen(as.Rhs[0]).(*ast.CallExpr); ok {
				if cf := flow.CalleeFunc(f.Info, call); cf != nil && (nameOf(cf) == "newStreamConn" || nameOf(cf) == "newUDPConn") {
					return sOwned
				}
			}
		}
		for _, call := range flow.Calls(n) {
			if isCloseOf(call, owner) && st == sOwned {
				return sClosed
			}
		}
		return st
	}
	sol2 := f.Graph().Run(au)
	var bad2 token.Pos
	sol2.AtExit(func(b *flow.Block, _ uint64) {
		r := b.Return
		if r == nil || len(r.Results) != 2 || !flow.IsNil(f.Info, r.Results[0]) {
			return // success: the conn is handed to the caller
		}
		if sol2.Out(b)&(1<<sOwned) != 0 && bad2 == token.NoPos {
			bad2 = r.Pos()
		}
	})
	// before the owner exists: a deferred clean-up that closes the duplicate while the owner is nil
	deferred := false
	for _, d := range f.Graph().Defers {
		if lit, ok := ast.Unparen(d.Call.Fun).(*ast.FuncLit); ok {
			lg := f.litGraph(lit)
			for _, b := range lg.Blocks {
				for _, n := range b.Nodes {
					for _, call := range flow.Calls(n) {
						if !flow.IsPkgFunc(f.Info, call, unixPkg, "Close") || len(call.Args) != 1 {
							continue
						}
						fdv := flow.ObjOf(f.Info, call.Args[0])
						if guardedBy(b, func(e *flow.Edge) (found, neutral bool) {
							if e.Cond == nil || e.Tag != nil {
								return false, e.Cond == nil
							}
							x, y, op, ok := flow.Cmp(e.Cond)
							if !ok {
								return false, false
							}
							if flow.ObjOf(f.Info, x) == owner && flow.IsNil(f.Info, y) && (op == token.EQL) == e.Sense {
								return true, false
							}
							// a test of the descriptor variable itself (fd >= 0)
							return false, fdv != nil && (flow.ObjOf(f.Info, x) == fdv || flow.ObjOf(f.Info, y) == fdv)
						}) {
							deferred = true
						}
					}
				}
			}
		}
	}
	at2 := f.Decl.Pos()
	why := ""
	switch {
	case bad2 != token.NoPos:
		at2, why = bad2, "a failure return is reachable after the gnet conn took over the duplicated descriptor without closing that conn: the duplicate (and the conn's pooled buffers) leak"
	case !deferred:
		why = "no deferred clean-up closes the duplicated descriptor while the gnet conn does not exist yet: every failure before that point leaks the duplicate"
	}
	c.Check(why == "", f.Name, "the duplicate is closed on every failure", at2, "deferred unix.Close while the owner is nil; owner.Close() before failure returns afterwards", why)
}

func init() {
	register(&core.Rule{ID: "C07.19", Prop: "C07", MinSites: 1,
		Desc: "no close of a local descriptor variable that was never assigned: a local declared `var fd int` (zero value: descriptor 0, which belongs to the application) is handed to close(2) – directly or by a deferred clean-up registered at that point – only where it was assigned on every path (by an assignment or inside a callback given to a call already made); a clean-up that tests the variable itself is exempt",
		Run:  runC07_19})
}

func runC07_19(c *core.Ctx) {
	allFuncs(c, func(f *fn) {
		if f.Decl.Body == nil {
			return
		}
		// units: the declaration's body and every function literal's body, each with its own flow graph
		var units []*ast.BlockStmt
		units = append(units, f.Decl.Body)
		ast.Inspect(f.Decl.Body, func(n ast.Node) bool {
			if fl, ok := n.(*ast.FuncLit); ok {
				units = append(units, fl.Body)
			}
			return true
		})
		isCloseOf := func(call *ast.CallExpr) *types.Var {
			if (flow.IsPkgFunc(f.Info, call, unixPkg, "Close") || flow.IsPkgFunc(f.Info, call, "syscall", "Close")) && len(call.Args) == 1 {
				if v, ok := flow.ObjOf(f.Info, call.Args[0]).(*types.Var); ok && !v.IsField() {
					return v
				}
			}
			return nil
		}
		for _, unit := range units {
			// candidates: `var v int` without a value, declared directly in this unit
			var cands []*types.Var
			idx := map[*types.Var]uint{}
			inspectUnit := func(visit func(n ast.Node) bool) {
				ast.Inspect(unit, func(n ast.Node) bool {
					if fl, ok := n.(*ast.FuncLit); ok && fl.Body != unit {
						return false
					}
					return visit(n)
				})
			}
			inspectUnit(func(n ast.Node) bool {
				if vs, ok := n.(*ast.ValueSpec); ok && len(vs.Values) == 0 {
					for _, nm := range vs.Names {
						if v, ok := f.Info.Defs[nm].(*types.Var); ok {
							if b, ok := v.Type().Underlying().(*types.Basic); ok && b.Info()&types.IsInteger != 0 && len(cands) < 30 {
								idx[v] = uint(len(cands))
								cands = append(cands, v)
							}
						}
					}
				}
				return true
			})
			if len(cands) == 0 {
				continue
			}
			// keep those that reach close(2) somewhere below this unit
			closed := map[*types.Var]bool{}
			ast.Inspect(unit, func(n ast.Node) bool {
				if call, ok := n.(*ast.CallExpr); ok {
					if v := isCloseOf(call); v != nil {
						if _, ok := idx[v]; ok {
							closed[v] = true
						}
					}
				}
				return true
			})
			if len(closed) == 0 {
				continue
			}
			assignsIn := func(n ast.Node, deep bool) uint64 {
				var out uint64
				ast.Inspect(n, func(x ast.Node) bool {
					if _, ok := x.(*ast.FuncLit); ok && !deep {
						return false
					}
					switch y := x.(type) {
					case *ast.AssignStmt:
						for _, l := range y.Lhs {
							if v, ok := flow.ObjOf(f.Info, l).(*types.Var); ok {
								if k, ok := idx[v]; ok {
									out |= 1 << k
								}
							}
						}
					case *ast.IncDecStmt:
						if v, ok := flow.ObjOf(f.Info, y.X).(*types.Var); ok {
							if k, ok := idx[v]; ok {
								out |= 1 << k
							}
						}
					}
					return true
				})
				return out
			}
			g := flow.New(c.P.Fset, f.Info, unit)
			p := &flow.Problem{Must: true}
			p.Node = func(b *flow.Block, i int, n ast.Node, in uint64) uint64 {
				if _, isDefer := n.(*ast.DeferStmt); isDefer {
					return in // runs at the returns, not here
				}
				return in | assignsIn(n, true) // (a callback given to a call made here counts: the call has returned)
			}
			sol := g.Solve(p)
			testsVar := func(body ast.Node, v *types.Var) bool {
				found := false
				ast.Inspect(body, func(x ast.Node) bool {
					if be, ok := x.(*ast.BinaryExpr); ok {
						switch be.Op {
						case token.EQL, token.NEQ, token.LSS, token.LEQ, token.GTR, token.GEQ:
							if flow.ObjOf(f.Info, be.X) == types.Object(v) || flow.ObjOf(f.Info, be.Y) == types.Object(v) {
								found = true
							}
						}
					}
					return !found
				})
				return found
			}
			sol.Walk(func(b *flow.Block, i int, n ast.Node, before uint64) {
				check := func(call *ast.CallExpr, guardScope ast.Node, how string) {
					v := isCloseOf(call)
					if v == nil || !closed[v] {
						return
					}
					if guardScope != nil && testsVar(guardScope, v) {
						c.Ok(f.Name, how+" of "+v.Name(), call.Pos(), "the clean-up tests "+v.Name()+" itself")
						return
					}
					c.Check(before&(1<<idx[v]) != 0, f.Name, how+" of "+v.Name(), call.Pos(), v.Name()+" was assigned on every path to this point",
						v.Name()+" is declared without a value (it holds 0) and can reach close(2) – "+how+" here – on a path on which nothing was assigned to it yet: descriptor 0 (the application's standard input, or whatever it opened first) is closed by the framework")
				}
				if ds, ok := n.(*ast.DeferStmt); ok {
					if fl, ok := ds.Call.Fun.(*ast.FuncLit); ok {
						for _, call := range callsIn(fl.Body, true) {
							check(call, fl.Body, "deferred close")
						}
					} else {
						check(ds.Call, nil, "deferred close")
					}
					return
				}
				for _, call := range flow.Calls(n) {
					check(call, nil, "close")
				}
			})
		}
	})
}
