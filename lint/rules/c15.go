package rules

import (
	"go/ast"
	"go/constant"
	"go/token"
	"go/types"

	"golang.org/x/tools/go/cfg"

	"gnetlint/core"
	"gnetlint/flow"
)

func init() {
	describe(&PropInfo{ID: "C15", QuickConfigs: []core.Config{cfg386},
		Explanation: "Decides structural clauses of the three load balancers (found through the loadBalancer interface): (1) every value returned by next() is an element of the receiver's eventLoops; " +
			"(2) the index is `x % size` of a value that is provably non-negative under the analysed target's int width (interval reasoning over the conversion from uint32 and the unary minus); " +
			"(3) round-robin advances its cursor by exactly one per call and indexes with the pre-increment value; (4) the hash policy writes no state (pure function of the address string); " +
			"(5) least-connections takes element 0 as the initial candidate, evaluates countConn() for every other element in a range over the rest and replaces candidate and minimum together only on `count < minimum`; " +
			"(6) the loop a conn is assigned to is the loop it is registered on (shared with C05.5). The numeric distribution claims are not decided.",
		Assumptions: []string{"size == len(eventLoops) > 0 after start-up (register appends and increments together, checked)"}})

	register(&core.Rule{ID: "C15.1", Prop: "C15", MinSites: 3,
		Desc: "every next() implementation returns an element of the receiver's eventLoops slice (index expression or range variable over it)",
		Run:  runC15_1})
	register(&core.Rule{ID: "C15.2", Prop: "C15", MinSites: 3,
		Desc: "the index into eventLoops is `v % size` with v non-negative on every path under the target's int width",
		Run:  runC15_2})
	register(&core.Rule{ID: "C15.3", Prop: "C15", MinSites: 2,
		Desc: "round-robin: nextIndex is incremented exactly once per call, after it was used as the index",
		Run:  runC15_3})
	register(&core.Rule{ID: "C15.4", Prop: "C15", MinSites: 2,
		Desc: "source-address hash: next and hash write no field or global; register appends the loop, assigns its idx and increments size together",
		Run:  runC15_4})
	register(&core.Rule{ID: "C15.5", Prop: "C15", MinSites: 3,
		Desc: "least-connections shape: initial candidate eventLoops[0] with its count; range over the remaining elements; candidate and minimum are replaced together and only on `count < minimum`",
		Run:  runC15_5})
}

func lbNexts(c *core.Ctx) []*fn {
	var out []*fn
	for _, t := range []string{"roundRobinLoadBalancer", "leastConnectionsLoadBalancer", "sourceAddrHashLoadBalancer"} {
		if f := getFn(c, "", t+".next"); f != nil {
			out = append(out, f)
		}
	}
	return out
}

func runC15_1(c *core.Ctx) {
	loops := c.P.Field("", "baseLoadBalancer", "eventLoops")
	if !c.Need("baseLoadBalancer.eventLoops", loops) {
		return
	}
	for _, f := range lbNexts(c) {
		var isLoops func(e ast.Expr) bool
		derived := map[types.Object]int{} // 0 unknown, 1 being judged / yes, 2 no
		isLoops = func(e ast.Expr) bool {
			e = ast.Unparen(e)
			if se, ok := e.(*ast.SliceExpr); ok {
				e = ast.Unparen(se.X)
			}
			if flow.FieldOf(f.Info, e) == loops {
				return true
			}
			// a local slice that only ever holds (sub-slices of) eventLoops: rest := lb.eventLoops[1:]; rest = rest[1:]
			o, ok := flow.ObjOf(f.Info, e).(*types.Var)
			if !ok || o.IsField() {
				return false
			}
			if _, isSlice := o.Type().Underlying().(*types.Slice); !isSlice {
				return false
			}
			switch derived[o] {
			case 1:
				return true
			case 2:
				return false
			}
			derived[o] = 1
			n, all := 0, true
			ast.Inspect(f.Decl.Body, func(x ast.Node) bool {
				if as, ok := x.(*ast.AssignStmt); ok && len(as.Lhs) == len(as.Rhs) {
					for k, l := range as.Lhs {
						if flow.ObjOf(f.Info, l) == types.Object(o) {
							n++
							if !isLoops(as.Rhs[k]) {
								all = false
							}
						}
					}
				}
				return true
			})
			if n == 0 || !all {
				derived[o] = 2
				return false
			}
			return true
		}
		var isElement func(e ast.Expr) bool
		seen := map[types.Object]bool{}
		isElement = func(e ast.Expr) bool {
			e = ast.Unparen(e)
			if ie, ok := e.(*ast.IndexExpr); ok {
				return isLoops(ie.X)
			}
			o, ok := flow.ObjOf(f.Info, e).(*types.Var)
			if !ok || o.IsField() {
				return false
			}
			// a range variable over eventLoops
			found := false
			ast.Inspect(f.Decl.Body, func(n ast.Node) bool {
				if rs, ok := n.(*ast.RangeStmt); ok && rs.Value != nil && flow.ObjOf(f.Info, rs.Value) == types.Object(o) && isLoops(rs.X) {
					found = true
				}
				return true
			})
			if found {
				return true
			}
			// a local variable that only ever receives elements (el := lb.eventLoops[i]; el = v)
			if seen[o] {
				return true // already being judged: a cycle of element-only variables
			}
			seen[o] = true
			n, all := 0, true
			ast.Inspect(f.Decl.Body, func(x ast.Node) bool {
				if as, ok := x.(*ast.AssignStmt); ok && len(as.Lhs) == len(as.Rhs) {
					for k, l := range as.Lhs {
						if flow.ObjOf(f.Info, l) == types.Object(o) {
							n++
							if !isElement(as.Rhs[k]) {
								all = false
							}
						}
					}
				}
				return true
			})
			return n > 0 && all
		}
		// named result: every assignment to it must be an element; else return expressions
		var resObj types.Object
		if f.Decl.Type.Results != nil && len(f.Decl.Type.Results.List) == 1 && len(f.Decl.Type.Results.List[0].Names) == 1 {
			resObj = f.Info.Defs[f.Decl.Type.Results.List[0].Names[0]]
		}
		okk := true
		n := 0
		ast.Inspect(f.Decl.Body, func(x ast.Node) bool {
			switch y := x.(type) {
			case *ast.AssignStmt:
				for k, l := range y.Lhs {
					if resObj != nil && flow.ObjOf(f.Info, l) == resObj && len(y.Rhs) == len(y.Lhs) {
						n++
						if !isElement(y.Rhs[k]) {
							okk = false
						}
					}
				}
			case *ast.ReturnStmt:
				for _, r := range y.Results {
					n++
					if !isElement(r) {
						okk = false
					}
				}
			}
			return true
		})
		c.Check(okk && n > 0, f.Name, "result is an element of eventLoops", f.Decl.Pos(), "only registered loops are handed out",
			"next() can return a value that is not taken from the receiver's eventLoops (nil, a cached loop, another balancer's loop)")
	}
}

// nonNegInt decides whether expression e (type int) is provably >= 0 in function f for the target width.
func nonNegative(c *core.Ctx, f *fn, e ast.Expr, depth int) (bool, string) {
	if depth > 4 {
		return false, "too deep"
	}
	w := intWidth(c, f.Obj.Pkg(), types.Typ[types.Int])
	e = ast.Unparen(e)
	t := f.Info.TypeOf(e)
	if t != nil {
		if b, ok := t.Underlying().(*types.Basic); ok && b.Info()&types.IsUnsigned != 0 {
			return true, "unsigned"
		}
	}
	if cv := flow.ConstOf(f.Info, e); cv != nil {
		return constant.Sign(cv) >= 0, "constant"
	}
	switch x := e.(type) {
	case *ast.BinaryExpr:
		if x.Op == token.REM {
			return nonNegative(c, f, x.X, depth+1)
		}
	case *ast.CallExpr:
		// conversion int(u) of an unsigned value
		if len(x.Args) == 1 {
			if tv, ok := f.Info.Types[x.Fun]; ok && tv.IsType() {
				at := f.Info.TypeOf(x.Args[0])
				if b, ok := at.Underlying().(*types.Basic); ok && b.Info()&types.IsUnsigned != 0 {
					srcW := intWidth(c, f.Obj.Pkg(), at)
					if srcW < w {
						return true, "widening conversion of an unsigned value"
					}
					return false, "int(" + b.Name() + ") wraps to negative values on a " + itoa(int(w)) + "-bit int"
				}
			}
		}
		// call of a module function: all its returns must be non-negative
		if cf := flow.CalleeFunc(f.Info, x); cf != nil && c.P.InModule(cf) {
			if d := c.P.Decl(cf); d != nil && d.Body != nil {
				g := fnOf(c, cf)
				return returnsNonNegative(c, g)
			}
		}
	case *ast.Ident:
		if o, ok := f.Info.Uses[x].(*types.Var); ok && !o.IsField() {
			if d := defOf(f.Info, f.Decl.Body, o); d != nil {
				return nonNegative(c, f, d, depth+1)
			}
			// several plain assignments (e.g. one per branch): every one of them must be non-negative;
			// a `var v T` declaration contributes the zero value
			var defs []ast.Expr
			plain := true
			ast.Inspect(f.Decl.Body, func(n ast.Node) bool {
				switch y := n.(type) {
				case *ast.AssignStmt:
					for i, l := range y.Lhs {
						if flow.ObjOf(f.Info, l) != types.Object(o) {
							continue
						}
						if (y.Tok != token.ASSIGN && y.Tok != token.DEFINE) || len(y.Lhs) != len(y.Rhs) {
							plain = false
						} else {
							defs = append(defs, y.Rhs[i])
						}
					}
				case *ast.IncDecStmt:
					if flow.ObjOf(f.Info, y.X) == types.Object(o) {
						plain = false
					}
				case *ast.UnaryExpr:
					if y.Op == token.AND && flow.ObjOf(f.Info, y.X) == types.Object(o) {
						plain = false
					}
				}
				return true
			})
			if plain && len(defs) > 1 {
				for _, d := range defs {
					if nn, why := nonNegative(c, f, d, depth+1); !nn {
						return false, why
					}
				}
				return true, "every assignment is non-negative"
			}
		}
	}
	return false, "cannot show " + exprStr(e) + " >= 0"
}

// returnsNonNegative: interval check of a small function of the form v := E; if v >= 0 {return v}; return -v …
func returnsNonNegative(c *core.Ctx, f *fn) (bool, string) {
	g := f.Graph()
	// facts: for the single tracked variable v: sign knowledge from the edges
	const (
		fGE0 = 1 << iota // v >= 0 established
		fLT0             // v < 0 established
	)
	var vObj types.Object
	p := &flow.Problem{Must: true}
	p.Edge = func(e *flow.Edge, in uint64) uint64 {
		if e.Cond == nil || e.Tag != nil {
			return in
		}
		x, y, op, ok := flow.Cmp(e.Cond)
		if !ok {
			return in
		}
		cv := flow.ConstOf(f.Info, y)
		if cv == nil || constant.Sign(cv) != 0 {
			return in
		}
		o := flow.ObjOf(f.Info, x)
		if o == nil {
			// -v >= 0
			if u, ok := ast.Unparen(x).(*ast.UnaryExpr); ok && u.Op == token.SUB {
				if (op == token.GEQ && e.Sense) || (op == token.LSS && !e.Sense) {
					in |= 4 // negation known non-negative
				}
			}
			return in
		}
		vObj = o
		ge := (op == token.GEQ && e.Sense) || (op == token.LSS && !e.Sense)
		lt := (op == token.LSS && e.Sense) || (op == token.GEQ && !e.Sense)
		if ge {
			in |= fGE0
		}
		if lt {
			in |= fLT0
		}
		return in
	}
	sol := g.Solve(p)
	okk := true
	why := ""
	sol.AtExit(func(b *flow.Block, facts uint64) {
		if len(b.Return.Results) != 1 {
			return
		}
		r := ast.Unparen(b.Return.Results[0])
		if cv := flow.ConstOf(f.Info, r); cv != nil {
			if constant.Sign(cv) < 0 {
				okk, why = false, "returns a negative constant"
			}
			return
		}
		if u, ok := r.(*ast.UnaryExpr); ok && u.Op == token.SUB {
			// -v: non-negative only if v in [MinInt+1, 0]; v < 0 alone admits MinInt
			o := flow.ObjOf(f.Info, u.X)
			if facts&4 != 0 {
				return // guarded by -v >= 0
			}
			// is the v<0 branch feasible at all?
			if o != nil {
				if d := defOf(f.Info, f.Decl.Body, o); d != nil {
					if nn, _ := nonNegative(c, f, d, 1); nn {
						return // v is never negative on this target: branch infeasible
					}
				}
			}
			okk, why = false, "returns -"+exprStr(u.X)+" where "+exprStr(u.X)+" may be the minimum int: the negation overflows and stays negative"
			return
		}
		if o := flow.ObjOf(f.Info, r); o != nil && o == vObj && facts&fGE0 != 0 {
			return
		}
		if nn, w := nonNegative(c, f, r, 1); !nn {
			okk, why = false, w
		}
	})
	return okk, why
}

func runC15_2(c *core.Ctx) {
	loops := c.P.Field("", "baseLoadBalancer", "eventLoops")
	size := c.P.Field("", "baseLoadBalancer", "size")
	if !c.Need("eventLoops", loops) || !c.Need("size", size) {
		return
	}
	for _, f := range lbNexts(c) {
		k := 0
		ast.Inspect(f.Decl.Body, func(n ast.Node) bool {
			ie, ok := n.(*ast.IndexExpr)
			if !ok || flow.FieldOf(f.Info, ie.X) != loops {
				return true
			}
			k++
			idx := ast.Unparen(ie.Index)
			if cv := flow.ConstOf(f.Info, idx); cv != nil {
				c.Check(constant.Sign(cv) == 0, f.Name, "index #"+itoa(k)+" "+exprStr(idx), ie.Pos(), "element 0 exists once a loop is registered", "constant index other than 0")
				return true
			}
			if iv := flow.ObjOf(f.Info, idx); iv != nil {
				if fs := countedLoops(f, loops)[iv]; fs != nil && fs.Body.Pos() <= ie.Pos() && ie.End() <= fs.Body.End() {
					c.Ok(f.Name, "index #"+itoa(k)+" "+exprStr(idx), ie.Pos(), "loop variable of a counted loop bounded by len(eventLoops)")
					return true
				}
			}
			be, isRem := idx.(*ast.BinaryExpr)
			modSize := false
			if isRem && be.Op == token.REM {
				m := ast.Unparen(be.Y)
				if conv, ok := m.(*ast.CallExpr); ok && len(conv.Args) == 1 {
					m = ast.Unparen(conv.Args[0])
				}
				modSize = flow.FieldOf(f.Info, m) == size
			}
			if !modSize {
				c.Violate(f.Name, "index #"+itoa(k)+" "+exprStr(idx), ie.Pos(), "the index into eventLoops is not reduced modulo size: it can run past the registered loops")
				return true
			}
			nn, why := nonNegative(c, f, be.X, 0)
			c.Check(nn, f.Name, "index #"+itoa(k)+" "+exprStr(idx), ie.Pos(), "non-negative value modulo size",
				"the index "+exprStr(idx)+" can be negative on this target ("+why+"): eventLoops[negative] panics in the acceptor for some remote addresses")
			return true
		})
	}
}

func runC15_3(c *core.Ctx) {
	f := getFn(c, "", "roundRobinLoadBalancer.next")
	next := c.P.Field("", "roundRobinLoadBalancer", "nextIndex")
	loops := c.P.Field("", "baseLoadBalancer", "eventLoops")
	if f == nil || !c.Need("nextIndex", next) || !c.Need("eventLoops", loops) {
		return
	}
	// the cursor field itself, or a local whose only definition is a plain read of it
	cursorLocal := func(e ast.Expr) *types.Var {
		v, ok := flow.ObjOf(f.Info, e).(*types.Var)
		if !ok || v.IsField() {
			return nil
		}
		if def := singleDef(f, v); def != nil && flow.FieldOf(f.Info, def) == next {
			return v
		}
		return nil
	}
	isCursor := func(e ast.Expr) bool { return flow.FieldOf(f.Info, e) == next || cursorLocal(e) != nil }
	isInc := func(n ast.Node) bool {
		switch y := n.(type) {
		case *ast.IncDecStmt:
			return flow.FieldOf(f.Info, y.X) == next && y.Tok == token.INC
		case *ast.AssignStmt:
			if len(y.Lhs) == 1 && flow.FieldOf(f.Info, y.Lhs[0]) == next {
				if y.Tok == token.ADD_ASSIGN {
					if cv := flow.ConstOf(f.Info, y.Rhs[0]); cv != nil && cv.ExactString() == "1" {
						return true
					}
				}
				// nextIndex = nextIndex + 1, or = turn + 1 with `turn := lb.nextIndex` (the only definition of turn):
				// with exactly one advance per path (checked below) turn still holds the value at entry here
				if y.Tok == token.ASSIGN && len(y.Rhs) == 1 {
					if be, ok := ast.Unparen(y.Rhs[0]).(*ast.BinaryExpr); ok && be.Op == token.ADD {
						x, k := be.X, be.Y
						if flow.ConstOf(f.Info, x) != nil {
							x, k = k, x
						}
						if cv := flow.ConstOf(f.Info, k); cv != nil && cv.ExactString() == "1" && isCursor(x) {
							return true
						}
					}
				}
				return false
			}
		}
		return false
	}
	// any other write to nextIndex is a violation
	ast.Inspect(f.Decl.Body, func(n ast.Node) bool {
		if as, ok := n.(*ast.AssignStmt); ok {
			for _, l := range as.Lhs {
				if flow.FieldOf(f.Info, l) == next && !isInc(as) {
					c.Violate(f.Name, "write of nextIndex", as.Pos(), "nextIndex is written other than by a single increment")
				}
			}
		}
		return true
	})
	cnt := f.Graph().CountEvents(flow.CountOpts{Events: func(b *flow.Block, n ast.Node) int {
		if isInc(n) {
			return 1
		}
		return 0
	}})
	cnt.AtExit(func(b *flow.Block, _ uint64) {
		cs := cnt.Out(b)
		c.Check(cs == flow.Cnt1, f.Name, "nextIndex advanced exactly once", b.Return.Pos(), "one step per call", "nextIndex is advanced "+flow.CountSet(cs)+" times on a path: loops are skipped or repeated, so k·N accepts are not spread k each")
	})
	// the index uses the pre-increment value
	const fInc = 1
	p := &flow.Problem{Must: false}
	p.Node = func(b *flow.Block, i int, n ast.Node, in uint64) uint64 {
		if isInc(n) {
			in |= fInc
		}
		return in
	}
	sol := f.Graph().Solve(p)
	found := false
	// a local copy of the cursor holds the value the field had where the copy was taken
	copiedAfterInc := map[*types.Var]bool{}
	sol.Walk(func(b *flow.Block, i int, n ast.Node, before uint64) {
		if as, ok := n.(*ast.AssignStmt); ok {
			for _, l := range as.Lhs {
				if v := cursorLocal(l); v != nil && before&fInc != 0 {
					copiedAfterInc[v] = true
				}
			}
		}
	})
	sol.Walk(func(b *flow.Block, i int, n ast.Node, before uint64) {
		ast.Inspect(n, func(x ast.Node) bool {
			if ie, ok := x.(*ast.IndexExpr); ok && flow.FieldOf(f.Info, seeThrough(f, ie.X)) == loops {
				uses, advanced := false, before&fInc != 0
				ast.Inspect(ie.Index, func(y ast.Node) bool {
					if e, ok := y.(ast.Expr); ok {
						if flow.FieldOf(f.Info, e) == next {
							uses = true
						} else if v := cursorLocal(e); v != nil {
							uses, advanced = true, copiedAfterInc[v]
						}
					}
					return true
				})
				if uses {
					found = true
					c.Check(!advanced, f.Name, "index uses the pre-increment cursor", ie.Pos(), "first call yields loop 0", "the cursor is advanced before it is used as the index: the cycle starts at loop 1 and the first loop is served last")
				}
			}
			return true
		})
	})
	if !found {
		c.Violate(f.Name, "index uses the pre-increment cursor", f.Decl.Pos(), "round-robin no longer indexes eventLoops with nextIndex")
	}
}

func runC15_4(c *core.Ctx) {
	s := c.P.BuildSSA()
	for _, fa := range s.Accesses() {
		n := core.SSAName(fa.Fn)
		if n != "(*gnet.sourceAddrHashLoadBalancer).next" && n != "(*gnet.sourceAddrHashLoadBalancer).hash" {
			continue
		}
		if fa.Kind == core.AccWrite && !isFresh(fa.Base) {
			c.Violate(n, "write of "+fieldLabel(c, fa.Field), fa.Pos, "the hash policy writes state: the chosen loop is no longer a pure function of the remote address")
		}
	}
	for _, name := range []string{"(*gnet.sourceAddrHashLoadBalancer).next", "(*gnet.sourceAddrHashLoadBalancer).hash"} {
		c.Ok(name, "no state written", token.NoPos, "pure")
	}
	// register: append + idx + size++
	f := getFn(c, "", "baseLoadBalancer.register")
	size := c.P.Field("", "baseLoadBalancer", "size")
	loops := c.P.Field("", "baseLoadBalancer", "eventLoops")
	idx := c.P.Field("", "eventloop", "idx")
	if f == nil || !c.Need("size", size) || !c.Need("eventLoops", loops) || !c.Need("idx", idx) {
		return
	}
	app, inc, setIdx := false, false, false
	ast.Inspect(f.Decl.Body, func(n ast.Node) bool {
		switch y := n.(type) {
		case *ast.IncDecStmt:
			if flow.FieldOf(f.Info, y.X) == size && y.Tok == token.INC {
				inc = true
			}
		case *ast.AssignStmt:
			if len(y.Lhs) == 1 && len(y.Rhs) == 1 {
				if flow.FieldOf(f.Info, y.Lhs[0]) == loops {
					if call, ok := ast.Unparen(y.Rhs[0]).(*ast.CallExpr); ok {
						if id, ok := call.Fun.(*ast.Ident); ok && id.Name == "append" && len(call.Args) == 2 && flow.FieldOf(f.Info, call.Args[0]) == loops && flow.ObjOf(f.Info, call.Args[1]) == types.Object(f.param(0)) {
							app = true
						}
					}
				}
				if flow.FieldOf(f.Info, y.Lhs[0]) == idx && flow.FieldOf(f.Info, y.Rhs[0]) == size && !inc {
					setIdx = true
				}
			}
		}
		return true
	})
	c.Check(app && inc && setIdx, f.Name, "register appends, numbers and counts together", f.Decl.Pos(), "size == len(eventLoops) and el.idx is the position",
		"register no longer appends the loop, assigns el.idx = size (before the increment) and increments size together: size and len(eventLoops) diverge (index out of range / unreachable loops) or loop indexes collide")
}

func runC15_5(c *core.Ctx) {
	f := getFn(c, "", "leastConnectionsLoadBalancer.next")
	loops := c.P.Field("", "baseLoadBalancer", "eventLoops")
	count := c.P.Func("", "eventloop.countConn")
	if f == nil || !c.Need("eventLoops", loops) || !c.Need("countConn", count) {
		return
	}
	var resObj types.Object
	if f.Decl.Type.Results != nil && len(f.Decl.Type.Results.List) == 1 && len(f.Decl.Type.Results.List[0].Names) == 1 {
		resObj = f.Info.Defs[f.Decl.Type.Results.List[0].Names[0]]
	}
	if resObj == nil {
		// no named result: the local variable that every return hands back
		ast.Inspect(f.Decl.Body, func(n ast.Node) bool {
			if _, ok := n.(*ast.FuncLit); ok {
				return false
			}
			if r, ok := n.(*ast.ReturnStmt); ok && len(r.Results) == 1 {
				if o, ok := flow.ObjOf(f.Info, r.Results[0]).(*types.Var); ok && !o.IsField() && (resObj == nil || resObj == types.Object(o)) {
					resObj = o
				} else {
					resObj = types.Universe.Lookup("nil") // returns disagree: not one candidate variable
				}
			}
			return true
		})
		if _, isVar := resObj.(*types.Var); !isVar {
			resObj = nil
		}
	}
	if resObj == nil {
		c.Undecided(f.Name, "result variable", f.Decl.Pos(), "least-connections next() neither has a named result nor returns one local variable; idiom not recognised")
		return
	}
	// initial: el = eventLoops[0]; minN := el.countConn()
	var minObj types.Object
	initEl, initMin := false, false
	var rng *ast.RangeStmt
	for _, st := range f.Decl.Body.List {
		switch y := st.(type) {
		case *ast.AssignStmt:
			if len(y.Lhs) == 1 && len(y.Rhs) == 1 {
				if flow.ObjOf(f.Info, y.Lhs[0]) == resObj {
					if ie, ok := ast.Unparen(y.Rhs[0]).(*ast.IndexExpr); ok && flow.FieldOf(f.Info, seeThrough(f, ie.X)) == loops {
						if cv := flow.ConstOf(f.Info, ie.Index); cv != nil && constant.Sign(cv) == 0 {
							initEl = true
						}
					}
				} else if call, ok := ast.Unparen(y.Rhs[0]).(*ast.CallExpr); ok && flow.IsCall(f.Info, call, count) && flow.ObjOf(f.Info, flow.Recv(call)) == resObj && initEl {
					minObj = flow.ObjOf(f.Info, y.Lhs[0])
					initMin = true
				}
			}
		case *ast.RangeStmt:
			rng = y
		}
	}
	c.Check(initEl && initMin, f.Name, "initial candidate", f.Decl.Pos(), "eventLoops[0] and its connection count", "the search does not start from eventLoops[0] with its own count as the minimum")
	// the loop over the remaining loops: `for _, v := range X` or the slice walk `for rest := X; len(rest) > 0; rest = rest[1:]`
	var loopBody *ast.BlockStmt
	var loopX ast.Expr
	var loopPos token.Pos
	isV := func(e ast.Expr) bool { return false }
	if rng != nil {
		loopBody, loopX, loopPos = rng.Body, rng.X, rng.Pos()
		vo := flow.ObjOf(f.Info, rng.Value)
		isV = func(e ast.Expr) bool { return vo != nil && flow.ObjOf(f.Info, e) == vo }
	} else {
		for _, st := range f.Decl.Body.List {
			fs, ok := st.(*ast.ForStmt)
			if !ok || fs.Init == nil || fs.Cond == nil || fs.Post == nil {
				continue
			}
			init, ok1 := fs.Init.(*ast.AssignStmt)
			post, ok2 := fs.Post.(*ast.AssignStmt)
			if !ok1 || !ok2 || len(init.Lhs) != 1 || len(init.Rhs) != 1 || len(post.Lhs) != 1 || len(post.Rhs) != 1 {
				continue
			}
			rest := flow.ObjOf(f.Info, init.Lhs[0])
			if rest == nil || flow.ObjOf(f.Info, post.Lhs[0]) != rest {
				continue
			}
			// rest = rest[1:]
			se, ok := ast.Unparen(post.Rhs[0]).(*ast.SliceExpr)
			if !ok || flow.ObjOf(f.Info, se.X) != rest || se.High != nil || flow.ConstOf(f.Info, se.Low) == nil || flow.ConstOf(f.Info, se.Low).ExactString() != "1" {
				continue
			}
			// len(rest) > 0 (any spelling that excludes exactly the empty slice)
			x, y, op, ok := flow.Cmp(fs.Cond)
			if !ok {
				continue
			}
			lc, isCall := ast.Unparen(x).(*ast.CallExpr)
			cv := flow.ConstOf(f.Info, y)
			if !isCall || cv == nil || len(lc.Args) != 1 || flow.ObjOf(f.Info, lc.Args[0]) != rest {
				continue
			}
			k, _ := constant.Int64Val(constant.ToInt(cv))
			t0, ok0 := ival{lo: 0, hi: 0}.cmp(op, k)
			t1, ok1b := ival{lo: 1, hiInf: true}.cmp(op, k)
			if !ok0 || !ok1b || t0 || !t1 {
				continue
			}
			loopBody, loopX, loopPos = fs.Body, init.Rhs[0], fs.Pos()
			isV = func(e ast.Expr) bool {
				ie, ok := ast.Unparen(e).(*ast.IndexExpr)
				if !ok || flow.ObjOf(f.Info, ie.X) != rest {
					return false
				}
				c0 := flow.ConstOf(f.Info, ie.Index)
				return c0 != nil && c0.ExactString() == "0"
			}
		}
	}
	counted := false
	if loopBody == nil {
		// the counted loop `for i := 1; i < len(loops); i++ { … loops[i] … }`
		for iv, fs := range countedLoops(f, loops) {
			iv := iv
			start := int64(2)
			if init, ok := fs.Init.(*ast.AssignStmt); ok {
				for k, l := range init.Lhs {
					if flow.ObjOf(f.Info, l) == iv {
						if cv := flow.ConstOf(f.Info, init.Rhs[k]); cv != nil {
							start, _ = constant.Int64Val(constant.ToInt(cv))
						}
					}
				}
			}
			if start > 1 {
				continue
			}
			isElemExpr := func(e ast.Expr) bool {
				ie, ok := ast.Unparen(e).(*ast.IndexExpr)
				return ok && flow.FieldOf(f.Info, seeThrough(f, ie.X)) == loops && flow.ObjOf(f.Info, ie.Index) == iv
			}
			// locals of the body bound once to loops[i]
			elemVars := map[types.Object]bool{}
			ast.Inspect(fs.Body, func(m ast.Node) bool {
				if as, ok := m.(*ast.AssignStmt); ok && len(as.Lhs) == len(as.Rhs) {
					for k, l := range as.Lhs {
						if o, ok := flow.ObjOf(f.Info, l).(*types.Var); ok && isElemExpr(as.Rhs[k]) && assignCount(f, o) == 1 {
							elemVars[o] = true
						}
					}
				}
				return true
			})
			loopBody, loopPos, counted = fs.Body, fs.Pos(), true
			isV = func(e ast.Expr) bool {
				if isElemExpr(e) {
					return true
				}
				o := flow.ObjOf(f.Info, e)
				return o != nil && elemVars[o]
			}
		}
	}
	if loopBody == nil {
		c.Violate(f.Name, "range over the remaining loops", f.Decl.Pos(), "no loop over the event loops (a range, a walk `for rest := …; len(rest) > 0; rest = rest[1:]`, or a counted loop up to len(eventLoops))")
		return
	}
	// range over eventLoops[1:] or all
	okRange := counted // (a counted loop from 0 or 1 up to len(eventLoops) covers them by construction)
	var rx ast.Expr
	if loopX != nil {
		rx = ast.Unparen(loopX)
	}
	if se, ok := rx.(*ast.SliceExpr); ok && flow.FieldOf(f.Info, seeThrough(f, se.X)) == loops && se.High == nil {
		if se.Low == nil {
			okRange = true
		} else if cv := flow.ConstOf(f.Info, se.Low); cv != nil {
			if k, _ := constant.Int64Val(cv); k <= 1 {
				okRange = true
			}
		}
	} else if flow.FieldOf(f.Info, seeThrough(f, rx)) == loops {
		okRange = true
	}
	c.Check(okRange, f.Name, "range over the remaining loops", loopPos, "every loop after the first is examined", "the range does not cover all remaining event loops (a loop is never considered)")
	// inside: assignments to result/min only under n < min with n = v.countConn()
	g := flow.New(c.P.Fset, f.Info, loopBody)
	const fLess = 1
	var nObj types.Object
	ast.Inspect(loopBody, func(n ast.Node) bool {
		if as, ok := n.(*ast.AssignStmt); ok && len(as.Lhs) == 1 && len(as.Rhs) == 1 {
			if call, ok := ast.Unparen(as.Rhs[0]).(*ast.CallExpr); ok && flow.IsCall(f.Info, call, count) && flow.Recv(call) != nil && isV(flow.Recv(call)) {
				nObj = flow.ObjOf(f.Info, as.Lhs[0])
			}
		}
		return true
	})
	isCountOfV := func(e ast.Expr) bool {
		if nObj != nil && flow.ObjOf(f.Info, e) == nObj {
			return true
		}
		call, ok := ast.Unparen(e).(*ast.CallExpr)
		return ok && flow.IsCall(f.Info, call, count) && flow.Recv(call) != nil && isV(flow.Recv(call))
	}
	evaluates := nObj != nil
	ast.Inspect(loopBody, func(n ast.Node) bool {
		if e, ok := n.(ast.Expr); ok && isCountOfV(e) {
			evaluates = true
		}
		return true
	})
	if !evaluates || minObj == nil {
		c.Violate(f.Name, "count of the examined loop", loopPos, "the loop body does not evaluate countConn() of the range element")
		return
	}
	p := &flow.Problem{Must: true}
	p.Edge = func(e *flow.Edge, in uint64) uint64 {
		if e.Cond != nil && e.Tag == nil {
			if x, y, op, ok := flow.Cmp(e.Cond); ok {
				// count < minimum, in any spelling: `c < m` / `m > c` taken, `c >= m` / `m <= c` not taken
				if isCountOfV(y) && flow.ObjOf(f.Info, x) == minObj {
					x, y, op = y, x, swapCmp(op)
				}
				if isCountOfV(x) && flow.ObjOf(f.Info, y) == minObj {
					if (op == token.LSS && e.Sense) || (op == token.GEQ && !e.Sense) {
						in |= fLess
					}
				}
			}
		}
		return in
	}
	sol := g.Solve(p)
	setEl, setMin := false, false
	sol.Walk(func(b *flow.Block, i int, n ast.Node, before uint64) {
		as, ok := n.(*ast.AssignStmt)
		if !ok {
			return
		}
		for k, l := range as.Lhs {
			o := flow.ObjOf(f.Info, l)
			if o != resObj && o != minObj {
				continue
			}
			good := before&fLess != 0 && len(as.Rhs) == len(as.Lhs)
			if good && o == resObj {
				good = isV(as.Rhs[k])
				setEl = setEl || good
			}
			if good && o == minObj {
				good = isCountOfV(as.Rhs[k])
				setMin = setMin || good
			}
			c.Check(good, f.Name, "update of "+o.Name(), as.Pos(), "replaced only by a strictly less loaded loop, with its count",
				"candidate/minimum is replaced outside the `count < minimum` edge or with a value other than the examined loop / its count: the chosen loop need not have the minimal connection count")
		}
	})
	c.Check(setEl && setMin, f.Name, "candidate and minimum updated together", loopPos, "both follow the better loop", "the candidate loop and the running minimum are not both updated on the `<` edge: later comparisons use a stale minimum")
}

// countedLoop recognises `for i := k; i < len(X.eventLoops) (or a local holding that length); i++ { … }` with a
// constant start k >= 0: inside its body 0 <= i < len(eventLoops). It returns the index variable, the start and the loop.
func countedLoops(f *fn, loops *types.Var) map[types.Object]*ast.ForStmt {
	out := map[types.Object]*ast.ForStmt{}
	isLenLoops := func(e ast.Expr) bool {
		call, ok := seeThrough(f, e).(*ast.CallExpr)
		if !ok || len(call.Args) != 1 {
			return false
		}
		id, ok := call.Fun.(*ast.Ident)
		return ok && id.Name == "len" && flow.FieldOf(f.Info, seeThrough(f, call.Args[0])) == loops
	}
	ast.Inspect(f.Decl.Body, func(n ast.Node) bool {
		fs, ok := n.(*ast.ForStmt)
		if !ok || fs.Init == nil || fs.Cond == nil || fs.Post == nil {
			return true
		}
		init, ok := fs.Init.(*ast.AssignStmt)
		if !ok || init.Tok != token.DEFINE || len(init.Lhs) != len(init.Rhs) {
			return true
		}
		post, ok := fs.Post.(*ast.IncDecStmt)
		if !ok || post.Tok != token.INC {
			return true
		}
		iv := flow.ObjOf(f.Info, post.X)
		if iv == nil {
			return true
		}
		start := int64(-1)
		for k, l := range init.Lhs {
			if flow.ObjOf(f.Info, l) == iv {
				if cv := flow.ConstOf(f.Info, init.Rhs[k]); cv != nil {
					start, _ = constant.Int64Val(constant.ToInt(cv))
				}
			}
		}
		if start < 0 {
			return true
		}
		x, y, op, ok := flow.Cmp(fs.Cond)
		if !ok {
			return true
		}
		bounded := false
		if flow.ObjOf(f.Info, x) == iv && op == token.LSS {
			bounded = isLenLoops(y) || func() bool {
				// a local bound in the same init statement: i, total := 1, len(lb.eventLoops)
				for k, l := range init.Lhs {
					if flow.ObjOf(f.Info, l) == flow.ObjOf(f.Info, y) && flow.ObjOf(f.Info, y) != nil {
						call, ok := ast.Unparen(init.Rhs[k]).(*ast.CallExpr)
						if ok && len(call.Args) == 1 {
							if id, ok := call.Fun.(*ast.Ident); ok && id.Name == "len" && flow.FieldOf(f.Info, seeThrough(f, call.Args[0])) == loops {
								return true
							}
						}
					}
				}
				return false
			}()
		}
		if flow.ObjOf(f.Info, y) == iv && op == token.GTR && isLenLoops(x) {
			bounded = true
		}
		if !bounded {
			return true
		}
		// the index variable is not assigned in the body
		assigned := false
		ast.Inspect(fs.Body, func(m ast.Node) bool {
			switch z := m.(type) {
			case *ast.AssignStmt:
				for _, l := range z.Lhs {
					if flow.ObjOf(f.Info, l) == iv {
						assigned = true
					}
				}
			case *ast.IncDecStmt:
				if flow.ObjOf(f.Info, z.X) == iv {
					assigned = true
				}
			}
			return true
		})
		if !assigned {
			out[iv] = fs
		}
		return true
	})
	return out
}

func init() {
	register(&core.Rule{ID: "C15.7", Prop: "C15", MinSites: 2,
		Desc: "the policy is asked with the peer's address: every call of a load balancer's next() in package gnet passes nil (the client, which has no accepted peer), the result of a RemoteAddr() method, the address converted from the sockaddr that accept returned, or the dial target taken from the context by FromNetAddrContext – never a local or listener address, under which the source-address hash would send every connection of one listener to one loop and the same remote to different loops",
		Run:  runC15_7})
}

func runC15_7(c *core.Ctx) {
	v := vocabOf(c)
	if v == nil {
		return
	}
	lbIface, _ := c.P.Object("", "loadBalancer").(*types.TypeName)
	fromAddr := c.P.Func("", "FromNetAddrContext")
	if !c.Need("loadBalancer", lbIface) || !c.Need("FromNetAddrContext", fromAddr) {
		return
	}
	isNext := func(f *fn, call *ast.CallExpr) bool {
		cf := flow.CalleeFunc(f.Info, call)
		if cf == nil || nameOf(cf) != "next" || len(call.Args) != 1 {
			return false
		}
		sig, _ := cf.Type().(*types.Signature)
		if sig == nil || sig.Recv() == nil {
			return false
		}
		rt := sig.Recv().Type()
		if p, ok := rt.(*types.Pointer); ok {
			rt = p.Elem()
		}
		if n, ok := rt.(*types.Named); ok {
			if n.Obj() == lbIface {
				return true
			}
			// a concrete balancer
			if iface, ok := lbIface.Type().Underlying().(*types.Interface); ok && (types.Implements(n, iface) || types.Implements(types.NewPointer(n), iface)) {
				return true
			}
		}
		return false
	}
	for _, f := range v.funcs {
		if f.Decl.Body == nil {
			continue
		}
		k := 0
		for _, call := range callsIn(f.Decl.Body, true) {
			if !isNext(f, call) {
				continue
			}
			k++
			arg := seeThrough(f, call.Args[0])
			good, why := false, ""
			switch {
			case flow.IsNil(f.Info, arg):
				good, why = true, "nil (no accepted peer)"
			default:
				if inner, ok := arg.(*ast.CallExpr); ok {
					if cf := flow.CalleeFunc(f.Info, inner); cf != nil {
						switch {
						case cf.Name() == "RemoteAddr" && len(inner.Args) == 0:
							good, why = true, "RemoteAddr() of the connection"
						case (cf.Name() == "SockaddrToTCPOrUnixAddr" || cf.Name() == "SockaddrToUDPAddr") && len(inner.Args) == 1:
							// the sockaddr comes from the accept call of this function
							if so := flow.ObjOf(f.Info, inner.Args[0]); so != nil {
								ast.Inspect(f.Decl.Body, func(n ast.Node) bool {
									if as, ok := n.(*ast.AssignStmt); ok && len(as.Rhs) == 1 {
										if ac, ok := ast.Unparen(as.Rhs[0]).(*ast.CallExpr); ok {
											if af := flow.CalleeFunc(f.Info, ac); af != nil && (af.Name() == "Accept" || af.Name() == "Accept4" || af.Name() == "sysAccept") {
												for _, l := range as.Lhs {
													if flow.ObjOf(f.Info, l) == so {
														good, why = true, "converted from the sockaddr accept returned"
													}
												}
											}
										}
									}
									return true
								})
							}
						}
					}
				}
				// the dial target taken from the context
				if o, ok := flow.ObjOf(f.Info, call.Args[0]).(*types.Var); ok && !good {
					ast.Inspect(f.Decl.Body, func(n ast.Node) bool {
						if as, ok := n.(*ast.AssignStmt); ok && len(as.Rhs) == 1 && len(as.Lhs) == 2 && flow.ObjOf(f.Info, as.Lhs[0]) == types.Object(o) {
							if fc, ok := ast.Unparen(as.Rhs[0]).(*ast.CallExpr); ok && flow.IsCall(f.Info, fc, fromAddr) && assignCount(f, o) == 1 {
								good, why = true, "the dial target from FromNetAddrContext"
							}
						}
						return true
					})
				}
			}
			c.Check(good, f.Name, "argument of next() #"+itoa(k), call.Pos(), why,
				"the load balancer is asked with `"+exprStr(call.Args[0])+"`, which is not the peer's address (RemoteAddr(), the accepted sockaddr, the dial target) : with the source-address hash the loop no longer is a function of the remote address – all connections of one local address land on one loop, and one remote can be served by different loops")
		}
	}
}

func init() {
	register(&core.Rule{ID: "C15.8", Prop: "C15", MinSites: 2,
		Desc: "iterate reaches every registered loop: baseLoadBalancer.iterate walks the whole eventLoops slice (a range over it, or a counted loop from 0 to its length), hands each element with its index to the visitor, and leaves the walk early only where the visitor answered false",
		Run:  runC15_8})
	alias("C06", "C06.15", "C15.8", "the stop sequence sends its exit task to, and closeEventLoops closes, the loops that iterate visits: a loop it skips keeps polling and Run never returns")
	alias("C19", "C19.10", "C15.8", "CountConnections and Stop act on the loops that iterate visits")
}

func runC15_8(c *core.Ctx) {
	f := getFn(c, "", "baseLoadBalancer.iterate")
	loops := c.P.Field("", "baseLoadBalancer", "eventLoops")
	if f == nil || !c.Need("eventLoops", loops) {
		return
	}
	visitor := f.param(0)
	isLoops := func(e ast.Expr) bool { return flow.FieldOf(f.Info, seeThrough(f, e)) == loops }
	var body *ast.BlockStmt
	var isElem func(e ast.Expr) bool
	var isIdx func(e ast.Expr) bool
	var at token.Pos
	ast.Inspect(f.Decl.Body, func(n ast.Node) bool {
		if rs, ok := n.(*ast.RangeStmt); ok && isLoops(rs.X) && body == nil {
			ko, vo := flow.ObjOf(f.Info, rs.Key), flow.ObjOf(f.Info, rs.Value)
			body, at = rs.Body, rs.Pos()
			isIdx = func(e ast.Expr) bool { return ko != nil && flow.ObjOf(f.Info, e) == ko }
			isElem = func(e ast.Expr) bool {
				if vo != nil && flow.ObjOf(f.Info, e) == vo {
					return true
				}
				ie, ok := ast.Unparen(e).(*ast.IndexExpr)
				return ok && isLoops(ie.X) && isIdx(ie.Index)
			}
		}
		return true
	})
	if body == nil {
		for iv, fs := range countedLoops(f, loops) {
			iv := iv
			start := int64(1)
			if init, ok := fs.Init.(*ast.AssignStmt); ok {
				for k, l := range init.Lhs {
					if flow.ObjOf(f.Info, l) == iv {
						if cv := flow.ConstOf(f.Info, init.Rhs[k]); cv != nil {
							start, _ = constant.Int64Val(constant.ToInt(cv))
						}
					}
				}
			}
			if start != 0 {
				continue
			}
			body, at = fs.Body, fs.Pos()
			isIdx = func(e ast.Expr) bool { return flow.ObjOf(f.Info, e) == iv }
			isElem = func(e ast.Expr) bool {
				ie, ok := seeThrough(f, e).(*ast.IndexExpr)
				return ok && isLoops(ie.X) && isIdx(ie.Index)
			}
		}
	}
	if body == nil {
		c.Violate(f.Name, "walk over eventLoops", f.Decl.Pos(), "iterate no longer walks the whole eventLoops slice (no range over it and no counted loop from 0 to its length): loops are skipped by everything built on iterate – the stop sequence, closeEventLoops, CountConnections")
		return
	}
	c.Ok(f.Name, "walk over eventLoops", at, "all elements")
	// the visitor gets (index, element)
	called := false
	for _, call := range callsIn(body, false) {
		if flow.ObjOf(f.Info, call.Fun) == types.Object(visitor) && len(call.Args) == 2 {
			called = true
			c.Check(isIdx(call.Args[0]) && isElem(call.Args[1]), f.Name, "visitor arguments", call.Pos(), "index and element of this step",
				"the visitor is not handed the index and the element of the current step: a loop is visited under another one's index, or one loop twice and another never")
		}
	}
	if !called {
		c.Violate(f.Name, "visitor arguments", at, "the walk does not call the visitor")
		return
	}
	// early exits only where the visitor answered false: at every return of iterate either the walk was
	// exhausted (the edge from the loop head to what follows the loop) or the visitor's last answer was false
	const fFalse, fDone = 1, 1 // one fact: "the walk may end here" – exhausted, or stopped by the visitor
	var loopStmt ast.Stmt
	var loopCond ast.Expr
	ast.Inspect(f.Decl.Body, func(n ast.Node) bool {
		switch y := n.(type) {
		case *ast.RangeStmt:
			if y.Body == body {
				loopStmt = y
			}
		case *ast.ForStmt:
			if y.Body == body {
				loopStmt, loopCond = y, y.Cond
			}
		}
		return true
	})
	p := &flow.Problem{Must: true}
	p.Edge = func(e *flow.Edge, in uint64) uint64 {
		if e.Cond != nil && e.Tag == nil {
			if call, ok := seeThroughAt(f, e.Cond, e.Cond).(*ast.CallExpr); ok && flow.ObjOf(f.Info, call.Fun) == types.Object(visitor) {
				if e.Sense {
					in &^= fFalse
				} else {
					in |= fFalse
				}
			}
			if loopCond != nil && e.Cond.Pos() >= loopCond.Pos() && e.Cond.End() <= loopCond.End() && !e.Sense {
				in |= fDone
			}
		}
		if e.Cond == nil && e.From.Kind == cfg.KindRangeLoop && e.From.Stmt == loopStmt && e.To.Kind == cfg.KindRangeDone {
			in |= fDone
		}
		return in
	}
	p.Node = func(b *flow.Block, i int, n ast.Node, in uint64) uint64 {
		for _, call := range flow.Calls(n) {
			if flow.ObjOf(f.Info, call.Fun) == types.Object(visitor) {
				in &^= fFalse // a new question; its answer is read off the edges
			}
		}
		return in
	}
	sol := f.Graph().Solve(p)
	okExit := true
	sol.AtExit(func(b *flow.Block, facts uint64) {
		if facts&(fFalse|fDone) == 0 {
			okExit = false
		}
	})
	c.Check(okExit, f.Name, "early exit", at, "only on the visitor's false", "the walk over the event loops can end before the last loop although the visitor did not ask for it: the remaining loops are never visited")
}
