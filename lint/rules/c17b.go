package rules

import (
	"go/ast"
	"go/token"
	"go/types"
	"strings"

	"gnetlint/core"
	"gnetlint/flow"
)

func init() {
	register(&core.Rule{ID: "C17.4", Prop: "C17", MinSites: 1,
		Desc: "reverse digit assembly (zone index -> string): when a loop fills B[i] backwards and decrements i, the slice taken afterwards starts at the first byte written (B[i+1:] for write-then-decrement, B[i:] for decrement-then-write), so no unwritten pool byte leads the zone string",
		Run:  runC17_4})
}

func runC17_4(c *core.Ctx) {
	pk := c.P.Pkg("pkg/socket")
	if pk == nil {
		c.Undecided("pkg/socket", "package", 0, "package not loaded")
		return
	}
	sites := 0
	for _, d := range c.P.FuncsOf(pk) {
		obj, _ := pk.TypesInfo.Defs[d.Name].(*types.Func)
		if obj == nil || d.Body == nil {
			continue
		}
		f := &fn{P: c.P, Obj: obj, Decl: d, Info: pk.TypesInfo, Pkg: pk, Name: core.FuncName(obj)}
		// loops that write B[i] and decrement i
		ast.Inspect(d.Body, func(n ast.Node) bool {
			loop, ok := n.(*ast.ForStmt)
			if !ok {
				return true
			}
			var bufObj, idxObj types.Object
			var writePos, decPos token.Pos
			for _, st := range loop.Body.List {
				switch x := st.(type) {
				case *ast.AssignStmt:
					if len(x.Lhs) == 1 {
						if ie, ok := ast.Unparen(x.Lhs[0]).(*ast.IndexExpr); ok {
							if b, i := flow.ObjOf(f.Info, ie.X), flow.ObjOf(f.Info, ie.Index); b != nil && i != nil {
								bufObj, idxObj, writePos = b, i, x.Pos()
							}
						}
					}
				case *ast.IncDecStmt:
					if x.Tok == token.DEC {
						if o := flow.ObjOf(f.Info, x.X); o != nil && (idxObj == nil || o == idxObj) {
							if idxObj == nil {
								idxObj = o
							}
							decPos = x.Pos()
						}
					}
				}
			}
			if bufObj == nil || idxObj == nil || !writePos.IsValid() || !decPos.IsValid() {
				return true
			}
			writeFirst := writePos < decPos
			// slices of B taken after the loop with a bound in i
			ast.Inspect(d.Body, func(m ast.Node) bool {
				se, ok := m.(*ast.SliceExpr)
				if !ok || se.Pos() < loop.End() || flow.ObjOf(f.Info, se.X) != bufObj || se.Low == nil {
					return true
				}
				low := ast.Unparen(se.Low)
				plusOne := false
				if be, ok := low.(*ast.BinaryExpr); ok && be.Op == token.ADD {
					if tv, ok := f.Info.Types[be.Y]; ok && tv.Value != nil && tv.Value.String() == "1" {
						plusOne = true
						low = ast.Unparen(be.X)
					}
				}
				if flow.ObjOf(f.Info, low) != idxObj {
					return true
				}
				sites++
				construct := "slice of " + bufObj.Name() + " after the backward fill #" + itoa(sites)
				switch {
				case writeFirst && !plusOne:
					c.Violate(f.Name, construct, se.Pos(), "the loop writes "+bufObj.Name()+"["+idxObj.Name()+"] and then decrements "+idxObj.Name()+", so after the loop "+idxObj.Name()+" is one below the first byte written; "+exprStr(se)+" starts one byte early: the result carries a stale pool byte in front of the digits (zone \"999\" becomes \"\\x00999\" and no longer maps back to index 999)")
				case !writeFirst && plusOne:
					c.Violate(f.Name, construct, se.Pos(), "the loop decrements "+idxObj.Name()+" before writing, so "+exprStr(se)+" drops the first digit")
				default:
					c.Ok(f.Name, construct, se.Pos(), "the slice starts at the first byte written")
				}
				return true
			})
			return true
		})
	}
	if sites == 0 {
		c.Undecided("pkg/socket", "backward fill", 0, "no backward digit assembly found in pkg/socket: idiom not recognised")
	}
}

func init() {
	register(&core.Rule{ID: "C17.5", Prop: "C17", MinSites: 3,
		Desc: "zone strings are born unshared: every string returned by ip6ZoneToString is \"\", the Name of the interface looked up by this very call, or the result of itod – never a value read from package state – because conn.release() recycles each connection's zone bytes into the byte pool",
		Run:  runC17_5})
}

func runC17_5(c *core.Ctx) {
	f := getFn(c, "pkg/socket", "ip6ZoneToString")
	if f == nil {
		return
	}
	itod := c.P.Func("pkg/socket", "itod")
	if !c.Need("itod", itod) {
		return
	}
	// variables bound from net.InterfaceByIndex in this function
	ifaceVars := map[types.Object]bool{}
	ast.Inspect(f.Decl.Body, func(n ast.Node) bool {
		if as, ok := n.(*ast.AssignStmt); ok && len(as.Rhs) == 1 && len(as.Lhs) == 2 {
			if call, ok := ast.Unparen(as.Rhs[0]).(*ast.CallExpr); ok && flow.IsPkgFunc(f.Info, call, "net", "InterfaceByIndex") {
				if o := flow.ObjOf(f.Info, as.Lhs[0]); o != nil {
					ifaceVars[o] = true
				}
			}
		}
		return true
	})
	k := 0
	ast.Inspect(f.Decl.Body, func(n ast.Node) bool {
		if _, ok := n.(*ast.FuncLit); ok {
			return false
		}
		r, ok := n.(*ast.ReturnStmt)
		if !ok || len(r.Results) != 1 {
			return true
		}
		k++
		e := ast.Unparen(r.Results[0])
		construct := "return #" + itoa(k) + " provenance"
		okk := false
		if tv, ok := f.Info.Types[e]; ok && tv.Value != nil {
			okk = true // constant
		}
		if sel, ok := e.(*ast.SelectorExpr); ok && sel.Sel.Name == "Name" && ifaceVars[flow.ObjOf(f.Info, sel.X)] {
			okk = true
		}
		if call, ok := e.(*ast.CallExpr); ok && flow.IsCall(f.Info, call, itod) {
			okk = true
		}
		c.Check(okk, f.Name, construct, r.Pos(), "constant, fresh interface name or itod()",
			"ip6ZoneToString returns "+exprStr(e)+", which is not a string created for this call: connections would share one zone string, and the first of them to be released hands its memory to the byte pool while the others (and the source it came from) still point at it – their RemoteAddr/LocalAddr zone is overwritten by the next small allocation")
		return true
	})
	// no other writer hands Zone strings to the conversion results
	for _, name := range []string{"SockaddrToTCPOrUnixAddr", "SockaddrToUDPAddr"} {
		g := getFn(c, "pkg/socket", name)
		if g == nil {
			continue
		}
		ast.Inspect(g.Decl.Body, func(n ast.Node) bool {
			kv, ok := n.(*ast.KeyValueExpr)
			if !ok {
				return true
			}
			if id, ok := kv.Key.(*ast.Ident); ok && id.Name == "Zone" {
				call, isCall := ast.Unparen(kv.Value).(*ast.CallExpr)
				c.Check(isCall && flow.IsCall(g.Info, call, f.Obj), g.Name, "Zone field source", kv.Pos(), "Zone: ip6ZoneToString(...)",
					"the Zone of a converted address no longer comes from ip6ZoneToString: its ownership (recycled by conn.release) is unknown")
			}
			return true
		})
	}
}

func init() {
	register(&core.Rule{ID: "C17.6", Prop: "C17", MinSites: 8,
		Desc: "a connection owns the zone strings it recycles: every net.Addr handed to newStreamConn/newUDPConn is built by gnet for this connection (socket.SockaddrTo*, or a module function that copies the zone with strings.Clone) or is the listener's shared address (which release() never recycles on a server loop) – never the LocalAddr()/RemoteAddr() of a foreign net.Conn, whose zone string belongs to package net's interface cache",
		Run:  runC17_6})
}

// ownsZone: callee is a module function returning net.Addr in which every TCPAddr/UDPAddr literal takes its
// Zone from strings.Clone(…) or ip6ZoneToString(…).
func ownsZone(c *core.Ctx, callee *types.Func) bool {
	f := fnOf(c, callee)
	if f == nil || f.Decl.Body == nil {
		return false
	}
	lits, good := 0, 0
	ast.Inspect(f.Decl.Body, func(n ast.Node) bool {
		cl, ok := n.(*ast.CompositeLit)
		if !ok {
			return true
		}
		t := f.Info.TypeOf(cl)
		if t == nil || !(strings.HasSuffix(t.String(), "net.TCPAddr") || strings.HasSuffix(t.String(), "net.UDPAddr")) {
			return true
		}
		lits++
		for _, el := range cl.Elts {
			kv, ok := el.(*ast.KeyValueExpr)
			if !ok {
				continue
			}
			if id, ok := kv.Key.(*ast.Ident); ok && id.Name == "Zone" {
				if call, ok := ast.Unparen(kv.Value).(*ast.CallExpr); ok {
					if flow.IsPkgFunc(f.Info, call, "strings", "Clone") {
						good++
					} else if cf := flow.CalleeFunc(f.Info, call); cf != nil && nameOf(cf) == "ip6ZoneToString" {
						good++
					}
				}
			}
		}
		return true
	})
	return lits > 0 && lits == good
}

func runC17_6(c *core.Ctx) {
	v := vocabOf(c)
	if v == nil {
		return
	}
	addrT := c.P.ExtObject("net", "Addr")
	if !c.Need("net.Addr", addrT) {
		return
	}
	for _, f := range v.funcs {
		if f.Decl.Body == nil {
			continue
		}
		k := 0
		for _, call := range callsIn(f.Decl.Body, true) {
			cf := flow.CalleeFunc(f.Info, call)
			if cf == nil || v.byObj[cf] == nil || !(nameOf(cf) == "newStreamConn" || nameOf(cf) == "newUDPConn") {
				continue
			}
			sig := cf.Type().(*types.Signature)
			if len(call.Args) > 0 {
				if tv, ok := f.Info.Types[call.Args[0]]; ok && tv.Value != nil && tv.Value.String() == `"unix"` {
					continue // unix-domain addresses carry no zone
				}
			}
			for i, arg := range call.Args {
				if i >= sig.Params().Len() || !types.Identical(sig.Params().At(i).Type(), addrT.Type()) {
					continue
				}
				k++
				construct := cf.Name() + " address argument #" + itoa(k) + " " + sig.Params().At(i).Name()
				verdict, why := classifyAddr(c, v, f, arg, 0)
				c.Check(verdict, f.Name, construct, arg.Pos(), why,
					exprStr(arg)+" is handed to the connection as its "+sig.Params().At(i).Name()+": "+why+". conn.release() gives the zone bytes of that address to the byte pool, so the next small allocation overwrites a string that package net (its interface-name cache), other connections and the application still use")
			}
		}
	}
}

func classifyAddr(c *core.Ctx, v *vocab, f *fn, e ast.Expr, depth int) (bool, string) {
	e = ast.Unparen(e)
	switch x := e.(type) {
	case *ast.CallExpr:
		cf := flow.CalleeFunc(f.Info, x)
		if cf == nil || cf.Pkg() == nil {
			return false, "a value of unknown origin"
		}
		if strings.HasSuffix(cf.Pkg().Path(), "/pkg/socket") && strings.HasPrefix(cf.Name(), "SockaddrTo") {
			return true, "built from the sockaddr of this connection"
		}
		if isModulePkg(cf.Pkg().Path()) && ownsZone(c, cf) {
			return true, "copied with its own zone string by " + cf.Name()
		}
		if nameOf(cf) == "LocalAddr" || nameOf(cf) == "RemoteAddr" {
			return false, "the address object of a foreign net.Conn, whose Zone string is shared with package net"
		}
		return false, "the result of " + cf.Name() + ", which is not known to give the connection a zone string of its own"
	case *ast.SelectorExpr:
		if fl := flow.FieldOf(f.Info, x); fl != nil && nameOf(fl) == "addr" {
			return true, "the listener's shared address (not recycled on a server loop)"
		}
	case *ast.Ident:
		if flow.IsNil(f.Info, x) {
			return true, "nil"
		}
		if o, ok := f.Info.Uses[x].(*types.Var); ok && depth < 3 {
			// single-assignment local
			var rhs ast.Expr
			n := 0
			ast.Inspect(f.Decl.Body, func(m ast.Node) bool {
				if as, ok := m.(*ast.AssignStmt); ok && len(as.Lhs) == len(as.Rhs) {
					for i, l := range as.Lhs {
						if flow.ObjOf(f.Info, l) == types.Object(o) {
							n++
							rhs = as.Rhs[i]
						}
					}
				}
				return true
			})
			if n == 1 {
				return classifyAddr(c, v, f, rhs, depth+1)
			}
		}
	}
	return false, "a value of unknown origin"
}

func init() {
	register(&core.Rule{ID: "C17.7", Prop: "C17", MinSites: 2,
		Desc: "release() recycles the zone of the LOCAL address only where len(c.loop.listeners) == 0 is established (a client loop, where the local address was copied for this connection); on a server loop the local address is the listener's, shared by every connection it accepted",
		Run:  runC17_7})
}

func runC17_7(c *core.Ctx) {
	f := getFn(c, "", "conn.release")
	localF := c.P.Field("", "conn", "localAddr")
	listenersF := c.P.Field("", "eventloop", "listeners")
	if f == nil || !c.Need("conn.localAddr", localF) || !c.Need("eventloop.listeners", listenersF) {
		return
	}
	// variables bound by `addr, ok := c.localAddr.(*net.XAddr)`
	local := map[types.Object]bool{}
	ast.Inspect(f.Decl.Body, func(n ast.Node) bool {
		if as, ok := n.(*ast.AssignStmt); ok && len(as.Rhs) == 1 {
			if ta, ok := ast.Unparen(as.Rhs[0]).(*ast.TypeAssertExpr); ok && flow.FieldOf(f.Info, ta.X) == localF {
				if o := flow.ObjOf(f.Info, as.Lhs[0]); o != nil {
					local[o] = true
				}
			}
		}
		return true
	})
	// … or by a type switch over it: `switch a := c.localAddr.(type) { case *net.TCPAddr: … a.Zone … }`
	ast.Inspect(f.Decl.Body, func(n ast.Node) bool {
		ts, ok := n.(*ast.TypeSwitchStmt)
		if !ok {
			return true
		}
		as, ok := ts.Assign.(*ast.AssignStmt)
		if !ok || len(as.Rhs) != 1 {
			return true
		}
		if ta, ok := ast.Unparen(as.Rhs[0]).(*ast.TypeAssertExpr); ok && flow.FieldOf(f.Info, ta.X) == localF {
			for _, cl := range ts.Body.List {
				if o := f.Info.Implicits[cl]; o != nil {
					local[o] = true
				}
			}
		}
		return true
	})
	const fClient = 1
	p := &flow.Problem{Must: true}
	p.Edge = func(e *flow.Edge, in uint64) uint64 {
		if e.Cond == nil || e.Tag != nil {
			return in
		}
		x, y, op, ok := flow.Cmp(e.Cond)
		if !ok {
			return in
		}
		lc, isCall := ast.Unparen(x).(*ast.CallExpr)
		if !isCall || len(lc.Args) != 1 {
			return in
		}
		if id, ok := lc.Fun.(*ast.Ident); !ok || id.Name != "len" || flow.FieldOf(f.Info, lc.Args[0]) != listenersF {
			return in
		}
		tv, ok := f.Info.Types[y]
		if !ok || tv.Value == nil || tv.Value.String() != "0" {
			return in
		}
		if (op == token.EQL && e.Sense) || (op == token.GTR && !e.Sense) || (op == token.LEQ && e.Sense) {
			in |= fClient
		}
		return in
	}
	// module helpers that hand the zone of their (address) argument to the pool
	poolsArgZone := func(callee *types.Func) bool {
		hf := fnOf(c, callee)
		if hf == nil || hf.Decl.Body == nil {
			return false
		}
		found := false
		for _, cc := range callsIn(hf.Decl.Body, true) {
			if a2, kind := poolPut(hf, cc); a2 != nil && kind == "byteslice" && strings.Contains(exprStr(a2), "Zone") {
				found = true
			}
		}
		return found
	}
	sol := f.Graph().Solve(p)
	k := 0
	sol.Walk(func(b *flow.Block, i int, n ast.Node, before uint64) {
		for _, call := range flow.Calls(n) {
			arg, kind := poolPut(f, call)
			if arg == nil {
				if cf := flow.CalleeFunc(f.Info, call); cf != nil && cf.Pkg() != nil && isModulePkg(cf.Pkg().Path()) && len(call.Args) == 1 && poolsArgZone(cf) {
					arg, kind = call.Args[0], "byteslice"
				}
			}
			if arg == nil || kind != "byteslice" {
				continue
			}
			isLocal := false
			ast.Inspect(arg, func(m ast.Node) bool {
				if id, ok := m.(*ast.Ident); ok && local[f.Info.Uses[id]] {
					isLocal = true
				}
				if sel, ok := m.(*ast.SelectorExpr); ok && flow.FieldOf(f.Info, sel) == localF {
					isLocal = true
				}
				return true
			})
			if !isLocal {
				continue
			}
			k++
			c.Check(before&fClient != 0, f.Name, "local zone recycled #"+itoa(k)+" only on a client loop", call.Pos(), "dominated by len(c.loop.listeners) == 0",
				"the zone bytes of the connection's local address are given to the byte pool where the loop is not known to be a client loop: on a server that address is the listener's own, shared by all its connections, and the next small allocation overwrites the zone of every LocalAddr()")
		}
	})
	if k == 0 {
		c.Ok(f.Name, "local zone recycled", f.Decl.Pos(), "release() does not recycle local address zones")
	}
}

func init() {
	register(&core.Rule{ID: "C17.8", Prop: "C17", MinSites: 2,
		Desc: "address bytes are normalised to the array they fill: every copy into unix.SockaddrInet4.Addr takes its source from To4() and every copy into SockaddrInet6.Addr from To16() (directly or through a variable bound to that call) – a 16-byte IPv4 net.IP copied as it is puts its leading zeros into the 4-byte field (0.0.0.0)",
		Run:  runC17_8})
}

func runC17_8(c *core.Ctx) {
	sites := 0
	allFuncs(c, func(f *fn) {
		rel := strings.TrimPrefix(f.Pkg.PkgPath, core.ModPath)
		if rel != "" && rel != "/pkg/socket" {
			return
		}
		for _, call := range callsIn(f.Decl.Body, true) {
			id, ok := ast.Unparen(call.Fun).(*ast.Ident)
			if !ok || id.Name != "copy" || len(call.Args) != 2 {
				continue
			}
			if _, isB := f.Info.Uses[id].(*types.Builtin); !isB {
				continue
			}
			se, ok := ast.Unparen(call.Args[0]).(*ast.SliceExpr)
			if !ok {
				continue
			}
			sel, ok := ast.Unparen(se.X).(*ast.SelectorExpr)
			if !ok || sel.Sel.Name != "Addr" {
				continue
			}
			t := f.Info.TypeOf(sel.X)
			if t == nil {
				continue
			}
			want := ""
			switch {
			case strings.HasSuffix(t.String(), "unix.SockaddrInet4"):
				want = "To4"
			case strings.HasSuffix(t.String(), "unix.SockaddrInet6"):
				want = "To16"
			default:
				continue
			}
			sites++
			isNorm := func(e ast.Expr) bool {
				c2, ok := ast.Unparen(e).(*ast.CallExpr)
				if !ok {
					return false
				}
				s2, ok := ast.Unparen(c2.Fun).(*ast.SelectorExpr)
				return ok && s2.Sel.Name == want && len(c2.Args) == 0
			}
			src := ast.Unparen(call.Args[1])
			okk := isNorm(src)
			if o, isVar := flow.ObjOf(f.Info, src).(*types.Var); !okk && isVar {
				if d := defOf(f.Info, f.Decl.Body, o); d != nil && isNorm(d) {
					okk = true
				}
			}
			c.Check(okk, f.Name, "copy into "+exprStr(sel)+" from "+want+"()", call.Pos(), "source normalised to the array length",
				"the bytes copied into "+exprStr(sel)+" ("+exprStr(call.Args[1])+") are not the result of "+want+"(): a net.IP holding an IPv4 address in its 16-byte form fills the 4-byte field with its leading zeros, so the datagram or connection goes to 0.0.0.0 instead of the given address")
		}
	})
	if sites == 0 {
		c.Undecided("pkg/socket", "copies into sockaddr arrays", 0, "no copy into a SockaddrInet4/6.Addr found: idiom not recognised")
	}
}

func init() {
	register(&core.Rule{ID: "C17.9", Prop: "C17", MinSites: 8,
		Desc: "no typed nil behind the Sockaddr interface: every value a conversion function returns as unix.Sockaddr is the untyped nil, the address of a value (&x, &T{…}) or another converter's result – never a pointer variable, which would make a failed conversion compare != nil and be dereferenced by sendto",
		Run:  runC17_9})
}

func runC17_9(c *core.Ctx) {
	pk := c.P.Pkg("pkg/socket")
	if pk == nil {
		c.Undecided("pkg/socket", "package", 0, "package not loaded")
		return
	}
	for _, d := range c.P.FuncsOf(pk) {
		obj, _ := pk.TypesInfo.Defs[d.Name].(*types.Func)
		if obj == nil || d.Body == nil {
			continue
		}
		sig := obj.Type().(*types.Signature)
		idx := -1
		for i := 0; i < sig.Results().Len(); i++ {
			if strings.HasSuffix(sig.Results().At(i).Type().String(), "unix.Sockaddr") {
				idx = i
			}
		}
		if idx < 0 {
			continue
		}
		f := &fn{P: c.P, Obj: obj, Decl: d, Info: pk.TypesInfo, Pkg: pk, Name: core.FuncName(obj)}
		k := 0
		ast.Inspect(d.Body, func(n ast.Node) bool {
			if _, ok := n.(*ast.FuncLit); ok {
				return false
			}
			r, ok := n.(*ast.ReturnStmt)
			if !ok || len(r.Results) <= idx {
				return true
			}
			k++
			e := ast.Unparen(r.Results[idx])
			okk, why := false, "a pointer-typed value that may be nil"
			switch x := e.(type) {
			case *ast.Ident:
				if flow.IsNil(f.Info, x) {
					okk = true
				} else if t := f.Info.TypeOf(x); t != nil {
					if _, isIface := t.Underlying().(*types.Interface); isIface {
						okk = true // already an interface value: nil stays nil
					}
				}
			case *ast.UnaryExpr:
				okk = x.Op == token.AND
			case *ast.CallExpr:
				if t := f.Info.TypeOf(x); t != nil {
					if _, isIface := t.Underlying().(*types.Interface); isIface {
						okk = true
					} else if tup, ok := t.(*types.Tuple); ok && tup.Len() > idx {
						_, isIface := tup.At(idx).Type().Underlying().(*types.Interface)
						okk = isIface
					}
				}
			}
			c.Check(okk, f.Name, "Sockaddr result #"+itoa(k)+" is nil or non-nil for sure", r.Pos(), "untyped nil, &value or an interface-typed result",
				"the conversion returns "+exprStr(e)+" ("+why+") as unix.Sockaddr: when the conversion fails the interface holds a typed nil pointer, `sa == nil` is false, and Sendto/Connect dereference it – a panic in the event loop instead of ErrInvalidNetworkAddress")
			return true
		})
	}
}

func init() {
	register(&core.Rule{ID: "C17.10", Prop: "C17", MinSites: 3,
		Desc: "a server loop knows its listeners: in the server start-up functions every event loop is given its listeners map before it is registered with the load balancer or becomes the main reactor – conn.release() tells a client loop (whose connections own their local address) from a server loop (whose connections share the listener's) by len(c.loop.listeners)",
		Run:  runC17_10})
	register(&core.Rule{ID: "C08.10", Prop: "C08", MinSites: 2,
		Desc: "a datagram Write always becomes a datagram: no return of conn.Write (or SendTo) is reachable before the isDatagram dispatch – an early return for an empty payload would drop the empty datagram a UDP handler answers with",
		Run:  runC08_10})
}

func runC17_10(c *core.Ctx) {
	v := vocabOf(c)
	if v == nil {
		return
	}
	listenersF := c.P.Field("", "eventloop", "listeners")
	ingressF := c.P.Field("", "engine", "ingress")
	if !c.Need("eventloop.listeners", listenersF) || !c.Need("engine.ingress", ingressF) {
		return
	}
	for _, name := range []string{"engine.activateReactors", "engine.runEventLoops"} {
		f := getFn(c, "", name)
		if f == nil {
			continue
		}
		// loop variables: locals of type *eventloop assigned from new(eventloop) / &eventloop{…}
		vars := map[types.Object]int{}
		ast.Inspect(f.Decl.Body, func(n ast.Node) bool {
			if _, ok := n.(*ast.FuncLit); ok {
				return false
			}
			if as, ok := n.(*ast.AssignStmt); ok && len(as.Lhs) == 1 && len(as.Rhs) == 1 {
				if o, ok := flow.ObjOf(f.Info, as.Lhs[0]).(*types.Var); ok && v.isLoopPtr(o.Type()) && len(vars) < 20 {
					if _, seen := vars[o]; !seen {
						vars[o] = len(vars)
					}
				}
			}
			return true
		})
		p := &flow.Problem{Must: true}
		p.Node = func(b *flow.Block, i int, n ast.Node, in uint64) uint64 {
			as, ok := n.(*ast.AssignStmt)
			if !ok || len(as.Lhs) != len(as.Rhs) {
				return in
			}
			for k, l := range as.Lhs {
				if o := flow.ObjOf(f.Info, l); o != nil {
					if idx, isLoop := vars[o]; isLoop {
						in &^= 1 << uint(idx) // a fresh loop object
						// &eventloop{listeners: X}
						ast.Inspect(as.Rhs[k], func(m ast.Node) bool {
							if kv, ok := m.(*ast.KeyValueExpr); ok {
								if id, ok := kv.Key.(*ast.Ident); ok && id.Name == "listeners" && !flow.IsNil(f.Info, kv.Value) {
									in |= 1 << uint(idx)
								}
							}
							return true
						})
					}
				}
				if sel, ok := ast.Unparen(l).(*ast.SelectorExpr); ok && flow.FieldOf(f.Info, sel) == listenersF && !flow.IsNil(f.Info, as.Rhs[k]) {
					if idx, isLoop := vars[flow.ObjOf(f.Info, sel.X)]; isLoop {
						in |= 1 << uint(idx)
					}
				}
			}
			return in
		}
		sol := f.Graph().Solve(p)
		k := 0
		sol.Walk(func(b *flow.Block, i int, n ast.Node, before uint64) {
			check := func(e ast.Expr, what string, pos token.Pos) {
				idx, isLoop := vars[flow.ObjOf(f.Info, e)]
				if !isLoop {
					return
				}
				k++
				c.Check(before&(1<<uint(idx)) != 0, f.Name, what+" #"+itoa(k)+" of a loop that has its listeners", pos, exprStr(e)+".listeners was assigned before",
					"the event loop "+exprStr(e)+" is put to work without its listeners map: conn.release() takes len(c.loop.listeners) == 0 to mean a client loop and recycles the local address zone of the loop's connections – on a server that zone belongs to the listener's shared address, so every close hands it to the byte pool")
			}
			for _, call := range flow.Calls(n) {
				if cf := flow.CalleeFunc(f.Info, call); cf != nil && nameOf(cf) == "register" && len(call.Args) == 1 && v.isLoopPtr(f.Info.TypeOf(call.Args[0])) {
					check(call.Args[0], "registration", call.Pos())
				}
			}
			if as, ok := n.(*ast.AssignStmt); ok && len(as.Lhs) == len(as.Rhs) {
				for kk, l := range as.Lhs {
					if flow.FieldOf(f.Info, l) == ingressF {
						check(as.Rhs[kk], "main reactor", as.Pos())
					}
				}
			}
		})
	}
}

func runC08_10(c *core.Ctx) {
	isDgramF := c.P.Field("", "conn", "isDatagram")
	if !c.Need("conn.isDatagram", isDgramF) {
		return
	}
	for _, name := range []string{"conn.Write", "conn.SendTo"} {
		f := getFn(c, "", name)
		if f == nil {
			continue
		}
		p := &flow.Problem{Must: true}
		p.Edge = func(e *flow.Edge, in uint64) uint64 {
			if e.Cond != nil && e.Tag == nil {
				if sel, ok := ast.Unparen(e.Cond).(*ast.SelectorExpr); ok && flow.FieldOf(f.Info, sel) == isDgramF {
					in |= 1
				}
			}
			return in
		}
		sol := f.Graph().Solve(p)
		k := 0
		sol.AtExit(func(b *flow.Block, facts uint64) {
			k++
			c.Check(facts&1 != 0, f.Name, "return #"+itoa(k)+" behind the datagram dispatch", b.Return.Pos(), "c.isDatagram was examined on the way here",
				"a return of Conn."+f.Obj.Name()+" is reachable before c.isDatagram was examined: for a UDP conn the call ends without sendto(2) – an empty payload is a real datagram (the reply to an empty request) and would be dropped while the handler is told it was sent")
		})
	}
}

func init() {
	register(&core.Rule{ID: "C08.11", Prop: "C08", MinSites: 1,
		Desc: "the datagram goes to a connection of this descriptor: in readUDP the conn handed to OnTraffic is, on every path, either a newUDPConn built for the descriptor that was read with the Recvfrom peer address (listener) or the registry's conn of that descriptor (getConn(fd), connected client) – never an unassigned variable or another descriptor's conn",
		Run:  runC08_11})
}

func runC08_11(c *core.Ctx) {
	v := vocabOf(c)
	f := getFn(c, "", "eventloop.readUDP")
	if v == nil || f == nil {
		return
	}
	fd := f.param(0)
	// the peer address bound by Recvfrom
	var peer types.Object
	ast.Inspect(f.Decl.Body, func(n ast.Node) bool {
		if as, ok := n.(*ast.AssignStmt); ok && len(as.Rhs) == 1 && len(as.Lhs) == 3 {
			if call, ok := ast.Unparen(as.Rhs[0]).(*ast.CallExpr); ok && flow.IsPkgFunc(f.Info, call, unixPkg, "Recvfrom") {
				peer = flow.ObjOf(f.Info, as.Lhs[1])
			}
		}
		return true
	})
	k := 0
	for _, call := range callsIn(f.Decl.Body, false) {
		if v.isConnCallback(f.Info, call) != "OnTraffic" || len(call.Args) != 1 {
			continue
		}
		k++
		who, _ := flow.ObjOf(f.Info, call.Args[0]).(*types.Var)
		if who == nil {
			c.Undecided(f.Name, "receiver of the datagram #"+itoa(k), call.Pos(), "the argument of OnTraffic is not a variable")
			continue
		}
		const fBound = 1
		why := ""
		p := &flow.Problem{Must: true}
		p.Node = func(b *flow.Block, i int, n ast.Node, in uint64) uint64 {
			as, ok := n.(*ast.AssignStmt)
			if !ok {
				return in
			}
			for j, l := range as.Lhs {
				if flow.ObjOf(f.Info, l) != types.Object(who) || j >= len(as.Rhs) {
					continue
				}
				in &^= fBound
				rc, ok := ast.Unparen(as.Rhs[j]).(*ast.CallExpr)
				if !ok {
					continue
				}
				cf := flow.CalleeFunc(f.Info, rc)
				switch {
				case cf != nil && nameOf(cf) == "newUDPConn" && len(rc.Args) >= 4:
					if flow.ObjOf(f.Info, rc.Args[0]) == types.Object(fd) && (peer == nil || flow.ObjOf(f.Info, rc.Args[3]) == peer) {
						in |= fBound
					} else {
						why = "a newUDPConn that is not built from the descriptor that was read and the peer address Recvfrom returned"
					}
				case flow.IsCall(f.Info, rc, v.getConn) && len(rc.Args) == 1:
					if flow.ObjOf(f.Info, rc.Args[0]) == types.Object(fd) {
						in |= fBound
					} else {
						why = "the registry's conn of another descriptor"
					}
				}
			}
			return in
		}
		sol := f.Graph().Solve(p)
		bound := true
		sol.Walk(func(b *flow.Block, i int, n ast.Node, before uint64) {
			for _, cc := range flow.Calls(n) {
				if cc == call && before&fBound == 0 {
					bound = false
				}
			}
		})
		if why == "" {
			why = "a variable that is not assigned on every path"
		}
		c.Check(bound, f.Name, "receiver of the datagram #"+itoa(k), call.Pos(), "newUDPConn(fd, …, sa) for a listener, getConn(fd) for a connected client",
			"OnTraffic can be called on "+why+": the datagram is delivered to no connection (nil dereference) or to the wrong one")
	}
	if k == 0 {
		c.Violate(f.Name, "receiver of the datagram", f.Decl.Pos(), "readUDP no longer calls OnTraffic")
	}
}

func init() {
	register(&core.Rule{ID: "C17.12", Prop: "C17", MinSites: 4,
		Desc: "resolved addresses reach the kernel form unchanged: in GetTCPSockAddr/GetUDPSockAddr every ipToSockaddr call passes the resolved address's own IP and Port, the family assigned on that path, and as zone \"\" exactly under AF_INET and the resolved address's Zone exactly under AF_INET6; GetUnixSockAddr builds SockaddrUnix from the resolved address's Name; each returns the resolved address it converted",
		Run:  runC17_12})
}

func runC17_12(c *core.Ctx) {
	ipTo := c.P.Func("pkg/socket", "ipToSockaddr")
	if !c.Need("ipToSockaddr", ipTo) {
		return
	}
	for _, spec := range []struct{ fn, resolver string }{{"GetTCPSockAddr", "ResolveTCPAddr"}, {"GetUDPSockAddr", "ResolveUDPAddr"}, {"GetUnixSockAddr", "ResolveUnixAddr"}} {
		f := getFn(c, "pkg/socket", spec.fn)
		if f == nil {
			continue
		}
		// the resolved address
		var res types.Object
		ast.Inspect(f.Decl.Body, func(n ast.Node) bool {
			if as, ok := n.(*ast.AssignStmt); ok && len(as.Rhs) == 1 && len(as.Lhs) == 2 {
				if call, ok := ast.Unparen(as.Rhs[0]).(*ast.CallExpr); ok && flow.IsPkgFunc(f.Info, call, "net", spec.resolver) {
					res = flow.ObjOf(f.Info, as.Lhs[0])
				}
			}
			return true
		})
		if res == nil {
			c.Violate(f.Name, "resolved address", f.Decl.Pos(), spec.fn+" no longer resolves its argument with net."+spec.resolver)
			continue
		}
		fieldOfRes := func(e ast.Expr, name string) bool {
			sel, ok := seeThrough(f, e).(*ast.SelectorExpr)
			return ok && flow.ObjOf(f.Info, sel.X) == res && sel.Sel.Name == name
		}
		if spec.fn == "GetUnixSockAddr" {
			found := false
			ast.Inspect(f.Decl.Body, func(n ast.Node) bool {
				if cl, ok := n.(*ast.CompositeLit); ok {
					if tn, ok := f.Info.TypeOf(cl).(*types.Named); ok && tn.Obj().Name() == "SockaddrUnix" {
						for _, el := range cl.Elts {
							if kv, ok := el.(*ast.KeyValueExpr); ok {
								if id, ok := kv.Key.(*ast.Ident); ok && id.Name == "Name" {
									found = true
									// (net.ResolveUnixAddr keeps the path as given, so the address parameter itself is the same string)
									c.Check(fieldOfRes(kv.Value, "Name") || flow.ObjOf(f.Info, kv.Value) == types.Object(f.param(1)), f.Name, "SockaddrUnix.Name", kv.Pos(), "the resolved address's Name",
										"the kernel address is built from something other than the resolved Unix address's Name: the socket is bound/connected to a different path than the one reported")
								}
							}
						}
					}
				}
				return true
			})
			if !found {
				c.Violate(f.Name, "SockaddrUnix.Name", f.Decl.Pos(), "GetUnixSockAddr builds no SockaddrUnix{Name: …}")
			}
		} else {
			// family constant on the path: 1 = AF_INET, 2 = AF_INET6, 0 = unknown
			var famObj types.Object
			for _, call := range callsIn(f.Decl.Body, false) {
				if flow.IsCall(f.Info, call, ipTo) && len(call.Args) == 4 {
					famObj = flow.ObjOf(f.Info, call.Args[0])
				}
			}
			famOf := func(e ast.Expr) int {
				if o := flow.ObjOf(f.Info, e); o != nil && o.Pkg() != nil && o.Pkg().Path() == unixPkg {
					switch o.Name() {
					case "AF_INET":
						return 1
					case "AF_INET6":
						return 2
					}
				}
				return 0
			}
			au := &flow.Auto{Start: 0}
			au.Node = func(b *flow.Block, i int, n ast.Node, s int) int {
				if as, ok := n.(*ast.AssignStmt); ok && len(as.Lhs) == len(as.Rhs) {
					for k, l := range as.Lhs {
						if famObj != nil && flow.ObjOf(f.Info, l) == famObj {
							s = famOf(as.Rhs[k])
						}
					}
				}
				return s
			}
			sol := f.Graph().Run(au)
			k := 0
			sol.Walk(func(b *flow.Block, i int, n ast.Node, before uint64) {
				for _, call := range flow.Calls(n) {
					if !flow.IsCall(f.Info, call, ipTo) || len(call.Args) != 4 {
						continue
					}
					k++
					fam := 0
					if st := flow.States(before); len(st) == 1 {
						fam = st[0]
					}
					if d := famOf(call.Args[0]); d != 0 {
						fam = d
					}
					zoneEmpty := false
					if cv := flow.ConstOf(f.Info, call.Args[3]); cv != nil && cv.ExactString() == `""` {
						zoneEmpty = true
					}
					zoneOK := (fam == 1 && zoneEmpty) || (fam == 2 && fieldOfRes(call.Args[3], "Zone"))
					good := fieldOfRes(call.Args[1], "IP") && fieldOfRes(call.Args[2], "Port") && zoneOK
					c.Check(good, f.Name, "ipToSockaddr call #"+itoa(k), call.Pos(), "resolved IP, Port and the zone that belongs to the family",
						"the kernel address is not built from the resolved address's own IP, Port and (under AF_INET6) Zone with the family assigned on this path: the socket is bound or connected to another address, port or scope than the net.Addr that is reported for it")
				}
			})
			if k < 2 {
				c.Violate(f.Name, "ipToSockaddr calls", f.Decl.Pos(), spec.fn+" converts fewer than its two families")
			}
		}
		// the address handed back is the resolved one
		named := false
		if rl := f.Decl.Type.Results; rl != nil {
			for _, fld := range rl.List {
				for _, nm := range fld.Names {
					if f.Info.Defs[nm] == res {
						named = true
					}
				}
			}
		}
		if !named {
			for _, b := range f.Graph().Exits() {
				for _, r := range b.Return.Results {
					if flow.ObjOf(f.Info, r) == res {
						named = true
					}
				}
			}
		}
		c.Check(named, f.Name, "resolved address returned", f.Decl.Pos(), "the caller reports the address that was converted", spec.fn+" does not return the address it resolved: the reported local/remote address differs from the one the socket uses")
	}
}

// accessorTable: one-line accessors the properties quote; each hands back exactly the named path from its receiver.
var accessorTable = []struct {
	prop, id, rel, fn string
	path              []string // field names, a trailing "()" marks a niladic method call
	why               string
}{
	{"C02", "C02.17", "", "conn.OutboundBuffered", []string{"outboundBuffer", "Buffered()"}, "OutboundBuffered is the byte count of the outbound queue (accepted minus handed to the kernel)"},
	{"C17", "C17.13", "", "conn.LocalAddr", []string{"localAddr"}, "LocalAddr reports the address stored at construction"},
	{"C17", "C17.13", "", "conn.RemoteAddr", []string{"remoteAddr"}, "RemoteAddr reports the peer address stored at construction (or set per datagram)"},
	{"C14", "C14.10", "", "eventloop.countConn", []string{"connections", "loadCount()"}, "a loop's connection count is its registry's counter (Engine.CountConnections and the least-connections policy read it)"},
	{"C07", "C07.21", "", "conn.Fd", []string{"fd"}, "Fd reports the connection's own descriptor"},
}

func init() {
	seen := map[string]bool{}
	for _, a := range accessorTable {
		if seen[a.id] {
			continue
		}
		seen[a.id] = true
		id, prop := a.id, a.prop
		register(&core.Rule{ID: id, Prop: prop, MinSites: 1,
			Desc: "accessors answer from their own field: each one-line accessor the property quotes (conn.OutboundBuffered, LocalAddr/RemoteAddr, eventloop.countConn, conn.Fd – the ones listed for this property) returns exactly the named field path of its receiver on every return",
			Run:  func(c *core.Ctx) { runAccessors(c, id) }})
	}
}

func runAccessors(c *core.Ctx, id string) {
	for _, a := range accessorTable {
		if a.id != id {
			continue
		}
		f := getFn(c, a.rel, a.fn)
		if f == nil {
			continue
		}
		recv := f.recvVar()
		k := 0
		for _, b := range f.Graph().Exits() {
			r := b.Return
			if r == nil || len(r.Results) != 1 {
				continue
			}
			k++
			e := seeThrough(f, r.Results[0])
			good := recv != nil
			for i := len(a.path) - 1; i >= 0 && good; i-- {
				name := a.path[i]
				if strings.HasSuffix(name, "()") {
					call, ok := e.(*ast.CallExpr)
					if !ok || len(call.Args) != 0 {
						good = false
						break
					}
					sel, ok := ast.Unparen(call.Fun).(*ast.SelectorExpr)
					if !ok || f.Info.Uses[sel.Sel] == nil || nameOf(f.Info.Uses[sel.Sel]) != strings.TrimSuffix(name, "()") {
						good = false
						break
					}
					e = seeThrough(f, sel.X)
					continue
				}
				sel, ok := e.(*ast.SelectorExpr)
				if !ok || f.Info.Uses[sel.Sel] == nil || nameOf(f.Info.Uses[sel.Sel]) != name {
					good = false
					break
				}
				e = seeThrough(f, sel.X)
			}
			if good {
				good = flow.ObjOf(f.Info, e) == types.Object(recv)
			}
			c.Check(good, f.Name, "return #"+itoa(k), r.Pos(), a.why, nameOf(f.Obj)+" does not return "+strings.Join(a.path, ".")+" of its receiver: "+a.why+" – callers and handlers are told another object's value")
		}
		if k == 0 {
			c.Violate(f.Name, "returns", f.Decl.Pos(), "no single-result return found")
		}
	}
}
