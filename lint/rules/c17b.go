package rules

import (
	"go/ast"
	"go/token"
	"go/types"

	"gnetlint/core"
	"gnetlint/flow"
)

func init() {
	register(&core.Rule{ID: "C17.4", Prop: "C17", MinSites: 1,
		Desc: "reverse digit assembly (zone index -> string): when a loop fills B[i] backwards and decrements i, the slice taken afterwards starts at the first byte written (B[i+1:] for write-then-decrement, B[i:] for decrement-then-write), so no unwritten pool byte leads the zone string",
		Run: runC17_4})
}

func runC17_4(c *core.Ctx) {
	pk := c.P.Pkg("pkg/socket")
	if pk == nil {
		c.Undecided("pkg/socket", "package", 0, "package not loaded")
		return
	}
	sites := 0
	for _, d := range c.P.FuncsOf(pk) {
		obj, _ := pk.TypesInfo.Defs[d.Name].(*types.Func)
		if obj == nil || d.Body == nil {
			continue
		}
		f := &fn{P: c.P, Obj: obj, Decl: d, Info: pk.TypesInfo, Pkg: pk, Name: core.FuncName(obj)}
		// loops that write B[i] and decrement i
		ast.Inspect(d.Body, func(n ast.Node) bool {
			loop, ok := n.(*ast.ForStmt)
			if !ok {
				return true
			}
			var bufObj, idxObj types.Object
			var writePos, decPos token.Pos
			for _, st := range loop.Body.List {
				switch x := st.(type) {
				case *ast.AssignStmt:
					if len(x.Lhs) == 1 {
						if ie, ok := ast.Unparen(x.Lhs[0]).(*ast.IndexExpr); ok {
							if b, i := flow.ObjOf(f.Info, ie.X), flow.ObjOf(f.Info, ie.Index); b != nil && i != nil {
								bufObj, idxObj, writePos = b, i, x.Pos()
							}
						}
					}
				case *ast.IncDecStmt:
					if x.Tok == token.DEC {
						if o := flow.ObjOf(f.Info, x.X); o != nil && (idxObj == nil || o == idxObj) {
							if idxObj == nil {
								idxObj = o
							}
							decPos = x.Pos()
						}
					}
				}
			}
			if bufObj == nil || idxObj == nil || !writePos.IsValid() || !decPos.IsValid() {
				return true
			}
			writeFirst := writePos < decPos
			// slices of B taken after the loop with a bound in i
			ast.Inspect(d.Body, func(m ast.Node) bool {
				se, ok := m.(*ast.SliceExpr)
				if !ok || se.Pos() < loop.End() || flow.ObjOf(f.Info, se.X) != bufObj || se.Low == nil {
					return true
				}
				low := ast.Unparen(se.Low)
				plusOne := false
				if be, ok := low.(*ast.BinaryExpr); ok && be.Op == token.ADD {
					if tv, ok := f.Info.Types[be.Y]; ok && tv.Value != nil && tv.Value.String() == "1" {
						plusOne = true
						low = ast.Unparen(be.X)
					}
				}
				if flow.ObjOf(f.Info, low) != idxObj {
					return true
				}
				sites++
				construct := "slice of " + bufObj.Name() + " after the backward fill #" + itoa(sites)
				switch {
				case writeFirst && !plusOne:
					c.Violate(f.Name, construct, se.Pos(), "the loop writes "+bufObj.Name()+"["+idxObj.Name()+"] and then decrements "+idxObj.Name()+", so after the loop "+idxObj.Name()+" is one below the first byte written; "+exprStr(se)+" starts one byte early: the result carries a stale pool byte in front of the digits (zone \"999\" becomes \"\\x00999\" and no longer maps back to index 999)")
				case !writeFirst && plusOne:
					c.Violate(f.Name, construct, se.Pos(), "the loop decrements "+idxObj.Name()+" before writing, so "+exprStr(se)+" drops the first digit")
				default:
					c.Ok(f.Name, construct, se.Pos(), "the slice starts at the first byte written")
				}
				return true
			})
			return true
		})
	}
	if sites == 0 {
		c.Undecided("pkg/socket", "backward fill", 0, "no backward digit assembly found in pkg/socket: idiom not recognised")
	}
}

func init() {
	register(&core.Rule{ID: "C17.5", Prop: "C17", MinSites: 3,
		Desc: "zone strings are born unshared: every string returned by ip6ZoneToString is \"\", the Name of the interface looked up by this very call, or the result of itod – never a value read from package state – because conn.release() recycles each connection's zone bytes into the byte pool",
		Run: runC17_5})
}

func runC17_5(c *core.Ctx) {
	f := getFn(c, "pkg/socket", "ip6ZoneToString")
	if f == nil {
		return
	}
	itod := c.P.Func("pkg/socket", "itod")
	if !c.Need("itod", itod) {
		return
	}
	// variables bound from net.InterfaceByIndex in this function
	ifaceVars := map[types.Object]bool{}
	ast.Inspect(f.Decl.Body, func(n ast.Node) bool {
		if as, ok := n.(*ast.AssignStmt); ok && len(as.Rhs) == 1 && len(as.Lhs) == 2 {
			if call, ok := ast.Unparen(as.Rhs[0]).(*ast.CallExpr); ok && flow.IsPkgFunc(f.Info, call, "net", "InterfaceByIndex") {
				if o := flow.ObjOf(f.Info, as.Lhs[0]); o != nil {
					ifaceVars[o] = true
				}
			}
		}
		return true
	})
	k := 0
	ast.Inspect(f.Decl.Body, func(n ast.Node) bool {
		if _, ok := n.(*ast.FuncLit); ok {
			return false
		}
		r, ok := n.(*ast.ReturnStmt)
		if !ok || len(r.Results) != 1 {
			return true
		}
		k++
		e := ast.Unparen(r.Results[0])
		construct := "return #" + itoa(k) + " provenance"
		okk := false
		if tv, ok := f.Info.Types[e]; ok && tv.Value != nil {
			okk = true // constant
		}
		if sel, ok := e.(*ast.SelectorExpr); ok && sel.Sel.Name == "Name" && ifaceVars[flow.ObjOf(f.Info, sel.X)] {
			okk = true
		}
		if call, ok := e.(*ast.CallExpr); ok && flow.IsCall(f.Info, call, itod) {
			okk = true
		}
		c.Check(okk, f.Name, construct, r.Pos(), "constant, fresh interface name or itod()",
			"ip6ZoneToString returns "+exprStr(e)+", which is not a string created for this call: connections would share one zone string, and the first of them to be released hands its memory to the byte pool while the others (and the source it came from) still point at it – their RemoteAddr/LocalAddr zone is overwritten by the next small allocation")
		return true
	})
	// no other writer hands Zone strings to the conversion results
	for _, name := range []string{"SockaddrToTCPOrUnixAddr", "SockaddrToUDPAddr"} {
		g := getFn(c, "pkg/socket", name)
		if g == nil {
			continue
		}
		ast.Inspect(g.Decl.Body, func(n ast.Node) bool {
			kv, ok := n.(*ast.KeyValueExpr)
			if !ok {
				return true
			}
			if id, ok := kv.Key.(*ast.Ident); ok && id.Name == "Zone" {
				call, isCall := ast.Unparen(kv.Value).(*ast.CallExpr)
				c.Check(isCall && flow.IsCall(g.Info, call, f.Obj), g.Name, "Zone field source", kv.Pos(), "Zone: ip6ZoneToString(...)",
					"the Zone of a converted address no longer comes from ip6ZoneToString: its ownership (recycled by conn.release) is unknown")
			}
			return true
		})
	}
}
