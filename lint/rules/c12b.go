package rules

import (
	"go/ast"
	"go/token"
	"go/types"

	"gnetlint/core"
	"gnetlint/flow"
)

func init() {
	register(&core.Rule{ID: "C12.7", Prop: "C12", MinSites: 3,
		Desc: "stored or pooled, never both: a local slice (or a sub-slice of it) that was stored into a struct/node or handed to a retaining function since its last assignment is not returned to the pool",
		Run:  runC12_7})
}

// retains reports whether the i-th parameter of a module function is kept beyond the call: stored
// into a field, a composite literal or a container, directly or through a sub-slice.
func retainsParam(c *core.Ctx, callee *types.Func, i int, depth int) bool {
	f := fnOf(c, callee)
	if f == nil || f.Decl.Body == nil || depth > 2 {
		return false
	}
	sig := callee.Type().(*types.Signature)
	if i >= sig.Params().Len() {
		return false
	}
	pv := sig.Params().At(i)
	kept := false
	ast.Inspect(f.Decl.Body, func(n ast.Node) bool {
		if kept {
			return false
		}
		kept = storesVar(c, f, n, pv, depth)
		return true
	})
	return kept
}

// baseVar strips slicing and parentheses: b, b[:m], (b)[i:j] -> b.
func baseVar(info *types.Info, e ast.Expr) *types.Var {
	for {
		switch x := ast.Unparen(e).(type) {
		case *ast.SliceExpr:
			e = x.X
			continue
		case *ast.Ident:
			v, _ := info.Uses[x].(*types.Var)
			return v
		}
		return nil
	}
}

// storesVar reports whether evaluating node n (not descending) stores v or a sub-slice of it.
func storesVar(c *core.Ctx, f *fn, n ast.Node, v *types.Var, depth int) bool {
	switch x := n.(type) {
	case *ast.CompositeLit:
		for _, el := range x.Elts {
			if kv, ok := el.(*ast.KeyValueExpr); ok {
				el = kv.Value
			}
			if baseVar(f.Info, el) == v {
				return true
			}
		}
	case *ast.AssignStmt:
		for k, r := range x.Rhs {
			if baseVar(f.Info, r) != v || k >= len(x.Lhs) {
				continue
			}
			switch l := ast.Unparen(x.Lhs[k]).(type) {
			case *ast.SelectorExpr:
				if flow.FieldOf(f.Info, l) != nil {
					return true
				}
			case *ast.IndexExpr:
				return true
			}
		}
	case *ast.CallExpr:
		cf := flow.CalleeFunc(f.Info, x)
		if cf == nil {
			if id, ok := ast.Unparen(x.Fun).(*ast.Ident); ok && id.Name == "append" && len(x.Args) > 1 {
				// append(container, b): b becomes an element of a container of slices
				if _, isSlice := f.Info.TypeOf(x.Args[1]).Underlying().(*types.Slice); isSlice && x.Ellipsis == token.NoPos {
					for _, a := range x.Args[1:] {
						if baseVar(f.Info, a) == v {
							return true
						}
					}
				}
			}
			return false
		}
		if cf.Pkg() == nil || !isModulePkg(cf.Pkg().Path()) {
			return false
		}
		if a, _ := poolPut(f, x); a != nil {
			return false
		}
		for i, a := range x.Args {
			if baseVar(f.Info, a) == v && retainsParam(c, cf, i, depth+1) {
				return true
			}
		}
	}
	return false
}

func isModulePkg(path string) bool {
	return path == core.ModPath || len(path) > len(core.ModPath) && path[:len(core.ModPath)+1] == core.ModPath+"/"
}

func runC12_7(c *core.Ctx) {
	allFuncs(c, func(f *fn) {
		var puts []*ast.CallExpr
		for _, call := range callsIn(f.Decl.Body, false) {
			if a, kind := poolPut(f, call); a != nil && kind == "byteslice" {
				puts = append(puts, call)
			}
		}
		for k, put := range puts {
			arg, _ := poolPut(f, put)
			construct := "Put(" + exprStr(arg) + ") #" + itoa(k+1) + " not stored"
			id, ok := ast.Unparen(arg).(*ast.Ident)
			v, _ := f.Info.Uses[id].(*types.Var)
			if !ok || v == nil || v.IsField() || v.Parent() == v.Pkg().Scope() {
				continue // field holders and temporaries: C12.4/C12.6
			}
			const (
				sFree = iota
				sStored
			)
			var bad token.Pos
			au := &flow.Auto{Start: sFree}
			au.Node = func(b *flow.Block, i int, n ast.Node, s int) int {
				flow.Events(n, func(x ast.Node) {
					switch y := x.(type) {
					case *ast.CallExpr:
						if y == put {
							if s == sStored && bad == token.NoPos {
								bad = y.Pos()
							}
							return
						}
						if storesVar(c, f, y, v, 0) {
							s = sStored
						}
					case *ast.CompositeLit:
						if storesVar(c, f, y, v, 0) {
							s = sStored
						}
					case *ast.AssignStmt:
						if storesVar(c, f, y, v, 0) {
							s = sStored
						}
						for _, l := range y.Lhs {
							if lid, ok := ast.Unparen(l).(*ast.Ident); ok && (f.Info.Uses[lid] == v || f.Info.Defs[lid] == v) {
								s = sFree
							}
						}
					}
				})
				return s
			}
			f.Graph().Run(au)
			if bad != token.NoPos {
				c.Violate(f.Name, construct, bad, exprStr(arg)+" (or a sub-slice of it) was stored since it was last assigned and is returned to the pool as well: the next Get of that size class hands the same memory to another owner, which overwrites the stored bytes")
				continue
			}
			c.Ok(f.Name, construct, put.Pos(), "on no path is the slice both stored and pooled")
		}
	})
}

func init() {
	register(&core.Rule{ID: "C12.12", Prop: "C12", MinSites: 1,
		Desc: "conn.cache is Peek's scratch only: the field whose content the next Discard (and release) hands to the byte pool receives a non-nil slice in conn.Peek alone – Peek's result is documented to be valid until the next Discard, whereas Next/Read/… hand out slices the caller keeps for the whole callback; parking such a slice in c.cache pools memory the application still owns",
		Run:  runC12_12})
}

func runC12_12(c *core.Ctx) {
	v := vocabOf(c)
	if v == nil {
		return
	}
	cacheF := c.P.Field("", "conn", "cache")
	peek := c.P.Func("", "conn.Peek")
	if !c.Need("conn.cache", cacheF) || !c.Need("conn.Peek", peek) {
		return
	}
	n := 0
	for _, f := range v.funcs {
		ast.Inspect(f.Decl.Body, func(x ast.Node) bool {
			as, ok := x.(*ast.AssignStmt)
			if !ok {
				return true
			}
			for k, l := range as.Lhs {
				if flow.FieldOf(f.Info, l) != cacheF {
					continue
				}
				n++
				isNil := len(as.Lhs) == len(as.Rhs) && flow.IsNil(f.Info, as.Rhs[k])
				c.Check(isNil || f.Obj == peek, f.Name, "c.cache assigned #"+itoa(n), as.Pos(), "only Peek parks a slice in the cache; everyone else clears it",
					nameOf(f.Obj)+" stores a slice in c.cache, which the next Discard hands to the byte pool: unlike Peek's, the slice this function gives its caller stays in the caller's hands, so the pool recycles memory the application still reads – the next Get of that size class overwrites it")
			}
			return true
		})
	}
	if n == 0 {
		c.Violate("gnet.conn", "c.cache assignments", token.NoPos, "conn.cache is never assigned: the rule lost its subject")
	}
}
