package rules

import (
	"go/ast"
	"go/constant"
	"go/token"
	"go/types"

	"gnetlint/core"
	"gnetlint/flow"
)

func init() {
	register(&core.Rule{ID: "C09.7", Prop: "C09", MinSites: 6,
		Desc: "settle what was handed out: after an external Write(rb.buf[..]) / Read(rb.buf[..]) bound its count m, every path to a return or to the next such call first moves the cursor (rb.r for a writer, rb.w for a reader) by an expression in m – also on the error path, where a partial count has been consumed/stored all the same",
		Run:  runC09_7})
}

func runC09_7(c *core.Ctx) {
	a := ringAnchors(c)
	if a == nil {
		return
	}
	mentions := func(f *fn, e ast.Expr, v types.Object) bool {
		found := false
		ast.Inspect(e, func(n ast.Node) bool {
			if id, ok := n.(*ast.Ident); ok && f.Info.Uses[id] == v {
				found = true
			}
			return true
		})
		return found
	}
	for _, f := range a.funcs {
		type site struct {
			call   *ast.CallExpr
			cnt    types.Object
			cursor *types.Var
			kind   string
		}
		var sites []site
		ast.Inspect(f.Decl.Body, func(n ast.Node) bool {
			as, ok := n.(*ast.AssignStmt)
			if !ok || len(as.Rhs) != 1 || len(as.Lhs) != 2 {
				return true
			}
			call, ok := ast.Unparen(as.Rhs[0]).(*ast.CallExpr)
			if !ok || len(call.Args) != 1 {
				return true
			}
			se, ok := ast.Unparen(call.Args[0]).(*ast.SliceExpr)
			if !ok || flow.FieldOf(f.Info, se.X) != a.buf {
				return true
			}
			cf := flow.CalleeFunc(f.Info, call)
			if cf == nil || cf.Pkg() == nil || cf.Pkg().Path() != "io" {
				return true
			}
			var cur *types.Var
			switch nameOf(cf) {
			case "Write":
				cur = a.r
			case "Read":
				cur = a.w
			default:
				return true
			}
			if obj := flow.ObjOf(f.Info, as.Lhs[0]); obj != nil {
				sites = append(sites, site{call, obj, cur, cf.Name()})
			}
			return true
		})
		for k, s := range sites {
			s := s
			cntVars := taintedBy(f.Info, f.Decl.Body, s.cnt)
			construct := s.kind + "(rb.buf[…]) #" + itoa(k+1) + " settled"
			const (
				sIdle = iota
				sOwed
				sOwedFull // owed, and the count was tested to cover the whole extent size - cursor that was offered
			)
			extent := sizeMinusCursorVars(a, f, s.cursor)
			isSite := func(call *ast.CallExpr) bool {
				for _, o := range sites {
					if o.call == call {
						return true
					}
				}
				return false
			}
			var bad token.Pos
			var why string
			record := false
			au := &flow.Auto{Start: sIdle}
			au.Node = func(b *flow.Block, i int, n ast.Node, st int) int {
				flow.Events(n, func(x ast.Node) {
					switch y := x.(type) {
					case *ast.CallExpr:
						if y == s.call {
							st = sOwed
							return
						}
						if st != sIdle && isSite(y) && record && bad == token.NoPos {
							bad, why = y.Pos(), "the next transfer starts while the count of this one has not been applied to the cursor"
						}
						if flow.IsCall(f.Info, y, a.reset) {
							st = sIdle
						}
					case *ast.AssignStmt:
						for j, l := range y.Lhs {
							if flow.FieldOf(f.Info, l) != s.cursor {
								continue
							}
							rhs := y.Rhs[0]
							if j < len(y.Rhs) {
								rhs = y.Rhs[j]
							}
							if tv, ok := f.Info.Types[ast.Unparen(rhs)]; ok && tv.Value != nil && tv.Value.String() == "0" && st == sOwedFull && y.Tok == token.ASSIGN {
								st = sIdle // cursor + (size - cursor) wraps to 0
							}
							for cv := range cntVars {
								if mentions(f, rhs, cv) {
									st = sIdle
								}
							}
						}
					}
				})
				return st
			}
			au.Edge = func(e *flow.Edge, st int) int {
				if st != sOwed || e.Cond == nil || e.Tag != nil {
					return st
				}
				x, y, op, ok := flow.Cmp(e.Cond)
				if !ok {
					return st
				}
				xo, yo := flow.ObjOf(f.Info, x), flow.ObjOf(f.Info, y)
				if bv, isVar := xo.(*types.Var); isVar && extent[bv] != nil {
					xo, yo = yo, xo
					switch op {
					case token.LSS:
						op = token.GTR
					case token.GTR:
						op = token.LSS
					case token.LEQ:
						op = token.GEQ
					case token.GEQ:
						op = token.LEQ
					}
				}
				bv, isVar := yo.(*types.Var)
				if !isVar || extent[bv] == nil || xo == nil || !cntVars[xo] {
					return st
				}
				if (op == token.LSS && !e.Sense) || (op == token.GEQ && e.Sense) || (op == token.EQL && e.Sense) {
					return sOwedFull
				}
				return st
			}
			g := f.Graph()
			sol := g.Run(au)
			record = true
			for _, b := range g.Blocks {
				if !sol.Seen[b.ID] {
					continue
				}
				for _, s0 := range flow.States(sol.In[b.ID]) {
					st := s0
					for i, n := range b.Nodes {
						st = au.Node(b, i, n, st)
					}
					if b.Return != nil && st != sIdle && bad == token.NoPos {
						bad, why = b.Return.Pos(), "a return is reachable after the transfer without the cursor having been moved by its count"
					}
				}
			}
			record = false
			if bad != token.NoPos {
				what := "the bytes the writer accepted stay in the buffer and are delivered a second time"
				if s.kind == "Read" {
					what = "the bytes the reader stored are not accounted for and are overwritten or lost"
				}
				c.Violate(f.Name, construct, bad, why+": "+what)
				continue
			}
			c.Ok(f.Name, construct, s.call.Pos(), "the cursor is moved by the bound count on every path")
		}
	}
}

func init() {
	register(&core.Rule{ID: "C09.8", Prop: "C09", MinSites: 2,
		Desc: "a reader is never offered unread bytes: the destination rb.buf[rb.w:…] of an external Read is open-ended only where rb.w >= rb.r is established (the free space runs to the physical end); otherwise it ends at rb.r",
		Run:  runC09_8})
}

func runC09_8(c *core.Ctx) {
	a := ringAnchors(c)
	if a == nil {
		return
	}
	for _, f := range a.funcs {
		g := f.Graph()
		const (
			fWGeR = 1 << iota // w >= r established, or the destination variable was cut to r-w bytes
		)
		// local destination variables: v := rb.buf[rb.w:…]
		type dest struct {
			low, high ast.Expr
		}
		locals := map[types.Object]dest{}
		ast.Inspect(f.Decl.Body, func(n ast.Node) bool {
			as, ok := n.(*ast.AssignStmt)
			if !ok || len(as.Lhs) != len(as.Rhs) {
				return true
			}
			for i, r := range as.Rhs {
				if se, ok := ast.Unparen(r).(*ast.SliceExpr); ok && flow.FieldOf(f.Info, se.X) == a.buf {
					if o := flow.ObjOf(f.Info, as.Lhs[i]); o != nil {
						locals[o] = dest{se.Low, se.High}
					}
				}
			}
			return true
		})
		isRminusW := func(e ast.Expr) bool {
			lf := linForm{}
			linOf(f.Info, e, 1, lf, nil)
			rk, wk := "", ""
			for k := range lf {
				_ = k
			}
			// keys are printed expressions: find the ones that are rb.r / rb.w by re-walking the terms
			var terms []struct {
				e    ast.Expr
				sign int
			}
			addTerms(e, 1, &terms)
			cr, cw, other := 0, 0, 0
			for _, t := range terms {
				switch flow.FieldOf(f.Info, t.e) {
				case a.r:
					cr += t.sign
				case a.w:
					cw += t.sign
				default:
					other++
				}
			}
			_, _ = rk, wk
			return cr == 1 && cw == -1 && other == 0
		}
		var badReslice ast.Node
		var badWhy string
		p := &flow.Problem{Must: true}
		p.Node = func(b *flow.Block, i int, n ast.Node, in uint64) uint64 {
			for _, l := range flow.Assigned(n) {
				if fl := flow.FieldOf(f.Info, l); fl == a.r || fl == a.w {
					in = 0
				}
			}
			for _, call := range flow.Calls(n) {
				if flow.IsCall(f.Info, call, a.grow) || flow.IsCall(f.Info, call, a.reset) {
					in = 0
				}
			}
			if as, ok := n.(*ast.AssignStmt); ok && len(as.Lhs) == len(as.Rhs) {
				for i2, r := range as.Rhs {
					o := flow.ObjOf(f.Info, as.Lhs[i2])
					if _, isLocal := locals[o]; !isLocal || o == nil {
						continue
					}
					se, ok := ast.Unparen(r).(*ast.SliceExpr)
					if !ok {
						continue
					}
					if flow.FieldOf(f.Info, se.X) == a.buf {
						// (re)defined from the array: what is known about the cursors stays
						if se.High != nil && flow.FieldOf(f.Info, se.High) == a.r {
							in |= fWGeR
						}
						continue
					}
					if flow.ObjOf(f.Info, se.X) == o && se.Low == nil && se.High != nil {
						// v = v[:K]: K counts from v's own start, which is rb.w
						if isRminusW(se.High) {
							in |= fWGeR // one fact for "the destination cannot reach unread bytes": it meets the w >= r branch at the join
						} else if badReslice == nil {
							badReslice = as
							badWhy = "the destination " + o.Name() + " starts at rb.w and is cut with " + exprStr(r) + ": the bound counts from rb.w, so the slice ends at rb.w+" + exprStr(se.High) + " instead of rb.r (it has to be cut to rb.r-rb.w bytes)"
						}
					}
				}
			}
			return in
		}
		p.Edge = func(e *flow.Edge, in uint64) uint64 {
			if e.Cond == nil || e.Tag != nil {
				return in
			}
			x, y, op, ok := flow.Cmp(e.Cond)
			if !ok {
				return in
			}
			xw, xr := flow.FieldOf(f.Info, x) == a.w, flow.FieldOf(f.Info, x) == a.r
			yw, yr := flow.FieldOf(f.Info, y) == a.w, flow.FieldOf(f.Info, y) == a.r
			switch {
			case xw && yr: // w OP r
				if (op == token.GEQ && e.Sense) || (op == token.LSS && !e.Sense) || (op == token.GTR && e.Sense) || (op == token.EQL && e.Sense) {
					in |= fWGeR
				}
			case xr && yw: // r OP w
				if (op == token.LEQ && e.Sense) || (op == token.GTR && !e.Sense) || (op == token.LSS && e.Sense) || (op == token.EQL && e.Sense) {
					in |= fWGeR
				}
			}
			return in
		}
		sol := g.Solve(p)
		k := 0
		sol.Walk(func(b *flow.Block, i int, n ast.Node, before uint64) {
			for _, call := range flow.Calls(n) {
				if len(call.Args) != 1 {
					continue
				}
				cf := flow.CalleeFunc(f.Info, call)
				if cf == nil || cf.Pkg() == nil || cf.Pkg().Path() != "io" || nameOf(cf) != "Read" {
					continue
				}
				var low, high ast.Expr
				var what string
				viaLocal := false
				if se, ok := ast.Unparen(call.Args[0]).(*ast.SliceExpr); ok && flow.FieldOf(f.Info, se.X) == a.buf {
					low, high, what = se.Low, se.High, exprStr(se)
				} else if d, ok := locals[flow.ObjOf(f.Info, call.Args[0])]; ok {
					low, high, what, viaLocal = d.low, d.high, exprStr(call.Args[0]), true
				} else {
					continue
				}
				k++
				construct := "Read destination #" + itoa(k) + " bounded"
				switch {
				case low == nil || flow.FieldOf(f.Info, low) != a.w:
					c.Violate(f.Name, construct, call.Args[0].Pos(), "the destination "+what+" of an external Read does not start at rb.w")
				case badReslice != nil && viaLocal:
					c.Violate(f.Name, construct, badReslice.Pos(), badWhy+": the reader is offered unread bytes, overwrites them, and rb.w moves past rb.r")
				case high != nil && flow.FieldOf(f.Info, high) == a.r:
					c.Ok(f.Name, construct, call.Args[0].Pos(), "ends at rb.r")
				case high == nil && before&fWGeR != 0:
					c.Ok(f.Name, construct, call.Args[0].Pos(), "open-ended under rb.w >= rb.r, or cut to rb.r-rb.w bytes where the cursor has wrapped")
				default:
					c.Violate(f.Name, construct, call.Args[0].Pos(), "the reader is offered "+what+" where rb.w >= rb.r is not established: when the write cursor has wrapped in front of the read cursor this slice covers the unread bytes rb.buf[rb.r:], which the reader overwrites, and rb.w moves past rb.r (Buffered() collapses, earlier bytes are lost)")
				}
			}
		})
	}
}

func init() {
	register(&core.Rule{ID: "C09.9", Prop: "C09", MinSites: 12,
		Desc: "cursor arithmetic has a meaning: every expression built only from rb.r, rb.w and rb.size is one of w-r (readable, under w > r), r-w (free, under w < r), size-r, size-w, size-r+w (readable, under w <= r), size-w+r (free, under w >= r), as a linear form, on a path where that region is established; anything else (w+r, size-r-w, …) is not a length of this ring",
		Run:  runC09_9})
}

func runC09_9(c *core.Ctx) {
	a := ringAnchors(c)
	if a == nil {
		return
	}
	const (
		fLIN    = 1 << iota // w > r
		fLINEQ              // w >= r
		fWRAP               // w < r
		fWRAPEQ             // w <= r
		fNE                 // w != r
	)
	for _, f := range a.funcs {
		if f.Obj == a.grow {
			continue // grow rebuilds the cursors, C09.1/C09.6
		}
		fieldKind := func(e ast.Expr) int { return ringFieldKind(a, f, e) }
		sol := ringRegions(a, f)
		k := 0
		sol.Walk(func(b *flow.Block, i int, n ast.Node, before uint64) {
			// maximal additive expressions
			var visit func(x ast.Node, parentAdditive bool)
			check := func(e ast.Expr) {
				var terms []struct {
					e    ast.Expr
					sign int
				}
				addTerms(e, 1, &terms)
				cr, cw, cs, fields := 0, 0, 0, 0
				for _, t := range terms {
					switch fieldKind(t.e) {
					case 1:
						cr += t.sign
						fields++
					case 2:
						cw += t.sign
						fields++
					case 3:
						cs += t.sign
						fields++
					default:
						if tv, ok := f.Info.Types[t.e]; ok && tv.Value != nil {
							continue
						}
						return // mixed with other variables: not a pure cursor form
					}
				}
				if fields < 2 {
					return
				}
				k++
				construct := "cursor form #" + itoa(k) + " " + exprStr(e)
				need, name := uint64(0), ""
				switch [3]int{cr, cw, cs} {
				case [3]int{-1, 1, 0}:
					need, name = fLIN, "w-r needs w > r"
				case [3]int{1, -1, 0}:
					need, name = fWRAP, "r-w needs w < r"
				case [3]int{-1, 0, 1}, [3]int{0, -1, 1}:
					c.Ok(f.Name, construct, e.Pos(), "distance to the physical end")
					return
				case [3]int{-1, 1, 1}:
					need, name = fWRAPEQ, "size-r+w needs w <= r"
				case [3]int{1, -1, 1}:
					need, name = fLINEQ, "size-w+r needs w >= r"
				default:
					c.Violate(f.Name, construct, e.Pos(), exprStr(e)+" is not a length or distance of this ring (known forms: w-r, r-w, size-r, size-w, size-r+w, size-w+r): a sign was flipped or a cursor dropped")
					return
				}
				c.Check(before&need != 0, f.Name, construct, e.Pos(), name+": established",
					exprStr(e)+" is used where its region is not established ("+name+"): on the other side of the wrap it is negative or off by the capacity", sol.Witness(b, need)...)
			}
			visit = func(x ast.Node, parentAdditive bool) {
				switch y := x.(type) {
				case nil:
					return
				case *ast.FuncLit:
					return
				case *ast.ParenExpr:
					visit(y.X, parentAdditive)
					return
				case *ast.BinaryExpr:
					if y.Op == token.ADD || y.Op == token.SUB {
						if !parentAdditive {
							check(y)
						}
						visit(y.X, true)
						visit(y.Y, true)
						return
					}
				}
				ast.Inspect(x, func(z ast.Node) bool {
					if z == x {
						return true
					}
					if z != nil {
						if e, ok := z.(ast.Expr); ok {
							visit(e, false)
							return false
						}
					}
					return true
				})
			}
			visit(n, false)
		})
	}
}

const (
	ringLIN    = 1 << iota // w > r
	ringLINEQ              // w >= r
	ringWRAP               // w < r
	ringWRAPEQ             // w <= r
	ringNE                 // w != r
)

// ringFieldKind: 1 = rb.r, 2 = rb.w, 3 = rb.size, 0 = anything else.
func ringFieldKind(a *ringAnch, f *fn, e ast.Expr) int {
	switch flow.FieldOf(f.Info, e) {
	case a.r:
		return 1
	case a.w:
		return 2
	case a.size:
		return 3
	}
	return 0
}

// ringRegions solves the must-facts about the relative position of the two cursors.
func ringRegions(a *ringAnch, f *fn) *flow.Solution {
	const (
		fLIN    = ringLIN
		fLINEQ  = ringLINEQ
		fWRAP   = ringWRAP
		fWRAPEQ = ringWRAPEQ
		fNE     = ringNE
	)
	g := f.Graph()
	fieldKind := func(e ast.Expr) int { return ringFieldKind(a, f, e) }
	p := &flow.Problem{Must: true}
	p.Node = func(b *flow.Block, i int, n ast.Node, in uint64) uint64 {
		for _, l := range flow.Assigned(n) {
			if k := fieldKind(l); k == 1 || k == 2 {
				in = 0
			}
		}
		for _, call := range flow.Calls(n) {
			if flow.IsCall(f.Info, call, a.grow) || flow.IsCall(f.Info, call, a.reset) {
				in = 0
			}
		}
		return in
	}
	p.Edge = func(e *flow.Edge, in uint64) uint64 {
		if e.Cond == nil || e.Tag != nil {
			return in
		}
		x, y, op, ok := flow.Cmp(e.Cond)
		if !ok {
			return in
		}
		kx, ky := fieldKind(x), fieldKind(y)
		if kx == 1 && ky == 2 { // r OP w  ==  w OP' r
			kx, ky = ky, kx
			switch op {
			case token.LSS:
				op = token.GTR
			case token.LEQ:
				op = token.GEQ
			case token.GTR:
				op = token.LSS
			case token.GEQ:
				op = token.LEQ
			}
		}
		if kx != 2 || ky != 1 {
			return in
		}
		t := e.Sense
		switch op {
		case token.GTR:
			if t {
				in |= fLIN | fLINEQ | fNE
			} else {
				in |= fWRAPEQ
			}
		case token.GEQ:
			if t {
				in |= fLINEQ
			} else {
				in |= fWRAP | fWRAPEQ | fNE
			}
		case token.LSS:
			if t {
				in |= fWRAP | fWRAPEQ | fNE
			} else {
				in |= fLINEQ
			}
		case token.LEQ:
			if t {
				in |= fWRAPEQ
			} else {
				in |= fLIN | fLINEQ | fNE
			}
		case token.EQL:
			if t {
				in |= fLINEQ | fWRAPEQ
			} else {
				in |= fNE
			}
		}
		if in&fNE != 0 {
			if in&fLINEQ != 0 {
				in |= fLIN
			}
			if in&fWRAPEQ != 0 {
				in |= fWRAP
			}
		}
		return in
	}
	return g.Solve(p)
}

func init() {
	register(&core.Rule{ID: "C09.11", Prop: "C09", MinSites: 6,
		Desc: "a cursor never rests at size: every `rb.r += k` / `rb.r++` (likewise rb.w) is either made where the cursor is known to stay below the other one (r under w > r, w under w < r), or is followed on every path to a return by a wrap that covers equality – `% rb.size`, `== rb.size → 0`, `>= rb.size → -= rb.size`, Reset or grow; a wrap guarded by `>` leaves r == size, which ReadByte indexes and which Buffered/IsFull misread as empty",
		Run:  runC09_11})
}

func runC09_11(c *core.Ctx) {
	a := ringAnchors(c)
	if a == nil {
		return
	}
	for _, f := range a.funcs {
		if f.Obj == a.grow || f.Obj == a.reset {
			continue
		}
		regions := ringRegions(a, f)
		regionAt := map[ast.Node]uint64{}
		regions.Walk(func(b *flow.Block, i int, n ast.Node, before uint64) { regionAt[n] = before })
		type inc struct {
			node ast.Node
			cur  *types.Var
			kind int
		}
		var incs []inc
		ast.Inspect(f.Decl.Body, func(n ast.Node) bool {
			switch x := n.(type) {
			case *ast.FuncLit:
				return false
			case *ast.IncDecStmt:
				if x.Tok == token.INC {
					if k := ringFieldKind(a, f, x.X); k == 1 || k == 2 {
						incs = append(incs, inc{x, flow.FieldOf(f.Info, x.X), k})
					}
				}
			case *ast.AssignStmt:
				if x.Tok == token.ADD_ASSIGN && len(x.Lhs) == 1 {
					if k := ringFieldKind(a, f, x.Lhs[0]); k == 1 || k == 2 {
						incs = append(incs, inc{x, flow.FieldOf(f.Info, x.Lhs[0]), k})
					}
				}
			}
			return true
		})
		// relative assignments `cursor = f(cursor, …)`: the only accepted wrap is `% rb.size` over the whole sum
		// (a mask presumes a power-of-two capacity, which growth beyond 4 KiB and large single writes break)
		rel := 0
		ast.Inspect(f.Decl.Body, func(n ast.Node) bool {
			as, ok := n.(*ast.AssignStmt)
			if !ok || as.Tok != token.ASSIGN || len(as.Lhs) != len(as.Rhs) {
				return true
			}
			for k, l := range as.Lhs {
				kind := ringFieldKind(a, f, l)
				if kind != 1 && kind != 2 {
					continue
				}
				self := false
				ast.Inspect(as.Rhs[k], func(m ast.Node) bool {
					if e, ok := m.(ast.Expr); ok && ringFieldKind(a, f, e) == kind {
						self = true
					}
					return true
				})
				if !self {
					continue
				}
				rel++
				be, isRem := ast.Unparen(as.Rhs[k]).(*ast.BinaryExpr)
				okk := isRem && be.Op == token.REM && flow.FieldOf(f.Info, be.Y) == a.size
				if okk {
					// the sum under the modulo moves the cursor forward: every term is added
					var terms []struct {
						e    ast.Expr
						sign int
					}
					addTerms(be.X, 1, &terms)
					for _, t := range terms {
						if t.sign < 0 {
							okk = false
						}
					}
				}
				c.Check(okk, f.Name, "relative cursor assignment #"+itoa(rel)+" wraps modulo size", as.Pos(), "(cursor + k) % rb.size",
					exprStr(l)+" = "+exprStr(as.Rhs[k])+" does not advance the cursor by a sum reduced modulo rb.size (a subtraction moves it backwards onto bytes already consumed or not yet written; (a bit mask only works while the capacity is a power of two; the ring grows by a quarter above 4 KiB and to arbitrary sizes on large writes): the cursor lands on a wrong index, Buffered()/Bytes() then describe other bytes than the ones written")
			}
			return true
		})
		for i, in := range incs {
			in := in
			name := "rb.r"
			need := uint64(ringLIN)
			if in.kind == 2 {
				name = "rb.w"
				need = ringWRAP
			}
			construct := name + " advance #" + itoa(i+1) + " wraps"
			if regionAt[in.node]&need != 0 {
				c.Ok(f.Name, construct, in.node.Pos(), "made where the cursor stays below the other cursor")
				continue
			}
			if advanceBelowSize(a, f, in.node, in.cur) {
				c.Ok(f.Name, construct, in.node.Pos(), "the step is tested to be smaller than size - cursor on every path")
				continue
			}
			const (
				sIdle = iota
				sOwed
			)
			isCur := func(e ast.Expr) bool { return flow.FieldOf(f.Info, e) == in.cur }
			au := &flow.Auto{Start: sIdle}
			au.Node = func(b *flow.Block, j int, n ast.Node, st int) int {
				if n == in.node {
					return sOwed
				}
				if st != sOwed {
					return st
				}
				if as, ok := n.(*ast.AssignStmt); ok && as.Tok == token.ASSIGN {
					for k, l := range as.Lhs {
						if !isCur(l) || k >= len(as.Rhs) {
							continue
						}
						r := ast.Unparen(as.Rhs[k])
						if tv, ok := f.Info.Types[r]; ok && tv.Value != nil && tv.Value.String() == "0" {
							return sIdle
						}
						if be, ok := r.(*ast.BinaryExpr); ok && be.Op == token.REM && flow.FieldOf(f.Info, be.Y) == a.size {
							return sIdle
						}
					}
				}
				for _, call := range flow.Calls(n) {
					if flow.IsCall(f.Info, call, a.reset) || flow.IsCall(f.Info, call, a.grow) {
						return sIdle
					}
				}
				return st
			}
			au.Edge = func(e *flow.Edge, st int) int {
				if st != sOwed || e.Cond == nil || e.Tag != nil {
					return st
				}
				x, y, op, ok := flow.Cmp(e.Cond)
				if !ok {
					return st
				}
				if isCur(y) && flow.FieldOf(f.Info, x) == a.size {
					x, y = y, x
					switch op {
					case token.LEQ:
						op = token.GEQ
					case token.GEQ:
						op = token.LEQ
					case token.LSS:
						op = token.GTR
					case token.GTR:
						op = token.LSS
					}
				}
				if isCur(x) && flow.FieldOf(f.Info, y) == a.size {
					switch op {
					case token.EQL, token.GEQ, token.LSS:
						return sIdle // both outcomes of a test that separates c == size from c < size
					}
				}
				return st
			}
			sol := f.Graph().Run(au)
			bad := token.NoPos
			sol.AtExit(func(b *flow.Block, _ uint64) {
				if sol.Out(b)&(1<<sOwed) != 0 && bad == token.NoPos {
					bad = b.Return.Pos()
				}
			})
			c.Check(bad == token.NoPos, f.Name, construct, in.node.Pos(), "followed by a wrap that covers equality on every path",
				name+" is advanced here and a return is reachable without a wrap that maps "+name+" == rb.size to 0 (only `%`, `== size`, `>= size`, Reset or grow do): the cursor can rest one past the end of the array – ReadByte/WriteByte index out of range, and with the other cursor at 0 a full buffer reads as empty")
		}
	}
}

func init() {
	register(&core.Rule{ID: "C09.12", Prop: "C09", MinSites: 6,
		Desc: "a transfer's outcome is reported: after an external Read/Write bound (m, err), every return on the edge where err is established non-nil hands back err, and in ReadFrom/WriteTo the count result is increased by m (or is m) before each return – a failed or partial transfer is neither hidden nor miscounted",
		Run:  runC09_12})
}

func runC09_12(c *core.Ctx) {
	a := ringAnchors(c)
	if a == nil {
		return
	}
	for _, f := range a.funcs {
		sig := f.Obj.Type().(*types.Signature)
		if sig.Results().Len() != 2 {
			continue
		}
		type site struct {
			as       *ast.AssignStmt
			cnt, err types.Object
			kind     string
		}
		var sites []site
		ast.Inspect(f.Decl.Body, func(n ast.Node) bool {
			as, ok := n.(*ast.AssignStmt)
			if !ok || len(as.Rhs) != 1 || len(as.Lhs) != 2 {
				return true
			}
			call, ok := ast.Unparen(as.Rhs[0]).(*ast.CallExpr)
			if !ok || len(call.Args) != 1 {
				return true
			}
			cf := flow.CalleeFunc(f.Info, call)
			if cf == nil || cf.Pkg() == nil || cf.Pkg().Path() != "io" || (nameOf(cf) != "Read" && nameOf(cf) != "Write") {
				return true
			}
			if se, ok := ast.Unparen(call.Args[0]).(*ast.SliceExpr); !ok || flow.FieldOf(f.Info, se.X) != a.buf {
				if _, isLocal := flow.ObjOf(f.Info, call.Args[0]).(*types.Var); !isLocal {
					return true
				}
			}
			co, eo := flow.ObjOf(f.Info, as.Lhs[0]), flow.ObjOf(f.Info, as.Lhs[1])
			if co != nil && eo != nil {
				sites = append(sites, site{as, co, eo, cf.Name()})
			}
			return true
		})
		for k, s := range sites {
			s := s
			const (
				sIdle = iota
				sCalled
				sFailed
				sNil
				sEOF
			)
			counted := taintedBy(f.Info, f.Decl.Body, s.cnt)
			var namedCount, namedErr types.Object
			if v := sig.Results().At(0); nameOf(v) != "" {
				namedCount = v
			}
			if v := sig.Results().At(1); nameOf(v) != "" {
				namedErr = v
			}
			isSite := func(n ast.Node) bool {
				for _, o := range sites {
					if ast.Node(o.as) == n {
						return true
					}
				}
				return false
			}
			type bad struct {
				pos token.Pos
				msg string
			}
			var bads []bad
			// state: phase (2 bits) | countAdded<<2
			au := &flow.Auto{Start: sIdle}
			au.Node = func(b *flow.Block, i int, n ast.Node, st int) int {
				phase, added := st&7, st>>3
				if (n == ast.Node(s.as) || isSite(n)) && phase == sFailed {
					// states only ever grow while solving: a state seen here is reachable
					bads = append(bads, bad{n.Pos(), "another transfer is started on the path where " + s.err.Name() + " of this one is established non-nil: the failure does not end the operation (a reader or writer that keeps failing keeps the loop going, and its error is overwritten by the next call)"})
				}
				if n == ast.Node(s.as) {
					return sCalled
				}
				if isSite(n) {
					return sIdle // a later transfer: its own site judges it
				}
				if phase == sIdle {
					return st
				}
				if as, ok := n.(*ast.AssignStmt); ok {
					for idx, l := range as.Lhs {
						lo := flow.ObjOf(f.Info, l)
						if lo == s.err && n != ast.Node(s.as) {
							phase = sIdle // the error variable was reassigned: a new story
						}
						if lo != nil && (lo == namedCount || counted[lo]) && lo != s.cnt {
							rhs := as.Rhs[0]
							if idx < len(as.Rhs) {
								rhs = as.Rhs[idx]
							}
							ast.Inspect(rhs, func(m ast.Node) bool {
								if id, ok := m.(*ast.Ident); ok && counted[f.Info.Uses[id]] {
									added = 1
								}
								return true
							})
						}
					}
				}
				return phase | added<<3
			}
			au.Edge = func(e *flow.Edge, st int) int {
				phase, added := st&7, st>>3
				if (phase != sCalled) || e.Cond == nil || e.Tag != nil {
					return st
				}
				if x, y, op, ok := flow.Cmp(e.Cond); ok && flow.ObjOf(f.Info, x) == s.err {
					switch {
					case flow.IsNil(f.Info, y):
						if (op == token.NEQ) == e.Sense {
							phase = sFailed
						} else {
							phase = sNil
						}
					case exprStr(y) == "io.EOF" && (op == token.EQL) == e.Sense:
						phase = sEOF
					}
				}
				return phase | added<<3
			}
			sol := f.Graph().Run(au)
			sol.AtExit(func(b *flow.Block, _ uint64) {
				for _, st := range flow.States(sol.Out(b)) {
					phase, added := st&7, st>>3
					if phase == sIdle {
						continue
					}
					r := b.Return
					// the count
					countOK := added == 1
					if len(r.Results) == 2 {
						ast.Inspect(r.Results[0], func(m ast.Node) bool {
							if id, ok := m.(*ast.Ident); ok && counted[f.Info.Uses[id]] {
								countOK = true
							}
							return true
						})
					}
					if !countOK && s.kind != "" {
						bads = append(bads, bad{r.Pos(), "a return after this transfer reports a count that does not include " + s.cnt.Name() + ", the bytes just moved"})
					}
					if len(r.Results) == 2 && flow.IsNil(f.Info, r.Results[1]) && phase != sNil && phase != sEOF {
						bads = append(bads, bad{r.Pos(), "a return after this transfer reports a nil error although " + s.err.Name() + " is not established nil (or io.EOF) on this path: a failed transfer is reported as a success"})
					}
					if phase == sFailed {
						errOK := false
						if len(r.Results) == 0 {
							errOK = namedErr != nil && namedErr == s.err
						} else if len(r.Results) == 2 {
							ast.Inspect(r.Results[1], func(m ast.Node) bool {
								if id, ok := m.(*ast.Ident); ok && f.Info.Uses[id] == s.err {
									errOK = true
								}
								return true
							})
						}
						if !errOK {
							bads = append(bads, bad{r.Pos(), "a return on the failure edge of this transfer does not hand back " + s.err.Name() + ": the caller takes a failed transfer for a complete one"})
						}
					}
				}
			})
			construct := s.kind + " #" + itoa(k+1) + " outcome reported"
			if len(bads) > 0 {
				c.Violate(f.Name, construct, bads[0].pos, bads[0].msg)
				continue
			}
			c.Ok(f.Name, construct, s.as.Pos(), "count and error reach the caller on every return that follows")
		}
	}
}

// advanceBelowSize accepts `cursor += x` when, on every path into it, x was tested to be
// smaller than a variable that still holds rb.size - cursor: the sum stays below size.
func advanceBelowSize(a *ringAnch, f *fn, node ast.Node, cur *types.Var) bool {
	as, ok := node.(*ast.AssignStmt)
	if !ok || as.Tok != token.ADD_ASSIGN || len(as.Rhs) != 1 {
		return false
	}
	step, _ := flow.ObjOf(f.Info, as.Rhs[0]).(*types.Var)
	if step == nil {
		return false
	}
	isCur := func(e ast.Expr) bool { return flow.FieldOf(f.Info, e) == cur }
	bounds := sizeMinusCursorVars(a, f, cur)
	if len(bounds) == 0 {
		return false
	}
	for bv, def := range bounds {
		const (
			fDef  = 1 << iota // bv == size - cursor
			fLess             // step < bv
		)
		p := &flow.Problem{Must: true}
		p.Node = func(b *flow.Block, i int, n ast.Node, in uint64) uint64 {
			if n == node {
				return in
			}
			flow.Events(n, func(x ast.Node) {
				switch y := x.(type) {
				case *ast.AssignStmt:
					for _, l := range y.Lhs {
						o := flow.ObjOf(f.Info, l)
						if isCur(l) || flow.FieldOf(f.Info, l) == a.size || o == types.Object(bv) {
							in &^= fDef | fLess
						}
						if o == types.Object(step) {
							in &^= fLess
						}
					}
					if y == def {
						in |= fDef
					}
				case *ast.IncDecStmt:
					o := flow.ObjOf(f.Info, y.X)
					if isCur(y.X) || o == types.Object(bv) {
						in &^= fDef | fLess
					}
					if o == types.Object(step) {
						in &^= fLess
					}
				case *ast.CallExpr:
					// a method of the ring may move the cursor
					if r := flow.Recv(y); r != nil && f.recvVar() != nil && flow.ObjOf(f.Info, r) == types.Object(f.recvVar()) {
						in &^= fDef | fLess
					}
				}
			})
			return in
		}
		p.Edge = func(e *flow.Edge, in uint64) uint64 {
			if e.Cond == nil || e.Tag != nil {
				return in
			}
			x, y, op, ok := flow.Cmp(e.Cond)
			if !ok {
				return in
			}
			xo, yo := flow.ObjOf(f.Info, x), flow.ObjOf(f.Info, y)
			if xo == types.Object(bv) && yo == types.Object(step) {
				xo, yo = yo, xo
				switch op {
				case token.LSS:
					op = token.GTR
				case token.GTR:
					op = token.LSS
				case token.LEQ:
					op = token.GEQ
				case token.GEQ:
					op = token.LEQ
				}
			}
			if xo != types.Object(step) || yo != types.Object(bv) {
				return in
			}
			if (op == token.LSS && e.Sense) || (op == token.GEQ && !e.Sense) {
				in |= fLess
			}
			return in
		}
		sol := f.Graph().Solve(p)
		held := false
		sol.Walk(func(b *flow.Block, i int, n ast.Node, before uint64) {
			if n == node && before&(fDef|fLess) == fDef|fLess {
				held = true
			}
		})
		if held {
			return true
		}
	}
	return false
}

// sizeMinusCursorVars lists the local variables assigned `rb.size - cursor`, with the assignment.
func sizeMinusCursorVars(a *ringAnch, f *fn, cur *types.Var) map[*types.Var]ast.Node {
	bounds := map[*types.Var]ast.Node{}
	ast.Inspect(f.Decl.Body, func(n ast.Node) bool {
		d, ok := n.(*ast.AssignStmt)
		if !ok || len(d.Lhs) != 1 || len(d.Rhs) != 1 || (d.Tok != token.DEFINE && d.Tok != token.ASSIGN) {
			return true
		}
		v, _ := flow.ObjOf(f.Info, d.Lhs[0]).(*types.Var)
		if v == nil || v.IsField() {
			return true
		}
		var terms []struct {
			e    ast.Expr
			sign int
		}
		addTerms(d.Rhs[0], 1, &terms)
		if len(terms) == 2 {
			pos, neg := terms[0], terms[1]
			if pos.sign < 0 {
				pos, neg = neg, pos
			}
			if pos.sign > 0 && neg.sign < 0 && flow.FieldOf(f.Info, pos.e) == a.size && flow.FieldOf(f.Info, neg.e) == cur {
				bounds[v] = d
			}
		}
		return true
	})
	return bounds
}

func init() {
	register(&core.Rule{ID: "C09.13", Prop: "C09", MinSites: 12,
		Desc: "what is handed out starts at the read cursor: every slice of rb.buf that serves as a source (returned view, copy source, argument of an external Write, append operand) begins at rb.r and ends at rb.r+k, rb.w, rb.size or the physical end – or is the wrapped second piece rb.buf[:k] / rb.buf[:rb.w], which appears only in functions that also hand out rb.buf[rb.r:]; single bytes are read at rb.buf[rb.r]; and Peek/peekAll assign their head result on every path that found the buffer non-empty",
		Run:  runC09_13})
	alias("C10", "C10.19", "C09.13", "elastic Peek/Read/WriteTo hand out ring.Buffer's views")
	alias("C01", "C01.17", "C09.13", "what Next/Peek/Read give the handler from the inbound ring are ring.Buffer's views")
}

func runC09_13(c *core.Ctx) {
	a := ringAnchors(c)
	if a == nil {
		return
	}
	for _, f := range a.funcs {
		if f.Decl.Body == nil {
			continue
		}
		// destinations: first argument of copy, argument of an external Read
		dest := map[ast.Expr]bool{}
		ast.Inspect(f.Decl.Body, func(n ast.Node) bool {
			if call, ok := n.(*ast.CallExpr); ok {
				if id, ok := call.Fun.(*ast.Ident); ok && id.Name == "copy" && len(call.Args) == 2 {
					dest[ast.Unparen(call.Args[0])] = true
				}
				if sel, ok := ast.Unparen(call.Fun).(*ast.SelectorExpr); ok && sel.Sel.Name == "Read" && len(call.Args) == 1 {
					dest[ast.Unparen(call.Args[0])] = true
				}
			}
			if as, ok := n.(*ast.AssignStmt); ok {
				for _, l := range as.Lhs {
					dest[ast.Unparen(l)] = true // rb.buf[rb.w] = c
				}
			}
			return true
		})
		type src struct {
			e    ast.Expr
			kind string
		}
		var srcs []src
		hasTailView := false
		ast.Inspect(f.Decl.Body, func(n ast.Node) bool {
			switch x := n.(type) {
			case *ast.SliceExpr:
				if x.Low != nil && flow.FieldOf(f.Info, x.Low) == a.w {
					return true // a view from the write cursor on is where a producer stores (C09.2, C09.8), whatever name it is given first
				}
				if flow.FieldOf(f.Info, x.X) == a.buf && !dest[ast.Expr(x)] {
					srcs = append(srcs, src{x, "slice"})
					if x.Low != nil && flow.FieldOf(f.Info, x.Low) == a.r && x.High == nil {
						hasTailView = true
					}
				}
			case *ast.IndexExpr:
				if flow.FieldOf(f.Info, x.X) == a.buf && !dest[ast.Expr(x)] {
					srcs = append(srcs, src{x, "index"})
				}
			}
			return true
		})
		k := 0
		for _, s := range srcs {
			k++
			good := false
			switch x := s.e.(type) {
			case *ast.IndexExpr:
				good = flow.FieldOf(f.Info, x.Index) == a.r
			case *ast.SliceExpr:
				lowIsR := x.Low != nil && flow.FieldOf(f.Info, x.Low) == a.r
				lowIsZero := x.Low == nil
				if cv := flow.ConstOf(f.Info, x.Low); x.Low != nil && cv != nil && constant.Sign(cv) == 0 {
					lowIsZero = true
				}
				switch {
				case lowIsR:
					switch {
					case x.High == nil:
						good = true
					case flow.FieldOf(f.Info, x.High) == a.w, flow.FieldOf(f.Info, x.High) == a.size:
						good = true
					default:
						// rb.r + k, possibly through a local (end := rb.r + m)
						if be, ok := seeThroughAt(f, x.High, x).(*ast.BinaryExpr); ok && be.Op == token.ADD {
							good = flow.FieldOf(f.Info, be.X) == a.r || flow.FieldOf(f.Info, be.Y) == a.r
						}
					}
				case lowIsZero && x.High != nil:
					good = hasTailView // the wrapped second piece; its length is C09.6's business
				}
			}
			c.Check(good, f.Name, "source view #"+itoa(k)+" "+exprStr(s.e), s.e.Pos(), "starts at rb.r (or is the wrapped second piece)",
				"bytes are handed out from `"+exprStr(s.e)+"`, which does not start at the read cursor (and is not the wrapped second piece that follows rb.buf[rb.r:]): the caller sees bytes that are not the front of the queue")
		}
		// Peek / peekAll: head assigned wherever the buffer was found non-empty
		if n := nameOf(f.Obj); n == "Peek" || n == "peekAll" {
			var headObj types.Object
			if rl := f.Decl.Type.Results; rl != nil && len(rl.List) > 0 && len(rl.List[0].Names) > 0 {
				headObj = f.Info.Defs[rl.List[0].Names[0]]
			}
			if headObj == nil {
				continue // unnamed results: every return states its values
			}
			const (
				fAssigned = 1 << iota
				fEmpty
			)
			p := &flow.Problem{Must: true}
			p.Node = func(b *flow.Block, i int, n ast.Node, in uint64) uint64 {
				for _, l := range flow.Assigned(n) {
					if flow.ObjOf(f.Info, l) == headObj {
						in |= fAssigned
					}
				}
				return in
			}
			p.Edge = func(e *flow.Edge, in uint64) uint64 {
				if e.Cond != nil && e.Tag == nil && e.Sense && flow.FieldOf(f.Info, e.Cond) == a.isEmpty {
					in |= fEmpty
				}
				return in
			}
			sol := f.Graph().Solve(p)
			j := 0
			sol.AtExit(func(b *flow.Block, facts uint64) {
				j++
				explicit := b.Return != nil && len(b.Return.Results) > 0
				c.Check(explicit || facts&(fAssigned|fEmpty) != 0, f.Name, "head assigned before return #"+itoa(j), b.Return.Pos(), "a non-empty buffer yields its first segment",
					nameOf(f.Obj)+" can return without having assigned its head result although the buffer was not found empty: the caller is told there is nothing to read while bytes are queued")
			})
		}
	}
}

func init() {
	register(&core.Rule{ID: "C09.14", Prop: "C09", MinSites: 4,
		Desc: "a transfer that is counted is carried out: every return of ring.Buffer.Read other than the ones for an empty request or an empty buffer has passed a copy out of rb.buf[rb.r…] and an advance of rb.r; every return of Write other than the one for an empty payload has passed a copy into rb.buf, an advance of rb.w and rb.isEmpty = false; ReadByte/WriteByte likewise read at/advance rb.r resp. store at/advance rb.w and clear isEmpty",
		Run:  runC09_14})
	alias("C10", "C10.20", "C09.14", "the elastic buffers store and deliver through ring.Buffer.Read/Write")
	alias("C01", "C01.18", "C09.14", "leftover input is parked with ring.Buffer.Write and served with Read")
}

func runC09_14(c *core.Ctx) {
	a := ringAnchors(c)
	if a == nil {
		return
	}
	for _, f := range a.funcs {
		name := nameOf(f.Obj)
		if name != "Read" && name != "Write" && name != "ReadByte" && name != "WriteByte" {
			continue
		}
		reads := name == "Read" || name == "ReadByte"
		cursor := a.w
		if reads {
			cursor = a.r
		}
		const (
			fMoved = 1 << iota // the bytes were copied
			fAdvanced
			fFlag // Write: isEmpty = false
			fEarly
		)
		isBufFrom := func(e ast.Expr, cur *types.Var, anyStart bool) bool {
			e = ast.Unparen(e)
			if flow.FieldOf(f.Info, e) == a.buf {
				return anyStart
			}
			switch x := e.(type) {
			case *ast.SliceExpr:
				if flow.FieldOf(f.Info, x.X) != a.buf {
					return false
				}
				return anyStart || (x.Low != nil && flow.FieldOf(f.Info, x.Low) == cur)
			case *ast.IndexExpr:
				return flow.FieldOf(f.Info, x.X) == a.buf && (anyStart || flow.FieldOf(f.Info, x.Index) == cur)
			}
			return false
		}
		p := &flow.Problem{Must: true}
		p.Node = func(b *flow.Block, i int, n ast.Node, in uint64) uint64 {
			for _, call := range flow.Calls(n) {
				if id, ok := call.Fun.(*ast.Ident); ok && id.Name == "copy" && len(call.Args) == 2 {
					if reads && isBufFrom(call.Args[1], a.r, false) {
						in |= fMoved
					}
					if !reads && isBufFrom(call.Args[0], a.w, true) {
						in |= fMoved
					}
				}
			}
			switch y := n.(type) {
			case *ast.AssignStmt:
				for k, l := range y.Lhs {
					if flow.FieldOf(f.Info, l) == cursor {
						in |= fAdvanced
					}
					if flow.FieldOf(f.Info, l) == a.isEmpty && len(y.Rhs) == len(y.Lhs) {
						if cv := flow.ConstOf(f.Info, y.Rhs[k]); cv != nil && !constant.BoolVal(cv) {
							in |= fFlag
						}
					}
					// b = rb.buf[rb.r] / rb.buf[rb.w] = c
					if len(y.Rhs) == len(y.Lhs) {
						if reads && isBufFrom(y.Rhs[k], a.r, false) {
							in |= fMoved
						}
						if !reads && isBufFrom(l, a.w, false) {
							in |= fMoved
						}
					}
				}
			case *ast.IncDecStmt:
				if flow.FieldOf(f.Info, y.X) == cursor {
					in |= fAdvanced
				}
			}
			return in
		}
		lenOfParam := func(e ast.Expr) bool {
			e = seeThrough(f, e)
			call, ok := e.(*ast.CallExpr)
			if !ok || len(call.Args) != 1 {
				return false
			}
			id, ok := call.Fun.(*ast.Ident)
			return ok && id.Name == "len" && flow.ObjOf(f.Info, call.Args[0]) == types.Object(f.param(0)) && f.param(0) != nil
		}
		p.Edge = func(e *flow.Edge, in uint64) uint64 {
			if e.Cond == nil || e.Tag != nil {
				return in
			}
			if e.Sense && flow.FieldOf(f.Info, e.Cond) == a.isEmpty && reads {
				in |= fEarly
			}
			if x, y, op, ok := flow.Cmp(e.Cond); ok && (lenOfParam(x) || (flow.ObjOf(f.Info, x) != nil && lenOfParam(x))) {
				if cv := flow.ConstOf(f.Info, y); cv != nil {
					k, _ := constant.Int64Val(constant.ToInt(cv))
					t0, ok0 := ival{lo: 0, hi: 0}.cmp(op, k)
					t1, ok1 := ival{lo: 1, hiInf: true}.cmp(op, k)
					if ok0 && ok1 && t0 == e.Sense && t1 != e.Sense {
						in |= fEarly // the edge admits only an empty request
					}
				}
			}
			return in
		}
		sol := f.Graph().Solve(p)
		want := uint64(fMoved | fAdvanced)
		if !reads {
			want |= fFlag
		}
		k := 0
		sol.AtExit(func(b *flow.Block, facts uint64) {
			k++
			c.Check(facts&fEarly != 0 || facts&want == want, f.Name, "effects complete before return #"+itoa(k), b.Return.Pos(), "copied, cursor advanced"+map[bool]string{true: "", false: ", isEmpty cleared"}[reads],
				"ring.Buffer."+name+" can return on a path that did not "+map[bool]string{true: "copy out of rb.buf[rb.r…] and advance rb.r", false: "copy into rb.buf, advance rb.w and clear isEmpty"}[reads]+": the count it reports was not carried out – bytes are delivered twice or never stored")
		})
	}
}
