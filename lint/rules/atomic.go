package rules

import (
	"fmt"
	"go/token"
	"go/types"

	"golang.org/x/tools/go/ssa"

	"gnetlint/core"
)

// isAtomicWrapperArg reports whether callee only hands its idx-th parameter to sync/atomic
// functions (the load/cas helpers of the lock-free queue).
func isAtomicWrapperArg(callee *ssa.Function, addr ssa.Value, call ssa.CallInstruction) bool {
	if callee == nil || callee.Blocks == nil {
		return false
	}
	cc := call.Common()
	idx := -1
	for i, a := range cc.Args {
		if a == addr {
			idx = i
		}
	}
	if idx < 0 || idx >= len(callee.Params) {
		return false
	}
	p := callee.Params[idx]
	refs := p.Referrers()
	if refs == nil || len(*refs) == 0 {
		return false
	}
	for _, r := range *refs {
		switch u := r.(type) {
		case *ssa.DebugRef:
		case ssa.CallInstruction:
			if !core.IsAtomicCallee(u.Common().StaticCallee()) {
				return false
			}
		default:
			return false
		}
	}
	return true
}

// isFresh reports whether v is an object allocated in the current function (composite literal /
// new), i.e. not yet visible to any other goroutine at this point of initialisation.
func isFresh(v ssa.Value) bool {
	switch x := v.(type) {
	case *ssa.Alloc:
		return true
	case *ssa.FieldAddr:
		return isFresh(x.X)
	case *ssa.IndexAddr:
		return isFresh(x.X)
	case *ssa.UnOp:
		// a local pointer variable kept in a cell (a named result in a function with a defer, a variable
		// assigned on several paths): fresh when every store into the cell stores a fresh allocation and
		// the cell is only ever loaded from and stored to
		cell, ok := x.X.(*ssa.Alloc)
		if !ok || x.Op != token.MUL || cell.Referrers() == nil {
			return false
		}
		stores := 0
		for _, r := range *cell.Referrers() {
			switch y := r.(type) {
			case *ssa.UnOp:
				if y.Op != token.MUL {
					return false
				}
			case *ssa.Store:
				if y.Addr != ssa.Value(cell) {
					return false // the cell's address is stored somewhere
				}
				if c, isConst := y.Val.(*ssa.Const); isConst && c.IsNil() {
					continue
				}
				if ld, isLoad := y.Val.(*ssa.UnOp); isLoad && ld.Op == token.MUL && ld.X == ssa.Value(cell) {
					continue // `return el, nil` with a named result el: the cell is stored into itself
				}
				if _, isAlloc := y.Val.(*ssa.Alloc); !isAlloc {
					return false
				}
				stores++
			case *ssa.DebugRef:
			default:
				return false
			}
		}
		return stores > 0
	}
	return false
}

// atomicOnly emits one obligation per access of fld: it must be atomic, a store initialising a
// fresh object, or covered by the exception callback (which returns a reason).
func atomicOnly(c *core.Ctx, fld *types.Var, label string, except func(fa core.FieldAccess) string) int {
	s := c.P.BuildSSA()
	n := 0
	for _, fa := range s.Accesses() {
		if fa.Field != fld || fld == nil {
			continue
		}
		n++
		site := core.SSAName(fa.Fn)
		construct := fmt.Sprintf("%s of %s", fa.Kind, label)
		switch {
		case fa.Kind == core.AccAtomic:
			c.Ok(site, construct, fa.Pos, "atomic access")
		case fa.Kind == core.AccWrite && isFresh(fa.Base):
			c.Ok(site, construct, fa.Pos, "initialising store into an object allocated in this function")
		case fa.Kind == core.AccAddr && fa.Callee != nil && fa.Instr != nil && isAtomicWrapperCall(fa):
			c.Ok(site, construct, fa.Pos, "address handed to atomic wrapper "+core.SSAName(fa.Callee))
		default:
			if except != nil {
				if why := except(fa); why != "" {
					c.Ok(site, construct, fa.Pos, "exception: "+why)
					continue
				}
			}
			c.Violate(site, construct, fa.Pos, fmt.Sprintf("non-atomic %s of %s, which is accessed with sync/atomic elsewhere", fa.Kind, label))
		}
	}
	return n
}

func isAtomicWrapperCall(fa core.FieldAccess) bool {
	call, ok := fa.Instr.(ssa.CallInstruction)
	if !ok {
		return false
	}
	// find the address operand among the args: it is the FieldAddr whose referrer is this call
	for _, a := range call.Common().Args {
		if f, ok := a.(*ssa.FieldAddr); ok {
			st := structOfType(f.X.Type())
			if st != nil && st.Field(f.Field) == fa.Field && isAtomicWrapperArg(fa.Callee, a, call) {
				return true
			}
		}
		if ia, ok := a.(*ssa.IndexAddr); ok {
			if f, ok := ia.X.(*ssa.FieldAddr); ok {
				st := structOfType(f.X.Type())
				if st != nil && st.Field(f.Field) == fa.Field && isAtomicWrapperArg(fa.Callee, a, call) {
					return true
				}
			}
		}
	}
	return false
}

func structOfType(t types.Type) *types.Struct {
	if p, ok := t.Underlying().(*types.Pointer); ok {
		t = p.Elem()
	}
	st, _ := t.Underlying().(*types.Struct)
	return st
}
