package rules

import (
	"go/ast"
	"go/constant"
	"go/token"
	"go/types"

	"golang.org/x/tools/go/ssa"

	"gnetlint/core"
	"gnetlint/flow"
)

func init() {
	describe(&PropInfo{ID: "C11",
		Explanation: "Decides structural clauses of linkedlist.Buffer: (1) in ReadFrom every byte the reader returned is pushed into the list before the function returns or reads again – also on the EOF and error " +
			"returns – unless a zero count is established; (2) every pushBack/pushFront call is made where a positive segment length is established (no empty node can make IsEmpty()==false with Buffered()==0); " +
			"(3) head/tail/size/bytes are written only by pop/pushFront/pushBack/Reset and each list primitive adjusts size by one and bytes by the node length exactly once on every path that relinks; " +
			"(4) PushBack/PushFront store a pooled copy of their argument, never the argument itself; (5) the observers write nothing. Segment arithmetic of partial reads and content equality are not decided.",
		Assumptions: []string{"readers/writers respect the io contracts"}})

	register(&core.Rule{ID: "C11.1", Prop: "C11", MinSites: 2,
		Desc: "ReadFrom: on every path from r.Read(b) to a return or to the next Read, the counted bytes b[:m] are pushed into the list unless m == 0 is established",
		Run:  runC11_1})
	register(&core.Rule{ID: "C11.2", Prop: "C11", MinSites: 7,
		Desc: "no empty node: every pushBack/pushFront call site is dominated by a test establishing a positive segment length",
		Run:  runC11_2})
	register(&core.Rule{ID: "C11.3", Prop: "C11", MinSites: 8,
		Desc: "bookkeeping: head/tail/size/bytes are written only in pop/pushFront/pushBack/Reset, and each list primitive changes size by 1 and bytes by the node length exactly once on every relinking path",
		Run:  runC11_3})
	register(&core.Rule{ID: "C11.4", Prop: "C11", MinSites: 2,
		Desc: "copy-in: PushBack/PushFront store a slice obtained from the byte pool and filled by copy, never their parameter",
		Run:  runC11_4})
	register(&core.Rule{ID: "C11.5", Prop: "C11", MinSites: 5,
		Desc: "observers Peek, PeekWithBytes, Len, Buffered, IsEmpty write no field and call no list primitive",
		Run:  runC11_5})
}

type llAnch struct {
	pk                       string
	head, tail, size, bytes  *types.Var
	nodeBuf                  *types.Var
	pop, pushFront, pushBack *types.Func
	funcs                    []*fn
}

func llAnchors(c *core.Ctx) *llAnch {
	a := &llAnch{pk: "pkg/buffer/linkedlist"}
	a.head, a.tail, a.size, a.bytes = c.P.Field(a.pk, "Buffer", "head"), c.P.Field(a.pk, "Buffer", "tail"), c.P.Field(a.pk, "Buffer", "size"), c.P.Field(a.pk, "Buffer", "bytes")
	a.nodeBuf = c.P.Field(a.pk, "node", "buf")
	a.pop, a.pushFront, a.pushBack = c.P.Func(a.pk, "Buffer.pop"), c.P.Func(a.pk, "Buffer.pushFront"), c.P.Func(a.pk, "Buffer.pushBack")
	ok := true
	for what, x := range map[string]any{"ll.head": a.head, "ll.tail": a.tail, "ll.size": a.size, "ll.bytes": a.bytes, "node.buf": a.nodeBuf, "pop": a.pop, "pushFront": a.pushFront, "pushBack": a.pushBack} {
		if !c.Need(what, x) {
			ok = false
		}
	}
	if !ok {
		return nil
	}
	pk := c.P.Pkg(a.pk)
	for _, d := range c.P.FuncsOf(pk) {
		if obj, _ := pk.TypesInfo.Defs[d.Name].(*types.Func); obj != nil {
			a.funcs = append(a.funcs, &fn{P: c.P, Obj: obj, Decl: d, Info: pk.TypesInfo, Pkg: pk, Name: core.FuncName(obj)})
		}
	}
	return a
}

func (a *llAnch) isPush(f *fn, call *ast.CallExpr) bool {
	return flow.IsCall(f.Info, call, a.pushBack) || flow.IsCall(f.Info, call, a.pushFront)
}

func runC11_1(c *core.Ctx) {
	a := llAnchors(c)
	if a == nil {
		return
	}
	f := getFn(c, a.pk, "Buffer.ReadFrom")
	if f == nil {
		return
	}
	// the Read call:  m, err = r.Read(b)
	var mObj, bObj types.Object
	var readStmt *ast.AssignStmt
	ast.Inspect(f.Decl.Body, func(n ast.Node) bool {
		if as, ok := n.(*ast.AssignStmt); ok && len(as.Rhs) == 1 && len(as.Lhs) == 2 {
			if call, ok := ast.Unparen(as.Rhs[0]).(*ast.CallExpr); ok && len(call.Args) == 1 {
				if sel, ok := call.Fun.(*ast.SelectorExpr); ok && sel.Sel.Name == "Read" {
					readStmt = as
					mObj, bObj = flow.ObjOf(f.Info, as.Lhs[0]), flow.ObjOf(f.Info, call.Args[0])
				}
			}
		}
		return true
	})
	if readStmt == nil || mObj == nil || bObj == nil {
		c.Undecided(f.Name, "r.Read(b)", f.Decl.Pos(), "no `m, err = r.Read(b)` found; idiom not recognised")
		return
	}
	const (
		sIdle = iota
		sPending
	)
	type bad struct {
		pos  token.Pos
		what string
	}
	var bads []bad
	record := false
	step := func(n ast.Node, s int) int {
		flow.Events(n, func(x ast.Node) {
			switch y := x.(type) {
			case *ast.AssignStmt:
				if y == readStmt {
					if s == sPending && record {
						bads = append(bads, bad{y.Pos(), "the next Read overwrites the count"})
					}
					s = sPending
				}
			case *ast.CallExpr:
				if flow.IsCall(f.Info, y, a.pushBack) && len(y.Args) == 1 {
					// &node{buf: <expr based on b>}
					uses := false
					ast.Inspect(y.Args[0], func(z ast.Node) bool {
						if id, ok := z.(*ast.Ident); ok && f.Info.Uses[id] == bObj {
							uses = true
						}
						return true
					})
					if uses {
						s = sIdle
					}
				}
			case *ast.ReturnStmt:
				if s == sPending && record {
					bads = append(bads, bad{y.Pos(), "ReadFrom returns"})
				}
			}
		})
		return s
	}
	au := &flow.Auto{Start: sIdle}
	au.Node = func(b *flow.Block, i int, n ast.Node, s int) int { return step(n, s) }
	au.Edge = func(e *flow.Edge, s int) int {
		if s == sPending && e.Cond != nil && e.Tag == nil {
			if x, y, op, ok := flow.Cmp(e.Cond); ok && flow.ObjOf(f.Info, x) == mObj {
				if cv := flow.ConstOf(f.Info, y); cv != nil && constant.Sign(cv) == 0 {
					zero := (op == token.EQL && e.Sense) || (op == token.NEQ && !e.Sense) || (op == token.GTR && !e.Sense) || (op == token.LEQ && e.Sense)
					if zero {
						return sIdle
					}
				}
			}
		}
		return s
	}
	sol := f.Graph().Run(au)
	record = true
	for _, b := range f.Graph().Blocks {
		if !sol.Seen[b.ID] {
			continue
		}
		for _, s0 := range flow.States(sol.In[b.ID]) {
			s := s0
			for _, n := range b.Nodes {
				s = step(n, s)
			}
		}
	}
	record = false
	seen := map[token.Pos]bool{}
	k := 0
	for _, b := range bads {
		if seen[b.pos] {
			continue
		}
		seen[b.pos] = true
		k++
		c.Violate(f.Name, "counted bytes dropped #"+itoa(k), b.pos, b.what+" although the "+mObj.Name()+" bytes the reader just returned (and that are counted in the result) were not pushed into the list: bytes returned together with EOF or an error are lost")
	}
	c.Check(len(bads) == 0, f.Name, "every counted byte is stored", readStmt.Pos(), "b[:m] is pushed before any return / next read (or m == 0 is established)", "see the individual sites")
	// the count must be added to the result
	added := false
	ast.Inspect(f.Decl.Body, func(n ast.Node) bool {
		if as, ok := n.(*ast.AssignStmt); ok && as.Tok == token.ADD_ASSIGN && len(as.Rhs) == 1 {
			ast.Inspect(as.Rhs[0], func(z ast.Node) bool {
				if id, ok := z.(*ast.Ident); ok && f.Info.Uses[id] == mObj {
					added = true
				}
				return true
			})
		}
		return true
	})
	c.Check(added, f.Name, "count reported", readStmt.Pos(), "n += m", "ReadFrom no longer adds the reader's count to its result")
}

func runC11_2(c *core.Ctx) {
	a := llAnchors(c)
	if a == nil {
		return
	}
	for _, f := range a.funcs {
		has := false
		for _, call := range callsIn(f.Decl.Body, false) {
			if a.isPush(f, call) {
				has = true
			}
		}
		if !has || f.Obj == a.pushBack || f.Obj == a.pushFront {
			continue
		}
		const fPos = 1
		p := &flow.Problem{Must: true}
		p.Node = func(b *flow.Block, i int, n ast.Node, in uint64) uint64 {
			// a new segment/count invalidates earlier knowledge
			if as, ok := n.(*ast.AssignStmt); ok && len(as.Rhs) == 1 {
				if call, ok := ast.Unparen(as.Rhs[0]).(*ast.CallExpr); ok {
					if sel, ok := call.Fun.(*ast.SelectorExpr); ok && (sel.Sel.Name == "Read" || sel.Sel.Name == "Write") {
						in &^= fPos
					}
					if flow.IsCall(f.Info, call, a.pop) {
						in &^= fPos
					}
					if id, ok := call.Fun.(*ast.Ident); ok && id.Name == "copy" {
						in &^= fPos
					}
				}
			}
			return in
		}
		p.Edge = func(e *flow.Edge, in uint64) uint64 {
			if e.Cond == nil || e.Tag != nil {
				return in
			}
			x, y, op, ok := flow.Cmp(e.Cond)
			if !ok {
				return in
			}
			// X < b.len()  (strictly less than a segment length => remainder positive)
			isLenCall := func(e ast.Expr) bool { // b.len(), possibly through a local that names it
				call, ok := seeThrough(f, e).(*ast.CallExpr)
				if !ok {
					return false
				}
				if sel, ok := call.Fun.(*ast.SelectorExpr); ok && sel.Sel.Name == "len" {
					return true
				}
				// the method written out: len(b.buf)
				if id, ok := call.Fun.(*ast.Ident); ok && id.Name == "len" && len(call.Args) == 1 {
					if fs, ok := ast.Unparen(call.Args[0]).(*ast.SelectorExpr); ok && fs.Sel.Name == "buf" {
						return true
					}
				}
				return false
			}
			if (op == token.LSS && e.Sense && isLenCall(y)) || (op == token.GEQ && !e.Sense && isLenCall(y)) {
				return in | fPos
			}
			if (op == token.GTR && e.Sense && isLenCall(x)) || (op == token.LEQ && !e.Sense && isLenCall(x)) { // b.len() > X
				return in | fPos
			}
			cv := flow.ConstOf(f.Info, y)
			if cv == nil || cv.Kind() != constant.Int {
				return in
			}
			k, _ := constant.Int64Val(cv)
			pos := false
			switch op {
			case token.GTR:
				pos = e.Sense && k >= 0
			case token.EQL:
				pos = !e.Sense && k == 0 && isNonNegativeExpr(f, x)
			case token.NEQ:
				pos = e.Sense && k == 0 && isNonNegativeExpr(f, x)
			case token.LEQ:
				pos = !e.Sense && k >= 0
			}
			if pos {
				in |= fPos
			}
			return in
		}
		sol := f.Graph().Solve(p)
		k := 0
		sol.Walk(func(b *flow.Block, i int, n ast.Node, before uint64) {
			for _, call := range flow.Calls(n) {
				if a.isPush(f, call) {
					k++
					c.Check(before&fPos != 0, f.Name, "push #"+itoa(k), call.Pos(), "a positive segment length is established on every path to this push",
						"a node is linked into the list although its segment may be empty: IsEmpty() then reports false while Buffered() is 0, and Peek/Writev hand out empty iovecs", sol.Witness(b, fPos)...)
				}
			}
		})
	}
}

func runC11_3(c *core.Ctx) {
	a := llAnchors(c)
	if a == nil {
		return
	}
	s := c.P.BuildSSA()
	prim := map[string]bool{"pop": true, "pushFront": true, "pushBack": true, "Reset": true}
	names := map[*types.Var]string{a.head: "head", a.tail: "tail", a.size: "size", a.bytes: "bytes"}
	for _, fa := range s.Accesses() {
		n, ok := names[fa.Field]
		if !ok || fa.Kind != core.AccWrite || isFresh(fa.Base) {
			continue
		}
		c.Check(prim[ssaName(fa.Fn)], core.SSAName(fa.Fn), "write of Buffer."+n, fa.Pos, "list bookkeeping written by a list primitive",
			"Buffer."+n+" is written outside pop/pushFront/pushBack/Reset: size/bytes can drift from the linked nodes")
	}
	for _, name := range []string{"Buffer.pop", "Buffer.pushFront", "Buffer.pushBack"} {
		f := getFn(c, a.pk, name)
		if f == nil {
			continue
		}
		// state: relink(1) | size count (2 bits) | bytes count (2 bits)
		enc := func(re, sz, by int) int { return re | sz<<1 | by<<3 }
		inc := func(v int) int {
			if v < 2 {
				return v + 1
			}
			return 2
		}
		au := &flow.Auto{Start: 0}
		au.Node = func(b *flow.Block, i int, n ast.Node, st int) int {
			re, sz, by := st&1, (st>>1)&3, (st>>3)&3
			switch y := n.(type) {
			case *ast.AssignStmt:
				for _, l := range y.Lhs {
					fl := flow.FieldOf(f.Info, l)
					if fl == a.head || fl == a.tail {
						re = 1
					}
					if fl == a.bytes && (y.Tok == token.ADD_ASSIGN || y.Tok == token.SUB_ASSIGN) {
						by = inc(by)
					}
					if fl == a.size && (y.Tok == token.ADD_ASSIGN || y.Tok == token.SUB_ASSIGN) {
						sz = inc(sz)
					}
				}
			case *ast.IncDecStmt:
				if flow.FieldOf(f.Info, y.X) == a.size {
					sz = inc(sz)
				}
			}
			return enc(re, sz, by)
		}
		sol := f.Graph().Run(au)
		sol.AtExit(func(b *flow.Block, _ uint64) {
			okk := true
			for _, st := range flow.States(sol.Out(b)) {
				re, sz, by := st&1, (st>>1)&3, (st>>3)&3
				if re == 1 && (sz != 1 || by != 1) {
					okk = false
				}
				if re == 0 && (sz != 0 || by != 0) {
					okk = false
				}
			}
			c.Check(okk, f.Name, "size and bytes adjusted exactly once per relink", b.Return.Pos(), "bookkeeping in step with the links",
				"a path of "+f.Obj.Name()+" relinks head/tail without adjusting size and bytes exactly once (or adjusts them without relinking): Len()/Buffered() drift from the content")
		})
		// direction and amount
		wantInc := name != "Buffer.pop"
		ast.Inspect(f.Decl.Body, func(n ast.Node) bool {
			switch y := n.(type) {
			case *ast.IncDecStmt:
				if flow.FieldOf(f.Info, y.X) == a.size {
					c.Check((y.Tok == token.INC) == wantInc, f.Name, "direction of size adjustment", y.Pos(), "size moves with the operation", "size is adjusted in the wrong direction")
				}
			case *ast.AssignStmt:
				if len(y.Lhs) == 1 && flow.FieldOf(f.Info, y.Lhs[0]) == a.bytes {
					isLen := false
					if call, ok := ast.Unparen(y.Rhs[0]).(*ast.CallExpr); ok {
						if sel, ok := call.Fun.(*ast.SelectorExpr); ok && sel.Sel.Name == "len" {
							isLen = true
						}
						if id, ok := call.Fun.(*ast.Ident); ok && id.Name == "len" && len(call.Args) == 1 { // the method written out: len(b.buf)
							if fs, ok := ast.Unparen(call.Args[0]).(*ast.SelectorExpr); ok && fs.Sel.Name == "buf" {
								isLen = true
							}
						}
					}
					c.Check((y.Tok == token.ADD_ASSIGN) == wantInc && isLen, f.Name, "bytes adjusted by the node length", y.Pos(), "bytes moves by b.len() with the operation",
						"bytes is not adjusted by the node's length in the direction of the operation")
				}
			}
			return true
		})
	}
}

func runC11_4(c *core.Ctx) {
	a := llAnchors(c)
	if a == nil {
		return
	}
	for _, name := range []string{"Buffer.PushBack", "Buffer.PushFront"} {
		f := getFn(c, a.pk, name)
		if f == nil {
			continue
		}
		p0 := f.param(0)
		found := false
		for _, call := range callsIn(f.Decl.Body, false) {
			if !a.isPush(f, call) || len(call.Args) != 1 {
				continue
			}
			found = true
			// &node{buf: X}
			var bufExpr ast.Expr
			ast.Inspect(seeThrough(f, call.Args[0]), func(n ast.Node) bool {
				if kv, ok := n.(*ast.KeyValueExpr); ok {
					if id, ok := kv.Key.(*ast.Ident); ok && id.Name == "buf" {
						bufExpr = kv.Value
					}
				}
				return true
			})
			okk := false
			why := "the node's buffer is not a plain variable"
			if o, isVar := flow.ObjOf(f.Info, bufExpr).(*types.Var); isVar && bufExpr != nil {
				switch {
				case o == p0:
					why = "the caller's slice itself is linked into the list: later changes by the caller become visible in the buffered data (and the pool later recycles memory the caller still owns)"
				default:
					d := defOf(f.Info, f.Decl.Body, o)
					isGet := false
					if call2, ok := ast.Unparen(d).(*ast.CallExpr); ok && d != nil {
						if cf := flow.CalleeFunc(f.Info, call2); cf != nil && nameOf(cf) == "Get" && cf.Pkg() != nil && cf.Pkg().Name() == "byteslice" {
							isGet = true
						}
					}
					// copy(b, p) on every path to the push (decided on the CFG, not by source position)
					copied := false
					cp := &flow.Problem{Must: true}
					cp.Node = func(b *flow.Block, i int, n ast.Node, in uint64) uint64 {
						for _, cc := range flow.Calls(n) {
							if id, ok := cc.Fun.(*ast.Ident); ok && id.Name == "copy" && len(cc.Args) == 2 && flow.ObjOf(f.Info, cc.Args[0]) == types.Object(o) && flow.ObjOf(f.Info, cc.Args[1]) == types.Object(p0) {
								in |= 1
							}
						}
						return in
					}
					csol := f.Graph().Solve(cp)
					csol.Walk(func(b *flow.Block, i int, n ast.Node, before uint64) {
						for _, cc := range flow.Calls(n) {
							if cc == call && before&1 != 0 {
								copied = true
							}
						}
					})
					okk = isGet && copied
					if !isGet {
						why = "the stored slice does not come from the byte pool"
					} else if !copied {
						why = "the pooled slice is linked without copying the argument into it first: the node holds recycled garbage"
					}
				}
			}
			c.Check(okk, f.Name, "stored segment is a pooled copy", call.Pos(), "bsPool.Get + copy(b, p)", why)
		}
		if !found {
			c.Violate(f.Name, "stored segment is a pooled copy", f.Decl.Pos(), "no push call found")
		}
	}
}

func runC11_5(c *core.Ctx) {
	a := llAnchors(c)
	if a == nil {
		return
	}
	s := c.P.BuildSSA()
	observers := map[string]bool{"Peek": true, "PeekWithBytes": true, "Len": true, "Buffered": true, "IsEmpty": true}
	names := map[*types.Var]bool{a.head: true, a.tail: true, a.size: true, a.bytes: true, a.nodeBuf: true}
	writes := map[*ssa.Function]bool{}
	for _, fa := range s.Accesses() {
		if names[fa.Field] && fa.Kind == core.AccWrite && !isFresh(fa.Base) {
			writes[fa.Fn] = true
		}
	}
	for _, fn := range s.ModFuncs {
		if fn.Pkg == nil || fn.Pkg.Pkg.Path() != core.ModPath+"/"+a.pk || fn.Signature.Recv() == nil || !observers[ssaName(fn)] {
			continue
		}
		bad := ""
		if writes[fn] {
			bad = "writes list state directly"
		}
		for _, b := range fn.Blocks {
			for _, in := range b.Instrs {
				if ci, ok := in.(ssa.CallInstruction); ok {
					if callee := ci.Common().StaticCallee(); callee != nil && callee.Pkg == fn.Pkg && (writes[callee] || ssaName(callee) == "pop" || ssaName(callee) == "pushFront" || ssaName(callee) == "pushBack") {
						bad = "calls " + callee.Name()
					}
				}
			}
		}
		c.Check(bad == "", core.SSAName(fn), "observer is pure", fn.Pos(), "writes nothing", "observer "+fn.Name()+" "+bad+": peeking would consume or reorder segments")
	}
}
