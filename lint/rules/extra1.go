package rules

import (
	"go/ast"
	"go/constant"
	"go/token"
	"go/types"
	"strings"

	"gnetlint/core"
	"gnetlint/flow"
)

// Additional rules written after the first round of seeded changes, anticipating the same families of
// mistakes (a dropped re-arm, a forgotten reset, a wake event that no longer leads to the drain, teardown
// that forgets one kind of descriptor).
func init() {
	register(&core.Rule{ID: "C02.7", Prop: "C02", MinSites: 2,
		Desc: "(*eventloop).write leaves with data still buffered only on EAGAIN, in level-triggered mode (write interest stays armed), or after triggering write0 for the same conn on the same loop with HighPriority",
		Run:  runC02_7})
	register(&core.Rule{ID: "C01.10", Prop: "C01", MinSites: 1,
		Desc: "after the leftover was appended to the inbound ring, c.buffer is emptied before read returns or reads again (otherwise a later wake-up would expose the same bytes twice)",
		Run:  runC01_10})
	register(&core.Rule{ID: "C03.12", Prop: "C03", MinSites: 2,
		Desc: "Polling: the wake-up descriptor's event sets the chores flag, the task drain runs under that flag and the flag is cleared before draining",
		Run:  runC03_12})
	register(&core.Rule{ID: "C06.8", Prop: "C06", MinSites: 2,
		Desc: "the ticker goroutine returns when the engine context is done; engine.shutdown cancels that context on every path",
		Run:  runC06_8})
	register(&core.Rule{ID: "C07.8", Prop: "C07", MinSites: 4,
		Desc: "closeEventLoops closes the listeners and the poller of every event loop and, if present, the main reactor's listeners and poller",
		Run:  runC07_8})
}

func runC02_7(c *core.Ctx) {
	a := outAnchors(c)
	if a == nil {
		return
	}
	f := getFn(c, "", "eventloop.write")
	trig := c.P.Func("pkg/netpoll", "Poller.Trigger")
	write0 := c.P.Func("", "eventloop.write0")
	hp, _ := c.P.Object("pkg/queue", "HighPriority").(*types.Const)
	if f == nil || !c.Need("Trigger", trig) || !c.Need("write0", write0) || !c.Need("HighPriority", hp) {
		return
	}
	const (
		fEmpty = 1 << iota
		fAgain
		fLT
		fRetrig
		fClosed
		fSent // a write syscall happened (the entry guard return is exempt)
	)
	au := &flow.Auto{Start: 0}
	au.Node = func(b *flow.Block, i int, n ast.Node, s int) int {
		for _, call := range flow.Calls(n) {
			if d, _ := a.streamWrite(f, call); d != nil {
				s |= fSent
				s &^= fEmpty | fAgain
			}
			if a.onOutbound(f, call, a.bufDiscard) {
				s &^= fEmpty
			}
			if flow.IsCall(f.Info, call, a.v.closeFn) {
				s |= fClosed
			}
			if flow.IsCall(f.Info, call, trig) && len(call.Args) == 3 {
				if sel, ok := ast.Unparen(call.Args[1]).(*ast.SelectorExpr); ok {
					if sl, ok := f.Info.Selections[sel]; ok && sl.Obj() == write0 {
						pv := flow.ConstOf(f.Info, call.Args[0])
						if pv != nil && constant.Compare(pv, token.EQL, hp.Val()) && v_isConn(a.v, f, call.Args[2]) {
							s |= fRetrig
						}
					}
				}
			}
		}
		return s
	}
	au.Edge = func(e *flow.Edge, s int) int {
		if e.Cond == nil {
			return s
		}
		if e.Tag != nil {
			if o := flow.ObjOf(f.Info, e.Cond); o != nil && nameOf(o) == "EAGAIN" && e.Sense && isErrorType(f.Info.TypeOf(e.Tag)) {
				return s | fAgain
			}
			return s
		}
		if t, empty := a.emptyEdge(f, e); t {
			if empty {
				return s | fEmpty
			}
			return s &^ fEmpty
		}
		if a.etCond(f, e.Cond) && !e.Sense {
			return s | fLT
		}
		if isErrnoCmp(f, e.Cond, "EAGAIN") && e.Sense {
			return s | fAgain
		}
		return s
	}
	sol := f.Graph().Run(au)
	k := 0
	sol.AtExit(func(b *flow.Block, _ uint64) {
		bad := false
		for _, s := range flow.States(sol.Out(b)) {
			if s&fSent == 0 {
				continue
			}
			if s&(fEmpty|fAgain|fLT|fRetrig|fClosed) == 0 {
				bad = true
			}
		}
		k++
		c.Check(!bad, f.Name, "exit with pending data #"+itoa(k), b.Return.Pos(), "buffer empty, EAGAIN, level-triggered, closed, or write0 re-triggered",
			"in edge-triggered mode (*eventloop).write can return with data still buffered although the socket did not report EAGAIN and no write0 task was triggered: no further writable edge arrives, the rest is never sent")
	})
}

func runC01_10(c *core.Ctx) {
	a := inAnchors(c)
	if a == nil {
		return
	}
	f := getFn(c, "", "eventloop.read")
	if f == nil {
		return
	}
	const (
		s0 = iota
		sCopied
	)
	type bad struct {
		pos  token.Pos
		what string
	}
	var bads []bad
	record := false
	step := func(n ast.Node, s int) int {
		flow.Events(n, func(x ast.Node) {
			switch y := x.(type) {
			case *ast.CallExpr:
				if a.onInbound(f, y, a.ringWrite) && len(y.Args) == 1 && a.isConnBuffer(f, y.Args[0]) {
					s = sCopied
				}
				if flow.IsPkgFunc(f.Info, y, unixPkg, "Read") && s == sCopied && record {
					bads = append(bads, bad{y.Pos(), "the next read"})
				}
			case *ast.AssignStmt:
				for _, l := range y.Lhs {
					if a.isConnBuffer(f, l) {
						s = s0
					}
				}
			case *ast.ReturnStmt:
				if s == sCopied && record {
					bads = append(bads, bad{y.Pos(), "the return"})
				}
			}
		})
		return s
	}
	au := &flow.Auto{Start: s0}
	au.Node = func(b *flow.Block, i int, n ast.Node, s int) int { return step(n, s) }
	g := f.InlinedGraph()
	sol := g.Run(au)
	record = true
	for _, b := range g.Blocks {
		if sol.Seen[b.ID] && sol.In[b.ID]&(1<<sCopied) != 0 {
			s := sCopied
			for _, n := range b.Nodes {
				s = step(n, s)
			}
		}
	}
	// also blocks where the copy happens
	for _, b := range g.Blocks {
		if !sol.Seen[b.ID] {
			continue
		}
		s := s0
		for _, n := range b.Nodes {
			s = step(n, s)
		}
	}
	record = false
	if len(bads) == 0 {
		c.Ok(f.Name, "c.buffer emptied after the leftover copy", f.Decl.Pos(), "no byte is held twice (ring and c.buffer)")
		return
	}
	c.Violate(f.Name, "c.buffer emptied after the leftover copy", bads[0].pos, "after the leftover was appended to the inbound ring, "+bads[0].what+" is reached with c.buffer still holding the same bytes: a Wake()/later callback exposes them twice")
}

func runC03_12(c *core.Ctx) {
	a := pollerOf(c)
	if a == nil {
		return
	}
	f := a.polling
	// the chores flag: a local bool that guards the drain (if X { … Dequeue … })
	var flag types.Object
	var guardIf *ast.IfStmt
	ast.Inspect(f.Decl.Body, func(n ast.Node) bool {
		is, ok := n.(*ast.IfStmt)
		if !ok {
			return true
		}
		o, isVar := flow.ObjOf(f.Info, is.Cond).(*types.Var)
		if !isVar || o.Type() != types.Typ[types.Bool] {
			return true
		}
		hasDeq := false
		for _, call := range callsIn(is.Body, false) {
			if a.qCall(f, call, a.dequeue) != nil {
				hasDeq = true
			}
		}
		if hasDeq {
			flag, guardIf = o, is
		}
		return true
	})
	if flag == nil {
		c.Violate(f.Name, "drain guarded by the chores flag", f.Decl.Pos(), "the task drain is no longer guarded by a boolean flag set by the wake-up event")
		return
	}
	// the flag is set to true somewhere inside the event loop over the returned events, on an edge comparing the event's descriptor
	// decided on edges: every `flag = true` is reached only over an edge that says "two descriptors are equal"
	// (an == test taken, a != test not taken, or the case of a switch) – the spelling of the test does not matter
	setUnderWakeTest := false
	{
		const fEq = 1
		ep := &flow.Problem{Must: true}
		ep.Edge = func(e *flow.Edge, in uint64) uint64 {
			if l, r, eq, ok := flow.Equality(e); ok {
				isInt := func(x ast.Expr) bool {
					t := f.Info.TypeOf(x)
					if t == nil {
						return false
					}
					b, ok := t.Underlying().(*types.Basic)
					return ok && b.Info()&types.IsInteger != 0
				}
				if isInt(l) && isInt(r) {
					if eq {
						return in | fEq
					}
					return in &^ fEq
				}
			}
			return in
		}
		esol := f.Graph().Solve(ep)
		sets, good := 0, 0
		esol.Walk(func(b *flow.Block, i int, n ast.Node, before uint64) {
			if as, ok := n.(*ast.AssignStmt); ok && len(as.Lhs) == 1 && len(as.Rhs) == 1 && flow.ObjOf(f.Info, as.Lhs[0]) == types.Object(flag) {
				if cv := flow.ConstOf(f.Info, as.Rhs[0]); cv != nil && cv.Kind() == constant.Bool && constant.BoolVal(cv) {
					sets++
					if before&fEq != 0 {
						good++
					}
				}
			}
		})
		setUnderWakeTest = good > 0 // (the kqueue poller also sets it when re-arming the wake-up failed)
	}
	c.Check(setUnderWakeTest, f.Name, "wake-up event sets the chores flag", f.Decl.Pos(), "the eventfd/EVFILT_USER/pipe event leads to the drain",
		"the wake-up descriptor's event no longer sets "+flag.Name()+": Trigger wakes the poller but the queued tasks are not executed")
	// one drain per wake-up: once the test of the flag has been taken, the flag is set to false again before the
	// test is reached the next time (at the top of the guarded block, or at the top of the next round) – decided
	// on paths: arriving at the test with the "taken and not cleared since" state is the violation
	cleared := true
	{
		const (
			sFresh = iota
			sTaken
		)
		isFlag := func(e ast.Expr) bool { return flow.ObjOf(f.Info, e) == types.Object(flag) }
		au := &flow.Auto{Start: sFresh}
		au.Node = func(b *flow.Block, i int, n ast.Node, st int) int {
			if as, ok := n.(*ast.AssignStmt); ok {
				for k, l := range as.Lhs {
					if isFlag(l) && k < len(as.Rhs) {
						return sFresh // cleared, or set anew by the next wake-up
					}
				}
			}
			if ds, ok := n.(*ast.DeclStmt); ok {
				if gd, ok := ds.Decl.(*ast.GenDecl); ok {
					for _, sp := range gd.Specs {
						if vs, ok := sp.(*ast.ValueSpec); ok {
							for _, nm := range vs.Names {
								if f.Info.Defs[nm] == types.Object(flag) {
									return sFresh
								}
							}
						}
					}
				}
			}
			return st
		}
		au.Edge = func(e *flow.Edge, st int) int {
			if e.Cond != nil && e.Tag == nil && isFlag(e.Cond) {
				if st == sTaken {
					cleared = false
				}
				if e.Sense {
					return sTaken
				}
			}
			return st
		}
		f.Graph().Run(au)
	}
	c.Check(cleared, f.Name, "chores flag cleared before draining", guardIf.Pos(), "one drain per wake-up", "the chores flag is not cleared before the drain: the loop would drain (and reset wakeupCall) on every iteration, or never again")
}

func runC06_8(c *core.Ctx) {
	f := getFn(c, "", "eventloop.ticker")
	sh := getFn(c, "", "engine.shutdown")
	turnOff := c.P.Field("", "engine", "turnOff")
	if f == nil || sh == nil || !c.Need("engine.turnOff", turnOff) {
		return
	}
	// a select arm on <-ctx.Done() that returns
	okk := false
	ast.Inspect(f.Decl.Body, func(n ast.Node) bool {
		cc, ok := n.(*ast.CommClause)
		if !ok || cc.Comm == nil {
			return true
		}
		isDone := false
		ast.Inspect(cc.Comm, func(x ast.Node) bool {
			if call, ok := x.(*ast.CallExpr); ok {
				if cf := flow.CalleeFunc(f.Info, call); cf != nil && nameOf(cf) == "Done" && cf.Pkg() != nil && cf.Pkg().Path() == "context" {
					if flow.ObjOf(f.Info, flow.Recv(call)) == types.Object(f.param(0)) {
						isDone = true
					}
				}
			}
			return true
		})
		if isDone {
			for _, st := range cc.Body {
				if _, ok := st.(*ast.ReturnStmt); ok {
					okk = true
				}
			}
		}
		return true
	})
	c.Check(okk, f.Name, "ticker stops on ctx.Done()", f.Decl.Pos(), "the ticker goroutine ends with the engine", "the ticker no longer returns when its context is done: concurrency.Wait() never returns and Run/Stop hang; OnTick keeps firing after shutdown")
	// engine.shutdown calls eng.turnOff() on every return
	const fOff = 1
	p := &flow.Problem{Must: true}
	p.Node = func(b *flow.Block, i int, n ast.Node, in uint64) uint64 {
		for _, call := range flow.Calls(n) {
			if flow.FieldOf(sh.Info, call.Fun) == turnOff {
				in |= fOff
			}
		}
		return in
	}
	sol := sh.Graph().Solve(p)
	sol.AtExit(func(b *flow.Block, facts uint64) {
		c.Check(facts&fOff != 0, sh.Name, "shutdown cancels the engine context", b.Return.Pos(), "the stop sequence is released",
			"engine.shutdown can return without calling turnOff(): a Shutdown action or Engine.Stop no longer releases eng.stop, so Run never returns")
	})
}

func runC07_8(c *core.Ctx) {
	f := getFn(c, "", "engine.closeEventLoops")
	lnClose := c.P.Func("", "listener.close")
	pollerClose := c.P.Func("pkg/netpoll", "Poller.Close")
	if f == nil || !c.Need("listener.close", lnClose) || !c.Need("Poller.Close", pollerClose) {
		return
	}
	var elLn, elPoller, ingLn, ingPoller bool
	for _, call := range callsIn(f.Decl.Body, true) {
		recv := ""
		if r := flow.Recv(call); r != nil {
			recv = exprStr(r)
		}
		if flow.IsCall(f.Info, call, pollerClose) {
			if strings.Contains(recv, "ingress") {
				ingPoller = true
			} else {
				elPoller = true
			}
		}
	}
	// listener.close calls inside range loops over <x>.listeners
	ast.Inspect(f.Decl.Body, func(n ast.Node) bool {
		rs, ok := n.(*ast.RangeStmt)
		if !ok {
			return true
		}
		fld := flow.FieldOf(f.Info, rs.X)
		if fld == nil || nameOf(fld) != "listeners" {
			return true
		}
		closes := false
		for _, call := range callsIn(rs.Body, false) {
			if flow.IsCall(f.Info, call, lnClose) && flow.ObjOf(f.Info, flow.Recv(call)) == flow.ObjOf(f.Info, rs.Value) {
				closes = true
			}
		}
		if closes {
			if strings.HasPrefix(exprStr(rs.X), "eng.") || strings.Contains(exprStr(rs.X), "ingress") {
				ingLn = true
			} else {
				elLn = true
			}
		}
		return true
	})
	c.Check(elLn, f.Name, "listeners of every loop closed", f.Decl.Pos(), "range over el.listeners calling close", "closeEventLoops no longer closes the listeners held by the event loops (SO_REUSEPORT mode creates one set per loop): listening sockets and unix socket files leak after Run returns")
	c.Check(elPoller, f.Name, "poller of every loop closed", f.Decl.Pos(), "el.poller.Close()", "closeEventLoops no longer closes every loop's poller: epoll and eventfd descriptors leak")
	c.Check(ingLn, f.Name, "main reactor's listeners closed", f.Decl.Pos(), "range over the engine's listeners calling close", "closeEventLoops no longer closes the engine's listeners in main-reactor mode")
	c.Check(ingPoller, f.Name, "main reactor's poller closed", f.Decl.Pos(), "ingress.poller.Close()", "closeEventLoops no longer closes the main reactor's poller")
}
