package rules

import (
	"go/ast"
	"go/constant"
	"go/token"
	"go/types"
	"strings"

	"gnetlint/core"
	"gnetlint/flow"
)

func init() {
	describe(&PropInfo{ID: "C12",
		Explanation: "Decides the shape of the pool contracts: (1) Pool.Get returns make([]byte, size, 1<<idx) or unsafe.Slice(ptr, 1<<idx)[:size] with the same size parameter and the same class expression idx = index(uint32(size)); " +
			"(2) Pool.Put classifies by cap(buf) (never len) and stores under the class below whenever cap is not exactly the class capacity, so a later Get never exposes memory beyond the slice's capacity; " +
			"(3) the class index is in range (shared with C20.4); (4) after every bsPool.Put/rbPool.Put the pooled value is not read again on any path before its holder is overwritten, and holders that live in a struct field " +
			"are overwritten before returning; (5) the ring-buffer pool resets a buffer before pooling it and falls back to ring.New; (6) the Put call sites and the origin of their arguments are an enumerated table. " +
			"Aliasing as a relation between live slices over histories and sync.Pool's GC behaviour are not decided.",
		Assumptions: []string{"sync.Pool never hands one object to two Get callers", "unsafe.Slice/SliceData behave as documented"}})

	register(&core.Rule{ID: "C12.1", Prop: "C12", MinSites: 3,
		Desc: "Get shape: non-nil returns are make([]byte, size, 1<<idx) / unsafe.Slice(ptr, 1<<idx)[:size] / make([]byte, size), with idx = index(uint32(size)) of the same size parameter",
		Run:  runC12_1})
	register(&core.Rule{ID: "C12.2", Prop: "C12", MinSites: 3,
		Desc: "Put class: the class is computed from cap(buf), decremented when cap != 1<<idx, and zero / oversized capacities are dropped",
		Run:  runC12_2})
	register(&core.Rule{ID: "C12.4", Prop: "C12", MinSites: 8,
		Desc: "no use after Put: after a slice/ring is returned to a pool it is not read again before its holder is reassigned; struct-field holders are cleared/replaced before the function returns",
		Run:  runC12_4})
	register(&core.Rule{ID: "C12.5", Prop: "C12", MinSites: 2,
		Desc: "ring-buffer pool: Put resets the buffer before pooling it; Get falls back to ring.New",
		Run:  runC12_5})
	register(&core.Rule{ID: "C12.6", Prop: "C12", MinSites: 10,
		Desc: "Put sites are an enumerated table of owners whose arguments are pool-obtained buffers, caller-owned parameters of the ownership-taking API, or the documented zone-string exception",
		Run:  runC12_6})
}

func runC12_1(c *core.Ctx) {
	f := getFn(c, "pkg/pool/byteslice", "Pool.Get")
	idxFn := c.P.Func("pkg/pool/byteslice", "index")
	if f == nil || !c.Need("byteslice.index", idxFn) {
		return
	}
	size := f.param(0)
	// idx := index(uint32(size))
	var idxObj types.Object
	ast.Inspect(f.Decl.Body, func(n ast.Node) bool {
		if as, ok := n.(*ast.AssignStmt); ok && len(as.Lhs) == 1 && len(as.Rhs) == 1 {
			if call, ok := ast.Unparen(as.Rhs[0]).(*ast.CallExpr); ok && flow.IsCall(f.Info, call, idxFn) && len(call.Args) == 1 {
				arg := ast.Unparen(call.Args[0])
				if conv, ok := arg.(*ast.CallExpr); ok && len(conv.Args) == 1 {
					arg = ast.Unparen(conv.Args[0])
				}
				if flow.ObjOf(f.Info, arg) == types.Object(size) {
					idxObj = flow.ObjOf(f.Info, as.Lhs[0])
				}
			}
		}
		return true
	})
	if idxObj == nil {
		c.Violate(f.Name, "class index", f.Decl.Pos(), "Get no longer computes its class as index(uint32(size)) of its size parameter")
		return
	}
	isClassCap := func(e ast.Expr) bool { // 1 << idx, possibly through a local that names it
		be, ok := seeThrough(f, e).(*ast.BinaryExpr)
		if !ok || be.Op != token.SHL {
			return false
		}
		cv := flow.ConstOf(f.Info, be.X)
		return cv != nil && cv.ExactString() == "1" && flow.ObjOf(f.Info, be.Y) == idxObj
	}
	isSize := func(e ast.Expr) bool { return flow.ObjOf(f.Info, e) == types.Object(size) }
	k := 0
	for _, b := range f.Graph().Exits() {
		r := b.Return
		if len(r.Results) != 1 || flow.IsNil(f.Info, r.Results[0]) {
			continue
		}
		k++
		e := ast.Unparen(r.Results[0])
		okk := false
		why := "unrecognised return shape"
		switch x := e.(type) {
		case *ast.CallExpr: // make([]byte, size[, 1<<idx])
			if id, ok := x.Fun.(*ast.Ident); ok && id.Name == "make" && len(x.Args) >= 2 && isSize(x.Args[1]) {
				if len(x.Args) == 2 || isClassCap(x.Args[2]) {
					okk = true
				} else {
					why = "the capacity of the fresh slice is not the class capacity 1<<idx"
				}
			} else {
				why = "the fresh slice is not made with the requested length"
			}
		case *ast.SliceExpr: // unsafe.Slice(ptr, 1<<idx)[:size]
			if x.Low == nil && x.High != nil && isSize(x.High) && x.Max == nil {
				if call, ok := ast.Unparen(x.X).(*ast.CallExpr); ok && flow.IsPkgFunc(f.Info, call, "unsafe", "Slice") && len(call.Args) == 2 && isClassCap(call.Args[1]) {
					okk = true
				} else if call, ok := ast.Unparen(x.X).(*ast.CallExpr); ok && len(call.Args) == 2 && isClassCap(call.Args[1]) {
					if sel, ok := call.Fun.(*ast.SelectorExpr); ok && sel.Sel.Name == "Slice" {
						okk = true
					}
				} else {
					why = "the recycled array is re-sliced with a capacity other than the class capacity 1<<idx"
				}
			} else {
				why = "the recycled slice is not cut to exactly the requested length"
			}
		}
		c.Check(okk, f.Name, "return #"+itoa(k)+" "+exprStr(e), r.Pos(), "length = size, capacity = class capacity of that size",
			why+": Get hands out a slice whose length is not the request or whose capacity exceeds the memory actually pooled under that class")
	}
}

func runC12_2(c *core.Ctx) {
	f := getFn(c, "pkg/pool/byteslice", "Pool.Put")
	idxFn := c.P.Func("pkg/pool/byteslice", "index")
	if f == nil || !c.Need("byteslice.index", idxFn) {
		return
	}
	buf := f.param(0)
	// size := cap(buf)
	var sizeObj, idxObj types.Object
	usesCap := false
	ast.Inspect(f.Decl.Body, func(n ast.Node) bool {
		as, ok := n.(*ast.AssignStmt)
		if !ok || len(as.Lhs) != 1 || len(as.Rhs) != 1 {
			return true
		}
		if call, ok := ast.Unparen(as.Rhs[0]).(*ast.CallExpr); ok {
			if id, ok := call.Fun.(*ast.Ident); ok && (id.Name == "cap" || id.Name == "len") && len(call.Args) == 1 && flow.ObjOf(f.Info, call.Args[0]) == types.Object(buf) {
				sizeObj = flow.ObjOf(f.Info, as.Lhs[0])
				usesCap = id.Name == "cap"
			}
			if flow.IsCall(f.Info, call, idxFn) {
				idxObj = flow.ObjOf(f.Info, as.Lhs[0])
			}
		}
		return true
	})
	c.Check(sizeObj != nil && usesCap, f.Name, "class from cap(buf)", f.Decl.Pos(), "the class is derived from the capacity",
		"Put classifies by len(buf) (or not by cap): a sub-slice with a short length but large capacity – or the reverse – is pooled under a class whose capacity its memory does not have")
	if idxObj == nil || sizeObj == nil {
		c.Violate(f.Name, "class index", f.Decl.Pos(), "Put does not compute index(cap)")
		return
	}
	// if size != 1<<idx { idx-- }
	dec := false
	ast.Inspect(f.Decl.Body, func(n ast.Node) bool {
		is, ok := n.(*ast.IfStmt)
		if !ok {
			return true
		}
		x, y, op, ok := flow.Cmp(is.Cond)
		if !ok || op != token.NEQ {
			return true
		}
		isCls := func(e ast.Expr) bool {
			be, ok := ast.Unparen(e).(*ast.BinaryExpr)
			return ok && be.Op == token.SHL && flow.ObjOf(f.Info, be.Y) == idxObj
		}
		if (flow.ObjOf(f.Info, x) == sizeObj && isCls(y)) || (flow.ObjOf(f.Info, y) == sizeObj && isCls(x)) {
			for _, st := range is.Body.List {
				if ids, ok := st.(*ast.IncDecStmt); ok && ids.Tok == token.DEC && flow.ObjOf(f.Info, ids.X) == idxObj {
					dec = true
				}
			}
		}
		return true
	})
	c.Check(dec, f.Name, "class below when cap != 1<<idx", f.Decl.Pos(), "foreign/odd capacities go to the class they can fully serve",
		"Put no longer lowers the class for capacities that are not an exact class capacity: a later Get re-slices the array to 1<<idx, beyond the memory that was pooled (out-of-bounds / aliasing of a neighbour's memory)")
	// zero and oversize are dropped before the index is computed: decided per class of the capacity
	// ({0}, [1, MaxInt32], (MaxInt32, ∞)) – an edge excludes a class when no value of the class takes it
	const (
		fNonZero = 1 << iota
		fBounded
	)
	zero := ival{lo: 0, hi: 0}
	over := ival{lo: 1 << 31, hiInf: true}
	p := &flow.Problem{Must: true}
	p.Edge = func(e *flow.Edge, in uint64) uint64 {
		if e.Cond == nil || e.Tag != nil {
			return in
		}
		x, y, op, ok := flow.Cmp(e.Cond)
		if !ok {
			return in
		}
		if flow.ObjOf(f.Info, y) == sizeObj {
			x, y, op = y, x, swapCmp(op)
		}
		if flow.ObjOf(f.Info, x) != sizeObj {
			return in
		}
		cv := flow.ConstOf(f.Info, y)
		if cv == nil {
			return in
		}
		k, exact := constant.Int64Val(constant.ToInt(cv))
		if !exact {
			return in
		}
		if t, ok := zero.cmp(op, k); ok && t != e.Sense {
			in |= fNonZero
		}
		if t, ok := over.cmp(op, k); ok && t != e.Sense {
			in |= fBounded
		}
		return in
	}
	sol := f.Graph().Solve(p)
	sol.Walk(func(b *flow.Block, i int, n ast.Node, before uint64) {
		for _, call := range flow.Calls(n) {
			if flow.IsCall(f.Info, call, idxFn) {
				c.Check(before&fNonZero != 0 && before&fBounded != 0, f.Name, "zero/oversize capacity dropped", call.Pos(), "index is computed only for capacities in [1, MaxInt32]",
					"Put computes a class for a zero or > MaxInt32 capacity: index(0-1) is 32 (out of range) and a nil array would be pooled", sol.Witness(b, fNonZero|fBounded)...)
			}
		}
	})
}

// poolPut matches bsPool.Put(x) / byteslice.Put / rbPool.Put and returns the argument.
func poolPut(f *fn, call *ast.CallExpr) (ast.Expr, string) {
	cf := flow.CalleeFunc(f.Info, call)
	if cf == nil || cf.Pkg() == nil || nameOf(cf) != "Put" || len(call.Args) != 1 {
		return nil, ""
	}
	switch cf.Pkg().Path() {
	case core.ModPath + "/pkg/pool/byteslice":
		return call.Args[0], "byteslice"
	case core.ModPath + "/pkg/pool/ringbuffer":
		return call.Args[0], "ringbuffer"
	}
	return nil, ""
}

func runC12_4(c *core.Ctx) {
	allFuncs(c, func(f *fn) {
		if strings.HasSuffix(f.Pkg.PkgPath, "/pkg/pool/byteslice") || strings.HasSuffix(f.Pkg.PkgPath, "/pkg/pool/ringbuffer") {
			return
		}
		var puts []*ast.CallExpr
		for _, call := range callsIn(f.Decl.Body, false) {
			if a, _ := poolPut(f, call); a != nil {
				puts = append(puts, call)
			}
		}
		for k, put := range puts {
			arg, _ := poolPut(f, put)
			path := flow.PathOf(f.Info, arg)
			construct := "Put(" + exprStr(arg) + ") #" + itoa(k+1)
			if !path.Valid() {
				// e.g. bs.StringToBytes(addr.Zone): nothing is held afterwards
				c.Ok(f.Name, construct, put.Pos(), "argument is a temporary; nothing keeps referring to it")
				continue
			}
			rootVar, _ := path.Root.(*types.Var)
			// a deferred Put runs when the function returns: whatever the function hands back must not be made of
			// the memory it gives away (a string view or a re-slice of the pooled buffer)
			deferred := false
			ast.Inspect(f.Decl.Body, func(x ast.Node) bool {
				if d, ok := x.(*ast.DeferStmt); ok {
					ast.Inspect(d, func(y ast.Node) bool {
						if y == ast.Node(put) {
							deferred = true
						}
						return true
					})
				}
				return true
			})
			if deferred && rootVar != nil && path.Sel == "" {
				var bad token.Pos
				ast.Inspect(f.Decl.Body, func(x ast.Node) bool {
					if _, isLit := x.(*ast.FuncLit); isLit {
						return false
					}
					if r, ok := x.(*ast.ReturnStmt); ok {
						for _, res := range r.Results {
							ast.Inspect(res, func(y ast.Node) bool {
								if id, ok := y.(*ast.Ident); ok && f.Info.Uses[id] == types.Object(rootVar) && bad == token.NoPos {
									bad = r.Pos()
								}
								return true
							})
						}
					}
					return true
				})
				if bad != token.NoPos {
					c.Violate(f.Name, construct, bad, "the value returned here is made of "+exprStr(arg)+", which the deferred Put hands to the pool at this very return: the caller holds a view of memory that now belongs to the pool and is overwritten by the next Get of its size class")
					continue
				}
			}
			fieldHolder := path.Sel != "" && rootVar != nil && (rootVar == f.recvVar()) // rb.buf, c.cache, b.rb
			const (
				sLive = iota
				sPut
			)
			type bad struct {
				pos token.Pos
				msg string
			}
			var bads []bad
			record := false
			step := func(n ast.Node, s int) int {
				// assignments first: the LHS of an assignment to the holder is not a read
				lhs := map[ast.Expr]bool{}
				ast.Inspect(n, func(x ast.Node) bool {
					if as, ok := x.(*ast.AssignStmt); ok {
						for _, l := range as.Lhs {
							lhs[ast.Unparen(l)] = true
						}
					}
					return true
				})
				flow.Events(n, func(x ast.Node) {
					switch y := x.(type) {
					case *ast.CallExpr:
						if y == put {
							s = sPut
						} else if s == sPut && record && fieldHolder {
							// a method called on the same object reads the pooled field inside
							if r := flow.Recv(y); r != nil && flow.ObjOf(f.Info, r) == path.Root {
								if cf := flow.CalleeFunc(f.Info, y); cf != nil {
									if methodReadsField(c, cf, strings.TrimPrefix(path.Sel, "."), 3) {
										bads = append(bads, bad{y.Pos(), exprStr(arg) + " is used by " + cf.Name() + "() after it was returned to the pool"})
									}
								}
							}
						}
					case *ast.AssignStmt:
						for _, l := range y.Lhs {
							lp := flow.PathOf(f.Info, l)
							if lp.Valid() && path.HasPrefix(lp) {
								s = sLive
							}
						}
					case *ast.SelectorExpr, *ast.Ident:
						e := x.(ast.Expr)
						if s == sPut && record && !lhs[e] {
							if ep := flow.PathOf(f.Info, e); ep.Valid() && ep == path {
								// the argument expression of the put itself is evaluated before the call
								if !(e.Pos() >= put.Pos() && e.End() <= put.End()) {
									bads = append(bads, bad{e.Pos(), exprStr(arg) + " is read after it was returned to the pool"})
								}
							}
						}
					}
				})
				return s
			}
			au := &flow.Auto{Start: sLive}
			au.Node = func(b *flow.Block, i int, n ast.Node, s int) int { return step(n, s) }
			g := f.Graph()
			sol := g.Run(au)
			record = true
			for _, b := range g.Blocks {
				if !sol.Seen[b.ID] {
					continue
				}
				for _, s0 := range flow.States(sol.In[b.ID]) {
					s := s0
					for _, n := range b.Nodes {
						s = step(n, s)
					}
					if b.Return != nil && s == sPut && fieldHolder {
						bads = append(bads, bad{b.Return.Pos(), "the function returns while " + exprStr(arg) + " still refers to the pooled object"})
					}
				}
			}
			record = false
			if len(bads) == 0 {
				c.Ok(f.Name, construct, put.Pos(), "not used again; holder reassigned before any read/return")
				continue
			}
			c.Violate(f.Name, construct, bads[0].pos, bads[0].msg+": the memory now belongs to the pool and may be handed to another connection, whose data this holder would read or overwrite")
		}
	})
}

func runC12_5(c *core.Ctx) {
	put := getFn(c, "pkg/pool/ringbuffer", "Pool.Put")
	get := getFn(c, "pkg/pool/ringbuffer", "Pool.Get")
	reset := c.P.Func("pkg/buffer/ring", "Buffer.Reset")
	newRing := c.P.Func("pkg/buffer/ring", "New")
	if put == nil || get == nil || !c.Need("ring.Reset", reset) || !c.Need("ring.New", newRing) {
		return
	}
	const fReset = 1
	p := &flow.Problem{Must: true}
	p.Node = func(b *flow.Block, i int, n ast.Node, in uint64) uint64 {
		for _, call := range flow.Calls(n) {
			if flow.IsCall(put.Info, call, reset) {
				in |= fReset
			}
		}
		return in
	}
	sol := put.Graph().Solve(p)
	found := false
	sol.Walk(func(b *flow.Block, i int, n ast.Node, before uint64) {
		for _, call := range flow.Calls(n) {
			if cf := flow.CalleeFunc(put.Info, call); cf != nil && nameOf(cf) == "Put" && cf.Pkg() != nil && cf.Pkg().Path() == "sync" {
				found = true
				c.Check(before&fReset != 0, put.Name, "Reset before pooling", call.Pos(), "a pooled ring buffer is always empty",
					"a ring buffer is put into the pool without Reset(): the next connection obtaining it would see the previous connection's bytes")
			}
		}
	})
	if !found {
		c.Violate(put.Name, "Reset before pooling", put.Decl.Pos(), "no sync.Pool.Put found")
	}
	fallback := false
	for _, b := range get.Graph().Exits() {
		if len(b.Return.Results) == 1 {
			if call, ok := ast.Unparen(b.Return.Results[0]).(*ast.CallExpr); ok && flow.IsCall(get.Info, call, newRing) {
				fallback = true
			}
		}
	}
	c.Check(fallback, get.Name, "fallback is ring.New", get.Decl.Pos(), "a fresh (empty) ring when the pool is empty", "Get no longer falls back to ring.New")
}

// putOwners: function -> reason its pool Put calls are legitimate.
var putOwners = map[string]string{
	"ring.(*Buffer).grow":           "the replaced backing array (obtained from Get or adopted at New) after its content was copied out",
	"linkedlist.(*Buffer).Read":     "segment of a popped node that was consumed completely",
	"linkedlist.(*Buffer).Discard":  "segment of a popped node that was discarded completely",
	"linkedlist.(*Buffer).WriteTo":  "segment of a popped node that was written completely",
	"linkedlist.(*Buffer).Reset":    "segments of all popped nodes",
	"linkedlist.(*Buffer).ReadFrom": "scratch slice from Get that received no bytes",
	"linkedlist.(*Buffer).FreeNode": "ownership-taking API: the caller gives the slice away",
	"gnet.(*conn).Discard":          "c.cache, allocated by Peek from Get",
	"gnet.(*conn).release":          "exception O2: zone strings of addresses (see DESIGN §6); not demonstrated to fail",
	"elastic.(*RingBuffer).Done":    "the connection's pooled ring",
	"elastic.(*RingBuffer).done":    "the connection's pooled ring once drained",
	"byteslice.Put":                 "package-level forwarding wrapper",
	"ringbuffer.Put":                "package-level forwarding wrapper",
}

func runC12_6(c *core.Ctx) {
	allFuncs(c, func(f *fn) {
		k := 0
		for _, call := range callsIn(f.Decl.Body, true) {
			arg, pool := poolPut(f, call)
			if arg == nil {
				continue
			}
			k++
			why, ok := putOwners[f.Name]
			if !ok && !f.Obj.Exported() {
				// an unexported helper that pools (part of) its own parameter on behalf of its callers:
				// accepted when every caller is an owner of the table
				usesParam := false
				sig := f.Obj.Type().(*types.Signature)
				ast.Inspect(arg, func(n ast.Node) bool {
					if id, isID := n.(*ast.Ident); isID {
						for i := 0; i < sig.Params().Len(); i++ {
							if f.Info.Uses[id] == types.Object(sig.Params().At(i)) {
								usesParam = true
							}
						}
						// `switch a := p.(type)`: the clause variable stands for the parameter
						if o, isVar := f.Info.Uses[id].(*types.Var); isVar && o != nil && !o.IsField() {
							ast.Inspect(f.Decl.Body, func(m ast.Node) bool {
								if ts, isTS := m.(*ast.TypeSwitchStmt); isTS {
									if as, isAs := ts.Assign.(*ast.AssignStmt); isAs && len(as.Rhs) == 1 {
										if ta, isTA := ast.Unparen(as.Rhs[0]).(*ast.TypeAssertExpr); isTA {
											for i := 0; i < sig.Params().Len(); i++ {
												if flow.ObjOf(f.Info, ta.X) == types.Object(sig.Params().At(i)) && o.Pos() >= ts.Pos() && o.Pos() <= ts.End() {
													usesParam = true
												}
											}
										}
									}
								}
								return true
							})
						}
					}
					return true
				})
				if usesParam {
					var callers []string
					allOwners := true
					allFuncs(c, func(g *fn) {
						for _, cc := range callsIn(g.Decl.Body, true) {
							if flow.IsCall(g.Info, cc, f.Obj) {
								callers = append(callers, g.Name)
								if _, isOwner := putOwners[g.Name]; !isOwner {
									allOwners = false
								}
							}
						}
					})
					if len(callers) > 0 && allOwners {
						ok, why = true, "helper that pools its argument for the owner(s) "+strings.Join(callers, ", ")
					}
				}
			}
			c.Check(ok, f.Name, pool+".Put("+exprStr(arg)+") #"+itoa(k), call.Pos(), "owner: "+why,
				"a buffer is returned to the "+pool+" pool from a function that is not in the table of owners: memory still referenced elsewhere (or never obtained from the pool) may be recycled")
		}
	})
}

// methodReadsField reports whether the method mentions the named field of its
// receiver, directly or through the methods it calls on the same receiver.
func methodReadsField(c *core.Ctx, m *types.Func, field string, depth int) bool {
	hf := fnOf(c, m)
	if hf == nil || hf.Decl.Body == nil || hf.recvVar() == nil {
		return false
	}
	recv := types.Object(hf.recvVar())
	reads := false
	ast.Inspect(hf.Decl.Body, func(n ast.Node) bool {
		if reads {
			return false
		}
		switch x := n.(type) {
		case *ast.SelectorExpr:
			if x.Sel.Name == field && flow.ObjOf(hf.Info, x.X) == recv {
				reads = true
			}
		case *ast.CallExpr:
			if depth > 0 {
				if r := flow.Recv(x); r != nil && flow.ObjOf(hf.Info, r) == recv {
					if cf := flow.CalleeFunc(hf.Info, x); cf != nil && cf != m && methodReadsField(c, cf, field, depth-1) {
						reads = true
					}
				}
			}
		}
		return true
	})
	return reads
}
