package rules

import (
	"go/ast"
	"go/constant"
	"go/token"
	"go/types"

	"gnetlint/core"
	"gnetlint/flow"
)

func init() {
	describe(&PropInfo{ID: "C14", QuickConfigs: []core.Config{cfgGCOpt},
		Explanation: "Decides co-update clauses of the connection registry in both build variants: (1) addConn adjusts the count by exactly +1 on every path that stores the conn (and by 0 on the path that stores nothing), " +
			"delConn nets exactly -1 on every path; (2) map variant: add, delete and lookup use the same key c.fd / fd; matrix variant (gc_opt): every relocation of an entry is accompanied, on the same path, by UpdateIndexes " +
			"with the destination indexes, the store of the new gfd into the moved conn and into the reverse index fd2gfd under the moved conn's fd, and happens only when compaction is not disabled; " +
			"(3) iterate brackets its loops with disableCompact=true and a deferred reset; (4) getConn goes through the reverse index and tolerates a missing row; (5) addConn derives c.gfd and the reverse-index entry from one value " +
			"built from the current row/column. The position-dependent correctness of compaction over histories is not decided.",
		Assumptions: []string{"the registry is used only from its own loop (C05.1)"}})

	register(&core.Rule{ID: "C14.1", Prop: "C14", MinSites: 3,
		Desc: "count pairing: addConn counts +1 exactly when it stores the conn; every path of delConn nets -1",
		Run:  runC14_1})
	register(&core.Rule{ID: "C14.2", Prop: "C14", MinSites: 2,
		Desc: "key/ index agreement: map variant uses c.fd for add/delete and fd for lookup; matrix variant co-updates UpdateIndexes, conn.gfd and fd2gfd on every relocation path, with the destination indexes, and only when compaction is enabled",
		Run:  runC14_2})
	register(&core.Rule{ID: "C14.3", Prop: "C14", MinSites: 2, Applies: func(c core.Config) bool { return c.HasTag("gc_opt") },
		Desc: "iterate sets disableCompact = true before visiting and resets it by defer; delConn relocates only on the disableCompact == false edge",
		Run:  runC14_3})
	register(&core.Rule{ID: "C14.4", Prop: "C14", MinSites: 1,
		Desc: "lookup: getConn returns the table/map entry addressed by the descriptor (matrix: through fd2gfd with the ok test and the nil-row test)",
		Run:  runC14_4})
	register(&core.Rule{ID: "C14.6", Prop: "C14", MinSites: 3, Applies: func(c core.Config) bool { return c.HasTag("gc_opt") },
		Desc: "relocation scan coverage: the backward search for the last live entry starts at the last row/column (RowMax-1, ColumnMax-1), goes down to the vacated row (>=) and, in every other row, down to column 0 (lower bound -1, raised to the vacated column only in the vacated row)",
		Run:  runC14_6})
	register(&core.Rule{ID: "C14.5", Prop: "C14", MinSites: 1,
		Desc: "addConn sets c.gfd from NewGFD(c.fd, index, row, column) and (matrix) stores that same value in fd2gfd[c.fd] and the conn at table[row][column]",
		Run:  runC14_5})
}

type regAnch struct {
	gc                                          bool
	add, del, get, iter, inc                    *fn
	table, fd2gfd, connMap, disable, rowF, colF *types.Var
	connFd, connGfd                             *types.Var
	newGFD, update                              *types.Func
}

func regAnchors(c *core.Ctx) *regAnch {
	a := &regAnch{gc: c.P.Cfg.HasTag("gc_opt")}
	a.add, a.del, a.get, a.iter, a.inc = getFn(c, "", "connMatrix.addConn"), getFn(c, "", "connMatrix.delConn"), getFn(c, "", "connMatrix.getConn"), getFn(c, "", "connMatrix.iterate"), getFn(c, "", "connMatrix.incCount")
	a.connFd, a.connGfd = c.P.Field("", "conn", "fd"), c.P.Field("", "conn", "gfd")
	a.newGFD, a.update = c.P.Func("internal/gfd", "NewGFD"), c.P.Func("internal/gfd", "GFD.UpdateIndexes")
	ok := a.add != nil && a.del != nil && a.get != nil && a.iter != nil && a.inc != nil && c.Need("conn.fd", a.connFd) && c.Need("conn.gfd", a.connGfd) && c.Need("NewGFD", a.newGFD) && c.Need("UpdateIndexes", a.update)
	if a.gc {
		a.table, a.fd2gfd, a.disable = c.P.Field("", "connMatrix", "table"), c.P.Field("", "connMatrix", "fd2gfd"), c.P.Field("", "connMatrix", "disableCompact")
		a.rowF, a.colF = c.P.Field("", "connMatrix", "row"), c.P.Field("", "connMatrix", "column")
		ok = ok && c.Need("table", a.table) && c.Need("fd2gfd", a.fd2gfd) && c.Need("disableCompact", a.disable) && c.Need("row", a.rowF) && c.Need("column", a.colF)
	} else {
		a.connMap = c.P.Field("", "connMatrix", "connMap")
		ok = ok && c.Need("connMap", a.connMap)
	}
	if !ok {
		return nil
	}
	return a
}

// storeTarget: the assignment stores into cm.table[..][..] / cm.connMap[..]; returns the innermost container field.
func (a *regAnch) storeInto(f *fn, l ast.Expr) *types.Var {
	e := seeThrough(f, l) // a row may have been given a name: conns := cm.table[row]
	for {
		ie, ok := e.(*ast.IndexExpr)
		if !ok {
			break
		}
		e = seeThrough(f, ie.X)
	}
	return flow.FieldOf(f.Info, e)
}

func (a *regAnch) incDelta(f *fn, call *ast.CallExpr) (int64, bool) {
	if !flow.IsCall(f.Info, call, a.inc.Obj) || len(call.Args) != 2 {
		return 0, false
	}
	cv := flow.ConstOf(f.Info, call.Args[1])
	if cv == nil {
		return 0, false
	}
	k, _ := constant.Int64Val(cv)
	return k, true
}

func runC14_1(c *core.Ctx) {
	a := regAnchors(c)
	if a == nil {
		return
	}
	container := a.connMap
	if a.gc {
		container = a.table
	}
	// addConn: state = stored(1) | (sum+2)<<1
	sumAuto := func(f *fn, storeEvent func(n ast.Node) bool) *flow.Solution {
		au := &flow.Auto{Start: 0 | 2<<1}
		au.Node = func(b *flow.Block, i int, n ast.Node, s int) int {
			stored, sum := s&1, (s>>1)-2
			if storeEvent(n) {
				stored = 1
			}
			for _, call := range flow.Calls(n) {
				if d, ok := a.incDelta(f, call); ok {
					sum += int(d)
				}
			}
			if sum < -2 {
				sum = -2
			}
			if sum > 2 {
				sum = 2
			}
			return stored | (sum+2)<<1
		}
		return f.Graph().Run(au)
	}
	f := a.add
	sol := sumAuto(f, func(n ast.Node) bool {
		if as, ok := n.(*ast.AssignStmt); ok {
			for k, l := range as.Lhs {
				if a.storeInto(f, l) == container && len(as.Rhs) == len(as.Lhs) && f.Info.TypeOf(as.Rhs[k]) != nil {
					if _, isPtr := f.Info.TypeOf(as.Rhs[k]).(*types.Pointer); isPtr {
						return true
					}
				}
			}
		}
		return false
	})
	k := 0
	sol.AtExit(func(b *flow.Block, _ uint64) {
		k++
		okk := true
		for _, s := range flow.States(sol.Out(b)) {
			stored, sum := s&1, (s>>1)-2
			if (stored == 1) != (sum == 1) || (stored == 0 && sum != 0) {
				okk = false
			}
		}
		c.Check(okk, f.Name, "count +1 iff stored (return #"+itoa(k)+")", b.Return.Pos(), "counter and table move together",
			"addConn can store a connection without counting it exactly once (or count one it did not store): CountConnections and the least-connections balancer drift from the live connections")
	})
	f = a.del
	sol = sumAuto(f, func(ast.Node) bool { return false })
	k = 0
	sol.AtExit(func(b *flow.Block, _ uint64) {
		k++
		okk := true
		for _, s := range flow.States(sol.Out(b)) {
			if (s>>1)-2 != -1 {
				okk = false
			}
		}
		c.Check(okk, f.Name, "count nets -1 (return #"+itoa(k)+")", b.Return.Pos(), "exactly one connection less on every path",
			"a path of delConn does not net exactly -1 on the connection counters: the count drifts from the live connections (relocations must be a -1/+1 pair)")
	})
	// incCount adds its delta atomically to the counter of the given row
	added := false
	for _, call := range callsIn(a.inc.Decl.Body, false) {
		if flow.IsPkgFunc(a.inc.Info, call, "sync/atomic", "AddInt32") && len(call.Args) == 2 && flow.ObjOf(a.inc.Info, call.Args[1]) == types.Object(a.inc.param(1)) {
			added = true
		}
	}
	c.Check(added, a.inc.Name, "incCount adds delta", a.inc.Decl.Pos(), "atomic.AddInt32(counter, delta)", "incCount no longer adds its delta argument to the counter")
}

func runC14_2(c *core.Ctx) {
	a := regAnchors(c)
	if a == nil {
		return
	}
	if !a.gc {
		// map variant: cm.connMap[c.fd] = c ; delete(cm.connMap, c.fd) ; cm.connMap[fd]
		keyIsConnFd := func(f *fn, e ast.Expr) bool { return flow.FieldOf(f.Info, e) == a.connFd }
		okAdd, okDel, okGet := false, false, false
		ast.Inspect(a.add.Decl.Body, func(n ast.Node) bool {
			if as, ok := n.(*ast.AssignStmt); ok && len(as.Lhs) == 1 {
				if ie, ok := ast.Unparen(as.Lhs[0]).(*ast.IndexExpr); ok && flow.FieldOf(a.add.Info, ie.X) == a.connMap && keyIsConnFd(a.add, ie.Index) &&
					flow.ObjOf(a.add.Info, as.Rhs[0]) == types.Object(a.add.param(0)) && flow.ObjOf(a.add.Info, ast.Unparen(ie.Index).(*ast.SelectorExpr).X) == types.Object(a.add.param(0)) {
					okAdd = true
				}
			}
			return true
		})
		for _, call := range callsIn(a.del.Decl.Body, false) {
			if id, ok := call.Fun.(*ast.Ident); ok && id.Name == "delete" && len(call.Args) == 2 && flow.FieldOf(a.del.Info, call.Args[0]) == a.connMap && keyIsConnFd(a.del, call.Args[1]) {
				okDel = true
			}
		}
		for _, b := range a.get.Graph().Exits() {
			if len(b.Return.Results) == 1 {
				if ie, ok := ast.Unparen(b.Return.Results[0]).(*ast.IndexExpr); ok && flow.FieldOf(a.get.Info, ie.X) == a.connMap && flow.ObjOf(a.get.Info, ie.Index) == types.Object(a.get.param(0)) {
					okGet = true
				}
			}
		}
		c.Check(okAdd, a.add.Name, "connMap[c.fd] = c", a.add.Decl.Pos(), "registered under its own descriptor", "addConn no longer stores the conn under its own descriptor c.fd")
		c.Check(okDel, a.del.Name, "delete(connMap, c.fd)", a.del.Decl.Pos(), "removed under its own descriptor", "delConn no longer deletes the entry of c.fd: the closed connection stays reachable and a new connection reusing the number is shadowed")
		c.Check(okGet, a.get.Name, "connMap[fd]", a.get.Decl.Pos(), "lookup by descriptor", "getConn no longer looks up connMap[fd]")
		return
	}
	f := a.del
	// relocation: cm.table[A][B] = cm.table[row][column]
	var reloc *ast.AssignStmt
	ast.Inspect(f.Decl.Body, func(n ast.Node) bool {
		if as, ok := n.(*ast.AssignStmt); ok && len(as.Lhs) == 1 && len(as.Rhs) == 1 && a.storeInto(f, as.Lhs[0]) == a.table {
			// (the moved entry may have been given a name inside the scan: last := cm.table[row][column])
			if rhs, isIdx := seeThroughAt(f, as.Rhs[0], as).(*ast.IndexExpr); isIdx && a.storeInto(f, rhs) == a.table {
				reloc = as
			}
		}
		return true
	})
	if reloc == nil {
		c.Violate(f.Name, "relocation", f.Decl.Pos(), "no relocation statement table[..][..] = table[..][..] found in the compacting delConn")
		return
	}
	dst := ast.Unparen(reloc.Lhs[0]).(*ast.IndexExpr)
	dstRow := exprStr(ast.Unparen(dst.X).(*ast.IndexExpr).Index)
	dstCol := exprStr(dst.Index)
	src := exprStr(seeThroughAt(f, reloc.Rhs[0], reloc))
	const (
		fUpd = 1 << iota
		fGfd
		fMap
		fEnabled
	)
	var gfdObj types.Object
	p := &flow.Problem{Must: true}
	p.Node = func(b *flow.Block, i int, n ast.Node, in uint64) uint64 {
		flow.Events(n, func(x ast.Node) {
			switch y := x.(type) {
			case *ast.CallExpr:
				if flow.IsCall(f.Info, y, a.update) && len(y.Args) == 2 && exprStr(y.Args[0]) == dstRow && exprStr(y.Args[1]) == dstCol {
					if r := flow.Recv(y); r != nil {
						gfdObj = flow.ObjOf(f.Info, r)
						in |= fUpd
					}
				}
			case *ast.AssignStmt:
				for k, l := range y.Lhs {
					if len(y.Rhs) != len(y.Lhs) {
						continue
					}
					// <moved conn>.gfd = gFd
					if flow.FieldOf(f.Info, l) == a.connGfd && flow.ObjOf(f.Info, y.Rhs[k]) == gfdObj && gfdObj != nil && in&fUpd != 0 {
						if sel, ok := ast.Unparen(l).(*ast.SelectorExpr); ok && exprStr(seeThroughAt(f, sel.X, y)) == src {
							in |= fGfd
						}
					}
					// cm.fd2gfd[gFd.Fd()] = gFd
					if ie, ok := ast.Unparen(l).(*ast.IndexExpr); ok && flow.FieldOf(f.Info, ie.X) == a.fd2gfd && flow.ObjOf(f.Info, y.Rhs[k]) == gfdObj && gfdObj != nil && in&fUpd != 0 {
						if call, ok := ast.Unparen(ie.Index).(*ast.CallExpr); ok {
							if r := flow.Recv(call); r != nil && flow.ObjOf(f.Info, r) == gfdObj {
								in |= fMap
							}
						}
					}
				}
			}
		})
		return in
	}
	p.Edge = func(e *flow.Edge, in uint64) uint64 {
		if e.Cond != nil && e.Tag == nil && flow.FieldOf(f.Info, e.Cond) == a.disable && !e.Sense {
			in |= fEnabled
		}
		return in
	}
	sol := f.Graph().Solve(p)
	// at the relocation statement: enabled; at every return reachable after it: all three co-updates happened
	sol.Walk(func(b *flow.Block, i int, n ast.Node, before uint64) {
		if n == ast.Node(reloc) {
			c.Check(before&fEnabled != 0, f.Name, "relocation only when compaction is enabled", reloc.Pos(), "guarded by !disableCompact",
				"an entry can be relocated while an iteration is in progress (disableCompact is not tested on this path): the shutdown sweep would skip the moved connection or visit it twice", sol.Witness(b, fEnabled)...)
		}
	})
	au := &flow.Auto{Start: 0}
	au.Node = func(b *flow.Block, i int, n ast.Node, s int) int {
		v := uint64(s)
		if n == ast.Node(reloc) {
			v |= 8
		}
		v = v&8 | p.Node(b, i, n, v&7)
		return int(v)
	}
	rs := f.Graph().Run(au)
	k := 0
	rs.AtExit(func(b *flow.Block, _ uint64) {
		for _, s := range flow.States(rs.Out(b)) {
			if s&8 == 0 {
				continue
			}
			k++
			c.Check(s&7 == 7, f.Name, "relocation co-updates both indexes", b.Return.Pos(), "UpdateIndexes(dst), moved conn's gfd and fd2gfd[fd] updated together",
				"a path relocates a table entry without updating all of: the gfd indexes (to the destination "+dstRow+","+dstCol+"), the moved connection's gfd, and fd2gfd under its fd: later lookups of the moved connection miss it or hit another connection")
		}
	})
	if k == 0 {
		c.Violate(f.Name, "relocation co-updates both indexes", reloc.Pos(), "no return is reachable after the relocation statement")
	}
}

func runC14_3(c *core.Ctx) {
	a := regAnchors(c)
	if a == nil || !a.gc {
		return
	}
	f := a.iter
	// first statement-level: cm.disableCompact = true before any range loop; defer resets to false
	const fSet = 1
	p := &flow.Problem{Must: true}
	p.Node = func(b *flow.Block, i int, n ast.Node, in uint64) uint64 {
		if as, ok := n.(*ast.AssignStmt); ok {
			for k, l := range as.Lhs {
				if flow.FieldOf(f.Info, l) == a.disable && len(as.Rhs) == len(as.Lhs) {
					if cv := flow.ConstOf(f.Info, as.Rhs[k]); cv != nil && constant.BoolVal(cv) {
						in |= fSet
					}
				}
			}
		}
		return in
	}
	sol := f.Graph().Solve(p)
	visited := false
	sol.Walk(func(b *flow.Block, i int, n ast.Node, before uint64) {
		for _, call := range flow.Calls(n) {
			if flow.ObjOf(f.Info, call.Fun) == types.Object(f.param(0)) {
				visited = true
				c.Check(before&fSet != 0, f.Name, "visitor runs with compaction disabled", call.Pos(), "disableCompact = true precedes every visit",
					"the visitor (which closes connections during shutdown) can run while compaction is enabled: delConn relocates entries under the running iteration")
			}
		}
	})
	if !visited {
		c.Violate(f.Name, "visitor call", f.Decl.Pos(), "iterate never calls its visitor")
	}
	reset := false
	for _, d := range f.Graph().Defers {
		if fl, ok := d.Call.Fun.(*ast.FuncLit); ok {
			ast.Inspect(fl.Body, func(n ast.Node) bool {
				if as, ok := n.(*ast.AssignStmt); ok {
					for k, l := range as.Lhs {
						if flow.FieldOf(f.Info, l) == a.disable && len(as.Rhs) == len(as.Lhs) {
							if cv := flow.ConstOf(f.Info, as.Rhs[k]); cv != nil && !constant.BoolVal(cv) {
								reset = true
							}
						}
					}
				}
				return true
			})
		}
	}
	c.Check(reset, f.Name, "deferred reset of disableCompact", f.Decl.Pos(), "compaction re-enabled on every exit", "iterate no longer re-enables compaction by defer: after an early exit of the visitor the registry never compacts again (or stays disabled on panic)")
}

func runC14_4(c *core.Ctx) {
	a := regAnchors(c)
	if a == nil {
		return
	}
	f := a.get
	if !a.gc {
		c.Ok(f.Name, "lookup by descriptor", f.Decl.Pos(), "see C14.2 (map variant)")
		return
	}
	// gFD, ok := cm.fd2gfd[fd]; !ok -> nil; table[row] == nil -> nil; return table[gFD.row][gFD.col]
	var gObj types.Object
	ast.Inspect(f.Decl.Body, func(n ast.Node) bool {
		if as, ok := n.(*ast.AssignStmt); ok && len(as.Lhs) == 2 && len(as.Rhs) == 1 {
			if ie, ok := ast.Unparen(as.Rhs[0]).(*ast.IndexExpr); ok && flow.FieldOf(f.Info, ie.X) == a.fd2gfd && flow.ObjOf(f.Info, ie.Index) == types.Object(f.param(0)) {
				gObj = flow.ObjOf(f.Info, as.Lhs[0])
			}
		}
		return true
	})
	c.Check(gObj != nil, f.Name, "reverse index consulted", f.Decl.Pos(), "gfd looked up under the descriptor", "getConn no longer looks the descriptor up in fd2gfd")
	if gObj == nil {
		return
	}
	const (
		fOK = 1 << iota
		fRow
	)
	p := &flow.Problem{Must: true}
	p.Edge = func(e *flow.Edge, in uint64) uint64 {
		if e.Cond == nil || e.Tag != nil {
			return in
		}
		if o, ok := flow.ObjOf(f.Info, e.Cond).(*types.Var); ok && o.Type() == types.Typ[types.Bool] && e.Sense {
			in |= fOK
		}
		if x, y, op, ok := flow.Cmp(e.Cond); ok && flow.IsNil(f.Info, y) && a.storeInto(f, x) == a.table && (op == token.NEQ) == e.Sense {
			in |= fRow
		}
		return in
	}
	sol := f.Graph().Solve(p)
	found := false
	sol.AtExit(func(b *flow.Block, facts uint64) {
		r := b.Return
		if len(r.Results) != 1 || flow.IsNil(f.Info, r.Results[0]) {
			return
		}
		found = true
		ie, ok := ast.Unparen(r.Results[0]).(*ast.IndexExpr)
		shape := ok && a.storeInto(f, ie) == a.table
		usesG := 0
		if ok {
			count := func(e ast.Expr) {
				ast.Inspect(e, func(n ast.Node) bool {
					if id, ok := n.(*ast.Ident); ok && f.Info.Uses[id] == gObj {
						usesG++
					}
					return true
				})
			}
			count(ie.Index)
			count(seeThrough(f, ie.X)) // the row, possibly through a local
		}
		c.Check(shape && usesG == 2 && facts&fOK != 0 && facts&fRow != 0, f.Name, "entry addressed by the stored gfd", r.Pos(), "table[gfd.row][gfd.column] behind the ok and nil-row tests",
			"getConn returns an entry not addressed by the row/column of the descriptor's gfd, or without the ok / nil-row tests (index panic on a vacated row, or another connection returned)")
	})
	if !found {
		c.Violate(f.Name, "entry addressed by the stored gfd", f.Decl.Pos(), "getConn never returns a table entry")
	}
}

func runC14_5(c *core.Ctx) {
	a := regAnchors(c)
	if a == nil {
		return
	}
	f := a.add
	cParam := f.param(0)
	var newCall *ast.CallExpr
	ast.Inspect(f.Decl.Body, func(n ast.Node) bool {
		if as, ok := n.(*ast.AssignStmt); ok && len(as.Lhs) == 1 && len(as.Rhs) == 1 && flow.FieldOf(f.Info, as.Lhs[0]) == a.connGfd {
			if call, ok := ast.Unparen(as.Rhs[0]).(*ast.CallExpr); ok && flow.IsCall(f.Info, call, a.newGFD) {
				newCall = call
			}
		}
		return true
	})
	if newCall == nil || len(newCall.Args) != 4 {
		c.Violate(f.Name, "c.gfd = NewGFD(...)", f.Decl.Pos(), "addConn no longer assigns c.gfd from NewGFD")
		return
	}
	okFd := flow.FieldOf(f.Info, newCall.Args[0]) == a.connFd && flow.ObjOf(f.Info, ast.Unparen(newCall.Args[0]).(*ast.SelectorExpr).X) == types.Object(cParam)
	okIdx := flow.ObjOf(f.Info, newCall.Args[1]) == types.Object(f.param(1))
	c.Check(okFd && okIdx, f.Name, "NewGFD(c.fd, index, …)", newCall.Pos(), "gfd carries the conn's own descriptor and its loop index", "the gfd of a new connection is built from something other than its own descriptor and the loop index")
	if !a.gc {
		return
	}
	// cm.row / cm.column, or a local that took their value and is used before the cursor moves on
	cursor := func(e ast.Expr) *types.Var {
		if fl := flow.FieldOf(f.Info, e); fl != nil {
			return fl
		}
		id, ok := ast.Unparen(e).(*ast.Ident)
		if !ok {
			return nil
		}
		v, ok := f.Info.Uses[id].(*types.Var)
		if !ok {
			return nil
		}
		def := singleDef(f, v)
		if def == nil {
			return nil
		}
		fl := flow.FieldOf(f.Info, def)
		if fl != a.rowF && fl != a.colF {
			return nil
		}
		stale := false
		ast.Inspect(f.Decl.Body, func(n ast.Node) bool {
			var lhs []ast.Expr
			switch y := n.(type) {
			case *ast.AssignStmt:
				lhs = y.Lhs
			case *ast.IncDecStmt:
				lhs = []ast.Expr{y.X}
			case *ast.ForStmt, *ast.RangeStmt:
				if n.Pos() <= def.Pos() && e.End() <= n.End() {
					stale = true // inside a loop positions say nothing about order
				}
			}
			for _, l := range lhs {
				if flow.FieldOf(f.Info, l) == fl && n.Pos() > def.Pos() && n.Pos() < e.Pos() {
					stale = true
				}
			}
			return true
		})
		if stale {
			return nil
		}
		return fl
	}
	okPos := cursor(newCall.Args[2]) == a.rowF && cursor(newCall.Args[3]) == a.colF
	c.Check(okPos, f.Name, "NewGFD(…, cm.row, cm.column)", newCall.Pos(), "gfd records the slot the conn is stored in", "the gfd does not record the current row/column")
	// fd2gfd[c.fd] = c.gfd ; table[cm.row][cm.column] = c
	okMap, okTab := false, false
	ast.Inspect(f.Decl.Body, func(n ast.Node) bool {
		as, ok := n.(*ast.AssignStmt)
		if !ok || len(as.Lhs) != 1 || len(as.Rhs) != 1 {
			return true
		}
		if ie, ok := ast.Unparen(as.Lhs[0]).(*ast.IndexExpr); ok {
			if flow.FieldOf(f.Info, ie.X) == a.fd2gfd && flow.FieldOf(f.Info, ie.Index) == a.connFd && flow.FieldOf(f.Info, as.Rhs[0]) == a.connGfd {
				okMap = true
			}
			if a.storeInto(f, ie) == a.table && flow.ObjOf(f.Info, as.Rhs[0]) == types.Object(cParam) && cursor(ie.Index) == a.colF {
				if inner, ok := ast.Unparen(ie.X).(*ast.IndexExpr); ok && cursor(inner.Index) == a.rowF {
					okTab = true
				}
			}
		}
		return true
	})
	c.Check(okMap, f.Name, "fd2gfd[c.fd] = c.gfd", f.Decl.Pos(), "reverse index holds the same gfd", "addConn no longer stores c.gfd under c.fd in the reverse index")
	c.Check(okTab, f.Name, "table[cm.row][cm.column] = c", f.Decl.Pos(), "conn stored at the slot named by its gfd", "addConn stores the conn at a slot other than the one recorded in its gfd")
}

func runC14_6(c *core.Ctx) {
	a := regAnchors(c)
	if a == nil || !a.gc {
		return
	}
	f := a.del
	rowMax, _ := c.P.Object("internal/gfd", "ConnMatrixRowMax").(*types.Const)
	colMax, _ := c.P.Object("internal/gfd", "ConnMatrixColumnMax").(*types.Const)
	if !c.Need("ConnMatrixRowMax", rowMax) || !c.Need("ConnMatrixColumnMax", colMax) {
		return
	}
	isMaxMinus1 := func(e ast.Expr, k *types.Const) bool {
		be, ok := ast.Unparen(e).(*ast.BinaryExpr)
		if !ok || be.Op != token.SUB || flow.ObjOf(f.Info, be.X) != types.Object(k) {
			return false
		}
		cv := flow.ConstOf(f.Info, be.Y)
		return cv != nil && cv.ExactString() == "1"
	}
	isAccessor := func(e ast.Expr, name string) bool { // cgfd.ConnMatrixRow(), possibly through a local that names it
		call, ok := seeThrough(f, e).(*ast.CallExpr)
		if !ok {
			return false
		}
		cf := flow.CalleeFunc(f.Info, call)
		return cf != nil && cf.Name() == name
	}
	var loops []*ast.ForStmt
	ast.Inspect(f.Decl.Body, func(n ast.Node) bool {
		if fs, ok := n.(*ast.ForStmt); ok {
			loops = append(loops, fs)
		}
		return true
	})
	var rowLoop, colLoop *ast.ForStmt
	for _, fs := range loops {
		init, ok := fs.Init.(*ast.AssignStmt)
		if !ok || len(init.Lhs) != 1 {
			continue
		}
		if isMaxMinus1(init.Rhs[0], rowMax) {
			rowLoop = fs
		}
		if isMaxMinus1(init.Rhs[0], colMax) {
			colLoop = fs
		}
	}
	c.Check(rowLoop != nil && colLoop != nil, f.Name, "scan starts at the last slot", f.Decl.Pos(), "row from RowMax-1, column from ColumnMax-1", "the relocation scan no longer starts at the last row / last column: live entries in the skipped slots are never moved, and the next-free cursor is placed in front of them")
	if rowLoop == nil || colLoop == nil {
		return
	}
	// row loop: row >= vacatedRow ; row--
	okRow := false
	if x, y, op, ok := flow.Cmp(rowLoop.Cond); ok && op == token.GEQ && flow.ObjOf(f.Info, x) == flow.ObjOf(f.Info, rowLoop.Init.(*ast.AssignStmt).Lhs[0]) && isAccessor(y, "ConnMatrixRow") {
		if post, ok := rowLoop.Post.(*ast.IncDecStmt); ok && post.Tok == token.DEC {
			okRow = true
		}
	}
	c.Check(okRow, f.Name, "row scan reaches the vacated row", rowLoop.Pos(), "row >= vacated row, descending", "the row scan does not run down to and including the vacated row")
	// column loop: column > columnMin ; columnMin := -1 ; raised only under row == vacatedRow to vacated column
	okCol := false
	why := "the column scan is not `column > lower` descending"
	if x, y, op, ok := flow.Cmp(colLoop.Cond); ok && op == token.GTR && flow.ObjOf(f.Info, x) == flow.ObjOf(f.Info, colLoop.Init.(*ast.AssignStmt).Lhs[0]) {
		lower := flow.ObjOf(f.Info, y)
		if post, ok := colLoop.Post.(*ast.IncDecStmt); ok && post.Tok == token.DEC && lower != nil {
			// every assignment to lower
			initOK, raiseOK, other := false, true, false
			ast.Inspect(f.Decl.Body, func(n ast.Node) bool {
				switch st := n.(type) {
				case *ast.IfStmt:
					// if row == vacatedRow { lower = vacatedColumn }
					for _, b := range st.Body.List {
						if as, ok := b.(*ast.AssignStmt); ok && len(as.Lhs) == 1 && flow.ObjOf(f.Info, as.Lhs[0]) == lower && as.Tok == token.ASSIGN {
							cx, cy, cop, cok := flow.Cmp(st.Cond)
							if !(cok && cop == token.EQL && (isAccessor(cy, "ConnMatrixRow") || isAccessor(cx, "ConnMatrixRow")) && isAccessor(as.Rhs[0], "ConnMatrixColumn")) {
								raiseOK = false
							}
						}
					}
				case *ast.AssignStmt:
					if len(st.Lhs) == 1 && flow.ObjOf(f.Info, st.Lhs[0]) == lower {
						if st.Tok == token.DEFINE {
							if cv := flow.ConstOf(f.Info, st.Rhs[0]); cv != nil && cv.ExactString() == "-1" {
								initOK = true
							} else {
								other = true
							}
						}
					}
				}
				return true
			})
			switch {
			case !initOK || other:
				why = "the lower bound of the column scan is not initialised to -1: column 0 of the rows after the vacated one is never examined, so a live entry there is not relocated and the next-free cursor is placed in front of it (a later add overwrites it)"
			case !raiseOK:
				why = "the lower bound of the column scan is raised other than to the vacated column in the vacated row"
			default:
				okCol = true
			}
		}
	}
	c.Check(okCol, f.Name, "column scan reaches column 0 outside the vacated row", colLoop.Pos(), "column > -1 (> vacated column in the vacated row), descending", why)
}
