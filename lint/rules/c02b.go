package rules

import (
	"go/ast"
	"go/constant"
	"go/token"
	"go/types"

	"gnetlint/core"
	"gnetlint/flow"
)

func init() {
	register(&core.Rule{ID: "C02.11", Prop: "C02", MinSites: 3,
		Desc: "accepted means kept: in the *conn functions that write a payload parameter to the socket, no return is reachable before the payload was handed to a write/send call or appended to the outbound buffer (the pending-data edge appends, it does not just return the length)",
		Run:  runC02_11})
}

func runC02_11(c *core.Ctx) {
	a := outAnchors(c)
	if a == nil {
		return
	}
	for _, f := range a.connMethods() {
		var dataObj types.Object
		for _, call := range callsIn(f.Decl.Body, false) {
			if d, _ := a.streamWrite(f, call); d != nil {
				dataObj = flow.ObjOf(f.Info, d)
			}
		}
		if dataObj == nil {
			continue
		}
		// the payload is the parameter the syscall's data variable is (derived from)
		payload := map[types.Object]bool{dataObj: true}
		ast.Inspect(f.Decl.Body, func(n ast.Node) bool {
			if as, ok := n.(*ast.AssignStmt); ok && len(as.Lhs) == 1 && len(as.Rhs) == 1 && flow.ObjOf(f.Info, as.Lhs[0]) == dataObj {
				if v := baseVar(f.Info, as.Rhs[0]); v != nil {
					payload[v] = true
				}
			}
			return true
		})
		payload = derivedVars(f.Info, f.Decl.Body, payload)
		sig := f.Obj.Type().(*types.Signature)
		isParam := false
		for i := 0; i < sig.Params().Len(); i++ {
			if payload[sig.Params().At(i)] {
				isParam = true
			}
		}
		if !isParam {
			continue // (*eventloop).write style: the payload comes from the outbound buffer itself
		}
		p := &flow.Problem{Must: true}
		p.Node = func(b *flow.Block, i int, n ast.Node, in uint64) uint64 {
			for _, call := range flow.Calls(n) {
				if _, isConv := f.Info.Types[call.Fun]; isConv && f.Info.Types[call.Fun].IsType() {
					continue
				}
				if id, ok := ast.Unparen(call.Fun).(*ast.Ident); ok {
					if _, builtin := f.Info.Uses[id].(*types.Builtin); builtin {
						continue
					}
				}
				for _, arg := range call.Args {
					if v := baseVar(f.Info, arg); v != nil && payload[v] {
						in |= 1
					}
				}
			}
			return in
		}
		sol := f.Graph().Solve(p)
		k := 0
		sol.AtExit(func(b *flow.Block, facts uint64) {
			k++
			// an explicit refusal – count 0 together with a named error value such as net.ErrClosed – tells the
			// caller that nothing was accepted
			if r := b.Return; len(r.Results) == 2 {
				cv := flow.ConstOf(f.Info, r.Results[0])
				eo := flow.ObjOf(f.Info, r.Results[1])
				if cv != nil && cv.ExactString() == "0" && eo != nil && !flow.IsNil(f.Info, r.Results[1]) && isErrorType(eo.Type()) && eo.Pkg() != nil && eo.Parent() == eo.Pkg().Scope() {
					c.Ok(f.Name, "return #"+itoa(k)+" after the payload was handed on", r.Pos(), "explicit refusal: 0, "+exprStr(r.Results[1]))
					return
				}
			}
			c.Check(facts&1 != 0, f.Name, "return #"+itoa(k)+" after the payload was handed on", b.Return.Pos(),
				"payload written, sent or buffered before this return",
				"a return is reachable on which the payload "+dataObj.Name()+" was neither written nor appended to the outbound buffer although the caller is told it was accepted: those bytes are dropped from the stream")
		})
	}
}

// derivedVars returns seed plus every local variable that is assigned (anywhere in body) from an expression
// whose base variable – through slicing – is already in the set: p, q := p, r := q[k:] …
func derivedVars(info *types.Info, body ast.Node, seed map[types.Object]bool) map[types.Object]bool {
	out := map[types.Object]bool{}
	for k := range seed {
		out[k] = true
	}
	for changed := true; changed; {
		changed = false
		ast.Inspect(body, func(n ast.Node) bool {
			as, ok := n.(*ast.AssignStmt)
			if !ok || len(as.Lhs) != len(as.Rhs) {
				return true
			}
			for i, r := range as.Rhs {
				if v := baseVar(info, r); v != nil && out[v] {
					if lo := flow.ObjOf(info, as.Lhs[i]); lo != nil && !out[lo] {
						out[lo] = true
						changed = true
					}
				}
			}
			return true
		})
	}
	return out
}

// mentionsAny reports whether e mentions one of the objects, or a local assigned from an expression that does.
func taintedBy(info *types.Info, body ast.Node, seed types.Object) map[types.Object]bool {
	out := map[types.Object]bool{seed: true}
	for changed := true; changed; {
		changed = false
		ast.Inspect(body, func(n ast.Node) bool {
			as, ok := n.(*ast.AssignStmt)
			if !ok || len(as.Lhs) != len(as.Rhs) {
				return true
			}
			for i, r := range as.Rhs {
				hit := false
				ast.Inspect(r, func(m ast.Node) bool {
					if id, ok := m.(*ast.Ident); ok && out[info.Uses[id]] {
						hit = true
					}
					return true
				})
				if hit {
					if lo := flow.ObjOf(info, as.Lhs[i]); lo != nil && !out[lo] {
						if _, isVar := lo.(*types.Var); isVar && !lo.(*types.Var).IsField() {
							out[lo] = true
							changed = true
						}
					}
				}
			}
			return true
		})
	}
	return out
}

func init() {
	register(&core.Rule{ID: "C18.8", Prop: "C18", MinSites: 3,
		Desc: "a failed write is not reported as success: in the *conn functions that write a payload to the socket, every return on the edge where the write syscall failed with something other than EAGAIN hands back that error (the deferred close of the connection and the caller's error handling key on it)",
		Run:  runC18_8})
}

func runC18_8(c *core.Ctx) {
	a := outAnchors(c)
	if a == nil {
		return
	}
	for _, f := range a.connMethods() {
		var errObj types.Object
		ast.Inspect(f.Decl.Body, func(n ast.Node) bool {
			var lhs []ast.Expr
			var rhs ast.Expr
			switch x := n.(type) {
			case *ast.AssignStmt:
				if len(x.Rhs) == 1 {
					lhs, rhs = x.Lhs, x.Rhs[0]
				}
			}
			if rhs == nil {
				return true
			}
			if call, ok := ast.Unparen(rhs).(*ast.CallExpr); ok {
				if d, _ := a.streamWrite(f, call); d != nil && len(lhs) == 2 {
					errObj = flow.ObjOf(f.Info, lhs[1])
				}
			}
			return true
		})
		if errObj == nil {
			continue
		}
		const (
			sIdle = iota
			sSent
			sErr
			sHard
		)
		au := &flow.Auto{Start: sIdle}
		au.Node = func(b *flow.Block, i int, n ast.Node, s int) int {
			for _, call := range flow.Calls(n) {
				if d, _ := a.streamWrite(f, call); d != nil {
					s = sSent
				}
			}
			if as, ok := n.(*ast.AssignStmt); ok && s == sHard {
				for _, l := range as.Lhs {
					if flow.ObjOf(f.Info, l) == errObj {
						s = sIdle // the error variable was replaced deliberately
					}
				}
			}
			return s
		}
		au.Edge = func(e *flow.Edge, s int) int {
			if e.Cond == nil || e.Tag != nil {
				return s
			}
			switch s {
			case sSent:
				if x, y, op, ok := flow.Cmp(e.Cond); ok && flow.IsNil(f.Info, y) && flow.ObjOf(f.Info, x) == errObj {
					if (op == token.NEQ) == e.Sense {
						return sErr
					}
					return sIdle
				}
			case sErr:
				if isErrnoCmp(f, e.Cond, "EAGAIN") {
					if e.Sense {
						return sIdle
					}
					return sHard
				}
			}
			return s
		}
		sol := f.Graph().Run(au)
		k := 0
		sol.AtExit(func(b *flow.Block, _ uint64) {
			st := sol.Out(b)
			if st&(1<<sHard|1<<sErr) == 0 {
				return
			}
			k++
			r := b.Return
			okk := false
			if len(r.Results) == 0 {
				okk = true // bare return of the named error result that the syscall assigned
				if sig, ok := f.Obj.Type().(*types.Signature); ok {
					okk = false
					for i := 0; i < sig.Results().Len(); i++ {
						if types.Object(sig.Results().At(i)) == errObj {
							okk = true
						}
					}
				}
			}
			for _, res := range r.Results {
				ast.Inspect(res, func(m ast.Node) bool {
					if id, ok := m.(*ast.Ident); ok && f.Info.Uses[id] == errObj {
						okk = true
					}
					return true
				})
			}
			c.Check(okk, f.Name, "hard write error returned #"+itoa(k), r.Pos(), "the syscall's error reaches the caller",
				"after the write syscall failed with an error other than EAGAIN the function returns without that error: the deferred close does not fire and the caller believes the data was accepted, although the socket is broken")
		})
	}
}

func init() {
	register(&core.Rule{ID: "C02.14", Prop: "C02", MinSites: 3,
		Desc: "leftover of a partial vectored write: the segment loop cuts a segment (X[i] = X[i][B:]) only where the remaining byte budget B is established smaller than that segment, stops right after the cut (the cut is not on a cycle), and otherwise takes the whole segment off the budget (B -= len) before going on",
		Run:  runC02_14})
}

func runC02_14(c *core.Ctx) {
	a := outAnchors(c)
	if a == nil {
		return
	}
	sites := 0
	for _, f := range a.connMethods() {
		hasWritev := false
		for _, call := range callsIn(f.Decl.Body, false) {
			if _, name := a.streamWrite(f, call); name == "io.Writev" {
				hasWritev = true
			}
		}
		if !hasWritev {
			continue
		}
		// cuts: X[i] = X[i][B:]
		type cut struct {
			as      *ast.AssignStmt
			seg     string // printed X[i]
			budget  types.Object
			loopVar types.Object
		}
		var cuts []cut
		// the value variable of `for i, b := range X` stands for X[i] as long as the body does not assign it
		rangeAlias := map[types.Object]string{}
		ast.Inspect(f.Decl.Body, func(n ast.Node) bool {
			if rs, ok := n.(*ast.RangeStmt); ok && rs.Key != nil && rs.Value != nil && rs.Tok == token.DEFINE {
				if vo, ok := flow.ObjOf(f.Info, rs.Value).(*types.Var); ok && flow.ObjOf(f.Info, rs.Key) != nil && assignCount(f, vo) == 2 {
					rangeAlias[vo] = exprStr(rs.X) + "[" + exprStr(rs.Key) + "]"
				}
			}
			return true
		})
		exprStr := func(e ast.Expr) string {
			if o := flow.ObjOf(f.Info, e); o != nil {
				if s, ok := rangeAlias[o]; ok {
					return s
				}
			}
			return exprStr(e)
		}
		ast.Inspect(f.Decl.Body, func(n ast.Node) bool {
			as, ok := n.(*ast.AssignStmt)
			if !ok || len(as.Lhs) != 1 || len(as.Rhs) != 1 {
				return true
			}
			ie, ok := ast.Unparen(as.Lhs[0]).(*ast.IndexExpr)
			if !ok {
				return true
			}
			se, ok := ast.Unparen(as.Rhs[0]).(*ast.SliceExpr)
			if !ok || se.Low == nil || se.High != nil || exprStr(se.X) != exprStr(ie) {
				return true
			}
			if b := flow.ObjOf(f.Info, se.Low); b != nil {
				cuts = append(cuts, cut{as, exprStr(ie), b, flow.ObjOf(f.Info, ie.Index)})
			}
			return true
		})
		g := f.Graph()
		for k, ct := range cuts {
			ct := ct
			sites++
			// variables holding len(X[i])
			lenVars := map[types.Object]bool{}
			isLenSeg := func(e ast.Expr) bool {
				e = ast.Unparen(e)
				if call, ok := e.(*ast.CallExpr); ok && len(call.Args) == 1 {
					if id, ok := call.Fun.(*ast.Ident); ok && id.Name == "len" && exprStr(call.Args[0]) == ct.seg {
						return true
					}
				}
				return lenVars[flow.ObjOf(f.Info, e)] && flow.ObjOf(f.Info, e) != nil
			}
			ast.Inspect(f.Decl.Body, func(n ast.Node) bool {
				if as, ok := n.(*ast.AssignStmt); ok && len(as.Lhs) == 1 && len(as.Rhs) == 1 {
					if call, ok := ast.Unparen(as.Rhs[0]).(*ast.CallExpr); ok && len(call.Args) == 1 {
						if id, ok := call.Fun.(*ast.Ident); ok && id.Name == "len" && exprStr(call.Args[0]) == ct.seg {
							if o := flow.ObjOf(f.Info, as.Lhs[0]); o != nil {
								lenVars[o] = true
							}
						}
					}
				}
				return true
			})
			// (1) established B < len(X[i]) at the cut
			const fSmaller = 1
			p := &flow.Problem{Must: true}
			p.Node = func(b *flow.Block, i int, n ast.Node, in uint64) uint64 {
				for _, l := range flow.Assigned(n) {
					if o := flow.ObjOf(f.Info, l); o == ct.budget || (o != nil && o == ct.loopVar) {
						in = 0
					}
				}
				return in
			}
			p.Edge = func(e *flow.Edge, in uint64) uint64 {
				if e.Cond == nil || e.Tag != nil {
					return in
				}
				x, y, op, ok := flow.Cmp(e.Cond)
				if !ok {
					return in
				}
				if flow.ObjOf(f.Info, x) == ct.budget && isLenSeg(y) && ((op == token.LSS && e.Sense) || (op == token.GEQ && !e.Sense)) {
					in |= fSmaller
				}
				if flow.ObjOf(f.Info, y) == ct.budget && isLenSeg(x) && ((op == token.GTR && e.Sense) || (op == token.LEQ && !e.Sense)) {
					in |= fSmaller
				}
				return in
			}
			sol := g.Solve(p)
			var cutBlock *flow.Block
			established := false
			sol.Walk(func(b *flow.Block, i int, n ast.Node, before uint64) {
				if n == ast.Node(ct.as) {
					cutBlock = b
					established = before&fSmaller != 0
				}
			})
			construct := "cut " + ct.seg + " #" + itoa(k+1)
			c.Check(established, f.Name, construct+" only when the budget ends inside the segment", ct.as.Pos(), ct.budget.Name()+" < len("+ct.seg+") established",
				"the segment "+ct.seg+" is cut at "+ct.budget.Name()+" where "+ct.budget.Name()+" < len("+ct.seg+") is not established: a fully sent segment is kept (sent twice) or the slice goes out of range")
			// (2) the statements after the cut, in its own block, leave the segment loop
			onCycle := true
			ast.Inspect(f.Decl.Body, func(n ast.Node) bool {
				blk, ok := n.(*ast.BlockStmt)
				if !ok {
					return true
				}
				for i, st := range blk.List {
					if st != ast.Stmt(ct.as) {
						continue
					}
					rest := blk.List[i+1:]
					if len(rest) > 0 {
						switch last := rest[len(rest)-1].(type) {
						case *ast.BranchStmt:
							if last.Tok == token.BREAK || last.Tok == token.GOTO {
								onCycle = false
							}
						case *ast.ReturnStmt:
							onCycle = false
						}
					}
				}
				return true
			})
			c.Check(cutBlock != nil && !onCycle, f.Name, construct+" ends the scan", ct.as.Pos(), "no path leads from the cut back into the loop",
				"after cutting "+ct.seg+" the segment loop goes on: the following segments are measured against a budget that was already used up and are cut or skipped as well – unsent bytes are dropped from the stream")
			// (3) the budget is reduced by the whole segment elsewhere in the loop
			reduced := false
			ast.Inspect(f.Decl.Body, func(n ast.Node) bool {
				as, ok := n.(*ast.AssignStmt)
				if !ok || len(as.Lhs) != 1 || len(as.Rhs) != 1 || flow.ObjOf(f.Info, as.Lhs[0]) != ct.budget {
					return true
				}
				switch as.Tok {
				case token.SUB_ASSIGN:
					reduced = reduced || isLenSeg(as.Rhs[0])
				case token.ASSIGN:
					if be, ok := ast.Unparen(as.Rhs[0]).(*ast.BinaryExpr); ok && be.Op == token.SUB && flow.ObjOf(f.Info, be.X) == ct.budget && isLenSeg(be.Y) {
						reduced = true
					}
				}
				return true
			})
			c.Check(reduced, f.Name, construct+": whole segments come off the budget", ct.as.Pos(), ct.budget.Name()+" -= len("+ct.seg+")",
				"the byte budget "+ct.budget.Name()+" is never reduced by the length of a fully sent segment: the cut lands in the wrong segment and sent bytes are sent again")
		}
	}
	if sites == 0 {
		c.Undecided("gnet", "leftover loop of writev", 0, "no segment cut of the form X[i] = X[i][B:] found in the *conn function that calls io.Writev: idiom not recognised")
	}
}

func init() {
	register(&core.Rule{ID: "C02.18", Prop: "C02", MinSites: 6, Applies: func(c core.Config) bool { return c.IsLinux() },
		Desc: "the poller registers what its name says (epoll): AddRead/ModRead arm the read set, AddWrite the write set, AddReadWrite/ModReadWrite both – the one constant the event mask starts from has the value of ReadEvents / WriteEvents / ReadWriteEvents, EPOLLET is or-ed in exactly on the edgeTriggered edge, the epoll_ctl operation is ADD for Add*, MOD for Mod*, DEL for Delete, and the descriptor is the attachment's own; ReadEvents contains EPOLLIN and not EPOLLOUT, WriteEvents is EPOLLOUT. A connection whose pending output is armed for reading only is never written to again; one armed for writing only never delivers input",
		Run:  runC02_18})
	alias("C01", "C01.16", "C02.18", "input is delivered only for descriptors armed with the read set: an Add/Mod that drops EPOLLIN (or the edge-triggered flag in ET mode) silences the connection")
}

func runC02_18(c *core.Ctx) {
	constVal := func(rel, name string) constant.Value {
		if k, ok := c.P.Object(rel, name).(*types.Const); ok {
			return k.Val()
		}
		return nil
	}
	rd, wr, rw := constVal("pkg/netpoll", "ReadEvents"), constVal("pkg/netpoll", "WriteEvents"), constVal("pkg/netpoll", "ReadWriteEvents")
	if rd == nil || wr == nil || rw == nil {
		c.Undecided("anchor", "netpoll.ReadEvents/WriteEvents/ReadWriteEvents", token.NoPos, "constants not found")
		return
	}
	bit := func(name string) constant.Value {
		for _, pk := range c.P.Pkgs {
			for _, imp := range pk.Types.Imports() {
				if imp.Path() == unixPkg {
					if k, ok := imp.Scope().Lookup(name).(*types.Const); ok {
						return k.Val()
					}
				}
			}
		}
		return nil
	}
	in, out, et := bit("EPOLLIN"), bit("EPOLLOUT"), bit("EPOLLET")
	add, mod, del := bit("EPOLL_CTL_ADD"), bit("EPOLL_CTL_MOD"), bit("EPOLL_CTL_DEL")
	if in == nil || out == nil || et == nil || add == nil || mod == nil || del == nil {
		c.Undecided("anchor", "unix.EPOLL*", token.NoPos, "constants not found")
		return
	}
	has := func(v, b constant.Value) bool {
		return constant.Sign(constant.BinaryOp(constant.ToInt(v), token.AND, constant.ToInt(b))) != 0
	}
	eq := func(a, b constant.Value) bool {
		return constant.Compare(constant.ToInt(a), token.EQL, constant.ToInt(b))
	}
	f0 := getFn(c, "pkg/netpoll", "Poller.AddRead")
	if f0 == nil {
		return
	}
	c.Check(has(rd, in) && !has(rd, out) && eq(wr, out) && eq(rw, constant.BinaryOp(constant.ToInt(rd), token.OR, constant.ToInt(wr))), "netpoll", "event set constants", f0.Decl.Pos(), "ReadEvents ∋ EPOLLIN, ∌ EPOLLOUT; WriteEvents = EPOLLOUT; ReadWriteEvents = both",
		"the event-set constants no longer say what their names say: ReadEvents must contain EPOLLIN and not EPOLLOUT, WriteEvents must be EPOLLOUT, ReadWriteEvents their union")
	for _, op := range []struct {
		name string
		ctl  constant.Value
		set  constant.Value
	}{{"AddRead", add, rd}, {"AddWrite", add, wr}, {"AddReadWrite", add, rw}, {"ModRead", mod, rd}, {"ModReadWrite", mod, rw}, {"Delete", del, nil}} {
		f := getFn(c, "pkg/netpoll", "Poller."+op.name)
		if f == nil {
			continue
		}
		// the epoll_ctl call
		var ctl *ast.CallExpr
		for _, call := range callsIn(f.Decl.Body, false) {
			if cf := flow.CalleeFunc(f.Info, call); cf != nil && (nameOf(cf) == "EpollCtl" || nameOf(cf) == "epollCtl") && len(call.Args) == 4 {
				ctl = call
			}
		}
		if ctl == nil {
			c.Violate(f.Name, "epoll_ctl call", f.Decl.Pos(), "Poller."+op.name+" makes no epoll_ctl call")
			continue
		}
		cv := flow.ConstOf(f.Info, ctl.Args[1])
		c.Check(cv != nil && eq(cv, op.ctl), f.Name, "epoll_ctl operation", ctl.Pos(), "the operation its name says",
			"Poller."+op.name+" issues a different epoll_ctl operation than its name says (ADD for Add*, MOD for Mod*, DEL for Delete): the registration is not created, not changed or not removed")
		fdOK := false
		if sel, ok := seeThrough(f, ctl.Args[2]).(*ast.SelectorExpr); ok && flow.ObjOf(f.Info, sel.X) == types.Object(f.param(0)) && sel.Sel.Name == "FD" {
			fdOK = true
		}
		if flow.ObjOf(f.Info, ctl.Args[2]) == types.Object(f.param(0)) && op.set == nil {
			fdOK = true
		}
		c.Check(fdOK, f.Name, "descriptor", ctl.Pos(), "the attachment's own descriptor", "Poller."+op.name+" operates on a descriptor other than the one it was given")
		if op.set == nil {
			continue
		}
		// the one constant the mask starts from, and the or-ed flags
		var bases []constant.Value
		var basePos token.Pos
		etParam := f.param(1)
		const fET = 1
		p := &flow.Problem{Must: true}
		p.Edge = func(e *flow.Edge, inn uint64) uint64 {
			if e.Cond != nil && e.Tag == nil && e.Sense && flow.ObjOf(f.Info, e.Cond) == types.Object(etParam) {
				inn |= fET
			}
			return inn
		}
		sol := f.Graph().Solve(p)
		ors, orsOK := 0, true
		sol.Walk(func(b *flow.Block, i int, n ast.Node, before uint64) {
			// ev := epollevent{events: ReadEvents}
			ast.Inspect(n, func(x ast.Node) bool {
				if kv, ok := x.(*ast.KeyValueExpr); ok {
					if v := flow.ConstOf(f.Info, kv.Value); v != nil && v.Kind() == constant.Int {
						if id, ok := kv.Key.(*ast.Ident); ok {
							if fo, ok := f.Info.Uses[id].(*types.Var); ok && fo.IsField() {
								if bt, ok := fo.Type().Underlying().(*types.Basic); ok && bt.Kind() == types.Uint32 {
									bases = append(bases, v)
									basePos = kv.Pos()
								}
							}
						}
					}
				}
				return true
			})
			switch y := n.(type) {
			case *ast.AssignStmt:
				for k, r := range y.Rhs {
					v := flow.ConstOf(f.Info, r)
					if v == nil || v.Kind() != constant.Int || k >= len(y.Lhs) {
						continue
					}
					if bt, ok := f.Info.TypeOf(y.Lhs[k]).Underlying().(*types.Basic); !ok || bt.Kind() != types.Uint32 {
						continue
					}
					switch y.Tok {
					case token.ASSIGN, token.DEFINE:
						bases = append(bases, v)
						basePos = y.Pos()
					case token.OR_ASSIGN:
						ors++
						if !has(v, et) || has(v, in) || has(v, out) || before&fET == 0 {
							orsOK = false
						}
					default:
						orsOK = false
					}
				}
			case *ast.ValueSpec: // var ev uint32 = ReadEvents (go/cfg lists the specs of a declaration statement)
				for k, val := range y.Values {
					if v := flow.ConstOf(f.Info, val); v != nil && v.Kind() == constant.Int && k < len(y.Names) {
						if o := f.Info.Defs[y.Names[k]]; o != nil {
							if bt, ok := o.Type().Underlying().(*types.Basic); ok && bt.Kind() == types.Uint32 {
								bases = append(bases, v)
								basePos = y.Pos()
							}
						}
					}
				}
			}
		})
		if basePos == token.NoPos {
			basePos = f.Decl.Pos()
		}
		c.Check(len(bases) == 1 && eq(bases[0], op.set), f.Name, "event set", basePos, "the set its name says",
			"Poller."+op.name+" does not start its event mask from exactly the set its name says (ReadEvents / WriteEvents / ReadWriteEvents): the descriptor is armed for the wrong direction – pending output is never flushed, or input is never delivered")
		c.Check(ors == 1 && orsOK, f.Name, "edge-triggered flag", basePos, "EPOLLET or-ed in exactly on the edgeTriggered edge",
			"Poller."+op.name+" does not add EPOLLET (and only flags, no direction bits) exactly when edgeTriggered is set: an ET engine gets level-triggered registrations (its drain loops spin or starve) or an LT engine edge-triggered ones (events are lost)")
	}
}

func init() {
	register(&core.Rule{ID: "C02.19", Prop: "C02", MinSites: 2, Applies: func(c core.Config) bool { return c.IsLinux() },
		Desc: "the vector reaches writev(2) whole: pkg/io.Writev returns unix.Writev(fd, iov) with its own two parameters on every path except the one that established len(iov) == 0 (which reports 0 bytes and no error) – it neither truncates the vector nor answers for the kernel",
		Run:  runC02_19})
}

func runC02_19(c *core.Ctx) {
	f := getFn(c, "pkg/io", "Writev")
	if f == nil {
		return
	}
	const fEmpty = 1
	p := &flow.Problem{Must: true}
	p.Edge = func(e *flow.Edge, in uint64) uint64 {
		if e.Cond == nil || e.Tag != nil {
			return in
		}
		if x, y, op, ok := flow.Cmp(e.Cond); ok {
			if call, isCall := ast.Unparen(x).(*ast.CallExpr); isCall && len(call.Args) == 1 && flow.ObjOf(f.Info, call.Args[0]) == types.Object(f.param(1)) {
				if id, isId := call.Fun.(*ast.Ident); isId && id.Name == "len" {
					if cv := flow.ConstOf(f.Info, y); cv != nil {
						k, _ := constant.Int64Val(constant.ToInt(cv))
						// the edge admits only len == 0
						t0, ok0 := ival{lo: 0, hi: 0}.cmp(op, k)
						t1, ok1 := ival{lo: 1, hiInf: true}.cmp(op, k)
						if ok0 && ok1 && t0 == e.Sense && t1 != e.Sense {
							in |= fEmpty
						}
					}
				}
			}
		}
		return in
	}
	// the syscall on the function's own, never reassigned parameters
	const fCalled = 2
	ownCall := func(call *ast.CallExpr) bool {
		return flow.IsPkgFunc(f.Info, call, unixPkg, "Writev") && len(call.Args) == 2 &&
			flow.ObjOf(f.Info, seeThrough(f, call.Args[0])) == types.Object(f.param(0)) && flow.ObjOf(f.Info, seeThrough(f, call.Args[1])) == types.Object(f.param(1)) &&
			assignCount(f, f.param(0)) == 1 && assignCount(f, f.param(1)) == 1
	}
	var callResults []types.Object
	p.Node = func(b *flow.Block, i int, n ast.Node, in uint64) uint64 {
		for _, call := range flow.Calls(n) {
			if ownCall(call) {
				in |= fCalled
			}
		}
		return in
	}
	ast.Inspect(f.Decl.Body, func(n ast.Node) bool {
		if as, ok := n.(*ast.AssignStmt); ok && len(as.Rhs) == 1 {
			if call, ok := ast.Unparen(as.Rhs[0]).(*ast.CallExpr); ok && ownCall(call) {
				for _, l := range as.Lhs {
					callResults = append(callResults, flow.ObjOf(f.Info, l))
				}
			}
		}
		return true
	})
	sol := f.Graph().Solve(p)
	k := 0
	sol.AtExit(func(b *flow.Block, facts uint64) {
		r := b.Return
		if r == nil {
			return
		}
		k++
		good := false
		if len(r.Results) == 1 {
			if call, ok := ast.Unparen(r.Results[0]).(*ast.CallExpr); ok && ownCall(call) {
				good = true
			}
		}
		// n, err := unix.Writev(fd, iov); …; return n, err
		if len(r.Results) == 2 && facts&fCalled != 0 && len(callResults) == 2 {
			if flow.ObjOf(f.Info, r.Results[0]) == callResults[0] && flow.ObjOf(f.Info, r.Results[1]) == callResults[1] && callResults[0] != nil {
				v0, _ := callResults[0].(*types.Var)
				v1, _ := callResults[1].(*types.Var)
				if v0 != nil && v1 != nil && assignCount(f, v0) == 1 && assignCount(f, v1) == 1 {
					good = true
				}
			}
		}
		if len(r.Results) == 2 && facts&fEmpty != 0 {
			if cv := flow.ConstOf(f.Info, r.Results[0]); cv != nil && constant.Sign(cv) == 0 && flow.IsNil(f.Info, r.Results[1]) {
				good = true
			}
		}
		c.Check(good, f.Name, "return #"+itoa(k), r.Pos(), "unix.Writev(fd, iov), or (0, nil) for an empty vector",
			"io.Writev returns something other than the result of unix.Writev on its own parameters (or answers without the syscall for a non-empty vector): segments are dropped from the vector or reported as sent without having been written")
	})
}
