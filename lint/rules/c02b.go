package rules

import (
	"go/ast"
	"go/token"
	"go/types"

	"gnetlint/core"
	"gnetlint/flow"
)

func init() {
	register(&core.Rule{ID: "C02.11", Prop: "C02", MinSites: 3,
		Desc: "accepted means kept: in the *conn functions that write a payload parameter to the socket, no return is reachable before the payload was handed to a write/send call or appended to the outbound buffer (the pending-data edge appends, it does not just return the length)",
		Run: runC02_11})
}

func runC02_11(c *core.Ctx) {
	a := outAnchors(c)
	if a == nil {
		return
	}
	for _, f := range a.connMethods() {
		var dataObj types.Object
		for _, call := range callsIn(f.Decl.Body, false) {
			if d, _ := a.streamWrite(f, call); d != nil {
				dataObj = flow.ObjOf(f.Info, d)
			}
		}
		if dataObj == nil {
			continue
		}
		// the payload is the parameter the syscall's data variable is (derived from)
		payload := map[types.Object]bool{dataObj: true}
		ast.Inspect(f.Decl.Body, func(n ast.Node) bool {
			if as, ok := n.(*ast.AssignStmt); ok && len(as.Lhs) == 1 && len(as.Rhs) == 1 && flow.ObjOf(f.Info, as.Lhs[0]) == dataObj {
				if v := baseVar(f.Info, as.Rhs[0]); v != nil {
					payload[v] = true
				}
			}
			return true
		})
		payload = derivedVars(f.Info, f.Decl.Body, payload)
		sig := f.Obj.Type().(*types.Signature)
		isParam := false
		for i := 0; i < sig.Params().Len(); i++ {
			if payload[sig.Params().At(i)] {
				isParam = true
			}
		}
		if !isParam {
			continue // (*eventloop).write style: the payload comes from the outbound buffer itself
		}
		p := &flow.Problem{Must: true}
		p.Node = func(b *flow.Block, i int, n ast.Node, in uint64) uint64 {
			for _, call := range flow.Calls(n) {
				if _, isConv := f.Info.Types[call.Fun]; isConv && f.Info.Types[call.Fun].IsType() {
					continue
				}
				if id, ok := ast.Unparen(call.Fun).(*ast.Ident); ok {
					if _, builtin := f.Info.Uses[id].(*types.Builtin); builtin {
						continue
					}
				}
				for _, arg := range call.Args {
					if v := baseVar(f.Info, arg); v != nil && payload[v] {
						in |= 1
					}
				}
			}
			return in
		}
		sol := f.Graph().Solve(p)
		k := 0
		sol.AtExit(func(b *flow.Block, facts uint64) {
			k++
			c.Check(facts&1 != 0, f.Name, "return #"+itoa(k)+" after the payload was handed on", b.Return.Pos(),
				"payload written, sent or buffered before this return",
				"a return is reachable on which the payload "+dataObj.Name()+" was neither written nor appended to the outbound buffer although the caller is told it was accepted: those bytes are dropped from the stream")
		})
	}
}

// derivedVars returns seed plus every local variable that is assigned (anywhere in body) from an expression
// whose base variable – through slicing – is already in the set: p, q := p, r := q[k:] …
func derivedVars(info *types.Info, body ast.Node, seed map[types.Object]bool) map[types.Object]bool {
	out := map[types.Object]bool{}
	for k := range seed {
		out[k] = true
	}
	for changed := true; changed; {
		changed = false
		ast.Inspect(body, func(n ast.Node) bool {
			as, ok := n.(*ast.AssignStmt)
			if !ok || len(as.Lhs) != len(as.Rhs) {
				return true
			}
			for i, r := range as.Rhs {
				if v := baseVar(info, r); v != nil && out[v] {
					if lo := flow.ObjOf(info, as.Lhs[i]); lo != nil && !out[lo] {
						out[lo] = true
						changed = true
					}
				}
			}
			return true
		})
	}
	return out
}

// mentionsAny reports whether e mentions one of the objects, or a local assigned from an expression that does.
func taintedBy(info *types.Info, body ast.Node, seed types.Object) map[types.Object]bool {
	out := map[types.Object]bool{seed: true}
	for changed := true; changed; {
		changed = false
		ast.Inspect(body, func(n ast.Node) bool {
			as, ok := n.(*ast.AssignStmt)
			if !ok || len(as.Lhs) != len(as.Rhs) {
				return true
			}
			for i, r := range as.Rhs {
				hit := false
				ast.Inspect(r, func(m ast.Node) bool {
					if id, ok := m.(*ast.Ident); ok && out[info.Uses[id]] {
						hit = true
					}
					return true
				})
				if hit {
					if lo := flow.ObjOf(info, as.Lhs[i]); lo != nil && !out[lo] {
						if _, isVar := lo.(*types.Var); isVar && !lo.(*types.Var).IsField() {
							out[lo] = true
							changed = true
						}
					}
				}
			}
			return true
		})
	}
	return out
}

func init() {
	register(&core.Rule{ID: "C18.8", Prop: "C18", MinSites: 3,
		Desc: "a failed write is not reported as success: in the *conn functions that write a payload to the socket, every return on the edge where the write syscall failed with something other than EAGAIN hands back that error (the deferred close of the connection and the caller's error handling key on it)",
		Run: runC18_8})
}

func runC18_8(c *core.Ctx) {
	a := outAnchors(c)
	if a == nil {
		return
	}
	for _, f := range a.connMethods() {
		var errObj types.Object
		ast.Inspect(f.Decl.Body, func(n ast.Node) bool {
			var lhs []ast.Expr
			var rhs ast.Expr
			switch x := n.(type) {
			case *ast.AssignStmt:
				if len(x.Rhs) == 1 {
					lhs, rhs = x.Lhs, x.Rhs[0]
				}
			}
			if rhs == nil {
				return true
			}
			if call, ok := ast.Unparen(rhs).(*ast.CallExpr); ok {
				if d, _ := a.streamWrite(f, call); d != nil && len(lhs) == 2 {
					errObj = flow.ObjOf(f.Info, lhs[1])
				}
			}
			return true
		})
		if errObj == nil {
			continue
		}
		const (
			sIdle = iota
			sSent
			sErr
			sHard
		)
		au := &flow.Auto{Start: sIdle}
		au.Node = func(b *flow.Block, i int, n ast.Node, s int) int {
			for _, call := range flow.Calls(n) {
				if d, _ := a.streamWrite(f, call); d != nil {
					s = sSent
				}
			}
			if as, ok := n.(*ast.AssignStmt); ok && s == sHard {
				for _, l := range as.Lhs {
					if flow.ObjOf(f.Info, l) == errObj {
						s = sIdle // the error variable was replaced deliberately
					}
				}
			}
			return s
		}
		au.Edge = func(e *flow.Edge, s int) int {
			if e.Cond == nil || e.Tag != nil {
				return s
			}
			switch s {
			case sSent:
				if x, y, op, ok := flow.Cmp(e.Cond); ok && flow.IsNil(f.Info, y) && flow.ObjOf(f.Info, x) == errObj {
					if (op == token.NEQ) == e.Sense {
						return sErr
					}
					return sIdle
				}
			case sErr:
				if isErrnoCmp(f, e.Cond, "EAGAIN") {
					if e.Sense {
						return sIdle
					}
					return sHard
				}
			}
			return s
		}
		sol := f.Graph().Run(au)
		k := 0
		sol.AtExit(func(b *flow.Block, _ uint64) {
			st := sol.Out(b)
			if st&(1<<sHard|1<<sErr) == 0 {
				return
			}
			k++
			r := b.Return
			okk := false
			if len(r.Results) == 0 {
				okk = true // bare return of the named error result that the syscall assigned
				if sig, ok := f.Obj.Type().(*types.Signature); ok {
					okk = false
					for i := 0; i < sig.Results().Len(); i++ {
						if types.Object(sig.Results().At(i)) == errObj {
							okk = true
						}
					}
				}
			}
			for _, res := range r.Results {
				ast.Inspect(res, func(m ast.Node) bool {
					if id, ok := m.(*ast.Ident); ok && f.Info.Uses[id] == errObj {
						okk = true
					}
					return true
				})
			}
			c.Check(okk, f.Name, "hard write error returned #"+itoa(k), r.Pos(), "the syscall's error reaches the caller",
				"after the write syscall failed with an error other than EAGAIN the function returns without that error: the deferred close does not fire and the caller believes the data was accepted, although the socket is broken")
		})
	}
}
