package rules

import (
	"go/ast"
	"go/types"
	"sync"

	"gnetlint/core"
	"gnetlint/flow"
)

// vocab is the shared, computed vocabulary of package gnet (DESIGN §3): user-callback sites,
// the may-close summary and the anchors most rules need. Built once per program.
type vocab struct {
	P *core.Program

	connT, elT, engineT       *types.Named
	opened, fdF, pollAtt      *types.Var
	outbound, inbound, buffer *types.Var
	loopF                     *types.Var
	closeFn, releaseFn        *types.Func
	delConn, addConn, getConn *types.Func
	handler                   map[string]*types.Func // EventHandler methods
	asyncCB                   *types.Named
	runnableRun               *types.Func
	elasticIsEmpty            *types.Func

	funcs    []*fn // every function declaration of package gnet
	byObj    map[*types.Func]*fn
	mayClose map[*types.Func]bool // in-package functions that may run a user callback / close a connection
	ok       bool
}

var (
	vocabMu    sync.Mutex
	vocabCache = map[*core.Program]*vocab{}
)

func vocabOf(c *core.Ctx) *vocab {
	vocabMu.Lock()
	defer vocabMu.Unlock()
	if v, ok := vocabCache[c.P]; ok {
		if !v.ok {
			c.Undecided("anchor", "gnet vocabulary", 0, "core anchors of package gnet not resolved")
			return nil
		}
		return v
	}
	v := &vocab{P: c.P, handler: map[string]*types.Func{}, byObj: map[*types.Func]*fn{}, mayClose: map[*types.Func]bool{}}
	vocabCache[c.P] = v
	p := c.P
	v.connT, v.elT, v.engineT = p.Named("", "conn"), p.Named("", "eventloop"), p.Named("", "engine")
	v.opened, v.fdF, v.pollAtt = p.Field("", "conn", "opened"), p.Field("", "conn", "fd"), p.Field("", "conn", "pollAttachment")
	v.outbound, v.inbound, v.buffer = p.Field("", "conn", "outboundBuffer"), p.Field("", "conn", "inboundBuffer"), p.Field("", "conn", "buffer")
	v.loopF = p.Field("", "conn", "loop")
	v.closeFn, v.releaseFn = p.Func("", "eventloop.close"), p.Func("", "conn.release")
	v.delConn, v.addConn, v.getConn = p.Func("", "connMatrix.delConn"), p.Func("", "connMatrix.addConn"), p.Func("", "connMatrix.getConn")
	v.asyncCB = p.Named("", "AsyncCallback")
	v.elasticIsEmpty = p.Func("pkg/buffer/elastic", "Buffer.IsEmpty")
	for _, m := range []string{"OnBoot", "OnShutdown", "OnOpen", "OnClose", "OnTraffic", "OnTick"} {
		v.handler[m] = handlerMethod(c, m)
	}
	if rn := p.Named("", "Runnable"); rn != nil {
		if it, ok := rn.Underlying().(*types.Interface); ok && it.NumMethods() == 1 {
			v.runnableRun = it.Method(0)
		}
	}
	v.ok = v.connT != nil && v.elT != nil && v.engineT != nil && v.opened != nil && v.fdF != nil && v.pollAtt != nil &&
		v.outbound != nil && v.inbound != nil && v.buffer != nil && v.loopF != nil && v.closeFn != nil && v.releaseFn != nil &&
		v.delConn != nil && v.addConn != nil && v.getConn != nil && v.asyncCB != nil && v.runnableRun != nil && v.elasticIsEmpty != nil
	for _, m := range v.handler {
		if m == nil {
			v.ok = false
		}
	}
	if !v.ok {
		c.Undecided("anchor", "gnet vocabulary", 0, "core anchors of package gnet not resolved")
		return nil
	}
	pk := p.Pkg("")
	for _, d := range p.FuncsOf(pk) {
		obj, _ := pk.TypesInfo.Defs[d.Name].(*types.Func)
		if obj == nil {
			continue
		}
		f := &fn{P: p, Obj: obj, Decl: d, Info: pk.TypesInfo, Pkg: pk, Name: core.FuncName(obj)}
		v.funcs = append(v.funcs, f)
		v.byObj[obj] = f
	}
	// may-close summary: fixed point over static in-package calls (function literals included:
	// a literal defined in F is attributed to F, which is conservative).
	for changed := true; changed; {
		changed = false
		for _, f := range v.funcs {
			if v.mayClose[f.Obj] {
				continue
			}
			for _, call := range callsIn(f.Decl.Body, true) {
				if v.callMayClose(f.Info, call) {
					v.mayClose[f.Obj] = true
					changed = true
					break
				}
			}
		}
	}
	return v
}

// isConnCallback reports calls of EventHandler.OnOpen/OnTraffic/OnClose.
func (v *vocab) isConnCallback(info *types.Info, call *ast.CallExpr) string {
	f := flow.CalleeFunc(info, call)
	if f == nil {
		return ""
	}
	for _, m := range []string{"OnOpen", "OnTraffic", "OnClose"} {
		if flow.SameFunc(f, v.handler[m]) {
			return m
		}
	}
	return ""
}

// isUserCall reports any call into user code that runs on a loop and may close connections:
// EventHandler.On{Open,Traffic,Close}, AsyncCallback values, Runnable.Run.
func (v *vocab) isUserCall(info *types.Info, call *ast.CallExpr) string {
	if m := v.isConnCallback(info, call); m != "" {
		return "EventHandler." + m
	}
	if isCallbackCall(info, call, v.asyncCB) {
		return "AsyncCallback"
	}
	if f := flow.CalleeFunc(info, call); f != nil && flow.SameFunc(f, v.runnableRun) {
		return "Runnable.Run"
	}
	return ""
}

// callMayClose: the call may run user code or (*eventloop).close.
func (v *vocab) callMayClose(info *types.Info, call *ast.CallExpr) bool {
	if v.isUserCall(info, call) != "" {
		return true
	}
	switch o := flow.Callee(info, call).(type) {
	case *types.Func:
		if flow.SameFunc(o, v.closeFn) {
			return true
		}
		if v.mayClose[o] {
			return true
		}
	case *types.Var:
		// call through a func-typed parameter (iterate's visitor, Polling's callback): unknown code
		if _, isSig := o.Type().Underlying().(*types.Signature); isSig && !o.IsField() {
			if vs := flowFuncValuesAnywhere(v, info, o); vs != nil {
				for _, f := range vs {
					if v.mayClose[f] || flow.SameFunc(f, v.closeFn) {
						return true
					}
				}
				return false
			}
			return true
		}
	}
	return false
}

// flowFuncValuesAnywhere resolves a local func variable assigned only method values / function
// names inside its declaring function (e.g. addEvents := el.poller.AddRead).
func flowFuncValuesAnywhere(v *vocab, info *types.Info, o *types.Var) []*types.Func {
	for _, f := range v.funcs {
		if f.Decl.Pos() <= o.Pos() && o.Pos() <= f.Decl.End() {
			// parameters have no assignments: FuncValuesOfVar returns empty => treat as unknown
			vs := flow.FuncValuesOfVar(info, f.Decl.Body, o)
			if len(vs) == 0 {
				return nil
			}
			return vs
		}
	}
	return nil
}

func (v *vocab) isConnPtr(t types.Type) bool {
	p, ok := t.(*types.Pointer)
	return ok && types.Identical(p.Elem(), v.connT)
}

func (v *vocab) isLoopPtr(t types.Type) bool {
	p, ok := t.(*types.Pointer)
	return ok && types.Identical(p.Elem(), v.elT)
}
