package rules

import (
	"fmt"
	"go/ast"
	"go/constant"
	"go/token"
	"go/types"
	"sort"
	"strings"
	"sync"

	"gnetlint/core"
	"gnetlint/flow"
)

// connstate is the conn typestate analysis of DESIGN §3.3 (engine E2), run over every function
// and function literal of package gnet.
//
// Per *conn variable v it tracks the must-facts
//   LIVE(v)      the descriptor v.fd is known to be open and owned by v (fresh conn, v.opened
//                tested true, outbound buffer non-empty, nil-checked registry hit)
//   CLOSING(v)   delConn(v) has run: re-entrant closes are no-ops, so user code cannot end v
//   NOTCLOSED(v) unix.Close(v.fd) has not run on this path
// LIVE is lost at every may-close point (user callback, (*eventloop).close, anything reaching them)
// unless CLOSING holds.

type connSite struct {
	unit      string
	construct string
	pos       token.Pos
	kind      string // "fd" | "cb" | "call" | "close"
	varName   string
	v         *types.Var
	ok        bool
	msg       string
	witness   []string
	req       string // for kind "call"/"root": the kind of the underlying requirement ("fd", "cb", "fd+cb")
}

type connUnit struct {
	name   string
	f      *fn
	body   *ast.BlockStmt
	decl   *types.Func // nil for literals
	isLit  bool
	params map[*types.Var]int // conn params -> index (receiver = -1)
}

type connResult struct {
	sites    []connSite                     // evaluated with entry LIVE = true (genuine internal failures have ok=false)
	requires map[*types.Func]map[int]string // param index -> "fd", "cb" or "fd+cb"
	rootReq  []connSite                     // requirement at a root (function used as a value / literal) – entry-attributable failures
	units    int
}

var (
	connMu    sync.Mutex
	connCache = map[*core.Program]*connResult{}
)

const fdUsePkgs = "golang.org/x/sys/unix|" + core.ModPath + "/pkg/io|" + core.ModPath + "/pkg/socket|" + core.ModPath + "/pkg/netpoll"

func isFdUsePkg(path string) bool {
	for _, p := range strings.Split(fdUsePkgs, "|") {
		if p == path {
			return true
		}
	}
	return false
}

func connStateOf(c *core.Ctx, v *vocab) *connResult {
	connMu.Lock()
	defer connMu.Unlock()
	if r, ok := connCache[c.P]; ok {
		return r
	}
	res := &connResult{requires: map[*types.Func]map[int]string{}}
	connCache[c.P] = res

	var units []*connUnit
	for _, f := range v.funcs {
		u := &connUnit{name: f.Name, f: f, body: f.Decl.Body, decl: f.Obj, params: map[*types.Var]int{}}
		if rv := f.recvVar(); rv != nil && v.isConnPtr(rv.Type()) {
			u.params[rv] = -1
		}
		for i := 0; ; i++ {
			pv := f.param(i)
			if pv == nil {
				break
			}
			if v.isConnPtr(pv.Type()) {
				u.params[pv] = i
			}
		}
		units = append(units, u)
		k := 0
		ast.Inspect(f.Decl.Body, func(n ast.Node) bool {
			if fl, ok := n.(*ast.FuncLit); ok {
				k++
				units = append(units, &connUnit{name: fmt.Sprintf("%s$lit%d", f.Name, k), f: f, body: fl.Body, isLit: true, params: map[*types.Var]int{}})
			}
			return true
		})
	}
	res.units = len(units)

	// fixed point on requires
	for iter := 0; iter < 10; iter++ {
		changed := false
		for _, u := range units {
			if u.decl == nil || len(u.params) == 0 {
				continue
			}
			s0 := analyseConnUnit(v, u, false, res.requires)
			s1 := analyseConnUnit(v, u, true, res.requires)
			bad1 := map[string]bool{}
			for _, s := range s1 {
				if !s.ok {
					bad1[s.construct] = true
				}
			}
			for _, s := range s0 {
				if !s.ok && !bad1[s.construct] && s.v != nil {
					if idx, isParam := u.params[s.v]; isParam {
						if res.requires[u.decl] == nil {
							res.requires[u.decl] = map[int]string{}
						}
						nk := mergeReqKind(res.requires[u.decl][idx], s.reqKind())
						if res.requires[u.decl][idx] != nk {
							res.requires[u.decl][idx] = nk
							changed = true
						}
					}
				}
			}
		}
		if !changed {
			break
		}
	}
	// which functions are used as values (roots)?
	usedAsValue := map[*types.Func]token.Pos{}
	for _, f := range v.funcs {
		inCallPos := map[ast.Expr]bool{}
		ast.Inspect(f.Decl.Body, func(n ast.Node) bool {
			if call, ok := n.(*ast.CallExpr); ok {
				inCallPos[ast.Unparen(call.Fun)] = true
			}
			return true
		})
		selIdent := map[*ast.Ident]bool{}
		ast.Inspect(f.Decl.Body, func(n ast.Node) bool {
			if se, ok := n.(*ast.SelectorExpr); ok {
				selIdent[se.Sel] = true
			}
			return true
		})
		ast.Inspect(f.Decl.Body, func(n ast.Node) bool {
			e, ok := n.(ast.Expr)
			if !ok || inCallPos[e] {
				return true
			}
			if id, ok := e.(*ast.Ident); ok && selIdent[id] {
				return true
			}
			switch x := e.(type) {
			case *ast.SelectorExpr:
				if sel, ok := f.Info.Selections[x]; ok && sel.Kind() == types.MethodVal {
					if fo, ok := sel.Obj().(*types.Func); ok {
						usedAsValue[fo.Origin()] = x.Pos()
					}
				}
			case *ast.Ident:
				if fo, ok := f.Info.Uses[x].(*types.Func); ok {
					usedAsValue[fo.Origin()] = x.Pos()
				}
			}
			return true
		})
	}
	for _, u := range units {
		s1 := analyseConnUnit(v, u, true, res.requires)
		res.sites = append(res.sites, s1...)
		if u.decl != nil {
			if req := res.requires[u.decl]; len(req) > 0 {
				if pos, isVal := usedAsValue[u.decl.Origin()]; isVal {
					rk := ""
					for _, k := range req {
						rk = mergeReqKind(rk, k)
					}
					res.rootReq = append(res.rootReq, connSite{unit: u.name, construct: "entry: conn must be live", pos: pos, kind: "root", req: rk,
						msg: u.name + " uses the descriptor of its conn argument before establishing that the connection is still open, and it is used as a task/poll callback (its caller cannot vouch for the conn)"})
				}
			}
		} else {
			// literals: captured conns arrive unknown -> every entry-attributable failure is a root requirement
			s0 := analyseConnUnit(v, u, false, res.requires)
			bad1 := map[string]bool{}
			for _, s := range s1 {
				if !s.ok {
					bad1[s.construct] = true
				}
			}
			for _, s := range s0 {
				if !s.ok && !bad1[s.construct] {
					s.req = s.reqKind()
					s.kind = "root"
					res.rootReq = append(res.rootReq, s)
				}
			}
		}
	}
	sort.SliceStable(res.sites, func(i, j int) bool { return res.sites[i].pos < res.sites[j].pos })
	return res
}

// analyseConnUnit runs the typestate on one body and returns its sites.
func mergeReqKind(a, b string) string {
	fd := strings.Contains(a, "fd") || strings.Contains(b, "fd")
	cb := strings.Contains(a, "cb") || strings.Contains(b, "cb")
	switch {
	case fd && cb:
		return "fd+cb"
	case fd:
		return "fd"
	case cb:
		return "cb"
	}
	return ""
}

// reqKind: what kind of requirement a failing site stands for.
func (s connSite) reqKind() string {
	switch s.kind {
	case "cb":
		return "cb"
	case "call", "root":
		return s.req
	}
	return "fd"
}

func analyseConnUnit(v *vocab, u *connUnit, entryLive bool, requires map[*types.Func]map[int]string) []connSite {
	f := u.f
	info := f.Info
	// collect conn variables mentioned in the body
	idx := map[*types.Var]uint{}
	var vars []*types.Var
	ast.Inspect(u.body, func(n ast.Node) bool {
		if id, ok := n.(*ast.Ident); ok {
			var o types.Object = info.Uses[id]
			if o == nil {
				o = info.Defs[id]
			}
			if vv, ok := o.(*types.Var); ok && !vv.IsField() && v.isConnPtr(vv.Type()) {
				if _, seen := idx[vv]; !seen && len(vars) < 8 {
					idx[vv] = uint(len(vars))
					vars = append(vars, vv)
				}
			}
		}
		return true
	})
	if len(vars) == 0 {
		// no conn variable, but conn-typed expressions may still be passed on (el.read(a.(*conn)))
		has := false
		ast.Inspect(u.body, func(n ast.Node) bool {
			if e, ok := n.(ast.Expr); ok {
				if t := info.TypeOf(e); t != nil && v.isConnPtr(t) {
					has = true
				}
			}
			return !has
		})
		if !has {
			return nil
		}
		// a placeholder variable so that the machinery below has something to index
		vars = append(vars, types.NewVar(token.NoPos, nil, "_conn", types.NewPointer(v.connT)))
		idx[vars[0]] = 0
	}
	live := func(i uint) uint64 { return 1 << i }
	closing := func(i uint) uint64 { return 1 << (i + 8) }
	notClosed := func(i uint) uint64 { return 1 << (i + 16) }
	fromReg := func(i uint) uint64 { return 1 << (i + 24) }

	connVarOf := func(e ast.Expr) (*types.Var, bool) {
		vv, ok := flow.ObjOf(info, e).(*types.Var)
		if !ok {
			return nil, false
		}
		_, known := idx[vv]
		return vv, known
	}
	// fdArg: expression is v.fd or &v.pollAttachment / v.pollAttachment
	fdArg := func(e ast.Expr) *types.Var {
		p := flow.PathOf(info, e)
		if !p.Valid() {
			return nil
		}
		vv, ok := p.Root.(*types.Var)
		if !ok {
			return nil
		}
		if _, known := idx[vv]; !known {
			return nil
		}
		if p.Sel == ".fd" || p.Sel == ".pollAttachment" {
			return vv
		}
		return nil
	}
	isCtor := func(call *ast.CallExpr) bool {
		cf := flow.CalleeFunc(info, call)
		return cf != nil && v.byObj[cf] != nil && (nameOf(cf) == "newStreamConn" || nameOf(cf) == "newUDPConn")
	}
	calleePkg := func(call *ast.CallExpr) string {
		switch o := flow.Callee(info, call).(type) {
		case *types.Func:
			if o.Pkg() != nil {
				return o.Pkg().Path()
			}
		case *types.Var:
			if vs := flow.FuncValuesOfVar(info, u.f.Decl.Body, o); len(vs) > 0 && vs[0].Pkg() != nil {
				return vs[0].Pkg().Path()
			}
		}
		return ""
	}
	calleeName := func(call *ast.CallExpr) string {
		switch o := flow.Callee(info, call).(type) {
		case *types.Func:
			if o.Pkg() != nil {
				return o.Pkg().Name() + "." + flow.QualName(o)
			}
			return o.Name()
		case *types.Var:
			return o.Name()
		}
		return exprStr(call.Fun)
	}

	var sites []connSite
	record := false
	ordinal := map[string]int{}
	addSite := func(kind, construct string, vv *types.Var, pos token.Pos, ok bool, msg string) {
		if !record {
			return
		}
		ordinal[construct]++
		if k := ordinal[construct]; k > 1 {
			construct = fmt.Sprintf("%s #%d", construct, k)
		}
		sites = append(sites, connSite{unit: u.name, construct: construct, pos: pos, kind: kind, varName: vv.Name(), v: vv, ok: ok, msg: msg})
	}

	// step applies the events of node n to facts in, optionally recording sites.
	step := func(n ast.Node, in uint64) uint64 {
		flow.Events(n, func(x ast.Node) {
			switch e := x.(type) {
			case *ast.CallExpr:
				pkg := calleePkg(e)
				// descriptor uses
				if isFdUsePkg(pkg) {
					for _, a := range e.Args {
						if vv := fdArg(a); vv != nil {
							i := idx[vv]
							isClose := flow.IsPkgFunc(info, e, unixPkg, "Close")
							okLive := in&(live(i)|closing(i)) != 0
							okOpen := in&notClosed(i) != 0
							msg := "descriptor of " + vv.Name() + " known open here"
							if !okOpen {
								msg = vv.Name() + ".fd is used after unix.Close(" + vv.Name() + ".fd) ran on this path"
							} else if !okLive {
								msg = calleeName(e) + " uses " + vv.Name() + ".fd although a user callback or close may have closed the connection since it was last known open (the number may already belong to another connection)"
							}
							kind := "fd"
							if isClose {
								kind = "close"
							}
							addSite(kind, calleeName(e)+" on "+vv.Name(), vv, e.Pos(), okLive && okOpen, msg)
							if isClose {
								in &^= notClosed(i) | live(i)
							}
						}
					}
				}
				// user callbacks on a conn
				if m := v.isConnCallback(info, e); m != "" && len(e.Args) > 0 {
					if vv, ok := connVarOf(e.Args[0]); ok {
						i := idx[vv]
						good := in&live(i) != 0
						if m == "OnClose" {
							good = in&closing(i) != 0
						}
						msg := "callback on a connection known open"
						if !good {
							msg = "EventHandler." + m + " is invoked on " + vv.Name() + " although the connection may already have been closed (OnClose delivered) on this path"
						}
						addSite("cb", "EventHandler."+m+" on "+vv.Name(), vv, e.Pos(), good, msg)
					}
				}
				// in-package callee that requires a live conn
				if cf := flow.CalleeFunc(info, e); cf != nil && v.byObj[cf] != nil {
					if req := requires[cf]; len(req) > 0 {
						check := func(arg ast.Expr, k int) {
							if req[k] == "" || arg == nil {
								return
							}
							if _, isVar := connVarOf(arg); !isVar {
								if t := info.TypeOf(arg); t != nil && v.isConnPtr(t) && record {
									// a conn that is not held in a tracked variable (type assertion, field, call result): nothing is known about it
									pseudo := vars[0]
									ordinal["call "+core.FuncName(cf)+" with "+exprStr(arg)]++
									sites = append(sites, connSite{unit: u.name, construct: "call " + core.FuncName(cf) + " with " + exprStr(arg), pos: e.Pos(), kind: "call",
										varName: exprStr(arg), v: pseudo, ok: false, req: req[k],
										msg: core.FuncName(cf) + " uses the descriptor of / runs a handler callback on its conn before any liveness check, and the conn passed here (" + exprStr(arg) + ") arrives from a task or event with unknown state (it may have been closed while the task was queued)"})
								}
								return
							}
							if vv, ok := connVarOf(arg); ok {
								i := idx[vv]
								good := in&(live(i)|closing(i)) != 0 && in&notClosed(i) != 0
								msg := "conn known open at call"
								if !good {
									msg = core.FuncName(cf) + " uses the descriptor of / runs a handler callback on its conn before any liveness check, but " + vv.Name() + " may have been closed by a user callback or close on this path"
								}
								addSite("call", "call "+core.FuncName(cf)+" with "+vv.Name(), vv, e.Pos(), good, msg)
								if record && len(sites) > 0 {
									sites[len(sites)-1].req = req[k]
								}
							}
						}
						check(flow.Recv(e), -1)
						for k, a := range e.Args {
							check(a, k)
						}
					}
					if flow.SameFunc(cf, v.delConn) && len(e.Args) == 1 {
						if vv, ok := connVarOf(e.Args[0]); ok && in&live(idx[vv]) != 0 {
							// only a conn that is still open enters the closing state; unregistering a conn
							// that user code may already have closed protects nothing
							in |= closing(idx[vv])
						}
					}
				}
				// may-close: every conn not in CLOSING loses LIVE
				if v.callMayClose(info, e) {
					for _, vv := range vars {
						i := idx[vv]
						if in&closing(i) == 0 {
							in &^= live(i)
						}
					}
				}
			case *ast.AssignStmt:
				for k, l := range e.Lhs {
					// v.opened = true
					if flow.FieldOf(info, l) == v.opened {
						if sel, ok := ast.Unparen(l).(*ast.SelectorExpr); ok {
							if vv, ok := connVarOf(sel.X); ok && len(e.Rhs) == len(e.Lhs) {
								if cv := flow.ConstOf(info, e.Rhs[k]); cv != nil && cv.Kind() == constant.Bool && constant.BoolVal(cv) {
									in |= live(idx[vv])
								}
							}
						}
					}
					if vv, ok := connVarOf(l); ok {
						if _, isIdent := ast.Unparen(l).(*ast.Ident); isIdent {
							i := idx[vv]
							in &^= live(i) | closing(i) | fromReg(i)
							in |= notClosed(i)
							var rhs ast.Expr
							if len(e.Rhs) == len(e.Lhs) {
								rhs = e.Rhs[k]
							} else if len(e.Rhs) == 1 {
								rhs = e.Rhs[0]
							}
							if call, ok := ast.Unparen(rhs).(*ast.CallExpr); ok && rhs != nil {
								if isCtor(call) {
									in |= live(i)
								} else if flow.IsCall(info, call, v.getConn) {
									in |= fromReg(i)
								}
							}
						}
					}
				}
			}
		})
		return in
	}

	g := flow.New(f.P.Fset, info, u.body)
	p := &flow.Problem{Must: true}
	for _, vv := range vars {
		i := idx[vv]
		p.Entry |= notClosed(i)
		if entryLive {
			if _, isParam := u.params[vv]; isParam || u.isLit {
				p.Entry |= live(i)
			}
		}
	}
	p.Node = func(b *flow.Block, i int, n ast.Node, in uint64) uint64 { return step(n, in) }
	p.Edge = func(e *flow.Edge, in uint64) uint64 {
		if e.Cond == nil || e.Tag != nil {
			return in
		}
		cond := ast.Unparen(e.Cond)
		// v.opened
		if flow.FieldOf(info, cond) == v.opened && e.Sense {
			if sel, ok := cond.(*ast.SelectorExpr); ok {
				if vv, ok := connVarOf(sel.X); ok {
					in |= live(idx[vv])
				}
			}
		}
		// v.outboundBuffer.IsEmpty() == false
		if call, ok := cond.(*ast.CallExpr); ok && !e.Sense && flow.IsCall(info, call, v.elasticIsEmpty) {
			if r := flow.Recv(call); r != nil && flow.FieldOf(info, r) == v.outbound {
				if sel, ok := ast.Unparen(r).(*ast.SelectorExpr); ok {
					if vv, ok := connVarOf(sel.X); ok {
						in |= live(idx[vv])
					}
				}
			}
		}
		// v != nil after v = getConn(fd)
		if x, y, op, ok := flow.Cmp(cond); ok {
			var other ast.Expr
			if flow.IsNil(info, y) {
				other = x
			} else if flow.IsNil(info, x) {
				other = y
			}
			if other != nil {
				if vv, ok := connVarOf(other); ok {
					nonNil := (op == token.NEQ && e.Sense) || (op == token.EQL && !e.Sense)
					if nonNil && in&fromReg(idx[vv]) != 0 {
						in |= live(idx[vv])
					}
				}
			}
		}
		return in
	}
	sol := g.Solve(p)
	record = true
	for _, b := range g.Blocks {
		if !sol.Seen[b.ID] {
			continue
		}
		cur := sol.In[b.ID]
		for _, n := range b.Nodes {
			before := len(sites)
			cur = step(n, cur)
			record = false
			for k := before; k < len(sites); k++ {
				if !sites[k].ok {
					sites[k].witness = sol.Witness(b, live(idx[sites[k].v]))
				}
			}
			record = true
		}
	}
	return sites
}
