package rules

import (
	"go/ast"
	"go/constant"
	"go/token"
	"go/types"
	"sort"

	"gnetlint/core"
	"gnetlint/flow"
)

func init() {
	describe(&PropInfo{ID: "C20", QuickConfigs: []core.Config{cfg386},
		Explanation: "Decides, by constant evaluation under the analysed target's type sizes: (1) every bit-smearing cascade `n |= n >> k` covers all powers of two below the operand's width " +
			"(so Floor-style functions are right for the whole int range of that target); (2) CeilToPowerOfTwo's overflow guard uses 2^(W-2) with W = 8·sizeof(int), is evaluated before the shift, the small-argument " +
			"return precedes the shift, and the shift is 1 << bits.Len(uint(n-1)) – together these bound the shift count by W-2; (3) the GFD layout: writers and readers use identical, disjoint byte ranges inside the 16 bytes, " +
			"the same byte order and a width equal to the range, and the *Max constants equal 2^(8·width); (4) the size-class index of the byte-slice pool is bits.Len32(n-1) and is in range of the pools array. " +
			"Exactness of the functions as mathematical functions is only decided through these structural clauses.",
		Assumptions: []string{"math/bits and encoding/binary behave as documented"}})

	register(&core.Rule{ID: "C20.1", Prop: "C20", MinSites: 1,
		Desc: "smear cascade completeness: in a chain `n |= n >> k` on one variable the shift amounts cover every power of two below the variable's bit width on the analysed target",
		Run:  runC20_1})
	register(&core.Rule{ID: "C20.2", Prop: "C20", MinSites: 4,
		Desc: "CeilToPowerOfTwo: guard constant = 2^(W-2), W = 8·sizeof(int); guard and the n<=2 return dominate the shift; the result is 1 << bits.Len(uint(n-1)); IsPowerOfTwo is n>0 && n&(n-1)==0",
		Run:  runC20_2})
	register(&core.Rule{ID: "C20.3", Prop: "C20", MinSites: 10,
		Desc: "GFD layout table: writers (NewGFD, UpdateIndexes) and readers agree on byte range, width and byte order per field; ranges are disjoint and inside the array; *Max constants equal 2^(8·width)",
		Run:  runC20_3})
	register(&core.Rule{ID: "C20.4", Prop: "C20", MinSites: 3,
		Desc: "size-class index: byteslice.index(n) is bits.Len32(n-1); Get guards size into [1, MaxInt32] before indexing an array of 32 pools; the ring-buffer pool index is clamped to steps-1",
		Run:  runC20_4})
}

func intWidth(c *core.Ctx, pk *types.Package, t types.Type) int64 {
	// sizes of the analysed target
	sizes := types.SizesFor("gc", c.P.Cfg.GOARCH)
	if sizes == nil {
		return 64
	}
	return sizes.Sizeof(t) * 8
}

func runC20_1(c *core.Ctx) {
	allFuncs(c, func(f *fn) {
		// collect x |= x >> k
		shifts := map[types.Object][]int64{}
		pos := map[types.Object]token.Pos{}
		ast.Inspect(f.Decl.Body, func(n ast.Node) bool {
			as, ok := n.(*ast.AssignStmt)
			if !ok || as.Tok != token.OR_ASSIGN || len(as.Lhs) != 1 || len(as.Rhs) != 1 {
				return true
			}
			be, ok := ast.Unparen(as.Rhs[0]).(*ast.BinaryExpr)
			if !ok || be.Op != token.SHR {
				return true
			}
			x := flow.ObjOf(f.Info, as.Lhs[0])
			if x == nil || flow.ObjOf(f.Info, be.X) != x {
				return true
			}
			kv := flow.ConstOf(f.Info, be.Y)
			if kv == nil {
				return true
			}
			k, _ := constant.Int64Val(kv)
			shifts[x] = append(shifts[x], k)
			if _, seen := pos[x]; !seen {
				pos[x] = as.Pos()
			}
			return true
		})
		for x, ks := range shifts {
			if len(ks) < 3 {
				continue
			}
			w := intWidth(c, f.Obj.Pkg(), x.Type())
			have := map[int64]bool{}
			for _, k := range ks {
				have[k] = true
			}
			var missing []int64
			for k := int64(1); k < w; k <<= 1 {
				if !have[k] {
					missing = append(missing, k)
				}
			}
			sort.Slice(ks, func(i, j int) bool { return ks[i] < ks[j] })
			msg := ""
			if len(missing) > 0 {
				msg = "the smear cascade on " + x.Name() + " (" + itoa(int(w)) + "-bit) lacks the shift by " + itoa(int(missing[0])) +
					": for arguments of 2^" + itoa(int(missing[0])) + " and above not all lower bits are set, so the result is not a power of two"
			}
			c.Check(len(missing) == 0, f.Name, "smear cascade on "+x.Name(), pos[x], "shifts cover every power of two below the width", msg)
		}
	})
}

func runC20_2(c *core.Ctx) {
	f := getFn(c, "pkg/math", "CeilToPowerOfTwo")
	head, _ := c.P.Object("pkg/math", "maxintHeadBit").(*types.Const)
	bitSize, _ := c.P.Object("pkg/math", "bitSize").(*types.Const)
	if f == nil || !c.Need("maxintHeadBit", head) || !c.Need("bitSize", bitSize) {
		return
	}
	w := intWidth(c, f.Obj.Pkg(), types.Typ[types.Int])
	bs, _ := constant.Int64Val(bitSize.Val())
	c.Check(bs == w, f.Name, "bitSize == 8·sizeof(int)", f.Decl.Pos(), "bitSize matches the target", "bitSize ("+itoa(int(bs))+") is not the bit width of int on this target ("+itoa(int(w))+")")
	want := constant.Shift(constant.MakeInt64(1), token.SHL, uint(w-2))
	c.Check(constant.Compare(head.Val(), token.EQL, want), f.Name, "maxintHeadBit == 2^(W-2)", f.Decl.Pos(), "overflow guard constant is the largest representable power of two",
		"maxintHeadBit is not 2^(W-2): the overflow guard admits arguments whose ceiling does not fit in int (the shift overflows to a negative/zero result) or rejects valid ones")
	n := f.param(0)
	const (
		fGuard = 1 << iota
		fSmall
		fOver
	)
	p := &flow.Problem{Must: true}
	p.Edge = func(e *flow.Edge, in uint64) uint64 {
		if e.Cond == nil || e.Tag != nil {
			return in
		}
		x, y, op, ok := flow.Cmp(e.Cond)
		if !ok {
			return in
		}
		// n > maxintHeadBit false  (the panic guard not taken)
		if flow.ObjOf(f.Info, x) == types.Object(n) && flow.ObjOf(f.Info, y) == types.Object(head) {
			switch {
			case (op == token.GTR || op == token.GEQ) && !e.Sense, (op == token.LEQ || op == token.LSS) && e.Sense:
				in |= fGuard // n <= 2^(W-2): the shift count stays below W-1
			}
			if (op == token.GTR && e.Sense) || (op == token.LEQ && !e.Sense) {
				in |= fOver // n > 2^(W-2): no power of two >= n fits in int
			}
		}
		// n & maxintHeadBit != 0 false  => n < 2^(W-2) for non-negative n
		if be, ok := ast.Unparen(x).(*ast.BinaryExpr); ok && be.Op == token.AND && flow.ObjOf(f.Info, be.X) == types.Object(n) && flow.ObjOf(f.Info, be.Y) == types.Object(head) {
			if cv := flow.ConstOf(f.Info, y); cv != nil && constant.Sign(cv) == 0 && (op == token.NEQ) != e.Sense {
				in |= fGuard
			}
		}
		// n <= 2 false, in any spelling: the edge establishes n >= 2
		if flow.ObjOf(f.Info, x) == types.Object(n) {
			if cv := flow.ConstOf(f.Info, y); cv != nil {
				k, _ := constant.Int64Val(constant.ToInt(cv))
				switch {
				case (op == token.LEQ && !e.Sense || op == token.GTR && e.Sense) && k >= 1,
					(op == token.LSS && !e.Sense || op == token.GEQ && e.Sense) && k >= 2:
					in |= fSmall
				}
			}
		}
		return in
	}
	sol := f.Graph().Solve(p)
	found := false
	sol.Walk(func(b *flow.Block, i int, nd ast.Node, before uint64) {
		ast.Inspect(nd, func(x ast.Node) bool {
			be, ok := x.(*ast.BinaryExpr)
			if !ok || be.Op != token.SHL {
				return true
			}
			if cv := flow.ConstOf(f.Info, be); cv != nil {
				return true // constant shift
			}
			found = true
			one := flow.ConstOf(f.Info, be.X)
			shape := one != nil && constant.Compare(one, token.EQL, constant.MakeInt64(1))
			if call, ok := ast.Unparen(be.Y).(*ast.CallExpr); ok && flow.IsPkgFunc(f.Info, call, "math/bits", "Len") && len(call.Args) == 1 {
				// uint(n-1)
				arg := ast.Unparen(call.Args[0])
				if conv, ok := arg.(*ast.CallExpr); ok && len(conv.Args) == 1 {
					arg = ast.Unparen(conv.Args[0])
				}
				sub, ok := arg.(*ast.BinaryExpr)
				if !(ok && sub.Op == token.SUB && flow.ObjOf(f.Info, sub.X) == types.Object(n) && flow.ConstOf(f.Info, sub.Y) != nil && flow.ConstOf(f.Info, sub.Y).ExactString() == "1") {
					shape = false
				}
			} else {
				shape = false
			}
			c.Check(shape, f.Name, "result is 1 << bits.Len(uint(n-1))", be.Pos(), "canonical ceiling expression", "the ceiling is no longer computed as 1 << bits.Len(uint(n-1))")
			c.Check(before&fGuard != 0 && before&fSmall != 0, f.Name, "shift dominated by the overflow guard and the n<=2 return", be.Pos(), "shift count is at most W-2 and n-1 >= 2",
				"the shift can be reached without the overflow guard (n > 2^(W-2) panics) or without the small-argument return: 1 << bits.Len(...) overflows int or yields 1 for n <= 1", sol.Witness(b, fGuard|fSmall)...)
			return true
		})
	})
	if !found {
		c.Violate(f.Name, "result is 1 << bits.Len(uint(n-1))", f.Decl.Pos(), "no variable shift found in CeilToPowerOfTwo")
	}
	// completeness: the function gives up only when no answer exists
	panics := 0
	sol.Walk(func(b *flow.Block, i int, nd ast.Node, before uint64) {
		for _, call := range flow.Calls(nd) {
			if !flow.NeverReturns(f.Info, call) {
				continue
			}
			panics++
			c.Check(before&fOver != 0, f.Name, "panic #"+itoa(panics)+" only above 2^(W-2)", call.Pos(), "reached only with n > maxintHeadBit",
				"CeilToPowerOfTwo can panic although n > maxintHeadBit is not established: for n == 2^(W-2) the answer (n itself) exists, so the function refuses an argument it must accept", sol.Witness(b, fOver)...)
		}
	})
	// IsPowerOfTwo
	ip := getFn(c, "pkg/math", "IsPowerOfTwo")
	if ip == nil {
		return
	}
	// decided per class of n (negative, zero, positive) and truth of the mask test n&(n-1) == 0:
	// the function must answer true exactly for positive n whose mask test holds
	np := types.Object(ip.param(0))
	isMask := func(e ast.Expr) bool { // n & (n-1), either order
		be, ok := ast.Unparen(e).(*ast.BinaryExpr)
		if !ok || be.Op != token.AND {
			return false
		}
		l, r := ast.Unparen(be.X), ast.Unparen(be.Y)
		if flow.ObjOf(ip.Info, l) != np {
			l, r = r, l
		}
		sub, ok := r.(*ast.BinaryExpr)
		return ok && flow.ObjOf(ip.Info, l) == np && sub.Op == token.SUB && flow.ObjOf(ip.Info, sub.X) == np &&
			flow.ConstOf(ip.Info, sub.Y) != nil && flow.ConstOf(ip.Info, sub.Y).ExactString() == "1"
	}
	okShape := true
	whyShape := ""
	type valuation struct {
		name string
		cls  ival
		mask bool
	}
	for _, v := range []valuation{
		{"negative n whose n&(n-1) is 0 (the minimum int)", ival{loInf: true, hi: -1}, true},
		{"negative n", ival{loInf: true, hi: -1}, false},
		{"n = 0", ival{lo: 0, hi: 0}, true},
		{"a positive power of two", ival{lo: 1, hiInf: true}, true},
		{"a positive n that is not a power of two", ival{lo: 1, hiInf: true}, false},
	} {
		v := v
		env := &absEnv{f: ip, n: np, cls: v.cls}
		env.atom = func(e ast.Expr) (bool, bool) {
			x, y, op, ok := flow.Cmp(e)
			if !ok || (op != token.EQL && op != token.NEQ) {
				return false, false
			}
			if isMask(y) {
				x, y = y, x
			}
			if !isMask(x) {
				return false, false
			}
			if cv := flow.ConstOf(ip.Info, y); cv == nil || constant.Sign(cv) != 0 {
				return false, false
			}
			return (op == token.EQL) == v.mask, true
		}
		ret, ok := env.run()
		if !ok || ret == nil || len(ret.Results) != 1 {
			okShape, whyShape = false, "the path taken for "+v.name+" is decided by something other than comparisons of n with constants and the test n&(n-1) == 0"
			break
		}
		got, ok := env.eval(ret.Results[0])
		if !ok {
			okShape, whyShape = false, "the value returned for "+v.name+" is not decided by comparisons of n with constants and the test n&(n-1) == 0"
			break
		}
		if want := v.cls.lo >= 1 && !v.cls.loInf && v.mask; got != want {
			okShape = false
			if got {
				whyShape = "it answers true for " + v.name
			} else {
				whyShape = "it answers false for " + v.name
			}
			break
		}
	}
	c.Check(okShape, ip.Name, "n > 0 && n&(n-1) == 0", ip.Decl.Pos(), "true exactly for positive n with n&(n-1) == 0, decided for every sign class of n and both outcomes of the mask test", "IsPowerOfTwo is no longer equivalent to `n > 0 && n&(n-1) == 0`: "+whyShape)
}

type gfdUse struct {
	field  string // accessor / parameter role
	lo, hi int64
	width  int64 // bytes moved by the binary call (1 for direct byte access)
	order  string
	pos    token.Pos
	writer bool
	fn     string
}

func runC20_3(c *core.Ctx) {
	pk := c.P.Pkg("internal/gfd")
	gfdT := c.P.Named("internal/gfd", "GFD")
	if pk == nil || !c.Need("gfd.GFD", gfdT) {
		c.Undecided("anchor", "internal/gfd", token.NoPos, "package internal/gfd not loaded")
		return
	}
	arr, ok := gfdT.Underlying().(*types.Array)
	if !ok {
		c.Undecided("anchor", "gfd.GFD", token.NoPos, "GFD is not an array type")
		return
	}
	size := arr.Len()
	info := pk.TypesInfo
	isGFD := func(e ast.Expr) bool {
		t := info.TypeOf(e)
		if t == nil {
			return false
		}
		if p, ok := t.(*types.Pointer); ok {
			t = p.Elem()
		}
		return types.Identical(t, gfdT)
	}
	base := func(e ast.Expr) ast.Expr { // strip (*gfd)
		e = ast.Unparen(e)
		if s, ok := e.(*ast.StarExpr); ok {
			return ast.Unparen(s.X)
		}
		return e
	}
	rangeOf := func(e ast.Expr) (lo, hi int64, ok bool) {
		switch x := ast.Unparen(e).(type) {
		case *ast.IndexExpr:
			if !isGFD(base(x.X)) {
				return
			}
			cv := info.Types[x.Index].Value
			if cv == nil {
				return
			}
			lo, _ = constant.Int64Val(cv)
			return lo, lo + 1, true
		case *ast.SliceExpr:
			if !isGFD(base(x.X)) {
				return
			}
			lo, hi = 0, size
			if x.Low != nil {
				cv := info.Types[x.Low].Value
				if cv == nil {
					return
				}
				lo, _ = constant.Int64Val(cv)
			}
			if x.High != nil {
				cv := info.Types[x.High].Value
				if cv == nil {
					return
				}
				hi, _ = constant.Int64Val(cv)
			}
			return lo, hi, true
		}
		return
	}
	widthOf := func(name string) int64 {
		switch name {
		case "Uint16", "PutUint16":
			return 2
		case "Uint32", "PutUint32":
			return 4
		case "Uint64", "PutUint64":
			return 8
		}
		return 0
	}
	roleOfParam := map[string]string{"elIndex": "EventLoopIndex", "row": "ConnMatrixRow", "column": "ConnMatrixColumn", "fd": "Fd"}
	var uses []gfdUse
	for _, d := range c.P.FuncsOf(pk) {
		fname := d.Name.Name
		isReader := d.Recv != nil && (fname == "Fd" || fname == "EventLoopIndex" || fname == "ConnMatrixRow" || fname == "ConnMatrixColumn" || fname == "Sequence")
		isWriter := fname == "NewGFD" || fname == "UpdateIndexes"
		if !isReader && !isWriter {
			continue
		}
		ast.Inspect(d.Body, func(n ast.Node) bool {
			switch x := n.(type) {
			case *ast.CallExpr:
				sel, ok := ast.Unparen(x.Fun).(*ast.SelectorExpr)
				if !ok {
					return true
				}
				w := widthOf(sel.Sel.Name)
				if w == 0 || len(x.Args) == 0 {
					return true
				}
				order := types.ExprString(sel.X)
				lo, hi, ok := rangeOf(x.Args[0])
				if !ok {
					return true
				}
				u := gfdUse{lo: lo, hi: hi, width: w, order: order, pos: x.Pos(), writer: isWriter, fn: fname}
				if isReader {
					u.field = fname
				} else if len(x.Args) == 2 {
					// role from the value argument: uint16(column), monoSeq.Inc(), uint64(fd)
					u.field = "Sequence"
					ast.Inspect(x.Args[1], func(y ast.Node) bool {
						if id, ok := y.(*ast.Ident); ok {
							if r, ok := roleOfParam[id.Name]; ok {
								u.field = r
							}
						}
						return true
					})
				}
				uses = append(uses, u)
				return true
			case *ast.AssignStmt:
				if !isWriter || len(x.Lhs) != len(x.Rhs) {
					return true
				}
				for k := range x.Lhs { // gfd[0] = byte(i), also as one half of gfd[0], gfd[1] = byte(i), byte(r)
					lo, hi, ok := rangeOf(x.Lhs[k])
					if !ok || hi-lo != 1 {
						continue
					}
					u := gfdUse{lo: lo, hi: hi, width: 1, order: "byte", pos: x.Pos(), writer: true, fn: fname}
					ast.Inspect(x.Rhs[k], func(y ast.Node) bool {
						if id, ok := y.(*ast.Ident); ok {
							if r, ok := roleOfParam[id.Name]; ok {
								u.field = r
							}
						}
						return true
					})
					uses = append(uses, u)
				}
			case *ast.IndexExpr:
				if !isReader {
					return true
				}
				lo, hi, ok := rangeOf(x)
				if ok {
					uses = append(uses, gfdUse{field: fname, lo: lo, hi: hi, width: 1, order: "byte", pos: x.Pos(), fn: fname})
				}
			}
			return true
		})
	}
	readers := map[string]gfdUse{}
	for _, u := range uses {
		if !u.writer {
			readers[u.field] = u
		}
	}
	for _, fld := range []string{"Fd", "EventLoopIndex", "ConnMatrixRow", "ConnMatrixColumn", "Sequence"} {
		r, ok := readers[fld]
		if !ok {
			c.Violate("gfd.GFD."+fld, "reader of "+fld, token.NoPos, "no reader found for GFD field "+fld)
			continue
		}
		c.Check(r.hi-r.lo == r.width && r.lo >= 0 && r.hi <= size, "gfd.GFD."+fld, "reader range of "+fld, r.pos, "range matches the decoded width and lies inside the array",
			"reader "+fld+" decodes "+itoa(int(r.width))+" bytes from the range ["+itoa(int(r.lo))+","+itoa(int(r.hi))+") of a "+itoa(int(size))+"-byte GFD")
	}
	nw := 0
	for _, u := range uses {
		if !u.writer {
			continue
		}
		nw++
		r, ok := readers[u.field]
		site := "gfd." + u.fn
		if !ok {
			c.Violate(site, "writer of "+u.field, u.pos, "writer stores a field that no reader decodes")
			continue
		}
		same := r.lo == u.lo && r.hi == u.hi && r.width == u.width && (r.order == u.order || u.width == 1)
		c.Check(same, site, "writer of "+u.field, u.pos, "same bytes, width and byte order as the reader",
			"writer puts "+u.field+" into bytes ["+itoa(int(u.lo))+","+itoa(int(u.hi))+") as "+itoa(int(u.width))+"-byte "+u.order+" but the reader takes ["+itoa(int(r.lo))+","+itoa(int(r.hi))+") as "+itoa(int(r.width))+"-byte "+r.order+": unpacking does not return what was packed")
	}
	// every field gets a value when a GFD is made: NewGFD writes it itself or through UpdateIndexes
	written := map[string]bool{}
	viaUpdate := false
	if nf := tryFn(c, "internal/gfd", "NewGFD"); nf != nil {
		for _, call := range callsIn(nf.Decl.Body, false) {
			if cf := flow.CalleeFunc(nf.Info, call); cf != nil && nameOf(cf) == "UpdateIndexes" {
				viaUpdate = true
			}
		}
	}
	updates := map[string]bool{}
	for _, u := range uses {
		if !u.writer {
			continue
		}
		if u.fn == "NewGFD" || (viaUpdate && u.fn == "UpdateIndexes") {
			written[u.field] = true
		}
		if u.fn == "UpdateIndexes" {
			updates[u.field] = true
		}
	}
	missing := ""
	for _, fld := range []string{"Fd", "EventLoopIndex", "ConnMatrixRow", "ConnMatrixColumn", "Sequence"} {
		if !written[fld] {
			missing += " " + fld
		}
	}
	c.Check(missing == "" && updates["ConnMatrixRow"] && updates["ConnMatrixColumn"] && nw >= 5, "gfd", "writers", token.NoPos, "NewGFD gives every field a value (directly or through UpdateIndexes); UpdateIndexes writes row and column",
		"a GFD field is never written when a GFD is made, or UpdateIndexes no longer writes row and column:"+missing)
	// disjoint
	var rs []gfdUse
	for _, r := range readers {
		rs = append(rs, r)
	}
	sort.Slice(rs, func(i, j int) bool { return rs[i].lo < rs[j].lo })
	disjoint := true
	for i := 1; i < len(rs); i++ {
		if rs[i].lo < rs[i-1].hi {
			disjoint = false
		}
	}
	c.Check(disjoint, "gfd.GFD", "field ranges disjoint", token.NoPos, "no two fields share a byte", "two GFD fields overlap")
	// Max constants
	for name, fld := range map[string]string{"EventLoopIndexMax": "EventLoopIndex", "ConnMatrixRowMax": "ConnMatrixRow", "ConnMatrixColumnMax": "ConnMatrixColumn"} {
		k, _ := c.P.Object("internal/gfd", name).(*types.Const)
		if !c.Need("gfd."+name, k) {
			continue
		}
		r := readers[fld]
		want := constant.Shift(constant.MakeInt64(1), token.SHL, uint(8*r.width))
		c.Check(constant.Compare(k.Val(), token.EQL, want), "gfd."+name, name+" == 2^(8·width)", k.Pos(), "bound equals the capacity of the field",
			name+" does not equal 2^(8·"+itoa(int(r.width))+"): indexes up to the bound no longer fit into the GFD field and wrap around")
	}
}

func runC20_4(c *core.Ctx) {
	idx := getFn(c, "pkg/pool/byteslice", "index")
	get := getFn(c, "pkg/pool/byteslice", "Pool.Get")
	pools := c.P.Field("pkg/pool/byteslice", "Pool", "pools")
	if idx == nil || get == nil || !c.Need("Pool.pools", pools) {
		return
	}
	// index(n) = uint32(bits.Len32(n-1))
	shape := false
	if len(idx.Decl.Body.List) == 1 {
		if r, ok := idx.Decl.Body.List[0].(*ast.ReturnStmt); ok && len(r.Results) == 1 {
			e := ast.Unparen(r.Results[0])
			if conv, ok := e.(*ast.CallExpr); ok && len(conv.Args) == 1 {
				if inner, ok := ast.Unparen(conv.Args[0]).(*ast.CallExpr); ok && flow.IsPkgFunc(idx.Info, inner, "math/bits", "Len32") && len(inner.Args) == 1 {
					if sub, ok := ast.Unparen(inner.Args[0]).(*ast.BinaryExpr); ok && sub.Op == token.SUB && flow.ObjOf(idx.Info, sub.X) == types.Object(idx.param(0)) &&
						flow.ConstOf(idx.Info, sub.Y) != nil && flow.ConstOf(idx.Info, sub.Y).ExactString() == "1" {
						shape = true
					}
				}
			}
		}
	}
	c.Check(shape, idx.Name, "index(n) == bits.Len32(n-1)", idx.Decl.Pos(), "smallest class whose capacity 1<<index is >= n",
		"the size-class function is no longer bits.Len32(n-1): Get would hand out a class smaller than the request or skip a class")
	arr, _ := pools.Type().Underlying().(*types.Array)
	c.Check(arr != nil && arr.Len() >= 32, get.Name, "len(pools) >= 32", pools.Pos(), "every index of a 32-bit size fits", "the pools array has fewer than 32 classes: index(size) can exceed it for sizes up to MaxInt32")
	// Get: size <= 0 and size > MaxInt32 return before index()
	const (
		fPos = 1 << iota
		fMax
	)
	size := get.param(0)
	p := &flow.Problem{Must: true}
	p.Edge = func(e *flow.Edge, in uint64) uint64 {
		if e.Cond == nil || e.Tag != nil {
			return in
		}
		x, y, op, ok := flow.Cmp(e.Cond)
		if !ok || flow.ObjOf(get.Info, x) != types.Object(size) {
			return in
		}
		cv := flow.ConstOf(get.Info, y)
		if cv == nil {
			return in
		}
		if op == token.LEQ && !e.Sense && constant.Sign(cv) >= 0 {
			in |= fPos
		}
		if op == token.GTR && !e.Sense && constant.Compare(cv, token.LEQ, constant.MakeInt64(1<<31-1)) {
			in |= fMax
		}
		return in
	}
	sol := get.Graph().Solve(p)
	sol.Walk(func(b *flow.Block, i int, n ast.Node, before uint64) {
		for _, call := range flow.Calls(n) {
			if flow.IsCall(get.Info, call, idx.Obj) {
				c.Check(before&fPos != 0 && before&fMax != 0, get.Name, "index(size) guarded to [1, MaxInt32]", call.Pos(), "size is positive and fits in uint32 before conversion",
					"Get computes the size class without first excluding size <= 0 and size > MaxInt32: uint32(size) wraps and the class capacity is smaller than the request (out-of-bounds slice) or index 32 is used")
			}
		}
	})
	// ring-buffer pool clamp
	ridx := getFn(c, "pkg/pool/ringbuffer", "index")
	steps, _ := c.P.Object("pkg/pool/ringbuffer", "steps").(*types.Const)
	if ridx == nil || !c.Need("ringbuffer.steps", steps) {
		return
	}
	clamped := false
	ast.Inspect(ridx.Decl.Body, func(n ast.Node) bool {
		if is, ok := n.(*ast.IfStmt); ok {
			if x, y, op, ok := flow.Cmp(is.Cond); ok && op == token.GEQ && flow.ObjOf(ridx.Info, y) == types.Object(steps) {
				for _, st := range is.Body.List {
					if as, ok := st.(*ast.AssignStmt); ok && len(as.Lhs) == 1 && flow.ObjOf(ridx.Info, as.Lhs[0]) == flow.ObjOf(ridx.Info, x) {
						if cv := flow.ConstOf(ridx.Info, as.Rhs[0]); cv != nil {
							sv, _ := constant.Int64Val(steps.Val())
							if k, _ := constant.Int64Val(cv); k == sv-1 {
								clamped = true
							}
						}
					}
				}
			}
		}
		return true
	})
	c.Check(clamped, ridx.Name, "index clamped to steps-1", ridx.Decl.Pos(), "calls[idx] stays in range", "the ring-buffer pool's size index is no longer clamped to steps-1: Put indexes the calls array out of range for large buffers")
}
