package rules

import (
	"go/ast"
	"go/types"
	"strings"

	"gnetlint/core"
	"gnetlint/flow"
)

func init() {
	register(&core.Rule{ID: "C04.9", Prop: "C04", MinSites: 3,
		Desc: "every poll attachment names its own descriptor and a handler: the conn constructors set pollAttachment.FD to their fd parameter and Callback to c.processIO (stream) / el.readUDP (datagram), the listener packs {ln.fd, handler}; with the poll_opt build the poller calls Callback directly, so a missing one crashes the loop on the first event and a foreign FD dispatches another connection's events",
		Run:  runC04_9})
}

func runC04_9(c *core.Ctx) {
	v := vocabOf(c)
	if v == nil {
		return
	}
	type want struct {
		fn       string
		fdParam  int    // index of the fd parameter (-1: receiver field fd)
		callback string // method value name expected for Callback ("" = any non-nil expression / parameter)
	}
	for _, w := range []want{{"newStreamConn", 1, "processIO"}, {"newUDPConn", 0, "readUDP"}, {"listener.packPollAttachment", -1, ""}} {
		f := getFn(c, "", w.fn)
		if f == nil {
			continue
		}
		var fdOK, cbOK bool
		var fdObj types.Object
		if w.fdParam >= 0 {
			fdObj = f.param(w.fdParam)
		}
		isFd := func(e ast.Expr) bool {
			if fdObj != nil {
				return flow.ObjOf(f.Info, e) == fdObj
			}
			fl := flow.FieldOf(f.Info, e)
			return fl != nil && nameOf(fl) == "fd"
		}
		isCb := func(e ast.Expr) bool {
			if flow.IsNil(f.Info, e) {
				return false
			}
			if w.callback == "" {
				return true
			}
			sel, ok := ast.Unparen(e).(*ast.SelectorExpr)
			return ok && sel.Sel.Name == w.callback
		}
		ast.Inspect(f.Decl.Body, func(n ast.Node) bool {
			switch x := n.(type) {
			case *ast.CompositeLit:
				if t := f.Info.TypeOf(x); t != nil && strings.HasSuffix(t.String(), "netpoll.PollAttachment") {
					for _, el := range x.Elts {
						if kv, ok := el.(*ast.KeyValueExpr); ok {
							if id, ok := kv.Key.(*ast.Ident); ok {
								switch id.Name {
								case "FD":
									fdOK = isFd(kv.Value)
								case "Callback":
									cbOK = isCb(kv.Value)
								}
							}
						}
					}
				}
			case *ast.AssignStmt:
				for i, l := range x.Lhs {
					sel, ok := ast.Unparen(l).(*ast.SelectorExpr)
					if !ok || i >= len(x.Rhs) {
						continue
					}
					if inner, ok := ast.Unparen(sel.X).(*ast.SelectorExpr); ok && inner.Sel.Name == "pollAttachment" {
						switch sel.Sel.Name {
						case "FD":
							fdOK = isFd(x.Rhs[i])
						case "Callback":
							cbOK = isCb(x.Rhs[i])
						}
					}
				}
			}
			return true
		})
		c.Check(fdOK, f.Name, "pollAttachment.FD is the object's own descriptor", f.Decl.Pos(), "FD: fd",
			"the poll attachment built here does not carry the descriptor of the object it belongs to: with poll_opt the poller hands events to the wrong connection or to none")
		what := "a handler"
		if w.callback != "" {
			what = w.callback
		}
		c.Check(cbOK, f.Name, "pollAttachment.Callback is "+what, f.Decl.Pos(), "Callback set",
			"the poll attachment built here has no (or another) Callback: the poll_opt poller calls it directly for every event of this descriptor, so the loop panics on the first event or runs the wrong handler")
	}
}
