package rules

import (
	"go/ast"
	"go/constant"
	"go/token"
	"go/types"

	"golang.org/x/tools/go/cfg"

	"gnetlint/core"
	"gnetlint/flow"
)

func init() {
	register(&core.Rule{ID: "C14.7", Prop: "C14", MinSites: 1,
		Desc: "iterate's extent does not move under the visitor: the loops of connMatrix.iterate range over the registry's containers themselves (the table / a row / the map) and no loop bound or index reads a field that addConn or delConn write (the insertion cursor is rewound by every removal, so a bound taken from it ends the shutdown sweep early)",
		Run:  runC14_7})
}

func runC14_7(c *core.Ctx) {
	a := regAnchors(c)
	if a == nil {
		return
	}
	// fields of the registry written by addConn/delConn (directly)
	written := map[*types.Var]bool{}
	for _, f := range []*fn{a.add, a.del} {
		ast.Inspect(f.Decl.Body, func(n ast.Node) bool {
			var lhs []ast.Expr
			switch x := n.(type) {
			case *ast.AssignStmt:
				lhs = x.Lhs
			case *ast.IncDecStmt:
				lhs = []ast.Expr{x.X}
			}
			for _, l := range lhs {
				if sel, ok := ast.Unparen(l).(*ast.SelectorExpr); ok {
					if fl := flow.FieldOf(f.Info, sel); fl != nil && flow.ObjOf(f.Info, sel.X) == types.Object(f.recvVar()) {
						written[fl] = true
					}
				}
			}
			return true
		})
	}
	f := a.iter
	loops := 0
	var bad ast.Node
	var badField string
	readsWritten := func(e ast.Node) bool {
		found := false
		if e == nil {
			return false
		}
		ast.Inspect(e, func(n ast.Node) bool {
			if sel, ok := n.(*ast.SelectorExpr); ok {
				if fl := flow.FieldOf(f.Info, sel); fl != nil && written[fl] && flow.ObjOf(f.Info, sel.X) == types.Object(f.recvVar()) {
					// containers themselves may be ranged over; scalars may not bound the loop
					if _, isBasic := fl.Type().Underlying().(*types.Basic); isBasic {
						found = true
						badField = fl.Name()
					}
				}
			}
			return true
		})
		return found
	}
	ast.Inspect(f.Decl.Body, func(n ast.Node) bool {
		switch x := n.(type) {
		case *ast.FuncLit:
			return false
		case *ast.ForStmt:
			loops++
			if bad == nil && (readsWritten(x.Cond) || readsWritten(x.Init) || readsWritten(x.Post)) {
				bad = x
			}
		case *ast.RangeStmt:
			loops++
			if bad == nil && readsWritten(x.X) {
				bad = x
			}
		}
		return true
	})
	if loops == 0 {
		c.Undecided(f.Name, "loops of iterate", f.Decl.Pos(), "connMatrix.iterate has no loop: idiom not recognised")
		return
	}
	if bad != nil {
		c.Violate(f.Name, "loop extent independent of the cursor", bad.Pos(), "a loop of iterate is bounded by cm."+badField+", which delConn/addConn write: when the visitor removes the connections it is shown (closeConns at shutdown), the bound moves while the loop runs and the later rows are never visited – those connections get no OnClose and stay registered")
		return
	}
	c.Ok(f.Name, "loop extent independent of the cursor", f.Decl.Pos(), itoa(loops)+" loop(s) range over the containers; no bound reads a cursor field")
}

func init() {
	register(&core.Rule{ID: "C15.6", Prop: "C15", MinSites: 1,
		Desc: "the source-address hash sees the address only through its string: in sourceAddrHashLoadBalancer.next the address parameter is used solely as the receiver of String() – no type assertion, field or byte-level view of it can make two addresses that print alike land on different loops",
		Run:  runC15_6})
}

func runC15_6(c *core.Ctx) {
	f := getFn(c, "", "sourceAddrHashLoadBalancer.next")
	if f == nil {
		return
	}
	param := f.param(0)
	if param == nil {
		c.Undecided(f.Name, "address parameter", f.Decl.Pos(), "next has no parameter")
		return
	}
	parents := map[ast.Node]ast.Node{}
	var stack []ast.Node
	ast.Inspect(f.Decl.Body, func(n ast.Node) bool {
		if n == nil {
			stack = stack[:len(stack)-1]
			return true
		}
		if len(stack) > 0 {
			parents[n] = stack[len(stack)-1]
		}
		stack = append(stack, n)
		return true
	})
	uses, bad := 0, ast.Node(nil)
	ast.Inspect(f.Decl.Body, func(n ast.Node) bool {
		id, ok := n.(*ast.Ident)
		if !ok || f.Info.Uses[id] != types.Object(param) {
			return true
		}
		uses++
		// accepted: netAddr.String() – the ident is X of a selector "String" that is the Fun of a call without arguments
		if sel, ok := parents[id].(*ast.SelectorExpr); ok && sel.X == ast.Expr(id) && sel.Sel.Name == "String" {
			if call, ok := parents[sel].(*ast.CallExpr); ok && call.Fun == ast.Expr(sel) && len(call.Args) == 0 {
				return true
			}
		}
		if bad == nil {
			bad = parents[id]
		}
		return true
	})
	if uses == 0 {
		c.Violate(f.Name, "address used through String() only", f.Decl.Pos(), "the source-address balancer no longer looks at the address at all")
		return
	}
	if bad != nil {
		c.Violate(f.Name, "address used through String() only", bad.Pos(), "the remote address is inspected other than through String() ("+exprStr2(bad)+"): the loop is then a function of the address's representation (4-byte vs 16-byte IP, concrete type), so one and the same printed address can be served by two loops")
		return
	}
	c.Ok(f.Name, "address used through String() only", f.Decl.Pos(), itoa(uses)+" use(s), all netAddr.String()")
}

func exprStr2(n ast.Node) string {
	if e, ok := n.(ast.Expr); ok {
		return exprStr(e)
	}
	return "statement"
}

func init() {
	register(&core.Rule{ID: "C14.8", Prop: "C14", MinSites: 2, Applies: func(c core.Config) bool { return c.HasTag("gc_opt") },
		Desc: "per-row bookkeeping names one row: wherever the matrix registry tests connCounts[X] to decide between clearing table[Y] and table[Y][…], X and Y are the same expression (the row of the entry being removed or moved), not the insertion cursor",
		Run:  runC14_8})
}

func runC14_8(c *core.Ctx) {
	a := regAnchors(c)
	if a == nil || !a.gc {
		return
	}
	counts := c.P.Field("", "connMatrix", "connCounts")
	if !c.Need("connMatrix.connCounts", counts) {
		return
	}
	for _, f := range []*fn{a.add, a.del} {
		k := 0
		ast.Inspect(f.Decl.Body, func(n ast.Node) bool {
			is, ok := n.(*ast.IfStmt)
			if !ok {
				return true
			}
			// connCounts[X] in the condition
			var rowX ast.Expr
			ast.Inspect(is.Cond, func(m ast.Node) bool {
				if ie, ok := m.(*ast.IndexExpr); ok && flow.FieldOf(f.Info, ie.X) == counts {
					rowX = ie.Index
				}
				return true
			})
			if rowX == nil {
				return true
			}
			// table[Y] = … / table[Y][…] = … in the branches
			check := func(blk ast.Node) {
				if blk == nil {
					return
				}
				ast.Inspect(blk, func(m ast.Node) bool {
					if inner, ok := m.(*ast.IfStmt); ok && mentionsField(f, inner.Cond, counts) {
						return false // decided by that test (visited on its own)
					}
					as, ok := m.(*ast.AssignStmt)
					if !ok {
						return true
					}
					for j, l := range as.Lhs {
						// the decision is between dropping/creating a row and clearing one cell: table[Y] = nil / make(…), table[Y][…] = nil
						if len(as.Rhs) != len(as.Lhs) || !(isNilExpr(f, as.Rhs[j]) || isMakeCall(f, as.Rhs[j])) {
							continue
						}
						e := ast.Unparen(l)
						var rowY ast.Expr
						if ie, ok := e.(*ast.IndexExpr); ok {
							if flow.FieldOf(f.Info, ie.X) == a.table {
								rowY = ie.Index
							} else if inner, ok := ast.Unparen(ie.X).(*ast.IndexExpr); ok && flow.FieldOf(f.Info, inner.X) == a.table {
								rowY = inner.Index
							}
						}
						if rowY == nil {
							continue
						}
						k++
						c.Check(exprStr(rowX) == exprStr(rowY), f.Name, "row of the count test = row of the table write #"+itoa(k), as.Pos(), "both name "+exprStr(rowY),
							"the decision is taken on connCounts["+exprStr(rowX)+"] but the write goes to table["+exprStr(rowY)+"]: when the two rows differ a whole row of live connections is dropped from the table (lookups return nil, iterate skips them, the count still includes them)")
					}
					return true
				})
			}
			check(is.Body)
			check(is.Else)
			return true
		})
	}
}

func init() {
	register(&core.Rule{ID: "C20.5", Prop: "C20", MinSites: 1,
		Desc: "the floor is taken without leaving the int range: after the smear cascade the variable holds 2^(k+1)-1, up to the maximum int; FloorToPowerOfTwo's result uses it only under subtraction, right shift or bit operations – adding a positive constant to it, negating it or shifting it left overflows for every argument from 2^(W-2) on",
		Run:  runC20_5})
}

func runC20_5(c *core.Ctx) {
	f := getFn(c, "pkg/math", "FloorToPowerOfTwo")
	if f == nil {
		return
	}
	n := f.param(0)
	// last statement of the cascade: n |= n >> k
	var last ast.Node
	ast.Inspect(f.Decl.Body, func(x ast.Node) bool {
		if as, ok := x.(*ast.AssignStmt); ok && as.Tok == token.OR_ASSIGN && len(as.Lhs) == 1 && flow.ObjOf(f.Info, as.Lhs[0]) == types.Object(n) {
			last = as
		}
		return true
	})
	if last == nil {
		c.Undecided(f.Name, "smear cascade", f.Decl.Pos(), "no `n |= n >> k` cascade found")
		return
	}
	mentionsN := func(e ast.Expr) bool {
		found := false
		ast.Inspect(e, func(x ast.Node) bool {
			if id, ok := x.(*ast.Ident); ok && f.Info.Uses[id] == types.Object(n) {
				found = true
			}
			return true
		})
		return found
	}
	var bad ast.Node
	why := ""
	ast.Inspect(f.Decl.Body, func(x ast.Node) bool {
		if x == nil || x.Pos() < last.End() || bad != nil {
			return true
		}
		switch y := x.(type) {
		case *ast.BinaryExpr:
			switch y.Op {
			case token.ADD:
				xn, yn := mentionsN(y.X), mentionsN(y.Y)
				// n + c / c + n with c a positive constant, or n + n
				if xn && yn {
					bad, why = y, "adds the smeared value to itself"
				} else if xn || yn {
					other := y.Y
					if yn {
						other = y.X
					}
					if cv := flow.ConstOf(f.Info, other); cv == nil || constant.Sign(cv) > 0 {
						// only a direct use of n (not of n>>k) can reach MaxInt
						direct := y.X
						if yn {
							direct = y.Y
						}
						if id, ok := ast.Unparen(direct).(*ast.Ident); ok && f.Info.Uses[id] == types.Object(n) {
							bad, why = y, "adds to the smeared value, which is the maximum int for arguments from 2^(W-2) on"
						}
					}
				}
			case token.SHL, token.MUL:
				if mentionsN(y.X) {
					bad, why = y, "shifts/multiplies the smeared value upwards"
				}
			}
		case *ast.UnaryExpr:
			if y.Op == token.SUB && mentionsN(y.X) {
				bad, why = y, "negates the smeared value"
			}
		case *ast.IncDecStmt:
			if y.Tok == token.INC && flow.ObjOf(f.Info, y.X) == types.Object(n) {
				bad, why = y, "increments the smeared value"
			}
		case *ast.AssignStmt:
			if (y.Tok == token.ADD_ASSIGN || y.Tok == token.SHL_ASSIGN || y.Tok == token.MUL_ASSIGN) && len(y.Lhs) == 1 && flow.ObjOf(f.Info, y.Lhs[0]) == types.Object(n) {
				bad, why = y, "increases the smeared value in place"
			}
		}
		return true
	})
	if bad != nil {
		c.Violate(f.Name, "result stays inside the int range", bad.Pos(), "after the cascade the expression "+exprStr2(bad)+" "+why+": the intermediate wraps around and FloorToPowerOfTwo returns a negative number (−2^(W-2)) instead of 2^(W-2) for every argument with the top value bit set")
		return
	}
	c.Ok(f.Name, "result stays inside the int range", last.Pos(), "only subtraction, right shift and bit operations follow the cascade")
}

func init() {
	register(&core.Rule{ID: "C19.9", Prop: "C19", MinSites: 1,
		Desc: "a registration always reports back: every function that takes a *connWithCallback out of its argument calls (or defers) its cb on every path to a return – the enrol paths wait for that callback before they deliver the single result of Register/Enroll/Dial, whatever register0 returned",
		Run:  runC19_9})
}

func runC19_9(c *core.Ctx) {
	v := vocabOf(c)
	if v == nil {
		return
	}
	ccbT := c.P.Named("", "connWithCallback")
	if !c.Need("connWithCallback", ccbT) {
		return
	}
	sites := 0
	for _, f := range v.funcs {
		if f.Decl.Body == nil {
			continue
		}
		// variables of type *connWithCallback bound by a type assertion
		var holders []types.Object
		var binds []ast.Node
		ast.Inspect(f.Decl.Body, func(n ast.Node) bool {
			if _, ok := n.(*ast.FuncLit); ok {
				return false
			}
			as, ok := n.(*ast.AssignStmt)
			if !ok || len(as.Rhs) != 1 {
				return true
			}
			if ta, ok := ast.Unparen(as.Rhs[0]).(*ast.TypeAssertExpr); ok && ta.Type != nil {
				if t := f.Info.TypeOf(ta.Type); t != nil && isNamedOrPtr(t, ccbT) {
					if o := flow.ObjOf(f.Info, as.Lhs[0]); o != nil {
						holders = append(holders, o)
						binds = append(binds, as)
					}
				}
			}
			return true
		})
		for i, h := range holders {
			h, bind := h, binds[i]
			sites++
			isCb := func(call *ast.CallExpr) bool {
				sel, ok := ast.Unparen(call.Fun).(*ast.SelectorExpr)
				return ok && sel.Sel.Name == "cb" && flow.ObjOf(f.Info, sel.X) == h
			}
			const (
				fBound = 1 << iota
				fFired
			)
			p := &flow.Problem{Must: false}
			_ = p
			au := &flow.Auto{Start: 0}
			au.Node = func(b *flow.Block, j int, n ast.Node, st int) int {
				if n == bind {
					st |= fBound
				}
				if d, ok := n.(*ast.DeferStmt); ok && isCb(d.Call) {
					st |= fFired
				}
				for _, call := range flow.Calls(n) {
					if isCb(call) {
						st |= fFired
					}
				}
				return st
			}
			sol := f.Graph().Run(au)
			bad := token.NoPos
			sol.AtExit(func(b *flow.Block, _ uint64) {
				for _, st := range flow.States(sol.Out(b)) {
					if st&fBound != 0 && st&fFired == 0 && bad == token.NoPos {
						bad = b.Return.Pos()
					}
				}
			})
			c.Check(bad == token.NoPos, f.Name, "completion callback of "+h.Name()+" fires on every path", bind.Pos(), h.Name()+".cb() is called or deferred before every return",
				"a return is reachable on which "+h.Name()+".cb() was neither called nor deferred: the goroutine behind Register/Enroll/Dial waits for it before it delivers the result, so on this path (register0 failing, OnOpen answering Shutdown or Close) the caller never gets a result and Dial never returns")
		}
	}
	if sites == 0 {
		c.Undecided("gnet", "connWithCallback consumers", 0, "no function takes a *connWithCallback out of an interface value")
	}
}

func init() {
	register(&core.Rule{ID: "C14.9", Prop: "C14", MinSites: 1,
		Desc: "the registry holds live connections only: in every function of package gnet, once a conn was handed to addConn it is neither released (conn.release) nor is its descriptor closed before delConn took it out again – a failed poller registration that releases a conn already entered leaves a dead entry that lookup, count and iteration keep reporting and that closeConns can never remove",
		Run:  runC14_9})
}

func runC14_9(c *core.Ctx) {
	v := vocabOf(c)
	if v == nil {
		return
	}
	sites := 0
	for _, f := range v.funcs {
		var adds []*ast.CallExpr
		for _, call := range callsIn(f.Decl.Body, false) {
			if flow.IsCall(f.Info, call, v.addConn) && len(call.Args) >= 1 {
				adds = append(adds, call)
			}
		}
		for k, add := range adds {
			sites++
			who := flow.ObjOf(f.Info, add.Args[0])
			construct := "addConn(" + exprStr(add.Args[0]) + ") #" + itoa(k+1) + " stays registered while the conn lives"
			if who == nil {
				c.Undecided(f.Name, construct, add.Pos(), "the registered connection is not a variable")
				continue
			}
			const (
				sOut = iota
				sIn
			)
			var bad token.Pos
			var what string
			record := false
			au := &flow.Auto{Start: sOut}
			au.Node = func(b *flow.Block, i int, n ast.Node, st int) int {
				flow.Events(n, func(x ast.Node) {
					call, ok := x.(*ast.CallExpr)
					if !ok {
						return
					}
					switch {
					case call == add:
						st = sIn
					case flow.IsCall(f.Info, call, v.delConn) && len(call.Args) >= 1 && flow.ObjOf(f.Info, call.Args[0]) == who:
						st = sOut
					case st == sIn && flow.IsCall(f.Info, call, v.releaseFn) && flow.Recv(call) != nil && flow.ObjOf(f.Info, flow.Recv(call)) == who:
						if record && bad == token.NoPos {
							bad, what = call.Pos(), exprStr(add.Args[0])+".release()"
						}
					case st == sIn && flow.IsPkgFunc(f.Info, call, unixPkg, "Close") && len(call.Args) == 1:
						if sel, ok := ast.Unparen(call.Args[0]).(*ast.SelectorExpr); ok && flow.FieldOf(f.Info, sel) == v.fdF && flow.ObjOf(f.Info, sel.X) == who {
							if record && bad == token.NoPos {
								bad, what = call.Pos(), "unix.Close("+exprStr(call.Args[0])+")"
							}
						}
					}
				})
				return st
			}
			sol := f.Graph().Run(au)
			record = true
			sol.Walk(func(b *flow.Block, i int, n ast.Node, before uint64) {
				for _, st := range flow.States(before) {
					au.Node(b, i, n, st)
				}
			})
			record = false
			c.Check(bad == token.NoPos, f.Name, construct, add.Pos(), "no release or close of the descriptor is reachable between addConn and delConn",
				what+" is reachable after the connection was entered into the registry and before delConn removed it: the registry keeps a dead entry – lookup returns a released conn, the count exceeds the live connections, iteration visits it, closeConns cannot remove it, and a new connection on the same descriptor number is counted on top of it")
			if bad != token.NoPos {
				_ = bad
			}
		}
	}
	_ = sites
}

func mentionsField(f *fn, e ast.Node, fld *types.Var) bool {
	found := false
	ast.Inspect(e, func(m ast.Node) bool {
		if x, ok := m.(ast.Expr); ok && flow.FieldOf(f.Info, x) == fld {
			found = true
		}
		return !found
	})
	return found
}

func isNilExpr(f *fn, e ast.Expr) bool {
	id, ok := ast.Unparen(e).(*ast.Ident)
	if !ok {
		return false
	}
	_, isNil := f.Info.Uses[id].(*types.Nil)
	return isNil
}

func isMakeCall(f *fn, e ast.Expr) bool {
	call, ok := ast.Unparen(e).(*ast.CallExpr)
	if !ok {
		return false
	}
	id, ok := call.Fun.(*ast.Ident)
	if !ok {
		return false
	}
	b, ok := f.Info.Uses[id].(*types.Builtin)
	return ok && b.Name() == "make"
}

func init() {
	register(&core.Rule{ID: "C14.12", Prop: "C14", MinSites: 3, Applies: func(c core.Config) bool { return c.HasTag("gc_opt") },
		Desc: "the matrix forgets what it removes and never reuses a taken cell: every return of delConn has cleared a table cell or dropped a row (table[…]… = nil), and where an entry was relocated a second clear follows the relocation (the cell it was moved from); addConn, on every path that stores the connection, increments cm.column afterwards, and on the edge where the column reached its maximum increments cm.row and resets cm.column to 0 – a cell that is left set is visited by iterate as a dead connection, a cursor that stays put hands the same cell to the next connection",
		Run:  runC14_12})
}

func runC14_12(c *core.Ctx) {
	a := regAnchors(c)
	if a == nil || !a.gc {
		return
	}
	isTableClear := func(f *fn, n ast.Node) bool {
		as, ok := n.(*ast.AssignStmt)
		if !ok || len(as.Lhs) != len(as.Rhs) {
			return false
		}
		for k, l := range as.Lhs {
			if _, isIdx := ast.Unparen(l).(*ast.IndexExpr); isIdx && a.storeInto(f, l) == a.table && flow.IsNil(f.Info, as.Rhs[k]) {
				return true
			}
		}
		return false
	}
	isConnStore := func(f *fn, n ast.Node) bool { // table[..][..] = <a conn>
		as, ok := n.(*ast.AssignStmt)
		if !ok || len(as.Lhs) != len(as.Rhs) {
			return false
		}
		for k, l := range as.Lhs {
			ie, isIdx := ast.Unparen(l).(*ast.IndexExpr)
			if !isIdx || a.storeInto(f, l) != a.table || flow.IsNil(f.Info, as.Rhs[k]) {
				continue
			}
			if _, twoLevel := seeThrough(f, ie.X).(*ast.IndexExpr); twoLevel {
				return true
			}
		}
		return false
	}
	// ---- delConn ----
	{
		f := a.del
		const (
			sNone = iota
			sCleared
			sMoved        // relocated, the source cell not yet cleared
			sMovedCleared // relocated and cleared afterwards
		)
		au := &flow.Auto{Start: sNone}
		au.Node = func(b *flow.Block, i int, n ast.Node, s int) int {
			switch {
			case isTableClear(f, n):
				if s == sMoved {
					return sMovedCleared
				}
				if s == sNone {
					return sCleared
				}
			case isConnStore(f, n):
				return sMoved
			}
			return s
		}
		sol := f.Graph().Run(au)
		k := 0
		sol.AtExit(func(b *flow.Block, _ uint64) {
			k++
			bad := ""
			for _, s := range flow.States(sol.Out(b)) {
				switch s {
				case sNone:
					bad = "without having cleared the removed connection's cell (or dropped its row)"
				case sMoved:
					bad = "after relocating an entry without clearing the cell it was moved from"
				}
			}
			c.Check(bad == "", f.Name, "cells cleared before return #"+itoa(k), b.Return.Pos(), "removed cell cleared; moved-from cell cleared after a relocation",
				"delConn can return "+bad+": the table keeps a pointer to a connection that is gone (or holds one connection twice), so iterate visits a dead connection – closeConns closes it again – and the entry is never garbage-collected")
		})
	}
	// ---- addConn ----
	{
		f := a.add
		colMax, _ := c.P.Object("internal/gfd", "ConnMatrixColumnMax").(*types.Const)
		if !c.Need("ConnMatrixColumnMax", colMax) {
			return
		}
		const (
			fStored = 1 << iota
			fColInc
			fWrap // on the edge column == ColumnMax
			fRowInc
			fColZero
		)
		// path-sensitive: the automaton's state is the set of facts of one path (5 bits, 32 states)
		au := &flow.Auto{Start: 0}
		nodeFn := func(n ast.Node, in uint64) uint64 {
			if isConnStore(f, n) {
				in |= fStored
			}
			switch y := n.(type) {
			case *ast.IncDecStmt:
				if y.Tok == token.INC && flow.FieldOf(f.Info, y.X) == a.colF && in&fStored != 0 {
					in |= fColInc
				}
				if y.Tok == token.INC && flow.FieldOf(f.Info, y.X) == a.rowF {
					in |= fRowInc
				}
			case *ast.AssignStmt:
				for k, l := range y.Lhs {
					if len(y.Rhs) != len(y.Lhs) {
						continue
					}
					cv := flow.ConstOf(f.Info, y.Rhs[k])
					switch flow.FieldOf(f.Info, l) {
					case a.colF:
						if y.Tok == token.ADD_ASSIGN && cv != nil && cv.ExactString() == "1" && in&fStored != 0 {
							in |= fColInc
						}
						if y.Tok == token.ASSIGN && cv != nil && constant.Sign(cv) == 0 {
							in |= fColZero
						}
					case a.rowF:
						if y.Tok == token.ADD_ASSIGN && cv != nil && cv.ExactString() == "1" {
							in |= fRowInc
						}
					}
				}
			}
			return in
		}
		edgeFn := func(e *flow.Edge, in uint64) uint64 {
			if l, r, eq, ok := flow.Equality(e); ok && eq {
				if (flow.FieldOf(f.Info, l) == a.colF && flow.ObjOf(f.Info, r) == types.Object(colMax)) || (flow.FieldOf(f.Info, r) == a.colF && flow.ObjOf(f.Info, l) == types.Object(colMax)) {
					in |= fWrap
				}
			}
			if x, y, op, ok := flow.Cmp(e.Cond); ok && e.Cond != nil && e.Tag == nil && flow.FieldOf(f.Info, x) == a.colF && flow.ObjOf(f.Info, y) == types.Object(colMax) && ((op == token.GEQ && e.Sense) || (op == token.LSS && !e.Sense)) {
				in |= fWrap
			}
			return in
		}
		au.Node = func(b *flow.Block, i int, n ast.Node, st int) int { return int(nodeFn(n, uint64(st))) }
		au.Edge = func(e *flow.Edge, st int) int { return int(edgeFn(e, uint64(st))) }
		sol := f.Graph().Run(au)
		// the store must exist at all
		stores := false
		ast.Inspect(f.Decl.Body, func(n ast.Node) bool {
			if st, ok := n.(ast.Stmt); ok && isConnStore(f, st) {
				stores = true
			}
			return true
		})
		k := 0
		sol.AtExit(func(b *flow.Block, _ uint64) {
			k++
			good := true
			for _, st := range flow.States(sol.Out(b)) {
				facts := uint64(st)
				if facts&fStored == 0 {
					continue
				}
				if facts&fColInc == 0 {
					good = false
				}
				if facts&fWrap != 0 && (facts&fRowInc == 0 || facts&fColZero == 0) {
					good = false
				}
			}
			c.Check(good, f.Name, "cursor advanced before return #"+itoa(k), b.Return.Pos(), "column incremented after the store; row incremented and column reset at the end of a row",
				"addConn can return after storing the connection without moving the insertion cursor on (cm.column++, and cm.row++ / cm.column = 0 at the end of a row): the next connection is stored into the same cell – the earlier one disappears from the table while the count still includes it – or beyond the row")
		})
		if !stores {
			c.Violate(f.Name, "store of the connection", f.Decl.Pos(), "addConn stores no connection into the table")
		}
	}
}

func init() {
	register(&core.Rule{ID: "C14.13", Prop: "C14", MinSites: 3, Applies: func(c core.Config) bool { return c.HasTag("gc_opt") },
		Desc: "the matrix registry's plumbing (gc_opt build, which the test suite does not compile): init allocates the reverse index fd2gfd; loadCount adds up an atomic load of every element of connCounts (a loop from 0 to its length, or a range over it) into the value it returns; iterate calls the visitor on the cell of the current step only where that cell is not nil, does so on every path of a step whose cell is not nil, and ends before the table is exhausted only where the visitor answered false",
		Run:  runC14_13})
}

func runC14_13(c *core.Ctx) {
	a := regAnchors(c)
	if a == nil || !a.gc {
		return
	}
	counts := c.P.Field("", "connMatrix", "connCounts")
	if !c.Need("connMatrix.connCounts", counts) {
		return
	}
	// init
	if f := getFn(c, "", "connMatrix.init"); f != nil {
		okInit := false
		ast.Inspect(f.Decl.Body, func(n ast.Node) bool {
			if as, ok := n.(*ast.AssignStmt); ok && len(as.Lhs) == len(as.Rhs) {
				for k, l := range as.Lhs {
					if flow.FieldOf(f.Info, l) == a.fd2gfd && isMakeCall(f, as.Rhs[k]) {
						okInit = true
					}
				}
			}
			return true
		})
		c.Check(okInit, f.Name, "fd2gfd allocated", f.Decl.Pos(), "make(map…)", "connMatrix.init no longer allocates the reverse index fd2gfd: the first addConn writes into a nil map and the event loop panics")
	}
	// loadCount
	if f := getFn(c, "", "connMatrix.loadCount"); f != nil {
		var res types.Object
		if rl := f.Decl.Type.Results; rl != nil && len(rl.List) == 1 && len(rl.List[0].Names) == 1 {
			res = f.Info.Defs[rl.List[0].Names[0]]
		}
		okLoop, okAcc := false, false
		var idx types.Object
		var elemVar types.Object
		ast.Inspect(f.Decl.Body, func(n ast.Node) bool {
			switch y := n.(type) {
			case *ast.ForStmt:
				if init, ok := y.Init.(*ast.AssignStmt); ok && len(init.Lhs) == 1 && len(init.Rhs) == 1 {
					if cv := flow.ConstOf(f.Info, init.Rhs[0]); cv != nil && constant.Sign(cv) == 0 {
						if x, yy, op, ok := flow.Cmp(y.Cond); ok && op == token.LSS && flow.ObjOf(f.Info, x) == flow.ObjOf(f.Info, init.Lhs[0]) {
							if call, ok := seeThrough(f, yy).(*ast.CallExpr); ok && len(call.Args) == 1 && flow.FieldOf(f.Info, call.Args[0]) == counts {
								if post, ok := y.Post.(*ast.IncDecStmt); ok && post.Tok == token.INC && flow.ObjOf(f.Info, post.X) == flow.ObjOf(f.Info, init.Lhs[0]) {
									okLoop, idx = true, flow.ObjOf(f.Info, init.Lhs[0])
								}
							}
						}
					}
				}
			case *ast.RangeStmt:
				if flow.FieldOf(f.Info, y.X) == counts {
					okLoop = true
					if y.Key != nil {
						idx = flow.ObjOf(f.Info, y.Key)
					}
					if y.Value != nil {
						elemVar = flow.ObjOf(f.Info, y.Value)
					}
				}
			}
			return true
		})
		ast.Inspect(f.Decl.Body, func(n ast.Node) bool {
			as, ok := n.(*ast.AssignStmt)
			if !ok || as.Tok != token.ADD_ASSIGN || len(as.Lhs) != 1 {
				return true
			}
			call, ok := ast.Unparen(as.Rhs[0]).(*ast.CallExpr)
			if !ok || !flow.IsPkgFunc(f.Info, call, "sync/atomic", "LoadInt32") || len(call.Args) != 1 {
				return true
			}
			ie, ok := ast.Unparen(stripAddr(call.Args[0])).(*ast.IndexExpr)
			if ok && flow.FieldOf(f.Info, ie.X) == counts && idx != nil && flow.ObjOf(f.Info, ie.Index) == idx {
				okAcc = true
			}
			_ = elemVar
			return true
		})
		// the accumulator is what is returned
		retOK := res != nil
		if res == nil {
			for _, b := range f.Graph().Exits() {
				if len(b.Return.Results) == 1 {
					retOK = true
				}
			}
		}
		c.Check(okLoop && okAcc && retOK, f.Name, "sum over every row counter", f.Decl.Pos(), "loop over connCounts adding an atomic load of each element",
			"loadCount no longer adds up an atomic load of every element of connCounts: the loop's connection count – what CountConnections and the least-connections policy read – is not the number of registered connections")
	}
	// iterate
	f := a.iter
	visitor := f.param(0)
	var inner *ast.RangeStmt
	ast.Inspect(f.Decl.Body, func(n ast.Node) bool {
		if rs, ok := n.(*ast.RangeStmt); ok {
			for _, call := range callsIn(rs.Body, false) {
				if flow.ObjOf(f.Info, call.Fun) == types.Object(visitor) {
					inner = rs // inner loops are visited later and win
				}
			}
		}
		return true
	})
	if inner == nil || inner.Value == nil {
		c.Violate(f.Name, "visitor call in the cell loop", f.Decl.Pos(), "iterate has no range loop that calls the visitor with its element")
		return
	}
	cell := flow.ObjOf(f.Info, inner.Value)
	const (
		fNonNil = 1 << iota
		fEnd // the walk may end here: table exhausted, or the visitor answered false
	)
	g := f.Graph()
	var outer ast.Stmt
	ast.Inspect(f.Decl.Body, func(n ast.Node) bool {
		var lb *ast.BlockStmt
		switch y := n.(type) {
		case *ast.RangeStmt:
			if y != inner {
				lb = y.Body
			}
		case *ast.ForStmt:
			lb = y.Body
		}
		if lb != nil && outer == nil {
			contains := false
			ast.Inspect(lb, func(m ast.Node) bool {
				if m == ast.Node(inner) {
					contains = true
				}
				return true
			})
			if contains {
				outer = n.(ast.Stmt)
			}
		}
		return true
	})
	p := &flow.Problem{Must: true}
	p.Node = func(b *flow.Block, i int, n ast.Node, in uint64) uint64 {
		for _, call := range flow.Calls(n) {
			if flow.ObjOf(f.Info, call.Fun) == types.Object(visitor) {
				in &^= fEnd
			}
		}
		return in
	}
	p.Edge = func(e *flow.Edge, in uint64) uint64 {
		if e.To.Stmt == ast.Stmt(inner) && e.To.Kind == cfg.KindRangeBody {
			in &^= fNonNil
		}
		if e.Cond != nil && e.Tag == nil {
			if x, y, op, ok := flow.Cmp(e.Cond); ok && flow.ObjOf(f.Info, x) == cell && flow.IsNil(f.Info, y) {
				if (op == token.NEQ) == e.Sense {
					in |= fNonNil
				}
			}
			if call, ok := seeThroughAt(f, e.Cond, e.Cond).(*ast.CallExpr); ok && flow.ObjOf(f.Info, call.Fun) == types.Object(visitor) {
				if e.Sense {
					in &^= fEnd
				} else {
					in |= fEnd
				}
			}
		}
		if e.Cond == nil && e.From.Kind == cfg.KindRangeLoop && e.To.Kind == cfg.KindRangeDone && (e.From.Stmt == outer || (outer == nil && e.From.Stmt == ast.Stmt(inner))) {
			in |= fEnd
		}
		if fs, isFor := outer.(*ast.ForStmt); isFor && fs.Cond != nil && e.Cond != nil && !e.Sense && e.Cond.Pos() >= fs.Cond.Pos() && e.Cond.End() <= fs.Cond.End() {
			in |= fEnd // the counted outer loop ran out
		}
		return in
	}
	sol := g.Solve(p)
	k := 0
	sol.Walk(func(b *flow.Block, i int, n ast.Node, before uint64) {
		for _, call := range flow.Calls(n) {
			if flow.ObjOf(f.Info, call.Fun) == types.Object(visitor) {
				k++
				c.Check(len(call.Args) == 1 && flow.ObjOf(f.Info, call.Args[0]) == cell && before&fNonNil != 0, f.Name, "visitor call #"+itoa(k), call.Pos(), "the current cell, established non-nil",
					"iterate hands the visitor something other than the current cell, or a cell that may be nil: closeConns would close a nil connection (the loop panics) or skip the live one")
			}
		}
	})
	okEnd := true
	sol.AtExit(func(b *flow.Block, facts uint64) {
		if facts&fEnd == 0 {
			okEnd = false
		}
	})
	c.Check(okEnd, f.Name, "end of the walk", f.Decl.Pos(), "table exhausted or visitor answered false", "iterate can return before the table is exhausted although the visitor did not ask for it (or goes on after the visitor answered false): the shutdown sweep leaves connections registered")
	// every non-nil cell reaches the visitor: on the non-nil edge the call is a must before the step ends
	const fCalled = 1
	q := &flow.Problem{Must: true}
	q.Node = func(b *flow.Block, i int, n ast.Node, in uint64) uint64 {
		for _, call := range flow.Calls(n) {
			if flow.ObjOf(f.Info, call.Fun) == types.Object(visitor) {
				in |= fCalled
			}
		}
		return in
	}
	q.Edge = func(e *flow.Edge, in uint64) uint64 {
		if e.To.Stmt == ast.Stmt(inner) && e.To.Kind == cfg.KindRangeBody {
			return 0
		}
		if e.Cond != nil && e.Tag == nil {
			if x, y, op, ok := flow.Cmp(e.Cond); ok && flow.ObjOf(f.Info, x) == cell && flow.IsNil(f.Info, y) && (op == token.EQL) == e.Sense {
				in |= fCalled // an empty cell: nothing to visit
			}
		}
		return in
	}
	qs := g.Solve(q)
	// the blocks of one step: reachable from the inner loop's body block without passing the inner loop's own head/done blocks
	inStep := map[*flow.Block]bool{}
	var work []*flow.Block
	for _, b := range g.Blocks {
		if b.Stmt == ast.Stmt(inner) && b.Kind == cfg.KindRangeBody {
			inStep[b] = true
			work = append(work, b)
		}
	}
	for len(work) > 0 {
		b := work[len(work)-1]
		work = work[:len(work)-1]
		for _, e := range b.Succs {
			own := e.To.Stmt == ast.Stmt(inner) && (e.To.Kind == cfg.KindRangeLoop || e.To.Kind == cfg.KindRangeDone)
			if !inStep[e.To] && !own {
				inStep[e.To] = true
				work = append(work, e.To)
			}
		}
	}
	okAll, backs := true, 0
	for _, b := range g.Blocks {
		if !qs.Seen[b.ID] || !inStep[b] {
			continue
		}
		for _, e := range b.Succs {
			if e.To.Stmt == ast.Stmt(inner) && e.To.Kind == cfg.KindRangeLoop {
				backs++
				if qs.Out(b)&fCalled == 0 {
					okAll = false
				}
			}
		}
	}
	c.Check(okAll && backs > 0, f.Name, "every live cell visited", inner.Pos(), "a step whose cell is not nil calls the visitor", "a step of iterate can move on to the next cell without having called the visitor although the cell was not nil: that connection is skipped by the shutdown sweep and by everything else built on iterate")
}
