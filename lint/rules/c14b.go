package rules

import (
	"go/ast"
	"go/types"

	"gnetlint/core"
	"gnetlint/flow"
)

func init() {
	register(&core.Rule{ID: "C14.7", Prop: "C14", MinSites: 1,
		Desc: "iterate's extent does not move under the visitor: the loops of connMatrix.iterate range over the registry's containers themselves (the table / a row / the map) and no loop bound or index reads a field that addConn or delConn write (the insertion cursor is rewound by every removal, so a bound taken from it ends the shutdown sweep early)",
		Run: runC14_7})
}

func runC14_7(c *core.Ctx) {
	a := regAnchors(c)
	if a == nil {
		return
	}
	// fields of the registry written by addConn/delConn (directly)
	written := map[*types.Var]bool{}
	for _, f := range []*fn{a.add, a.del} {
		ast.Inspect(f.Decl.Body, func(n ast.Node) bool {
			var lhs []ast.Expr
			switch x := n.(type) {
			case *ast.AssignStmt:
				lhs = x.Lhs
			case *ast.IncDecStmt:
				lhs = []ast.Expr{x.X}
			}
			for _, l := range lhs {
				if sel, ok := ast.Unparen(l).(*ast.SelectorExpr); ok {
					if fl := flow.FieldOf(f.Info, sel); fl != nil && flow.ObjOf(f.Info, sel.X) == types.Object(f.recvVar()) {
						written[fl] = true
					}
				}
			}
			return true
		})
	}
	f := a.iter
	loops := 0
	var bad ast.Node
	var badField string
	readsWritten := func(e ast.Node) bool {
		found := false
		if e == nil {
			return false
		}
		ast.Inspect(e, func(n ast.Node) bool {
			if sel, ok := n.(*ast.SelectorExpr); ok {
				if fl := flow.FieldOf(f.Info, sel); fl != nil && written[fl] && flow.ObjOf(f.Info, sel.X) == types.Object(f.recvVar()) {
					// containers themselves may be ranged over; scalars may not bound the loop
					if _, isBasic := fl.Type().Underlying().(*types.Basic); isBasic {
						found = true
						badField = fl.Name()
					}
				}
			}
			return true
		})
		return found
	}
	ast.Inspect(f.Decl.Body, func(n ast.Node) bool {
		switch x := n.(type) {
		case *ast.FuncLit:
			return false
		case *ast.ForStmt:
			loops++
			if bad == nil && (readsWritten(x.Cond) || readsWritten(x.Init) || readsWritten(x.Post)) {
				bad = x
			}
		case *ast.RangeStmt:
			loops++
			if bad == nil && readsWritten(x.X) {
				bad = x
			}
		}
		return true
	})
	if loops == 0 {
		c.Undecided(f.Name, "loops of iterate", f.Decl.Pos(), "connMatrix.iterate has no loop: idiom not recognised")
		return
	}
	if bad != nil {
		c.Violate(f.Name, "loop extent independent of the cursor", bad.Pos(), "a loop of iterate is bounded by cm."+badField+", which delConn/addConn write: when the visitor removes the connections it is shown (closeConns at shutdown), the bound moves while the loop runs and the later rows are never visited – those connections get no OnClose and stay registered")
		return
	}
	c.Ok(f.Name, "loop extent independent of the cursor", f.Decl.Pos(), itoa(loops)+" loop(s) range over the containers; no bound reads a cursor field")
}
