package rules

import (
	"go/ast"
	"go/constant"
	"go/token"
	"go/types"
	"math/big"

	"gnetlint/core"
	"gnetlint/flow"
)

func init() {
	register(&core.Rule{ID: "C20.6", Prop: "C20", MinSites: 2,
		Desc: "ClosestPowerOfTwo picks the nearer neighbour without leaving the int range: with X = CeilToPowerOfTwo(n) and P = X/2, every return hands back P exactly on the edge that establishes 2n < 3P (n nearer to P; the tie goes to X) and X on the opposite edge – decided on the affine forms of the comparison's operands in n and P, however it is spelled; and no +, -, *, << or negation in the function can exceed the int range for 1 <= n <= 2^(W-2) (interval evaluation with X in [2, 2^(W-2)], P in [1, 2^(W-3)]) – doubling n, for one, overflows at exactly n = 2^(W-2)",
		Run:  runC20_6})
}

// affine form a·n + b·P + d (P = half of the ceiling power X, so X = 2P)
type aff struct {
	a, b, d int64
	ok      bool
}

func (x aff) add(y aff, sign int64) aff {
	return aff{x.a + sign*y.a, x.b + sign*y.b, x.d + sign*y.d, x.ok && y.ok}
}
func (x aff) scale(k int64) aff { return aff{x.a * k, x.b * k, x.d * k, x.ok} }

const (
	clOther = iota // tracked local holds something else / unknown
	clX
	clP
)

func runC20_6(c *core.Ctx) {
	f := getFn(c, "pkg/math", "ClosestPowerOfTwo")
	ceil := c.P.Func("pkg/math", "CeilToPowerOfTwo")
	if f == nil || !c.Need("CeilToPowerOfTwo", ceil) {
		return
	}
	w := intWidth(c, f.Obj.Pkg(), types.Typ[types.Int])
	n := f.param(0)
	if n == nil || w < 8 {
		c.Undecided(f.Name, "parameter", f.Decl.Pos(), "ClosestPowerOfTwo has no int parameter")
		return
	}
	// tracked locals: every local int variable of the function (at most 4, two bits each)
	var locals []*types.Var
	idx := map[*types.Var]int{}
	ast.Inspect(f.Decl.Body, func(x ast.Node) bool {
		if id, ok := x.(*ast.Ident); ok {
			if v, ok := f.Info.Defs[id].(*types.Var); ok && v != nil && !v.IsField() {
				if _, seen := idx[v]; !seen {
					idx[v] = len(locals)
					locals = append(locals, v)
				}
			}
		}
		return true
	})
	if len(locals) > 6 {
		c.Undecided(f.Name, "locals", f.Decl.Pos(), "ClosestPowerOfTwo uses more local variables than the rule tracks")
		return
	}
	classOfVar := func(st int, v *types.Var) int { return (st >> (2 * uint(idx[v]))) & 3 }
	setVar := func(st int, v *types.Var, cl int) int {
		sh := 2 * uint(idx[v])
		return st&^(3<<sh) | cl<<sh
	}
	const condShift = 12
	const (
		cUnknown = 0
		cLower   = 1 // 2n < 3P established: P is strictly nearer
		cUpper   = 2 // 2n >= 3P established: X is nearer or it is a tie
	)
	var lin func(st int, e ast.Expr) aff
	lin = func(st int, e ast.Expr) aff {
		e = ast.Unparen(e)
		if cv := flow.ConstOf(f.Info, e); cv != nil {
			if k, exact := constant.Int64Val(constant.ToInt(cv)); exact {
				return aff{0, 0, k, true}
			}
			return aff{}
		}
		switch x := e.(type) {
		case *ast.Ident:
			o := f.Info.Uses[x]
			if o == types.Object(n) {
				return aff{1, 0, 0, true}
			}
			if v, ok := o.(*types.Var); ok {
				if _, tracked := idx[v]; tracked {
					switch classOfVar(st, v) {
					case clX:
						return aff{0, 2, 0, true}
					case clP:
						return aff{0, 1, 0, true}
					}
				}
			}
		case *ast.CallExpr:
			if flow.IsCall(f.Info, x, ceil) && len(x.Args) == 1 && flow.ObjOf(f.Info, x.Args[0]) == types.Object(n) {
				return aff{0, 2, 0, true}
			}
			// int(e)
			if tv, ok := f.Info.Types[x.Fun]; ok && tv.IsType() && len(x.Args) == 1 && types.Identical(tv.Type, types.Typ[types.Int]) {
				return lin(st, x.Args[0])
			}
		case *ast.UnaryExpr:
			if x.Op == token.SUB {
				return lin(st, x.X).scale(-1)
			}
			if x.Op == token.ADD {
				return lin(st, x.X)
			}
		case *ast.BinaryExpr:
			l, r := lin(st, x.X), lin(st, x.Y)
			isConst := func(v aff) bool { return v.ok && v.a == 0 && v.b == 0 }
			switch x.Op {
			case token.ADD:
				return l.add(r, 1)
			case token.SUB:
				return l.add(r, -1)
			case token.MUL:
				if isConst(l) {
					return r.scale(l.d)
				}
				if isConst(r) {
					return l.scale(r.d)
				}
			case token.SHL:
				if isConst(r) && r.d >= 0 && r.d < 62 {
					return l.scale(1 << uint(r.d))
				}
			case token.QUO, token.SHR:
				// exact only for a multiple of X = 2P (a power of two >= 2) divided by 2: the half is P
				k := int64(0)
				if isConst(r) {
					k = r.d
					if x.Op == token.SHR {
						if r.d < 0 || r.d > 1 {
							return aff{}
						}
						k = 1 << uint(r.d)
					}
				}
				if l.ok && l.a == 0 && l.d == 0 && k == 2 && l.b%2 == 0 {
					return aff{0, l.b / 2, 0, true}
				}
				if k == 1 {
					return l
				}
			}
		}
		return aff{}
	}
	classOf := func(st int, e ast.Expr) int {
		v := lin(st, e)
		switch {
		case v.ok && v.a == 0 && v.d == 0 && v.b == 2:
			return clX
		case v.ok && v.a == 0 && v.d == 0 && v.b == 1:
			return clP
		}
		return clOther
	}
	g := f.Graph()
	// the automaton of flow.Auto has at most 64 states: composite states are interned on demand
	table := []int{0}
	number := map[int]int{0: 0}
	tooMany := false
	intern := func(st int) int {
		if k, ok := number[st]; ok {
			return k
		}
		if len(table) >= 64 {
			tooMany = true
			return 0
		}
		number[st] = len(table)
		table = append(table, st)
		return len(table) - 1
	}
	au := &flow.Auto{Start: 0}
	assign := func(st int, lhs []ast.Expr, rhs []ast.Expr) int {
		if len(lhs) != len(rhs) {
			for _, l := range lhs {
				if v, ok := flow.ObjOf(f.Info, l).(*types.Var); ok {
					if _, tracked := idx[v]; tracked {
						st = setVar(st, v, clOther)
					}
				}
			}
			return st
		}
		cls := make([]int, len(rhs))
		for k := range rhs {
			cls[k] = classOf(st, rhs[k])
		}
		for k, l := range lhs {
			if v, ok := flow.ObjOf(f.Info, l).(*types.Var); ok {
				if _, tracked := idx[v]; tracked {
					st = setVar(st, v, cls[k])
				}
			}
		}
		return st
	}
	nodeFn := func(nd ast.Node, st int) int {
		switch y := nd.(type) {
		case *ast.AssignStmt:
			if y.Tok == token.ASSIGN || y.Tok == token.DEFINE {
				return assign(st, y.Lhs, y.Rhs)
			}
			for _, l := range y.Lhs { // op-assignments
				if v, ok := flow.ObjOf(f.Info, l).(*types.Var); ok {
					if _, tracked := idx[v]; tracked {
						st = setVar(st, v, clOther)
					}
				}
			}
		case *ast.IncDecStmt:
			if v, ok := flow.ObjOf(f.Info, y.X).(*types.Var); ok {
				if _, tracked := idx[v]; tracked {
					st = setVar(st, v, clOther)
				}
			}
		case *ast.DeclStmt:
			if gd, ok := y.Decl.(*ast.GenDecl); ok {
				for _, sp := range gd.Specs {
					if vs, ok := sp.(*ast.ValueSpec); ok && len(vs.Values) == len(vs.Names) {
						lhs := make([]ast.Expr, len(vs.Names))
						for k := range vs.Names {
							lhs[k] = vs.Names[k]
						}
						st = assign(st, lhs, vs.Values)
					}
				}
			}
		}
		return st
	}
	au.Node = func(b *flow.Block, i int, nd ast.Node, k int) int { return intern(nodeFn(nd, table[k])) }
	edgeFn := func(e *flow.Edge, st int) int {
		if e.Cond == nil || e.Tag != nil {
			return st
		}
		x, y, op, ok := flow.Cmp(e.Cond)
		if !ok {
			return st
		}
		if !e.Sense {
			switch op {
			case token.LSS:
				op = token.GEQ
			case token.LEQ:
				op = token.GTR
			case token.GTR:
				op = token.LEQ
			case token.GEQ:
				op = token.LSS
			default:
				return st
			}
		}
		l, r := lin(st, x), lin(st, y)
		if !l.ok || !r.ok {
			return st
		}
		// bring to G < 0
		var G aff
		switch op {
		case token.LSS:
			G = l.add(r, -1)
		case token.LEQ:
			G = l.add(r, -1)
			G.d--
		case token.GTR:
			G = r.add(l, -1)
		case token.GEQ:
			G = r.add(l, -1)
			G.d--
		default:
			return st
		}
		fact := cUnknown
		switch {
		case G.a > 0 && G.a%2 == 0 && G.b == -3*(G.a/2) && G.d >= 0 && G.d < G.a/2:
			fact = cLower // k(2n - 3P) + d < 0, 0 <= d < k  <=>  2n - 3P < 0
		case G.a < 0 && G.a%2 == 0 && G.b == -3*(G.a/2) && G.d <= -1 && -G.d <= -G.a/2:
			fact = cUpper // k(3P - 2n) - j < 0, 1 <= j <= k  <=>  3P - 2n <= 0
		}
		if fact != cUnknown {
			st = st&^(3<<condShift) | fact<<condShift
		}
		return st
	}
	au.Edge = func(e *flow.Edge, k int) int { return intern(edgeFn(e, table[k])) }
	sol := g.Run(au)
	if tooMany {
		c.Undecided(f.Name, "states", f.Decl.Pos(), "more than 64 distinct variable/condition states in ClosestPowerOfTwo")
		return
	}
	rets := 0
	sol.AtExit(func(b *flow.Block, _ uint64) {
		r := b.Return
		if r == nil || len(r.Results) != 1 {
			// a bare return of a named result
			var res ast.Expr
			if r != nil && len(r.Results) == 0 && f.Decl.Type.Results != nil && len(f.Decl.Type.Results.List) == 1 && len(f.Decl.Type.Results.List[0].Names) == 1 {
				res = f.Decl.Type.Results.List[0].Names[0]
			}
			if res == nil {
				return
			}
			r = &ast.ReturnStmt{Return: r.Pos(), Results: []ast.Expr{res}}
		}
		rets++
		good, why := true, ""
		for _, k := range flow.States(sol.Out(b)) {
			st := table[k]
			cl, fact := clOther, (st>>condShift)&3
			if id, ok := ast.Unparen(r.Results[0]).(*ast.Ident); ok && f.Info.Uses[id] == nil && f.Info.Defs[id] != nil {
				if v, ok := f.Info.Defs[id].(*types.Var); ok { // named result given by its declaration
					cl = classOfVar(st, v)
				}
			} else {
				cl = classOf(st, r.Results[0])
			}
			switch {
			case cl == clP && fact == cLower, cl == clX && fact == cUpper:
			case cl == clOther:
				good, why = false, "a path returns a value that is neither CeilToPowerOfTwo(n) nor its half"
			case fact == cUnknown:
				good, why = false, "a path returns one of the two neighbours without having compared 2n with 3·prev (distance to the lower against distance to the upper power)"
			case cl == clP:
				good, why = false, "the lower power is returned where the upper one is at least as near (2n >= 3·prev): ties and nearer-to-upper arguments get the wrong neighbour"
			default:
				good, why = false, "the upper power is returned where the lower one is strictly nearer (2n < 3·prev)"
			}
		}
		c.Check(good, f.Name, "return #"+itoa(rets)+" hands back the nearer neighbour", r.Pos(), "lower power exactly under 2n < 3·prev, upper power otherwise", why)
	})
	if rets == 0 {
		c.Violate(f.Name, "returns", f.Decl.Pos(), "ClosestPowerOfTwo has no return with a result")
	}

	// ---- no arithmetic leaves the int range on the domain 1 <= n <= 2^(W-2) ----
	type iv struct {
		lo, hi *big.Int
		top    bool
	}
	pow := func(k int64) *big.Int { return new(big.Int).Lsh(big.NewInt(1), uint(k)) }
	maxInt := new(big.Int).Sub(pow(w-1), big.NewInt(1))
	minInt := new(big.Int).Neg(pow(w - 1))
	top := iv{top: true}
	join := func(x, y iv) iv {
		if x.top || y.top {
			return top
		}
		lo, hi := x.lo, x.hi
		if y.lo.Cmp(lo) < 0 {
			lo = y.lo
		}
		if y.hi.Cmp(hi) > 0 {
			hi = y.hi
		}
		return iv{lo: lo, hi: hi}
	}
	env := map[*types.Var]*iv{}
	type finding struct {
		pos  token.Pos
		text string
	}
	var overflow []finding
	checked := 0
	var eval func(e ast.Expr, report bool) iv
	eval = func(e ast.Expr, report bool) iv {
		e = ast.Unparen(e)
		if cv := flow.ConstOf(f.Info, e); cv != nil {
			if k, exact := constant.Int64Val(constant.ToInt(cv)); exact {
				return iv{lo: big.NewInt(k), hi: big.NewInt(k)}
			}
			return top
		}
		inRange := func(r iv, x ast.Expr, what string) iv {
			if r.top {
				return r
			}
			if report {
				checked++
			}
			if r.lo.Cmp(minInt) < 0 || r.hi.Cmp(maxInt) > 0 {
				if report {
					overflow = append(overflow, finding{x.Pos(), what + " `" + exprStr(x) + "` can reach " + r.hi.String() + " / " + r.lo.String() + ", outside the int range of this target (W=" + itoa(int(w)) + ") for an argument in [1, 2^" + itoa(int(w-2)) + "]"})
				}
				return top
			}
			return r
		}
		switch x := e.(type) {
		case *ast.Ident:
			o := f.Info.Uses[x]
			if o == types.Object(n) {
				return iv{lo: big.NewInt(1), hi: pow(w - 2)}
			}
			if v, ok := o.(*types.Var); ok {
				if r := env[v]; r != nil {
					return *r
				}
			}
		case *ast.CallExpr:
			if flow.IsCall(f.Info, x, ceil) {
				for _, a := range x.Args {
					eval(a, report)
				}
				return iv{lo: big.NewInt(2), hi: pow(w - 2)} // C20.2: the smallest power of two >= max(n, 2), panics above 2^(W-2)
			}
			if tv, ok := f.Info.Types[x.Fun]; ok && tv.IsType() && len(x.Args) == 1 && types.Identical(tv.Type, types.Typ[types.Int]) {
				return eval(x.Args[0], report)
			}
			for _, a := range x.Args {
				eval(a, report)
			}
		case *ast.UnaryExpr:
			r := eval(x.X, report)
			if x.Op == token.SUB && !r.top {
				return inRange(iv{lo: new(big.Int).Neg(r.hi), hi: new(big.Int).Neg(r.lo)}, x, "negation")
			}
			if x.Op == token.ADD {
				return r
			}
		case *ast.BinaryExpr:
			l, r := eval(x.X, report), eval(x.Y, report)
			if l.top || r.top {
				return top
			}
			switch x.Op {
			case token.ADD:
				return inRange(iv{lo: new(big.Int).Add(l.lo, r.lo), hi: new(big.Int).Add(l.hi, r.hi)}, x, "sum")
			case token.SUB:
				return inRange(iv{lo: new(big.Int).Sub(l.lo, r.hi), hi: new(big.Int).Sub(l.hi, r.lo)}, x, "difference")
			case token.MUL:
				cands := []*big.Int{new(big.Int).Mul(l.lo, r.lo), new(big.Int).Mul(l.lo, r.hi), new(big.Int).Mul(l.hi, r.lo), new(big.Int).Mul(l.hi, r.hi)}
				lo, hi := cands[0], cands[0]
				for _, k := range cands {
					if k.Cmp(lo) < 0 {
						lo = k
					}
					if k.Cmp(hi) > 0 {
						hi = k
					}
				}
				return inRange(iv{lo: lo, hi: hi}, x, "product")
			case token.SHL:
				if r.lo.Sign() >= 0 && r.hi.IsInt64() && r.hi.Int64() < 128 {
					cands := []*big.Int{new(big.Int).Lsh(l.lo, uint(r.lo.Int64())), new(big.Int).Lsh(l.lo, uint(r.hi.Int64())), new(big.Int).Lsh(l.hi, uint(r.lo.Int64())), new(big.Int).Lsh(l.hi, uint(r.hi.Int64()))}
					lo, hi := cands[0], cands[0]
					for _, k := range cands {
						if k.Cmp(lo) < 0 {
							lo = k
						}
						if k.Cmp(hi) > 0 {
							hi = k
						}
					}
					return inRange(iv{lo: lo, hi: hi}, x, "left shift")
				}
			case token.QUO:
				if r.lo.Sign() > 0 { // positive divisor: monotone
					q := func(a, b *big.Int) *big.Int { return new(big.Int).Quo(a, b) }
					cands := []*big.Int{q(l.lo, r.lo), q(l.lo, r.hi), q(l.hi, r.lo), q(l.hi, r.hi)}
					lo, hi := cands[0], cands[0]
					for _, k := range cands {
						if k.Cmp(lo) < 0 {
							lo = k
						}
						if k.Cmp(hi) > 0 {
							hi = k
						}
					}
					return iv{lo: lo, hi: hi}
				}
			case token.SHR:
				if r.lo.Sign() >= 0 && r.hi.IsInt64() && r.hi.Int64() < 128 {
					cands := []*big.Int{new(big.Int).Rsh(l.lo, uint(r.lo.Int64())), new(big.Int).Rsh(l.lo, uint(r.hi.Int64())), new(big.Int).Rsh(l.hi, uint(r.lo.Int64())), new(big.Int).Rsh(l.hi, uint(r.hi.Int64()))}
					lo, hi := cands[0], cands[0]
					for _, k := range cands {
						if k.Cmp(lo) < 0 {
							lo = k
						}
						if k.Cmp(hi) > 0 {
							hi = k
						}
					}
					return iv{lo: lo, hi: hi}
				}
			}
		}
		return top
	}
	// flow-insensitive environment: a local's interval is the join of everything assigned to it (three rounds reach the fixpoint of this loop-free function; otherwise top)
	type def struct {
		v    *types.Var
		rhs  ast.Expr
		zero bool
	}
	var defs []def
	loops := false
	ast.Inspect(f.Decl.Body, func(x ast.Node) bool {
		switch y := x.(type) {
		case *ast.ForStmt, *ast.RangeStmt:
			loops = true
		case *ast.AssignStmt:
			for k, l := range y.Lhs {
				v, ok := flow.ObjOf(f.Info, l).(*types.Var)
				if !ok {
					continue
				}
				if (y.Tok == token.ASSIGN || y.Tok == token.DEFINE) && len(y.Lhs) == len(y.Rhs) {
					defs = append(defs, def{v: v, rhs: y.Rhs[k]})
				} else {
					defs = append(defs, def{v: v})
				}
			}
		case *ast.IncDecStmt:
			if v, ok := flow.ObjOf(f.Info, y.X).(*types.Var); ok {
				defs = append(defs, def{v: v})
			}
		case *ast.ValueSpec:
			for k, nm := range y.Names {
				if v, ok := f.Info.Defs[nm].(*types.Var); ok {
					if len(y.Values) == len(y.Names) {
						defs = append(defs, def{v: v, rhs: y.Values[k]})
					} else {
						defs = append(defs, def{v: v, zero: len(y.Values) == 0})
					}
				}
			}
		}
		return true
	})
	for round := 0; round < 4 && !loops; round++ {
		next := map[*types.Var]*iv{}
		for _, d := range defs {
			r := top
			if d.zero {
				r = iv{lo: big.NewInt(0), hi: big.NewInt(0)}
			} else if d.rhs != nil {
				r = eval(d.rhs, false)
			}
			if cur := next[d.v]; cur != nil {
				j := join(*cur, r)
				next[d.v] = &j
			} else {
				rr := r
				next[d.v] = &rr
			}
		}
		env = next
	}
	if loops {
		env = map[*types.Var]*iv{}
	}
	// report pass: every arithmetic expression of the body once
	seen := map[ast.Expr]bool{}
	ast.Inspect(f.Decl.Body, func(x ast.Node) bool {
		e, ok := x.(ast.Expr)
		if !ok {
			return true
		}
		switch e.(type) {
		case *ast.BinaryExpr, *ast.UnaryExpr:
			if !seen[e] {
				eval(e, true)
				// sub-expressions were evaluated (and reported) as part of e
				ast.Inspect(e, func(y ast.Node) bool {
					if se, ok := y.(ast.Expr); ok {
						seen[se] = true
					}
					return true
				})
			}
			return false
		}
		return true
	})
	if len(overflow) == 0 {
		c.Ok(f.Name, "arithmetic stays inside the int range", f.Decl.Pos(), itoa(checked)+" arithmetic expressions evaluated over n in [1, 2^(W-2)], ceiling in [2, 2^(W-2)]")
	} else {
		c.Violate(f.Name, "arithmetic stays inside the int range", overflow[0].pos, overflow[0].text+": the wrapped value takes the comparison the wrong way and the function returns the farther power (or a non-power)")
	}
}
