package rules

import (
	"go/ast"
	"go/token"
	"go/types"
	"sort"
	"strings"

	"golang.org/x/tools/go/ssa"

	"gnetlint/core"
	"gnetlint/flow"
)

func init() {
	describe(&PropInfo{ID: "C17", QuickConfigs: []core.Config{cfgDarwin},
		Explanation: "Decides conversion tables and capture identity: (1) the writers (IPToSockaddr, UnixAddrToSockaddr, NetAddrToSockaddr) and readers (SockaddrToTCPOrUnixAddr, SockaddrToUDPAddr) cover the same sockaddr " +
			"kinds and transfer the same fields (Port, Addr, ZoneId / Name), every type switch has a nil-returning default, IPToSockaddr ends in `return nil` for invalid lengths and none of them contains a panicking construct " +
			"other than constant-bounded array slices; (2) at the three capture sites (accept0, accept, readUDP) the remote address given to the conn constructor is the conversion of the sockaddr returned by that very " +
			"Accept/Recvfrom, and the local address is listeners[fd].addr of the event's fd; (3) conn.localAddr/remoteAddr/remote are written only by the constructors and release. Numeric round-trip and interface lookups are not decided.",
		Assumptions: []string{"net and x/sys/unix address types behave as documented"}})

	register(&core.Rule{ID: "C17.1", Prop: "C17", MinSites: 8,
		Desc: "sockaddr conversion table: writers and readers cover the same kinds and fields; type switches default to nil; no panicking construct in the conversion functions",
		Run:  runC17_1})
	register(&core.Rule{ID: "C17.2", Prop: "C17", MinSites: 5,
		Desc: "truthful capture: the remote address of a new conn is derived from the sockaddr returned by this Accept/Recvfrom, the local address is listeners[fd].addr for the event's fd",
		Run:  runC17_2})
	register(&core.Rule{ID: "C17.3", Prop: "C17", MinSites: 6,
		Desc: "conn.localAddr, remoteAddr and remote are written only by newStreamConn/newUDPConn and release",
		Run:  runC17_3})
}

func runC17_1(c *core.Ctx) {
	pk := c.P.Pkg("pkg/socket")
	if pk == nil {
		c.Undecided("anchor", "pkg/socket", token.NoPos, "package not loaded")
		return
	}
	info := pk.TypesInfo
	get := func(name string) *fn { return getFn(c, "pkg/socket", name) }
	// composite literals of unix.SockaddrX and the fields set / read
	type fieldSet map[string]bool
	kindFields := func(f *fn, write bool) map[string]fieldSet {
		out := map[string]fieldSet{}
		if f == nil {
			return out
		}
		ast.Inspect(f.Decl.Body, func(n ast.Node) bool {
			switch y := n.(type) {
			case *ast.CompositeLit:
				t := info.TypeOf(y)
				if t == nil {
					return true
				}
				if nm, ok := t.(*types.Named); ok && nm.Obj().Pkg() != nil && nm.Obj().Pkg().Path() == unixPkg && strings.HasPrefix(nm.Obj().Name(), "Sockaddr") && write {
					fs := out[nm.Obj().Name()]
					if fs == nil {
						fs = fieldSet{}
						out[nm.Obj().Name()] = fs
					}
					for _, el := range y.Elts {
						if kv, ok := el.(*ast.KeyValueExpr); ok {
							if id, ok := kv.Key.(*ast.Ident); ok {
								fs[id.Name] = true
							}
						}
					}
				}
			case *ast.SelectorExpr:
				// sa.Addr / sa.Port / sa.ZoneId / sa.Name where sa is a *unix.SockaddrX
				if sel, ok := info.Selections[y]; ok && sel.Kind() == types.FieldVal {
					rt := sel.Recv()
					if p, ok := rt.(*types.Pointer); ok {
						rt = p.Elem()
					}
					if nm, ok := rt.(*types.Named); ok && nm.Obj().Pkg() != nil && nm.Obj().Pkg().Path() == unixPkg && strings.HasPrefix(nm.Obj().Name(), "Sockaddr") {
						fs := out[nm.Obj().Name()]
						if fs == nil {
							fs = fieldSet{}
							out[nm.Obj().Name()] = fs
						}
						fs[y.Sel.Name] = true
					}
				}
			}
			return true
		})
		return out
	}
	merge := func(ms ...map[string]fieldSet) map[string]fieldSet {
		out := map[string]fieldSet{}
		for _, m := range ms {
			for k, fs := range m {
				if out[k] == nil {
					out[k] = fieldSet{}
				}
				for f := range fs {
					out[k][f] = true
				}
			}
		}
		return out
	}
	ipTo, unixTo := get("IPToSockaddr"), get("UnixAddrToSockaddr")
	toTCP, toUDP := get("SockaddrToTCPOrUnixAddr"), get("SockaddrToUDPAddr")
	netTo := get("NetAddrToSockaddr")
	if ipTo == nil || unixTo == nil || toTCP == nil || toUDP == nil || netTo == nil {
		return
	}
	w := merge(kindFields(ipTo, true), kindFields(unixTo, true))
	// sa.Addr is filled by copy(sa.Addr[:], ip): count selector uses in the writer as written fields too
	for k, fs := range kindFields(ipTo, false) {
		if w[k] == nil {
			w[k] = fieldSet{}
		}
		for f := range fs {
			w[k][f] = true
		}
	}
	rTCP, rUDP := kindFields(toTCP, false), kindFields(toUDP, false)
	render := func(fs fieldSet) string {
		var ks []string
		for k := range fs {
			ks = append(ks, k)
		}
		sort.Strings(ks)
		return strings.Join(ks, ",")
	}
	want := map[string]string{"SockaddrInet4": "Addr,Port", "SockaddrInet6": "Addr,Port,ZoneId", "SockaddrUnix": "Name"}
	for kind, fields := range want {
		c.Check(render(w[kind]) == fields, "socket writers", "writer fields of "+kind, ipTo.Decl.Pos(), "writes "+fields, "the net.Addr → "+kind+" conversion sets {"+render(w[kind])+"} instead of {"+fields+"}: a field (port, address bytes, zone, path) is lost")
		c.Check(render(rTCP[kind]) == fields, toTCP.Name, "reader fields of "+kind, toTCP.Decl.Pos(), "reads "+fields, "SockaddrToTCPOrUnixAddr reads {"+render(rTCP[kind])+"} of "+kind+" instead of {"+fields+"}: the reported address drops a field")
		if kind != "SockaddrUnix" {
			c.Check(render(rUDP[kind]) == fields, toUDP.Name, "reader fields of "+kind, toUDP.Decl.Pos(), "reads "+fields, "SockaddrToUDPAddr reads {"+render(rUDP[kind])+"} of "+kind+" instead of {"+fields+"}")
		}
	}
	// type switches default to nil
	for _, f := range []*fn{toTCP, toUDP, netTo} {
		ast.Inspect(f.Decl.Body, func(n ast.Node) bool {
			ts, ok := n.(*ast.TypeSwitchStmt)
			if !ok {
				return true
			}
			hasNilDefault := false
			for _, cl := range ts.Body.List {
				cc := cl.(*ast.CaseClause)
				if cc.List == nil {
					for _, st := range cc.Body {
						if r, ok := st.(*ast.ReturnStmt); ok && len(r.Results) == 1 && flow.IsNil(info, r.Results[0]) {
							hasNilDefault = true
						}
					}
				}
			}
			// falling off the switch to a final `return nil` is equivalent
			if !hasNilDefault {
				if last, ok := f.Decl.Body.List[len(f.Decl.Body.List)-1].(*ast.ReturnStmt); ok && len(last.Results) == 1 && flow.IsNil(info, last.Results[0]) {
					hasNilDefault = true
				}
			}
			c.Check(hasNilDefault, f.Name, "unsupported kinds yield nil", ts.Pos(), "nil for anything that is not handled", "an unsupported address kind no longer yields nil (a wrong or zero address would be reported)")
			return true
		})
	}
	// IPToSockaddr: final return nil
	last, _ := ipTo.Decl.Body.List[len(ipTo.Decl.Body.List)-1].(*ast.ReturnStmt)
	c.Check(last != nil && len(last.Results) == 1 && flow.IsNil(info, last.Results[0]), ipTo.Name, "invalid IP length yields nil", ipTo.Decl.Pos(), "nil for an IP that is neither 4 nor 16 bytes", "IPToSockaddr no longer ends with `return nil` for IPs of invalid length")
	// panicking constructs
	for _, f := range []*fn{ipTo, unixTo, toTCP, toUDP, netTo} {
		bad := ""
		ast.Inspect(f.Decl.Body, func(n ast.Node) bool {
			switch y := n.(type) {
			case *ast.TypeAssertExpr:
				if tv, ok := f.Info.Types[y]; ok {
					if _, commaOK := tv.Type.(*types.Tuple); commaOK {
						return true // v, ok := x.(T) does not panic
					}
				}
				if y.Type != nil { // x.(T) outside a type switch header
					bad = "an unchecked type assertion"
				}
			case *ast.IndexExpr:
				if t := info.TypeOf(y.X); t != nil {
					if _, isArr := t.Underlying().(*types.Array); !isArr {
						if _, isMap := t.Underlying().(*types.Map); !isMap {
							bad = "an index expression on a slice"
						}
					}
				}
			case *ast.SliceExpr:
				t := info.TypeOf(y.X)
				if t != nil {
					_, isArr := t.Underlying().(*types.Array)
					if p, ok := t.Underlying().(*types.Pointer); ok {
						_, isArr = p.Elem().Underlying().(*types.Array)
					}
					constBounds := (y.Low == nil || flow.ConstOf(info, y.Low) != nil) && (y.High == nil || flow.ConstOf(info, y.High) != nil)
					if !isArr || !constBounds {
						bad = "a slice expression with non-constant bounds"
					}
				}
			case *ast.CallExpr:
				if flow.NeverReturns(info, y) {
					bad = "an explicit panic"
				}
			}
			return true
		})
		c.Check(bad == "", f.Name, "no panicking construct", f.Decl.Pos(), "total on every input", f.Obj.Name()+" contains "+bad+": a malformed address panics instead of yielding nil")
	}
}

func runC17_2(c *core.Ctx) {
	v := vocabOf(c)
	if v == nil {
		return
	}
	listenersF := c.P.Field("", "eventloop", "listeners")
	lnAddr := c.P.Field("", "listener", "addr")
	if !c.Need("eventloop.listeners", listenersF) || !c.Need("listener.addr", lnAddr) {
		return
	}
	for _, name := range []string{"eventloop.accept0", "eventloop.accept", "eventloop.readUDP"} {
		f := getFn(c, "", name)
		if f == nil {
			continue
		}
		fdParam := f.param(0)
		// the syscall assignment and its sa result
		var saObj types.Object
		var sysPos token.Pos
		ast.Inspect(f.Decl.Body, func(n ast.Node) bool {
			if as, ok := n.(*ast.AssignStmt); ok && len(as.Rhs) == 1 && len(as.Lhs) == 3 {
				if call, ok := ast.Unparen(as.Rhs[0]).(*ast.CallExpr); ok {
					cf := flow.CalleeFunc(f.Info, call)
					if cf != nil && (nameOf(cf) == "Accept" || nameOf(cf) == "Recvfrom") && len(call.Args) >= 1 && flow.ObjOf(f.Info, call.Args[0]) == types.Object(fdParam) {
						saObj = flow.ObjOf(f.Info, as.Lhs[1])
						sysPos = as.Pos()
					}
				}
			}
			return true
		})
		if saObj == nil {
			c.Violate(f.Name, "accept/recvfrom on the event's fd", f.Decl.Pos(), "no Accept/Recvfrom on the event's descriptor whose sockaddr result is captured")
			continue
		}
		derivedFromSa := func(e ast.Expr) bool {
			e = ast.Unparen(e)
			if flow.ObjOf(f.Info, e) == saObj {
				return true
			}
			if o, ok := flow.ObjOf(f.Info, e).(*types.Var); ok && !o.IsField() {
				if d := defOf(f.Info, f.Decl.Body, o); d != nil {
					if call, ok := ast.Unparen(d).(*ast.CallExpr); ok && len(call.Args) == 1 && flow.ObjOf(f.Info, call.Args[0]) == saObj {
						if cf := flow.CalleeFunc(f.Info, call); cf != nil && strings.HasPrefix(cf.Name(), "SockaddrTo") {
							return true
						}
					}
				}
			}
			return false
		}
		isListenerAddr := func(e ast.Expr) bool {
			// X.listeners[fd].addr   or   ln.addr with ln, ok := X.listeners[fd]
			sel, ok := ast.Unparen(e).(*ast.SelectorExpr)
			if !ok || flow.FieldOf(f.Info, sel) != lnAddr {
				return false
			}
			base := ast.Unparen(sel.X)
			if ie, ok := base.(*ast.IndexExpr); ok {
				return flow.FieldOf(f.Info, ie.X) == listenersF && flow.ObjOf(f.Info, ie.Index) == types.Object(fdParam)
			}
			if o, ok := flow.ObjOf(f.Info, base).(*types.Var); ok {
				// ln := X.listeners[fd]   or   ln, ok := X.listeners[fd]
				found, bad := false, false
				ast.Inspect(f.Decl.Body, func(n ast.Node) bool {
					if as, ok := n.(*ast.AssignStmt); ok && len(as.Rhs) == 1 && len(as.Lhs) >= 1 && flow.ObjOf(f.Info, as.Lhs[0]) == types.Object(o) {
						if ie, ok := ast.Unparen(as.Rhs[0]).(*ast.IndexExpr); ok && flow.FieldOf(f.Info, ie.X) == listenersF && flow.ObjOf(f.Info, ie.Index) == types.Object(fdParam) {
							found = true
						} else {
							bad = true
						}
					}
					return true
				})
				return found && !bad
			}
			return false
		}
		n := 0
		for _, call := range callsIn(f.Decl.Body, false) {
			cf := flow.CalleeFunc(f.Info, call)
			if cf == nil || v.byObj[cf] == nil {
				continue
			}
			switch nameOf(cf) {
			case "newStreamConn": // (proto, fd, el, sa, localAddr, remoteAddr)
				n++
				c.Check(flow.ObjOf(f.Info, call.Args[3]) == saObj && derivedFromSa(call.Args[5]), f.Name, "remote address of the accepted conn", call.Pos(), "sockaddr and RemoteAddr come from this Accept",
					"the conn is constructed with a remote address that is not the one returned by this Accept call (stale or foreign address reported by RemoteAddr)")
				c.Check(isListenerAddr(call.Args[4]), f.Name, "local address of the accepted conn", call.Pos(), "listener address of the event's fd",
					"LocalAddr is not taken from listeners[fd].addr of the listening descriptor that produced the event")
			case "newUDPConn": // (fd, el, localAddr, sa, connected)
				n++
				c.Check(flow.ObjOf(f.Info, call.Args[3]) == saObj, f.Name, "remote address of the datagram conn", call.Pos(), "the datagram's source address",
					"the per-datagram conn is constructed with a sockaddr other than the one Recvfrom just returned: replies go to the wrong peer")
				c.Check(isListenerAddr(call.Args[2]), f.Name, "local address of the datagram conn", call.Pos(), "listener address of the event's fd", "LocalAddr of the datagram conn is not listeners[fd].addr")
				c.Check(flow.ObjOf(f.Info, call.Args[0]) == types.Object(fdParam), f.Name, "descriptor of the datagram conn", call.Pos(), "replies leave through the socket the datagram arrived on", "the per-datagram conn does not use the event's descriptor")
			}
		}
		if n == 0 {
			c.Violate(f.Name, "conn construction", sysPos, "no conn is constructed from the accepted/received address")
		}
	}
	// newUDPConn derives remoteAddr from its sa parameter
	nu := getFn(c, "", "newUDPConn")
	if nu != nil {
		okk := false
		ast.Inspect(nu.Decl.Body, func(n ast.Node) bool {
			if kv, ok := n.(*ast.KeyValueExpr); ok {
				if id, ok := kv.Key.(*ast.Ident); ok && id.Name == "remoteAddr" {
					if call, ok := ast.Unparen(kv.Value).(*ast.CallExpr); ok && len(call.Args) == 1 && flow.ObjOf(nu.Info, call.Args[0]) == types.Object(nu.param(3)) {
						okk = true
					}
				}
			}
			return true
		})
		c.Check(okk, nu.Name, "remoteAddr = conversion of sa", nu.Decl.Pos(), "RemoteAddr mirrors the datagram's source", "newUDPConn no longer derives remoteAddr from its sa parameter")
	}
}

func runC17_3(c *core.Ctx) {
	s := c.P.BuildSSA()
	watch := map[*types.Var]string{}
	for _, n := range []string{"localAddr", "remoteAddr", "remote"} {
		if f := c.P.Field("", "conn", n); c.Need("conn."+n, f) {
			watch[f] = "conn." + n
		}
	}
	allowed := map[string]bool{"gnet.newStreamConn": true, "gnet.newUDPConn": true, "(*gnet.conn).release": true}
	for _, fa := range s.Accesses() {
		label, ok := watch[fa.Field]
		if !ok || fa.Kind == core.AccRead {
			continue
		}
		if fa.Kind == core.AccAddr {
			if _, isStore := fa.Instr.(*ssa.Store); !isStore {
				continue
			}
		}
		site := core.SSAHostName(fa.Fn)
		c.Check(allowed[site], site, "write of "+label, fa.Pos, "set at construction, cleared at release", label+" is written outside the constructors and release: the address reported for a live connection can change")
	}
}
