package rules

import (
	"go/ast"
	"go/constant"
	"go/token"
	"go/types"

	"gnetlint/core"
	"gnetlint/flow"
)

func init() {
	describe(&PropInfo{ID: "C03", QuickConfigs: []core.Config{cfgPollOpt},
		Explanation: "Decides, for the Poller variant compiled in each analysed configuration (epoll/kqueue × default/poll_opt), the program-order " +
			"obligations on which the no-lost-wake-up argument rests: producer enqueues before the CAS on wakeupCall and wakes exactly on CAS success " +
			"(EAGAIN is retried); consumer stores 0 only after the urgent queue was seen empty and afterwards re-checks both queues or attempts the CAS " +
			"before blocking again; each dequeued task is executed exactly once and recycled only afterwards; task fields are published before Enqueue; " +
			"wakeupCall is atomic-only; only priority>High may use the low-priority queue; a non-nil AsyncCallback is invoked exactly once per task body; " +
			"wake() calls OnTraffic exactly once behind its stale guard; async writes are submitted with HighPriority to the connection's own loop. " +
			"The interleaving argument itself (model checking) is not decided.",
		Assumptions: []string{"sync/atomic is sequentially consistent", "eventfd/EVFILT_USER/pipe wake-ups are level-persistent until drained",
			"the lock-free queues satisfy C13"}})

	register(&core.Rule{ID: "C03.1", Prop: "C03", MinSites: 3,
		Desc: "Trigger: Enqueue precedes the CAS on wakeupCall; task fields are set before Enqueue and not written after; the wake syscall happens on and only on the CAS-success edge; an EAGAIN wake is retried",
		Run:  runC03_1})
	register(&core.Rule{ID: "C03.2", Prop: "C03", MinSites: 2,
		Desc: "Polling: wakeupCall is reset to 0 only after the urgent queue was seen empty, and after the reset every path back to the blocking wait re-checks both queues empty or attempts the CAS on wakeupCall",
		Run:  runC03_2})
	register(&core.Rule{ID: "C03.4", Prop: "C03", MinSites: 4,
		Desc: "Polling: every dequeued task is executed exactly once before the next dequeue, recycled (PutTask) only after Exec and never used after PutTask",
		Run:  runC03_4})
	register(&core.Rule{ID: "C03.5", Prop: "C03", MinSites: 3,
		Desc: "Poller.wakeupCall is accessed only through sync/atomic",
		Run: func(c *core.Ctx) {
			fld := c.P.Field("pkg/netpoll", "Poller", "wakeupCall")
			if c.Need("netpoll.Poller.wakeupCall", fld) {
				atomicOnly(c, fld, "Poller.wakeupCall", nil)
			}
		}})
	register(&core.Rule{ID: "C03.6", Prop: "C03", MinSites: 1,
		Desc: "Trigger routes a task to the low-priority queue only under a condition that excludes HighPriority",
		Run:  runC03_6})
	register(&core.Rule{ID: "C03.7", Prop: "C03", MinSites: 4,
		Desc: "every asynchronous task body that takes an AsyncCallback invokes a non-nil callback exactly once on every path (deferred for the write tasks)",
		Run:  runC03_7})
	register(&core.Rule{ID: "C03.8", Prop: "C03", MinSites: 2,
		Desc: "wake() returns without a callback on the stale-connection edge and otherwise calls OnTraffic exactly once",
		Run:  runC03_8})
	register(&core.Rule{ID: "C03.9", Prop: "C03", MinSites: 2, Applies: func(c core.Config) bool { return c.IsLinux() },
		Desc: "the wake-up eventfd is created EFD_NONBLOCK and registered edge-triggered",
		Run:  runC03_9})
	register(&core.Rule{ID: "C03.11", Prop: "C03", MinSites: 8,
		Desc: "every Trigger call in package gnet targets the poller of the loop that owns the connection/engine object at hand, async writes and exit signals use HighPriority (constant), and the task function is bound to the same connection",
		Run:  runC03_11})
}

type pollerAnchors struct {
	trigger, polling *fn
	wakeupCall       *types.Var
	lowQ, urgQ       *types.Var
	enqueue, dequeue *types.Func
	isEmpty          *types.Func
	getTask, putTask *types.Func
	exec, param      *types.Var
	highPrio         *types.Const
}

func pollerOf(c *core.Ctx) *pollerAnchors {
	a := &pollerAnchors{}
	a.trigger, a.polling = getFn(c, "pkg/netpoll", "Poller.Trigger"), getFn(c, "pkg/netpoll", "Poller.Polling")
	a.wakeupCall = c.P.Field("pkg/netpoll", "Poller", "wakeupCall")
	a.lowQ = c.P.Field("pkg/netpoll", "Poller", "asyncTaskQueue")
	a.urgQ = c.P.Field("pkg/netpoll", "Poller", "urgentAsyncTaskQueue")
	a.getTask, a.putTask = c.P.Func("pkg/queue", "GetTask"), c.P.Func("pkg/queue", "PutTask")
	a.exec, a.param = c.P.Field("pkg/queue", "Task", "Exec"), c.P.Field("pkg/queue", "Task", "Param")
	a.highPrio, _ = c.P.Object("pkg/queue", "HighPriority").(*types.Const)
	if iface := c.P.Named("pkg/queue", "AsyncTaskQueue"); iface != nil {
		if it, ok := iface.Underlying().(*types.Interface); ok {
			for i := 0; i < it.NumMethods(); i++ {
				switch m := it.Method(i); m.Name() {
				case "Enqueue":
					a.enqueue = m
				case "Dequeue":
					a.dequeue = m
				case "IsEmpty":
					a.isEmpty = m
				}
			}
		}
	}
	ok := a.trigger != nil && a.polling != nil
	for what, v := range map[string]any{"wakeupCall": a.wakeupCall, "asyncTaskQueue": a.lowQ, "urgentAsyncTaskQueue": a.urgQ,
		"GetTask": a.getTask, "PutTask": a.putTask, "Task.Exec": a.exec, "Task.Param": a.param, "HighPriority": a.highPrio,
		"Enqueue": a.enqueue, "Dequeue": a.dequeue, "IsEmpty": a.isEmpty} {
		if !c.Need("netpoll/queue anchor "+what, v) {
			ok = false
		}
	}
	if !ok {
		return nil
	}
	return a
}

// qCall matches <recv>.<q>.<method>(…) and returns which queue field it is on.
func (a *pollerAnchors) qCall(f *fn, call *ast.CallExpr, m *types.Func) *types.Var {
	if !flow.IsCall(f.Info, call, m) {
		return nil
	}
	r := flow.Recv(call)
	if r == nil {
		return nil
	}
	fld := flow.FieldOf(f.Info, r)
	if fld == a.lowQ || fld == a.urgQ {
		return fld
	}
	return nil
}

func (a *pollerAnchors) isWakeCAS(f *fn, e ast.Expr) bool {
	call, ok := ast.Unparen(e).(*ast.CallExpr)
	return ok && flow.IsPkgFunc(f.Info, call, "sync/atomic", "CompareAndSwapInt32") && len(call.Args) == 3 &&
		flow.FieldOf(f.Info, stripAddr(call.Args[0])) == a.wakeupCall
}

// isWakeCall matches the wake syscall: unix.Write(...) inside Trigger/Polling or p.wakePoller().
func isWakeCall(f *fn, call *ast.CallExpr) bool {
	if flow.IsPkgFunc(f.Info, call, unixPkg, "Write") {
		return true
	}
	if cf := flow.CalleeFunc(f.Info, call); cf != nil && nameOf(cf) == "wakePoller" && f.P.InModule(cf) {
		return true
	}
	return false
}

func isErrnoCmp(f *fn, e ast.Expr, name string) bool {
	a, b, op, ok := flow.Cmp(e)
	if !ok || op != token.EQL {
		return false
	}
	for _, x := range []ast.Expr{a, b} {
		if o := flow.ObjOf(f.Info, x); o != nil && o.Pkg() != nil && o.Pkg().Path() == unixPkg && o.Name() == name {
			return true
		}
	}
	return false
}

func runC03_1(c *core.Ctx) {
	a := pollerOf(c)
	if a == nil {
		return
	}
	f := a.trigger
	g := f.Graph()
	const (
		fEnq = 1 << iota
		fFields
		fCasOK
		fDone // CAS failed (someone else wakes) or the wake syscall was issued
	)
	p := &flow.Problem{Must: true}
	p.Node = func(b *flow.Block, i int, n ast.Node, in uint64) uint64 {
		flow.Events(n, func(x ast.Node) {
			switch v := x.(type) {
			case *ast.CallExpr:
				if a.qCall(f, v, a.enqueue) != nil {
					in |= fEnq
				}
				if isWakeCall(f, v) {
					in |= fDone
				}
			case *ast.AssignStmt:
				for _, l := range v.Lhs {
					if flow.FieldOf(f.Info, l) == a.exec {
						in |= fFields
					}
				}
			}
		})
		return in
	}
	p.Edge = func(e *flow.Edge, in uint64) uint64 {
		if e.Cond == nil || e.Tag != nil {
			return in
		}
		if a.isWakeCAS(f, e.Cond) {
			if e.Sense {
				in |= fCasOK
			} else {
				in |= fDone
			}
		}
		if isErrnoCmp(f, e.Cond, "EAGAIN") && e.Sense {
			in &^= fDone // the wake did not take effect
		}
		return in
	}
	sol := g.Solve(p)
	sol.Walk(func(b *flow.Block, i int, n ast.Node, before uint64) {
		cur := before
		flow.Events(n, func(x ast.Node) {
			switch v := x.(type) {
			case *ast.CallExpr:
				if a.qCall(f, v, a.enqueue) != nil {
					c.Check(cur&fFields != 0, f.Name, "Enqueue: task fields published", v.Pos(), "task.Exec/Param assigned before Enqueue",
						"task is enqueued before its Exec field is assigned (consumer may run a nil/stale function)")
					cur |= fEnq
				}
				if a.isWakeCAS(f, v) {
					c.Check(cur&fEnq != 0, f.Name, "CAS on wakeupCall after Enqueue", v.Pos(), "Enqueue precedes the wake-up CAS on every path",
						"the CAS on wakeupCall can run before the task is enqueued: the consumer may reset the flag and sleep with the task still unseen", sol.Witness(b, fEnq)...)
				}
				if isWakeCall(f, v) {
					c.Check(cur&fCasOK != 0, f.Name, "wake syscall only on CAS success", v.Pos(), "wake issued only by the CAS winner",
						"the wake syscall is issued without winning the CAS on wakeupCall")
				}
			case *ast.AssignStmt:
				for _, l := range v.Lhs {
					if fl := flow.FieldOf(f.Info, l); (fl == a.exec || fl == a.param) && cur&fEnq != 0 {
						c.Violate(f.Name, "task field written after Enqueue", v.Pos(), "a task field is written after the task was published to the queue")
					}
					if flow.FieldOf(f.Info, l) == a.exec {
						cur |= fFields
					}
				}
			}
		})
	})
	sol.AtExit(func(b *flow.Block, facts uint64) {
		c.Check(facts&fEnq != 0 && facts&fDone != 0, f.Name, "return", b.Return.Pos(),
			"every return has enqueued and either lost the CAS or issued the wake",
			"Trigger can return after winning the CAS without issuing the wake syscall (or without enqueueing): the loop may sleep forever with a pending task",
			sol.Witness(b, fDone)...)
	})
}

func runC03_2(c *core.Ctx) {
	a := pollerOf(c)
	if a == nil {
		return
	}
	f := a.polling
	g := f.Graph()
	isWait := func(call *ast.CallExpr) bool {
		cf := flow.CalleeFunc(f.Info, call)
		if cf == nil {
			return false
		}
		switch nameOf(cf) {
		case "EpollWait", "epollWait", "Kevent":
			return true
		}
		return false
	}
	isStore0 := func(call *ast.CallExpr) bool {
		return flow.IsPkgFunc(f.Info, call, "sync/atomic", "StoreInt32") && len(call.Args) == 2 &&
			flow.FieldOf(f.Info, stripAddr(call.Args[0])) == a.wakeupCall
	}
	// (a) after the store, re-check before blocking: automaton over {U, E1, E2}
	const (
		U  = 1
		E1 = 2
		E2 = 4
	)
	norm := func(s int) int {
		if s&U != 0 && s&E1 != 0 && s&E2 != 0 {
			return 0
		}
		return s
	}
	au := &flow.Auto{Start: 0}
	au.Node = func(b *flow.Block, i int, n ast.Node, s int) int {
		flow.Events(n, func(x ast.Node) {
			if call, ok := x.(*ast.CallExpr); ok {
				switch {
				case isStore0(call):
					s = U
				case a.isWakeCAS(f, call):
					s = 0
				}
			}
		})
		return s
	}
	au.Edge = func(e *flow.Edge, s int) int {
		if e.Cond == nil || e.Tag != nil || s&U == 0 {
			return s
		}
		if call, ok := ast.Unparen(e.Cond).(*ast.CallExpr); ok && e.Sense {
			switch a.qCall(f, call, a.isEmpty) {
			case a.lowQ:
				return norm(s | E1)
			case a.urgQ:
				return norm(s | E2)
			}
		}
		return s
	}
	sol := g.Run(au)
	nStore := 0
	sol.Walk(func(b *flow.Block, i int, n ast.Node, before uint64) {
		for _, call := range flow.Calls(n) {
			if isStore0(call) {
				nStore++
			}
			if isWait(call) {
				bad := false
				for _, s := range flow.States(before) {
					if s&U != 0 {
						bad = true
					}
				}
				c.Check(!bad, f.Name, "blocking wait after wakeupCall reset", call.Pos(),
					"every path from the reset of wakeupCall to the wait re-checks both queues or attempts the CAS",
					"the loop can block again after resetting wakeupCall without re-checking both task queues (or attempting the CAS): a task enqueued between drain and reset is never woken for",
					sol.Witness(b, 1<<U|1<<(U|E1)|1<<(U|E2))...)
			}
		}
	})
	if nStore == 0 {
		c.Violate(f.Name, "reset of wakeupCall", f.Decl.Pos(), "Polling never resets wakeupCall to 0: only the first Trigger would ever wake the loop")
	}
	// (b) store preceded by the urgent queue seen empty since the last wait
	const (
		fSrcUrg = 1 << iota
		fUrgNil
	)
	p := &flow.Problem{Must: true}
	taskSrc := func(n ast.Node) (isAssign bool, q *types.Var) {
		as, ok := n.(*ast.AssignStmt)
		if !ok || len(as.Rhs) != 1 {
			return false, nil
		}
		call, ok := ast.Unparen(as.Rhs[0]).(*ast.CallExpr)
		if !ok {
			return false, nil
		}
		if q := a.qCall(f, call, a.dequeue); q != nil {
			return true, q
		}
		return false, nil
	}
	p.Node = func(b *flow.Block, i int, n ast.Node, in uint64) uint64 {
		flow.Events(n, func(x ast.Node) {
			if ok, q := taskSrc(x); ok {
				if q == a.urgQ {
					in |= fSrcUrg
				} else {
					in &^= fSrcUrg
				}
			}
			if call, ok := x.(*ast.CallExpr); ok && isWait(call) {
				in &^= fUrgNil
			}
		})
		return in
	}
	p.Edge = func(e *flow.Edge, in uint64) uint64 {
		if e.Cond == nil || e.Tag != nil {
			return in
		}
		if x, y, op, ok := flow.Cmp(e.Cond); ok && (flow.IsNil(f.Info, y) || flow.IsNil(f.Info, x)) {
			isNilEdge := (op == token.EQL && e.Sense) || (op == token.NEQ && !e.Sense)
			if isNilEdge && in&fSrcUrg != 0 {
				in |= fUrgNil
			}
		}
		return in
	}
	sol2 := g.Solve(p)
	sol2.Walk(func(b *flow.Block, i int, n ast.Node, before uint64) {
		for _, call := range flow.Calls(n) {
			if isStore0(call) {
				c.Check(before&fUrgNil != 0, f.Name, "reset of wakeupCall after urgent drain", call.Pos(),
					"wakeupCall is reset only after urgentAsyncTaskQueue.Dequeue() returned nil in this round",
					"wakeupCall is reset although the urgent queue was not drained to nil in this round", sol2.Witness(b, fUrgNil)...)
			}
		}
	})
}

func runC03_4(c *core.Ctx) {
	a := pollerOf(c)
	if a == nil {
		return
	}
	f := a.polling
	g := f.Graph()
	// the task variables: the objects assigned from a Dequeue call (one per drain loop when the loops were
	// given their own variable); each is followed through its own dequeue → Exec → PutTask cycle
	var tasks []types.Object
	ast.Inspect(f.Decl.Body, func(n ast.Node) bool {
		if as, ok := n.(*ast.AssignStmt); ok && len(as.Rhs) == 1 && len(as.Lhs) == 1 {
			if call, ok := ast.Unparen(as.Rhs[0]).(*ast.CallExpr); ok && a.qCall(f, call, a.dequeue) != nil {
				if o := flow.ObjOf(f.Info, as.Lhs[0]); o != nil {
					known := false
					for _, t := range tasks {
						known = known || t == o
					}
					if !known {
						tasks = append(tasks, o)
					}
				}
			}
		}
		return true
	})
	if len(tasks) == 0 {
		c.Undecided(f.Name, "task variable", f.Decl.Pos(), "no variable assigned from Dequeue()")
		return
	}
	for _, task := range tasks {
		taskCycleC03_4(c, a, f, g, task)
	}
}

func taskCycleC03_4(c *core.Ctx, a *pollerAnchors, f *fn, g *flow.Graph, task types.Object) {
	const (
		sNone = iota
		sHeld
		sExeced
		sPut
	)
	isTask := func(e ast.Expr) bool { return flow.ObjOf(f.Info, e) == task }
	isExec := func(call *ast.CallExpr) bool {
		return flow.FieldOf(f.Info, call.Fun) == a.exec && isTask(ast.Unparen(call.Fun).(*ast.SelectorExpr).X)
	}
	isPut := func(call *ast.CallExpr) bool {
		return flow.IsCall(f.Info, call, a.putTask) && len(call.Args) == 1 && isTask(call.Args[0])
	}
	type ev struct {
		kind string
		pos  token.Pos
	}
	eventsOf := func(n ast.Node) []ev {
		var out []ev
		lhs := map[*ast.Ident]bool{}
		ast.Inspect(n, func(x ast.Node) bool {
			if as, ok := x.(*ast.AssignStmt); ok {
				for _, l := range as.Lhs {
					if id, ok := l.(*ast.Ident); ok {
						lhs[id] = true
					}
				}
			}
			return true
		})
		flow.Events(n, func(x ast.Node) {
			switch v := x.(type) {
			case *ast.CallExpr:
				if isExec(v) {
					out = append(out, ev{"exec", v.Pos()})
				} else if isPut(v) {
					out = append(out, ev{"put", v.Pos()})
				}
			case *ast.AssignStmt:
				if len(v.Lhs) == 1 && isTask(v.Lhs[0]) {
					out = append(out, ev{"deq", v.Pos()})
				}
			case *ast.Ident:
				if f.Info.Uses[v] == task && !lhs[v] {
					out = append(out, ev{"use", v.Pos()})
				}
			}
		})
		return out
	}
	step := func(s int, k string) int {
		switch k {
		case "deq":
			return sHeld
		case "exec":
			return sExeced
		case "put":
			return sPut
		}
		return s
	}
	au := &flow.Auto{Start: sNone}
	au.Node = func(b *flow.Block, i int, n ast.Node, s int) int {
		for _, e := range eventsOf(n) {
			s = step(s, e.kind)
		}
		return s
	}
	au.Edge = func(e *flow.Edge, s int) int {
		if e.Cond == nil || e.Tag != nil {
			return s
		}
		if x, y, op, ok := flow.Cmp(e.Cond); ok && ((isTask(x) && flow.IsNil(f.Info, y)) || (isTask(y) && flow.IsNil(f.Info, x))) {
			isNilEdge := (op == token.EQL && e.Sense) || (op == token.NEQ && !e.Sense)
			if isNilEdge && s == sHeld {
				return sNone
			}
		}
		return s
	}
	sol := g.Run(au)
	sol.Walk(func(b *flow.Block, i int, n ast.Node, before uint64) {
		if before == 0 {
			return
		}
		cur := before
		for _, e := range eventsOf(n) {
			has := func(s int) bool { return cur&(1<<uint(s)) != 0 }
			switch e.kind {
			case "deq":
				c.Check(!has(sHeld) && !has(sExeced), f.Name, "dequeue into task", e.pos,
					"previous task was executed and recycled (or nil) before the next dequeue",
					"a dequeued task can be overwritten before it was executed and recycled (task lost)")
			case "exec":
				c.Check(cur == 1<<sHeld, f.Name, "task.Exec", e.pos, "task executed exactly once after dequeue",
					"task.Exec can run on a task that was not freshly dequeued (double execution or use after PutTask)")
			case "put":
				c.Check(cur == 1<<sExeced, f.Name, "PutTask", e.pos, "task recycled only after Exec",
					"PutTask can recycle a task that has not been executed yet (another producer may overwrite it)")
			case "use":
				if has(sPut) {
					c.Violate(f.Name, "use of task after PutTask", e.pos, "task is used after it was returned to the pool")
				}
			}
			var nx uint64
			for _, s := range flow.States(cur) {
				nx |= 1 << uint(step(s, e.kind))
			}
			cur = nx
		}
	})
	sol.AtExit(func(b *flow.Block, facts uint64) {
		c.Check(facts&(1<<sHeld) == 0, f.Name, "return", b.Return.Pos(), "no dequeued-but-unexecuted task is dropped on return",
			"Polling can return while holding a dequeued task that was never executed")
	})
}

func runC03_6(c *core.Ctx) {
	a := pollerOf(c)
	if a == nil {
		return
	}
	f := a.trigger
	prio := f.param(0)
	hp, _ := constant.Int64Val(a.highPrio.Val())
	const fLow = 1
	p := &flow.Problem{Must: true}
	p.Edge = func(e *flow.Edge, in uint64) uint64 {
		if e.Cond == nil || e.Tag != nil {
			return in
		}
		x, y, op, ok := flow.Cmp(e.Cond)
		if !ok {
			return in
		}
		if flow.ObjOf(f.Info, y) == prio {
			x, y = y, x
			op = flipOp(op)
		}
		if flow.ObjOf(f.Info, x) != prio {
			return in
		}
		kv := flow.ConstOf(f.Info, y)
		if kv == nil {
			return in
		}
		k, _ := constant.Int64Val(kv)
		holdsForHigh := cmpInt(hp, op, k)
		if e.Sense && !holdsForHigh || !e.Sense && holdsForHigh {
			in |= fLow // this edge excludes priority == HighPriority
		}
		return in
	}
	sol := f.Graph().Solve(p)
	sol.Walk(func(b *flow.Block, i int, n ast.Node, before uint64) {
		for _, call := range flow.Calls(n) {
			if a.qCall(f, call, a.enqueue) == a.lowQ {
				c.Check(before&fLow != 0, f.Name, "Enqueue on asyncTaskQueue", call.Pos(), "low-priority queue used only when priority != HighPriority",
					"a HighPriority task (asynchronous write, exit signal) can be routed to the low-priority queue: writes of one goroutine may be reordered behind later ones",
					sol.Witness(b, fLow)...)
			}
		}
	})
}

func flipOp(op token.Token) token.Token {
	switch op {
	case token.LSS:
		return token.GTR
	case token.GTR:
		return token.LSS
	case token.LEQ:
		return token.GEQ
	case token.GEQ:
		return token.LEQ
	}
	return op
}

func cmpInt(a int64, op token.Token, b int64) bool {
	switch op {
	case token.EQL:
		return a == b
	case token.NEQ:
		return a != b
	case token.LSS:
		return a < b
	case token.LEQ:
		return a <= b
	case token.GTR:
		return a > b
	case token.GEQ:
		return a >= b
	}
	return false
}

// asyncCallbackType returns gnet.AsyncCallback.
func asyncCallbackType(c *core.Ctx) *types.Named { return c.P.Named("", "AsyncCallback") }

// isCallbackCall reports a call through a value of type AsyncCallback.
func isCallbackCall(info *types.Info, call *ast.CallExpr, cb *types.Named) bool {
	tv, ok := info.Types[call.Fun]
	return ok && types.Identical(tv.Type, cb)
}

// countCallback checks that body invokes a non-nil AsyncCallback exactly once on every path.
func countCallback(c *core.Ctx, f *fn, g *flow.Graph, cb *types.Named, site, construct string, want uint64) {
	sol := g.CountEvents(flow.CountOpts{
		Events: func(b *flow.Block, n ast.Node) int {
			k := 0
			for _, call := range flow.Calls(n) {
				if isCallbackCall(f.Info, call, cb) {
					k++
				}
			}
			return k
		},
		EdgeOK: func(e *flow.Edge) bool {
			if e.Cond == nil || e.Tag != nil {
				return true
			}
			x, y, op, ok := flow.Cmp(e.Cond)
			if !ok {
				return true
			}
			var v ast.Expr
			if flow.IsNil(f.Info, y) {
				v = x
			} else if flow.IsNil(f.Info, x) {
				v = y
			} else {
				return true
			}
			if tv, ok := f.Info.Types[v]; !ok || !types.Identical(tv.Type, cb) {
				return true
			}
			// prune the edge on which the callback is nil
			nilEdge := (op == token.EQL && e.Sense) || (op == token.NEQ && !e.Sense)
			return !nilEdge
		},
	})
	sol.AtExit(func(b *flow.Block, _ uint64) {
		cs := sol.Out(b)
		if cs == 0 {
			return
		}
		c.Check(cs == want, site, construct, b.Return.Pos(), "non-nil callback invoked "+flow.CountSet(want)+" times on this exit",
			"a non-nil AsyncCallback is invoked "+flow.CountSet(cs)+" times on a path to this return (expected "+flow.CountSet(want)+")")
	})
}

func runC03_7(c *core.Ctx) {
	cb := asyncCallbackType(c)
	if !c.Need("gnet.AsyncCallback", cb) {
		return
	}
	// (a) hook-style task bodies: methods of conn whose deferred literal calls the callback
	for _, name := range []string{"conn.asyncWrite", "conn.asyncWritev"} {
		f := getFn(c, "", name)
		if f == nil {
			continue
		}
		g := f.Graph()
		var dlit *ast.FuncLit
		for _, d := range g.Defers {
			if fl, ok := d.Call.Fun.(*ast.FuncLit); ok {
				for _, call := range callsIn(fl.Body, false) {
					if isCallbackCall(f.Info, call, cb) {
						dlit = fl
					}
				}
			}
		}
		if dlit == nil {
			c.Violate(f.Name, "deferred callback", f.Decl.Pos(), "no deferred function literal invoking the AsyncCallback: early returns (closed connection) would skip the callback")
			continue
		}
		// the defer must be registered before any return: must-fact at exits
		p := &flow.Problem{Must: true}
		p.Node = func(b *flow.Block, i int, n ast.Node, in uint64) uint64 {
			if d, ok := n.(*ast.DeferStmt); ok && d.Call.Fun == dlit {
				in |= 1
			}
			return in
		}
		sol := g.Solve(p)
		sol.AtExit(func(b *flow.Block, facts uint64) {
			c.Check(facts&1 != 0, f.Name, "return after callback defer", b.Return.Pos(), "callback defer registered before this return",
				"this return is reachable before the callback defer is registered: the AsyncCallback would never be invoked")
		})
		countCallback(c, f, f.litGraph(dlit), cb, f.Name, "deferred callback literal", flow.Cnt1)
		countCallback(c, f, g, cb, f.Name, "body outside the defer", flow.Cnt0)
	}
	// (b) closure-style task bodies: function literals passed to Trigger that mention an AsyncCallback
	trig := c.P.Func("pkg/netpoll", "Poller.Trigger")
	if !c.Need("Poller.Trigger", trig) {
		return
	}
	allFuncs(c, func(f *fn) {
		if f.Pkg != c.P.Pkg("") {
			return
		}
		for _, call := range callsIn(f.Decl.Body, true) {
			if !flow.IsCall(f.Info, call, trig) || len(call.Args) != 3 {
				continue
			}
			fl, ok := seeThrough(f, call.Args[1]).(*ast.FuncLit)
			if !ok {
				continue
			}
			uses := false
			ast.Inspect(fl.Body, func(n ast.Node) bool {
				if e, ok := n.(ast.Expr); ok {
					if tv, ok := f.Info.Types[e]; ok && tv.Type != nil && types.Identical(tv.Type, cb) {
						uses = true
					}
				}
				return true
			})
			// only closures of functions that receive a callback parameter are constrained
			hasParam := false
			for i := 0; ; i++ {
				pv := f.param(i)
				if pv == nil {
					break
				}
				if types.Identical(pv.Type(), cb) {
					hasParam = true
				}
			}
			if !hasParam {
				continue
			}
			if !uses {
				c.Violate(f.Name, "task closure", fl.Pos(), "the task closure never references the AsyncCallback parameter")
				continue
			}
			countCallback(c, f, f.litGraph(fl), cb, f.Name, "task closure", flow.Cnt1)
		}
	})
}

func runC03_8(c *core.Ctx) {
	f := getFn(c, "", "eventloop.wake")
	onTraffic := handlerMethod(c, "OnTraffic")
	opened := c.P.Field("", "conn", "opened")
	getConn := c.P.Func("", "connMatrix.getConn")
	if f == nil || !c.Need("EventHandler.OnTraffic", onTraffic) || !c.Need("conn.opened", opened) || !c.Need("getConn", getConn) {
		return
	}
	g := f.Graph()
	const fStale = 1
	p := &flow.Problem{Must: true}
	p.Edge = func(e *flow.Edge, in uint64) uint64 {
		if staleEdge(f, e, opened, getConn) {
			in |= fStale
		}
		return in
	}
	sol := g.Solve(p)
	cnt := g.CountEvents(flow.CountOpts{Events: func(b *flow.Block, n ast.Node) int {
		k := 0
		for _, call := range flow.Calls(n) {
			if flow.IsCall(f.Info, call, onTraffic) {
				k++
			}
		}
		return k
	}})
	sol.AtExit(func(b *flow.Block, facts uint64) {
		cs := cnt.Out(b)
		if facts&fStale != 0 {
			c.Check(cs == flow.Cnt0, f.Name, "stale return", b.Return.Pos(), "no callback on a stale connection", "OnTraffic is invoked "+flow.CountSet(cs)+" times on the stale-connection path")
		} else {
			c.Check(cs == flow.Cnt1, f.Name, "live return", b.Return.Pos(), "exactly one OnTraffic per wake", "wake invokes OnTraffic "+flow.CountSet(cs)+" times for an open connection (expected exactly once)")
		}
	})
}

// staleEdge reports edges establishing "connection is stale": !c.opened, or getConn(..) == nil.
func staleEdge(f *fn, e *flow.Edge, opened *types.Var, getConn *types.Func) bool {
	if e.Cond == nil || e.Tag != nil {
		return false
	}
	if flow.FieldOf(f.Info, e.Cond) == opened && !e.Sense {
		return true
	}
	if x, y, op, ok := flow.Cmp(e.Cond); ok {
		var other ast.Expr
		if flow.IsNil(f.Info, y) {
			other = x
		} else if flow.IsNil(f.Info, x) {
			other = y
		}
		if call, ok := ast.Unparen(other).(*ast.CallExpr); other != nil && ok && flow.IsCall(f.Info, call, getConn) {
			return (op == token.EQL && e.Sense) || (op == token.NEQ && !e.Sense)
		}
	}
	return false
}

// liveEdge is the complement: c.opened true, getConn(..) != nil.
func liveEdge(f *fn, e *flow.Edge, opened *types.Var, getConn *types.Func) (isOpened, isRegistered bool) {
	if e.Cond == nil || e.Tag != nil {
		return
	}
	if flow.FieldOf(f.Info, e.Cond) == opened && e.Sense {
		isOpened = true
	}
	if x, y, op, ok := flow.Cmp(e.Cond); ok {
		var other ast.Expr
		if flow.IsNil(f.Info, y) {
			other = x
		} else if flow.IsNil(f.Info, x) {
			other = y
		}
		if call, ok := ast.Unparen(other).(*ast.CallExpr); other != nil && ok && flow.IsCall(f.Info, call, getConn) {
			isRegistered = (op == token.NEQ && e.Sense) || (op == token.EQL && !e.Sense)
		}
	}
	return
}

// handlerMethod resolves a method of the gnet.EventHandler interface.
func handlerMethod(c *core.Ctx, name string) *types.Func {
	n := c.P.Named("", "EventHandler")
	if n == nil {
		return nil
	}
	it, _ := n.Underlying().(*types.Interface)
	if it == nil {
		return nil
	}
	for i := 0; i < it.NumMethods(); i++ {
		if it.Method(i).Name() == name {
			return it.Method(i)
		}
	}
	return nil
}

func runC03_9(c *core.Ctx) {
	f := getFn(c, "pkg/netpoll", "OpenPoller")
	addRead := c.P.Func("pkg/netpoll", "Poller.AddRead")
	if f == nil || !c.Need("AddRead", addRead) {
		return
	}
	nb := c.P.ExtObject(unixPkg, "EFD_NONBLOCK")
	if !c.Need("unix.EFD_NONBLOCK", nb) {
		return
	}
	nbv, _ := constant.Int64Val(nb.(*types.Const).Val())
	for _, call := range callsIn(f.Decl.Body, false) {
		if flow.IsPkgFunc(f.Info, call, unixPkg, "Eventfd") && len(call.Args) == 2 {
			v := flow.ConstOf(f.Info, call.Args[1])
			k, _ := constant.Int64Val(v)
			c.Check(v != nil && k&nbv != 0, f.Name, "Eventfd flags", call.Pos(), "eventfd is non-blocking",
				"the wake-up eventfd is not created with EFD_NONBLOCK: the EAGAIN-drain protocol of Trigger would block the producer")
		}
		if flow.IsCall(f.Info, call, addRead) && len(call.Args) == 2 {
			v := flow.ConstOf(f.Info, call.Args[1])
			c.Check(v != nil && constant.BoolVal(v), f.Name, "eventfd registration", call.Pos(), "eventfd registered edge-triggered",
				"the wake-up eventfd is registered level-triggered: it is never read on the normal path, so the poller would spin")
		}
	}
}

func runC03_11(c *core.Ctx) {
	trig := c.P.Func("pkg/netpoll", "Poller.Trigger")
	hp, _ := c.P.Object("pkg/queue", "HighPriority").(*types.Const)
	loopF, pollerF := c.P.Field("", "conn", "loop"), c.P.Field("", "eventloop", "poller")
	if !c.Need("Trigger", trig) || !c.Need("HighPriority", hp) || !c.Need("conn.loop", loopF) || !c.Need("eventloop.poller", pollerF) {
		return
	}
	mustHigh := map[string]bool{"AsyncWrite": true, "AsyncWritev": true, "stop": true, "Stop": true, "write": true}
	allFuncs(c, func(f *fn) {
		if f.Pkg != c.P.Pkg("") {
			return
		}
		recv := f.recvVar()
		for _, call := range callsIn(f.Decl.Body, true) {
			if !flow.IsCall(f.Info, call, trig) || len(call.Args) != 3 {
				continue
			}
			construct := "Trigger(" + exprStr(call.Args[0]) + ", " + exprStr(call.Args[1]) + ")"
			if _, isLit := seeThrough(f, call.Args[1]).(*ast.FuncLit); isLit {
				construct = "Trigger(" + exprStr(call.Args[0]) + ", func literal)"
			}
			// priority must be a constant
			pv := flow.ConstOf(f.Info, call.Args[0])
			if pv == nil {
				c.Violate(f.Name, construct, call.Pos(), "Trigger priority is not a compile-time constant")
				continue
			}
			if mustHigh[nameOf(f.Obj)] {
				c.Check(constant.Compare(pv, token.EQL, hp.Val()), f.Name, construct+" priority", call.Pos(), "HighPriority", "this request must be submitted with HighPriority (ordering of asynchronous writes / prompt exit), but is not")
			}
			// receiver poller path: for conn methods it must be c.loop.poller with c the receiver
			rp := flow.PathOf(f.Info, flow.Recv(call))
			if recv != nil && isNamedPtr(recv.Type(), "conn") {
				c.Check(rp.Root == recv && rp.Sel == ".loop.poller", f.Name, construct+" target", call.Pos(), "submitted to the connection's own loop",
					"a request concerning connection "+recv.Name()+" is submitted to "+rp.String()+" instead of "+recv.Name()+".loop.poller")
				// method-value task functions must be bound to the same conn
				if sel, ok := ast.Unparen(call.Args[1]).(*ast.SelectorExpr); ok {
					if s, ok := f.Info.Selections[sel]; ok && s.Kind() == types.MethodVal {
						bp := flow.PathOf(f.Info, sel.X)
						c.Check(bp.Root == recv && bp.Sel == "", f.Name, construct+" task binding", call.Pos(), "task method bound to the same connection",
							"the task method value is bound to "+bp.String()+", not to the receiver connection")
					}
				}
			} else {
				// el.poller.Trigger(prio, el.method, x): the method value must be bound to the same eventloop expression
				if sel, ok := ast.Unparen(call.Args[1]).(*ast.SelectorExpr); ok {
					if s, ok := f.Info.Selections[sel]; ok && s.Kind() == types.MethodVal {
						bp := flow.PathOf(f.Info, sel.X)
						want := flow.Path{Root: bp.Root, Sel: bp.Sel + ".poller"}
						c.Check(rp == want, f.Name, construct+" task binding", call.Pos(), "task method bound to the loop whose poller is triggered",
							"task "+exprStr(call.Args[1])+" is bound to "+bp.String()+" but submitted to "+rp.String())
					}
				}
			}
		}
	})
}

func isNamedPtr(t types.Type, name string) bool {
	p, ok := t.(*types.Pointer)
	if !ok {
		return false
	}
	n, ok := p.Elem().(*types.Named)
	return ok && n.Obj().Name() == name
}

func init() {
	register(&core.Rule{ID: "C03.13", Prop: "C03", MinSites: 4,
		Desc: "an accepted request is a queued task: the concurrency-safe entry points that promise a task (conn.Wake, Close, CloseWithCallback, AsyncWritev, and AsyncWrite for stream connections) report success only as the result of poller.Trigger – every return hands back the Trigger call itself, a variable assigned from a call on that path, or a named error value; a literal `return nil` (a request swallowed, coalesced with a pending one or dropped) is not reachable",
		Run:  runC03_13})
}

func runC03_13(c *core.Ctx) {
	a := pollerOf(c)
	if a == nil {
		return
	}
	for _, name := range []string{"conn.Wake", "conn.Close", "conn.CloseWithCallback", "conn.AsyncWritev", "conn.AsyncWrite"} {
		f := getFn(c, "", name)
		if f == nil {
			continue
		}
		k := 0
		const fTrig = 1
		mp := &flow.Problem{Must: true}
		mp.Node = func(b *flow.Block, i int, n ast.Node, in uint64) uint64 {
			for _, call := range flow.Calls(n) {
				if flow.IsCall(f.Info, call, a.trigger.Obj) {
					in |= fTrig
				}
			}
			return in
		}
		msol := f.Graph().Solve(mp)
		for _, b := range f.Graph().Exits() {
			r := b.Return
			if r == nil {
				continue
			}
			var res ast.Expr
			switch {
			case len(r.Results) == 1:
				res = r.Results[0]
			case len(r.Results) == 0 && f.Decl.Type.Results != nil && len(f.Decl.Type.Results.List) == 1 && len(f.Decl.Type.Results.List[0].Names) == 1:
				res = f.Decl.Type.Results.List[0].Names[0]
			default:
				continue
			}
			k++
			good, why := false, ""
			e := ast.Unparen(res)
			if call, ok := e.(*ast.CallExpr); ok {
				if flow.IsCall(f.Info, call, a.trigger.Obj) {
					good, why = true, "the result of Trigger"
				} else {
					good, why = true, "the result of a call"
				}
			} else if flow.IsNil(f.Info, e) {
				// `if err := Trigger(…); err != nil { return err }; return nil`
				if msol.Out(b)&fTrig != 0 {
					good, why = true, "nil after Trigger was called on every path"
				}
			} else if o := flow.ObjOf(f.Info, e); o != nil {
				if o.Pkg() != nil && o.Parent() == o.Pkg().Scope() {
					good, why = true, "a named error value"
				} else if v, ok := o.(*types.Var); ok && !v.IsField() {
					// a local: every assignment to it is from a call (Trigger, sendTo)
					fromCalls, n := true, 0
					ast.Inspect(f.Decl.Body, func(x ast.Node) bool {
						if _, isLit := x.(*ast.FuncLit); isLit {
							return false
						}
						if as, ok := x.(*ast.AssignStmt); ok {
							for i, l := range as.Lhs {
								if flow.ObjOf(f.Info, l) != types.Object(v) {
									continue
								}
								n++
								var rhs ast.Expr
								if len(as.Rhs) == len(as.Lhs) {
									rhs = as.Rhs[i]
								} else if len(as.Rhs) == 1 {
									rhs = as.Rhs[0]
								}
								if _, isCall := ast.Unparen(rhs).(*ast.CallExpr); !isCall {
									fromCalls = false
								}
							}
						}
						return true
					})
					if fromCalls && n > 0 {
						good, why = true, "a variable assigned from calls only"
					}
				}
			}
			c.Check(good, f.Name, "return #"+itoa(k)+" reports what Trigger reported", r.Pos(), why,
				nameOf(f.Obj)+" can return nil without having handed a task to the poller on this path: the caller is told the request was accepted, but nothing was queued – the wake-up, write or close it asked for never runs (or is silently merged with another one)")
		}
	}
}

func init() {
	register(&core.Rule{ID: "C03.14", Prop: "C03", MinSites: 1, Applies: func(c core.Config) bool { return c.IsLinux() },
		Desc: "OpenPoller hands out a complete poller (both epoll variants; the poll_opt one is not compiled by the test suite): every return that is not on a failure edge (err != nil) has created the wake-up eventfd, registered it with AddRead and assigned both task queues from NewLockFreeQueue – a poller without its eventfd registration never wakes up for a task, one without a queue panics on the first Trigger",
		Run:  runC03_14})
}

func runC03_14(c *core.Ctx) {
	a := pollerOf(c)
	f := getFn(c, "pkg/netpoll", "OpenPoller")
	addRead := c.P.Func("pkg/netpoll", "Poller.AddRead")
	newQ := c.P.Func("pkg/queue", "NewLockFreeQueue")
	if a == nil || f == nil || !c.Need("AddRead", addRead) || !c.Need("NewLockFreeQueue", newQ) {
		return
	}
	const (
		fEventfd = 1 << iota
		fAddRead
		fLowQ
		fUrgQ
		fFail
	)
	p := &flow.Problem{Must: true}
	p.Node = func(b *flow.Block, i int, n ast.Node, in uint64) uint64 {
		for _, call := range flow.Calls(n) {
			if flow.IsPkgFunc(f.Info, call, unixPkg, "Eventfd") {
				in |= fEventfd
			}
			if flow.IsCall(f.Info, call, addRead) {
				in |= fAddRead
			}
		}
		flow.Events(n, func(x ast.Node) {
			switch y := x.(type) {
			case *ast.AssignStmt:
				for k, l := range y.Lhs {
					if len(y.Rhs) != len(y.Lhs) {
						continue
					}
					if call, ok := ast.Unparen(y.Rhs[k]).(*ast.CallExpr); ok && flow.IsCall(f.Info, call, newQ) {
						switch flow.FieldOf(f.Info, l) {
						case a.lowQ:
							in |= fLowQ
						case a.urgQ:
							in |= fUrgQ
						}
					}
				}
			case *ast.KeyValueExpr: // &Poller{asyncTaskQueue: queue.NewLockFreeQueue(), …}
				if id, ok := y.Key.(*ast.Ident); ok {
					if call, ok := ast.Unparen(y.Value).(*ast.CallExpr); ok && flow.IsCall(f.Info, call, newQ) {
						switch f.Info.Uses[id] {
						case types.Object(a.lowQ):
							in |= fLowQ
						case types.Object(a.urgQ):
							in |= fUrgQ
						}
					}
				}
			}
		})
		return in
	}
	p.Edge = func(e *flow.Edge, in uint64) uint64 {
		if e.Cond != nil && e.Tag == nil {
			if x, y, op, ok := flow.Cmp(e.Cond); ok && flow.IsNil(f.Info, y) && isErrorType(f.Info.TypeOf(x)) && (op == token.NEQ) == e.Sense {
				in |= fFail
			}
		}
		return in
	}
	sol := f.Graph().Solve(p)
	k, succ := 0, 0
	sol.AtExit(func(b *flow.Block, facts uint64) {
		k++
		if facts&fFail != 0 {
			return
		}
		// an explicit failure return (a non-nil error expression) is not a success either
		if r := b.Return; r != nil && len(r.Results) == 2 && !flow.IsNil(f.Info, r.Results[1]) {
			if _, isVar := flow.ObjOf(f.Info, r.Results[1]).(*types.Var); !isVar {
				return
			}
		}
		succ++
		want := uint64(fEventfd | fAddRead | fLowQ | fUrgQ)
		c.Check(facts&want == want, f.Name, "complete poller at return #"+itoa(k), b.Return.Pos(), "eventfd created and registered, both queues allocated",
			"OpenPoller can return a poller (no failure established on this path) without having created the wake-up eventfd, registered it with AddRead, or allocated both task queues: tasks handed to it are never run (no wake-up) or Trigger panics on a nil queue")
	})
	if succ == 0 {
		c.Violate(f.Name, "success return", f.Decl.Pos(), "OpenPoller has no return outside a failure edge")
	}
}
