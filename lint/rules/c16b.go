package rules

import (
	"go/ast"
	"go/constant"
	"go/token"
	"go/types"
	"strings"

	"gnetlint/core"
	"gnetlint/flow"
)

func init() {
	register(&core.Rule{ID: "C16.5", Prop: "C16", MinSites: 1,
		Desc: "every '%' is escaped before url.Parse: on all paths the string handed to url.Parse is strings.ReplaceAll(<the whole address>, \"%\", \"%25\") – a partial escape would let url.Parse decode or reject a unix path that contains '%'",
		Run:  runC16_5})
}

func runC16_5(c *core.Ctx) {
	f := getFn(c, "", "parseProtoAddr")
	if f == nil {
		return
	}
	sig := f.Obj.Type().(*types.Signature)
	if sig.Params().Len() != 1 {
		c.Undecided(f.Name, "address parameter", f.Decl.Pos(), "parseProtoAddr no longer takes exactly one parameter")
		return
	}
	param := sig.Params().At(0)
	g := f.Graph()
	isLit := func(e ast.Expr, want string) bool {
		tv, ok := f.Info.Types[e]
		return ok && tv.Value != nil && tv.Value.Kind() == constant.String && constant.StringVal(tv.Value) == want
	}
	// value classes of string variables: 1 = the whole address with every % escaped
	escaped := func(e ast.Expr, facts uint64, idx map[types.Object]int) bool {
		e = ast.Unparen(e)
		if call, ok := e.(*ast.CallExpr); ok && flow.IsPkgFunc(f.Info, call, "strings", "ReplaceAll") && len(call.Args) == 3 &&
			isLit(call.Args[1], "%") && isLit(call.Args[2], "%25") {
			// applied to the raw parameter (still unmodified) or to an already escaped whole
			if o := flow.ObjOf(f.Info, call.Args[0]); o != nil {
				if k, ok := idx[o]; ok && facts&(1<<uint(2*k)) != 0 { // raw whole
					return true
				}
			}
		}
		if o := flow.ObjOf(f.Info, e); o != nil {
			if k, ok := idx[o]; ok && facts&(1<<uint(2*k+1)) != 0 {
				return true
			}
		}
		return false
	}
	// string variables of the function
	idx := map[types.Object]int{types.Object(param): 0}
	ast.Inspect(f.Decl.Body, func(n ast.Node) bool {
		if id, ok := n.(*ast.Ident); ok {
			if v, ok := f.Info.Defs[id].(*types.Var); ok && len(idx) < 30 {
				if b, ok := v.Type().Underlying().(*types.Basic); ok && b.Info()&types.IsString != 0 {
					if _, seen := idx[v]; !seen {
						idx[v] = len(idx)
					}
				}
			}
		}
		return true
	})
	// facts: bit 2k = variable k holds the raw whole address, bit 2k+1 = holds the fully escaped whole address
	p := &flow.Problem{Must: true, Entry: 1}
	p.Node = func(b *flow.Block, i int, n ast.Node, in uint64) uint64 {
		as, ok := n.(*ast.AssignStmt)
		if !ok {
			return in
		}
		out := in
		for k, l := range as.Lhs {
			o := flow.ObjOf(f.Info, l)
			vi, tracked := idx[o]
			if !tracked {
				continue
			}
			out &^= 3 << uint(2*vi)
			if len(as.Rhs) != len(as.Lhs) {
				continue
			}
			r := as.Rhs[k]
			if escaped(r, in, idx) {
				out |= 1 << uint(2*vi+1)
			} else if ro := flow.ObjOf(f.Info, ast.Unparen(r)); ro != nil {
				if rk, ok := idx[ro]; ok {
					out |= (in >> uint(2*rk) & 3) << uint(2*vi)
				}
			}
		}
		return out
	}
	sol := g.Solve(p)
	sites := 0
	sol.Walk(func(b *flow.Block, i int, n ast.Node, before uint64) {
		for _, call := range flow.Calls(n) {
			if !flow.IsPkgFunc(f.Info, call, "net/url", "Parse") || len(call.Args) != 1 {
				continue
			}
			sites++
			c.Check(escaped(call.Args[0], before, idx), f.Name, "url.Parse argument #"+itoa(sites), call.Pos(),
				"the whole address passed through ReplaceAll(\"%\", \"%25\")",
				"url.Parse can be reached with an address in which not every '%' was escaped: a unix socket path such as gnet%41.sock is decoded to gnetA.sock (another file is bound) and gnet%d.sock is rejected with a URL-escape error")
		}
	})
	if sites == 0 {
		c.Undecided(f.Name, "url.Parse", f.Decl.Pos(), "parseProtoAddr no longer calls url.Parse: idiom not recognised")
	}
}

func init() {
	register(&core.Rule{ID: "C16.6", Prop: "C16", MinSites: 4,
		Desc: "verdicts sit on the edges that justify them: parseProtoAddr succeeds only where the endpoint is established non-empty (u.Host != \"\" and u.Path == \"\" for tcp/udp, the joined path != \"\" for unix) and returns ErrInvalidNetworkAddress only on an empty-scheme, empty-endpoint or stray-path edge",
		Run:  runC16_6})
}

func runC16_6(c *core.Ctx) {
	f := getFn(c, "", "parseProtoAddr")
	invalid := sentinel(c, "ErrInvalidNetworkAddress")
	if f == nil || !c.Need("ErrInvalidNetworkAddress", invalid) {
		return
	}
	const (
		fBad = 1 << iota
		fHostOK
		fPathOK
		fJoinedOK
		fParsed
	)
	isEmptyStr := func(e ast.Expr) bool {
		tv, ok := f.Info.Types[e]
		return ok && tv.Value != nil && tv.Value.Kind() == constant.String && constant.StringVal(tv.Value) == ""
	}
	selName := func(e ast.Expr) string {
		if sel, ok := ast.Unparen(e).(*ast.SelectorExpr); ok {
			if t := f.Info.TypeOf(sel.X); t != nil && strings.HasSuffix(t.String(), "net/url.URL") {
				return sel.Sel.Name
			}
		}
		return ""
	}
	p := &flow.Problem{Must: true}
	p.Edge = func(e *flow.Edge, in uint64) uint64 {
		if e.Cond == nil {
			return in
		}
		if e.Tag != nil {
			if selName(e.Tag) == "Scheme" && isEmptyStr(e.Cond) && e.Sense {
				in |= fBad
			}
			return in
		}
		x, y, op, ok := flow.Cmp(e.Cond)
		if !ok || (op != token.EQL && op != token.NEQ) || !isEmptyStr(y) {
			return in
		}
		empty := (op == token.EQL) == e.Sense
		switch name := selName(x); {
		case name == "Host":
			if empty {
				in |= fBad
			} else {
				in |= fHostOK
			}
		case name == "Path":
			if empty {
				in |= fPathOK
			} else {
				in |= fBad
			}
		case name == "":
			if v, ok := flow.ObjOf(f.Info, x).(*types.Var); ok && !v.IsField() {
				if b, ok := v.Type().Underlying().(*types.Basic); ok && b.Info()&types.IsString != 0 {
					if empty {
						in |= fBad
					} else {
						in |= fJoinedOK
					}
				}
			}
		}
		return in
	}
	p.Node = func(b *flow.Block, i int, n ast.Node, in uint64) uint64 {
		for _, call := range flow.Calls(n) {
			if flow.IsPkgFunc(f.Info, call, "net/url", "Parse") {
				in |= fParsed
			}
		}
		return in
	}
	sol := f.Graph().Solve(p)
	k := 0
	sol.AtExit(func(b *flow.Block, facts uint64) {
		r := b.Return
		if len(r.Results) != 3 {
			return
		}
		k++
		switch {
		case flow.IsNil(f.Info, r.Results[2]):
			okk := (facts&fHostOK != 0 && facts&fPathOK != 0) || facts&fJoinedOK != 0
			c.Check(okk, f.Name, "success #"+itoa(k)+" only for a non-empty endpoint", r.Pos(), "endpoint established non-empty",
				"parseProtoAddr returns a scheme and an endpoint on a path where the endpoint is not established non-empty (tcp/udp: host present and no path; unix: joined path present): `tcp://` or `unix://` would be accepted with an empty address")
		default:
			if id := sentinelIdent(r.Results[2]); id != nil && f.Info.Uses[id] == invalid && facts&fParsed != 0 {
				// (a rejection before url.Parse decides on the raw string by its own means)
				c.Check(facts&fBad != 0, f.Name, "ErrInvalidNetworkAddress #"+itoa(k)+" only for an empty endpoint", r.Pos(), "returned on an empty-scheme / empty-endpoint / stray-path edge",
					"parseProtoAddr reports ErrInvalidNetworkAddress where no emptiness was established: well-formed addresses are rejected")
			}
		}
	})
}

func init() {
	register(&core.Rule{ID: "C16.7", Prop: "C16", MinSites: 1,
		Desc: "the unix endpoint is the cleaned path: what parseProtoAddr returns as endpoint in the unix case is path.Join/path.Clean (or their filepath twins) over both u.Host and u.Path – plain concatenation would hand `/tmp//a.sock` or `./a.sock` on as written",
		Run:  runC16_7})
}

func runC16_7(c *core.Ctx) {
	f := getFn(c, "", "parseProtoAddr")
	if f == nil {
		return
	}
	var unixClause *ast.CaseClause
	ast.Inspect(f.Decl.Body, func(n ast.Node) bool {
		cc, ok := n.(*ast.CaseClause)
		if !ok {
			return true
		}
		for _, e := range cc.List {
			if tv, ok := f.Info.Types[e]; ok && tv.Value != nil && tv.Value.Kind() == constant.String && constant.StringVal(tv.Value) == "unix" {
				// only the clause of the scheme switch (its sibling clauses are string literals as well)
				unixClause = cc
			}
		}
		return true
	})
	if unixClause == nil {
		c.Undecided(f.Name, "unix case", f.Decl.Pos(), "no `case \"unix\"` clause found in parseProtoAddr")
		return
	}
	mentionsField := func(e ast.Node, name string) bool {
		found := false
		ast.Inspect(e, func(n ast.Node) bool {
			if sel, ok := n.(*ast.SelectorExpr); ok && sel.Sel.Name == name {
				if t := f.Info.TypeOf(sel.X); t != nil && strings.HasSuffix(t.String(), "net/url.URL") {
					found = true
				}
			}
			return true
		})
		return found
	}
	var cleaned func(e ast.Expr, depth int) bool
	cleaned = func(e ast.Expr, depth int) bool {
		e = ast.Unparen(e)
		switch x := e.(type) {
		case *ast.CallExpr:
			for _, pk := range []string{"path", "path/filepath"} {
				if flow.IsPkgFunc(f.Info, x, pk, "Join") || flow.IsPkgFunc(f.Info, x, pk, "Clean") {
					return mentionsField(x, "Host") && mentionsField(x, "Path")
				}
			}
		case *ast.Ident:
			if o, ok := f.Info.Uses[x].(*types.Var); ok && depth < 3 {
				if d := defOf(f.Info, f.Decl.Body, o); d != nil {
					return cleaned(d, depth+1)
				}
				// several assignments: each one is a cleaned path or the empty string
				n, good := 0, 0
				ast.Inspect(f.Decl.Body, func(m ast.Node) bool {
					as, ok := m.(*ast.AssignStmt)
					if !ok || len(as.Lhs) != len(as.Rhs) {
						return true
					}
					for i, l := range as.Lhs {
						if flow.ObjOf(f.Info, l) != types.Object(o) {
							continue
						}
						n++
						if tv, ok := f.Info.Types[as.Rhs[i]]; ok && tv.Value != nil && tv.Value.Kind() == constant.String && constant.StringVal(tv.Value) == "" {
							good++
						} else if cleaned(as.Rhs[i], depth+1) {
							good++
						}
					}
					return true
				})
				return n > 0 && n == good
			}
		}
		return false
	}
	k := 0
	for _, st := range unixClause.Body {
		ast.Inspect(st, func(n ast.Node) bool {
			r, ok := n.(*ast.ReturnStmt)
			if !ok || len(r.Results) != 3 || !flow.IsNil(f.Info, r.Results[2]) {
				return true
			}
			k++
			c.Check(cleaned(r.Results[1], 0), f.Name, "unix endpoint #"+itoa(k)+" cleaned", r.Pos(), "path.Join/Clean over u.Host and u.Path",
				"the endpoint returned for a unix address ("+exprStr(r.Results[1])+") is not the result of path.Join/path.Clean over u.Host and u.Path: `unix:///tmp//a.sock`, `/./`, `/../` or a trailing slash come back as written instead of the cleaned path")
			return true
		})
	}
	if k == 0 {
		c.Undecided(f.Name, "unix endpoint", unixClause.Pos(), "the unix case has no successful return")
	}
}

func init() {
	register(&core.Rule{ID: "C16.8", Prop: "C16", MinSites: 15,
		Desc: "an option sets the field it is named after: every WithX(v) constructor of package gnet returns a literal whose only store is opts.X = v (LB for WithLoadBalancing) – a requested read capacity does not land in the write capacity, a loop count not in the chunk size",
		Run:  runC16_8})
}

func runC16_8(c *core.Ctx) {
	optsT, _ := c.P.Object("", "Options").(*types.TypeName)
	if !c.Need("Options", optsT) {
		return
	}
	st, _ := optsT.Type().Underlying().(*types.Struct)
	if st == nil {
		return
	}
	hasField := func(n string) bool {
		for i := 0; i < st.NumFields(); i++ {
			if nameOf(st.Field(i)) == n {
				return true
			}
		}
		return false
	}
	special := map[string]string{"LoadBalancing": "LB"}
	allFuncs(c, func(f *fn) {
		name := nameOf(f.Obj)
		sig, _ := f.Obj.Type().(*types.Signature)
		if f.Pkg != c.P.Pkg("") || !strings.HasPrefix(name, "With") || name == "WithOptions" || sig == nil || sig.Recv() != nil || sig.Params().Len() != 1 || sig.Results().Len() != 1 || f.Decl.Body == nil {
			return
		}
		if n, ok := sig.Results().At(0).Type().(*types.Named); !ok || n.Obj().Name() != "Option" {
			return
		}
		want := name[4:]
		if s, ok := special[want]; ok {
			want = s
		}
		if !hasField(want) {
			return // an option that is not named after a field (none on the baseline tree): nothing to compare it with
		}
		stores, good := 0, true
		ast.Inspect(f.Decl.Body, func(n ast.Node) bool {
			as, ok := n.(*ast.AssignStmt)
			if !ok {
				return true
			}
			for k, l := range as.Lhs {
				fv := flow.FieldOf(f.Info, l)
				if fv == nil {
					continue
				}
				owner := false
				for i := 0; i < st.NumFields(); i++ {
					if st.Field(i) == fv {
						owner = true
					}
				}
				if !owner {
					continue
				}
				stores++
				if nameOf(fv) != want || len(as.Rhs) != len(as.Lhs) || flow.ObjOf(f.Info, seeThrough(f, as.Rhs[k])) != types.Object(f.param(0)) {
					good = false
				}
			}
			return true
		})
		c.Check(good && stores == 1, f.Name, "stores its parameter in Options."+want, f.Decl.Pos(), "one store, the named field, the parameter",
			name+" does not store exactly its parameter into Options."+want+": the value the user asked for lands in another option (or nowhere), so the normalised capacity/loop count is computed from the wrong request")
	})
}
