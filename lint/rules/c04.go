package rules

import (
	"go/ast"
	"go/constant"
	"go/token"
	"go/types"
	"strings"

	"golang.org/x/tools/go/ssa"

	"gnetlint/core"
	"gnetlint/flow"
)

func init() {
	describe(&PropInfo{ID: "C04",
		Explanation: "Decides the guard/ordering skeleton that makes open-once / close-once / nothing-after-close true on every CFG path of package gnet: " +
			"conn.opened is written true only in (*eventloop).open and false only in release; the single OnOpen site is dominated by opened=true and is reached only " +
			"from register0 after addConn; the single OnClose site is dominated by the stale guard (opened ∧ registered) and by delConn and is followed by release on every path; " +
			"a conn typestate (live / closing / closed, lost at every user-callback or close point) shows that no EventHandler callback and no descriptor use happens on a " +
			"connection that may already have been closed; async writes on a closed conn return net.ErrClosed through the deferred callback; every loop exit runs closeConns; " +
			"close causes are nil exactly at the local causes and provably non-nil at the I/O causes. History-level exactly-once counting is not decided.",
		Assumptions: []string{"user handlers call Conn methods only inside callbacks of that connection (documented contract)",
			"epoll/kqueue deliver no event for a descriptor after it was deleted and closed, except stale events inside one batch (not covered)"}})

	register(&core.Rule{ID: "C04.1", Prop: "C04", MinSites: 2,
		Desc: "conn.opened is written true only in (*eventloop).open and false only in (*conn).release",
		Run: func(c *core.Ctx) {
			v := vocabOf(c)
			if v == nil {
				return
			}
			s := c.P.BuildSSA()
			for _, fa := range s.Accesses() {
				if fa.Field != v.opened || fa.Kind == core.AccRead {
					continue
				}
				site := core.SSAName(fa.Fn)
				st, isStore := fa.Instr.(*ssa.Store)
				if fa.Kind != core.AccWrite || !isStore {
					c.Violate(site, "address of conn.opened taken", fa.Pos, "conn.opened escapes by address; writers can no longer be enumerated")
					continue
				}
				k, isConst := st.Val.(*ssa.Const)
				if !isConst || k.Value == nil {
					c.Violate(site, "non-constant store to conn.opened", fa.Pos, "conn.opened is assigned a computed value")
					continue
				}
				val := constant.BoolVal(k.Value)
				want := "(*gnet.eventloop).open"
				if !val {
					want = "(*gnet.conn).release"
				}
				c.Check(site == want, site, "store "+k.Value.String()+" to conn.opened", fa.Pos, "the only writer of this value",
					"conn.opened = "+k.Value.String()+" outside "+want+": the open/close guards of read/close/wake/asyncWrite no longer reflect the lifecycle")
			}
		}})

	register(&core.Rule{ID: "C04.2", Prop: "C04", MinSites: 3,
		Desc: "OnOpen has exactly one call site, dominated by opened=true; its function is called only from register0, after addConn on the poller-registration success path",
		Run:  runC04_2})
	register(&core.Rule{ID: "C04.3", Prop: "C04", MinSites: 3,
		Desc: "OnClose has exactly one call site, dominated by the stale guard (c.opened ∧ getConn(c.fd)!=nil) and by delConn(c); every path from it to a return passes c.release()",
		Run:  runC04_3})
	register(&core.Rule{ID: "C04.4", Prop: "C04", MinSites: 4,
		Desc: "conn typestate: every EventHandler.OnOpen/OnTraffic call is made on a conn known open on all paths (no may-close point since), OnClose only in the closing state",
		Run:  func(c *core.Ctx) { runConnState(c, "cb") }})
	register(&core.Rule{ID: "C04.5", Prop: "C04", MinSites: 4,
		Desc: "asyncWrite/asyncWritev call write/writev only on the c.opened edge and return net.ErrClosed otherwise",
		Run:  runC04_5})
	register(&core.Rule{ID: "C04.6", Prop: "C04", MinSites: 2,
		Desc: "run/orbit: every return after Polling passes closeConns()",
		Run:  func(c *core.Ctx) { runAfterPolling(c, "C04.6") }})
	register(&core.Rule{ID: "C04.7", Prop: "C04", MinSites: 10,
		Desc: "close causes: (*eventloop).close receives literal nil exactly at the local causes (Close action, Close()/CloseWithCallback, EventLoop.Close, shutdown) and a provably non-nil error at the I/O causes",
		Run:  runC04_7})
	register(&core.Rule{ID: "C04.8", Prop: "C04", MinSites: 1,
		Desc: "release() empties the outbound buffer of every stream conn (justifies the outbound-non-empty ⇒ live inference) and is the only place that returns pooled conn buffers",
		Run:  runC04_8})
}

// connStateExceptions lists sites accepted although the typestate cannot establish liveness.
var connStateExceptions = map[string]string{
	"gnet.(*eventloop).readUDP|EventHandler.OnTraffic on *":              "the conn is either the fresh per-datagram conn or the registered client UDP conn of fd; the registry hit is not nil-checked (dispatch invariant: readUDP runs only for a listener fd or a registered UDP conn, and Recvfrom on a closed fd returns before this point)",
	"gnet.(*eventloop).register|call gnet.(*eventloop).register0 with *": "the conn arrives across the task boundary from accept0/enroll/EnrollContext, which construct it, never touch it again after a successful Trigger and submit it exactly once (C05.5)",
}

func runConnState(c *core.Ctx, kind string) {
	v := vocabOf(c)
	if v == nil {
		return
	}
	r := connStateOf(c, v)
	emit := func(s connSite) {
		// the exception names the function and the operation, not the spelling of the conn expression
		key := s.unit + "|" + s.construct
		if i := strings.LastIndex(key, " with "); i >= 0 {
			key = key[:i] + " with *"
		} else if i := strings.LastIndex(key, " on "); i >= 0 {
			key = key[:i] + " on *"
		}
		if why, ok := connStateExceptions[key]; ok && !s.ok {
			c.Ok(s.unit, s.construct, s.pos, "exception: "+why)
			return
		}
		if s.ok {
			c.Ok(s.unit, s.construct, s.pos, s.msg)
		} else {
			c.Violate(s.unit, s.construct, s.pos, s.msg, s.witness...)
		}
	}
	want := func(s connSite) bool {
		switch s.kind {
		case "cb":
			return kind == "cb"
		case "fd", "close":
			return kind == "fd"
		case "call", "root":
			return strings.Contains(s.req, kind)
		}
		return false
	}
	for _, s := range r.sites {
		if want(s) {
			emit(s)
		}
	}
	for _, s := range r.rootReq {
		if want(s) {
			s.ok = false
			emit(s)
		}
	}
}

func runC04_2(c *core.Ctx) {
	v := vocabOf(c)
	if v == nil {
		return
	}
	var sites []*fn
	var calls []*ast.CallExpr
	for _, f := range v.funcs {
		for _, call := range callsIn(f.Decl.Body, true) {
			if v.isConnCallback(f.Info, call) == "OnOpen" {
				sites = append(sites, f)
				calls = append(calls, call)
			}
		}
	}
	c.Check(len(sites) == 1, "gnet", "number of OnOpen call sites", token.NoPos, "exactly one OnOpen site", "OnOpen is invoked from more than one place (or none): open-once can no longer be argued from one guard")
	for k, f := range sites {
		const fOpened = 1
		p := &flow.Problem{Must: true}
		p.Node = func(b *flow.Block, i int, n ast.Node, in uint64) uint64 {
			if as, ok := n.(*ast.AssignStmt); ok {
				for j, l := range as.Lhs {
					if flow.FieldOf(f.Info, l) == v.opened && len(as.Rhs) == len(as.Lhs) {
						if cv := flow.ConstOf(f.Info, as.Rhs[j]); cv != nil && constant.BoolVal(cv) {
							in |= fOpened
						}
					}
				}
			}
			return in
		}
		sol := f.Graph().Solve(p)
		sol.Walk(func(b *flow.Block, i int, n ast.Node, before uint64) {
			for _, call := range flow.Calls(n) {
				if call == calls[k] {
					c.Check(before&fOpened != 0, f.Name, "OnOpen dominated by opened=true", call.Pos(), "opened is set before the handler can observe the conn",
						"OnOpen can run before c.opened = true: a Close()/Wake()/AsyncWrite issued from OnOpen would be treated as stale")
				}
			}
		})
		// callers of f
		reg0 := c.P.Func("", "eventloop.register0")
		for _, g := range v.funcs {
			for _, call := range callsIn(g.Decl.Body, true) {
				if !flow.IsCall(g.Info, call, f.Obj) {
					continue
				}
				if g.Obj != reg0 {
					c.Violate(g.Name, "call of "+f.Name, call.Pos(), "the OnOpen-invoking function is called outside register0: a connection could be opened twice")
					continue
				}
				const fAdded = 1
				pp := &flow.Problem{Must: true}
				pp.Node = func(b *flow.Block, i int, n ast.Node, in uint64) uint64 {
					for _, cl := range flow.Calls(n) {
						if flow.IsCall(g.Info, cl, v.addConn) {
							in |= fAdded
						}
					}
					return in
				}
				s2 := g.Graph().Solve(pp)
				s2.Walk(func(b *flow.Block, i int, n ast.Node, before uint64) {
					for _, cl := range flow.Calls(n) {
						if cl == call {
							c.Check(before&fAdded != 0, g.Name, "open after addConn", cl.Pos(), "conn is registered before OnOpen",
								"OnOpen can run before the conn is in the registry: a close from inside OnOpen would be ignored as stale and the conn would leak")
						}
					}
				})
			}
		}
	}
}

func runC04_3(c *core.Ctx) {
	v := vocabOf(c)
	if v == nil {
		return
	}
	n := 0
	for _, f := range v.funcs {
		var site *ast.CallExpr
		for _, call := range callsIn(f.Decl.Body, true) {
			if v.isConnCallback(f.Info, call) == "OnClose" {
				n++
				site = call
			}
		}
		if site == nil {
			continue
		}
		g := f.Graph()
		const (
			fOpened = 1 << iota
			fRegistered
			fDeleted
		)
		p := &flow.Problem{Must: true}
		p.Node = func(b *flow.Block, i int, nd ast.Node, in uint64) uint64 {
			for _, cl := range flow.Calls(nd) {
				if flow.IsCall(f.Info, cl, v.delConn) {
					in |= fDeleted
				}
			}
			return in
		}
		p.Edge = func(e *flow.Edge, in uint64) uint64 {
			o, r := liveEdge(f, e, v.opened, v.getConn)
			if o {
				in |= fOpened
			}
			if r {
				in |= fRegistered
			}
			return in
		}
		sol := g.Solve(p)
		sol.Walk(func(b *flow.Block, i int, nd ast.Node, before uint64) {
			for _, cl := range flow.Calls(nd) {
				if cl == site {
					c.Check(before&fOpened != 0 && before&fRegistered != 0, f.Name, "OnClose behind the stale guard", cl.Pos(), "guarded by c.opened ∧ registered",
						"OnClose can run for a connection that is not opened or no longer registered: a second close cause would deliver OnClose twice", sol.Witness(b, fOpened|fRegistered)...)
					c.Check(before&fDeleted != 0, f.Name, "OnClose after delConn", cl.Pos(), "conn removed from the registry before the handler runs",
						"OnClose runs before delConn(c): a Close/EventLoop.Close issued from inside OnClose re-enters close and delivers OnClose again", sol.Witness(b, fDeleted)...)
				}
			}
		})
		// release after OnClose on every path
		const (
			s0 = iota
			sClosed
			sReleased
		)
		au := &flow.Auto{Start: s0}
		au.Node = func(b *flow.Block, i int, nd ast.Node, s int) int {
			for _, cl := range flow.Calls(nd) {
				if cl == site {
					s = sClosed
				}
				if flow.IsCall(f.Info, cl, v.releaseFn) && s == sClosed {
					s = sReleased
				}
			}
			return s
		}
		sa := g.Run(au)
		sa.AtExit(func(b *flow.Block, _ uint64) {
			st := sa.Out(b)
			c.Check(st&(1<<sClosed) == 0, f.Name, "release after OnClose", b.Return.Pos(), "conn released on this exit",
				"a return is reachable after OnClose without c.release(): opened stays true, so OnTraffic/OnClose can fire again for the dead connection")
		})
	}
	c.Check(n == 1, "gnet", "number of OnClose call sites", token.NoPos, "exactly one OnClose site", "OnClose is invoked from more than one place (or none)")
}

func runC04_5(c *core.Ctx) {
	v := vocabOf(c)
	if v == nil {
		return
	}
	errClosed := c.P.ExtObject("net", "ErrClosed")
	if !c.Need("net.ErrClosed", errClosed) {
		return
	}
	for _, pair := range [][2]string{{"conn.asyncWrite", "conn.write"}, {"conn.asyncWritev", "conn.writev"}} {
		f := getFn(c, "", pair[0])
		w := c.P.Func("", pair[1])
		if f == nil || !c.Need(pair[1], w) {
			continue
		}
		const (
			fOpen = 1 << iota
			fNotOpen
		)
		p := &flow.Problem{Must: true}
		p.Edge = func(e *flow.Edge, in uint64) uint64 {
			if e.Cond != nil && e.Tag == nil && flow.FieldOf(f.Info, e.Cond) == v.opened {
				if e.Sense {
					in |= fOpen
				} else {
					in |= fNotOpen
				}
			}
			return in
		}
		sol := f.Graph().Solve(p)
		sol.Walk(func(b *flow.Block, i int, n ast.Node, before uint64) {
			for _, cl := range flow.Calls(n) {
				if flow.IsCall(f.Info, cl, w) {
					c.Check(before&fOpen != 0 || openedGuardAtEntry(c, v, w, errClosed), f.Name, "write only if opened", cl.Pos(), "write path guarded by c.opened (here, or as the first thing the callee does)",
						"the asynchronous write reaches "+pair[1]+" without testing c.opened: it would write to a closed (possibly reused) descriptor")
				}
			}
		})
		sol.AtExit(func(b *flow.Block, facts uint64) {
			if facts&fNotOpen == 0 {
				return
			}
			r := b.Return
			ok := len(r.Results) == 1 && flow.ObjOf(f.Info, r.Results[0]) == errClosed
			c.Check(ok, f.Name, "closed conn ⇒ net.ErrClosed", r.Pos(), "closed connection reported as net.ErrClosed",
				"on the !c.opened edge the task does not return net.ErrClosed: the callback would not learn that the write was dropped")
		})
	}
}

// runAfterPolling checks run/orbit (and rotate for engine.shutdown) in both reactor variants.
func runAfterPolling(c *core.Ctx, rule string) {
	v := vocabOf(c)
	if v == nil {
		return
	}
	polling := c.P.Func("pkg/netpoll", "Poller.Polling")
	closeConns := c.P.Func("", "eventloop.closeConns")
	shutdown := c.P.Func("", "engine.shutdown")
	if !c.Need("Polling", polling) || !c.Need("closeConns", closeConns) || !c.Need("engine.shutdown", shutdown) {
		return
	}
	for _, name := range []string{"eventloop.run", "eventloop.orbit", "eventloop.rotate"} {
		f := getFn(c, "", name)
		if f == nil {
			continue
		}
		const (
			fPolled = 1 << iota
			fClosed
			fShut
		)
		p := &flow.Problem{Must: true}
		p.Node = func(b *flow.Block, i int, n ast.Node, in uint64) uint64 {
			for _, cl := range flow.Calls(n) {
				switch {
				case flow.IsCall(f.Info, cl, polling):
					in |= fPolled
				case flow.IsCall(f.Info, cl, closeConns):
					in |= fClosed
				case flow.IsCall(f.Info, cl, shutdown):
					if name == "eventloop.rotate" || in&fClosed != 0 {
						in |= fShut
					}
				}
			}
			return in
		}
		sol := f.Graph().Solve(p)
		sol.AtExit(func(b *flow.Block, facts uint64) {
			if rule == "C04.6" {
				if name == "eventloop.rotate" {
					return
				}
				c.Check(facts&fPolled != 0 && facts&fClosed != 0, f.Name, "closeConns before return", b.Return.Pos(), "all connections closed when the loop exits",
					"the loop can return without closeConns(): connections still open at shutdown never receive OnClose and their descriptors leak")
			} else {
				c.Check(facts&fPolled != 0 && facts&fShut != 0, f.Name, "engine.shutdown before return", b.Return.Pos(), "loop exit propagates the shutdown (after closing its connections)",
					"the loop can return without (closeConns and then) engine.shutdown(): the other loops and Run would keep waiting")
			}
		})
	}
}

// nonNilErr tracks, path-sensitively, whether an error variable is known non-nil and whether an int
// variable is known zero (for "err != nil || n == 0" idioms).
func runC04_7(c *core.Ctx) {
	v := vocabOf(c)
	if v == nil {
		return
	}
	localCause := map[string]bool{"gnet.(*eventloop).handleAction": true, "gnet.(*eventloop).Close": true, "gnet.(*eventloop).closeConns": true,
		"gnet.(*conn).Close": true, "gnet.(*conn).CloseWithCallback": true}
	ioCause := map[string]bool{"gnet.(*conn).processIO": true, "gnet.(*conn).write": true, "gnet.(*conn).writev": true, "gnet.(*eventloop).write": true,
		"gnet.(*eventloop).open": true, "gnet.(*conn).Flush": true}
	closeAction, _ := c.P.Object("", "Close").(*types.Const)
	if !c.Need("gnet.Close action", closeAction) {
		return
	}
	for _, f := range v.funcs {
		// analyse the declaration body and each literal separately
		bodies := []*ast.BlockStmt{f.Decl.Body}
		for _, fl := range allLits(f.Decl.Body) {
			bodies = append(bodies, fl.Body)
		}
		for _, body := range bodies {
			has := false
			for _, call := range callsIn(body, false) {
				if flow.IsCall(f.Info, call, v.closeFn) {
					has = true
				}
			}
			if !has {
				continue
			}
			g := flow.New(c.P.Fset, f.Info, body)
			// automaton state: bit0 = err known non-nil, bits1-2 = n: 0 unknown, 1 zero, 2 non-zero; bit3 = under "case Close"
			// the err variable is found per call site: the argument of os.NewSyscallError
			type target struct {
				call   *ast.CallExpr
				errObj types.Object
			}
			var targets []target
			for _, call := range callsIn(body, false) {
				if !flow.IsCall(f.Info, call, v.closeFn) || len(call.Args) != 2 {
					continue
				}
				t := target{call: call}
				if inner, ok := ast.Unparen(call.Args[1]).(*ast.CallExpr); ok && flow.IsPkgFunc(f.Info, inner, "os", "NewSyscallError") && len(inner.Args) == 2 {
					t.errObj = flow.ObjOf(f.Info, inner.Args[1])
				} else if o := flow.ObjOf(f.Info, call.Args[1]); o != nil && isErrorType(o.Type()) && !flow.IsNil(f.Info, call.Args[1]) {
					if _, isVar := o.(*types.Var); isVar && o.Pkg() != nil && f.P.InModule(o) && o.Parent() != o.Pkg().Scope() {
						t.errObj = o // a local error variable passed as the cause
					}
				}
				targets = append(targets, t)
			}
			for _, t := range targets {
				arg := t.call.Args[1]
				isNilLit := flow.IsNil(f.Info, arg)
				class := ""
				switch {
				case isNilLit:
					class = "nil"
				case flow.ObjOf(f.Info, arg) != nil && flow.ObjOf(f.Info, arg).Pkg() != nil && flow.ObjOf(f.Info, arg).Pkg().Path() == "io" && flow.ObjOf(f.Info, arg).Name() == "EOF":
					class = "nonnil"
				case t.errObj != nil:
					if errNonNilAt(f, g, t.call, t.errObj) {
						class = "nonnil"
					} else {
						class = "maybe-nil"
					}
				default:
					class = "unknown"
				}
				underClose := underCaseClose(f, g, t.call, closeAction)
				want := ""
				switch {
				case localCause[f.Name]:
					want = "nil"
				case ioCause[f.Name]:
					want = "nonnil"
				case f.Name == "gnet.(*eventloop).read":
					if underClose {
						want = "nil"
					} else {
						want = "nonnil"
					}
				default:
					// a function outside the two cause tables: a literal nil (nothing failed here) and a provably non-nil
					// error are both consistent; only an error that may be nil is wrong
					if class == "nil" || class == "nonnil" {
						c.Ok(f.Name, "close cause "+exprStr(arg), t.call.Pos(), "cause class "+class+" (function not in the cause tables; judged by the argument)")
					} else {
						c.Violate(f.Name, "close cause "+exprStr(arg), t.call.Pos(), "the close cause may be nil although it is computed from an error: OnClose would report nil for an I/O-induced close")
					}
					continue
				}
				construct := "close cause " + exprStr(arg)
				if underClose {
					construct += " (Close action)"
				}
				msg := "OnClose would report a nil error for a peer/I-O induced close"
				if want == "nil" {
					msg = "OnClose would report a non-nil error for a locally requested close"
				}
				if class == "maybe-nil" {
					msg = "the error wrapped by os.NewSyscallError may be nil on a path to this close: OnClose would report nil for an I/O-induced close"
				}
				c.Check(class == want, f.Name, construct, t.call.Pos(), "cause class "+want, msg)
			}
		}
	}
}

func allLits(n ast.Node) []*ast.FuncLit {
	var out []*ast.FuncLit
	ast.Inspect(n, func(x ast.Node) bool {
		if fl, ok := x.(*ast.FuncLit); ok {
			out = append(out, fl)
		}
		return true
	})
	return out
}

// underCaseClose: the call is reached only on the true edge of "<tag> == Close" of a tagged switch.
func underCaseClose(f *fn, g *flow.Graph, site *ast.CallExpr, closeAction *types.Const) bool {
	p := &flow.Problem{Must: true}
	p.Edge = func(e *flow.Edge, in uint64) uint64 {
		if l, r, eq, ok := flow.Equality(e); ok && eq && (flow.ObjOf(f.Info, r) == types.Object(closeAction) || flow.ObjOf(f.Info, l) == types.Object(closeAction)) {
			in |= 1
		}
		return in
	}
	sol := g.Solve(p)
	res := false
	sol.Walk(func(b *flow.Block, i int, n ast.Node, before uint64) {
		for _, cl := range flow.Calls(n) {
			if cl == site && before&1 != 0 {
				res = true
			}
		}
	})
	return res
}

// errNonNilAt decides whether errObj is non-nil at site on every path, tracking also the zero-ness
// of int variables compared with 0 in the same conditions (err != nil || n == 0 idiom).
func errNonNilAt(f *fn, g *flow.Graph, site *ast.CallExpr, errObj types.Object) bool {
	if nonNilByFacts(f, g, site, errObj) {
		return true
	}
	// find an int variable compared with 0 anywhere in the body (at most one is tracked)
	var nObj types.Object
	ast.Inspect(g.Body, func(n ast.Node) bool {
		if be, ok := n.(*ast.BinaryExpr); ok && (be.Op == token.EQL || be.Op == token.NEQ) {
			if cv := flow.ConstOf(f.Info, be.Y); cv != nil && cv.Kind() == constant.Int && constant.Sign(cv) == 0 {
				if o := flow.ObjOf(f.Info, be.X); o != nil && nObj == nil {
					nObj = o
				}
			}
		}
		return true
	})
	const (
		eNN   = 1
		nZero = 2
		nNonZ = 4
	)
	isErr := func(e ast.Expr) bool { return flow.ObjOf(f.Info, e) == errObj }
	au := &flow.Auto{Start: 0}
	au.Node = func(b *flow.Block, i int, n ast.Node, s int) int {
		flow.Events(n, func(x ast.Node) {
			as, ok := x.(*ast.AssignStmt)
			if !ok {
				return
			}
			for k, l := range as.Lhs {
				if isErr(l) {
					s &^= eNN
					if len(as.Rhs) == len(as.Lhs) {
						if o := flow.ObjOf(f.Info, as.Rhs[k]); o != nil && o.Pkg() != nil && o.Pkg().Path() == "io" && nameOf(o) == "EOF" {
							s |= eNN
						}
					}
				}
				if nObj != nil && flow.ObjOf(f.Info, l) == nObj {
					s &^= nZero | nNonZ
				}
			}
		})
		return s
	}
	au.Edge = func(e *flow.Edge, s int) int {
		if e.Cond == nil {
			return s
		}
		if e.Tag != nil {
			// switch err { case nil: … default: }
			if isErr(e.Tag) && flow.IsNil(f.Info, e.Cond) {
				if e.Sense {
					if s&eNN != 0 {
						return -1
					}
					return s
				}
				return s | eNN
			}
			return s
		}
		x, y, op, ok := flow.Cmp(e.Cond)
		if !ok {
			return s
		}
		if isErr(x) && flow.IsNil(f.Info, y) {
			nonNil := (op == token.NEQ && e.Sense) || (op == token.EQL && !e.Sense)
			if nonNil {
				return s | eNN
			}
			if s&eNN != 0 {
				return -1
			}
			return s
		}
		if nObj != nil && flow.ObjOf(f.Info, x) == nObj {
			if cv := flow.ConstOf(f.Info, y); cv != nil && cv.Kind() == constant.Int && constant.Sign(cv) == 0 {
				zero := (op == token.EQL && e.Sense) || (op == token.NEQ && !e.Sense)
				if zero {
					if s&nNonZ != 0 {
						return -1
					}
					return s | nZero
				}
				if s&nZero != 0 {
					return -1
				}
				return s | nNonZ
			}
		}
		return s
	}
	sol := g.Run(au)
	ok := false
	seen := false
	sol.Walk(func(b *flow.Block, i int, n ast.Node, before uint64) {
		for _, cl := range flow.Calls(n) {
			if cl == site {
				seen = true
				ok = before != 0
				for _, st := range flow.States(before) {
					if st&eNN == 0 {
						ok = false
					}
				}
			}
		}
	})
	return seen && ok
}

func runC04_8(c *core.Ctx) {
	v := vocabOf(c)
	if v == nil {
		return
	}
	f := getFn(c, "", "conn.release")
	release := c.P.Func("pkg/buffer/elastic", "Buffer.Release")
	isDatagram := c.P.Field("", "conn", "isDatagram")
	if f == nil || !c.Need("elastic.Buffer.Release", release) || !c.Need("conn.isDatagram", isDatagram) {
		return
	}
	// every return of release has passed outboundBuffer.Release() unless the isDatagram edge was taken
	const (
		fReleased = 1 << iota
		fDatagram
	)
	p := &flow.Problem{Must: true}
	p.Node = func(b *flow.Block, i int, n ast.Node, in uint64) uint64 {
		for _, cl := range flow.Calls(n) {
			if flow.IsCall(f.Info, cl, release) {
				if r := flow.Recv(cl); r != nil && flow.FieldOf(f.Info, r) == v.outbound {
					in |= fReleased
				}
			}
		}
		return in
	}
	au := &flow.Auto{Start: 0}
	au.Node = func(b *flow.Block, i int, n ast.Node, s int) int { return int(p.Node(b, i, n, uint64(s))) }
	au.Edge = func(e *flow.Edge, s int) int {
		if e.Cond != nil && e.Tag == nil && flow.FieldOf(f.Info, e.Cond) == isDatagram && e.Sense {
			return s | fDatagram
		}
		return s
	}
	sol := f.Graph().Run(au)
	sol.AtExit(func(b *flow.Block, _ uint64) {
		bad := false
		for _, s := range flow.States(sol.Out(b)) {
			if s&fReleased == 0 && s&fDatagram == 0 {
				bad = true
			}
		}
		c.Check(!bad, f.Name, "outbound buffer emptied", b.Return.Pos(), "release() empties the outbound buffer of stream conns",
			"release() can return without emptying the outbound buffer of a stream conn: a stale writable event would flush old data to a reused descriptor")
	})
}

// nonNilByFacts: a must-analysis over all local error variables. A variable is known non-nil after the
// true edge of `v != nil` (false edge of `v == nil`), after `v = io.EOF`, after a copy of a known
// variable and after `v = os.NewSyscallError(_, w)` with w known (NewSyscallError returns nil only for nil).
func nonNilByFacts(f *fn, g *flow.Graph, site *ast.CallExpr, errObj types.Object) bool {
	var vars []types.Object
	idx := func(o types.Object) int {
		for i, v := range vars {
			if v == o {
				return i
			}
		}
		return -1
	}
	ast.Inspect(g.Body, func(n ast.Node) bool {
		if id, ok := n.(*ast.Ident); ok {
			o := f.Info.Defs[id]
			if o == nil {
				o = f.Info.Uses[id]
			}
			if v, ok := o.(*types.Var); ok && !v.IsField() && isErrorType(v.Type()) && idx(v) < 0 && len(vars) < 60 {
				vars = append(vars, v)
			}
		}
		return true
	})
	me := idx(errObj)
	if me < 0 {
		return false
	}
	known := func(e ast.Expr, in uint64) bool {
		e = ast.Unparen(e)
		if o := flow.ObjOf(f.Info, e); o != nil {
			if o.Pkg() != nil && o.Pkg().Path() == "io" && nameOf(o) == "EOF" {
				return true
			}
			if k := idx(o); k >= 0 {
				return in&(1<<uint(k)) != 0
			}
		}
		if call, ok := e.(*ast.CallExpr); ok && flow.IsPkgFunc(f.Info, call, "os", "NewSyscallError") && len(call.Args) == 2 {
			if o := flow.ObjOf(f.Info, call.Args[1]); o != nil {
				if k := idx(o); k >= 0 {
					return in&(1<<uint(k)) != 0
				}
			}
		}
		return false
	}
	p := &flow.Problem{Must: true}
	p.Node = func(b *flow.Block, i int, n ast.Node, in uint64) uint64 {
		flow.Events(n, func(x ast.Node) {
			as, ok := x.(*ast.AssignStmt)
			if !ok {
				return
			}
			out := in
			for k, l := range as.Lhs {
				j := idx(flow.ObjOf(f.Info, l))
				if j < 0 {
					continue
				}
				out &^= 1 << uint(j)
				if len(as.Rhs) == len(as.Lhs) && known(as.Rhs[k], in) {
					out |= 1 << uint(j)
				}
			}
			in = out
		})
		return in
	}
	p.Edge = func(e *flow.Edge, in uint64) uint64 {
		if e.Cond == nil || e.Tag != nil {
			return in
		}
		if x, y, op, ok := flow.Cmp(e.Cond); ok && flow.IsNil(f.Info, y) {
			if k := idx(flow.ObjOf(f.Info, x)); k >= 0 && (op == token.NEQ) == e.Sense {
				in |= 1 << uint(k)
			}
		}
		return in
	}
	sol := g.Solve(p)
	res := false
	sol.Walk(func(b *flow.Block, i int, n ast.Node, before uint64) {
		for _, call := range flow.Calls(n) {
			if call == site && before&(1<<uint(me)) != 0 {
				res = true
			}
		}
	})
	return res
}

// openedGuardAtEntry: the callee itself refuses a closed connection before it does anything – every
// call in its body is reached only over the edge where its receiver's opened flag is true, and the
// other edge returns net.ErrClosed. A guard moved from all callers into the callee is the same guard.
func openedGuardAtEntry(c *core.Ctx, v *vocab, callee *types.Func, errClosed types.Object) bool {
	wf := fnOf(c, callee)
	if wf == nil || wf.recvVar() == nil {
		return false
	}
	const (
		fOpen = 1 << iota
		fNotOpen
	)
	isOpened := func(e ast.Expr) bool {
		sel, ok := ast.Unparen(e).(*ast.SelectorExpr)
		return ok && flow.FieldOf(wf.Info, sel) == v.opened && flow.ObjOf(wf.Info, sel.X) == types.Object(wf.recvVar())
	}
	p := &flow.Problem{Must: true}
	p.Edge = func(e *flow.Edge, in uint64) uint64 {
		if e.Cond != nil && e.Tag == nil && isOpened(e.Cond) {
			if e.Sense {
				in |= fOpen
			} else {
				in |= fNotOpen
			}
		}
		return in
	}
	sol := wf.Graph().Solve(p)
	okk, calls := true, 0
	sol.Walk(func(b *flow.Block, i int, n ast.Node, before uint64) {
		for _, cl := range flow.Calls(n) {
			if id, ok := cl.Fun.(*ast.Ident); ok {
				if _, builtin := wf.Info.Uses[id].(*types.Builtin); builtin {
					continue
				}
			}
			calls++
			if before&fOpen == 0 {
				okk = false
			}
		}
	})
	refused := false
	sol.AtExit(func(b *flow.Block, facts uint64) {
		if facts&fNotOpen == 0 {
			return
		}
		r := b.Return
		if len(r.Results) > 0 && flow.ObjOf(wf.Info, r.Results[len(r.Results)-1]) == errClosed {
			refused = true
		} else {
			okk = false
		}
	})
	return okk && refused && calls > 0
}
