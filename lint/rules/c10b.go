package rules

import (
	"go/ast"
	"go/token"
	"go/types"

	"gnetlint/core"
	"gnetlint/flow"
)

func init() {
	register(&core.Rule{ID: "C10.9", Prop: "C10", MinSites: 5,
		Desc: "accepted means stored: elastic.Buffer.Write hands its payload (or both halves p[:k], p[k:] of one split) to the ring/list before every return; in Writev every iteration of a loop over the segments stores its segment on every path, and a segment split as b[:k] is completed by b[k:] with the same k",
		Run:  runC10_9})
}

// storeArg: call is a method call on mb.ringBuffer / mb.listBuffer; returns its payload-like arguments.
func (a *elAnch) isStore(f *fn, call *ast.CallExpr) bool {
	r := flow.Recv(call)
	if r == nil {
		return false
	}
	fl := flow.FieldOf(f.Info, r)
	return fl == a.ringF || fl == a.listF
}

// elemOf: e is v, v[:k], v[k:], v[i] (for the segment list) — returns the base variable and the slice bounds.
func sliceParts(info *types.Info, e ast.Expr) (base types.Object, low, high ast.Expr, sliced bool) {
	e = ast.Unparen(e)
	if se, ok := e.(*ast.SliceExpr); ok {
		return flow.ObjOf(info, se.X), se.Low, se.High, true
	}
	return flow.ObjOf(info, e), nil, nil, false
}

func runC10_9(c *core.Ctx) {
	a := elAnchors(c)
	if a == nil {
		return
	}
	// --- Write(p)
	if f := a.funcs["Write"]; f != nil {
		p := f.param(0)
		payload := derivedVars(f.Info, f.Decl.Body, map[types.Object]bool{types.Object(p): true})
		prob := &flow.Problem{Must: true}
		prob.Node = func(b *flow.Block, i int, n ast.Node, in uint64) uint64 {
			for _, call := range flow.Calls(n) {
				if !a.isStore(f, call) {
					continue
				}
				for _, arg := range call.Args {
					if base, _, _, _ := sliceParts(f.Info, arg); base != nil && payload[base] {
						in |= 1
					}
				}
			}
			return in
		}
		sol := f.Graph().Solve(prob)
		k := 0
		sol.AtExit(func(b *flow.Block, facts uint64) {
			k++
			c.Check(facts&1 != 0, f.Name, "return #"+itoa(k)+" after the payload was stored", b.Return.Pos(), "payload handed to the ring or the list",
				"elastic.Buffer.Write can return without having stored p in the ring or the list: the bytes are reported as accepted and dropped")
		})
		checkSplits(c, a, f, f.Decl.Body)
	} else {
		c.Undecided("elastic.Buffer", "Write", 0, "elastic.Buffer.Write not found")
	}
	// --- Writev(bs)
	if f := a.funcs["Writev"]; f != nil {
		bs := f.param(0)
		loops := 0
		ast.Inspect(f.Decl.Body, func(n ast.Node) bool {
			var body *ast.BlockStmt
			var elem func(e ast.Expr) bool
			switch x := n.(type) {
			case *ast.RangeStmt:
				if !rangesOverSegments(f, x.X, bs) || x.Value == nil {
					return true
				}
				ev := flow.ObjOf(f.Info, x.Value)
				body = x.Body
				elem = func(e ast.Expr) bool { base, _, _, _ := sliceParts(f.Info, e); return base != nil && base == ev }
			case *ast.ForStmt:
				// for …; pos < len(bs); … { … bs[pos] … }
				uses := false
				ast.Inspect(x.Body, func(m ast.Node) bool {
					if ie, ok := m.(*ast.IndexExpr); ok && flow.ObjOf(f.Info, ie.X) == types.Object(bs) {
						uses = true
					}
					return true
				})
				if !uses {
					return true
				}
				body = x.Body
				segVars := segmentLocals(f, x.Body, bs)
				elem = func(e ast.Expr) bool {
					e = ast.Unparen(e)
					if se, ok := e.(*ast.SliceExpr); ok {
						e = ast.Unparen(se.X)
					}
					if o := flow.ObjOf(f.Info, e); o != nil && segVars[o] {
						return true // b := bs[i] at the top of the body
					}
					ie, ok := e.(*ast.IndexExpr)
					return ok && flow.ObjOf(f.Info, ie.X) == types.Object(bs)
				}
			default:
				return true
			}
			loops++
			stores := func(s ast.Stmt) bool {
				found := false
				ast.Inspect(s, func(m ast.Node) bool {
					if call, ok := m.(*ast.CallExpr); ok && a.isStore(f, call) {
						for _, arg := range call.Args {
							if elem(arg) {
								found = true
							}
						}
					}
					return true
				})
				return found
			}
			ok, pos := allPathsStore(body.List, false, stores)
			if !ok && pureAccounting(f, body) && laterFullStore(f, a, bs, n.(ast.Stmt)) {
				// a pass that only totals lengths, followed in the same block by a loop over all segments that stores each
				c.Ok(f.Name, "loop #"+itoa(loops)+" stores its segment on every path", body.Pos(), "accounting pass; the next loop over the segments stores them")
				return true
			}
			c.Check(ok, f.Name, "loop #"+itoa(loops)+" stores its segment on every path", body.Pos(), "each iteration hands its segment to the ring or the list",
				"an iteration of this loop over the segments can end (at "+c.P.Fset.Position(pos).String()+") without its segment having been stored: that segment is counted as accepted and dropped")
			checkSplits(c, a, f, body)
			return true
		})
		if loops == 0 {
			c.Undecided(f.Name, "loops over the segments", f.Decl.Pos(), "no loop over the segment list found")
		}
	} else {
		c.Undecided("elastic.Buffer", "Writev", 0, "elastic.Buffer.Writev not found")
	}
}

// allPathsStore walks structured statements: every way of leaving the list (falling off the end, break,
// continue, return) must have passed a storing statement. Returns the first offending exit.
func allPathsStore(list []ast.Stmt, stored bool, stores func(ast.Stmt) bool) (bool, token.Pos) {
	for _, s := range list {
		switch x := s.(type) {
		case *ast.IfStmt:
			thenStored, thenTerm, ok, pos := branchStore(x.Body.List, stored, stores)
			if !ok {
				return false, pos
			}
			elseStored, elseTerm := stored, false
			if x.Else != nil {
				var el []ast.Stmt
				switch e := x.Else.(type) {
				case *ast.BlockStmt:
					el = e.List
				default:
					el = []ast.Stmt{e}
				}
				var ok2 bool
				elseStored, elseTerm, ok2, pos = branchStore(el, stored, stores)
				if !ok2 {
					return false, pos
				}
			}
			switch {
			case thenTerm && elseTerm:
				return true, token.NoPos
			case thenTerm:
				stored = elseStored
			case elseTerm:
				stored = thenStored
			default:
				stored = thenStored && elseStored
			}
		case *ast.BranchStmt, *ast.ReturnStmt:
			if !stored {
				return false, s.Pos()
			}
			return true, token.NoPos
		default:
			if stores(s) {
				stored = true
			}
		}
	}
	if !stored {
		if len(list) > 0 {
			return false, list[len(list)-1].End()
		}
		return false, token.NoPos
	}
	return true, token.NoPos
}

// branchStore: like allPathsStore for a branch that may fall through; reports whether it terminates.
func branchStore(list []ast.Stmt, stored bool, stores func(ast.Stmt) bool) (storedAfter, terminates, ok bool, pos token.Pos) {
	for i, s := range list {
		switch s.(type) {
		case *ast.BranchStmt, *ast.ReturnStmt:
			if !stored {
				return stored, true, false, s.Pos()
			}
			return stored, true, true, token.NoPos
		case *ast.IfStmt:
			// nested: treat conservatively through allPathsStore on the remainder when it terminates everything
			okk, p := allPathsStoreNested(list[i:], stored, stores)
			return okk.stored, okk.term, okk.ok, p
		default:
			if stores(s) {
				stored = true
			}
		}
	}
	return stored, false, true, token.NoPos
}

type nestedRes struct{ stored, term, ok bool }

func allPathsStoreNested(list []ast.Stmt, stored bool, stores func(ast.Stmt) bool) (nestedRes, token.Pos) {
	// a nested if inside a branch: require the simple shape "stores happen before it" or fall back to any-store
	for _, s := range list {
		if stores(s) {
			stored = true
		}
	}
	term := false
	if n := len(list); n > 0 {
		switch list[n-1].(type) {
		case *ast.BranchStmt, *ast.ReturnStmt:
			term = true
		}
	}
	return nestedRes{stored, term, true}, token.NoPos
}

// checkSplits: a store of x[:k] must be completed by a store of x[k:] (same x, same k) later in the same block.
func checkSplits(c *core.Ctx, a *elAnch, f *fn, scope ast.Node) {
	ast.Inspect(scope, func(n ast.Node) bool {
		blk, ok := n.(*ast.BlockStmt)
		if !ok {
			return true
		}
		for i, s := range blk.List {
			switch s.(type) {
			case *ast.ExprStmt, *ast.AssignStmt:
			default:
				continue // compound statements are visited as blocks of their own
			}
			var first *ast.SliceExpr
			ast.Inspect(s, func(m ast.Node) bool {
				if call, ok := m.(*ast.CallExpr); ok && a.isStore(f, call) && len(call.Args) == 1 {
					if se, ok := ast.Unparen(call.Args[0]).(*ast.SliceExpr); ok && se.Low == nil && se.High != nil {
						first = se
					}
				}
				return true
			})
			if first == nil {
				continue
			}
			base, k := flow.ObjOf(f.Info, first.X), flow.ObjOf(f.Info, first.High)
			if ie, ok := ast.Unparen(first.X).(*ast.IndexExpr); ok {
				base = flow.ObjOf(f.Info, ie.X)
			}
			done := false
			for _, t := range blk.List[i+1:] {
				ast.Inspect(t, func(m ast.Node) bool {
					if call, ok := m.(*ast.CallExpr); ok && a.isStore(f, call) && len(call.Args) == 1 {
						if se, ok := ast.Unparen(call.Args[0]).(*ast.SliceExpr); ok && se.High == nil && se.Low != nil {
							b2 := flow.ObjOf(f.Info, se.X)
							if ie, ok := ast.Unparen(se.X).(*ast.IndexExpr); ok {
								b2 = flow.ObjOf(f.Info, ie.X)
							}
							if b2 == base && k != nil && flow.ObjOf(f.Info, se.Low) == k {
								done = true
							}
						}
					}
					return true
				})
			}
			c.Check(done, f.Name, "split "+exprStr(first)+" completed", first.Pos(), "the rest "+exprStr(first.X)+"["+exprStr(first.High)+":] is stored next",
				"the first part "+exprStr(first)+" of a payload is stored but the rest (from the same index on) is not stored in the same block: the tail of the payload is dropped or a different cut is used")
		}
		return true
	})
}

func init() {
	register(&core.Rule{ID: "C10.12", Prop: "C10", MinSites: 3,
		Desc: "the unconditional release is the owner's: elastic.RingBuffer.Done (which pools the ring whatever it still holds) is called only from the teardown paths conn.release, conn.resetBuffer and elastic.Buffer.Release; the consuming operations use done(), which pools the ring only when it is empty",
		Run:  runC10_12})
}

func runC10_12(c *core.Ctx) {
	doneFn := c.P.Func("pkg/buffer/elastic", "RingBuffer.Done")
	if !c.Need("RingBuffer.Done", doneFn) {
		return
	}
	allowed := map[string]string{
		"gnet.(*conn).release":        "the connection is gone: whatever its inbound ring holds is dropped on purpose",
		"gnet.(*conn).resetBuffer":    "Discard of everything: the ring was Reset just before",
		"elastic.(*Buffer).Release":   "teardown of the outbound buffer of a closed connection",
		"elastic.(*RingBuffer).Reset": "",
	}
	allFuncs(c, func(f *fn) {
		k := 0
		for _, call := range callsIn(f.Decl.Body, true) {
			if !flow.IsCall(f.Info, call, doneFn) {
				continue
			}
			k++
			why, ok := allowed[f.Name]
			c.Check(ok, f.Name, "RingBuffer.Done() #"+itoa(k), call.Pos(), "teardown path: "+why,
				f.Name+" releases the ring unconditionally (Done): if the operation leaves bytes in it – a writer that took only part, a partial read – those bytes go back to the pool with the ring and disappear from the stream; operations that consume use done(), which releases the ring only when it is empty")
		}
	})
}

func init() {
	register(&core.Rule{ID: "C10.14", Prop: "C10", MinSites: 2,
		Desc: "Reset and Release empty both halves: on every path elastic.Buffer.Reset calls ringBuffer.Reset() and listBuffer.Reset(), and Release calls ringBuffer.Done() and listBuffer.Reset() – a half left filled is delivered in front of (ring) or behind (list) the data of the next user of the buffer",
		Run:  runC10_14})
}

func runC10_14(c *core.Ctx) {
	a := elAnchors(c)
	if a == nil {
		return
	}
	want := map[string][][2]string{
		"Reset":   {{"ring", "Reset"}, {"list", "Reset"}},
		"Release": {{"ring", "Done"}, {"list", "Reset"}},
	}
	for _, name := range []string{"Reset", "Release"} {
		f := a.funcs[name]
		if f == nil {
			c.Undecided("anchor", "elastic.Buffer."+name, 0, "method not found")
			continue
		}
		p := &flow.Problem{Must: true}
		p.Node = func(b *flow.Block, i int, n ast.Node, in uint64) uint64 {
			for _, call := range flow.Calls(n) {
				h, m := a.half(f, call)
				for k, w := range want[name] {
					if h == w[0] && m == w[1] {
						in |= 1 << uint(k)
					}
				}
			}
			return in
		}
		sol := f.Graph().Solve(p)
		missing := ""
		var at token.Pos
		sol.AtExit(func(b *flow.Block, facts uint64) {
			for k, w := range want[name] {
				if facts&(1<<uint(k)) == 0 && missing == "" {
					missing, at = w[0]+"Buffer."+w[1]+"()", b.Return.Pos()
				}
			}
		})
		if at == token.NoPos {
			at = f.Decl.Pos()
		}
		c.Check(missing == "", f.Name, "both halves emptied", at, "ring and list half are reset on every path",
			name+" can return without "+missing+": the bytes left in that half are delivered to whoever uses the buffer next, mixed into their stream")
	}
}

func init() {
	register(&core.Rule{ID: "C10.15", Prop: "C10", MinSites: 3,
		Desc: "accepted is what Writev reports: every loop of elastic.Buffer.Writev that stores segments adds len(segment) to a counter in each iteration (a top-level statement of the loop body, ahead of any break/continue), and that counter is what the following return hands back – the count is the caller's only statement of how much was accepted",
		Run:  runC10_15})
}

func runC10_15(c *core.Ctx) {
	a := elAnchors(c)
	if a == nil {
		return
	}
	f := a.funcs["Writev"]
	if f == nil {
		c.Undecided("anchor", "elastic.Buffer.Writev", 0, "method not found")
		return
	}
	segs := f.param(0)
	returned := map[types.Object]bool{}
	ast.Inspect(f.Decl.Body, func(n ast.Node) bool {
		if r, ok := n.(*ast.ReturnStmt); ok && len(r.Results) == 2 {
			if o := flow.ObjOf(f.Info, r.Results[0]); o != nil {
				returned[o] = true
			}
		}
		return true
	})
	// a counter may reach the return through a copy (count := n; return count, nil)
	for changed := true; changed; {
		changed = false
		ast.Inspect(f.Decl.Body, func(n ast.Node) bool {
			if as, ok := n.(*ast.AssignStmt); ok && len(as.Lhs) == len(as.Rhs) {
				for k, l := range as.Lhs {
					if lo := flow.ObjOf(f.Info, l); lo != nil && returned[lo] {
						if ro := flow.ObjOf(f.Info, as.Rhs[k]); ro != nil && !returned[ro] {
							if _, isVar := ro.(*types.Var); isVar {
								returned[ro] = true
								changed = true
							}
						}
					}
				}
			}
			return true
		})
	}
	// a separate pass that totals all segments up front is as good as counting while storing
	totalVars := map[types.Object]bool{}
	ast.Inspect(f.Decl.Body, func(n ast.Node) bool {
		rs, ok := n.(*ast.RangeStmt)
		if !ok || flow.ObjOf(f.Info, rs.X) != types.Object(segs) || rs.Value == nil || len(rs.Body.List) != 1 {
			return true
		}
		if as, ok := rs.Body.List[0].(*ast.AssignStmt); ok && as.Tok == token.ADD_ASSIGN && len(as.Lhs) == 1 && len(as.Rhs) == 1 {
			if call, ok := ast.Unparen(as.Rhs[0]).(*ast.CallExpr); ok && len(call.Args) == 1 {
				if id, ok := call.Fun.(*ast.Ident); ok && id.Name == "len" && flow.ObjOf(f.Info, call.Args[0]) == flow.ObjOf(f.Info, rs.Value) {
					if o := flow.ObjOf(f.Info, as.Lhs[0]); o != nil {
						totalVars[o] = true
					}
				}
			}
		}
		return true
	})
	// the return that follows a loop (first return statement after its end)
	nextReturns := func(after token.Pos) types.Object {
		var best *ast.ReturnStmt
		ast.Inspect(f.Decl.Body, func(n ast.Node) bool {
			if r, ok := n.(*ast.ReturnStmt); ok && r.Pos() > after && len(r.Results) == 2 && (best == nil || r.Pos() < best.Pos()) {
				best = r
			}
			return true
		})
		if best == nil {
			return nil
		}
		return flow.ObjOf(f.Info, best.Results[0])
	}
	k := 0
	ast.Inspect(f.Decl.Body, func(n ast.Node) bool {
		var body *ast.BlockStmt
		var seg types.Object
		segLocals := map[types.Object]bool{}
		switch x := n.(type) {
		case *ast.RangeStmt:
			if rangesOverSegments(f, x.X, segs) && x.Value != nil {
				body, seg = x.Body, flow.ObjOf(f.Info, x.Value)
			}
		case *ast.ForStmt:
			body = x.Body
			segLocals = segmentLocals(f, x.Body, segs)
		default:
			return true
		}
		if body == nil {
			return true
		}
		stores := false
		for _, call := range callsIn(body, false) {
			if h, m := a.half(f, call); (h == "list" && m == "PushBack") || (h == "ring" && m == "Write") {
				stores = true
			}
		}
		if !stores {
			return true
		}
		k++
		isSeg := func(e ast.Expr) bool {
			e = ast.Unparen(e)
			if seg != nil && flow.ObjOf(f.Info, e) == seg {
				return true
			}
			if o := flow.ObjOf(f.Info, e); o != nil && segLocals[o] {
				return true
			}
			if ix, ok := e.(*ast.IndexExpr); ok && flow.ObjOf(f.Info, ix.X) == types.Object(segs) {
				return true
			}
			return false
		}
		counted := false
		for _, st := range body.List {
			if as, ok := st.(*ast.AssignStmt); ok && as.Tok == token.ADD_ASSIGN && len(as.Lhs) == 1 && len(as.Rhs) == 1 {
				if call, ok := ast.Unparen(as.Rhs[0]).(*ast.CallExpr); ok && len(call.Args) == 1 {
					if id, ok := call.Fun.(*ast.Ident); ok && id.Name == "len" && isSeg(call.Args[0]) && returned[flow.ObjOf(f.Info, as.Lhs[0])] {
						counted = true
						break
					}
				}
			}
			leaves := false
			ast.Inspect(st, func(m ast.Node) bool {
				switch m.(type) {
				case *ast.BranchStmt, *ast.ReturnStmt:
					leaves = true
				case *ast.FuncLit:
					return false
				}
				return true
			})
			if leaves {
				break
			}
		}
		if !counted {
			if o := nextReturns(n.End()); o != nil && totalVars[o] {
				counted = true
			}
		}
		c.Check(counted, f.Name, "segment loop #"+itoa(k)+" counts what it stores", n.Pos(), "counter += len(segment) in every iteration; the counter is returned",
			"a loop of Writev stores segments without adding their length to the count it returns: Writev reports fewer bytes than it accepted, and a caller that trusts the count queues the 'rest' a second time")
		return true
	})
}

// pureAccounting: the loop body calls nothing but len/cap and assigns only local variables.
func pureAccounting(f *fn, body *ast.BlockStmt) bool {
	pure := true
	ast.Inspect(body, func(n ast.Node) bool {
		switch x := n.(type) {
		case *ast.CallExpr:
			if id, ok := x.Fun.(*ast.Ident); !ok || (id.Name != "len" && id.Name != "cap") {
				pure = false
			}
		case *ast.AssignStmt:
			for _, l := range x.Lhs {
				if _, ok := ast.Unparen(l).(*ast.Ident); !ok {
					pure = false
				}
			}
		case *ast.BranchStmt, *ast.ReturnStmt, *ast.GoStmt, *ast.DeferStmt, *ast.SendStmt:
			pure = false
		}
		return pure
	})
	return pure
}

// laterFullStore: a later statement of the same block ranges over all segments and stores each on every path.
func laterFullStore(f *fn, a *elAnch, bs *types.Var, loop ast.Stmt) bool {
	found := false
	ast.Inspect(f.Decl.Body, func(n ast.Node) bool {
		blk, ok := n.(*ast.BlockStmt)
		if !ok || found {
			return !found
		}
		at := -1
		for i, st := range blk.List {
			if st == loop {
				at = i
			}
		}
		if at < 0 {
			return true
		}
		for _, st := range blk.List[at+1:] {
			rs, ok := st.(*ast.RangeStmt)
			if !ok || flow.ObjOf(f.Info, rs.X) != types.Object(bs) || rs.Value == nil {
				if _, isRet := st.(*ast.ReturnStmt); isRet {
					break
				}
				continue
			}
			ev := flow.ObjOf(f.Info, rs.Value)
			stores := func(s ast.Stmt) bool {
				hit := false
				ast.Inspect(s, func(m ast.Node) bool {
					if call, ok := m.(*ast.CallExpr); ok && a.isStore(f, call) {
						for _, arg := range call.Args {
							if base, _, _, _ := sliceParts(f.Info, arg); base != nil && base == ev {
								hit = true
							}
						}
					}
					return true
				})
				return hit
			}
			if ok, _ := allPathsStore(rs.Body.List, false, stores); ok {
				found = true
			}
		}
		return true
	})
	return found
}

// rangesOverSegments: the ranged expression is the segment list or a slice of it (bs, bs[k:], bs[:k]).
func rangesOverSegments(f *fn, e ast.Expr, segs *types.Var) bool {
	e = ast.Unparen(e)
	if se, ok := e.(*ast.SliceExpr); ok {
		e = ast.Unparen(se.X)
	}
	return flow.ObjOf(f.Info, e) == types.Object(segs)
}

// segmentLocals: locals of a loop body that are bound exactly once, to an element of the segment list (b := bs[i]).
func segmentLocals(f *fn, body *ast.BlockStmt, segs *types.Var) map[types.Object]bool {
	out := map[types.Object]bool{}
	ast.Inspect(body, func(n ast.Node) bool {
		as, ok := n.(*ast.AssignStmt)
		if !ok || len(as.Lhs) != len(as.Rhs) {
			return true
		}
		for k, l := range as.Lhs {
			ie, ok := ast.Unparen(as.Rhs[k]).(*ast.IndexExpr)
			if !ok || flow.ObjOf(f.Info, ie.X) != types.Object(segs) {
				continue
			}
			if o, ok := flow.ObjOf(f.Info, l).(*types.Var); ok && assignCount(f, o) == 1 {
				out[o] = true
			}
		}
		return true
	})
	return out
}

func init() {
	register(&core.Rule{ID: "C10.18", Prop: "C10", MinSites: 10,
		Desc: "the elastic ring delegates by name: every method of elastic.RingBuffer that has a namesake on ring.Buffer hands its own parameters, in order, to that namesake of the pooled ring (b.rb, or b.instance() for the methods that store) in every call it makes on the ring – Buffered does not answer with Len, Peek does not forward a different count, Write does not go to WriteByte – and makes such a call",
		Run:  runC10_18})
}

func runC10_18(c *core.Ctx) {
	rbT, _ := c.P.Object("pkg/buffer/elastic", "RingBuffer").(*types.TypeName)
	ringT, _ := c.P.Object("pkg/buffer/ring", "Buffer").(*types.TypeName)
	rbF := c.P.Field("pkg/buffer/elastic", "RingBuffer", "rb")
	inst := c.P.Func("pkg/buffer/elastic", "RingBuffer.instance")
	if !c.Need("elastic.RingBuffer", rbT) || !c.Need("ring.Buffer", ringT) || !c.Need("RingBuffer.rb", rbF) || !c.Need("RingBuffer.instance", inst) {
		return
	}
	ringMethods := map[string]bool{}
	ms := types.NewMethodSet(types.NewPointer(ringT.Type()))
	for i := 0; i < ms.Len(); i++ {
		ringMethods[ms.At(i).Obj().Name()] = true
	}
	allFuncs(c, func(f *fn) {
		sig, _ := f.Obj.Type().(*types.Signature)
		if sig == nil || sig.Recv() == nil || f.Decl.Body == nil {
			return
		}
		rt := sig.Recv().Type()
		if p, ok := rt.(*types.Pointer); ok {
			rt = p.Elem()
		}
		if n, ok := rt.(*types.Named); !ok || n.Obj() != rbT {
			return
		}
		name := nameOf(f.Obj)
		if !ringMethods[name] || !f.Obj.Exported() {
			return
		}
		// calls on the ring: b.rb.X(…) / b.instance().X(…)
		onRing := func(call *ast.CallExpr) (string, bool) {
			sel, ok := ast.Unparen(call.Fun).(*ast.SelectorExpr)
			if !ok {
				return "", false
			}
			recv := seeThrough(f, sel.X)
			if flow.FieldOf(f.Info, recv) == rbF {
				if m, ok := f.Info.Uses[sel.Sel].(*types.Func); ok {
					return nameOf(m), true
				}
			}
			if ic, ok := recv.(*ast.CallExpr); ok && flow.IsCall(f.Info, ic, inst) {
				if m, ok := f.Info.Uses[sel.Sel].(*types.Func); ok {
					return nameOf(m), true
				}
			}
			return "", false
		}
		k, delegated := 0, false
		for _, call := range callsIn(f.Decl.Body, false) {
			m, ok := onRing(call)
			if !ok {
				continue
			}
			switch m {
			case "IsEmpty", "IsFull", "Buffered", "Available", "Len", "Cap":
				if m != name {
					continue // an observer consulted on the way (the emptiness test before the ring goes back to the pool, a guard)
				}
			}
			k++
			good := m == name && len(call.Args) == sig.Params().Len()
			if good {
				for i, a := range call.Args {
					if pv := f.param(i); pv == nil || flow.ObjOf(f.Info, seeThrough(f, a)) != types.Object(pv) || assignCount(f, pv) != 1 {
						good = false
					}
				}
			}
			delegated = delegated || good
			c.Check(good, f.Name, "call on the ring #"+itoa(k), call.Pos(), "delegates to ring.Buffer."+name+" with its own parameters",
				"elastic.RingBuffer."+name+" calls ring.Buffer."+m+" (or passes something other than its own parameters in order): the elastic wrapper answers with a different operation's result than the ring it wraps")
		}
		c.Check(delegated, f.Name, "delegation", f.Decl.Pos(), "reaches its namesake on the ring", "elastic.RingBuffer."+name+" never calls ring.Buffer."+name+" on its ring: the operation is answered without consulting the buffer's content")
	})
}
